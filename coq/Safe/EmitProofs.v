(* Proofs about the array-level model of decode()/emit() (Safe/EmitModel.v).

   Part 1: the un-RLE automaton [sread] (one step per block byte, resumable, with an
           output budget) and the refinement  emit_model  ~  sread  (label by label).
   Part 2: [sread] run over any sequence of budgets = [unrle] of Dec/Format.v.
   Part 3: decode(): safety, and the list it builds is the [follow]/[ibwt] walk. *)
From Coq Require Import List NArith Arith Bool Lia FinFun.
From LBZ Require Import Gen.Consts Gen.CrcTab Gen.DecTabs Dec.Prog Dec.Format Safe.EmitModel.
Import ListNotations.
Local Open Scope N_scope.

(* ======================================================================================== *)
(* Part 0: small facts                                                                      *)
(* ======================================================================================== *)
Lemma lxor_lt_pow2 a b n : a < 2 ^ n -> b < 2 ^ n -> N.lxor a b < 2 ^ n.
Proof.
  intros Ha Hb.
  destruct (N.eq_dec a 0) as [Ea|Na]; [subst a; rewrite N.lxor_0_l; exact Hb|].
  destruct (N.eq_dec b 0) as [Eb|Nb]; [subst b; rewrite N.lxor_0_r; exact Ha|].
  destruct (N.eq_dec (N.lxor a b) 0) as [E|E]; [rewrite E; lia|].
  apply N.log2_lt_pow2; [lia|].
  eapply N.le_lt_trans; [apply N.log2_lxor|].
  apply N.max_lub_lt; apply N.log2_lt_pow2; lia.
Qed.

Lemma crc_table_length : length crc_table = 256%nat.
Proof. reflexivity. Qed.

Lemma crc_table_bound : forall i, nth i crc_table 0 < W32.
Proof.
  assert (H : forallb (fun x => x <? W32) crc_table = true) by (vm_compute; reflexivity).
  rewrite forallb_forall in H. intros i.
  destruct (Nat.lt_ge_cases i (length crc_table)) as [L|L].
  - apply N.ltb_lt, H, nth_In, L.
  - rewrite nth_overflow by exact L. reflexivity.
Qed.

Lemma crc_idx_lt s x : s < W32 -> x < 256 -> N.lxor (N.shiftr s 24) x < 256.
Proof.
  intros Hs Hx. change 256 with (2 ^ 8). apply lxor_lt_pow2; [|exact Hx].
  rewrite N.shiftr_div_pow2. apply N.div_lt_upper_bound; [discriminate|]. exact Hs.
Qed.

Lemma crc_step_lt s x : crc_step s x < W32.
Proof.
  unfold crc_step. change W32 with (2 ^ 32). apply lxor_lt_pow2.
  - eapply N.le_lt_trans with (m := mask32); [|reflexivity].
    change mask32 with (N.ones 32). rewrite N.land_ones.
    assert (H := N.mod_upper_bound (N.shiftl s 8) (2 ^ 32)).
    change (N.ones 32) with (2 ^ 32 - 1) in *. lia.
  - apply crc_table_bound.
Qed.

Lemma crc_bytes_lt : forall l s, s < W32 -> crc_bytes s l < W32.
Proof.
  induction l as [|x l IH]; intros s Hs; [exact Hs|].
  unfold crc_bytes in *. cbn [fold_left]. apply IH, crc_step_lt.
Qed.

Lemma crc_bytes_app s a b : crc_bytes s (a ++ b) = crc_bytes (crc_bytes s a) b.
Proof. unfold crc_bytes. apply fold_left_app. Qed.

Lemma get_nth l i d : (N.to_nat i < length l)%nat -> get l i = Good (nth (N.to_nat i) l d).
Proof. intros H. unfold get. rewrite (nth_error_nth' l d H). reflexivity. Qed.

Definition low8 (w : N) : N := w mod 256.
Lemma low8_lt w : low8 w < 256.
Proof. apply N.mod_upper_bound. discriminate. Qed.

(* ======================================================================================== *)
(* Part 1: the resumable un-RLE automaton and the refinement of emit()                      *)
(* ======================================================================================== *)
(* State of the automaton = state of [unrle]: (cnt, prev) = (k, d), plus the rest of the
   block.  A byte that emit() has read but not yet written (states 1,2,3,5), and the
   remaining repeat count (state 4), are kept at the head of [rest] ("pushed back").
   [m] output budget, [s] running CRC, [out] bytes written so far in this call. *)
Inductive aresult :=
| AMore (out : list N) (k d : N) (rest : list N) (s : N)
| AOk (out : list N) (s m : N)
| AErr (out : list N).

Definition crc_rep (s d n : N) : N := crc_bytes s (repeat d (N.to_nat n)).

Fixpoint sread (k d : N) (rest : list N) (m s : N) (out : list N) : aresult :=
  match rest with
  | [] => if k =? 4 then AErr out else AOk out s m
  | x :: r =>
      if k =? 4 then
        if m <? x then AMore (out ++ repeat d (N.to_nat m)) 4 d ((x - m) :: r) (crc_rep s d m)
        else sread 0 256 r (m - x) (crc_rep s d x) (out ++ repeat d (N.to_nat x))
      else if m =? 0 then AMore out k d (x :: r) s
      else sread (if x =? d then k + 1 else 1) x r (m - 1) (crc_step s x) (out ++ [x])
  end.

Inductive Walk (tt : list N) : N -> list N -> Prop :=
| W_nil p : Walk tt p []
| W_cons p w ws : nth_error tt (N.to_nat (N.shiftr p 8)) = Some w -> Walk tt w ws -> Walk tt p (w :: ws).

Lemma put_ok r x : r_s r < W32 -> x < 256 ->
  put r x = Good (mkR (r_p r) (r_a r) (crc_step (r_s r) x) (r_c r) (r_d r) (r_m r) (r_out r ++ [x]) (r_st r)).
Proof.
  intros Hs Hx. unfold put.
  rewrite (get_nth crc_table _ 0).
  - reflexivity.
  - rewrite crc_table_length. pose proof (crc_idx_lt _ _ Hs Hx). lia.
Qed.

Lemma putn_ok : forall n r x, r_s r < W32 -> x < 256 ->
  putn n r x = Good (mkR (r_p r) (r_a r) (crc_bytes (r_s r) (repeat x n)) (r_c r) (r_d r) (r_m r)
                         (r_out r ++ repeat x n) (r_st r)).
Proof.
  induction n as [|n IH]; intros r x Hs Hx.
  - cbn [putn repeat crc_bytes fold_left]. rewrite app_nil_r. destruct r; reflexivity.
  - cbn [putn]. rewrite put_ok by assumption. cbn [bind]. rewrite IH; cbn [r_s r_p r_a r_c r_d r_m r_out r_st]; auto using crc_step_lt.
    cbn [repeat]. unfold crc_bytes. cbn [fold_left]. rewrite <- app_assoc. reflexivity.
Qed.

Section EmitRefine.
  Variable tt : list N.
  Variable st0 : estate.
  Variable bufsz0 : N.

  Definition RegOK (r : regs) (ws : list N) : Prop :=
    Walk tt (r_p r) ws /\ r_a r = N.of_nat (length ws) /\ r_a r < M1 /\ r_s r < W32 /\
    r_m r < M1 /\ r_c r < 256 /\ r_d r < 256.

  (* what a saved state means *)
  Definition Inv (st : estate) (k d : N) (rest : list N) (s : N) : Prop :=
    exists ws, Walk tt (rle_index st) ws /\ rle_avail st = N.of_nat (length ws) /\ rle_avail st < M1 /\
      rle_crc st = s /\ s < W32 /\ rle_char st < 256 /\ rle_prev st < 256 /\
      ( (rle_state st = 0 /\ k = 0 /\ d = 256 /\ rest = map low8 ws)
     \/ (rle_state st = 5 /\ k = 0 /\ d = 256 /\ rest = rle_char st :: map low8 ws)
     \/ ((rle_state st = 1 \/ rle_state st = 2 \/ rle_state st = 3 \/ rle_state st = 4) /\
         k = rle_state st /\ d = rle_prev st /\ rest = rle_char st :: map low8 ws)).

  Definition Rres (x : res ret) (y : aresult) : Prop :=
    match y with
    | AMore out k d rest s =>
        exists st', x = Good (E_MORE, out, st', 0) /\ Inv st' k d rest s /\ ds_crc st' = ds_crc st0
    | AOk out s m => exists st', x = Good (E_OK, out, st', m) /\ ds_crc st' = N.lxor s M1
    | AErr out => x = Good (E_ERR_RUNLEN, out, st0, bufsz0)
    end.

  Ltac rsimp := cbn [r_p r_a r_s r_c r_d r_m r_out r_st set_p set_a set_c set_d set_m set_st bind
                     rle_state rle_crc rle_index rle_avail rle_char rle_prev ds_crc] in *.

  (* --- the exit protocol --- *)
  Lemma finish_ok r out s m : r_a r = M1 -> r_m r < M1 -> out = r_out r -> s = r_s r -> m = r_m r ->
    Rres (finish st0 r) (AOk out s m).
  Proof.
    intros Ha Hm -> -> ->. unfold finish. rewrite Ha.
    replace (r_m r =? M1) with false by (symmetry; apply N.eqb_neq; lia).
    cbn [N.eqb Bool.eqb M1 Pos.eqb]. eexists. split; [reflexivity|]. reflexivity.
  Qed.

  Lemma finish_more r ws out s k d rest : r_m r = M1 -> out = r_out r -> s = r_s r ->
    Walk tt (r_p r) ws -> r_a r = N.of_nat (length ws) -> r_a r < M1 -> r_s r < W32 -> r_c r < 256 -> r_d r < 256 ->
    ( (r_st r = 5 /\ k = 0 /\ d = 256 /\ rest = r_c r :: map low8 ws)
     \/ ((r_st r = 1 \/ r_st r = 2 \/ r_st r = 3 \/ r_st r = 4) /\
         k = r_st r /\ d = r_d r /\ rest = r_c r :: map low8 ws)) ->
    Rres (finish st0 r) (AMore out k d rest s).
  Proof.
    intros Hm -> -> HW Ha Ha1 Hs Hc Hd Hst. unfold finish. rewrite Hm.
    replace (r_a r =? M1) with false by (symmetry; apply N.eqb_neq; lia).
    cbn [N.eqb Bool.eqb M1 Pos.eqb]. eexists. split; [reflexivity|]. split; [|reflexivity].
    exists ws. rsimp. repeat (split; [assumption || reflexivity|]).
    destruct Hst as [H|H]; [right; left|right; right]; exact H.
  Qed.

  (* --- reading --- *)
  Lemma regs_nil r : RegOK r [] -> (r_a r =? 0) = true.
  Proof. intros (_ & Ha & _). rewrite Ha. reflexivity. Qed.

  Lemma rd_ok r w : nth_error tt (N.to_nat (N.shiftr (r_p r) 8)) = Some w ->
    rd tt r = Good (mkR w (r_a r) (r_s r) (low8 w) (r_d r) (r_m r) (r_out r) (r_st r)).
  Proof. intros H. unfold rd, get. rewrite H. reflexivity. Qed.

  Lemma regs_cons r w ws : RegOK r (w :: ws) ->
    (r_a r =? 0) = false /\ nth_error tt (N.to_nat (N.shiftr (r_p r) 8)) = Some w /\
    Walk tt w ws /\ r_a r - 1 = N.of_nat (length ws) /\ r_a r - 1 < M1.
  Proof.
    intros (HW & Ha & Ha1 & _). inversion HW as [|p w' ws' Hn HW']; subst.
    cbn [length] in Ha. split; [apply N.eqb_neq; lia|].
    split; [exact Hn|]. split; [exact HW'|]. split; lia.
  Qed.

  Lemma m_dec r : r_m r < M1 -> (r_m r =? 0) = false -> r_m r - 1 < M1.
  Proof. intros. lia. Qed.

  (* --- one of the four unrolled copies --- *)
  Lemma lstep_ok r ws kneq keq :
    RegOK r ws ->
    (forall r' ws', RegOK r' ws' -> (length ws' < length ws)%nat ->
       Rres (kneq r') (sread 1 (r_c r') (map low8 ws') (r_m r') (r_s r') (r_out r'))) ->
    (forall r' ws', RegOK r' ws' -> (length ws' < length ws)%nat ->
       Rres (keq r') (sread 2 (r_d r') (map low8 ws') (r_m r') (r_s r') (r_out r'))) ->
    Rres (lstep tt st0 r kneq keq) (sread 1 (r_c r) (map low8 ws) (r_m r) (r_s r) (r_out r)).
  Proof.
    intros HR Hn He. unfold lstep. destruct ws as [|w ws].
    - rewrite (regs_nil _ HR). cbn [map sread]. simpl (1 =? 4).
      destruct HR as (HW & Ha & Ha1 & Hs & Hm & Hc & Hd).
      apply finish_ok; rsimp; auto.
    - destruct (regs_cons _ _ _ HR) as (E0 & Hnth & HW' & Ha' & Ha1').
      destruct HR as (HW & Ha & Ha1 & Hs & Hm & Hc & Hd).
      rewrite E0. rewrite (rd_ok _ w) by (rsimp; exact Hnth). rsimp.
      cbn [map sread]. simpl (1 =? 4). fold (low8 w).
      destruct (r_m r =? 0) eqn:Em.
      + apply finish_more with (ws := ws); rsimp; auto 7 using low8_lt.
      + rewrite put_ok by (rsimp; auto using low8_lt). rsimp.
        destruct (low8 w =? r_c r) eqn:Ec; cbn [negb].
        * apply N.eqb_eq in Ec. simpl (1 + 1). rewrite Ec.
          specialize (He (mkR w (r_a r - 1) (crc_step (r_s r) (r_c r)) (r_c r) (r_c r) (r_m r - 1)
                              (r_out r ++ [r_c r]) (r_st r)) ws).
          rsimp. apply He; [|cbn [length]; lia].
          unfold RegOK; rsimp. apply N.eqb_neq in Em. repeat split; auto using crc_step_lt, low8_lt; lia.
        * specialize (Hn (mkR w (r_a r - 1) (crc_step (r_s r) (low8 w)) (low8 w) (r_c r) (r_m r - 1)
                              (r_out r ++ [low8 w]) (r_st r)) ws).
          rsimp. apply Hn; [|cbn [length]; lia].
          unfold RegOK; rsimp. apply N.eqb_neq in Em. repeat split; auto using crc_step_lt, low8_lt; lia.
  Qed.

  Ltac nz := symmetry; apply N.eqb_neq; lia.

  (* --- the rest of the loop body: two equal bytes already written --- *)
  Lemma ltail_ok r ws kcont :
    RegOK r ws ->
    (forall r' ws', RegOK r' ws' -> (length ws' < length ws)%nat ->
       Rres (kcont r') (sread 1 (r_c r') (map low8 ws') (r_m r') (r_s r') (r_out r'))) ->
    Rres (ltail tt st0 bufsz0 r kcont) (sread 2 (r_d r) (map low8 ws) (r_m r) (r_s r) (r_out r)).
  Proof.
    intros HR Hk. destruct r as [p a s c d m out st]. unfold RegOK in HR. rsimp.
    destruct HR as (HW & Ha & Ha1 & Hs & Hm & Hc & Hd).
    unfold ltail. rsimp.
    (* third byte *)
    destruct ws as [|w1 ws]; cbn [length map sread] in *.
    { subst a. cbn [N.of_nat N.eqb]. simpl (2 =? 4). apply finish_ok; rsimp; auto. }
    inversion HW as [|p' w' ws' Hn1 HW1]; subst p' w' ws'.
    replace (a =? 0) with false by nz.
    rewrite (rd_ok _ w1) by (rsimp; exact Hn1). rsimp. simpl (2 =? 4). fold (low8 w1).
    destruct (m =? 0) eqn:Em.
    { apply finish_more with (ws := ws); rsimp; auto 7 using low8_lt; lia. }
    apply N.eqb_neq in Em.
    rewrite put_ok by (rsimp; auto using low8_lt). rsimp.
    destruct (low8 w1 =? d) eqn:E1; cbn [negb].
    2:{ apply (Hk (mkR w1 (a - 1) (crc_step s (low8 w1)) (low8 w1) d (m - 1) (out ++ [low8 w1]) st) ws);
        [unfold RegOK; rsimp; repeat split; auto using crc_step_lt, low8_lt; lia | lia]. }
    apply N.eqb_eq in E1. rewrite E1 in *. simpl (2 + 1).
    pose proof (crc_step_lt s d) as Hs1.
    remember (crc_step s d) as s1 eqn:Es1. remember (out ++ [d]) as out1 eqn:Eo1.
    clear Es1 Eo1 Hs s out.
    (* fourth byte *)
    destruct ws as [|w2 ws]; cbn [length map sread] in *.
    { replace (a - 1 =? 0) with true by (symmetry; apply N.eqb_eq; lia).
      simpl (3 =? 4). apply finish_ok; rsimp; auto; lia. }
    inversion HW1 as [|p' w' ws' Hn2 HW2]; subst p' w' ws'.
    replace (a - 1 =? 0) with false by nz.
    rewrite (rd_ok _ w2) by (rsimp; exact Hn2). rsimp. simpl (3 =? 4). fold (low8 w2).
    destruct (m - 1 =? 0) eqn:Em1.
    { apply finish_more with (ws := ws); rsimp; auto 7 using low8_lt; lia. }
    apply N.eqb_neq in Em1.
    rewrite put_ok by (rsimp; auto using low8_lt). rsimp.
    destruct (low8 w2 =? d) eqn:E2; cbn [negb].
    2:{ apply (Hk (mkR w2 (a - 1 - 1) (crc_step s1 (low8 w2)) (low8 w2) d (m - 1 - 1) (out1 ++ [low8 w2]) st) ws);
        [unfold RegOK; rsimp; repeat split; auto using crc_step_lt, low8_lt; lia | lia]. }
    apply N.eqb_eq in E2. rewrite E2 in *. simpl (3 + 1).
    pose proof (crc_step_lt s1 d) as Hs2.
    remember (crc_step s1 d) as s2 eqn:Es2. remember (out1 ++ [d]) as out2 eqn:Eo2.
    clear Es2 Eo2 Hs1 s1 out1.
    (* the repeat count *)
    destruct ws as [|w3 ws]; cbn [length map sread] in *.
    { replace (a - 1 - 1 =? 0) with true by (symmetry; apply N.eqb_eq; lia).
      simpl (4 =? 4). reflexivity. }
    inversion HW2 as [|p' w' ws' Hn3 HW3]; subst p' w' ws'.
    replace (a - 1 - 1 =? 0) with false by nz.
    rewrite (rd_ok _ w3) by (rsimp; exact Hn3). rsimp. simpl (4 =? 4). fold (low8 w3).
    pose proof (low8_lt w3) as Hx.
    destruct (m - 1 - 1 <? low8 w3) eqn:Elt.
    { apply N.ltb_lt in Elt.
      rewrite putn_ok by (rsimp; auto). rsimp.
      apply finish_more with (ws := ws); rsimp; auto using crc_bytes_lt; try lia.
      right. split; [auto|]. auto. }
    apply N.ltb_ge in Elt.
    rewrite putn_ok by (rsimp; auto). rsimp. fold (crc_rep s2 d (low8 w3)).
    pose proof (crc_bytes_lt (repeat d (N.to_nat (low8 w3))) s2 Hs2) as Hs3. fold (crc_rep s2 d (low8 w3)) in Hs3.
    remember (crc_rep s2 d (low8 w3)) as s3 eqn:Es3.
    remember (out2 ++ repeat d (N.to_nat (low8 w3))) as out3 eqn:Eo3.
    clear Es3 Eo3 Hs2 s2 out2.
    (* first byte after the run *)
    destruct ws as [|w4 ws]; cbn [length map sread] in *.
    { replace (a - 1 - 1 - 1 =? 0) with true by (symmetry; apply N.eqb_eq; lia).
      simpl (0 =? 4). apply finish_ok; rsimp; auto; lia. }
    inversion HW3 as [|p' w' ws' Hn4 HW4]; subst p' w' ws'.
    replace (a - 1 - 1 - 1 =? 0) with false by nz.
    rewrite (rd_ok _ w4) by (rsimp; exact Hn4). rsimp. simpl (0 =? 4). fold (low8 w4).
    pose proof (low8_lt w4) as Hx4.
    destruct (m - 1 - 1 - low8 w3 =? 0) eqn:Em3.
    { apply finish_more with (ws := ws); rsimp; auto 7; lia. }
    apply N.eqb_neq in Em3.
    rewrite put_ok by (rsimp; auto). rsimp.
    replace (low8 w4 =? 256) with false by nz.
    apply (Hk (mkR w4 (a - 1 - 1 - 1 - 1) (crc_step s3 (low8 w4)) (low8 w4) d (m - 1 - 1 - low8 w3 - 1)
                   (out3 ++ [low8 w4]) st) ws);
      [unfold RegOK; rsimp; repeat split; auto using crc_step_lt; lia | lia].
  Qed.

  Lemma loop_ok : forall fuel r ws, (length ws < fuel)%nat -> RegOK r ws ->
    Rres (loop tt st0 bufsz0 fuel r) (sread 1 (r_c r) (map low8 ws) (r_m r) (r_s r) (r_out r)).
  Proof.
    induction fuel as [|f IH]; intros r ws Hf HR; [lia|].
    cbn [loop].
    assert (HT : forall r' ws', RegOK r' ws' -> (length ws' < length ws)%nat ->
              Rres (ltail tt st0 bufsz0 r' (loop tt st0 bufsz0 f))
                   (sread 2 (r_d r') (map low8 ws') (r_m r') (r_s r') (r_out r'))).
    { intros r' ws' H' L'. apply ltail_ok; auto. intros. apply IH; auto; lia. }
    apply lstep_ok; auto.
    intros r1 ws1 H1 L1. apply lstep_ok; auto; [|intros; apply HT; auto; lia].
    intros r2 ws2 H2 L2. apply lstep_ok; auto; [|intros; apply HT; auto; lia].
    intros r3 ws3 H3 L3. apply lstep_ok; auto; [|intros; apply HT; auto; lia].
    intros; apply IH; auto; lia.
  Qed.

  Lemma after_switch_loop r ws : RegOK r ws ->
    Rres (after_switch tt st0 bufsz0 r) (sread 1 (r_c r) (map low8 ws) (r_m r) (r_s r) (r_out r)).
  Proof.
    intros HR. unfold after_switch.
    destruct HR as (HW & Ha & Ha1 & Hs & Hm & Hc & Hd).
    replace (r_a r =? M1) with false by nz. replace (r_m r =? M1) with false by nz. cbn [negb andb].
    apply loop_ok; [|unfold RegOK; auto 10]. rewrite Ha, Nat2N.id. lia.
  Qed.

  Lemma after_switch_fin r : r_a r = M1 \/ r_m r = M1 -> after_switch tt st0 bufsz0 r = finish st0 r.
  Proof.
    intros [H|H]; unfold after_switch; rewrite H; cbn [N.eqb M1 Pos.eqb negb andb]; [reflexivity|].
    rewrite andb_false_r. reflexivity.
  Qed.

  Ltac destr_regs r HR :=
    destruct r as [p a s c d m out st]; unfold RegOK in HR; rsimp;
    destruct HR as (HW & Ha & Ha1 & Hs & Hm & Hc & Hd).

  Lemma case5_ok r ws : RegOK r ws ->
    Rres (case5 tt st0 bufsz0 r) (sread 0 256 (r_c r :: map low8 ws) (r_m r) (r_s r) (r_out r)).
  Proof.
    intros HR. destr_regs r HR. unfold case5. rsimp. cbn [sread]. simpl (0 =? 4).
    destruct (m =? 0) eqn:Em.
    { rewrite after_switch_fin by (right; reflexivity).
      apply finish_more with (ws := ws); rsimp; auto 7. }
    apply N.eqb_neq in Em. rewrite put_ok by (rsimp; auto). rsimp.
    replace (c =? 256) with false by nz.
    apply (after_switch_loop (mkR p a (crc_step s c) c d (m - 1) (out ++ [c]) st) ws).
    unfold RegOK; rsimp; repeat split; auto using crc_step_lt; lia.
  Qed.

  Lemma case0_ok r ws : RegOK r ws ->
    Rres (case0 tt st0 bufsz0 r) (sread 0 256 (map low8 ws) (r_m r) (r_s r) (r_out r)).
  Proof.
    intros HR. destr_regs r HR. unfold case0. rsimp.
    destruct ws as [|w ws]; cbn [length map] in *.
    { subst a. cbn [N.of_nat N.eqb sread]. simpl (0 =? 4).
      rewrite after_switch_fin by (left; reflexivity). apply finish_ok; rsimp; auto. }
    inversion HW as [|p' w' ws' Hn1 HW1]; subst p' w' ws'.
    replace (a =? 0) with false by nz.
    rewrite (rd_ok _ w) by (rsimp; exact Hn1). rsimp. fold (low8 w).
    apply (case5_ok (mkR w (a - 1) s (low8 w) d m out st) ws).
    unfold RegOK; rsimp; repeat split; auto using low8_lt; lia.
  Qed.

  Lemma case4_ok r ws : RegOK r ws ->
    Rres (case4 tt st0 bufsz0 r) (sread 4 (r_d r) (r_c r :: map low8 ws) (r_m r) (r_s r) (r_out r)).
  Proof.
    intros HR. destr_regs r HR. unfold case4. rsimp. cbn [sread]. simpl (4 =? 4).
    destruct (m <? c) eqn:Elt.
    { apply N.ltb_lt in Elt. rewrite putn_ok by (rsimp; auto). rsimp.
      rewrite after_switch_fin by (right; reflexivity).
      apply finish_more with (ws := ws); rsimp; auto using crc_bytes_lt; try lia.
      right. split; [auto|]. auto. }
    apply N.ltb_ge in Elt. rewrite putn_ok by (rsimp; auto). rsimp.
    apply (case0_ok (mkR p a (crc_bytes s (repeat d (N.to_nat c))) 255 d (m - c)
                         (out ++ repeat d (N.to_nat c)) st) ws).
    unfold RegOK; rsimp; repeat split; auto using crc_bytes_lt; lia.
  Qed.

  Lemma case3_ok r ws : RegOK r ws ->
    Rres (case3 tt st0 bufsz0 r) (sread 3 (r_d r) (r_c r :: map low8 ws) (r_m r) (r_s r) (r_out r)).
  Proof.
    intros HR. destr_regs r HR. unfold case3. rsimp. cbn [sread]. simpl (3 =? 4).
    destruct (m =? 0) eqn:Em.
    { rewrite after_switch_fin by (right; reflexivity).
      apply finish_more with (ws := ws); rsimp; auto 7. }
    apply N.eqb_neq in Em. rewrite put_ok by (rsimp; auto). rsimp.
    destruct (c =? d) eqn:Ec; cbn [negb].
    2:{ apply (after_switch_loop (mkR p a (crc_step s c) c d (m - 1) (out ++ [c]) st) ws).
        unfold RegOK; rsimp; repeat split; auto using crc_step_lt; lia. }
    apply N.eqb_eq in Ec. subst d. simpl (3 + 1).
    destruct ws as [|w ws]; cbn [length map] in *.
    { subst a. cbn [N.of_nat N.eqb sread]. simpl (4 =? 4). reflexivity. }
    inversion HW as [|p' w' ws' Hn1 HW1]; subst p' w' ws'.
    replace (a =? 0) with false by nz.
    rewrite (rd_ok _ w) by (rsimp; exact Hn1). rsimp. fold (low8 w).
    apply (case4_ok (mkR w (a - 1) (crc_step s c) (low8 w) c (m - 1) (out ++ [c]) st) ws).
    unfold RegOK; rsimp; repeat split; auto using crc_step_lt, low8_lt; lia.
  Qed.

  Lemma case2_ok r ws : RegOK r ws ->
    Rres (case2 tt st0 bufsz0 r) (sread 2 (r_d r) (r_c r :: map low8 ws) (r_m r) (r_s r) (r_out r)).
  Proof.
    intros HR. destr_regs r HR. unfold case2. rsimp. cbn [sread]. simpl (2 =? 4).
    destruct (m =? 0) eqn:Em.
    { rewrite after_switch_fin by (right; reflexivity).
      apply finish_more with (ws := ws); rsimp; auto 7. }
    apply N.eqb_neq in Em. rewrite put_ok by (rsimp; auto). rsimp.
    destruct (c =? d) eqn:Ec; cbn [negb].
    2:{ apply (after_switch_loop (mkR p a (crc_step s c) c d (m - 1) (out ++ [c]) st) ws).
        unfold RegOK; rsimp; repeat split; auto using crc_step_lt; lia. }
    apply N.eqb_eq in Ec. subst d. simpl (2 + 1).
    destruct ws as [|w ws]; cbn [length map] in *.
    { subst a. cbn [N.of_nat N.eqb sread]. simpl (3 =? 4).
      rewrite after_switch_fin by (left; reflexivity). apply finish_ok; rsimp; auto; lia. }
    inversion HW as [|p' w' ws' Hn1 HW1]; subst p' w' ws'.
    replace (a =? 0) with false by nz.
    rewrite (rd_ok _ w) by (rsimp; exact Hn1). rsimp. fold (low8 w).
    apply (case3_ok (mkR w (a - 1) (crc_step s c) (low8 w) c (m - 1) (out ++ [c]) st) ws).
    unfold RegOK; rsimp; repeat split; auto using crc_step_lt, low8_lt; lia.
  Qed.

  Lemma case1_ok r ws : RegOK r ws -> r_st r = 1 ->
    Rres (case1 tt st0 bufsz0 r) (sread 1 (r_d r) (r_c r :: map low8 ws) (r_m r) (r_s r) (r_out r)).
  Proof.
    intros HR Hst. destr_regs r HR. unfold case1. rsimp. cbn [sread]. simpl (1 =? 4).
    destruct (m =? 0) eqn:Em.
    { rewrite after_switch_fin by (right; reflexivity).
      apply finish_more with (ws := ws); rsimp; auto 7. }
    apply N.eqb_neq in Em. rewrite put_ok by (rsimp; auto). rsimp.
    destruct (c =? d) eqn:Ec; cbn [negb].
    2:{ apply (after_switch_loop (mkR p a (crc_step s c) c d (m - 1) (out ++ [c]) st) ws).
        unfold RegOK; rsimp; repeat split; auto using crc_step_lt; lia. }
    apply N.eqb_eq in Ec. subst d. simpl (1 + 1).
    destruct ws as [|w ws]; cbn [length map] in *.
    { subst a. cbn [N.of_nat N.eqb sread]. simpl (2 =? 4).
      rewrite after_switch_fin by (left; reflexivity). apply finish_ok; rsimp; auto; lia. }
    inversion HW as [|p' w' ws' Hn1 HW1]; subst p' w' ws'.
    replace (a =? 0) with false by nz.
    rewrite (rd_ok _ w) by (rsimp; exact Hn1). rsimp. fold (low8 w).
    apply (case2_ok (mkR w (a - 1) (crc_step s c) (low8 w) c (m - 1) (out ++ [c]) st) ws).
    unfold RegOK; rsimp; repeat split; auto using crc_step_lt, low8_lt; lia.
  Qed.

  (* one call of emit() from a saved state *)
  Lemma emit_entry_ok k d rest s : Inv st0 k d rest s -> 1 <= bufsz0 -> bufsz0 < M1 ->
    Rres (emit_entry tt st0 bufsz0) (sread k d rest bufsz0 s []).
  Proof.
    intros (ws & HW & Ha & Ha1 & Hcrc & Hs & Hc & Hd & Hst) Hb1 Hb2.
    unfold emit_entry. replace (bufsz0 =? 0) with false by nz.
    rewrite (N.mod_small bufsz0 W32) by (unfold W32, M1 in *; lia).
    set (r := mkR (rle_index st0) (rle_avail st0) (rle_crc st0) (rle_char st0) (rle_prev st0) bufsz0 [] (rle_state st0)).
    assert (HR : RegOK r ws).
    { unfold RegOK, r; rsimp. subst s. repeat split; auto. }
    subst s.
    destruct Hst as [(E & -> & -> & ->)|[(E & -> & -> & ->)|(E & -> & -> & ->)]].
    - rewrite E. apply (case0_ok r ws HR).
    - rewrite E. apply (case5_ok r ws HR).
    - destruct E as [E|[E|[E|E]]]; rewrite E.
      + apply (case1_ok r ws HR). exact E.
      + apply (case2_ok r ws HR).
      + apply (case3_ok r ws HR).
      + apply (case4_ok r ws HR).
  Qed.
End EmitRefine.

(* ======================================================================================== *)
(* Part 2: the automaton run with any budgets = unrle                                       *)
(* ======================================================================================== *)
Lemma rbind_id {A} (a : result A) : rbind a (fun o => Ok o) = a.
Proof. destruct a; reflexivity. Qed.

Lemma rbind_comp (a : result (list N)) (f g : list N -> list N) :
  rbind (rbind a (fun o => Ok (f o))) (fun o => Ok (g o)) = rbind a (fun o => Ok (g (f o))).
Proof. destruct a; reflexivity. Qed.

Lemma rbind_ext {A B} (a : result A) (f g : A -> result B) : (forall x, f x = g x) -> rbind a f = rbind a g.
Proof. intros H. destruct a; cbn; auto. Qed.

Lemma repeat_split (d m x : N) : m <= x ->
  repeat d (N.to_nat m) ++ repeat d (N.to_nat (x - m)) = repeat d (N.to_nat x).
Proof. intros H. rewrite <- repeat_app. f_equal. lia. Qed.

Lemma sread_unrle strict : forall rest k d m s out,
  match sread k d rest m s out with
  | AMore out' k' d' rest' s' =>
      exists w, out' = out ++ w /\ N.of_nat (length w) = m /\ s' = crc_bytes s w /\
        unrle strict d k rest = rbind (unrle strict d' k' rest') (fun o => Ok (w ++ o)) /\
        rest' <> [] /\ (k' = 4 -> hd 0 rest' <> 0)
  | AOk out' s' m' =>
      exists w, out' = out ++ w /\ N.of_nat (length w) + m' = m /\ s' = crc_bytes s w /\
        unrle strict d k rest = Ok w
  | AErr out' =>
      exists w, out' = out ++ w /\ N.of_nat (length w) <= m /\
        unrle strict d k rest = (if strict then Err ErrRunlen else Ok w)
  end.
Proof.
  induction rest as [|x r IH]; intros k d m s out.
  - cbn [sread unrle]. destruct (k =? 4).
    + exists []. rewrite app_nil_r, andb_true_r. cbn [length N.of_nat]. repeat split; try lia.
    + exists []. rewrite app_nil_r, andb_false_r. cbn [length N.of_nat]. repeat split; try lia.
  - cbn [sread unrle]. destruct (k =? 4) eqn:Ek.
    + destruct (m <? x) eqn:Elt.
      * apply N.ltb_lt in Elt. exists (repeat d (N.to_nat m)).
        rewrite repeat_length, N2Nat.id. repeat split; try reflexivity.
        -- cbn [unrle N.eqb Pos.eqb]. rewrite rbind_comp. apply rbind_ext. intros o.
           rewrite app_assoc, repeat_split by lia. reflexivity.
        -- discriminate.
        -- intros _. cbn [hd]. lia.
      * apply N.ltb_ge in Elt.
        specialize (IH 0 256 (m - x) (crc_rep s d x) (out ++ repeat d (N.to_nat x))).
        destruct (sread 0 256 r (m - x) (crc_rep s d x) (out ++ repeat d (N.to_nat x)))
          as [out' k' d' rest' s'|out' s' m'|out'].
        -- destruct IH as (w & -> & Hl & -> & Hu & Hne & Hk4).
           exists (repeat d (N.to_nat x) ++ w). rewrite app_assoc, app_length, repeat_length.
           repeat split; auto; try lia.
           ++ unfold crc_rep. rewrite crc_bytes_app. reflexivity.
           ++ rewrite Hu, rbind_comp. apply rbind_ext. intros o. rewrite app_assoc. reflexivity.
        -- destruct IH as (w & -> & Hl & -> & Hu).
           exists (repeat d (N.to_nat x) ++ w). rewrite app_assoc, app_length, repeat_length.
           repeat split; auto; try lia.
           ++ unfold crc_rep. rewrite crc_bytes_app. reflexivity.
           ++ rewrite Hu. reflexivity.
        -- destruct IH as (w & -> & Hl & Hu).
           exists (repeat d (N.to_nat x) ++ w). rewrite app_assoc, app_length, repeat_length.
           repeat split; auto; try lia.
           rewrite Hu. destruct strict; reflexivity.
    + destruct (m =? 0) eqn:Em.
      * apply N.eqb_eq in Em. exists []. rewrite app_nil_r. cbn [length N.of_nat].
        repeat split; auto; try discriminate.
        -- cbn [unrle]. rewrite Ek. cbn [app]. rewrite rbind_comp. apply rbind_ext. reflexivity.
        -- intros ->. discriminate.
      * apply N.eqb_neq in Em.
        specialize (IH (if x =? d then k + 1 else 1) x (m - 1) (crc_step s x) (out ++ [x])).
        destruct (sread (if x =? d then k + 1 else 1) x r (m - 1) (crc_step s x) (out ++ [x]))
          as [out' k' d' rest' s'|out' s' m'|out'].
        -- destruct IH as (w & -> & Hl & -> & Hu & Hne & Hk4).
           exists (x :: w). rewrite <- app_assoc. cbn [app length].
           repeat split; auto; try lia.
           rewrite Hu, rbind_comp. reflexivity.
        -- destruct IH as (w & -> & Hl & -> & Hu).
           exists (x :: w). rewrite <- app_assoc. cbn [app length].
           repeat split; auto; try lia. rewrite Hu. reflexivity.
        -- destruct IH as (w & -> & Hl & Hu).
           exists (x :: w). rewrite <- app_assoc. cbn [app length].
           repeat split; auto; try lia. rewrite Hu. destruct strict; reflexivity.
Qed.

Lemma unrle_false_ok : forall rest d k, exists o, unrle false d k rest = Ok o.
Proof.
  induction rest as [|x r IH]; intros d k; cbn [unrle andb].
  - eexists; reflexivity.
  - destruct (k =? 4).
    + destruct (IH 256 0) as (o & ->). eexists; reflexivity.
    + destruct (IH x (if x =? d then k + 1 else 1)) as (o & ->). eexists; reflexivity.
Qed.

Lemma unrle_progress strict rest d k o : rest <> [] -> (k = 4 -> hd 0 rest <> 0) ->
  unrle strict d k rest = Ok o -> o <> [].
Proof.
  destruct rest as [|x r]; [congruence|]. intros _ Hk. cbn [unrle hd] in *.
  destruct (k =? 4) eqn:Ek.
  - apply N.eqb_eq in Ek. specialize (Hk Ek).
    destruct (unrle strict 256 0 r); cbn [rbind]; [|discriminate]. intros [= <-].
    destruct (N.to_nat x) eqn:Ex; [lia|]. discriminate.
  - destruct (unrle strict x _ r); cbn [rbind]; [|discriminate]. intros [= <-]. discriminate.
Qed.

Fixpoint chunks_fit (chunks : list (list N)) (sizes : list N) : Prop :=
  match chunks, sizes with
  | [], _ => True
  | c :: cs, b :: bs => N.of_nat (length c) <= b /\ chunks_fit cs bs
  | _ :: _, [] => False
  end.

Definition sizes_ok (sizes : list N) : Prop := Forall (fun b => 1 <= b /\ b < M1) sizes.
Definition total (sizes : list N) : N := fold_right N.add 0 sizes.

Lemma emit_call tt st b k d rest s : Inv tt st k d rest s -> 1 <= b -> b < M1 ->
  Rres tt st b (emit_model tt st b) (sread k d rest b s []).
Proof. intros. unfold emit_model. apply emit_entry_ok; assumption. Qed.

(* any sequence of calls: no fault, no buffer overrun, and what it computes *)
Theorem emit_run_spec : forall sizes tt st k d rest s,
  Inv tt st k d rest s -> sizes_ok sizes ->
  match emit_run tt st sizes with
  | RFinished status chunks st' =>
      chunks_fit chunks sizes /\
      ((status = E_OK /\ unrle true d k rest = Ok (concat chunks) /\
        ds_crc st' = N.lxor (crc_bytes s (concat chunks)) M1)
       \/ (status = E_ERR_RUNLEN /\ unrle true d k rest = Err ErrRunlen /\
           unrle false d k rest = Ok (concat chunks)))
  | RPending chunks st' =>
      Forall2 (fun c b => N.of_nat (length c) = b) chunks sizes /\
      exists k' d' rest', Inv tt st' k' d' rest' (crc_bytes s (concat chunks)) /\
        forall strict, unrle strict d k rest = rbind (unrle strict d' k' rest') (fun o => Ok (concat chunks ++ o))
  | RFault _ => False
  end.
Proof.
  induction sizes as [|b bs IH]; intros tt st k d rest s HI Hsz.
  - cbn [emit_run concat]. split; [constructor|]. exists k, d, rest. split; [exact HI|].
    intros strict. cbn [app]. symmetry. apply rbind_id.
  - inversion Hsz as [|b' bs' [Hb1 Hb2] Hsz']; subst b' bs'.
    cbn [emit_run]. pose proof (emit_call tt st b k d rest s HI Hb1 Hb2) as HC.
    pose proof (sread_unrle true rest k d b s []) as HT.
    pose proof (sread_unrle false rest k d b s []) as HF.
    destruct (sread k d rest b s []) as [out' k' d' rest' s'|out' s' m'|out']; cbn [Rres] in HC.
    + destruct HC as (st' & -> & HI' & _). cbn [N.eqb E_MORE Pos.eqb].
      destruct HT as (w & Ew & Hl & -> & HuT & Hne & Hk4). cbn [app] in Ew. subst out'.
      destruct HF as (w' & Ew' & _ & _ & HuF & _). cbn [app] in Ew'. subst w'.
      specialize (IH tt st' k' d' rest' (crc_bytes s w) HI' Hsz').
      destruct (emit_run tt st' bs) as [status chunks st2|chunks st2|f]; cbn [rcons].
      * destruct IH as (Hfit & Hres). split; [cbn [chunks_fit]; split; [lia|exact Hfit]|].
        cbn [concat]. destruct Hres as [(-> & Hu & Hcrc)|(-> & Hu & Hu2)]; [left|right].
        -- split; [reflexivity|]. split; [rewrite HuT, Hu; reflexivity|].
           rewrite Hcrc, crc_bytes_app. reflexivity.
        -- split; [reflexivity|]. split; [rewrite HuT, Hu; reflexivity|].
           rewrite HuF, Hu2. reflexivity.
      * destruct IH as (Hlen & k2 & d2 & rest2 & HI2 & Hu2). split; [constructor; [exact Hl|exact Hlen]|].
        exists k2, d2, rest2. cbn [concat]. rewrite crc_bytes_app. split; [exact HI2|].
        intros strict. destruct strict.
        -- rewrite HuT, (Hu2 true), rbind_comp. apply rbind_ext. intros o. rewrite app_assoc. reflexivity.
        -- rewrite HuF, (Hu2 false), rbind_comp. apply rbind_ext. intros o. rewrite app_assoc. reflexivity.
      * exact IH.
    + destruct HC as (st' & -> & Hcrc). cbn [N.eqb E_MORE E_OK].
      destruct HT as (w & Ew & Hl & -> & HuT). cbn [app] in Ew. subst out'.
      cbn [chunks_fit concat]. rewrite app_nil_r. split; [split; [lia|exact I]|].
      left. split; [reflexivity|]. split; [exact HuT|exact Hcrc].
    + rewrite HC. cbn [N.eqb E_MORE E_ERR_RUNLEN Pos.eqb].
      destruct HT as (w & Ew & Hl & HuT). cbn [app] in Ew. subst out'.
      destruct HF as (w' & Ew' & _ & HuF). cbn [app] in Ew'. subst w'.
      cbn [chunks_fit concat]. rewrite app_nil_r. split; [split; [lia|exact I]|].
      right. split; [reflexivity|]. split; [exact HuT|exact HuF].
Qed.

(* enough output space in total => the run finishes *)
Theorem emit_run_terminates : forall sizes tt st k d rest s full,
  Inv tt st k d rest s -> sizes_ok sizes -> sizes <> [] ->
  unrle false d k rest = Ok full -> N.of_nat (length full) <= total sizes ->
  exists status chunks st', emit_run tt st sizes = RFinished status chunks st'.
Proof.
  induction sizes as [|b bs IH]; intros tt st k d rest s full HI Hsz Hne Hfull Hsum; [congruence|].
  inversion Hsz as [|b' bs' [Hb1 Hb2] Hsz']; subst b' bs'.
  cbn [emit_run]. pose proof (emit_call tt st b k d rest s HI Hb1 Hb2) as HC.
  pose proof (sread_unrle false rest k d b s []) as HF.
  destruct (sread k d rest b s []) as [out' k' d' rest' s'|out' s' m'|out']; cbn [Rres] in HC.
  - destruct HC as (st' & -> & HI' & _). cbn [N.eqb E_MORE Pos.eqb].
    destruct HF as (w & Ew & Hl & -> & HuF & Hne' & Hk4).
    destruct (unrle_false_ok rest' d' k') as (full' & Hf').
    rewrite Hfull, Hf' in HuF. cbn [rbind] in HuF. injection HuF as ->.
    pose proof (unrle_progress false rest' d' k' full' Hne' Hk4 Hf') as Hnz.
    rewrite app_length in Hsum. cbn [total fold_right] in Hsum. fold (total bs) in Hsum.
    assert (Hl' : N.of_nat (length full') <= total bs) by lia.
    assert (Hbs : bs <> []).
    { intros ->. cbn in Hl'. destruct full'; [congruence|cbn [length] in Hl'; lia]. }
    destruct (IH tt st' k' d' rest' (crc_bytes s w) full' HI' Hsz' Hbs Hf' Hl') as (status & chunks & st2 & ->).
    cbn [rcons]. eauto.
  - destruct HC as (st' & -> & _). cbn [N.eqb E_MORE E_OK]. eauto.
  - rewrite HC. cbn [N.eqb E_MORE E_ERR_RUNLEN Pos.eqb]. eauto.
Qed.

(* ======================================================================================== *)
(* Part 3: decode()                                                                         *)
(* ======================================================================================== *)
(* ---- memory ---- *)
Lemma upd_length : forall l i v, length (upd l i v) = length l.
Proof. induction l as [|x l IH]; intros [|i] v; cbn [upd length]; auto. Qed.

Lemma nth_upd : forall l i j v d, (i < length l)%nat ->
  nth j (upd l i v) d = if Nat.eqb j i then v else nth j l d.
Proof.
  induction l as [|x l IH]; intros [|i] [|j] v d H; cbn [length] in H; try lia; cbn [upd nth Nat.eqb]; auto.
  apply IH. lia.
Qed.

Lemma get_ok l i : (i < length l)%nat -> get l (N.of_nat i) = Good (nth i l 0).
Proof. intros H. rewrite (get_nth l _ 0); rewrite Nat2N.id; auto. Qed.

Lemma set_ok l i v : (i < length l)%nat -> set l (N.of_nat i) v = Good (upd l i v).
Proof.
  intros H. unfold set. replace (N.of_nat i <? N.of_nat (length l)) with true by (symmetry; apply N.ltb_lt; lia).
  rewrite Nat2N.id. reflexivity.
Qed.

Lemma upd_app : forall pre x post v, upd (pre ++ x :: post) (length pre) v = pre ++ v :: post.
Proof. induction pre as [|y pre IH]; intros; cbn [app length upd]; [reflexivity|]. rewrite IH. reflexivity. Qed.

(* ---- prefix sums ---- *)
Fixpoint prefix_sums (cum : N) (l : list N) : list N :=
  match l with [] => [] | x :: r => cum :: prefix_sums (cum + x) r end.
Definition sumN (l : list N) : N := fold_right N.add 0 l.

Lemma cumloop_spec : forall post pre cum, cum + sumN post < W32 ->
  cumloop (length post) (N.of_nat (length pre)) cum (pre ++ post) =
  Good (pre ++ prefix_sums cum post, cum + sumN post).
Proof.
  induction post as [|x post IH]; intros pre cum H; cbn [length cumloop prefix_sums sumN fold_right].
  - rewrite N.add_0_r. reflexivity.
  - cbn [sumN fold_right] in H. fold (sumN post) in *.
    rewrite get_ok by (rewrite app_length; cbn [length]; lia).
    rewrite app_nth2, Nat.sub_diag by lia. cbn [nth bind].
    unfold add32. replace (cum + x <? W32) with true by (symmetry; apply N.ltb_lt; lia). cbn [bind].
    unfold sub32. replace (x <=? cum + x) with true by (symmetry; apply N.leb_le; lia). cbn [bind].
    rewrite set_ok by (rewrite app_length; cbn [length]; lia). cbn [bind].
    rewrite upd_app. replace (cum + x - x) with cum by lia.
    replace (N.of_nat (length pre) + 1) with (N.of_nat (length (pre ++ [cum]))) by (rewrite app_length; cbn [length]; lia).
    replace (pre ++ cum :: post) with ((pre ++ [cum]) ++ post) by (rewrite <- app_assoc; reflexivity).
    rewrite IH by lia. rewrite <- app_assoc, N.add_assoc. reflexivity.
Qed.

Lemma prefix_sums_length : forall l cum, length (prefix_sums cum l) = length l.
Proof. induction l; intros; cbn [prefix_sums length]; auto. Qed.

Lemma prefix_sums_nth : forall l cum c, (c < length l)%nat ->
  nth c (prefix_sums cum l) 0 = cum + sumN (firstn c l).
Proof.
  induction l as [|x l IH]; intros cum [|c] H; cbn [length] in H; try lia; cbn [prefix_sums nth firstn sumN fold_right].
  - lia.
  - rewrite IH by lia. fold (sumN (firstn c l)). lia.
Qed.

(* ---- the stable counting sort as a list of indices ---- *)
Definition byteL : list N := map N.of_nat (seq 0 256).
Definition idxs (off : nat) (c : N) (l : list N) : list nat :=
  map fst (filter (fun p : nat * N => N.eqb c (snd p)) (combine (seq off (length l)) l)).
Definition Pn (tt : list N) : list nat := flat_map (fun c => idxs 0 c tt) byteL.
Definition cntn (c : N) (l : list N) : nat := length (filter (N.eqb c) l).

Lemma map_flat_map' {A B C} (f : B -> C) (g : A -> list B) l :
  map f (flat_map g l) = flat_map (fun x => map f (g x)) l.
Proof. induction l as [|a l IH]; cbn [flat_map map]; auto. rewrite map_app, IH. reflexivity. Qed.

Lemma stable_perm_Pn tt : stable_perm tt = map N.of_nat (Pn tt).
Proof.
  unfold stable_perm, Pn, byteL, idxs. rewrite map_flat_map'.
  apply flat_map_ext. intros c. rewrite map_map. reflexivity.
Qed.

Lemma idxs_cons off c x l :
  idxs off c (x :: l) = (if N.eqb c x then [off] else []) ++ idxs (S off) c l.
Proof. unfold idxs. cbn [length seq combine filter snd]. destruct (N.eqb c x); reflexivity. Qed.

Lemma idxs_nil off c : idxs off c [] = [].
Proof. reflexivity. Qed.

Lemma idxs_app : forall l1 off c l2, idxs off c (l1 ++ l2) = idxs off c l1 ++ idxs (off + length l1) c l2.
Proof.
  induction l1 as [|x l1 IH]; intros off c l2; cbn [app length].
  - rewrite Nat.add_0_r. reflexivity.
  - rewrite !idxs_cons, IH, <- app_assoc. replace (S off + length l1)%nat with (off + S (length l1))%nat by lia. reflexivity.
Qed.

Lemma idxs_length : forall l off c, length (idxs off c l) = cntn c l.
Proof.
  induction l as [|x l IH]; intros off c; [reflexivity|].
  rewrite idxs_cons, app_length, IH. unfold cntn. cbn [filter]. destruct (N.eqb c x); reflexivity.
Qed.

Lemma idxs_In : forall l off c i, In i (idxs off c l) -> (off <= i < off + length l)%nat /\ nth (i - off) l 0 = c.
Proof.
  induction l as [|x l IH]; intros off c i H; [destruct H|].
  rewrite idxs_cons in H. apply in_app_or in H. destruct H as [H|H].
  - destruct (N.eqb_spec c x) as [E|E]; [|destruct H]. destruct H as [<-|[]].
    cbn [length]. split; [lia|]. rewrite Nat.sub_diag. cbn [nth]. auto.
  - apply IH in H. destruct H as [H1 H2]. cbn [length]. split; [lia|].
    replace (i - off)%nat with (S (i - S off)) by lia. exact H2.
Qed.

Lemma idxs_NoDup : forall l off c, NoDup (idxs off c l).
Proof.
  induction l as [|x l IH]; intros off c; [constructor|].
  rewrite idxs_cons. destruct (N.eqb c x); cbn [app]; [|apply IH].
  constructor; [|apply IH]. intros H. apply idxs_In in H. lia.
Qed.

Lemma NoDup_app' {A} : forall (l1 l2 : list A), NoDup l1 -> NoDup l2 ->
  (forall x, In x l1 -> ~ In x l2) -> NoDup (l1 ++ l2).
Proof.
  induction l1 as [|x l1 IH]; intros l2 H1 H2 Hd; cbn [app]; [exact H2|].
  inversion H1 as [|x0 l0 Hx H1']; subst. constructor.
  - intros Hin. apply in_app_or in Hin. destruct Hin as [Hin|Hin]; [contradiction|].
    apply (Hd x); [left; reflexivity|exact Hin].
  - apply IH; auto. intros y Hy. apply Hd. right. exact Hy.
Qed.

Lemma NoDup_flat_map {A B} (f : A -> list B) : forall cs,
  NoDup cs -> (forall c, NoDup (f c)) ->
  (forall c c' x, In c cs -> In c' cs -> In x (f c) -> In x (f c') -> c = c') ->
  NoDup (flat_map f cs).
Proof.
  induction cs as [|c cs IH]; intros Hnd Hf Hdisj; cbn [flat_map]; [constructor|].
  inversion Hnd as [|c0 cs0 Hnin Hnd']; subst.
  apply NoDup_app'; [apply Hf| |].
  - apply IH; auto. intros a b x Ha Hb. apply Hdisj; right; assumption.
  - intros x Hx Hin. apply in_flat_map in Hin. destruct Hin as (c' & Hc' & Hin).
    assert (c = c') by (apply (Hdisj c c' x); [left; reflexivity|right; exact Hc'|exact Hx|exact Hin]).
    subst c'. contradiction.
Qed.

Lemma byteL_length : length byteL = 256%nat.
Proof. reflexivity. Qed.

Lemma byteL_nth c : (c < 256)%nat -> nth c byteL 0 = N.of_nat c.
Proof.
  intros H. unfold byteL. change 0 with (N.of_nat 0). rewrite map_nth, seq_nth by lia. reflexivity.
Qed.

Lemma byteL_In c : In c byteL <-> c < 256.
Proof.
  unfold byteL. rewrite in_map_iff. split.
  - intros (i & <- & Hi). apply in_seq in Hi. lia.
  - intros H. exists (N.to_nat c). split; [apply N2Nat.id|]. apply in_seq. lia.
Qed.

Lemma byteL_NoDup : NoDup byteL.
Proof.
  unfold byteL. apply FinFun.Injective_map_NoDup; [|apply seq_NoDup].
  intros a b H. apply Nat2N.inj. exact H.
Qed.

Lemma Pn_NoDup tt : NoDup (Pn tt).
Proof.
  unfold Pn. apply NoDup_flat_map.
  - apply byteL_NoDup.
  - intros c. apply idxs_NoDup.
  - intros c c' x _ _ H1 H2. apply idxs_In in H1, H2. destruct H1 as [_ <-], H2 as [_ <-]. reflexivity.
Qed.

Lemma Pn_bound tt i : In i (Pn tt) -> (i < length tt)%nat.
Proof.
  unfold Pn. intros H. apply in_flat_map in H. destruct H as (c & _ & H). apply idxs_In in H. lia.
Qed.

Definition sumn (l : list nat) : nat := fold_right Nat.add 0%nat l.

Lemma flat_map_length' {A B} (f : A -> list B) : forall cs,
  length (flat_map f cs) = sumn (map (fun c => length (f c)) cs).
Proof. induction cs as [|c cs IH]; cbn [flat_map map sumn fold_right]; auto. rewrite app_length, IH. reflexivity. Qed.

Lemma sumn_cons x l : sumn (x :: l) = (x + sumn l)%nat.
Proof. reflexivity. Qed.

Lemma sum_indicator x : forall cs, NoDup cs -> In x cs ->
  sumn (map (fun c => if N.eqb c x then 1%nat else 0%nat) cs) = 1%nat.
Proof.
  induction cs as [|c cs IH]; intros Hnd Hin; [destruct Hin|].
  inversion Hnd as [|c0 cs0 Hnin Hnd']; subst. cbn [map]. rewrite sumn_cons.
  destruct (N.eqb_spec c x) as [E|E].
  - subst c. assert (H0 : sumn (map (fun c => if N.eqb c x then 1%nat else 0%nat) cs) = 0%nat).
    { clear -Hnin. induction cs as [|c cs IH]; [reflexivity|]. cbn [map]. rewrite sumn_cons.
      destruct (N.eqb_spec c x) as [E|E]; [subst; exfalso; apply Hnin; left; reflexivity|].
      rewrite IH; [reflexivity|]. intros H. apply Hnin. right. exact H. }
    rewrite H0. reflexivity.
  - destruct Hin as [Hin|Hin]; [congruence|]. rewrite IH; auto.
Qed.

Lemma sum_cntn : forall l cs, NoDup cs -> (forall x, In x l -> In x cs) ->
  sumn (map (fun c => cntn c l) cs) = length l.
Proof.
  induction l as [|x l IH]; intros cs Hnd Hin.
  - unfold cntn. cbn [filter length]. clear. induction cs; cbn [map]; rewrite ?sumn_cons; auto.
  - assert (E : forall cs', sumn (map (fun c => cntn c (x :: l)) cs') =
                (sumn (map (fun c => if N.eqb c x then 1%nat else 0%nat) cs') + sumn (map (fun c => cntn c l) cs'))%nat).
    { induction cs' as [|c cs' IHc]; [reflexivity|]. cbn [map]. rewrite !sumn_cons, IHc.
      unfold cntn at 1. cbn [filter]. fold (cntn c l). destruct (N.eqb c x); cbn [length]; fold (cntn c l); lia. }
    rewrite E, sum_indicator, IH; auto.
    + intros y Hy. apply Hin. right. exact Hy.
    + apply Hin. left. reflexivity.
Qed.

Lemma Pn_length tt : Forall (fun c => c < 256) tt -> length (Pn tt) = length tt.
Proof.
  intros H. unfold Pn. rewrite flat_map_length'.
  rewrite (map_ext _ (fun c => cntn c tt)) by (intros; apply idxs_length).
  apply sum_cntn; [apply byteL_NoDup|]. intros x Hx. apply byteL_In. rewrite Forall_forall in H. auto.
Qed.

(* start of bucket c in the sorted order *)
Definition startn (tt : list N) (c : nat) : nat := length (flat_map (fun c' => idxs 0 c' tt) (firstn c byteL)).

Lemma startn_0 tt : startn tt 0 = 0%nat.
Proof. reflexivity. Qed.

Lemma firstn_S_nth {A} : forall (l : list A) c d, (c < length l)%nat -> firstn (S c) l = firstn c l ++ [nth c l d].
Proof.
  induction l as [|x l IH]; intros c d H; [cbn in H; lia|].
  destruct c as [|c]; [reflexivity|]. cbn [length] in H.
  change (firstn (S (S c)) (x :: l)) with (x :: firstn (S c) l).
  change (firstn (S c) (x :: l)) with (x :: firstn c l). cbn [nth app].
  rewrite (IH c d) by lia. reflexivity.
Qed.

Lemma startn_S tt c : (c < 256)%nat -> startn tt (S c) = (startn tt c + cntn (N.of_nat c) tt)%nat.
Proof.
  intros H. unfold startn. rewrite (firstn_S_nth byteL c 0) by (rewrite byteL_length; exact H).
  rewrite flat_map_app, app_length. cbn [flat_map]. rewrite app_nil_r, byteL_nth, idxs_length by exact H. reflexivity.
Qed.

Lemma startn_256 tt : startn tt 256 = length (Pn tt).
Proof. unfold startn, Pn. rewrite firstn_all2 by (rewrite byteL_length; lia). reflexivity. Qed.

Lemma startn_mono tt : forall c c', (c <= c' <= 256)%nat -> (startn tt c <= startn tt c')%nat.
Proof.
  intros c c' H. induction c' as [|c' IH]; [replace c with 0%nat by lia; lia|].
  destruct (Nat.eq_dec c (S c')) as [->|N]; [lia|]. rewrite startn_S by lia. specialize (IH ltac:(lia)). lia.
Qed.

Lemma skipn_cons_nth {A} : forall (l : list A) c d, (c < length l)%nat -> skipn c l = nth c l d :: skipn (S c) l.
Proof.
  induction l as [|x l IH]; intros c d H; [cbn in H; lia|].
  destruct c as [|c]; [reflexivity|]. cbn [length] in H.
  change (skipn (S c) (x :: l)) with (skipn c l). change (skipn (S (S c)) (x :: l)) with (skipn (S c) l).
  cbn [nth]. apply IH. lia.
Qed.

Lemma Pn_nth tt c k : (c < 256)%nat -> (k < cntn (N.of_nat c) tt)%nat ->
  nth (startn tt c + k) (Pn tt) 0%nat = nth k (idxs 0 (N.of_nat c) tt) 0%nat.
Proof.
  intros Hc Hk. unfold Pn, startn.
  rewrite <- (firstn_skipn c byteL) at 2. rewrite flat_map_app.
  rewrite app_nth2_plus.
  rewrite (skipn_cons_nth byteL c 0) by (rewrite byteL_length; exact Hc). rewrite byteL_nth by exact Hc.
  cbn [flat_map]. apply app_nth1. rewrite idxs_length. exact Hk.
Qed.

Lemma cntn_app c l1 l2 : cntn c (l1 ++ l2) = (cntn c l1 + cntn c l2)%nat.
Proof. unfold cntn. rewrite filter_app, app_length. reflexivity. Qed.

Lemma split_nth {A} (l : list A) i d : (i < length l)%nat -> l = firstn i l ++ nth i l d :: skipn (S i) l.
Proof. intros H. rewrite <- (skipn_cons_nth l i d H). symmetry. apply firstn_skipn. Qed.

(* the element of rank r in its bucket *)
Lemma rank_nth tt i : (i < length tt)%nat ->
  nth (cntn (nth i tt 0) (firstn i tt)) (idxs 0 (nth i tt 0) tt) 0%nat = i /\
  (cntn (nth i tt 0%N) (firstn i tt) < cntn (nth i tt 0%N) tt)%nat.
Proof.
  intros H. set (b := nth i tt 0).
  rewrite (split_nth tt i 0 H) at 2 4. fold b.
  rewrite idxs_app, idxs_cons, N.eqb_refl, cntn_app. cbn [app].
  rewrite firstn_length_le by lia. cbn [Nat.add]. split.
  - rewrite app_nth2; rewrite idxs_length; [|lia]. rewrite Nat.sub_diag. reflexivity.
  - unfold cntn at 3. cbn [filter]. rewrite N.eqb_refl. cbn [length]. lia.
Qed.

Lemma ftab_of_length tt : length (ftab_of tt) = 256%nat.
Proof. unfold ftab_of. rewrite map_length, seq_length. reflexivity. Qed.

Lemma ftab_of_nth tt c : (c < 256)%nat -> nth c (ftab_of tt) 0 = N.of_nat (cntn (N.of_nat c) tt).
Proof.
  intros H. unfold ftab_of. rewrite (nth_indep _ 0 (count_of tt (N.of_nat 0))) by (rewrite map_length, seq_length; exact H).
  rewrite (map_nth (fun c => count_of tt (N.of_nat c))), seq_nth by exact H. reflexivity.
Qed.

Lemma ftab_of_sum tt : forall c, (c <= 256)%nat -> sumN (firstn c (ftab_of tt)) = N.of_nat (startn tt c).
Proof.
  induction c as [|c IH]; intros H; [reflexivity|].
  rewrite (firstn_S_nth _ c 0) by (rewrite ftab_of_length; lia).
  assert (E : forall l x, sumN (l ++ [x]) = sumN l + x).
  { induction l as [|y l IHl]; intros x; cbn [app sumN fold_right]; [lia|]. fold (sumN (l ++ [x])). fold (sumN l). rewrite IHl. lia. }
  rewrite E, IH, ftab_of_nth, startn_S by lia. lia.
Qed.

Section Link.
  Variable tt : list N.
  Hypothesis Hbytes : Forall (fun c => c < 256) tt.
  Hypothesis Hn : N.of_nat (length tt) <= MAX_BLOCK_SIZE.

  Lemma byte_lt j : nth j tt 0 < 256.
  Proof.
    destruct (Nat.lt_ge_cases j (length tt)) as [L|L].
    - rewrite Forall_forall in Hbytes. apply Hbytes, nth_In, L.
    - rewrite nth_overflow by exact L. reflexivity.
  Qed.

  Definition LinkInv (i : nat) (tti fti : list N) : Prop :=
    length tti = length tt /\ length fti = 256%nat /\
    (forall j, (j < length tt)%nat ->
       nth j tti 0 = nth j tt 0 + 256 * (if Nat.ltb (nth j (Pn tt) 0%nat) i then N.of_nat (nth j (Pn tt) 0%nat) else 0)) /\
    (forall c, (c < 256)%nat -> nth c fti 0 = N.of_nat (startn tt c + cntn (N.of_nat c) (firstn i tt))).

  Lemma pos_facts i : (i < length tt)%nat ->
    let c := N.to_nat (nth i tt 0) in
    let pos := (startn tt c + cntn (nth i tt 0%N) (firstn i tt))%nat in
    (c < 256)%nat /\ (pos < length tt)%nat /\ nth pos (Pn tt) 0%nat = i.
  Proof.
    intros Hi c pos. pose proof (byte_lt i) as Hb. assert (Hc : (c < 256)%nat) by (unfold c; lia).
    destruct (rank_nth tt i Hi) as [R1 R2].
    assert (Ec : N.of_nat c = nth i tt 0) by (unfold c; apply N2Nat.id).
    split; [exact Hc|]. split.
    - pose proof (startn_S tt c Hc) as HS. rewrite Ec in HS.
      pose proof (startn_mono tt (S c) 256 ltac:(lia)) as HM. rewrite startn_256, Pn_length in HM by exact Hbytes.
      unfold pos. lia.
    - unfold pos. rewrite Pn_nth; rewrite ?Ec; auto.
  Qed.

  Lemma linkloop_spec : forall k i tti fti, (i + k = length tt)%nat -> LinkInv i tti fti ->
    exists tt' ft', linkloop k (N.of_nat i) tti fti = Good (tt', ft') /\ LinkInv (length tt) tt' ft'.
  Proof.
    induction k as [|k IH]; intros i tti fti Hik HI.
    - cbn [linkloop]. replace (length tt) with i by lia. eauto.
    - destruct HI as (Hlt & Hlf & Htt & Hft).
      assert (Hi : (i < length tt)%nat) by lia.
      destruct (pos_facts i Hi) as (Hc & Hpos & HP).
      set (b := nth i tt 0) in *. set (c := N.to_nat b) in *.
      set (pos := (startn tt c + cntn b (firstn i tt))%nat) in *.
      assert (Ec : N.of_nat c = b) by (unfold c; apply N2Nat.id).
      pose proof (byte_lt i) as Hb. fold b in Hb.
      cbn [linkloop].
      rewrite get_ok by lia. cbn [bind]. rewrite (Htt i Hi). fold b.
      replace ((b + 256 * _) mod 256) with b
        by (rewrite N.mul_comm, N.mod_add by discriminate; symmetry; apply N.mod_small; exact Hb).
      replace (get fti b) with (get fti (N.of_nat c)) by (rewrite Ec; reflexivity).
      rewrite get_ok by lia. cbn [bind]. rewrite (Hft c Hc), Ec. fold pos.
      rewrite get_ok by lia. cbn [bind]. rewrite (Htt pos Hpos), HP, Nat.ltb_irrefl, N.mul_0_r, N.add_0_r.
      unfold shl8. unfold MAX_BLOCK_SIZE in Hn.
      replace (N.of_nat i * 256 <? W32) with true by (symmetry; apply N.ltb_lt; unfold W32; lia). cbn [bind].
      pose proof (byte_lt pos) as Hbp.
      unfold add32 at 1.
      replace (nth pos tt 0 + N.of_nat i * 256 <? W32) with true by (symmetry; apply N.ltb_lt; unfold W32; lia). cbn [bind].
      rewrite set_ok by lia. cbn [bind].
      unfold add32. replace (N.of_nat pos + 1 <? W32) with true by (symmetry; apply N.ltb_lt; unfold W32; lia). cbn [bind].
      replace (set fti b (N.of_nat pos + 1)) with (set fti (N.of_nat c) (N.of_nat pos + 1)) by (rewrite Ec; reflexivity).
      rewrite set_ok by lia. cbn [bind].
      replace (N.of_nat i + 1) with (N.of_nat (S i)) by lia.
      apply IH; [lia|].
      split; [rewrite upd_length; exact Hlt|]. split; [rewrite upd_length; exact Hlf|]. split.
      + intros j Hj. rewrite nth_upd by lia. destruct (Nat.eqb_spec j pos) as [E|E].
        * subst j. rewrite HP. replace (Nat.ltb i (S i)) with true by (symmetry; apply Nat.ltb_lt; lia). lia.
        * rewrite (Htt j Hj).
          assert (Hne : nth j (Pn tt) 0%nat <> i).
          { intros Heq. apply E. rewrite <- HP in Heq.
            apply (proj1 (NoDup_nth (Pn tt) 0%nat) (Pn_NoDup tt)); rewrite ?Pn_length by exact Hbytes; auto. }
          destruct (Nat.ltb_spec (nth j (Pn tt) 0%nat) i), (Nat.ltb_spec (nth j (Pn tt) 0%nat) (S i)); try lia.
      + intros c' Hc'. rewrite nth_upd by lia.
        rewrite (firstn_S_nth tt i 0 Hi), cntn_app. fold b.
        change (cntn (N.of_nat c') [b]) with (length (filter (N.eqb (N.of_nat c')) [b])). cbn [filter].
        destruct (Nat.eqb_spec c' c) as [E|E].
        * subst c'. rewrite Ec, N.eqb_refl. cbn [length]. unfold pos. lia.
        * rewrite (Hft c' Hc'). destruct (N.eqb_spec (N.of_nat c') b) as [E'|E']; [exfalso; apply E; unfold c; lia|].
          cbn [length]. f_equal. lia.
  Qed.
End Link.

(* ---- decode(), common part: prefix sums + list construction ---- *)
Definition linked (tt tt2 : list N) : Prop :=
  length tt2 = length tt /\
  forall j, (j < length tt)%nat -> nth j tt2 0 = nth j tt 0 + 256 * N.of_nat (nth j (Pn tt) 0%nat).

Definition ftab_ends (tt ft2 : list N) : Prop :=
  length ft2 = 256%nat /\ forall c, (c < 256)%nat -> nth c ft2 0 = N.of_nat (startn tt (S c)).

Lemma Pn_nth_bound tt j : Forall (fun c => c < 256) tt -> (j < length tt)%nat -> (nth j (Pn tt) 0 < length tt)%nat.
Proof. intros Hb Hj. apply Pn_bound, nth_In. rewrite Pn_length by exact Hb. exact Hj. Qed.

Lemma decode_common tt : Forall (fun c => c < 256) tt -> N.of_nat (length tt) <= MAX_BLOCK_SIZE ->
  exists ft1 tt2 ft2,
    cumloop 256 0 0 (ftab_of tt) = Good (ft1, N.of_nat (length tt)) /\
    linkloop (length tt) 0 tt ft1 = Good (tt2, ft2) /\ linked tt tt2 /\ ftab_ends tt ft2.
Proof.
  intros Hb Hn.
  assert (Hsum : sumN (ftab_of tt) = N.of_nat (length tt)).
  { rewrite <- (firstn_all (ftab_of tt)), ftab_of_length, ftab_of_sum, startn_256, Pn_length by (auto; lia). reflexivity. }
  assert (HC : cumloop 256 0 0 (ftab_of tt) = Good (prefix_sums 0 (ftab_of tt), N.of_nat (length tt))).
  { pose proof (cumloop_spec (ftab_of tt) [] 0) as H. rewrite ftab_of_length, Hsum in H.
    cbn [length N.of_nat app] in H. rewrite N.add_0_l in H. apply H. unfold MAX_BLOCK_SIZE, W32 in *. lia. }
  set (ft1 := prefix_sums 0 (ftab_of tt)) in *.
  assert (HI : LinkInv tt 0 tt ft1).
  { split; [reflexivity|]. split; [unfold ft1; rewrite prefix_sums_length; apply ftab_of_length|]. split.
    - intros j Hj. cbn [Nat.ltb Nat.leb]. lia.
    - intros c Hc. unfold ft1. rewrite prefix_sums_nth by (rewrite ftab_of_length; exact Hc).
      rewrite ftab_of_sum by lia. cbn [firstn]. unfold cntn. cbn [filter length]. lia. }
  destruct (linkloop_spec tt Hb Hn (length tt) 0 tt ft1 ltac:(lia) HI) as (tt2 & ft2 & HL & HI2).
  exists ft1, tt2, ft2. split; [exact HC|]. split; [exact HL|].
  destruct HI2 as (Hl2 & Hf2 & Ht2 & Hft2). split; split; auto.
  - intros j Hj. rewrite (Ht2 j Hj).
    replace (Nat.ltb (nth j (Pn tt) 0%nat) (length tt)) with true
      by (symmetry; apply Nat.ltb_lt; apply Pn_nth_bound; auto). reflexivity.
  - intros c Hc. rewrite (Hft2 c Hc), firstn_all, startn_S by exact Hc. reflexivity.
Qed.

(* ---- the list walk is the [follow] of Dec/Format.v ---- *)
Lemma ptr_of b q : b < 256 -> N.shiftr (b + 256 * q) 8 = q.
Proof.
  intros H. rewrite N.shiftr_div_pow2. change (2 ^ 8) with 256.
  rewrite N.mul_comm, N.div_add by discriminate. rewrite N.div_small by exact H. reflexivity.
Qed.

Lemma low_of b q : b < 256 -> low8 (b + 256 * q) = b.
Proof. intros H. unfold low8. rewrite N.mul_comm, N.mod_add by discriminate. apply N.mod_small, H. Qed.

Lemma walk_follow tt tt2 : Forall (fun c => c < 256) tt -> linked tt tt2 ->
  forall k j, (j < length tt)%nat ->
  exists ws, Walk tt2 (nth j tt2 0) ws /\ length ws = k /\
             map low8 ws = follow k (stable_perm tt) tt (N.of_nat j).
Proof.
  intros Hb (Hl & Ht). induction k as [|k IH]; intros j Hj.
  - exists []. split; [constructor|]. split; reflexivity.
  - pose proof (Pn_nth_bound tt j Hb Hj) as Hj'. set (j' := nth j (Pn tt) 0%nat) in *.
    destruct (IH j' Hj') as (ws & HW & Hlen & Hmap).
    assert (Hbj : nth j tt 0 < 256) by (apply byte_lt; exact Hb).
    assert (Hbj' : nth j' tt 0 < 256) by (apply byte_lt; exact Hb).
    exists (nth j' tt2 0 :: ws). split; [|split].
    + constructor; [|exact HW]. rewrite (Ht j Hj). fold j'. rewrite ptr_of, Nat2N.id by exact Hbj.
      apply nth_error_nth'. lia.
    + cbn [length]. lia.
    + cbn [map follow]. rewrite Nat2N.id, stable_perm_Pn.
      assert (E : nth j (map N.of_nat (Pn tt)) 0 = N.of_nat j').
      { unfold j'. change 0 with (N.of_nat 0%nat). apply map_nth. }
      rewrite E, Nat2N.id.
      rewrite (Ht j' Hj'), low_of by exact Hbj'. rewrite Hmap, stable_perm_Pn. reflexivity.
Qed.

Definition block_ok (tt : list N) (idx : N) : Prop :=
  Forall (fun c => c < 256) tt /\ 1 <= N.of_nat (length tt) <= MAX_BLOCK_SIZE /\ idx < N.of_nat (length tt).

Lemma startn_256_len tt : Forall (fun c => c < 256) tt -> startn tt 256 = length tt.
Proof. intros. rewrite startn_256. apply Pn_length. assumption. Qed.

Theorem decode_norand tt idx crc0 : block_ok tt idx ->
  exists tt' ft' st,
    decode_model tt (ftab_of tt) (N.of_nat (length tt)) idx false crc0 = Good (tt', ft', st) /\
    linked tt tt' /\ ftab_ends tt ft' /\ ds_crc st = crc0 /\
    rle_state st = 0 /\ rle_avail st = N.of_nat (length tt) /\
    Inv tt' st 0 256 (ibwt tt idx) M1.
Proof.
  intros (Hb & [Hn1 Hn2] & Hidx).
  destruct (decode_common tt Hb Hn2) as (ft1 & tt2 & ft2 & HC & HL & Hlk & Hfe).
  unfold decode_model. rewrite HC. cbn [bind]. rewrite N.eqb_refl. cbn [negb].
  rewrite Nat2N.id, HL. cbn [bind].
  destruct Hfe as (Hfl & Hfn). destruct Hlk as (Hl2 & Ht2).
  change 255 with (N.of_nat 255). rewrite get_ok by lia. cbn [bind].
  rewrite (Hfn 255%nat) by lia. rewrite startn_256_len by exact Hb. rewrite N.eqb_refl. cbn [negb bind].
  replace (get tt2 idx) with (get tt2 (N.of_nat (N.to_nat idx))) by (rewrite N2Nat.id; reflexivity).
  rewrite get_ok by lia. cbn [bind].
  eexists _, _, _. split; [reflexivity|]. split; [split; assumption|]. split; [split; assumption|].
  split; [reflexivity|]. split; [reflexivity|]. split; [reflexivity|].
  destruct (walk_follow tt tt2 Hb (conj Hl2 Ht2) (length tt) (N.to_nat idx) ltac:(lia)) as (ws & HW & Hlen & Hmap).
  exists ws. cbn [rle_index rle_avail rle_crc rle_char rle_prev rle_state].
  split; [exact HW|]. split; [rewrite Hlen; reflexivity|].
  split; [unfold MAX_BLOCK_SIZE, M1 in *; lia|]. split; [reflexivity|]. split; [reflexivity|].
  split; [reflexivity|]. split; [reflexivity|]. left.
  repeat split. rewrite Hmap, N2Nat.id. reflexivity.
Qed.

(* ======================================================================================== *)
(* Part 3b: the randomised branch                                                           *)
(* ======================================================================================== *)
Lemma bstep_ok ft j k off add : length ft = 256%nat -> off + 1 = add -> k + 2 * add <= 256 ->
  (k = 0 \/ nth (N.to_nat (k - 1)) ft 0 <= j) -> j < nth (N.to_nat (k + 2 * add - 1)) ft 0 ->
  exists k', bstep ft j k off add = Good k' /\ k' + add <= 256 /\
    (k' = 0 \/ nth (N.to_nat (k' - 1)) ft 0 <= j) /\ j < nth (N.to_nat (k' + add - 1)) ft 0.
Proof.
  intros Hl Hoff Hk Hlo Hhi. unfold bstep.
  rewrite (get_nth ft _ 0) by lia. cbn [bind].
  destruct (nth (N.to_nat (k + off)) ft 0 <=? j) eqn:E.
  - apply N.leb_le in E. exists (k + add). split; [reflexivity|]. split; [lia|]. split.
    + right. replace (k + add - 1) with (k + off) by lia. exact E.
    + replace (k + add + add - 1) with (k + 2 * add - 1) by lia. exact Hhi.
  - apply N.leb_gt in E. exists k. split; [reflexivity|]. split; [lia|]. split; [exact Hlo|].
    replace (k + add - 1) with (k + off) by lia. exact E.
Qed.

Lemma bsearch_ok ft j : length ft = 256%nat -> j < nth 255 ft 0 ->
  exists k, bsearch ft j = Good k /\ k < 256 /\
    (k = 0 \/ nth (N.to_nat (k - 1)) ft 0 <= j) /\ j < nth (N.to_nat k) ft 0.
Proof.
  intros Hl Hj. unfold bsearch.
  destruct (bstep_ok ft j 0 127 128 Hl eq_refl ltac:(lia) (or_introl eq_refl) Hj) as (k1 & -> & B1 & L1 & H1).
  cbn [bind].
  destruct (bstep_ok ft j k1 63 64 Hl eq_refl ltac:(lia) L1
              ltac:(replace (k1 + 2 * 64 - 1) with (k1 + 128 - 1) by lia; exact H1)) as (k2 & -> & B2 & L2 & H2).
  cbn [bind].
  destruct (bstep_ok ft j k2 31 32 Hl eq_refl ltac:(lia) L2
              ltac:(replace (k2 + 2 * 32 - 1) with (k2 + 64 - 1) by lia; exact H2)) as (k3 & -> & B3 & L3 & H3).
  cbn [bind].
  destruct (bstep_ok ft j k3 15 16 Hl eq_refl ltac:(lia) L3
              ltac:(replace (k3 + 2 * 16 - 1) with (k3 + 32 - 1) by lia; exact H3)) as (k4 & -> & B4 & L4 & H4).
  cbn [bind].
  destruct (bstep_ok ft j k4 7 8 Hl eq_refl ltac:(lia) L4
              ltac:(replace (k4 + 2 * 8 - 1) with (k4 + 16 - 1) by lia; exact H4)) as (k5 & -> & B5 & L5 & H5).
  cbn [bind].
  destruct (bstep_ok ft j k5 3 4 Hl eq_refl ltac:(lia) L5
              ltac:(replace (k5 + 2 * 4 - 1) with (k5 + 8 - 1) by lia; exact H5)) as (k6 & -> & B6 & L6 & H6).
  cbn [bind].
  destruct (bstep_ok ft j k6 1 2 Hl eq_refl ltac:(lia) L6
              ltac:(replace (k6 + 2 * 2 - 1) with (k6 + 4 - 1) by lia; exact H6)) as (k7 & -> & B7 & L7 & H7).
  cbn [bind].
  destruct (bstep_ok ft j k7 0 1 Hl eq_refl ltac:(lia) L7
              ltac:(replace (k7 + 2 * 1 - 1) with (k7 + 2 - 1) by lia; exact H7)) as (k8 & -> & B8 & L8 & H8).
  exists k8. split; [reflexivity|]. split; [lia|]. split; [exact L8|].
  replace (k8 + 1 - 1) with k8 in H8 by lia. exact H8.
Qed.

(* the first column: the byte of the element sorted into position j *)
Lemma first_column tt ft2 j k : Forall (fun c => c < 256) tt -> ftab_ends tt ft2 -> (j < length tt)%nat ->
  k < 256 -> (k = 0 \/ nth (N.to_nat (k - 1)) ft2 0 <= N.of_nat j) -> N.of_nat j < nth (N.to_nat k) ft2 0 ->
  nth (nth j (Pn tt) 0%nat) tt 0 = k.
Proof.
  intros Hb (Hfl & Hfn) Hj Hk Hlo Hhi.
  set (c := N.to_nat k) in *. assert (Hc : (c < 256)%nat) by (unfold c; lia).
  rewrite (Hfn c Hc) in Hhi.
  assert (Hlo' : (startn tt c <= j)%nat).
  { destruct Hlo as [->|Hlo]; [cbn; lia|].
    destruct (N.eq_dec k 0) as [->|Nk]; [cbn; lia|].
    rewrite (Hfn (N.to_nat (k - 1))) in Hlo by lia.
    replace (S (N.to_nat (k - 1))) with c in Hlo by (unfold c; lia). lia. }
  rewrite startn_S in Hhi by exact Hc.
  replace j with (startn tt c + (j - startn tt c))%nat by lia.
  rewrite Pn_nth by (auto; lia).
  assert (Hin : In (nth (j - startn tt c) (idxs 0 (N.of_nat c) tt) 0%nat) (idxs 0 (N.of_nat c) tt)).
  { apply nth_In. rewrite idxs_length. lia. }
  apply idxs_In in Hin. destruct Hin as [_ Hin]. rewrite Nat.sub_0_r in Hin. rewrite Hin. unfold c. lia.
Qed.

(* ---- two bit-level facts about packed words ---- *)
Lemma land_shiftl8 w m : N.land w (N.shiftl m 8) = N.shiftl (N.land (N.shiftr w 8) m) 8.
Proof.
  apply N.bits_inj. intros t. rewrite N.land_spec.
  destruct (N.lt_ge_cases t 8) as [L|L].
  - rewrite !N.shiftl_spec_low by exact L. apply andb_false_r.
  - rewrite !N.shiftl_spec_high' by exact L. rewrite N.land_spec, N.shiftr_spec'.
    replace (t - 8 + 8) with t by lia. reflexivity.
Qed.

Lemma land_hi x q : x < 256 -> q < 2 ^ 24 -> N.land (x + 256 * q) 0xFFFFFF00 = 256 * q.
Proof.
  intros Hx Hq. change 0xFFFFFF00 with (N.shiftl (N.ones 24) 8).
  rewrite land_shiftl8, ptr_of by exact Hx. rewrite N.land_ones, N.mod_small by exact Hq.
  rewrite N.shiftl_mul_pow2. change (2 ^ 8) with 256. lia.
Qed.

Lemma lxor_1 a : N.lxor a 1 = if N.even a then a + 1 else a - 1.
Proof. destruct a as [|[p|p|]]; reflexivity. Qed.

Lemma lxor_low x q : x < 256 -> N.lxor (x + 256 * q) 1 = N.lxor x 1 + 256 * q /\ N.lxor x 1 < 256.
Proof.
  intros Hx. rewrite !lxor_1.
  replace (256 * q) with (2 * (128 * q)) by lia. rewrite N.even_add_mul_2.
  destruct (N.even x) eqn:E.
  - apply N.even_spec in E. destruct E as (m & ->). split; lia.
  - assert (x <> 0) by (intros ->; discriminate). split; lia.
Qed.

Section Rand.
  Variable tt : list N.
  Variable idx : N.
  Hypothesis Hb : Forall (fun c => c < 256) tt.
  Hypothesis Hn : N.of_nat (length tt) <= MAX_BLOCK_SIZE.
  Hypothesis Hidx : idx < N.of_nat (length tt).
  Variable ft2 : list N.
  Hypothesis Hfe : ftab_ends tt ft2.

  Definition jseq (q : nat) : nat := Nat.iter q (fun j => nth j (Pn tt) 0%nat) (N.to_nat idx).
  Definition outb (q : nat) : N := nth (jseq (S q)) tt 0.

  Lemma jseq_lt q : (jseq q < length tt)%nat.
  Proof. induction q as [|q IH]; [change (jseq 0) with (N.to_nat idx); lia|]. change (jseq (S q)) with (nth (jseq q) (Pn tt) 0%nat). apply Pn_nth_bound; auto. Qed.

  Lemma jseq_S q : jseq (S q) = nth (jseq q) (Pn tt) 0%nat.
  Proof. reflexivity. Qed.

  Lemma outb_lt q : outb q < 256.
  Proof. apply byte_lt. exact Hb. Qed.

  Lemma follow_out : forall k q, follow k (stable_perm tt) tt (N.of_nat (jseq q)) = map outb (seq q k).
  Proof.
    induction k as [|k IH]; intros q; [reflexivity|].
    cbn [follow seq map]. rewrite Nat2N.id, stable_perm_Pn.
    assert (E : nth (jseq q) (map N.of_nat (Pn tt)) 0 = N.of_nat (jseq (S q))).
    { rewrite jseq_S. change 0 with (N.of_nat 0%nat). apply map_nth. }
    rewrite E, Nat2N.id. rewrite <- stable_perm_Pn, IH. reflexivity.
  Qed.

  Lemma ibwt_out : ibwt tt idx = map outb (seq 0 (length tt)).
  Proof. unfold ibwt. rewrite <- follow_out. change (jseq 0) with (N.to_nat idx). rewrite N2Nat.id. reflexivity. Qed.

  Definition InsInv (i : nat) (tti : list N) : Prop :=
    length tti = length tt /\
    forall q, (q < length tt)%nat ->
      nth q tti 0 = (if Nat.ltb q i then outb q else nth q tt 0) + 256 * N.of_nat (nth q (Pn tt) 0%nat).

  Lemma P24 q : (q < length tt)%nat -> N.of_nat (nth q (Pn tt) 0%nat) < 2 ^ 24.
  Proof.
    intros Hq. pose proof (Pn_nth_bound tt q Hb Hq). unfold MAX_BLOCK_SIZE in Hn.
    change (2 ^ 24) with 16777216. lia.
  Qed.

  Lemma insitu_spec : forall k i tti, (i + k = length tt)%nat -> InsInv i tti ->
    exists tt3, insitu k (N.of_nat i) (N.of_nat (jseq i)) tti ft2 = Good tt3 /\ InsInv (length tt) tt3.
  Proof.
    induction k as [|k IH]; intros i tti Hik (Hl & Ht).
    - cbn [insitu]. replace (length tt) with i by lia. exists tti. split; [reflexivity|split; assumption].
    - assert (Hi : (i < length tt)%nat) by lia.
      pose proof (jseq_lt i) as Hj. set (j := jseq i) in *.
      destruct Hfe as (Hfl & Hfn).
      assert (H255 : nth 255 ft2 0 = N.of_nat (length tt)).
      { rewrite (Hfn 255%nat) by lia. rewrite startn_256_len by exact Hb. reflexivity. }
      destruct (bsearch_ok ft2 (N.of_nat j) Hfl ltac:(rewrite H255; lia)) as (k0 & HB & Hk0 & Hlo & Hhi).
      pose proof (first_column tt ft2 j k0 Hb (conj Hfl Hfn) Hj Hk0 Hlo Hhi) as HF.
      assert (Hout : outb i = k0) by (unfold outb; rewrite jseq_S; exact HF).
      cbn [insitu]. rewrite HB. cbn [bind].
      rewrite get_ok by lia. cbn [bind]. rewrite (Ht i Hi), Nat.ltb_irrefl.
      pose proof (byte_lt tt Hb i) as Hbi. pose proof (P24 i Hi) as Hp24.
      rewrite land_hi by assumption.
      unfold add32. replace (256 * N.of_nat (nth i (Pn tt) 0%nat) + k0 <? W32) with true
        by (symmetry; apply N.ltb_lt; change (2 ^ 24) with 16777216 in Hp24; unfold W32; lia).
      cbn [bind]. rewrite set_ok by lia. cbn [bind].
      rewrite get_ok by (rewrite upd_length; lia). cbn [bind].
      assert (Hnext : N.shiftr (nth j (upd tti i (256 * N.of_nat (nth i (Pn tt) 0%nat) + k0)) 0) 8
                      = N.of_nat (jseq (S i))).
      { rewrite jseq_S. fold j. rewrite nth_upd by lia. destruct (Nat.eqb_spec j i) as [E|E].
        - rewrite E. rewrite N.add_comm. apply ptr_of. exact Hk0.
        - rewrite (Ht j Hj). apply ptr_of. destruct (Nat.ltb j i); [apply outb_lt|apply byte_lt; exact Hb]. }
      rewrite Hnext. replace (N.of_nat i + 1) with (N.of_nat (S i)) by lia.
      apply IH; [lia|]. split; [rewrite upd_length; exact Hl|].
      intros q Hq. rewrite nth_upd by lia. destruct (Nat.eqb_spec q i) as [E|E].
      + subst q. replace (Nat.ltb i (S i)) with true by (symmetry; apply Nat.ltb_lt; lia). rewrite Hout. lia.
      + rewrite (Ht q Hq).
        destruct (Nat.ltb_spec q i), (Nat.ltb_spec q (S i)); try lia; reflexivity.
  Qed.
End Rand.

(* ---- derandomisation ---- *)
Lemma rand_table_length : length rand_table = 512%nat.
Proof. reflexivity. Qed.

Lemma rand_table_range i : (i < 512)%nat -> 1 <= nth i rand_table 0 <= 999.
Proof.
  assert (H : forallb (fun x => (1 <=? x) && (x <=? 999)) rand_table = true) by (vm_compute; reflexivity).
  rewrite forallb_forall in H. intros Hi.
  assert (Hin : In (nth i rand_table 0) rand_table) by (apply nth_In; rewrite rand_table_length; exact Hi).
  apply H in Hin. apply andb_true_iff in Hin. destruct Hin as [H1 H2].
  apply N.leb_le in H1, H2. lia.
Qed.

Lemma derand_pos_ge : forall fuel i j bs p, In p (derand_pos fuel i j bs) -> j <= p.
Proof.
  induction fuel as [|f IH]; intros i j bs p H; [destruct H|].
  cbn [derand_pos] in H. destruct (j <? bs); [|destruct H].
  destruct H as [<-|H]; [lia|]. apply IH in H. lia.
Qed.

Lemma existsb_lt x ps j' : (forall p, In p ps -> j' <= p) -> x < j' -> existsb (N.eqb x) ps = false.
Proof.
  intros H Hx. induction ps as [|p ps IH]; [reflexivity|]. cbn [existsb].
  replace (x =? p) with false by (symmetry; apply N.eqb_neq; specialize (H p (or_introl eq_refl)); lia).
  apply IH. intros q Hq. apply H. right. exact Hq.
Qed.

Lemma derandloop_spec : forall fuel i j bs l,
  N.of_nat (length l) = bs -> bs <= MAX_BLOCK_SIZE -> bs <= j + N.of_nat fuel ->
  exists l', derandloop fuel i j bs l = Good l' /\ length l' = length l /\
    forall q, (q < length l)%nat ->
      nth q l' 0 = if existsb (N.eqb (N.of_nat q)) (derand_pos fuel i j bs) then N.lxor (nth q l 0) 1 else nth q l 0.
Proof.
  induction fuel as [|f IH]; intros i j bs l Hl Hbs Hf.
  - cbn [derandloop derand_pos]. replace (j <? bs) with false by (symmetry; apply N.ltb_ge; lia).
    exists l. split; [reflexivity|]. split; [reflexivity|]. intros q _. reflexivity.
  - cbn [derandloop derand_pos]. destruct (j <? bs) eqn:Ej.
    2:{ exists l. split; [reflexivity|]. split; [reflexivity|]. intros q _. reflexivity. }
    apply N.ltb_lt in Ej.
    rewrite (get_nth l _ 0) by lia. cbn [bind].
    unfold set. replace (j <? N.of_nat (length l)) with true by (symmetry; apply N.ltb_lt; lia). cbn [bind].
    set (i' := N.land (i + 1) 511).
    assert (Hi' : (N.to_nat i' < 512)%nat).
    { unfold i'. change 511 with (N.ones 9). rewrite N.land_ones.
      pose proof (N.mod_upper_bound (i + 1) (2 ^ 9) ltac:(discriminate)). change (2 ^ 9) with 512 in *. lia. }
    rewrite (get_nth rand_table _ 0) by (rewrite rand_table_length; exact Hi'). cbn [bind].
    pose proof (rand_table_range _ Hi') as Hr. set (r := nth (N.to_nat i') rand_table 0) in *.
    unfold add32. unfold MAX_BLOCK_SIZE in Hbs.
    replace (j + r <? W32) with true by (symmetry; apply N.ltb_lt; unfold W32; lia). cbn [bind].
    set (l1 := upd l (N.to_nat j) (N.lxor (nth (N.to_nat j) l 0) 1)).
    destruct (IH i' (j + r) bs l1) as (l' & HD & Hl' & Hq); [unfold l1; rewrite upd_length; exact Hl|unfold MAX_BLOCK_SIZE; lia|lia|].
    exists l'. split; [exact HD|]. split; [rewrite Hl'; unfold l1; apply upd_length|].
    intros q Hq1. rewrite (Hq q) by (unfold l1; rewrite upd_length; exact Hq1).
    cbn [existsb]. unfold l1. rewrite nth_upd by lia.
    destruct (N.eqb_spec (N.of_nat q) j) as [E|E].
    + replace (Nat.eqb q (N.to_nat j)) with true by (symmetry; apply Nat.eqb_eq; lia).
      rewrite (existsb_lt (N.of_nat q) _ (j + r)); [|intros p Hp; apply derand_pos_ge in Hp; exact Hp|lia].
      cbn [orb]. replace (N.to_nat j) with q by lia. reflexivity.
    + replace (Nat.eqb q (N.to_nat j)) with false by (symmetry; apply Nat.eqb_neq; lia).
      cbn [orb]. reflexivity.
Qed.

Lemma derand_nth blk q : (q < length blk)%nat ->
  nth q (derand blk) 0 =
  if existsb (N.eqb (N.of_nat q)) (derand_pos (length blk) 0 RAND_THRESH (N.of_nat (length blk)))
  then N.lxor (nth q blk 0) 1 else nth q blk 0.
Proof.
  intros Hq. unfold derand.
  set (ps := derand_pos (length blk) 0 RAND_THRESH (N.of_nat (length blk))).
  set (f := fun p : nat * N => if existsb (N.eqb (N.of_nat (fst p))) ps then N.lxor (snd p) 1 else snd p).
  rewrite (nth_indep _ 0 (f (0%nat, 0))) by (rewrite map_length, combine_length, seq_length; lia).
  rewrite map_nth, combine_nth by (rewrite seq_length; reflexivity).
  rewrite seq_nth by exact Hq. unfold f. cbn [fst snd Nat.add]. reflexivity.
Qed.

Lemma derand_length blk : length (derand blk) = length blk.
Proof. unfold derand. rewrite map_length, combine_length, seq_length. lia. Qed.

(* ---- re-linking ---- *)
Lemma relink_spec : forall k i l, (i + k = length l)%nat -> N.of_nat (length l) <= MAX_BLOCK_SIZE ->
  exists l', relink k (N.of_nat i) l = Good l' /\ length l' = length l /\
    forall q, (q < length l)%nat ->
      nth q l' 0 = if Nat.leb i q then low8 (nth q l 0) + 256 * (N.of_nat q + 1) else nth q l 0.
Proof.
  induction k as [|k IH]; intros i l Hik Hn.
  - cbn [relink]. exists l. split; [reflexivity|]. split; [reflexivity|].
    intros q Hq. replace (Nat.leb i q) with false by (symmetry; apply Nat.leb_gt; lia). reflexivity.
  - cbn [relink]. unfold MAX_BLOCK_SIZE in Hn.
    rewrite get_ok by lia. cbn [bind].
    unfold add32 at 1. replace (N.of_nat i + 1 <? W32) with true by (symmetry; apply N.ltb_lt; unfold W32; lia). cbn [bind].
    unfold shl8. replace ((N.of_nat i + 1) * 256 <? W32) with true by (symmetry; apply N.ltb_lt; unfold W32; lia). cbn [bind].
    pose proof (low8_lt (nth i l 0)) as Hlo. fold (low8 (nth i l 0)).
    unfold add32. replace ((N.of_nat i + 1) * 256 + low8 (nth i l 0) <? W32) with true
      by (symmetry; apply N.ltb_lt; unfold W32; lia). cbn [bind].
    rewrite set_ok by lia. cbn [bind]. replace (N.of_nat i + 1) with (N.of_nat (S i)) by lia.
    set (l1 := upd l i (N.of_nat (S i) * 256 + low8 (nth i l 0))).
    destruct (IH (S i) l1) as (l' & HR & Hl' & Hq); [unfold l1; rewrite upd_length; lia|unfold l1; rewrite upd_length; unfold MAX_BLOCK_SIZE; lia|].
    exists l'. split; [exact HR|]. split; [rewrite Hl'; unfold l1; apply upd_length|].
    intros q Hq1. rewrite (Hq q) by (unfold l1; rewrite upd_length; exact Hq1).
    unfold l1. rewrite nth_upd by lia.
    destruct (Nat.eqb_spec q i) as [E|E].
    + subst q. replace (Nat.leb (S i) i) with false by (symmetry; apply Nat.leb_gt; lia).
      rewrite Nat.leb_refl. lia.
    + destruct (Nat.leb_spec (S i) q), (Nat.leb_spec i q); try lia; reflexivity.
Qed.

Lemma walk_seq l : (forall q, (q < length l)%nat -> N.shiftr (nth q l 0) 8 = N.of_nat (S q)) ->
  forall k q p, (q + k <= length l)%nat -> N.shiftr p 8 = N.of_nat q -> Walk l p (firstn k (skipn q l)).
Proof.
  intros H. induction k as [|k IH]; intros q p Hqk Hp; [constructor|].
  rewrite (skipn_cons_nth l q 0) by lia. cbn [firstn]. constructor.
  - rewrite Hp, Nat2N.id. apply nth_error_nth'. lia.
  - apply IH; [lia|]. apply H. lia.
Qed.

Theorem decode_rand tt idx crc0 : block_ok tt idx ->
  exists tt' ft' st,
    decode_model tt (ftab_of tt) (N.of_nat (length tt)) idx true crc0 = Good (tt', ft', st) /\
    length tt' = length tt /\ ftab_ends tt ft' /\ ds_crc st = crc0 /\
    rle_state st = 0 /\ rle_avail st = N.of_nat (length tt) /\
    (forall q, (q < length tt)%nat -> N.shiftr (nth q tt' 0) 8 = N.of_nat (S q)) /\
    Inv tt' st 0 256 (derand (ibwt tt idx)) M1.
Proof.
  intros (Hb & [Hn1 Hn2] & Hidx).
  destruct (decode_common tt Hb Hn2) as (ft1 & tt2 & ft2 & HC & HL & Hlk & Hfe).
  unfold decode_model. rewrite HC. cbn [bind]. rewrite N.eqb_refl. cbn [negb].
  rewrite Nat2N.id, HL. cbn [bind].
  pose proof Hfe as (Hfl & Hfn). destruct Hlk as (Hl2 & Ht2).
  change 255 with (N.of_nat 255). rewrite get_ok by lia. cbn [bind].
  rewrite (Hfn 255%nat) by lia. rewrite startn_256_len by exact Hb. rewrite N.eqb_refl. cbn [negb bind].
  (* in-situ IBWT *)
  assert (HI0 : InsInv tt idx 0 tt2).
  { split; [exact Hl2|]. intros q Hq. cbn [Nat.ltb Nat.leb]. apply Ht2. exact Hq. }
  destruct (insitu_spec tt idx Hb Hn2 Hidx ft2 Hfe (length tt) 0 tt2 ltac:(lia) HI0) as (tt3 & HS & Hl3 & Ht3).
  change (jseq tt idx 0) with (N.to_nat idx) in HS. rewrite N2Nat.id in HS.
  change (N.of_nat 0) with 0 in HS. rewrite HS. cbn [bind].
  (* derandomisation *)
  destruct (derandloop_spec (length tt) 0 RAND_THRESH (N.of_nat (length tt)) tt3
              ltac:(rewrite Hl3; reflexivity) Hn2 ltac:(lia)) as (tt4 & HD & Hl4 & Ht4).
  rewrite HD. cbn [bind].
  set (blk := ibwt tt idx).
  assert (Hblk : blk = map (outb tt idx) (seq 0 (length tt))) by (apply ibwt_out).
  assert (Hbl : length blk = length tt) by (rewrite Hblk, map_length, seq_length; reflexivity).
  assert (Hbn : forall q, (q < length tt)%nat -> nth q blk 0 = outb tt idx q).
  { intros q Hq. rewrite Hblk. rewrite (nth_indep _ 0 (outb tt idx 0)) by (rewrite map_length, seq_length; exact Hq).
    rewrite map_nth, seq_nth by exact Hq. reflexivity. }
  assert (Ht4' : forall q, (q < length tt)%nat ->
            nth q tt4 0 = nth q (derand blk) 0 + 256 * N.of_nat (nth q (Pn tt) 0%nat) /\ nth q (derand blk) 0 < 256).
  { intros q Hq. rewrite (Ht4 q) by (rewrite Hl3; exact Hq).
    rewrite derand_nth by (rewrite Hbl; exact Hq). rewrite Hbl, (Hbn q Hq).
    rewrite (Ht3 q Hq). replace (Nat.ltb q (length tt)) with true by (symmetry; apply Nat.ltb_lt; exact Hq).
    pose proof (outb_lt tt idx Hb q) as Ho.
    destruct (existsb _ _).
    - destruct (lxor_low (outb tt idx q) (N.of_nat (nth q (Pn tt) 0%nat)) Ho) as [E1 E2]. split; assumption.
    - split; [reflexivity|exact Ho]. }
  (* re-linking *)
  destruct (relink_spec (length tt) 0 tt4 ltac:(rewrite Hl4, Hl3; reflexivity) ltac:(rewrite Hl4, Hl3; exact Hn2))
    as (tt5 & HR & Hl5 & Ht5).
  change (N.of_nat 0) with 0 in HR. rewrite HR. cbn [bind].
  assert (Hlen5 : length tt5 = length tt) by (rewrite Hl5, Hl4, Hl3; reflexivity).
  assert (Ht5' : forall q, (q < length tt)%nat -> nth q tt5 0 = nth q (derand blk) 0 + 256 * (N.of_nat q + 1)).
  { intros q Hq. rewrite (Ht5 q) by (rewrite Hl4, Hl3; exact Hq). cbn [Nat.leb].
    destruct (Ht4' q Hq) as [E1 E2]. rewrite E1, low_of by exact E2. reflexivity. }
  assert (Hptr : forall q, (q < length tt)%nat -> N.shiftr (nth q tt5 0) 8 = N.of_nat (S q)).
  { intros q Hq. rewrite (Ht5' q Hq). destruct (Ht4' q Hq) as [_ E2]. rewrite ptr_of by exact E2. lia. }
  eexists _, _, _. split; [reflexivity|]. split; [exact Hlen5|]. split; [exact Hfe|]. split; [reflexivity|].
  split; [reflexivity|]. split; [reflexivity|].
  split; [exact Hptr|].
  exists tt5. cbn [rle_index rle_avail rle_crc rle_char rle_prev rle_state].
  split.
  { pose proof (walk_seq tt5 ltac:(rewrite Hlen5; exact Hptr) (length tt5) 0%nat 0 ltac:(lia) eq_refl) as HW.
    cbn [skipn] in HW. rewrite firstn_all in HW. exact HW. }
  split; [rewrite Hlen5; reflexivity|].
  split; [unfold MAX_BLOCK_SIZE, M1 in *; lia|]. split; [reflexivity|]. split; [reflexivity|].
  split; [reflexivity|]. split; [reflexivity|]. left.
  repeat split.
  apply (nth_ext _ _ 0 0).
  - rewrite derand_length, map_length, Hbl, Hlen5. reflexivity.
  - intros q Hq. rewrite derand_length, Hbl in Hq.
    change 0 with (low8 0) at 2. rewrite map_nth. rewrite (Ht5' q Hq).
    destruct (Ht4' q Hq) as [_ E2]. rewrite low_of by exact E2. reflexivity.
Qed.

(* ======================================================================================== *)
(* Part 4: the statements                                                                   *)
(* ======================================================================================== *)
Definition block_of (col : list N) (idx : N) (rand : bool) : list N :=
  if rand then derand (ibwt col idx) else ibwt col idx.

Lemma abstract_block_of col idx rand : abstract_block col idx rand = unrle true 256 0 (block_of col idx rand).
Proof. unfold abstract_block, block_of. destruct rand; reflexivity. Qed.

Theorem decode_inv col idx rand crc0 : block_ok col idx ->
  exists tt' ft' st,
    decode_model col (ftab_of col) (N.of_nat (length col)) idx rand crc0 = Good (tt', ft', st) /\
    length tt' = length col /\ ftab_ends col ft' /\ ds_crc st = crc0 /\
    rle_state st = 0 /\ rle_avail st = N.of_nat (length col) /\
    (forall q, (q < length col)%nat ->
       if rand then N.shiftr (nth q tt' 0) 8 = N.of_nat (S q)
       else N.shiftr (nth q tt' 0) 8 < N.of_nat (length col)) /\
    Inv tt' st 0 256 (block_of col idx rand) M1.
Proof.
  intros H. destruct rand.
  - destruct (decode_rand col idx crc0 H) as (tt' & ft' & st & HD & Hl & Hfe & Hcrc & Hs0 & Hav & Hp & HI).
    exists tt', ft', st. repeat (split; [assumption|]). exact HI.
  - destruct (decode_norand col idx crc0 H) as (tt' & ft' & st & HD & (Hl & Ht) & Hfe & Hcrc & Hs0 & Hav & HI).
    exists tt', ft', st. repeat (split; [assumption|]). split; [|exact HI].
    intros q Hq. destruct H as (Hb & _ & _). rewrite (Ht q Hq), ptr_of by (apply byte_lt; exact Hb).
    pose proof (Pn_nth_bound col q Hb Hq). lia.
Qed.

(* (a) decode(): every access in bounds, nothing wraps, both asserts hold, the list is well formed *)
Theorem decode_safe col idx rand crc0 : block_ok col idx ->
  exists tt' ft' st,
    decode_model col (ftab_of col) (N.of_nat (length col)) idx rand crc0 = Good (tt', ft', st) /\
    length tt' = length col /\ length ft' = 256%nat /\ nth 255 ft' 0 = N.of_nat (length col) /\
    (forall q, (q < length col)%nat ->
       if rand then N.shiftr (nth q tt' 0) 8 = N.of_nat (S q)
       else N.shiftr (nth q tt' 0) 8 < N.of_nat (length col)) /\
    rle_state st = 0 /\ rle_avail st = N.of_nat (length col) /\ rle_crc st = M1 /\
    exists ws, Walk tt' (rle_index st) ws /\ length ws = length col.
Proof.
  intros H.
  destruct (decode_inv col idx rand crc0 H) as (tt' & ft' & st & HD & Hl & (Hfl & Hfn) & Hcrc & Hs0 & Hav & Hp & HI).
  exists tt', ft', st. split; [exact HD|]. split; [exact Hl|]. split; [exact Hfl|].
  destruct H as (Hb & Hn & Hidx).
  split; [rewrite (Hfn 255%nat) by lia; rewrite startn_256_len by exact Hb; reflexivity|].
  split; [exact Hp|]. split; [exact Hs0|]. split; [exact Hav|].
  destruct HI as (ws & HW & Ha & _ & Hs & _).
  split; [exact Hs|]. exists ws. split; [exact HW|]. rewrite Hav in Ha. lia.
Qed.

Lemma decode_emit_unfold col idx rand sizes tt' ft' st :
  decode_model col (ftab_of col) (N.of_nat (length col)) idx rand 0 = Good (tt', ft', st) ->
  decode_emit col idx rand sizes = emit_run tt' st sizes.
Proof. intros H. unfold decode_emit. rewrite H. reflexivity. Qed.

(* (b) emit(): for every sequence of buffer sizes no access out of bounds (t[p >> 8], crc_table),
   the exit assertion holds, and no call writes more than its buffer holds *)
Theorem emit_safe col idx rand sizes : block_ok col idx -> sizes_ok sizes ->
  match decode_emit col idx rand sizes with
  | RFault _ => False
  | RFinished _ chunks _ => chunks_fit chunks sizes
  | RPending chunks _ => Forall2 (fun c b => N.of_nat (length c) = b) chunks sizes
  end.
Proof.
  intros H Hs. destruct (decode_inv col idx rand 0 H) as (tt' & ft' & st & HD & _ & _ & _ & _ & _ & _ & HI).
  rewrite (decode_emit_unfold _ _ _ _ _ _ _ HD).
  pose proof (emit_run_spec sizes tt' st 0 256 _ M1 HI Hs) as HR.
  destruct (emit_run tt' st sizes); [destruct HR as [HR _]; exact HR|destruct HR as [HR _]; exact HR|exact HR].
Qed.

(* (c) the bytes written over successive calls, for ANY positive buffer sizes, are the abstract result *)
Theorem emit_chunking col idx rand sizes : block_ok col idx -> sizes_ok sizes ->
  match decode_emit col idx rand sizes with
  | RFinished status chunks st' =>
      (status = E_OK /\ abstract_block col idx rand = Ok (concat chunks) /\
       ds_crc st' = N.lxor (crc_bytes mask32 (concat chunks)) mask32)
      \/ (status = E_ERR_RUNLEN /\ abstract_block col idx rand = Err ErrRunlen /\
          unrle false 256 0 (block_of col idx rand) = Ok (concat chunks))
  | RPending chunks st' =>
      (forall out, abstract_block col idx rand = Ok out -> exists more, out = concat chunks ++ more) /\
      N.of_nat (length (concat chunks)) = total sizes
  | RFault _ => False
  end.
Proof.
  intros H Hs. destruct (decode_inv col idx rand 0 H) as (tt' & ft' & st & HD & _ & _ & _ & _ & _ & _ & HI).
  rewrite (decode_emit_unfold _ _ _ _ _ _ _ HD), abstract_block_of.
  pose proof (emit_run_spec sizes tt' st 0 256 _ M1 HI Hs) as HR.
  destruct (emit_run tt' st sizes) as [status chunks st'|chunks st'|f]; [| |exact HR].
  - destruct HR as [_ HR]. exact HR.
  - destruct HR as (HF & k' & d' & rest' & _ & Hu). split.
    + intros out Hout. rewrite (Hu true) in Hout. destruct (unrle true d' k' rest') as [o|e]; [|discriminate].
      cbn [rbind] in Hout. injection Hout as <-. eauto.
    + clear -HF. induction HF as [|c b cs bs Hc HF IH]; [reflexivity|].
      cbn [concat total fold_right]. rewrite app_length. fold (total bs). lia.
Qed.

Theorem emit_finishes col idx rand sizes out : block_ok col idx -> sizes_ok sizes -> sizes <> [] ->
  unrle false 256 0 (block_of col idx rand) = Ok out -> N.of_nat (length out) <= total sizes ->
  exists status chunks st', decode_emit col idx rand sizes = RFinished status chunks st'.
Proof.
  intros H Hs Hne Hout Hlen. destruct (decode_inv col idx rand 0 H) as (tt' & ft' & st & HD & _ & _ & _ & _ & _ & _ & HI).
  rewrite (decode_emit_unfold _ _ _ _ _ _ _ HD).
  eapply emit_run_terminates; eauto.
Qed.

(* C09, codec level: the result does not depend on the buffer sizes *)
Theorem emit_buffer_independent col idx rand s1 s2 r1 c1 e1 r2 c2 e2 :
  block_ok col idx -> sizes_ok s1 -> sizes_ok s2 ->
  decode_emit col idx rand s1 = RFinished r1 c1 e1 ->
  decode_emit col idx rand s2 = RFinished r2 c2 e2 ->
  r1 = r2 /\ concat c1 = concat c2 /\ (r1 = E_OK -> ds_crc e1 = ds_crc e2).
Proof.
  intros H H1 H2 E1 E2.
  pose proof (emit_chunking col idx rand s1 H H1) as A. rewrite E1 in A.
  pose proof (emit_chunking col idx rand s2 H H2) as B. rewrite E2 in B.
  destruct A as [(-> & A1 & A2)|(-> & A1 & A2)], B as [(-> & B1 & B2)|(-> & B1 & B2)];
    try (rewrite A1 in B1; discriminate).
  - rewrite A1 in B1. injection B1 as B1. split; [reflexivity|]. split; [exact B1|].
    intros _. rewrite A2, B2, B1. reflexivity.
  - rewrite A2 in B2. injection B2 as B2. split; [reflexivity|]. split; [exact B2|]. discriminate.
Qed.

(* ---- the hypotheses are satisfiable; concrete runs ---- *)
Definition ex_col : list N := [98; 97; 97; 97; 97; 100; 98; 98; 98; 99; 2; 99; 98; 0].

Example ex_block_ok : block_ok ex_col 5.
Proof.
  unfold block_ok. split; [repeat (constructor; [reflexivity|]); constructor|].
  split; [split; cbv; discriminate|reflexivity].
Qed.

Example ex_sizes_ok : sizes_ok [1; 1; 1; 1; 1; 1; 1; 1; 1; 1; 1; 1; 1; 1; 1].
Proof. repeat (constructor; [split; cbv; [discriminate|reflexivity]|]). constructor. Qed.

(* one byte per call: the emitter is suspended in states 1, 2, 3, 4 and 5 *)
Example ex_run_states :
  match decode_emit ex_col 5 false [1; 1; 1; 1; 1; 1; 1; 1; 1; 1; 1; 1; 1; 1; 1] with
  | RFinished status chunks st =>
      status = E_OK /\ concat chunks = [97; 97; 97; 97; 97; 97; 98; 99; 99; 98; 98; 98; 98; 100] /\
      ds_crc st = 0x0e1d2055
  | _ => False
  end.
Proof. vm_compute. repeat split. Qed.

Example ex_saved_states :
  map (fun k => match decode_emit ex_col 5 false (repeat 1 k) with
                | RPending _ st => rle_state st | _ => 99 end) [1%nat; 2%nat; 3%nat; 4%nat; 5%nat; 6%nat]
  = [1; 2; 3; 4; 4; 5].
Proof. vm_compute. reflexivity. Qed.

(* a block ending right after four equal bytes *)
Example ex_runlen :
  match decode_emit [5; 5; 5; 5] 0 false [3; 3] with
  | RFinished status chunks _ => status = E_ERR_RUNLEN /\ chunks = [[5; 5; 5]; [5]]
  | _ => False
  end.
Proof. vm_compute. split; reflexivity. Qed.

(* a randomised block longer than RAND_THRESH: model = abstract decoder *)
Definition ex_long : list N := map (fun i => N.of_nat ((i * 7 + i / 5) mod 6)) (seq 0 700).
Example ex_rand :
  match decode_emit ex_long 123 true [100; 7; 1000; 4000; 4000; 4000; 4000; 4000; 4000] with
  | RFinished status chunks _ =>
      abstract_block ex_long 123 true = (if status =? E_OK then Ok (concat chunks) else Err ErrRunlen) /\
      derand (ibwt ex_long 123) <> ibwt ex_long 123
  | _ => False
  end.
Proof. vm_compute. split; [reflexivity|discriminate]. Qed.

(* the precondition on buffer sizes: *buf_sz is a size_t but m is a uint32_t; a buffer size
   that is a multiple of 2^32 makes emit() return MORE without writing anything *)
Example ex_bufsize_2p32 :
  match decode_model ex_col (ftab_of ex_col) 14 5 false 0 with
  | Good (tt', _, st) =>
      match emit_model tt' st 4294967296 with
      | Good (status, out, _, bleft) => status = E_MORE /\ out = [] /\ bleft = 0
      | Bad _ => False
      end
  | Bad _ => False
  end.
Proof. vm_compute. repeat split. Qed.

Print Assumptions decode_safe.
Print Assumptions emit_safe.
Print Assumptions emit_chunking.
Print Assumptions emit_finishes.
Print Assumptions emit_buffer_independent.
