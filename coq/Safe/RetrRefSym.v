(* C05/C06, retrieve(): the blocks of the symbol phase of the model (Safe/RetrModel.v) read what Format.read_groups
   reads and compute what Format.unmtf computes (residual programs K_* and abstract values R_* of Safe/RetrSpec.v). *)
From Coq Require Import List NArith Arith Bool Lia ZifyBool ZifyNat ZifyN.
From LBZ Require Import Common.Bits Gen.Consts Gen.DecTabs Dec.Prog Dec.Format Dec.Sim Dec.Policies
                        Safe.TreeModel Safe.TreeLemmas Safe.TreeProofs
                        Safe.RetrModel Safe.RetrChunk Safe.RetrInv Safe.RetrStepSym Safe.RetrSpec.
From LBZ Require Safe.SlideModel Safe.SlideProofs.
Import ListNotations.
Local Open Scope N_scope.

(* Format.unmtf is the symbol-by-symbol machine *)
Lemma unmtf_usteps limit : forall syms order run shift size acc,
  unmtf limit order run shift size acc syms =
  match usteps limit (order, run, shift, size, acc) syms with Ok u => ufinal limit u | Err e => Err e end.
Proof.
  induction syms as [|s r IH]; intros order run shift size acc.
  - reflexivity.
  - cbn [unmtf usteps ustep]. destruct (s <=? 1); [apply IH|].
    destruct (limit <? size + run); [reflexivity|]. unfold mtf_front. cbn [snd]. apply IH.
Qed.

Lemma usteps_app limit : forall a b u,
  usteps limit u (a ++ b) = match usteps limit u a with Ok u' => usteps limit u' b | Err e => Err e end.
Proof.
  induction a as [|s a IH]; intros b u; [reflexivity|].
  cbn [app usteps]. destruct (ustep limit u s); [apply IH|reflexivity].
Qed.

(* ---- lists ------------------------------------------------------------------------------------------------------ *)
Lemma nth_firstn_lt {A} (d : A) : forall i p l, (p < i)%nat -> nth p (firstn i l) d = nth p l d.
Proof. induction i; intros p l H; [lia|]. destruct l; [destruct p; reflexivity|]. destruct p; [reflexivity|]. cbn. apply IHi. lia. Qed.

Lemma nth_skipn_add {A} (d : A) : forall k p l, nth p (skipn k l) d = nth (k + p) l d.
Proof. induction k; intros p l; [reflexivity|]. destruct l; [destruct p; reflexivity|]. cbn. apply IHk. Qed.

Lemma skipn_nth_cons {A} (d : A) : forall g l, (g < length l)%nat -> skipn g l = nth g l d :: skipn (S g) l.
Proof. induction g; intros [|x l] H; cbn [length] in H; try lia; [reflexivity|]. cbn [skipn nth]. rewrite (IHg l) by lia. reflexivity. Qed.

Lemma firstn_S_nth {A} (d : A) : forall g l, (g < length l)%nat -> firstn (S g) l = firstn g l ++ [nth g l d].
Proof. induction g; intros [|x l] H; cbn [length] in H; try lia; [reflexivity|]. cbn [firstn nth app]. f_equal. apply IHg. lia. Qed.

Lemma nth_mtf_front (d : N) i l p : (i < length l)%nat ->
  nth p (snd (mtf_front i l d)) d =
  if (p =? 0)%nat then nth i l d else if (p <=? i)%nat then nth (p - 1) l d else nth p l d.
Proof.
  intro Hi. unfold mtf_front. cbn [snd]. destruct p as [|p]; [reflexivity|]. cbn [nth Nat.eqb].
  assert (Lf : length (firstn i l) = i) by (rewrite firstn_length; lia).
  destruct (Nat.leb_spec (S p) i) as [H|H].
  - rewrite app_nth1 by lia. rewrite nth_firstn_lt by lia. f_equal. lia.
  - rewrite app_nth2 by lia. rewrite Lf, nth_skipn_add. f_equal. lia.
Qed.

(* ---- the selectors ---------------------------------------------------------------------------------------------- *)
Definition sel_step (ord : list N) (s : N) : list N := snd (mtf_front (N.to_nat s) ord 0).

Lemma sel_order_eq sels : sel_order sels = fold_left sel_step sels [0; 1; 2; 3; 4; 5].
Proof. reflexivity. Qed.

Lemma unmtf_sel_length : forall l o, length (unmtf_selectors o l) = length l.
Proof. induction l as [|s l IH]; intro o; [reflexivity|]. cbn [unmtf_selectors mtf_front length]. rewrite IH. reflexivity. Qed.

Lemma unmtf_sel_skipn : forall g l o,
  skipn g (unmtf_selectors o l) = unmtf_selectors (fold_left sel_step (firstn g l) o) (skipn g l).
Proof.
  induction g as [|g IH]; intros l o; [reflexivity|]. destruct l as [|s l]; [reflexivity|].
  cbn [unmtf_selectors mtf_front skipn firstn fold_left]. rewrite IH. reflexivity.
Qed.

Lemma sel_order_snoc g l : (g < length l)%nat ->
  sel_order (firstn (S g) l) = snd (mtf_front (N.to_nat (nth g l 0)) (sel_order (firstn g l)) 0).
Proof. intro H. rewrite (firstn_S_nth 0) by exact H. rewrite !sel_order_eq, fold_left_app. reflexivity. Qed.

Lemma sels_skipn g l : (g < length l)%nat ->
  skipn g (unmtf_selectors [0; 1; 2; 3; 4; 5] l) =
  nth (N.to_nat (nth g l 0)) (sel_order (firstn g l)) 0 :: skipn (S g) (unmtf_selectors [0; 1; 2; 3; 4; 5] l).
Proof.
  intro H. rewrite !unmtf_sel_skipn. rewrite (skipn_nth_cons 0 g l H). cbn [unmtf_selectors mtf_front].
  f_equal. rewrite (firstn_S_nth 0) by exact H. rewrite fold_left_app. reflexivity.
Qed.

Lemma sel_order_len : forall l o, length o = 6%nat -> Forall (fun s => s < 6) l -> length (fold_left sel_step l o) = 6%nat.
Proof.
  induction l as [|s l IH]; intros o Ho F; [exact Ho|]. inversion F; subst. cbn [fold_left]. apply IH; [|assumption].
  unfold sel_step, mtf_front. cbn [snd length]. rewrite app_length, firstn_length, skipn_length. lia.
Qed.

(* ---- what the relations look at ----------------------------------------------------------------------------------- *)
Definition stat (c : core) :=
  (d_rand c, d_bwt_idx c, r_num_trees c, r_alpha_size c, r_num_selectors c, r_selector c, r_mtf c, r_tree c).
Definition dyn (c : core) := (r_run c, r_shift c, c_ttp c, c_tt c, r_runChar c).

Lemma G_static_stat c c' h selm tables k : stat c' = stat c -> G_static c h selm tables k -> G_static c' h selm tables k.
Proof.
  unfold stat, G_static. intro E. injection E as E1 E2 E3 E4 E5 E6 E7 E8. rewrite E1, E2, E3, E4, E5, E6, E7, E8. auto.
Qed.

Lemma G_syms_dyn c c' h order syms : dyn c' = dyn c -> G_syms c h order syms -> G_syms c' h order syms.
Proof.
  unfold dyn, G_syms. intro E. injection E as E1 E2 E3 E4 E5. rewrite E1, E2, E3, E4, E5. auto.
Qed.

Lemma strm_vw c c' nx : c_v c' = c_v c -> c_w c' = c_w c -> strm c' nx = strm c nx.
Proof. intros Ev Ew. unfold strm, bufq. rewrite Ev, Ew. reflexivity. Qed.

Lemma J_group_set_j c order x : J_group c order -> J_group (set_r_j c x) order.
Proof. intro J. dcore c. jopen. exact J. Qed.

(* ---- group_select, explicitly -------------------------------------------------------------------------------------- *)
Lemma group_select_val c : r_g c < r_num_selectors c -> r_g c < N.of_nat (length (r_selector c)) ->
  let i := nth (N.to_nat (r_g c)) (r_selector c) 0 in
  let code := nth (N.to_nat i) (r_mtf c) 0 in
  i < N.of_nat (length (r_mtf c)) ->
  exists m', length m' = length (r_mtf c) /\
    (forall p, (1 <= p <= N.to_nat i)%nat -> nth p m' 0 = nth (p - 1) (r_mtf c) 0) /\
    (forall p, (p = 0 \/ N.to_nat i < p)%nat -> nth p m' 0 = nth p (r_mtf c) 0) /\
    group_select c = if MAX_TREES <=? code then GOut (BRet code (set_r_t c code))
                     else GSel (set_r_mtf (set_r_t c code) (upd 0 code m')).
Proof.
  intros Hg Hgl i code Hi.
  destruct (mtf_shift_spec (N.to_nat i) (r_mtf c)) as (m' & E & L & P1 & P2); [lia|].
  exists m'. split; [exact L|]. split; [exact P1|]. split; [exact P2|].
  unfold group_select. apply N.ltb_lt in Hg. rewrite Hg. rewrite xget_ok by exact Hgl. fold i.
  rewrite xget_ok by exact Hi. fold code. destruct (MAX_TREES <=? code); [reflexivity|].
  replace (r_mtf (set_r_t c code)) with (r_mtf c) by (dcore c; reflexivity).
  rewrite E. cbn [bindX]. rewrite xset_ok by lia. reflexivity.
Qed.

Lemma gsel_fields c t m : let c' := set_r_j (set_r_mtf (set_r_t c t) m) 0 in
  d_rand c' = d_rand c /\ d_bwt_idx c' = d_bwt_idx c /\ r_num_trees c' = r_num_trees c /\ r_alpha_size c' = r_alpha_size c /\
  r_num_selectors c' = r_num_selectors c /\ r_selector c' = r_selector c /\ r_tree c' = r_tree c /\ r_mtf c' = m /\
  r_t c' = t /\ r_g c' = r_g c /\ r_j c' = 0 /\ c_v c' = c_v c /\ c_w c' = c_w c /\ dyn c' = dyn c.
Proof. destruct c. cbv zeta. repeat split; reflexivity. Qed.

Lemma run_Fail_bind {A B} e (f : A -> prog B) bits : run (bind (Fail e) f) bits = Err e.
Proof. reflexivity. Qed.

(* the head of the group loop (slow path): the tree of the group *)
Lemma ref_group c h selm tables g syms nx : R_group c h selm tables g syms -> buf_ok c -> 12 <= c_w c ->
  match fst (group_head false c []) with
  | BNeed S_prefix c' =>
      exists lens, R_prefix c' h selm tables g syms lens 50 /\
        run (K_group h selm tables g syms) (strm c nx) = run (K_prefix h selm tables g syms lens 50) (strm c' nx)
  | BRet _ _ => spec_fails (K_group h selm tables g syms) (strm c nx)
  | _ => True
  end.
Proof.
  intros (order & J & GS & Eg & GY) _ _.
  pose proof (group_select_ok c order J) as P.
  pose proof J as J0. unfold J_group in J0.
  destruct J0 as (Hsh & Htt & Httl & Hnt & Hal & Hlo & Hfo & Hns & Hg & Hsel & Hmg & Hsim & Hrc & Hrun).
  destruct Hsh as (Ls & Lc & Lm & Lt & Lwf & Lsl & Lf).
  pose proof GS as (S1 & S2 & S3 & S4 & S5 & S6 & S7 & S8 & S9 & S10).
  assert (Lcl : length (clamped selm) = N.to_nat (r_num_selectors c)).
  { unfold clamped. rewrite firstn_length, S5, S7. lia. }
  assert (Lso : length (sels_of selm) = N.to_nat (r_num_selectors c)).
  { unfold sels_of. rewrite unmtf_sel_length. exact Lcl. }
  unfold group_head.
  destruct (r_g c <? r_num_selectors c) eqn:Eg'.
  2:{ unfold group_select. rewrite Eg'. cbn [fst]. apply N.ltb_ge in Eg'.
      unfold spec_fails, K_group. rewrite skipn_all2 by lia. cbn [read_groups]. rewrite run_Fail_bind. exact I. }
  apply N.ltb_lt in Eg'.
  destruct (group_select_val c Eg' ltac:(lia)) as (m' & L & P1 & P2 & E); [| clear P].
  { pose proof (Hsel _ Eg') as Hi. unfold sel in Hi. lia. }
  pose proof (group_select_ok c order J) as P. rewrite E in P |- *. clear E.
  set (i := nth (N.to_nat (r_g c)) (r_selector c) 0) in *.
  set (code := nth (N.to_nat i) (r_mtf c) 0) in *.
  set (cl := clamped selm) in *.
  assert (Fcl : Forall (fun s => s < h_nt h) cl) by (apply Forall_firstn; exact S6).
  assert (Ei : i = nth g cl 0).
  { subst i cl. rewrite <- S8. rewrite nth_firstn_lt by lia. f_equal. lia. }
  assert (Hi : i < h_nt h).
  { rewrite Ei. apply (Forall_nth' (fun s => s < h_nt h)); [exact Fcl|lia]. }
  set (so := sel_order (firstn g cl)) in *.
  assert (Lso6 : length so = 6%nat).
  { subst so. rewrite sel_order_eq. apply sel_order_len; [reflexivity|]. apply Forall_firstn.
    eapply Forall_impl; [|exact Fcl]. cbv beta. intros a Ha. lia. }
  pose proof (S10 i Hi) as S10i. cbv zeta in S10i. fold so in S10i.
  set (t := nth (N.to_nat i) so 0) in *. fold code in S10i. destruct S10i as (Tt & Tl & Tr).
  assert (Esk : skipn g (sels_of selm) = t :: skipn (S g) (sels_of selm)).
  { unfold sels_of. change (firstn (N.to_nat (sel_clamp lbz_policy)) selm) with cl.
    rewrite (sels_skipn g cl) by lia. rewrite <- Ei. reflexivity. }
  pose proof Tr as (pad & T0 & vd & Hpre & Hmk & Hcode).
  pose proof (make_tree_verdict_policy _ _ _ _ _ Hpre Hmk) as Hpol.
  change MAX_TREES with 6 in *. change E_ERR_INCOMPLT with 11 in *. change E_ERR_PREFIX with 10 in *.
  destruct (6 <=? code) eqn:Ec.
  - apply N.leb_le in Ec. cbn [fst]. unfold spec_fails, K_group. rewrite Esk. cbn [read_groups].
    change (table_check lbz_policy) with complete_only. rewrite <- Hpol.
    destruct vd; unfold verdict_code in Hcode; [exfalso; lia| |]; cbn [verdict_result]; rewrite run_Fail_bind; exact I.
  - apply N.leb_gt in Ec.
    assert (Evd : vd = VBuilt).
    { destruct vd; [reflexivity|exfalso..]; unfold verdict_code in Hcode; change E_ERR_INCOMPLT with 11 in *;
        change E_ERR_PREFIX with 10 in *; lia. }
    subst vd. cbn [verdict_code] in Hcode. cbn [verdict_result] in Hpol.
    cbn [andb fst]. unfold slow_head.
    destruct (gsel_fields c code (upd 0 code m')) as (F1 & F2 & F3 & F4 & F5 & F6 & F7 & F8 & F9 & F10 & F11 & F12 & F13 & F14).
    destruct P as (PJ & Pg & Pt & Ptg & _ & _).
    set (c1 := set_r_mtf (set_r_t c code) (upd 0 code m')) in *.
    set (c' := set_r_j c1 0) in *.
    rewrite F11. change (0 <? GROUP_SIZE) with true. cbv iota.
    exists (nth (N.to_nat t) tables []). split.
    + exists order.
      assert (Q1 : r_g c1 = r_g c /\ r_t c1 = code /\ r_alpha_size c1 = r_alpha_size c /\ r_tree c1 = r_tree c).
      { subst c1. clear. dcore c. repeat split; reflexivity. }
      destruct Q1 as (Q1 & Q2 & Q3 & Q4).
      split.
      { unfold J_prefix. rewrite F10, F11, F9, F4, F7, F5. rewrite Q1, Q2, Q3, Q4 in *.
        split; [apply J_group_set_j; exact PJ|]. split; [lia|]. split; [lia|]. split; [exact Pt|exact Ptg]. }
      split.
      { unfold G_static. rewrite F1, F2, F3, F4, F5, F6, F7, F8.
        split; [exact S1|]. split; [exact S2|]. split; [exact S3|]. split; [exact S4|]. split; [exact S5|].
        split; [exact S6|]. split; [exact S7|]. split; [exact S8|]. split; [exact S9|].
        intros i' Hi'. cbv zeta. fold cl. rewrite (sel_order_snoc g cl) by lia. fold so. rewrite <- Ei.
        rewrite nth_mtf_front by lia.
        destruct (Nat.eqb_spec (N.to_nat i') 0) as [E0|E0].
        - fold t. rewrite E0, nth_upd_same by lia. split; [exact Tt|]. split; [exact Tl|]. exact Tr.
        - rewrite nth_upd_other by exact E0.
          destruct (Nat.leb_spec (N.to_nat i') (N.to_nat i)) as [Hle|Hgt].
          + rewrite P1 by lia. replace (N.to_nat i' - 1)%nat with (N.to_nat (i' - 1)) by lia.
            apply (S10 (i' - 1)). lia.
          + rewrite P2 by lia. apply (S10 i' Hi'). }
      split; [rewrite F10; exact Eg|].
      split; [apply (G_syms_dyn c); [exact F14|exact GY]|].
      split; [rewrite F11; reflexivity|].
      rewrite F9, F7.
      split.
      { rewrite Hcode. replace (nth g (sels_of selm) 0) with (nth 0 (skipn g (sels_of selm)) 0)
          by (rewrite nth_skipn_add; f_equal; lia). rewrite Esk. reflexivity. }
      split; [rewrite Hcode; reflexivity|].
      rewrite Hcode in Tr |- *. exact Tr.
    + rewrite (strm_vw c c' nx F12 F13). unfold K_group, K_prefix. rewrite Esk. cbn [read_groups].
      change (table_check lbz_policy) with complete_only. rewrite <- Hpol. change group_size with 50%nat.
      set (rg := read_group (nth (N.to_nat t) tables []) (h_eob h) 50).
      rewrite (run_bind (bind rg _)). rewrite !(run_bind rg).
      destruct (run rg (strm c nx)) as [[gr r]|e]; [|reflexivity].
      destruct (snd gr); [reflexivity|].
      rewrite !run_bind. destruct (run (read_groups _ _ _ _) r) as [[more r']|e]; reflexivity.
Qed.

(* ---- overflow is sticky ------------------------------------------------------------------------------------------- *)
Lemma overflows_eq c run : c_ttp c <= MAX_BLOCK_SIZE -> overflows c run = (MAX_BLOCK_SIZE <? c_ttp c + run).
Proof.
  intro H. unfold overflows. change MAX_BLOCK_SIZE with 900000 in *.
  rewrite sub64_small by (rewrite ?W64_val; lia).
  destruct (N.ltb_spec (900000 - c_ttp c) run); destruct (N.ltb_spec 900000 (c_ttp c + run)); try reflexivity; lia.
Qed.

Definition over (limit : N) (u : ust) : Prop := let '(_, run, _, size, _) := u in limit < size + run.

Lemma over_sticky limit : forall l u, over limit u ->
  match usteps limit u l with Ok u' => over limit u' | Err e => e = ErrOverflow end.
Proof.
  induction l as [|s l IH]; intros [[[[o run] sh] size] acc] H; [exact H|].
  cbn [usteps ustep]. cbn [over] in H. destruct (s <=? 1).
  - apply IH. cbn [over]. lia.
  - apply N.ltb_lt in H. rewrite H. reflexivity.
Qed.

Lemma post_over h tables syms l o run sh size acc :
  usteps MAX_BLOCK_SIZE (h_used h, 0, 0, 0, []) syms = Ok (o, run, sh, size, acc) -> MAX_BLOCK_SIZE < size + run ->
  RetrSpec.post (mk_rb h tables (syms ++ l)) = Err ErrOverflow.
Proof.
  intros H Ho. unfold RetrSpec.post. cbn [mk_rb rb_used rb_mtfv]. unfold unmtf_block.
  rewrite unmtf_usteps, usteps_app, H.
  pose proof (over_sticky MAX_BLOCK_SIZE l (o, run, sh, size, acc) Ho) as S.
  destruct (usteps MAX_BLOCK_SIZE (o, run, sh, size, acc) l) as [[[[[o' run'] sh'] size'] acc']|e].
  - cbn [over] in S. cbn [ufinal]. apply N.ltb_lt in S. rewrite S. reflexivity.
  - subst e. reflexivity.
Qed.

(* ---- the residual programs ----------------------------------------------------------------------------------------- *)
Lemma K_prefix_mtfv h selm tables g syms lens n bits rb r :
  run (K_prefix h selm tables g syms lens n) bits = Ok (rb, r) -> exists l, rb = mk_rb h tables (syms ++ l).
Proof.
  unfold K_prefix. rewrite run_bind. destruct (run (read_group lens (h_eob h) n) bits) as [[gr r0]|e]; [|discriminate].
  destruct (snd gr).
  - cbn [run]. intro H. injection H as <- _. eexists. reflexivity.
  - rewrite run_bind. destruct (run (read_groups _ _ _ _) r0) as [[more r1]|e]; [|discriminate].
    cbn [run]. intro H. injection H as <- _. eexists. reflexivity.
Qed.

Lemma K_prefix_step h selm tables g syms lens n a bits bits' :
  run (decode_sym lens) bits = Ok (a, bits') -> (a =? h_eob h) = false ->
  run (K_prefix h selm tables g syms lens (S n)) bits = run (K_prefix h selm tables g (syms ++ [a]) lens n) bits'.
Proof.
  intros H E. unfold K_prefix. cbn [read_group].
  rewrite (run_bind (bind (decode_sym lens) _)). rewrite (run_bind (decode_sym lens)), H, E.
  rewrite !(run_bind (read_group lens (h_eob h) n)).
  destruct (run (read_group lens (h_eob h) n) bits') as [[r0 rest]|e]; [|reflexivity].
  cbn [run fst snd]. destruct (snd r0).
  - cbn [run]. rewrite <- app_assoc. reflexivity.
  - rewrite !run_bind. destruct (run (read_groups _ _ _ _) rest) as [[more r1]|e]; [|reflexivity].
    cbn [run]. rewrite <- app_assoc. reflexivity.
Qed.

Lemma K_prefix_eob h selm tables g syms lens n a bits bits' :
  run (decode_sym lens) bits = Ok (a, bits') -> (a =? h_eob h) = true ->
  run (K_prefix h selm tables g syms lens (S n)) bits = Ok (mk_rb h tables (syms ++ []), bits').
Proof.
  intros H E. unfold K_prefix. cbn [read_group].
  rewrite (run_bind (bind (decode_sym lens) _)). rewrite (run_bind (decode_sym lens)), H, E. reflexivity.
Qed.

Lemma K_prefix_0 h selm tables g syms lens bits :
  run (K_prefix h selm tables g syms lens 0) bits = run (K_group h selm tables (S g) syms) bits.
Proof. reflexivity. Qed.

(* ---- one symbol off the stream ----------------------------------------------------------------------------------- *)
Lemma decode_strm c q lens pad T0 T' nx : buf_is c q -> 32 <= c_w c -> tree_pre lens pad T0 ->
  make_tree (N.of_nat (length lens)) (lens ++ pad) T0 = Done (VBuilt, T') ->
  exists a k c2,
    tree_decode (N.of_nat (length lens)) T' (c_v c) =
      Done (isym (N.of_nat (length lens)) a, N.of_nat k, (c_v c * 2 ^ N.of_nat k) mod 2 ^ 64) /\
    (1 <= k <= 20)%nat /\ a < N.of_nat (length lens) /\
    c2 = set_c_w (set_c_v c ((c_v c * 2 ^ N.of_nat k) mod 2 ^ 64)) (c_w c - N.of_nat k) /\
    buf_is c2 (q mod 2 ^ (c_w c - N.of_nat k)) /\
    run (decode_sym lens) (strm c nx) = Ok (a, strm c2 nx).
Proof.
  intros B Hw Hpre Hmk.
  destruct (tree_decode_correct lens pad T0 T' (c_v c) Hpre Hmk (buf_v_lt c q B)) as (a & k & rest & Ed & Hk & Ha & Hrun & Hrest & _).
  destruct (dump_ok c q (N.of_nat k) B ltac:(lia)) as (c2 & _ & Ec2 & B2).
  exists a, k, c2. split; [exact Ed|]. split; [exact Hk|]. split; [exact Ha|]. split; [exact Ec2|]. split; [exact B2|].
  assert (Ew2 : c_w c2 = c_w c - N.of_nat k) by (subst c2; clear; dcore c; reflexivity).
  destruct (run_frame _ _ _ _ Hrun) as (d & Hd & Hf).
  assert (Es : bits_msb 64 (c_v c) = bits_msb k (c_v c / 2 ^ N.of_nat (64 - k)) ++ bits_msb (64 - k) (c_v c)).
  { rewrite <- bits_msb_split. f_equal. lia. }
  rewrite Es, Hrest in Hd. apply app_inv_tail in Hd. subst d.
  rewrite (strm_split c q (N.of_nat k) c2 nx B ltac:(lia) B2 Ew2). rewrite Nat2N.id.
  replace (q / 2 ^ (c_w c - N.of_nat k)) with (c_v c / 2 ^ N.of_nat (64 - k)); [apply Hf|].
  destruct B as (Hw63 & Hq & Hv). rewrite Hv.
  replace (N.of_nat (64 - k)) with (64 - N.of_nat k) by lia.
  rewrite (pow2_split (64 - N.of_nat k) (64 - c_w c)) by lia.
  replace (64 - N.of_nat k - (64 - c_w c)) with (c_w c - N.of_nat k) by lia.
  apply N.div_mul_cancel_r; apply N.pow_nonzero; discriminate.
Qed.

(* ---- small list facts ---------------------------------------------------------------------------------------------- *)
Lemma repeat_snoc {A} (x : A) n : repeat x n ++ [x] = x :: repeat x n.
Proof. induction n; [reflexivity|]. cbn [repeat app]. rewrite IHn. reflexivity. Qed.

Lemma rev_repeat_id {A} (x : A) n : rev (repeat x n) = repeat x n.
Proof. induction n; [reflexivity|]. cbn [repeat rev]. rewrite IHn. apply repeat_snoc. Qed.

Lemma expand_runs_app a b : expand_runs (a ++ b) = expand_runs a ++ expand_runs b.
Proof. induction a as [|[ch n] a IH]; [reflexivity|]. cbn [app expand_runs]. rewrite IH, app_assoc. reflexivity. Qed.

Lemma expand_runs_snoc acc ch n : expand_runs (rev ((ch, n) :: acc)) = expand_runs (rev acc) ++ repeat ch (N.to_nat n).
Proof. cbn [rev]. rewrite expand_runs_app. cbn [expand_runs]. rewrite app_nil_r. reflexivity. Qed.

(* ---- the code behind the decode sequence, with the abstract values ------------------------------------------------- *)
Definition keep (c c' : core) : Prop := stat c' = stat c /\ r_t c' = r_t c /\ c_v c' = c_v c /\ c_w c' = c_w c.

(* a continuing outcome: [order'], [syms'] are the abstract values behind it *)
Definition postR (h : hdr) (order' syms' : list N) (c : core) (b : bres) : Prop :=
  match b with
  | BNeed S_prefix c' => r_j c + 1 < 50 /\ r_j c' = r_j c + 1 /\ r_g c' = r_g c /\ keep c c' /\
                         J_prefix c' order' /\ G_syms c' h order' syms'
  | BGo P_GROUP c' => r_j c + 1 = 50 /\ r_g c' = r_g c + 1 /\ keep c c' /\ J_group c' order' /\ G_syms c' h order' syms'
  | _ => False
  end.

Lemma postR_keep h order' syms' c c1 b : keep c c1 -> r_j c1 = r_j c -> r_g c1 = r_g c ->
  postR h order' syms' c1 b -> postR h order' syms' c b.
Proof.
  intros (K1 & K2 & K3 & K4) Ej Eg. unfold postR, keep.
  destruct b as [p c'|s c'| | |]; try exact (fun x => x).
  - destruct p as [?| |]; try exact (fun x => x). rewrite Ej, Eg, K1, K2, K3, K4. exact (fun x => x).
  - destruct s; try exact (fun x => x). rewrite Ej, Eg, K1, K2, K3, K4. exact (fun x => x).
Qed.

(* rs->j++ and the loop test *)
Lemma slow_head_R c h order syms : J_prefix c order -> G_syms c h order syms ->
  postR h order syms c (slow_head (set_r_j c (add32 (r_j c) 1))).
Proof.
  intros J GY. pose proof J as (JG & Hg & Hj & Ht & TG). unfold slow_head.
  replace (r_j (set_r_j c (add32 (r_j c) 1))) with (add32 (r_j c) 1) by (dcore c; reflexivity).
  rewrite add32_small by (rewrite W32_val; lia). change GROUP_SIZE with 50.
  destruct (r_j c + 1 <? 50) eqn:E.
  - apply N.ltb_lt in E. cbn [postR].
    set (c' := set_r_j c (r_j c + 1)).
    assert (F : r_j c' = r_j c + 1 /\ r_g c' = r_g c /\ keep c c' /\ dyn c' = dyn c).
    { subst c'. clear. destruct c. unfold keep. repeat split; reflexivity. }
    destruct F as (F1 & F2 & F3 & F4).
    split; [exact E|]. split; [exact F1|]. split; [exact F2|]. split; [exact F3|].
    split; [|apply (G_syms_dyn c); assumption].
    subst c'. clear - J E. dcore c. jopen. destruct J as (JG & J'). csplit; try assumption; try lia; first [apply JG|apply J'].
  - apply N.ltb_ge in E. cbn [postR].
    assert (G1 : add32 (r_g (set_r_j c (r_j c + 1))) 1 = r_g c + 1).
    { replace (r_g (set_r_j c (r_j c + 1))) with (r_g c) by (dcore c; reflexivity).
      apply add32_small. rewrite W32_val. unfold J_group in JG. lia. }
    rewrite G1.
    set (c' := set_r_g (set_r_j c (r_j c + 1)) (r_g c + 1)).
    assert (F : r_g c' = r_g c + 1 /\ keep c c' /\ dyn c' = dyn c).
    { subst c'. clear. destruct c. unfold keep. repeat split; reflexivity. }
    destruct F as (F2 & F3 & F4).
    split; [lia|]. split; [exact F2|]. split; [exact F3|].
    split; [|apply (G_syms_dyn c); assumption].
    subst c'. clear - J E. dcore c. jopen. destruct J as (JG & J'). csplit; try assumption; try lia; first [apply JG|apply J'].
Qed.

(* a run symbol under the guard *)
Lemma acc_R c h order syms a : J_prefix c order -> G_syms c h order syms -> a <= 1 -> run_guard 1 (r_run c) = true ->
  postR h order (syms ++ [a]) c
    (sh <== ofM (shl32 (a + 1) (r_shift c)) ;;
     let c := set_r_shift (set_r_run c (add32 (r_run c) sh)) (add32 (r_shift c) 1) in
     slow_head (set_r_j c (add32 (r_j c) 1))).
Proof.
  intros J GY Ha Hgd. unfold run_guard in Hgd. rewrite guard1_val in Hgd. change MAX_BLOCK_SIZE with 900000 in Hgd.
  apply N.leb_le in Hgd.
  assert (Hro : run_ok (r_run c) (r_shift c)) by apply J. destruct Hro as (Hr1 & Hr2).
  assert (Hsh : r_shift c <= 20).
  { destruct (N.le_gt_cases (r_shift c) 20) as [H|H]; [exact H|].
    assert (2 ^ 21 <= 2 ^ r_shift c) by (apply N.pow_le_mono_r; lia). change (2 ^ 21) with 2097152 in *. lia. }
  assert (Hp : 2 ^ r_shift c <= 2 ^ 20) by (apply N.pow_le_mono_r; lia). change (2 ^ 20) with 1048576 in Hp.
  set (d := a + 1) in *. assert (Hd : d = 1 \/ d = 2) by lia.
  unfold shl32. assert (E : (r_shift c <? 32) = true) by (apply N.ltb_lt; lia). rewrite E. cbn [ofM bindB].
  rewrite N.shiftl_mul_pow2. rewrite (N.mod_small (_ * _)) by (rewrite W32_val; lia).
  cbv zeta. rewrite (add32_small (r_run c)) by (rewrite W32_val; lia).
  rewrite (add32_small (r_shift c)) by (rewrite W32_val; lia).
  set (c1 := set_r_shift (set_r_run c (r_run c + d * 2 ^ r_shift c)) (r_shift c + 1)).
  assert (F : keep c c1 /\ r_j c1 = r_j c /\ r_g c1 = r_g c /\ r_run c1 = r_run c + d * 2 ^ r_shift c /\
              r_shift c1 = r_shift c + 1 /\ c_ttp c1 = c_ttp c /\ c_tt c1 = c_tt c /\ r_runChar c1 = r_runChar c).
  { subst c1. clear. destruct c. unfold keep. repeat split; reflexivity. }
  destruct F as (F1 & F2 & F3 & F4 & F5 & F6 & F7 & F8).
  apply (postR_keep h order _ c c1); [exact F1|exact F2|exact F3|].
  apply slow_head_R.
  - assert (RO : run_ok (r_run c + d * 2 ^ r_shift c) (r_shift c + 1)).
    { split; [rewrite N.pow_add_r; change (2 ^ 1) with 2; lia|lia]. }
    subst c1. clear - J RO. dcore c. jopen. destruct J as (JG & J'). csplit; try assumption; try lia; try apply JG; try apply J'.
  - destruct GY as (run & shift & size & acc & U & G1 & G2 & G3 & G4 & G5).
    exists (run + d * 2 ^ shift), (shift + 1), size, acc.
    rewrite usteps_app, U. cbn [usteps ustep]. assert (E1 : (a <=? 1) = true) by (apply N.leb_le; exact Ha). rewrite E1.
    rewrite N.shiftl_mul_pow2. fold d. rewrite F4, F5, F6, F7, F8, G1, G2. csplit; first [reflexivity|assumption].
Qed.

Lemma hd_mtf_front (order : list N) i : hd 0 (snd (mtf_front i order 0)) = fst (mtf_front i order 0).
Proof. reflexivity. Qed.

(* an MTF symbol: flush the pending run, move to front, start a new run *)
Lemma sym_R c h order syms a : J_prefix c order -> G_syms c h order syms ->
  2 <= a -> a - 1 < N.of_nat (length order) -> overflows c (r_run c) = false ->
  postR h (snd (mtf_front (N.to_nat (a - 1)) order 0)) (syms ++ [a]) c
    (c <== emit_run c (r_runChar c) (r_run c) ;;
     let c := set_r_run c UINT_MAX in
     match SlideModel.mtf_one_c ((a - 1) mod W8) (r_slide c) with
     | SlideModel.Oob => BFault FSlideOob
     | SlideModel.Abort => BFault FSlideAbort
     | SlideModel.Done x sl =>
         let c := set_r_run (set_r_shift (set_r_runChar (set_r_slide c sl) x) 0) 1 in
         slow_head (set_r_j c (add32 (r_j c) 1))
     end).
Proof.
  intros J GY Ha1 Ha2 Ho. set (s := a - 1) in *.
  destruct (emit_J c order J Ho) as (c1 & E & J1 & Ev & Ew & Esl & Ej).
  pose proof J as (JG & _).
  assert (Httl : c_ttp c <= MAX_BLOCK_SIZE) by apply JG.
  assert (Hf : c_ttp c + r_run c <= MAX_BLOCK_SIZE) by (apply overflows_false; [exact Httl|exact Ho]).
  pose proof E as E'. rewrite emit_run_ok in E'; [|apply JG|apply JG|exact Hf]. injection E' as E'.
  rewrite E. cbn [bindB]. cbv zeta.
  replace (r_slide (set_r_run c1 UINT_MAX)) with (r_slide c) by (rewrite <- Esl; dcore c1; reflexivity).
  assert (Hlo : (1 <= length order <= 256)%nat) by apply J.
  assert (Hfo : Forall (fun x => x < 256) order) by apply J.
  assert (Hsim : SlideProofs.Sim_c (r_slide c) order) by apply J.
  rewrite N.mod_small by (change W8 with 256; lia).
  destruct (SlideProofs.slide_step_sim (r_slide c) order s Hsim ltac:(lia) Ha2) as (sl & Em & Hsim').
  rewrite Em.
  destruct (mtf_front_Forall (fun x => x < 256) (N.to_nat s) order Hfo ltac:(lia)) as (Fx & Fo & Fl).
  pose proof (hd_mtf_front order (N.to_nat s)) as Hhd.
  set (x := fst (mtf_front (N.to_nat s) order 0)) in *. set (order' := snd (mtf_front (N.to_nat s) order 0)) in *.
  set (c2 := set_r_run (set_r_shift (set_r_runChar (set_r_slide (set_r_run c1 UINT_MAX) sl) x) 0) 1).
  assert (F : keep c c2 /\ r_j c2 = r_j c /\ r_g c2 = r_g c /\ r_run c2 = 1 /\ r_shift c2 = 0 /\
              c_ttp c2 = c_ttp c + r_run c /\ c_tt c2 = repeat (r_runChar c) (N.to_nat (r_run c)) ++ c_tt c /\ r_runChar c2 = x).
  { subst c2. rewrite <- E'. clear. destruct c. unfold keep. repeat split; reflexivity. }
  destruct F as (F1 & F2 & F3 & F4 & F5 & F6 & F7 & F8).
  apply (postR_keep h order' _ c c2); [exact F1|exact F2|exact F3|].
  apply slow_head_R.
  - subst c2. clear E E' Ev Ew Esl Ej Em Hsim J Ho GY F1 F2 F3 F4 F5 F6 F7 F8 JG Httl Hf.
    assert (RO : run_ok 1 0) by (split; [cbn; lia|reflexivity]).
    dcore c1. jopen. destruct J1 as (JG & J'). rewrite Fl. csplit; try assumption; try lia; try apply JG; try apply J'.
    exact (Sim_c_len _ _ Hsim').
  - destruct GY as (run & shift & size & acc & U & G1 & G2 & G3 & G4 & G5).
    exists 1, 0, (size + run), ((hd 0 order, run) :: acc).
    rewrite usteps_app, U. cbn [usteps ustep]. assert (E1 : (a <=? 1) = false) by (apply N.leb_gt; lia). rewrite E1.
    assert (E2 : (MAX_BLOCK_SIZE <? size + run) = false) by (apply N.ltb_ge; lia). rewrite E2.
    fold s. fold order'. split; [reflexivity|].
    rewrite F4, F5, F6, F7, F8, G1, G3. split; [reflexivity|]. split; [reflexivity|]. split; [reflexivity|].
    split; [|symmetry; exact Hhd].
    rewrite rev_app_distr, rev_repeat_id, G4, expand_runs_snoc, G5. reflexivity.
Qed.

(* EOB *)
Lemma eob_R c h order syms : J_prefix c order -> G_syms c h order syms ->
  match eob c with
  | BRet _ _ => MAX_BLOCK_SIZE < c_ttp c + r_run c
  | BEob c' => unmtf_block MAX_BLOCK_SIZE (h_used h) syms = Ok (rev (c_tt c')) /\ c_ttp c' = N.of_nat (length (c_tt c')) /\
               d_rand c' = d_rand c /\ d_bwt_idx c' = d_bwt_idx c /\ c_v c' = c_v c /\ c_w c' = c_w c
  | _ => False
  end.
Proof.
  intros J GY. pose proof J as (JG & _). unfold eob.
  assert (Httl : c_ttp c <= MAX_BLOCK_SIZE) by apply JG.
  assert (Htt : c_ttp c = N.of_nat (length (c_tt c))) by apply JG.
  destruct (overflows c (r_run c)) eqn:Ho.
  - rewrite overflows_eq in Ho by exact Httl. apply N.ltb_lt in Ho. exact Ho.
  - assert (Hf : c_ttp c + r_run c <= MAX_BLOCK_SIZE) by (apply overflows_false; [exact Httl|exact Ho]).
    rewrite emit_run_ok; [|apply JG|apply JG|exact Hf]. cbn [bindB].
    set (c' := set_r_run _ UINT_MAX).
    assert (F : c_ttp c' = c_ttp c + r_run c /\ c_tt c' = repeat (r_runChar c) (N.to_nat (r_run c)) ++ c_tt c /\
                d_rand c' = d_rand c /\ d_bwt_idx c' = d_bwt_idx c /\ c_v c' = c_v c /\ c_w c' = c_w c).
    { subst c'. clear. destruct c. repeat split; reflexivity. }
    destruct F as (F1 & F2 & F3 & F4 & F5 & F6).
    destruct GY as (run & shift & size & acc & U & G1 & G2 & G3 & G4 & G5).
    split.
    { unfold unmtf_block. rewrite unmtf_usteps, U. cbn [ufinal].
      assert (E2 : (MAX_BLOCK_SIZE <? size + run) = false) by (apply N.ltb_ge; lia). rewrite E2.
      rewrite F2, rev_app_distr, rev_repeat_id, G4, expand_runs_snoc, G5, G1. reflexivity. }
    split; [rewrite F1, F2, app_length, repeat_length; lia|]. auto.
Qed.

Lemma after_sym_R c h order syms a : J_prefix c order -> G_syms c h order syms ->
  r_alpha_size c = N.of_nat (h_alpha h) -> a < r_alpha_size c ->
  match after_sym c (isym (r_alpha_size c) a) with
  | BRet _ _ => MAX_BLOCK_SIZE < c_ttp c + r_run c
  | BEob c' => (a =? h_eob h) = true /\
               unmtf_block MAX_BLOCK_SIZE (h_used h) syms = Ok (rev (c_tt c')) /\ c_ttp c' = N.of_nat (length (c_tt c')) /\
               d_rand c' = d_rand c /\ d_bwt_idx c' = d_bwt_idx c /\ c_v c' = c_v c /\ c_w c' = c_w c
  | BNeed s c' => (a =? h_eob h) = false /\ exists order', postR h order' (syms ++ [a]) c (BNeed s c')
  | BGo p c' => (a =? h_eob h) = false /\ exists order', postR h order' (syms ++ [a]) c (BGo p c')
  | BFault _ => False
  end.
Proof.
  intros J GY Hal Ha. pose proof J as (JG & _).
  assert (Hal' : r_alpha_size c = N.of_nat (length order) + 2) by apply JG.
  assert (Hlo : (1 <= length order <= 256)%nat) by apply JG.
  assert (Httl : c_ttp c <= MAX_BLOCK_SIZE) by apply JG.
  assert (Heob : h_eob h = r_alpha_size c - 1) by (unfold h_eob; rewrite Hal; reflexivity).
  (* continuing outcomes *)
  assert (Fin : forall order' b, (a =? h_eob h) = false -> postR h order' (syms ++ [a]) c b ->
            match b with
            | BRet _ _ => MAX_BLOCK_SIZE < c_ttp c + r_run c
            | BEob c' => (a =? h_eob h) = true /\
                         unmtf_block MAX_BLOCK_SIZE (h_used h) syms = Ok (rev (c_tt c')) /\ c_ttp c' = N.of_nat (length (c_tt c')) /\
                         d_rand c' = d_rand c /\ d_bwt_idx c' = d_bwt_idx c /\ c_v c' = c_v c /\ c_w c' = c_w c
            | BNeed s c' => (a =? h_eob h) = false /\ exists order', postR h order' (syms ++ [a]) c (BNeed s c')
            | BGo p c' => (a =? h_eob h) = false /\ exists order', postR h order' (syms ++ [a]) c (BGo p c')
            | BFault _ => False
            end).
  { intros order' b Ea P. destruct b as [p c'|s c'| | |]; cbn [postR] in P; try contradiction.
    - split; [exact Ea|]. exists order'. exact P.
    - split; [exact Ea|]. exists order'. exact P. }
  unfold after_sym, isym.
  destruct (N.eqb_spec a 0) as [E0|E0]; [|destruct (N.eqb_spec a 1) as [E1|E1]; [|destruct (N.eqb_spec a (r_alpha_size c - 1)) as [E2|E2]]].
  - (* RUN_A *)
    assert (Ea : (a =? h_eob h) = false) by (apply N.eqb_neq; lia).
    change (RUN_A =? EOB) with false. change (256 <=? RUN_A) with true. change (sub32 RUN_A 256) with 1. cbv iota. cbn [andb].
    destruct (run_guard 1 (r_run c)) eqn:Eg.
    + apply (Fin order); [exact Ea|]. replace 1 with (a + 1) at 1 by lia. apply acc_R; try assumption. lia.
    + unfold run_guard in Eg. rewrite guard1_val in Eg. apply N.leb_gt in Eg.
      rewrite overflows_big by assumption. lia.
  - (* RUN_B *)
    assert (Ea : (a =? h_eob h) = false) by (apply N.eqb_neq; lia).
    change (RUN_B =? EOB) with false. change (256 <=? RUN_B) with true. change (sub32 RUN_B 256) with 2. cbv iota. cbn [andb].
    destruct (run_guard 1 (r_run c)) eqn:Eg.
    + apply (Fin order); [exact Ea|]. replace 2 with (a + 1) at 1 by lia. apply acc_R; try assumption. lia.
    + unfold run_guard in Eg. rewrite guard1_val in Eg. apply N.leb_gt in Eg.
      rewrite overflows_big by assumption. lia.
  - (* EOB *)
    change (EOB =? EOB) with true. cbv iota.
    assert (Ea : (a =? h_eob h) = true) by (apply N.eqb_eq; lia).
    pose proof (eob_R c h order syms J GY) as P.
    destruct (eob c) as [p c'|s c'| | |]; try contradiction; [exact P|]. split; [exact Ea|exact P].
  - (* MTF position a - 1 *)
    assert (Ea : (a =? h_eob h) = false) by (apply N.eqb_neq; lia).
    assert (Es0 : (a - 1 =? EOB) = false) by (apply N.eqb_neq; unfold EOB; lia). rewrite Es0.
    assert (Es1 : (256 <=? a - 1) = false) by (apply N.leb_gt; lia). rewrite Es1. cbn [andb].
    destruct (overflows c (r_run c)) eqn:Ho.
    + rewrite overflows_eq in Ho by exact Httl. apply N.ltb_lt in Ho. exact Ho.
    + apply (Fin (snd (mtf_front (N.to_nat (a - 1)) order 0))); [exact Ea|]. apply sym_R; try assumption; lia.
Qed.

Lemma sels_nth g l : (g < length l)%nat ->
  nth g (unmtf_selectors [0; 1; 2; 3; 4; 5] l) 0 = nth 0 (sel_order (firstn (S g) l)) 0.
Proof.
  intro H. replace (nth g (unmtf_selectors [0; 1; 2; 3; 4; 5] l) 0) with (nth 0 (skipn g (unmtf_selectors [0; 1; 2; 3; 4; 5] l)) 0)
    by (rewrite nth_skipn_add; f_equal; lia).
  rewrite (sels_skipn g l H), (sel_order_snoc g l H). reflexivity.
Qed.

Lemma vw_fields c v w : let c2 := set_c_w (set_c_v c v) w in
  stat c2 = stat c /\ r_t c2 = r_t c /\ r_j c2 = r_j c /\ r_g c2 = r_g c /\ dyn c2 = dyn c.
Proof. destruct c. cbv zeta. repeat split; reflexivity. Qed.

Lemma J_prefix_vw c v w order : J_prefix c order -> J_prefix (set_c_w (set_c_v c v) w) order.
Proof. intro J. dcore c. jopen. exact J. Qed.

Lemma stat_fields c c' : stat c' = stat c ->
  d_rand c' = d_rand c /\ d_bwt_idx c' = d_bwt_idx c /\ r_alpha_size c' = r_alpha_size c /\ r_tree c' = r_tree c.
Proof. unfold stat. intro E. injection E as E1 E2 E3 E4 E5 E6 E7 E8. auto. Qed.

(* behind NEED(S_PREFIX): one symbol *)
Lemma ref_prefix c h selm tables g syms lens n nx : R_prefix c h selm tables g syms lens n -> buf_ok c -> 32 <= c_w c ->
  match after_prefix c with
  | BNeed S_prefix c' =>
      exists syms' n', R_prefix c' h selm tables g syms' lens n' /\
        run (K_prefix h selm tables g syms lens n) (strm c nx) = run (K_prefix h selm tables g syms' lens n') (strm c' nx)
  | BGo P_GROUP c' =>
      exists syms', R_group c' h selm tables (S g) syms' /\
        run (K_prefix h selm tables g syms lens n) (strm c nx) = run (K_group h selm tables (S g) syms') (strm c' nx)
  | BRet _ _ => spec_fails (K_prefix h selm tables g syms lens n) (strm c nx)
  | BEob c' => spec_done (K_prefix h selm tables g syms lens n) (strm c nx) c' nx
  | _ => True
  end.
Proof.
  intros (order & J & GS & Eg & GY & En & Et & El & Tr) [q B] Hw.
  pose proof J as (JG & Hg & Hj & Ht & _).
  assert (Lt : length (r_tree c) = 6%nat) by apply JG.
  assert (Hnt : 2 <= r_num_trees c <= 6) by apply JG.
  assert (Hw63 : c_w c <= 63) by apply B.
  pose proof GS as (S1 & S2 & S3 & S4 & S5 & S6 & S7 & S8 & S9 & S10).
  (* the tree in use *)
  destruct Tr as (pad & T0 & vd & Hpre & Hmk & Hcode).
  assert (Evd : vd = VBuilt).
  { destruct (verdict_code_spec (r_t c) vd) as ((_ & VB) & _); [change MAX_TREES with 6; exact Ht|].
    apply VB. symmetry. exact Hcode. }
  subst vd.
  assert (Hlen : N.of_nat (length lens) = r_alpha_size c).
  { assert (Lcl : length (clamped selm) = N.to_nat (r_num_selectors c)).
    { unfold clamped. rewrite firstn_length, S5, S7. lia. }
    pose proof (S10 0 ltac:(lia)) as S0. cbv zeta in S0. change (N.to_nat 0) with 0%nat in S0.
    rewrite <- (sels_nth g (clamped selm)) in S0 by lia.
    change (unmtf_selectors [0; 1; 2; 3; 4; 5] (clamped selm)) with (sels_of selm) in S0.
    rewrite Et, <- El in S0. apply S0. }
  destruct (decode_strm c q lens pad T0 _ nx B Hw Hpre Hmk) as (a & k & c2 & Ed & Hk & Ha & Ec2 & B2 & Hrun).
  rewrite after_prefix_unf. rewrite (nth_error_nth' (r_tree c) garbage_tree) by lia. cbn [ofO bindB].
  rewrite Hlen in Ed, Ha. rewrite Ed. cbn [ofM bindB fst snd].
  rewrite sub32_small by (rewrite ?W32_val; lia).
  rewrite <- Ec2.
  destruct (vw_fields c ((c_v c * 2 ^ N.of_nat k) mod 2 ^ 64) (c_w c - N.of_nat k)) as (V1 & V2 & V3 & V4 & V5).
  rewrite <- Ec2 in V1, V2, V3, V4, V5.
  assert (J2 : J_prefix c2 order) by (rewrite Ec2; apply J_prefix_vw; exact J).
  assert (GY2 : G_syms c2 h order syms) by (apply (G_syms_dyn c); assumption).
  destruct (stat_fields c c2 V1) as (V6 & V7 & V8 & V9).
  pose proof (after_sym_R c2 h order syms a J2 GY2 ltac:(rewrite V8; exact S4) ltac:(rewrite V8; exact Ha)) as P.
  rewrite V8 in P.
  assert (Ettp : c_ttp c2 = c_ttp c /\ r_run c2 = r_run c).
  { unfold dyn in V5. injection V5 as D1 D2 D3 D4 D5. auto. }
  destruct Ettp as (Ettp & Erun).
  destruct (after_sym c2 (isym (r_alpha_size c) a)) as [p c'|s c'|code c'|c'|f].
  - (* next group *)
    destruct P as (Ea & order' & P). destruct p as [?| |]; try exact I. cbn [postR] in P.
    destruct P as (Pj & Pg & (K1 & K2 & K3 & K4) & PJ & PY).
    destruct n as [|[|n]]; try lia.
    exists (syms ++ [a]). split.
    + exists order'. split; [exact PJ|]. split; [apply (G_static_stat c); [congruence|exact GS]|].
      split; [lia|exact PY].
    + rewrite (K_prefix_step _ _ _ _ _ _ _ _ _ _ Hrun Ea). rewrite K_prefix_0.
      rewrite (strm_vw c2 c' nx K3 K4). reflexivity.
  - (* next symbol *)
    destruct P as (Ea & order' & P). destruct s; try exact I. cbn [postR] in P.
    destruct P as (Pj & Pj' & Pg & (K1 & K2 & K3 & K4) & PJ & PY).
    destruct n as [|n]; [lia|].
    exists (syms ++ [a]), n. split.
    + destruct (stat_fields c2 c' K1) as (_ & _ & _ & K9).
      exists order'. split; [exact PJ|]. split; [apply (G_static_stat c); [congruence|exact GS]|].
      split; [lia|]. split; [exact PY|]. split; [lia|].
      rewrite K2, V2, K9, V9. split; [exact Et|]. split; [exact El|].
      exists pad, T0, VBuilt. auto.
    + rewrite (K_prefix_step _ _ _ _ _ _ _ _ _ _ Hrun Ea).
      rewrite (strm_vw c2 c' nx K3 K4). reflexivity.
  - (* overflow *)
    unfold spec_fails.
    destruct (run (K_prefix h selm tables g syms lens n) (strm c nx)) as [[rb r]|e] eqn:ER; [|exact I].
    destruct (K_prefix_mtfv _ _ _ _ _ _ _ _ _ _ ER) as (l & ->).
    destruct GY as (run & shift & size & acc & U & G1 & G2 & G3 & G4 & G5).
    exists ErrOverflow. apply (post_over h tables syms l _ _ _ _ _ U). lia.
  - (* end of block *)
    destruct P as (Ea & PU & Pl & Pr & Pi & K3 & K4).
    destruct n as [|n]; [lia|].
    exists (mk_rb h tables (syms ++ [])). split.
    { rewrite (K_prefix_eob _ _ _ _ _ _ _ _ _ _ Hrun Ea). rewrite (strm_vw c2 c' nx K3 K4). reflexivity. }
    cbn [mk_rb rb_used rb_mtfv rb_rand rb_idx]. rewrite app_nil_r.
    split; [exact PU|]. split; [exact Pl|]. rewrite Pr, Pi, V6, V7, S1, S2. split; reflexivity.
  - contradiction.
Qed.

Print Assumptions unmtf_usteps.
Print Assumptions usteps_app.
Print Assumptions ref_group.
Print Assumptions ref_prefix.
