(* C05/C06, retrieve(): the blocks of the symbol phase of the model (Safe/RetrModel.v) read what Format.read_groups
   reads and compute what Format.unmtf computes (residual programs K_* and abstract values R_* of Safe/RetrSpec.v). *)
From Coq Require Import List NArith Arith Bool Lia ZifyBool ZifyNat ZifyN.
From LBZ Require Import Common.Bits Gen.Consts Gen.DecTabs Dec.Prog Dec.Format Dec.Sim Dec.Policies
                        Safe.TreeModel Safe.TreeLemmas Safe.TreeProofs
                        Safe.RetrModel Safe.RetrChunk Safe.RetrInv Safe.RetrStepSym Safe.RetrSpec.
From LBZ Require Safe.SlideModel Safe.SlideProofs.
Import ListNotations.
Local Open Scope N_scope.

(* Format.unmtf is the symbol-by-symbol machine *)
Lemma unmtf_usteps limit : forall syms order run shift size acc,
  unmtf limit order run shift size acc syms =
  match usteps limit (order, run, shift, size, acc) syms with Ok u => ufinal limit u | Err e => Err e end.
Proof.
Abort.

Lemma usteps_app limit : forall a b u,
  usteps limit u (a ++ b) = match usteps limit u a with Ok u' => usteps limit u' b | Err e => Err e end.
Proof.
Abort.

(* the head of the group loop (slow path): the tree of the group *)
Lemma ref_group c h selm tables g syms nx : R_group c h selm tables g syms -> buf_ok c -> 12 <= c_w c ->
  match fst (group_head false c []) with
  | BNeed S_prefix c' =>
      exists lens, R_prefix c' h selm tables g syms lens 50 /\
        run (K_group h selm tables g syms) (strm c nx) = run (K_prefix h selm tables g syms lens 50) (strm c' nx)
  | BRet _ _ => spec_fails (K_group h selm tables g syms) (strm c nx)
  | _ => True
  end.
Proof.
Abort.

(* behind NEED(S_PREFIX): one symbol *)
Lemma ref_prefix c h selm tables g syms lens n nx : R_prefix c h selm tables g syms lens n -> buf_ok c -> 32 <= c_w c ->
  match after_prefix c with
  | BNeed S_prefix c' =>
      exists syms' n', R_prefix c' h selm tables g syms' lens n' /\
        run (K_prefix h selm tables g syms lens n) (strm c nx) = run (K_prefix h selm tables g syms' lens n') (strm c' nx)
  | BGo P_GROUP c' =>
      exists syms', R_group c' h selm tables (S g) syms' /\
        run (K_prefix h selm tables g syms lens n) (strm c nx) = run (K_group h selm tables (S g) syms') (strm c' nx)
  | BRet _ _ => spec_fails (K_prefix h selm tables g syms lens n) (strm c nx)
  | BEob c' => spec_done (K_prefix h selm tables g syms lens n) (strm c nx) c' nx
  | _ => True
  end.
Proof.
Abort.
