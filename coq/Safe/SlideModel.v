(* C08 (memory safety), sub-goal: the "sliding list" inverse move-to-front of the
   decompressor, src/decode.c: mtf_one() and its initialisation in retrieve().

   ARRAY-LEVEL model.  The slide `uint8_t imtf_slide[SLIDE_LENGTH]` is a `list N`,
   the row pointers `uint8_t *imtf_row[NUM_ROWS]` are a `list N` of OFFSETS into
   the slide (imtf_row[i] - imtf_slide).  Every array access goes through
   [rd]/[wr] (bounds-checked: `None` = access outside the object), every pointer
   decrement / addition through [pdec]/[padd] (`None` = the pointer would leave
   [slide, slide+L], which is undefined behaviour for C pointer arithmetic even
   without a dereference).  `None` is turned into the outcome [Oob] at top level;
   the `default: abort()` arm of the unrolled switch is the outcome [Abort].

   The model is parameterised by the slide length [L] (so that tests and the
   extracted model can run with short slides); the instance for the real code
   is [L := SLIDE_LENGTH] from Gen/DecTabs.v (see [mtf_one_c], [slide_init_c]).
   ROW_WIDTH, NUM_ROWS, CMAP_BASE are the regenerated constants.

   Loops: every C loop here has an iteration count that is a function of the
   values at loop entry (the loop variable moves by exactly one per iteration
   towards the bound), so each is a structural recursion on that count, computed
   from the same pointers the C compares -- no fuel:
     while (nn > 0) / the fall-through switch : nn iterations
     while (pp > bb) { tt = pp--; *tt = *pp; } : pp - bb iterations
     while (lno > imtf_row)                    : lno - imtf_row iterations
     while (rr > imtf_row)                     : NUM_ROWS iterations
     while (bb > bg)                           : bb - bg iterations            *)
From Coq Require Import List NArith Bool.
From LBZ Require Import Gen.DecTabs.
Import ListNotations.
Local Open Scope N_scope.

(* ---- option monad ------------------------------------------------------------------ *)
Definition obind {A B} (o : option A) (f : A -> option B) : option B :=
  match o with Some a => f a | None => None end.
Notation "x <~ e ;; k" := (obind e (fun x => k))
  (at level 61, e at next level, right associativity).
Notation "' p <~ e ;; k" := (obind e (fun p => k))
  (at level 61, p pattern, e at next level, right associativity).

(* ---- bounds-checked arrays and pointers ----------------------------------------------- *)
Definition rd (a : list N) (i : N) : option N := nth_error a (N.to_nat i).

Fixpoint updo (n : nat) (v : N) (a : list N) : option (list N) :=
  match a, n with
  | [], _ => None
  | _ :: r, O => Some (v :: r)
  | x :: r, S m => match updo m v r with Some r' => Some (x :: r') | None => None end
  end.
Definition wr (a : list N) (i v : N) : option (list N) := updo (N.to_nat i) v a.

(* p - 1 for a pointer into the slide (offset >= 0 required) *)
Definition pdec (p : N) : option N := if p =? 0 then None else Some (p - 1).
(* p + k, must stay <= one-past-the-end *)
Definition padd (lim p k : N) : option N := if p + k <=? lim then Some (p + k) else None.

Record sstate := { s_slide : list N; s_rows : list N }.

Inductive outcome :=
| Done (x : N) (st : sstate)     (* returned byte, new state *)
| Oob                            (* some access / pointer left its object *)
| Abort.                         (* `default: abort()` reached *)

(* for n = k downto 1: bb[n] = bb[n-1]
   (fast path: the fall-through switch R(15)..R(1) entered at case nn, equivalently the
    #else loop; general case: while (pp > bb) { tt = pp--; *tt = *pp; } with pp = bb + k) *)
Fixpoint shift_up (k : nat) (a : list N) (bb : N) : option (list N) :=
  match k with
  | O => Some a
  | S m =>
      v <~ rd a (bb + N.of_nat m) ;;
      a' <~ wr a (bb + N.of_nat (S m)) v ;;
      shift_up m a' bb
  end.

(* while (bb > bg) *--kk = *--bb;      n = bb - bg iterations *)
Fixpoint copy_down (n : nat) (a : list N) (bb kk : N) : option (list N * N) :=
  match n with
  | O => Some (a, kk)
  | S m =>
      kk' <~ pdec kk ;;
      bb' <~ pdec bb ;;
      v <~ rd a bb' ;;
      a' <~ wr a kk' v ;;
      copy_down m a' bb' kk'
  end.

(* while (lno > imtf_row) { lno1 = lno; pp = --( *--lno ); **lno1 = pp[ROW_WIDTH]; } *)
Fixpoint carry (lno : nat) (a rows : list N) (pp : N) : option (list N * list N * N) :=
  match lno with
  | O => Some (a, rows, pp)
  | S l =>
      r <~ rd rows (N.of_nat l) ;;              (* *--lno                      *)
      p <~ pdec r ;;                            (* --( *lno ), pp = that         *)
      rows' <~ wr rows (N.of_nat l) p ;;
      v <~ rd a (p + ROW_WIDTH) ;;              (* pp[ROW_WIDTH]               *)
      d <~ rd rows' (N.of_nat (S l)) ;;         (* *lno1                       *)
      a' <~ wr a d v ;;                         (* **lno1 = ...                *)
      carry l a' rows' p
  end.

Section WithLength.
Variable L : N.       (* SLIDE_LENGTH *)

(* while (rr > imtf_row) { bg = *--rr; bb = bg + ROW_WIDTH; assert(...);
                           while (bb > bg) *--kk = *--bb;  *rr = kk; } *)
Fixpoint rebuild_loop (rr : nat) (a rows : list N) (kk : N) : option (list N * list N) :=
  match rr with
  | O => Some (a, rows)
  | S r =>
      bg <~ rd rows (N.of_nat r) ;;
      bb <~ padd L bg ROW_WIDTH ;;              (* also the assert: bb <= slide + SLIDE_LENGTH *)
      ' (a', kk') <~ copy_down (N.to_nat (bb - bg)) a bb kk ;;
      rows' <~ wr rows (N.of_nat r) kk' ;;
      rebuild_loop r a' rows' kk'
  end.

Definition rebuild (st : sstate) : option sstate :=
  ' (a, rows) <~ rebuild_loop (N.to_nat NUM_ROWS) (s_slide st) (s_rows st) L ;;
  Some {| s_slide := a; s_rows := rows |}.

Definition lift (o : option outcome) : outcome := match o with Some r => r | None => Oob end.

Definition mtf_fast (c : N) (st : sstate) : outcome :=
  lift (
    pp <~ rd (s_rows st) 0 ;;                   (* pp = imtf_row[0] *)
    x <~ rd (s_slide st) (pp + c) ;;            (* c = pp[nn]       *)
    if c =? 0 then Some Abort                   (* switch: no case 0 -> default: abort() *)
    else
      a <~ shift_up (N.to_nat c) (s_slide st) pp ;;
      a' <~ wr a pp x ;;                        (* *pp = c *)
      Some (Done x {| s_slide := a'; s_rows := s_rows st |})).

Definition mtf_general (c : N) (st : sstate) : outcome :=
  lift (
    r0 <~ rd (s_rows st) 0 ;;
    st1 <~ (if r0 =? 0 then rebuild st else Some st) ;;   (* imtf_row[0] == imtf_slide *)
    bb <~ rd (s_rows st1) (c / ROW_WIDTH) ;;              (* lno = imtf_row + c / ROW_WIDTH; bb = *lno *)
    pp <~ padd L bb (c mod ROW_WIDTH) ;;
    x <~ rd (s_slide st1) pp ;;                           (* c = *pp *)
    a <~ shift_up (N.to_nat (pp - bb)) (s_slide st1) bb ;;
    ' (a', rows', pp') <~ carry (N.to_nat (c / ROW_WIDTH)) a (s_rows st1) bb ;;
    a'' <~ wr a' pp' x ;;                                 (* *pp = c *)
    Some (Done x {| s_slide := a''; s_rows := rows' |})).

(* uint8_t mtf_one(uint8_t **imtf_row, uint8_t *imtf_slide, uint8_t c) *)
Definition mtf_one (c : N) (st : sstate) : outcome :=
  if c <? ROW_WIDTH then mtf_fast c st else mtf_general c st.

(* a sequence of calls; returned bytes in call order *)
Inductive run_outcome :=
| RDone (xs : list N) (st : sstate)
| ROob (xs : list N)             (* bytes returned before the bad access *)
| RAbort (xs : list N).

Fixpoint slide_run (cs : list N) (st : sstate) : run_outcome :=
  match cs with
  | [] => RDone [] st
  | c :: r =>
      match mtf_one c st with
      | Oob => ROob []
      | Abort => RAbort []
      | Done x st' =>
          match slide_run r st' with
          | RDone xs st'' => RDone (x :: xs) st''
          | ROob xs => ROob (x :: xs)
          | RAbort xs => RAbort (x :: xs)
          end
      end
  end.

(* ---- initialisation in retrieve() ----------------------------------------------------- *)
(* do { imtf_slide[CMAP_BASE + alpha_size] = j++; alpha_size += bit; } for the 256 bitmap bits
   (flags = the 256 in-use bits in byte order).  [base] = CMAP_BASE. *)
Fixpoint bitmap_fill (base : N) (flags : list bool) (j alpha : N) (a : list N) : option (list N * N) :=
  match flags with
  | [] => Some (a, alpha)
  | b :: r =>
      a' <~ wr a (base + alpha) j ;;
      bitmap_fill base r (j + 1) (if b then alpha + 1 else alpha) a'
  end.

(* for (i = 0; i < NUM_ROWS; i++) imtf_row[i] = imtf_slide + CMAP_BASE + i * ROW_WIDTH; *)
Definition rows_init (base : N) : list N :=
  map (fun i => base + N.of_nat i * ROW_WIDTH) (seq 0 (N.to_nat NUM_ROWS)).

(* [junk]: the contents of imtf_slide before the block (the state structure is allocated
   with malloc and re-used from block to block: indeterminate/stale bytes) *)
Definition slide_init (base : N) (junk : list N) (flags : list bool) : option (sstate * N) :=
  ' (a, alpha) <~ bitmap_fill base flags 0 0 junk ;;
  Some ({| s_slide := a; s_rows := rows_init base |}, alpha).

(* ---- abstract content: the concatenation of the 16 rows ----------------------------- *)
Definition row_cells (a : list N) (r : N) : list N :=
  firstn (N.to_nat ROW_WIDTH) (skipn (N.to_nat r) a).
Definition absl (st : sstate) : list N := flat_map (row_cells (s_slide st)) (s_rows st).

End WithLength.

(* the bytes in use, in increasing order, as retrieve() stores them below CMAP_BASE + alpha:
   [used_of flags] = the list of j < 256 whose in-use bit is set *)
Fixpoint used_from (j : N) (flags : list bool) : list N :=
  match flags with
  | [] => []
  | b :: r => if b then j :: used_from (j + 1) r else used_from (j + 1) r
  end.
Definition used_of (flags : list bool) : list N := used_from 0 flags.

(* ---- instance for the real constants ------------------------------------------------------- *)
Definition mtf_one_c : N -> sstate -> outcome := mtf_one SLIDE_LENGTH.
Definition slide_run_c : list N -> sstate -> run_outcome := slide_run SLIDE_LENGTH.
Definition slide_init_c : list N -> list bool -> option (sstate * N) := slide_init CMAP_BASE.

(* list-level reference: successive move-to-front on a list (what Dec/Format.v's unmtf does
   with `mtf_front (N.to_nat (s - 1)) order 0`); restated here so that the model file does not
   depend on Dec/; SlideProofs.v proves it equal to Format.mtf_front. *)
Definition mtf_front_l (i : nat) (l : list N) : N * list N :=
  (nth i l 0, nth i l 0 :: (firstn i l ++ skipn (S i) l)).
Fixpoint mtf_run (cs : list N) (order : list N) : list N * list N :=
  match cs with
  | [] => ([], order)
  | c :: r =>
      let '(x, order') := mtf_front_l (N.to_nat c) order in
      let '(xs, o) := mtf_run r order' in (x :: xs, o)
  end.
