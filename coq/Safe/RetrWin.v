(* C05, the delta-coded code lengths: lbzip2's "peek 6 bits, consume L[k]" window step against the bit-by-bit reader
   win_delta of Dec/Delta.v (a machine over the regenerated tables), and fuel irrelevance of machine readers. *)
From Coq Require Import List NArith Arith Bool Lia ZifyBool ZifyNat ZifyN.
From LBZ Require Import Common.Bits Gen.Consts Gen.DecTabs Dec.Prog Dec.Format Dec.Sim Dec.Delta Dec.DecProofs.
Import ListNotations.
Local Open Scope N_scope.

(* a machine reader with more fuel than bits does not depend on the fuel *)
Lemma mprog_fuel {S A} (m : machine S A) : forall f1 f2 s bits, (length bits < f1)%nat -> (length bits < f2)%nat ->
  run (mprog m f1 s) bits = run (mprog m f2 s) bits.
Proof.
  induction f1 as [|f1 IH]; intros f2 s bits H1 H2; [lia|].
  destruct f2 as [|f2]; [lia|].
  cbn [mprog]. destruct (mstat m s); try reflexivity.
  destruct bits as [|b r]; [reflexivity|]. cbn [run]. apply IH; cbn [length] in *; lia.
Qed.

(* ---- the window machine, one bit at a time ------------------------------------------------------------------------ *)
Lemma win_run_step f cur j v b r :
  run (mprog win_machine (Datatypes.S f) (0, cur, j, v)) (b :: r) = run (mprog win_machine f (win_step (0, cur, j, v) b)) r.
Proof. reflexivity. Qed.

Lemma win_run_done f cur j v bits : run (mprog win_machine f (1, cur, j, v)) bits = Ok (cur, bits).
Proof. destruct f; reflexivity. Qed.

Lemma win_run_fail f cur j v bits : run (mprog win_machine f (2, cur, j, v)) bits = Err ErrDelta.
Proof. destruct f; reflexivity. Qed.

Lemma win_step_eq cur j v b :
  win_step (0, cur, j, v) b =
  let j' := j + 1 in
  let v' := 2 * v + (if b then 1 else 0) in
  let k := N.shiftl v' (6 - j') in
  if tabL k =? j' then
    match window_apply cur k with
    | None => (2, cur, 0, 0)
    | Some cur' => if j' =? 6 then (0, cur', 0, 0) else (1, cur', 0, 0)
    end
  else if j' =? 6 then (3, cur, 0, 0)
  else (0, cur, j', v').
Proof. reflexivity. Qed.

(* where the machine stops inside a window (does not depend on the running value): the table index used, the number
   of bits read (as N and as nat), the bits left *)
Fixpoint wsteps (n : nat) (j v : N) (bits : list bool) : option (N * N * nat * list bool) :=
  match n, bits with
  | Datatypes.S n', b :: r =>
      let j' := j + 1 in
      let v' := 2 * v + (if b then 1 else 0) in
      let k := N.shiftl v' (6 - j') in
      if tabL k =? j' then Some (k, j', 1%nat, r)
      else if j' =? 6 then None
      else match wsteps n' j' v' r with
           | Some (k0, j0, m, r0) => Some (k0, j0, Datatypes.S m, r0)
           | None => None
           end
  | _, _ => None
  end.

Lemma wsteps_run : forall n j v bits k j' m r cur f,
  wsteps n j v bits = Some (k, j', m, r) -> (m <= f)%nat ->
  run (mprog win_machine f (0, cur, j, v)) bits =
  match window_apply cur k with
  | None => Err ErrDelta
  | Some cur' => if j' =? 6 then run (mprog win_machine (f - m) (0, cur', 0, 0)) r else Ok (cur', r)
  end.
Proof.
  induction n as [|n IH]; intros j v bits k j' m r cur f H Hf; [discriminate|].
  destruct bits as [|b bits]; [discriminate|]. cbn [wsteps] in H. cbv zeta in H.
  destruct (tabL (N.shiftl (2 * v + (if b then 1 else 0)) (6 - (j + 1))) =? j + 1) eqn:E1.
  - injection H as <- <- <- <-. destruct f as [|f]; [lia|].
    rewrite win_run_step, win_step_eq. cbv zeta. rewrite E1.
    destruct (window_apply cur _) as [cur'|]; [|apply win_run_fail].
    destruct (j + 1 =? 6); [|apply win_run_done].
    replace (Datatypes.S f - 1)%nat with f by lia. reflexivity.
  - destruct (j + 1 =? 6) eqn:E2; [discriminate|].
    destruct (wsteps n (j + 1) (2 * v + (if b then 1 else 0)) bits) as [[[[k0 j0] m0] r0]|] eqn:E3; [|discriminate].
    injection H as <- <- <- <-. destruct f as [|f]; [lia|].
    rewrite win_run_step, win_step_eq. cbv zeta. rewrite E1, E2.
    rewrite (IH _ _ _ _ _ _ _ cur f E3) by lia. reflexivity.
Qed.

Lemma window_apply_ext cur k1 k2 : tabRmin k1 = tabRmin k2 -> tabRmax k1 = tabRmax k2 -> tabR k1 = tabR k2 ->
  window_apply cur k1 = window_apply cur k2.
Proof. intros E1 E2 E3. unfold window_apply. rewrite E1, E2, E3. reflexivity. Qed.

(* the check of one window: the machine stops behind L[k] bits, at a table index with the same entries *)
Definition win_chk (rest : list bool) (k : N) : Prop :=
  exists kp, wsteps 6 0 0 (bits_msb 6 k ++ rest) =
             Some (kp, tabL k, N.to_nat (tabL k), skipn (N.to_nat (tabL k)) (bits_msb 6 k ++ rest)) /\
             tabRmin kp = tabRmin k /\ tabRmax kp = tabRmax k /\ tabR kp = tabR k.

Lemma win_chk_all rest : forall n, (n < 64)%nat -> win_chk rest (N.of_nat n).
Proof.
  intros n Hn.
  do 64 (destruct n as [|n]; [unfold win_chk; eexists; split; [cbv; reflexivity|repeat split; reflexivity]|]). lia.
Qed.

(* one 6-bit window k at the front of the stream *)
Lemma win_window f cur k rest : k < 64 -> (6 < f)%nat ->
  run (win_delta f cur) (bits_msb 6 k ++ rest) =
  match window_apply cur k with
  | None => Err ErrDelta
  | Some cur' =>
      if tabL k =? 6 then run (win_delta (f - 6) cur') rest
      else Ok (cur', skipn (N.to_nat (tabL k)) (bits_msb 6 k ++ rest))
  end.
Proof.
  intros Hk Hf.
  pose proof (win_chk_all rest (N.to_nat k) ltac:(lia)) as H. rewrite N2Nat.id in H.
  destruct H as (kp & HW & E1 & E2 & E3).
  assert (HL : 1 <= tabL k <= 6).
  { pose proof tables_prefix_consistent_true as A. unfold tables_prefix_consistent in A. rewrite forallb_forall in A.
    specialize (A (N.to_nat k)). rewrite in_seq in A. specialize (A ltac:(lia)). cbv zeta in A. rewrite N2Nat.id in A.
    repeat (apply andb_true_iff in A; destruct A as [A ?]). lia. }
  unfold win_delta. rewrite (wsteps_run _ _ _ _ _ _ _ _ cur f HW) by lia.
  rewrite (window_apply_ext cur kp k E1 E2 E3).
  destruct (window_apply cur k) as [cur'|]; [|reflexivity].
  destruct (N.eqb_spec (tabL k) 6) as [E6|N6]; [|reflexivity].
  rewrite E6. change (N.to_nat 6) with 6%nat.
  replace (skipn 6 (bits_msb 6 k ++ rest)) with rest; [reflexivity|].
  rewrite skipn_app, bits_msb_length. rewrite skipn_all2 by (rewrite bits_msb_length; lia). reflexivity.
Qed.

Print Assumptions mprog_fuel.
Print Assumptions win_window.
