(* C12 (heap part) - the ownership checker run on the regenerated hand-over skeleton
   (by computation). *)
From LBZ Require Import Lock.OwnLang Lock.OwnCheck Lock.OwnSound Gen.OwnProg.
Local Open Scope string_scope.

Lemma own_check_program : own_check_all scenarios = true.
Proof. vm_compute. reflexivity. Qed.

(* the scenarios and thread bodies the translator must have produced (a thread that
   silently dropped out of the skeleton would otherwise not be checked) *)
Definition thread_table : list (string * list (string * bool)) :=
  map (fun sc => (fst sc, map (fun t => (fst (fst t), snd (fst t))) (pr_threads (snd sc)))) scenarios.

Lemma thread_table_expected :
  thread_table =
  [("compression", [("worker_thread_proc", true); ("source_thread_proc", false); ("sink_thread_proc", false)]);
   ("expansion", [("worker_thread_proc", true); ("source_thread_proc", false); ("sink_thread_proc", false)]);
   ("pseudo_process", [("source_thread_proc", false); ("sink_thread_proc", false)])].
Proof. vm_compute. reflexivity. Qed.

(* every queue / global slot of the skeleton has a protecting mutex in the table *)
Lemma queue_locks_total :
  forallb (fun q => match assoc queue_lock_table (fst q) with Some _ => true | None => false end) queue_names = true.
Proof. vm_compute. reflexivity. Qed.

Theorem program_no_heap_race :
  forall name p, In (name, p) scenarios ->
  forall c, reachable p c -> ~ heap_race c.
Proof. exact (own_sound_all scenarios own_check_program). Qed.

Theorem program_accesses_entitled :
  forall name p, In (name, p) scenarios ->
  forall c, reachable p c ->
  forall i t o, nth_error (threads c) i = Some t -> about_to_access t (heap c) o -> may_access p c i o.
Proof. exact (own_entitled_all scenarios own_check_program). Qed.
