(* C12 (heap part) - non-vacuity: the seeded defect pattern in miniature.

   producer:  p = malloc; lock; enqueue(q, p); unlock; p->f        (touches p AFTER hand-over)
   consumer:  lock; r = dequeue(q); unlock; r->f
   The checker rejects it, and a concrete interleaving reaches a configuration in which
   both threads are about to touch the same object (the consumer holds it, the producer
   does not and owns no mutex).  With the access moved before the hand-over the skeleton
   is accepted. *)
From Coq Require Import List PArith Bool Arith.
From LBZ Require Import Lock.OwnLang Lock.OwnCheck Lock.OwnSound.
From LBZ Require Lock.Ownership.
Local Open Scope positive_scope.

Definition consumer : stmt :=
  Seq (Lock 1) (Seq (Deq 2 1) (Seq (Unlock 1) (Access 2 2))).

Definition producer_racy : stmt :=
  Seq (New 1) (Seq (Lock 1) (Seq (Enq 1 1) (Seq (Unlock 1) (Access 1 1)))).

Definition producer_ok : stmt :=
  Seq (New 1) (Seq (Access 1 1) (Seq (Lock 1) (Seq (Enq 1 1) (Unlock 1)))).

Definition racy : program :=
  mkProgram [("producer"%string, false, producer_racy); ("consumer"%string, true, consumer)] [(1, 1)].
Definition handover_ok : program :=
  mkProgram [("producer"%string, false, producer_ok); ("consumer"%string, true, consumer)] [(1, 1)].

Lemma racy_rejected : own_check racy = false.
Proof. vm_compute. reflexivity. Qed.

Lemma handover_accepted : own_check handover_ok = true.
Proof. vm_compute. reflexivity. Qed.

(* taking from the queue without its mutex, peeking without it, touching a published
   object without its mutex are rejected as well *)
Lemma deq_unlocked_rejected :
  own_check (mkProgram [("t"%string, false, Seq (Deq 1 1) (Access 1 1))] [(1, 1)]) = false.
Proof. vm_compute. reflexivity. Qed.
Lemma peek_unlocked_rejected :
  own_check (mkProgram [("t"%string, false, AccQ 1 1)] [(1, 1)]) = false.
Proof. vm_compute. reflexivity. Qed.
Lemma shared_unlocked_rejected :
  own_check (mkProgram [("t"%string, false, Seq (Borrow 1 1) (Access 1 1))] [(1, 1)]) = false.
Proof. vm_compute. reflexivity. Qed.
Lemma shared_locked_accepted :
  own_check (mkProgram [("t"%string, false,
     Seq (New 1) (Seq (Lock 1) (Seq (Share 1 1) (Seq (Access 1 1) (Seq (Unlock 1)
     (Seq (Lock 1) (Seq (Access 1 2) (Unlock 1))))))))] [(1, 1)]) = true.
Proof. vm_compute. reflexivity. Qed.
(* a pointer copy kills the source; a loop that hands over must re-acquire *)
Lemma copy_then_use_rejected :
  own_check (mkProgram [("t"%string, false, Seq (New 1) (Seq (Move 2 1) (Access 1 1)))] []) = false.
Proof. vm_compute. reflexivity. Qed.
Lemma loop_handover_rejected :
  own_check (mkProgram [("t"%string, false,
     Seq (New 1) (Loop (Seq (Access 1 1) (Seq (Lock 1) (Seq (Enq 1 1) (Unlock 1))))))] [(1, 1)]) = false.
Proof. vm_compute. reflexivity. Qed.
Lemma loop_reacquire_accepted :
  own_check (mkProgram [("t"%string, false,
     Loop (Seq (New 1) (Seq (Access 1 1) (Seq (Lock 1) (Seq (Enq 1 1) (Unlock 1))))))] [(1, 1)]) = true.
Proof. vm_compute. reflexivity. Qed.

(* ---- the interleaving ---- *)
Inductive steps : config -> config -> Prop :=
| steps_nil c : steps c c
| steps_cons c c' c'' : step c c' -> steps c' c'' -> steps c c''.

Lemma reachable_steps p c c' : reachable p c -> steps c c' -> reachable p c'.
Proof.
  intros Hr Hs. induction Hs; auto. apply IHHs. eapply reach_step; eauto.
Qed.

Definition env0 : env := fun _ => None.
Definition cfg0 : config :=
  mkCfg [mkThread [IS producer_racy] env0; mkThread [IS consumer] env0] (fun _ => None) (fun _ => OFree).

Lemma cfg0_initial : initial racy cfg0.
Proof.
  split; [reflexivity|]. split; [reflexivity|].
  intros i t Hi. destruct i as [|[|i]]; simpl in Hi; inversion Hi; subst; simpl.
  - split; [reflexivity|]. exists "producer"%string, false, producer_racy. split; [left; reflexivity | reflexivity].
  - split; [reflexivity|]. exists "consumer"%string, true, consumer. split; [right; left; reflexivity | reflexivity].
  - destruct i; discriminate.
Qed.

Ltac st n C :=
  eapply steps_cons;
  [ eapply step_thread with (i := n); [reflexivity | C | simpl; auto] | ];
  cbn [set_nth th_cont th_env threads owner heap].

(* the final configuration: producer at [Access 1], consumer at [Access 2], both variables
   bound to object 0, which the consumer (thread 1) holds *)
Definition racy_final (c : config) : Prop :=
  exists e0 e1, threads c = [mkThread [IS (Access 1 1)] e0; mkThread [IS (Access 2 2)] e1] /\
    e0 1 = Some 0%nat /\ e1 2 = Some 0%nat /\ heap c 0%nat = OHeld 1 /\ (forall m, owner c m = None).

Lemma racy_run : exists c, steps cfg0 c /\ racy_final c.
Proof.
  eexists. split.
  - unfold cfg0, producer_racy, consumer.
    st 0%nat ltac:(apply ls_seq).
    st 0%nat ltac:(apply (ls_new 0 1 0%nat); reflexivity).
    st 0%nat ltac:(apply ls_seq).
    st 0%nat ltac:(apply ls_lock).
    st 0%nat ltac:(apply ls_seq).
    st 0%nat ltac:(apply ls_enq).
    st 0%nat ltac:(apply ls_seq).
    st 0%nat ltac:(apply ls_unlock).
    st 1%nat ltac:(apply ls_seq).
    st 1%nat ltac:(apply ls_lock).
    st 1%nat ltac:(apply ls_seq).
    st 1%nat ltac:(apply (ls_deq 1 2 1 0%nat); reflexivity).
    st 1%nat ltac:(apply ls_seq).
    st 1%nat ltac:(apply ls_unlock).
    apply steps_nil.
  - eexists. eexists. split; [reflexivity|]. split; [reflexivity|]. split; [reflexivity|].
    split; [reflexivity|]. intros m. cbn. unfold upd.
    destruct (Pos.eqb m 1) eqn:E; reflexivity.
Qed.

Theorem racy_has_race : exists c, reachable racy c /\ heap_race c.
Proof.
  destruct racy_run as [c [Hs [e0 [e1 [Ht [H0 [H1 [Hh Ho]]]]]]]].
  exists c. split.
  - eapply reachable_steps; [apply reach_init; apply cfg0_initial | exact Hs].
  - exists 0%nat, 1%nat, (mkThread [IS (Access 1 1)] e0), (mkThread [IS (Access 2 2)] e1), 0%nat.
    rewrite Ht. repeat split; auto.
Qed.

(* ... and the producer is NOT entitled there: the discipline is really violated *)
Theorem racy_not_entitled :
  exists c t o, reachable racy c /\ nth_error (threads c) 0 = Some t /\
                about_to_access t (heap c) o /\ ~ may_access racy c 0 o.
Proof.
  destruct racy_run as [c [Hs [e0 [e1 [Ht [H0 [H1 [Hh Ho]]]]]]]].
  exists c, (mkThread [IS (Access 1 1)] e0), 0%nat. split; [|split; [|split]].
  - eapply reachable_steps; [apply reach_init; apply cfg0_initial | exact Hs].
  - rewrite Ht. reflexivity.
  - exact H0.
  - intros [H|[[q [m [H _]]]|[m [H _]]]]; rewrite Hh in H; discriminate.
Qed.

(* ---- relation to the abstract model of Lock/Ownership.v ----
   For one mutex m and one queue q protected by it, the projection of a configuration
   to the abstract [Ownership.state] maps entitlement there to entitlement here. *)
Definition proj (c : config) (m : mutex) (q : queue) : Ownership.state :=
  Ownership.mkState (owner c m)
    (fun o => match heap c o with
              | OHeld t => Ownership.Held t
              | OInQ q' => if Pos.eqb q' q then Ownership.Queued else Ownership.Freed
              | _ => Ownership.Freed
              end).

Theorem ownership_model_instance p c m q t o :
  qlock p q = Some m ->
  Ownership.may_access (proj c m q) t o -> OwnLang.may_access p c t o.
Proof.
  intros Hq [H|[Hl H]]; unfold proj in *; simpl in *.
  - left. destruct (heap c o) as [|t'|q'|m']; try discriminate.
    + inversion H; subst. reflexivity.
    + destruct (Pos.eqb q' q); discriminate.
  - right. left. destruct (heap c o) as [|t'|q'|m']; try discriminate.
    destruct (Pos.eqb q' q) eqn:E; [|discriminate]. apply Pos.eqb_eq in E. subst.
    exists q, m. auto.
Qed.

Print Assumptions racy_has_race.
Print Assumptions ownership_model_instance.
