(* C12 - the lockset analysis [check] (executable; soundness in LocksetSound.v).

   Abstract state of a thread at a program point: the set of mutexes CERTAINLY held
   and whether the thread MAY be inside its create..join phase.  Joins intersect the
   held sets; loops are solved by iterating to a post-fixpoint which is then verified;
   callees are analysed again at every call with the caller's state (the call graph
   must be acyclic: the depth is bounded by the number of functions, a deeper call
   makes the analysis fail).  Every access is recorded as a [fact]; afterwards every
   pair of facts on one tracked variable, at least one of them a write, must be
     - from one and the same single-instance thread class, or
     - ordered by thread creation / joining or the sig_atomic_t rule ([fexempt]), or
     - made with a common mutex held. *)
From LBZ Require Import Lock.LockLang.

Definition lockset := list mutex.
Definition astate := (lockset * bool)%type.

Record fact := mkFact {
  f_spec : nat; f_var : var; f_write : bool; f_locks : lockset; f_conc : bool; f_site : site
}.

Record exits := mkExits {
  ex_norm : option astate; ex_ret : option astate; ex_brk : option astate; ex_cnt : option astate
}.

(* ---- finite sets of mutexes as lists ---- *)
Definition mem (m : mutex) (l : lockset) : bool := existsb (Pos.eqb m) l.
Definition add (m : mutex) (l : lockset) : lockset := if mem m l then l else m :: l.
Definition remove (m : mutex) (l : lockset) : lockset := filter (fun x => negb (Pos.eqb x m)) l.
Definition inter (a b : lockset) : lockset := filter (fun x => mem x b) a.
Definition subset (a b : lockset) : bool := forallb (fun x => mem x b) a.

(* a is at least as conservative as b: fewer locks claimed, concurrency not excluded *)
Definition le_state (a b : astate) : bool := subset (fst a) (fst b) && implb (snd b) (snd a).
Definition meet_state (a b : astate) : astate := (inter (fst a) (fst b), snd a || snd b).

Definition meet_opt (x y : option astate) : option astate :=
  match x, y with
  | None, _ => y
  | _, None => x
  | Some a, Some b => Some (meet_state a b)
  end.

(* x is at least as conservative as y (None = unreachable = the most precise) *)
Definition ole_b (x y : option astate) : bool :=
  match y with
  | None => true
  | Some b => match x with Some a => le_state a b | None => false end
  end.

Definition no_exits : exits := mkExits None None None None.
Definition norm_only (a : astate) : exits := mkExits (Some a) None None None.
Definition meet_exits (e1 e2 : exits) : exits :=
  mkExits (meet_opt (ex_norm e1) (ex_norm e2)) (meet_opt (ex_ret e1) (ex_ret e2))
          (meet_opt (ex_brk e1) (ex_brk e2)) (meet_opt (ex_cnt e1) (ex_cnt e2)).

(* ---- facts, kept without duplicates (the site of the first occurrence is kept) ---- *)
Fixpoint lockset_eqb (a b : lockset) : bool :=
  match a, b with
  | [], [] => true
  | x :: a', y :: b' => Pos.eqb x y && lockset_eqb a' b'
  | _, _ => false
  end.

Definition fact_same (f g : fact) : bool :=
  Nat.eqb (f_spec f) (f_spec g) && Pos.eqb (f_var f) (f_var g) && Bool.eqb (f_write f) (f_write g) &&
  Bool.eqb (f_conc f) (f_conc g) && lockset_eqb (f_locks f) (f_locks g).

Definition add_fact (f : fact) (acc : list fact) : list fact :=
  if existsb (fact_same f) acc then acc else f :: acc.

Definition res := option (exits * list fact).

Section Flow.
Variable p : program.
Variable ismain : bool.
Variable sp : nat.

Section Stmt.
(* analysis of a callee body (one call level deeper) *)
Variable callf : stmt -> astate -> list fact -> res.

Definition flow_call (f : fname) (a : astate) (acc : list fact) : res :=
  match lookup p f with
  | None => Some (norm_only a, acc)                (* library function: no effect on the skeleton *)
  | Some None => None                              (* function that could not be transcribed *)
  | Some (Some b) =>
      match callf b a acc with
      | None => None
      | Some (eb, acc') =>
          Some (mkExits (meet_opt (meet_opt (ex_norm eb) (ex_ret eb)) (meet_opt (ex_brk eb) (ex_cnt eb)))
                        None None None, acc')
      end
  end.

Fixpoint flow_calls (fs : list fname) (a : astate) (e : exits) (acc : list fact) : res :=
  match fs with
  | [] => Some (e, acc)
  | f :: fs' => match flow_call f a acc with
                | None => None
                | Some (ef, acc') => flow_calls fs' a (meet_exits e ef) acc'
                end
  end.

Definition loop_bound : nat := 8.

Fixpoint flow_stmt (s : stmt) (a : astate) (acc : list fact) {struct s} : res :=
  match s with
  | Skip => Some (norm_only a, acc)
  | Seq s1 s2 =>
      match flow_stmt s1 a acc with
      | None => None
      | Some (e1, acc1) =>
          match ex_norm e1 with
          | None => Some (e1, acc1)
          | Some a1 =>
              match flow_stmt s2 a1 acc1 with
              | None => None
              | Some (e2, acc2) =>
                  Some (mkExits (ex_norm e2) (meet_opt (ex_ret e1) (ex_ret e2))
                                (meet_opt (ex_brk e1) (ex_brk e2)) (meet_opt (ex_cnt e1) (ex_cnt e2)), acc2)
              end
          end
      end
  | If s1 s2 =>
      match flow_stmt s1 a acc with
      | None => None
      | Some (e1, acc1) =>
          match flow_stmt s2 a acc1 with
          | None => None
          | Some (e2, acc2) => Some (meet_exits e1 e2, acc2)
          end
      end
  | IfMain s1 s2 => if ismain then flow_stmt s1 a acc else flow_stmt s2 a acc
  | Loop s1 =>
      (* candidate invariant: iterate  I := I /\ normal exit /\ continue exit  of the body *)
      let inv :=
        (fix iter (n : nat) (I : astate) {struct n} : astate :=
           match n with
           | O => I
           | S n' => match flow_stmt s1 I [] with
                     | None => I
                     | Some (eb, _) =>
                         let I' := match meet_opt (Some I) (meet_opt (ex_norm eb) (ex_cnt eb)) with
                                   | Some x => x | None => I end in
                         if le_state I I' then I else iter n' I'
                     end
           end) loop_bound a in
      match flow_stmt s1 inv acc with
      | None => None
      | Some (eb, acc') =>
          (* verify that it is an invariant *)
          if le_state inv a && ole_b (Some inv) (ex_norm eb) && ole_b (Some inv) (ex_cnt eb)
          then Some (mkExits (ex_brk eb) (ex_ret eb) None None, acc')
          else None
      end
  | Break => Some (mkExits None None (Some a) None, acc)
  | Continue => Some (mkExits None None None (Some a), acc)
  | Return => Some (mkExits None (Some a) None None, acc)
  | NoReturn => Some (no_exits, acc)
  | Lock m => Some (norm_only (add m (fst a), snd a), acc)
  | Unlock m => Some (norm_only (remove m (fst a), snd a), acc)
  | Wait m => Some (norm_only (add m (remove m (fst a)), snd a), acc)
  | Rd v st => Some (norm_only a, add_fact (mkFact sp v false (fst a) (snd a) st) acc)
  | Wr v st => Some (norm_only a, add_fact (mkFact sp v true (fst a) (snd a) st) acc)
  | Call f => flow_call f a acc
  | CallAny fs =>
      match fs with
      | [] => None                                  (* unresolved indirect call *)
      | _ => flow_calls fs a no_exits acc
      end
  | Create => Some (norm_only (fst a, true), acc)
  | Join l => Some (norm_only (fst a, if l then false else snd a), acc)
  end.
End Stmt.

Fixpoint flow (fuel : nat) (s : stmt) (a : astate) (acc : list fact) {struct fuel} : res :=
  match fuel with
  | O => None                                       (* call depth exceeded: recursion *)
  | S n => flow_stmt (flow n) s a acc
  end.
End Flow.

(* ---- all facts of a scenario ---- *)
Fixpoint collect (p : program) (i : nat) (rest : list spec) (acc : list fact)
  : option (list fact) :=
  match rest with
  | [] => Some acc
  | s :: rest' =>
      match flow p (sp_is_main s) i (S (S (List.length p))) (Call (sp_entry s)) ([], sp_start_conc s) acc with
      | None => None
      | Some (_, acc') => collect p (S i) rest' acc'
      end
  end.

(* ---- the pair condition ---- *)
Definition fexempt (cl : classes) (specs : list spec) (f g : fact) : bool :=
  (negb (f_conc f) && is_desc specs (List.length specs) (f_spec g) (f_spec f)) ||
  (negb (f_conc g) && is_desc specs (List.length specs) (f_spec f) (f_spec g)) ||
  (cl_sigatomic cl (f_var f) &&
   ((spec_handler specs (f_spec f) && spec_main specs (f_spec g)) ||
    (spec_main specs (f_spec f) && spec_handler specs (f_spec g)))).

Definition common_lock (f g : fact) : bool := existsb (fun m => mem m (f_locks g)) (f_locks f).

(* written with if-then-else so that vm_compute (call by value) evaluates the expensive
   tests only for conflicting pairs on one tracked variable *)
Definition pair_ok (cl : classes) (specs : list spec) (f g : fact) : bool :=
  if Pos.eqb (f_var f) (f_var g) then
    if f_write f || f_write g then
      if cl_tracked cl (f_var f) then
        if common_lock f g then true
        else if Nat.eqb (f_spec f) (f_spec g) && negb (spec_multi specs (f_spec f)) then true
        else fexempt cl specs f g
      else true
    else true
  else true.

Definition pairs_ok (cl : classes) (specs : list spec) (F : list fact) : bool :=
  forallb (fun f => forallb (pair_ok cl specs f) F) F.

Definition check_scenario (p : program) (cl : classes) (specs : list spec) : bool :=
  match collect p O specs [] with
  | None => false
  | Some F => pairs_ok cl specs F
  end.

Definition check (p : program) (cl : classes) : bool :=
  forallb (fun sc => check_scenario p cl (snd sc)) (cl_scenarios cl).

(* ---- diagnosis (for the extracted driver; not used by the theorems) ---- *)
Definition bad_pairs (cl : classes) (specs : list spec) (F : list fact) : list (fact * fact) :=
  flat_map (fun f => map (fun g => (f, g)) (filter (fun g => negb (pair_ok cl specs f g)) F)) F.

Inductive diag :=
| DiagFlowFailed (scenario : string) (class_index : nat)
| DiagFacts (scenario : string) (facts : list fact) (bad : list (fact * fact)).

Fixpoint first_failing (p : program) (i : nat) (rest : list spec) : option nat :=
  match rest with
  | [] => None
  | s :: rest' =>
      match flow p (sp_is_main s) i (S (S (List.length p))) (Call (sp_entry s)) ([], sp_start_conc s) [] with
      | None => Some i
      | Some _ => first_failing p (S i) rest'
      end
  end.

Definition diagnose (p : program) (cl : classes) : list diag :=
  map (fun sc =>
         match collect p O (snd sc) [] with
         | None => DiagFlowFailed (fst sc) (match first_failing p O (snd sc) with Some i => i | None => O end)
         | Some F => DiagFacts (fst sc) F (bad_pairs cl (snd sc) F)
         end) (cl_scenarios cl).
