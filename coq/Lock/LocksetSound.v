(* C12 - soundness of the lockset analysis:  check p cl = true  implies that no
   reachable configuration of [par_sem] has a race.

   Structure: (1) a declarative Hoare-style judgment [wt] over abstract states with
   weakening built into every rule; (2) [flow] constructs [wt] derivations
   (flow_sound); (3) [wtk] lifts [wt] to continuations and is preserved by every
   thread step while the abstract state under-approximates the mutexes the thread
   owns (tstep_preserves: the simulation); (4) a mutex has one owner, so two
   threads at conflicting accesses cannot both own the common mutex the pair check
   found. *)
From Coq Require Import List PArith Bool Arith Lia.
From LBZ Require Import Lock.LockLang Lock.Lockset.

(* ------------------------------------------------------------------ *)
(* sets of mutexes                                                     *)

Lemma mem_In m l : mem m l = true <-> In m l.
Proof.
  unfold mem. rewrite existsb_exists. split.
  - intros [x [Hin Heq]]. apply Pos.eqb_eq in Heq. subst. exact Hin.
  - intros Hin. exists m. split; [exact Hin | apply Pos.eqb_refl].
Qed.

Lemma In_add x m l : In x (add m l) <-> x = m \/ In x l.
Proof.
  unfold add. destruct (mem m l) eqn:E.
  - apply mem_In in E. split; [intros; right; assumption | intros [->|H]; assumption].
  - simpl. split; intros [H|H]; auto.
Qed.

Lemma In_remove x m l : In x (remove m l) <-> In x l /\ x <> m.
Proof.
  unfold remove. rewrite filter_In. split; intros [H1 H2]; split; auto.
  - intros ->. rewrite Pos.eqb_refl in H2. discriminate.
  - apply negb_true_iff. apply Pos.eqb_neq. exact H2.
Qed.

Lemma In_inter x a b : In x (inter a b) <-> In x a /\ In x b.
Proof. unfold inter. rewrite filter_In. rewrite mem_In. tauto. Qed.

Lemma subset_spec a b : subset a b = true <-> (forall x, In x a -> In x b).
Proof.
  unfold subset. rewrite forallb_forall. split; intros H x Hx.
  - apply mem_In. apply H. exact Hx.
  - apply mem_In. apply H. exact Hx.
Qed.

(* ------------------------------------------------------------------ *)
(* order on abstract states                                            *)

Definition sle (a b : astate) : Prop :=
  (forall x, In x (fst a) -> In x (fst b)) /\ (snd b = true -> snd a = true).

Lemma le_state_spec a b : le_state a b = true <-> sle a b.
Proof.
  unfold le_state, sle. rewrite andb_true_iff, subset_spec.
  destruct (snd a), (snd b); simpl; intuition congruence.
Qed.

Lemma sle_refl a : sle a a.
Proof. split; auto. Qed.

Lemma sle_trans a b c : sle a b -> sle b c -> sle a c.
Proof. intros [H1 H2] [H3 H4]. split; auto. Qed.

Definition ole (x y : option astate) : Prop :=
  match y with
  | None => True
  | Some b => exists a, x = Some a /\ sle a b
  end.

Lemma ole_b_spec x y : ole_b x y = true <-> ole x y.
Proof.
  unfold ole_b, ole. destruct y as [b|]; [|tauto].
  destruct x as [a|].
  - rewrite le_state_spec. split; [intros H; exists a; auto | intros [a' [E H]]; inversion E; subst; auto].
  - split; [discriminate | intros [a' [E _]]; discriminate].
Qed.

Lemma ole_refl x : ole x x.
Proof. destruct x as [a|]; simpl; auto. exists a. split; auto. apply sle_refl. Qed.

Lemma ole_refl_eq x y : x = y -> ole x y.
Proof. intros ->. apply ole_refl. Qed.

Lemma ole_trans x y z : ole x y -> ole y z -> ole x z.
Proof.
  unfold ole. destruct z as [c|]; auto. intros Hxy [b [-> Hbc]].
  destruct Hxy as [a [-> Hab]]. exists a. split; auto. eapply sle_trans; eauto.
Qed.

Lemma ole_some a b : sle a b -> ole (Some a) (Some b).
Proof. intros H. exists a. auto. Qed.

Lemma sle_meet_l a b : sle (meet_state a b) a.
Proof.
  unfold meet_state, sle. simpl. split.
  - intros x Hx. apply In_inter in Hx. tauto.
  - intros ->. reflexivity.
Qed.

Lemma sle_meet_r a b : sle (meet_state a b) b.
Proof.
  unfold meet_state, sle. simpl. split.
  - intros x Hx. apply In_inter in Hx. tauto.
  - intros ->. apply orb_true_r.
Qed.

Lemma ole_meet_l x y : ole (meet_opt x y) x.
Proof.
  destruct x as [a|]; simpl; auto. destruct y as [b|]; simpl.
  - exists (meet_state a b). split; auto. apply sle_meet_l.
  - exists a. split; auto. apply sle_refl.
Qed.

Lemma ole_meet_r x y : ole (meet_opt x y) y.
Proof.
  destruct y as [b|]; simpl; auto. destruct x as [a|]; simpl.
  - exists (meet_state a b). split; auto. apply sle_meet_r.
  - exists b. split; auto. apply sle_refl.
Qed.

Definition ole4 (e e' : exits) : Prop :=
  ole (ex_norm e) (ex_norm e') /\ ole (ex_ret e) (ex_ret e') /\
  ole (ex_brk e) (ex_brk e') /\ ole (ex_cnt e) (ex_cnt e').

Lemma ole4_refl e : ole4 e e.
Proof. repeat split; apply ole_refl. Qed.

Lemma ole4_meet_l e1 e2 : ole4 (meet_exits e1 e2) e1.
Proof. repeat split; apply ole_meet_l. Qed.

Lemma ole4_meet_r e1 e2 : ole4 (meet_exits e1 e2) e2.
Proof. repeat split; apply ole_meet_r. Qed.

Lemma ole4_trans e1 e2 e3 : ole4 e1 e2 -> ole4 e2 e3 -> ole4 e1 e3.
Proof. intros [A [B [C D]]] [A' [B' [C' D']]]. repeat split; eapply ole_trans; eauto. Qed.

(* ------------------------------------------------------------------ *)
(* the declarative judgment                                            *)

Section Judgment.
Variable F : list fact.
Variable p : program.
Variable ismain : bool.
Variable sp : nat.

Definition covered (v : var) (w : bool) (a : astate) : Prop :=
  exists f, In f F /\ f_spec f = sp /\ f_var f = v /\ f_write f = w /\
            (forall x, In x (f_locks f) -> In x (fst a)) /\ (snd a = true -> f_conc f = true).

Lemma covered_mono v w a a' : sle a a' -> covered v w a -> covered v w a'.
Proof.
  intros [H1 H2] [f [Hin [Hs [Hv [Hw [Hl Hc]]]]]]. exists f. repeat split; auto.
Qed.

Inductive wt : astate -> stmt -> exits -> Prop :=
| wt_skip a e : ole (ex_norm e) (Some a) -> wt a Skip e
| wt_seq a s1 s2 e1 e2 e :
    wt a s1 e1 ->
    (forall a1, ex_norm e1 = Some a1 -> wt a1 s2 e2) ->
    (forall a1, ex_norm e1 = Some a1 -> ole4 e e2) ->
    ole (ex_ret e) (ex_ret e1) -> ole (ex_brk e) (ex_brk e1) -> ole (ex_cnt e) (ex_cnt e1) ->
    wt a (Seq s1 s2) e
| wt_if a s1 s2 e1 e2 e : wt a s1 e1 -> wt a s2 e2 -> ole4 e e1 -> ole4 e e2 -> wt a (If s1 s2) e
| wt_ifmain a s1 s2 e : wt a (if ismain then s1 else s2) e -> wt a (IfMain s1 s2) e
| wt_loop a I s eb e :
    sle I a -> wt I s eb -> ole (Some I) (ex_norm eb) -> ole (Some I) (ex_cnt eb) ->
    ole (ex_norm e) (ex_brk eb) -> ole (ex_ret e) (ex_ret eb) -> wt a (Loop s) e
| wt_break a e : ole (ex_brk e) (Some a) -> wt a Break e
| wt_continue a e : ole (ex_cnt e) (Some a) -> wt a Continue e
| wt_return a e : ole (ex_ret e) (Some a) -> wt a Return e
| wt_noreturn a e : wt a NoReturn e
| wt_lock a m e : ole (ex_norm e) (Some (add m (fst a), snd a)) -> wt a (Lock m) e
| wt_unlock a m e : ole (ex_norm e) (Some (remove m (fst a), snd a)) -> wt a (Unlock m) e
| wt_wait a m e : ole (ex_norm e) (Some (add m (remove m (fst a)), snd a)) -> wt a (Wait m) e
| wt_rd a v st e : covered v false a -> ole (ex_norm e) (Some a) -> wt a (Rd v st) e
| wt_wr a v st e : covered v true a -> ole (ex_norm e) (Some a) -> wt a (Wr v st) e
| wt_call_int a f b eb e :
    lookup p f = Some (Some b) -> wt a b eb ->
    ole (ex_norm e) (ex_norm eb) -> ole (ex_norm e) (ex_ret eb) ->
    ole (ex_norm e) (ex_brk eb) -> ole (ex_norm e) (ex_cnt eb) -> wt a (Call f) e
| wt_call_ext a f e : lookup p f = None -> ole (ex_norm e) (Some a) -> wt a (Call f) e
| wt_callany a fs e : (forall f, In f fs -> wt a (Call f) e) -> wt a (CallAny fs) e
| wt_create a e : ole (ex_norm e) (Some (fst a, true)) -> wt a Create e
| wt_join a (l : bool) e : ole (ex_norm e) (Some (fst a, if l then false else snd a)) -> wt a (Join l) e.

Lemma sle_add m a a' : sle a a' -> sle (add m (fst a), snd a) (add m (fst a'), snd a').
Proof.
  intros [H1 H2]. split; simpl; auto. intros x Hx. apply In_add in Hx. apply In_add. intuition.
Qed.

Lemma sle_remove m a a' : sle a a' -> sle (remove m (fst a), snd a) (remove m (fst a'), snd a').
Proof.
  intros [H1 H2]. split; simpl; auto. intros x Hx. apply In_remove in Hx. apply In_remove. intuition.
Qed.

Lemma ole_pre x a a' : ole x (Some a) -> sle a a' -> ole x (Some a').
Proof. intros H1 H2. eapply ole_trans; [exact H1 | apply ole_some; exact H2]. Qed.

(* a more precise pre-state is accepted as well *)
Lemma wt_strengthen a s e : wt a s e -> forall a', sle a a' -> wt a' s e.
Proof.
  induction 1; intros a' Hle.
  - apply wt_skip. eapply ole_pre; eauto.
  - eapply wt_seq; eauto.
  - eapply wt_if; eauto.
  - apply wt_ifmain. auto.
  - eapply wt_loop with (I := I) (eb := eb); auto. eapply sle_trans; eauto.
  - apply wt_break. eapply ole_pre; eauto.
  - apply wt_continue. eapply ole_pre; eauto.
  - apply wt_return. eapply ole_pre; eauto.
  - apply wt_noreturn.
  - apply wt_lock. eapply ole_pre; eauto. apply sle_add; auto.
  - apply wt_unlock. eapply ole_pre; eauto. apply sle_remove; auto.
  - apply wt_wait. eapply ole_pre; eauto.
    apply (sle_add m (remove m (fst a), snd a) (remove m (fst a'), snd a')). apply sle_remove; auto.
  - apply wt_rd; [eapply covered_mono; eauto | eapply ole_pre; eauto].
  - apply wt_wr; [eapply covered_mono; eauto | eapply ole_pre; eauto].
  - eapply wt_call_int; eauto.
  - apply wt_call_ext; auto. eapply ole_pre; eauto.
  - apply wt_callany. intros f Hf. apply H0; auto.
  - apply wt_create. eapply ole_pre; eauto. destruct Hle as [H1 H2]. split; simpl; auto.
  - apply wt_join. eapply ole_pre; eauto. destruct Hle as [H1 H2]. split; simpl; auto.
    destruct l; auto.
Qed.

Lemma wt_call_weaken a f e e' : wt a (Call f) e -> ole (ex_norm e') (ex_norm e) -> wt a (Call f) e'.
Proof.
  intros H Hle. inversion H; subst.
  - eapply wt_call_int; eauto; eapply ole_trans; eauto.
  - apply wt_call_ext; auto. eapply ole_trans; eauto.
Qed.

(* ---------------- continuations ---------------- *)

Inductive wtk : astate -> cont -> Prop :=
| wtk_nil a : wtk a []
| wtk_stmt a s k e :
    wt a s e ->
    (forall x, ex_norm e = Some x -> wtk x k) ->
    (forall x, ex_ret e = Some x -> wtk x (unwind_ret k)) ->
    (forall x, ex_brk e = Some x -> wtk x (unwind_break k)) ->
    (forall x, ex_cnt e = Some x -> wtk x (unwind_cont k)) ->
    wtk a (IS s :: k)
| wtk_iret a k : wtk a k -> wtk a (IRet :: k)
| wtk_iloop a s k : wtk a (IS (Loop s) :: k) -> wtk a (ILoop s :: k).

Lemma wtk_strengthen a k : wtk a k -> forall a', sle a a' -> wtk a' k.
Proof.
  induction 1; intros a' Hle.
  - apply wtk_nil.
  - eapply wtk_stmt; eauto. eapply wt_strengthen; eauto.
  - apply wtk_iret. auto.
  - apply wtk_iloop. auto.
Qed.

Lemma ole_wtk x y k :
  ole x y -> (forall a, x = Some a -> wtk a k) -> forall b, y = Some b -> wtk b k.
Proof.
  intros Hle Hx b ->. destruct Hle as [a [-> Hab]]. eapply wtk_strengthen; [apply Hx; reflexivity | exact Hab].
Qed.

(* what the thread certainly holds / its phase, against the abstract state *)
Definition holds (a : astate) (H : mutex -> Prop) (c : bool) : Prop :=
  (forall m, In m (fst a) -> H m) /\ (c = true -> snd a = true).

Definition held_after (act : action) (H : mutex -> Prop) : mutex -> Prop :=
  match act with
  | ALock m => fun x => x = m \/ H x
  | AUnlock m => fun x => x <> m /\ H x
  | _ => H
  end.

Lemma holds_sle a a' H c : holds a' H c -> sle a a' -> holds a H c.
Proof. intros [H1 H2] [H3 H4]. split; auto. Qed.

Ltac olewtk :=
  match goal with
  | Hle : ole _ _ |- wtk _ _ =>
      solve [eapply (ole_wtk _ _ _ Hle); [eassumption | first [eassumption | reflexivity]]]
  end.

(* the simulation step *)
Lemma tstep_preserves k act k' :
  tstep p ismain k act k' ->
  forall a H c, wtk a k -> holds a H c ->
  exists a', wtk a' k' /\ holds a' (held_after act H) (conc_after act c).
Proof.
  intros Hstep a H c Hk Hh.
  destruct Hstep; inversion Hk; subst; clear Hk;
    try match goal with Hw : wt _ _ _ |- _ => inversion Hw; subst; clear Hw end.
  - (* skip *) exists a. split; [|exact Hh]. olewtk.
  - (* seq *) exists a. split; [|exact Hh].
    match goal with
    | Hw1 : wt ?a0 ?s1 ?e1, Hw2 : (forall a1, ex_norm ?e1 = Some a1 -> wt a1 ?s2 ?e2),
      Ho : (forall a1, ex_norm ?e1 = Some a1 -> ole4 ?e ?e2),
      Hr : ole (ex_ret ?e) (ex_ret ?e1), Hb : ole (ex_brk ?e) (ex_brk ?e1), Hc : ole (ex_cnt ?e) (ex_cnt ?e1) |- _ =>
        eapply wtk_stmt with (e := e1); [exact Hw1 | | | |]
    end.
    + intros x Hx.
      match goal with
      | Hw2 : (forall a1, ex_norm ?e1 = Some a1 -> wt a1 ?s2 ?e2),
        Ho : (forall a1, ex_norm ?e1 = Some a1 -> ole4 ?e ?e2) |- _ =>
          destruct (Ho x Hx) as [A [B [C D]]]; eapply wtk_stmt with (e := e2); [exact (Hw2 x Hx) | | | |]
      end; intros y Hy; olewtk.
    + simpl. intros x Hx. olewtk.
    + simpl. intros x Hx. olewtk.
    + simpl. intros x Hx. olewtk.
  - (* if1 *) exists a. split; [|exact Hh].
    match goal with
    | Hw : wt _ ?s ?e1, Ho : ole4 _ ?e1 |- wtk _ (IS ?s :: _) =>
        destruct Ho as [A [B [C D]]]; eapply wtk_stmt with (e := e1); [exact Hw | | | |]
    end; intros x Hx; olewtk.
  - (* if2 *) exists a. split; [|exact Hh].
    match goal with
    | Hw : wt _ ?s ?e1, Ho : ole4 _ ?e1 |- wtk _ (IS ?s :: _) =>
        destruct Ho as [A [B [C D]]]; eapply wtk_stmt with (e := e1); [exact Hw | | | |]
    end; intros x Hx; olewtk.
  - (* ifmain *) exists a. split; [|exact Hh]. eapply wtk_stmt; eauto.
  - (* loop *) exists a. split; [|exact Hh].
    match goal with
    | HI : sle ?I a, Hb : wt ?I s ?eb, Hn : ole (Some ?I) (ex_norm ?eb), Hc : ole (Some ?I) (ex_cnt ?eb),
      Hx1 : ole (ex_norm ?e) (ex_brk ?eb), Hx2 : ole (ex_ret ?e) (ex_ret ?eb) |- _ =>
        assert (Hloop : forall x, sle I x -> wtk x (ILoop s :: k));
        [ intros x Hs; apply wtk_iloop; eapply wtk_stmt with (e := e); eauto;
          eapply wt_loop with (I := I) (eb := eb); eauto
        | eapply wtk_stmt with (e := eb); [eapply wt_strengthen; eauto | | | |] ]
    end.
    + intros x Hx. apply Hloop.
      match goal with Hn : ole (Some ?I) (ex_norm ?eb) |- _ =>
        rewrite Hx in Hn; destruct Hn as [I' [E Hs]]; inversion E; subst; exact Hs end.
    + simpl. intros x Hx. olewtk.
    + simpl. intros x Hx. olewtk.
    + simpl. intros x Hx. apply Hloop.
      match goal with Hc : ole (Some ?I) (ex_cnt ?eb) |- _ =>
        rewrite Hx in Hc; destruct Hc as [I' [E Hs]]; inversion E; subst; exact Hs end.
  - (* loopk *) exists a. split; [|exact Hh]. assumption.
  - (* break *) exists a. split; [|exact Hh]. olewtk.
  - (* continue *) exists a. split; [|exact Hh]. olewtk.
  - (* return *) exists a. split; [|exact Hh]. olewtk.
  - (* iret *) exists a. split; [|exact Hh]. assumption.
  - (* lock *) exists (add m (fst a), snd a). split; [olewtk|].
    destruct Hh as [H1 H2]. split; simpl; auto. intros x Hx. apply In_add in Hx. destruct Hx; auto.
  - (* unlock *) exists (remove m (fst a), snd a). split; [olewtk|].
    destruct Hh as [H1 H2]. split; simpl; auto. intros x Hx. apply In_remove in Hx. destruct Hx; auto.
  - (* wait *) exists (remove m (fst a), snd a). split.
    + eapply wtk_stmt with (e := e); eauto. apply wt_lock. simpl. assumption.
    + destruct Hh as [H1 H2]. split; simpl; auto. intros x Hx. apply In_remove in Hx. destruct Hx; auto.
  - (* rd *) exists a. split; [|exact Hh]. olewtk.
  - (* wr *) exists a. split; [|exact Hh]. olewtk.
  - (* call_int: internal *) exists a. split; [|exact Hh].
    match goal with A : lookup p f = Some (Some b), B : lookup p f = Some (Some ?b') |- _ =>
      rewrite A in B; inversion B; subst; clear B end.
    eapply wtk_stmt with (e := eb); eauto; simpl.
    + intros x Hx. apply wtk_iret. olewtk.
    + intros x Hx. olewtk.
    + intros x Hx. apply wtk_iret. olewtk.
    + intros x Hx. apply wtk_iret. olewtk.
  - (* call_int vs ext rule *) congruence.
  - (* call_ext vs int rule *) congruence.
  - (* call_ext *) exists a. split; [|exact Hh]. olewtk.
  - (* callany *) exists a. split; [|exact Hh]. eapply wtk_stmt with (e := e); eauto.
  - (* create *) exists (fst a, true). split; [olewtk|].
    destruct Hh as [H1 H2]. split; simpl; auto.
  - (* join *) exists (fst a, if l then false else snd a). split; [olewtk|].
    destruct Hh as [H1 H2]. split; simpl; auto. destruct l; auto.
Qed.

Lemma wtk_access a k w v st :
  wtk a k -> (match k with IS (Rd v' s') :: _ => Some (false, v', s') | IS (Wr v' s') :: _ => Some (true, v', s') | _ => None end) = Some (w, v, st) ->
  covered v w a.
Proof.
  intros Hk E. destruct k as [|[s| |s] k]; try discriminate.
  destruct s; try discriminate; inversion E; subst; inversion Hk; subst;
    match goal with Hw : wt _ _ _ |- _ => inversion Hw; subst; assumption end.
Qed.
End Judgment.

(* wt / wtk are monotone in the fact set *)
Lemma covered_incl F F' sp v w a : incl F F' -> covered F sp v w a -> covered F' sp v w a.
Proof. intros Hi [f [Hin R]]. exists f. split; auto. Qed.

Lemma wt_incl F F' p ismain sp a s e : incl F F' -> wt F p ismain sp a s e -> wt F' p ismain sp a s e.
Proof.
  intros Hi H. induction H; try (econstructor; eauto; fail).
  - apply wt_rd; auto. eapply covered_incl; eauto.
  - apply wt_wr; auto. eapply covered_incl; eauto.
Qed.

(* ------------------------------------------------------------------ *)
(* the algorithm constructs derivations                                *)

Lemma lockset_eqb_eq a b : lockset_eqb a b = true -> a = b.
Proof.
  revert b. induction a as [|x a IH]; destruct b as [|y b]; simpl; try discriminate; auto.
  intros H. apply andb_true_iff in H. destruct H as [H1 H2]. apply Pos.eqb_eq in H1. subst. f_equal. auto.
Qed.

Lemma add_fact_incl f acc : incl acc (add_fact f acc).
Proof. unfold add_fact. destruct (existsb (fact_same f) acc); [apply incl_refl | apply incl_tl, incl_refl]. Qed.

Lemma add_fact_has f acc :
  exists g, In g (add_fact f acc) /\ f_spec g = f_spec f /\ f_var g = f_var f /\ f_write g = f_write f /\
            f_locks g = f_locks f /\ f_conc g = f_conc f.
Proof.
  unfold add_fact. destruct (existsb (fact_same f) acc) eqn:E.
  - apply existsb_exists in E. destruct E as [g [Hin Hs]]. exists g. split; auto.
    unfold fact_same in Hs. repeat (apply andb_true_iff in Hs; destruct Hs as [Hs ?]).
    apply Nat.eqb_eq in Hs. apply Pos.eqb_eq in H2. apply eqb_prop in H1. apply eqb_prop in H0.
    apply lockset_eqb_eq in H. repeat split; congruence.
  - exists f. split; [left; reflexivity | repeat split].
Qed.

Section FlowSound.
Variable p : program.
Variable ismain : bool.
Variable sp : nat.

Definition res_sound (s : stmt) (a : astate) (acc : list fact) (r : res) : Prop :=
  forall e acc', r = Some (e, acc') ->
    incl acc acc' /\ forall F, incl acc' F -> wt F p ismain sp a s e.

Section StmtSound.
Variable callf : stmt -> astate -> list fact -> res.
Hypothesis callf_sound : forall b a acc, res_sound b a acc (callf b a acc).

Lemma flow_call_sound f a acc : res_sound (Call f) a acc (flow_call p callf f a acc).
Proof.
  unfold res_sound, flow_call. intros e acc' H.
  destruct (lookup p f) as [[b|]|] eqn:L.
  - destruct (callf b a acc) as [[eb acc1]|] eqn:C; [|discriminate].
    inversion H; subst; clear H. destruct (callf_sound b a acc eb acc' C) as [Hi Hw].
    split; auto. intros F HF. eapply wt_call_int; eauto; simpl.
    + eapply ole_trans; [apply ole_meet_l | apply ole_meet_l].
    + eapply ole_trans; [apply ole_meet_l | apply ole_meet_r].
    + eapply ole_trans; [apply ole_meet_r | apply ole_meet_l].
    + eapply ole_trans; [apply ole_meet_r | apply ole_meet_r].
  - discriminate.
  - inversion H; subst. split; [apply incl_refl|]. intros F HF. apply wt_call_ext; auto. apply ole_refl_eq; reflexivity.
Qed.

Lemma flow_calls_sound fs : forall a e0 acc e acc',
  flow_calls p callf fs a e0 acc = Some (e, acc') ->
  incl acc acc' /\ ole4 e e0 /\ forall F, incl acc' F -> forall f, In f fs -> wt F p ismain sp a (Call f) e.
Proof.
  induction fs as [|f fs IH]; simpl; intros a e0 acc e acc' H.
  - inversion H; subst. split; [apply incl_refl|]. split; [apply ole4_refl|]. intros F _ f [].
  - destruct (flow_call p callf f a acc) as [[ef acc1]|] eqn:C; [|discriminate].
    destruct (flow_call_sound f a acc ef acc1 C) as [Hi1 Hw1].
    destruct (IH a (meet_exits e0 ef) acc1 e acc' H) as [Hi2 [Hle Hw2]].
    split; [eapply incl_tran; eauto|]. split.
    + eapply ole4_trans; [exact Hle | apply ole4_meet_l].
    + intros F HF g [->|Hg]; [|apply Hw2; auto].
      eapply wt_call_weaken; [apply Hw1; eapply incl_tran; eauto|].
      destruct Hle as [A _]. eapply ole_trans; [exact A | apply ole_meet_r].
Qed.

Lemma flow_stmt_sound s : forall a acc, res_sound s a acc (flow_stmt p ismain sp callf s a acc).
Proof.
  unfold res_sound.
  induction s; intros a acc e acc' H; simpl in H.
  - (* Skip *) inversion H; subst. split; [apply incl_refl|]. intros. apply wt_skip. apply ole_refl_eq; reflexivity.
  - (* Seq *)
    destruct (flow_stmt p ismain sp callf s1 a acc) as [[e1 acc1]|] eqn:E1; [|discriminate].
    destruct (IHs1 _ _ _ _ E1) as [Hi1 Hw1].
    destruct (ex_norm e1) as [a1|] eqn:N1.
    + destruct (flow_stmt p ismain sp callf s2 a1 acc1) as [[e2 acc2]|] eqn:E2; [|discriminate].
      destruct (IHs2 _ _ _ _ E2) as [Hi2 Hw2]. inversion H; subst; clear H.
      split; [eapply incl_tran; eauto|]. intros F HF.
      eapply wt_seq with (e1 := e1) (e2 := e2).
      * apply Hw1. eapply incl_tran; eauto.
      * intros x Hx. rewrite N1 in Hx. inversion Hx; subst. apply Hw2; auto.
      * intros x _. repeat split; simpl; try apply ole_refl; apply ole_meet_r.
      * simpl. apply ole_meet_l.
      * simpl. apply ole_meet_l.
      * simpl. apply ole_meet_l.
    + inversion H; subst; clear H. split; auto. intros F HF.
      eapply wt_seq with (e1 := e) (e2 := no_exits).
      * apply Hw1; auto.
      * intros x Hx. rewrite N1 in Hx. discriminate.
      * intros x Hx. rewrite N1 in Hx. discriminate.
      * apply ole_refl.
      * apply ole_refl.
      * apply ole_refl.
  - (* If *)
    destruct (flow_stmt p ismain sp callf s1 a acc) as [[e1 acc1]|] eqn:E1; [|discriminate].
    destruct (IHs1 _ _ _ _ E1) as [Hi1 Hw1].
    destruct (flow_stmt p ismain sp callf s2 a acc1) as [[e2 acc2]|] eqn:E2; [|discriminate].
    destruct (IHs2 _ _ _ _ E2) as [Hi2 Hw2]. inversion H; subst; clear H.
    split; [eapply incl_tran; eauto|]. intros F HF.
    eapply wt_if with (e1 := e1) (e2 := e2).
    + apply Hw1. eapply incl_tran; eauto.
    + apply Hw2; auto.
    + apply ole4_meet_l.
    + apply ole4_meet_r.
  - (* IfMain *)
    destruct ismain eqn:M.
    + destruct (IHs1 _ _ _ _ H) as [Hi Hw]. split; auto. intros F HF. apply wt_ifmain. apply Hw; auto.
    + destruct (IHs2 _ _ _ _ H) as [Hi Hw]. split; auto. intros F HF. apply wt_ifmain. apply Hw; auto.
  - (* Loop *)
    match type of H with context [flow_stmt p ismain sp callf s ?I acc] => remember I as inv eqn:EI end.
    clear EI.
    destruct (flow_stmt p ismain sp callf s inv acc) as [[eb acc1]|] eqn:E1; [|discriminate].
    destruct (IHs _ _ _ _ E1) as [Hi Hw].
    destruct (le_state inv a && ole_b (Some inv) (ex_norm eb) && ole_b (Some inv) (ex_cnt eb)) eqn:C; [|discriminate].
    inversion H; subst; clear H.
    apply andb_true_iff in C. destruct C as [C C3]. apply andb_true_iff in C. destruct C as [C1 C2].
    apply le_state_spec in C1. apply ole_b_spec in C2. apply ole_b_spec in C3.
    split; auto. intros F HF. eapply wt_loop with (I := inv) (eb := eb); eauto; apply ole_refl_eq; reflexivity.
  - (* Break *) inversion H; subst. split; [apply incl_refl|]. intros. apply wt_break. apply ole_refl_eq; reflexivity.
  - (* Continue *) inversion H; subst. split; [apply incl_refl|]. intros. apply wt_continue. apply ole_refl_eq; reflexivity.
  - (* Return *) inversion H; subst. split; [apply incl_refl|]. intros. apply wt_return. apply ole_refl_eq; reflexivity.
  - (* NoReturn *) inversion H; subst. split; [apply incl_refl|]. intros. apply wt_noreturn.
  - (* Lock *) inversion H; subst. split; [apply incl_refl|]. intros. apply wt_lock. apply ole_refl_eq; reflexivity.
  - (* Unlock *) inversion H; subst. split; [apply incl_refl|]. intros. apply wt_unlock. apply ole_refl_eq; reflexivity.
  - (* Wait *) inversion H; subst. split; [apply incl_refl|]. intros. apply wt_wait. apply ole_refl_eq; reflexivity.
  - (* Rd *) inversion H; subst; clear H. split; [apply add_fact_incl|]. intros F HF.
    apply wt_rd; [|apply ole_refl_eq; reflexivity].
    destruct (add_fact_has (mkFact sp v false (fst a) (snd a) s) acc) as [g [Hin [A [B [C [D E]]]]]].
    exists g. simpl in *. repeat split; auto. intros x Hx. rewrite D in Hx. exact Hx. intros Hc. rewrite E. exact Hc.
  - (* Wr *) inversion H; subst; clear H. split; [apply add_fact_incl|]. intros F HF.
    apply wt_wr; [|apply ole_refl_eq; reflexivity].
    destruct (add_fact_has (mkFact sp v true (fst a) (snd a) s) acc) as [g [Hin [A [B [C [D E]]]]]].
    exists g. simpl in *. repeat split; auto. intros x Hx. rewrite D in Hx. exact Hx. intros Hc. rewrite E. exact Hc.
  - (* Call *) apply (flow_call_sound f a acc e acc' H).
  - (* CallAny *)
    destruct fs as [|f0 fs0]; [discriminate|].
    destruct (flow_calls_sound (f0 :: fs0) a no_exits acc e acc' H) as [Hi [_ Hw]].
    split; auto. intros F HF. apply wt_callany. intros f Hf. apply Hw; auto.
  - (* Create *) inversion H; subst. split; [apply incl_refl|]. intros. apply wt_create. apply ole_refl_eq; reflexivity.
  - (* Join *) inversion H; subst. split; [apply incl_refl|]. intros. apply wt_join. apply ole_refl_eq; reflexivity.
Qed.
End StmtSound.

Lemma flow_sound fuel : forall s a acc, res_sound s a acc (flow p ismain sp fuel s a acc).
Proof.
  induction fuel as [|n IH]; intros s a acc; simpl.
  - intros e acc' H. discriminate.
  - apply flow_stmt_sound. exact IH.
Qed.
End FlowSound.

(* ------------------------------------------------------------------ *)
(* all threads of a scenario                                           *)

Lemma collect_cons p i s rest acc :
  collect p i (s :: rest) acc =
  match flow p (sp_is_main s) i (S (S (List.length p))) (Call (sp_entry s)) ([], sp_start_conc s) acc with
  | None => None
  | Some (_, acc') => collect p (S i) rest acc'
  end.
Proof. reflexivity. Qed.

Lemma collect_sound p : forall rest i acc F,
  collect p i rest acc = Some F ->
  incl acc F /\
  forall j s, nth_error rest j = Some s ->
    exists e, wt F p (sp_is_main s) (i + j) ([], sp_start_conc s) (Call (sp_entry s)) e.
Proof.
  induction rest as [|s0 rest IH]; intros i acc F H.
  - simpl in H. inversion H; subst. split; [apply incl_refl|]. intros j s Hj. destruct j; discriminate.
  - rewrite collect_cons in H.
    destruct (flow p (sp_is_main s0) i (S (S (List.length p))) (Call (sp_entry s0)) ([], sp_start_conc s0) acc)
      as [[e acc1]|] eqn:E; [|discriminate].
    destruct (flow_sound p (sp_is_main s0) i _ _ _ _ e acc1 E) as [Hi Hw].
    destruct (IH (S i) acc1 F H) as [Hi2 Hrest].
    split; [eapply incl_tran; eauto|].
    intros j s Hj. destruct j as [|j]; simpl in Hj.
    + inversion Hj; subst. exists e. rewrite Nat.add_0_r. apply Hw. exact Hi2.
    + destruct (Hrest j s Hj) as [e' He']. exists e'. rewrite Nat.add_succ_r. exact He'.
Qed.

(* ------------------------------------------------------------------ *)
(* list update                                                         *)

Lemma nth_set_nth_eq {A} (l : list A) : forall i x t,
  nth_error l i = Some t -> nth_error (set_nth i x l) i = Some x.
Proof.
  induction l as [|y l IH]; intros [|i] x t H; simpl in *; try discriminate; auto.
  eapply IH; eauto.
Qed.

Lemma nth_set_nth_neq {A} (l : list A) : forall i j x,
  i <> j -> nth_error (set_nth i x l) j = nth_error l j.
Proof.
  induction l as [|y l IH]; intros [|i] [|j] x H; simpl in *; auto; try congruence.
Qed.

(* ------------------------------------------------------------------ *)
(* the invariant of the interleaving semantics                         *)

Section Global.
Variable p : program.
Variable cl : classes.
Variable specs : list spec.
Variable F : list fact.
Hypothesis Hpairs : pairs_ok cl specs F = true.
Hypothesis Hentry : forall i s, nth_error specs i = Some s ->
  exists e, wt F p (sp_is_main s) i ([], sp_start_conc s) (Call (sp_entry s)) e.

Definition inv (c : config) : Prop :=
  (forall i t, nth_error (threads c) i = Some t ->
     exists a, wtk F p (spec_main specs (th_spec t)) (th_spec t) a (th_cont t) /\
               holds a (fun m => owner c m = Some i) (th_conc t)) /\
  (forall i j ti tj, nth_error (threads c) i = Some ti -> nth_error (threads c) j = Some tj ->
     th_spec ti = th_spec tj -> spec_multi specs (th_spec ti) = false -> i = j).

Lemma inv_init c : initial specs c -> inv c.
Proof.
  intros [Hown [Hthr Huniq]]. split; [|exact Huniq].
  intros i t Hi. destruct (Hthr i t Hi) as [s [Hs [Hc Hconc]]].
  destruct (Hentry _ _ Hs) as [e He].
  exists ([], sp_start_conc s). split.
  - rewrite Hc. unfold spec_main. rewrite Hs.
    eapply wtk_stmt with (e := e); eauto; intros; apply wtk_nil.
  - split; simpl.
    + intros m [].
    + intros Ht. rewrite <- Hconc. exact Ht.
Qed.

Lemma own_after_self i act (o : mutex -> option nat) m :
  held_after act (fun x => o x = Some i) m -> owner_after i act o m = Some i.
Proof.
  destruct act; simpl; auto.
  - intros [->|H]; unfold upd.
    + rewrite Pos.eqb_refl. reflexivity.
    + destruct (Pos.eqb m m0); auto.
  - intros [Hne H]. destruct (o m0) as [j|]; auto. destruct (Nat.eqb j i); auto.
    unfold upd. destruct (Pos.eqb m m0) eqn:E; auto. apply Pos.eqb_eq in E. contradiction.
Qed.

Lemma own_after_other i j act (o : mutex -> option nat) m :
  i <> j -> enabled act o -> o m = Some j -> owner_after i act o m = Some j.
Proof.
  intros Hne Hen Hm. destruct act; simpl in *; auto.
  - unfold upd. destruct (Pos.eqb m m0) eqn:E; auto. apply Pos.eqb_eq in E. subst. congruence.
  - destruct (o m0) as [j'|] eqn:Eo; auto. destruct (Nat.eqb j' i) eqn:Ej; auto.
    unfold upd. destruct (Pos.eqb m m0) eqn:E; auto.
    apply Pos.eqb_eq in E. subst. apply Nat.eqb_eq in Ej. congruence.
Qed.

Lemma inv_step c c' : step p specs c c' -> inv c -> inv c'.
Proof.
  intros Hstep [Hthr Huniq]. destruct Hstep as [c i t act k' Hi Hts Hen].
  assert (Hsame : forall j tj', nth_error (set_nth i (mkThread (th_spec t) k' (conc_after act (th_conc t))) (threads c)) j = Some tj' ->
            exists tj, nth_error (threads c) j = Some tj /\ th_spec tj = th_spec tj' /\
                       (j <> i -> tj = tj') /\
                       (j = i -> tj' = mkThread (th_spec t) k' (conc_after act (th_conc t)))).
  { intros j tj' Hj. destruct (Nat.eq_dec i j) as [->|Hne].
    - rewrite (nth_set_nth_eq _ _ _ _ Hi) in Hj. inversion Hj; subst. exists t. repeat split; auto. congruence.
    - rewrite nth_set_nth_neq in Hj by exact Hne. exists tj'. repeat split; auto. congruence. }
  split; simpl.
  - intros j tj' Hj. destruct (Hsame j tj' Hj) as [tj [Hj0 [Hsp [Hneq Heq]]]].
    destruct (Nat.eq_dec j i) as [->|Hne].
    + rewrite (Heq eq_refl). simpl.
      rewrite Hi in Hj0. inversion Hj0; subst tj.
      destruct (Hthr i t Hi) as [a [Hk Hh]].
      destruct (tstep_preserves F p _ _ _ _ _ Hts a _ _ Hk Hh) as [a' [Hk' Hh']].
      exists a'. split; [exact Hk'|].
      destruct Hh' as [H1 H2]. split; [|exact H2].
      intros m Hm. apply own_after_self. apply H1. exact Hm.
    + rewrite <- (Hneq Hne).
      destruct (Hthr j tj Hj0) as [a [Hk Hh]]. exists a. split; [exact Hk|].
      destruct Hh as [H1 H2]. split; [|exact H2].
      intros m Hm. apply own_after_other; auto.
  - intros j1 j2 t1 t2 H1 H2 Hsp Hmulti.
    destruct (Hsame j1 t1 H1) as [u1 [Hu1 [Hs1 _]]].
    destruct (Hsame j2 t2 H2) as [u2 [Hu2 [Hs2 _]]].
    apply (Huniq j1 j2 u1 u2 Hu1 Hu2); congruence.
Qed.

Lemma inv_reachable c : reachable (par_sem p specs) c -> inv c.
Proof.
  induction 1.
  - apply inv_init. assumption.
  - eapply inv_step; eauto.
Qed.

Lemma pair_ok_cases f g :
  pair_ok cl specs f g = true -> f_var f = f_var g -> (f_write f || f_write g = true) ->
  cl_tracked cl (f_var f) = true ->
  common_lock f g = true \/
  (f_spec f = f_spec g /\ spec_multi specs (f_spec f) = false) \/
  fexempt cl specs f g = true.
Proof.
  unfold pair_ok. intros H Hv Hw Ht.
  rewrite Hv, Pos.eqb_refl in H. rewrite Hw in H. rewrite <- Hv in H. rewrite Ht in H.
  destruct (common_lock f g); auto.
  destruct (Nat.eqb (f_spec f) (f_spec g) && negb (spec_multi specs (f_spec f))) eqn:E; auto.
  apply andb_true_iff in E. destruct E as [E1 E2]. apply Nat.eqb_eq in E1. apply negb_true_iff in E2. auto.
Qed.

Lemma inv_no_race c : inv c -> ~ race cl specs c.
Proof.
  intros [Hthr Huniq] [i [j [ti [tj [wi [wj [v [si [sj [Hij [Hi [Hj [Ai [Aj [Hw [Htr Hnex]]]]]]]]]]]]]]]].
  destruct (Hthr i ti Hi) as [ai [Hki Hhi]]. destruct (Hthr j tj Hj) as [aj [Hkj Hhj]].
  unfold next_access in Ai, Aj.
  destruct (wtk_access F p _ _ ai (th_cont ti) wi v si Hki Ai) as [f [Hf [Hfs [Hfv [Hfw [Hfl Hfc]]]]]].
  destruct (wtk_access F p _ _ aj (th_cont tj) wj v sj Hkj Aj) as [g [Hg [Hgs [Hgv [Hgw [Hgl Hgc]]]]]].
  unfold pairs_ok in Hpairs. rewrite forallb_forall in Hpairs.
  specialize (Hpairs f Hf). rewrite forallb_forall in Hpairs. specialize (Hpairs g Hg).
  destruct (pair_ok_cases f g Hpairs) as [Hc | [[Hs Hm] | Hx]].
  - congruence.
  - rewrite Hfw, Hgw. exact Hw.
  - rewrite Hfv. exact Htr.
  - (* a common mutex: it has one owner *)
    unfold common_lock in Hc. apply existsb_exists in Hc. destruct Hc as [m [Hm1 Hm2]].
    apply mem_In in Hm2.
    destruct Hhi as [Hoi _]. destruct Hhj as [Hoj _].
    specialize (Hoi m (Hfl m Hm1)). specialize (Hoj m (Hgl m Hm2)). simpl in Hoi, Hoj.
    rewrite Hoi in Hoj. inversion Hoj. contradiction.
  - (* one single-instance class *)
    apply Hij. apply (Huniq i j ti tj Hi Hj); congruence.
  - (* ordered by creation/joining or the sig_atomic_t rule *)
    apply Hnex. unfold fexempt in Hx. unfold exempt.
    rewrite Hfs, Hgs, Hfv in Hx.
    apply orb_true_iff in Hx. destruct Hx as [Hx | Hx]; [apply orb_true_iff in Hx; destruct Hx as [Hx | Hx]|].
    + left. apply andb_true_iff in Hx. destruct Hx as [Hx1 Hx2]. split; [|exact Hx2].
      apply negb_true_iff in Hx1. destruct Hhi as [_ Hci].
      destruct (th_conc ti); auto. rewrite (Hfc (Hci eq_refl)) in Hx1. discriminate.
    + right. left. apply andb_true_iff in Hx. destruct Hx as [Hx1 Hx2]. split; [|exact Hx2].
      apply negb_true_iff in Hx1. destruct Hhj as [_ Hcj].
      destruct (th_conc tj); auto. rewrite (Hgc (Hcj eq_refl)) in Hx1. discriminate.
    + right. right. apply andb_true_iff in Hx. destruct Hx as [Hx1 Hx2]. split; [exact Hx1|].
      apply orb_true_iff in Hx2. destruct Hx2 as [Hx2 | Hx2]; apply andb_true_iff in Hx2; tauto.
Qed.
End Global.

(* ------------------------------------------------------------------ *)
(* main theorems                                                       *)

Theorem check_scenario_sound p cl specs :
  check_scenario p cl specs = true ->
  forall c, reachable (par_sem p specs) c -> ~ race cl specs c.
Proof.
  unfold check_scenario. intros H c Hr.
  destruct (collect p 0 specs []) as [F|] eqn:E; [|discriminate].
  destruct (collect_sound p specs 0 [] F E) as [_ Hent].
  eapply inv_no_race with (F := F) (p := p); eauto.
  eapply inv_reachable; eauto.
Qed.

Theorem lockset_sound_all p cl :
  check p cl = true ->
  forall name specs, In (name, specs) (cl_scenarios cl) ->
  forall c, reachable (par_sem p specs) c -> ~ race cl specs c.
Proof.
  unfold check. intros H name specs Hin. rewrite forallb_forall in H.
  apply (check_scenario_sound p cl specs (H _ Hin)).
Qed.

(* the two ingredients, stated separately *)

(* (a) the analysis under-approximates the held set along every execution: whenever a
   thread of a reachable configuration is about to access v, some recorded fact for its
   class and that variable lists only mutexes the thread owns *)
Theorem held_set_underapproximated p specs F :
  collect p 0 specs [] = Some F ->
  forall c, reachable (par_sem p specs) c ->
  forall i t w v st, nth_error (threads c) i = Some t -> next_access t = Some (w, v, st) ->
  exists f, In f F /\ f_spec f = th_spec t /\ f_var f = v /\ f_write f = w /\
            (forall m, In m (f_locks f) -> owner c m = Some i) /\
            (th_conc t = true -> f_conc f = true).
Proof.
  intros E c Hr i t w v st Hi Ha.
  destruct (collect_sound p specs 0 [] F E) as [_ Hent].
  assert (Hinv : inv p specs F c) by (eapply inv_reachable; eauto).
  destruct Hinv as [Hthr _]. destruct (Hthr i t Hi) as [a [Hk [Ho Hc]]].
  destruct (wtk_access F p _ _ a (th_cont t) w v st Hk Ha) as [f [Hf [Hfs [Hfv [Hfw [Hfl Hfc]]]]]].
  exists f. repeat split; auto.
Qed.

(* (b) mutual exclusion: the owner map gives every mutex at most one owner *)
Theorem mutex_one_owner (c : config) m i j : owner c m = Some i -> owner c m = Some j -> i = j.
Proof. congruence. Qed.
