(* C12 (heap part) - the ownership checker [own_check] (executable; soundness in
   OwnSound.v).

   Abstract state of a thread at a program point: the mutexes CERTAINLY held and, for
   every pointer variable, what is known about the object it points to:
     SOwn    NULL, or an object this thread holds (and no other SOwn variable points to it)
     SShr m  NULL, or an object published under mutex m
     SDead   nothing: handed over, freed, copied away, or different on two joining paths
   Rules (the discipline of the task statement):
     (a) Enq p q / Free p / Move _ p make p SDead; Access / Free / Enq of an SDead
         variable is rejected until p is assigned again (New, Deq, Null, Borrow, Move p _);
     (b) AccQ q (peek) needs the mutex of q;  (c) access to a published object (SShr m
         variable, AccShared m) needs m;  (d) Deq p q needs the mutex of q.
   Joins are pointwise (different -> SDead, mutexes intersected); loops are solved by
   iterating to a post-fixpoint which is then verified. *)
From LBZ Require Import Lock.OwnLang.

Inductive status := SOwn | SShr (m : mutex) | SDead.

Definition status_eqb (x y : status) : bool :=
  match x, y with
  | SOwn, SOwn => true
  | SShr m, SShr m' => Pos.eqb m m'
  | SDead, SDead => true
  | _, _ => false
  end.

Definition lockset := list mutex.
Definition smap := list (var * status).
Definition astate := (lockset * smap)%type.

(* ---- finite sets of mutexes as lists ---- *)
Definition mem (m : mutex) (l : lockset) : bool := existsb (Pos.eqb m) l.
Definition add (m : mutex) (l : lockset) : lockset := if mem m l then l else m :: l.
Definition remove (m : mutex) (l : lockset) : lockset := filter (fun x => negb (Pos.eqb x m)) l.
Definition inter (a b : lockset) : lockset := filter (fun x => mem x b) a.
Definition subset (a b : lockset) : bool := forallb (fun x => mem x b) a.

(* ---- variable maps: association lists, default SOwn (all variables start NULL) ---- *)
Fixpoint get (S : smap) (p : var) : status :=
  match S with
  | [] => SOwn
  | (p', s) :: S' => if Pos.eqb p' p then s else get S' p
  end.
Definition del (S : smap) (p : var) : smap := filter (fun x => negb (Pos.eqb (fst x) p)) S.
Definition set (S : smap) (p : var) (s : status) : smap := (p, s) :: del S p.

Definition status_meet (x y : status) : status := if status_eqb x y then x else SDead.
(* x at least as conservative as y *)
Definition status_le (x y : status) : bool :=
  match x with SDead => true | _ => status_eqb x y end.

Definition keys (S1 S2 : smap) : list var := map fst S1 ++ map fst S2.

Definition meet_smap (S1 S2 : smap) : smap :=
  fold_right (fun p acc => set acc p (status_meet (get S1 p) (get S2 p))) [] (keys S1 S2).

Definition le_smap (S1 S2 : smap) : bool :=
  forallb (fun p => status_le (get S1 p) (get S2 p)) (keys S1 S2).

Definition le_state (a b : astate) : bool := subset (fst a) (fst b) && le_smap (snd a) (snd b).
Definition meet_state (a b : astate) : astate := (inter (fst a) (fst b), meet_smap (snd a) (snd b)).

Record exits := mkExits {
  ex_norm : option astate; ex_ret : option astate; ex_brk : option astate; ex_cnt : option astate
}.

Definition meet_opt (x y : option astate) : option astate :=
  match x, y with
  | None, _ => y
  | _, None => x
  | Some a, Some b => Some (meet_state a b)
  end.

Definition ole_b (x y : option astate) : bool :=
  match y with
  | None => true
  | Some b => match x with Some a => le_state a b | None => false end
  end.

Definition no_exits : exits := mkExits None None None None.
Definition norm_only (a : astate) : exits := mkExits (Some a) None None None.
Definition meet_exits (e1 e2 : exits) : exits :=
  mkExits (meet_opt (ex_norm e1) (ex_norm e2)) (meet_opt (ex_ret e1) (ex_ret e2))
          (meet_opt (ex_brk e1) (ex_brk e2)) (meet_opt (ex_cnt e1) (ex_cnt e2)).

(* may the thread touch what p points to? *)
Definition acc_ok (a : astate) (p : var) : bool :=
  match get (snd a) p with
  | SOwn => true
  | SShr m => mem m (fst a)
  | SDead => false
  end.

Section Flow.
Variable ql : queue -> option mutex.

Definition q_held (a : astate) (q : queue) : bool :=
  match ql q with Some m => mem m (fst a) | None => false end.

(* the statements that are one step: new abstract state, None = rejected *)
Definition xfer (s : stmt) (a : astate) : option astate :=
  let (L, S) := a in
  match s with
  | Lock m => Some (add m L, S)
  | Unlock m => Some (remove m L, S)
  | New p => Some (L, set S p SOwn)
  | Null p => Some (L, set S p SOwn)
  | Deq p q => if q_held a q then Some (L, set S p SOwn) else None
  | Enq p q => match get S p with SOwn => Some (L, set S p SDead) | _ => None end
  | Free p _ => if acc_ok a p then Some (L, set S p SDead) else None
  | Access p _ => if acc_ok a p then Some a else None
  | Move p r => if Pos.eqb p r then Some a else Some (L, set (set S r SDead) p (get S r))
  | Share p m => match get S p with
                 | SOwn => Some (L, set S p (SShr m))
                 | SShr m' => if Pos.eqb m' m then Some a else None
                 | SDead => None
                 end
  | Borrow p m => Some (L, set S p (SShr m))
  | AccQ q _ => if q_held a q then Some a else None
  | AccShared m _ => if mem m L then Some a else None
  | _ => None
  end.

Definition atomic (s : stmt) : bool :=
  match s with
  | Lock _ | Unlock _ | New _ | Null _ | Deq _ _ | Enq _ _ | Free _ _ | Access _ _ | Move _ _
  | Share _ _ | Borrow _ _ | AccQ _ _ | AccShared _ _ => true
  | _ => false
  end.

Definition loop_bound : nat := 12.

Fixpoint flow (s : stmt) (a : astate) {struct s} : option exits :=
  match s with
  | Skip => Some (norm_only a)
  | Seq s1 s2 =>
      match flow s1 a with
      | None => None
      | Some e1 =>
          match ex_norm e1 with
          | None => Some e1
          | Some a1 =>
              match flow s2 a1 with
              | None => None
              | Some e2 =>
                  Some (mkExits (ex_norm e2) (meet_opt (ex_ret e1) (ex_ret e2))
                                (meet_opt (ex_brk e1) (ex_brk e2)) (meet_opt (ex_cnt e1) (ex_cnt e2)))
              end
          end
      end
  | If s1 s2 =>
      match flow s1 a with
      | None => None
      | Some e1 => match flow s2 a with
                   | None => None
                   | Some e2 => Some (meet_exits e1 e2)
                   end
      end
  | Loop s1 =>
      let inv :=
        (fix iter (n : nat) (I : astate) {struct n} : astate :=
           match n with
           | O => I
           | S n' => match flow s1 I with
                     | None => I
                     | Some eb =>
                         let I' := match meet_opt (Some I) (meet_opt (ex_norm eb) (ex_cnt eb)) with
                                   | Some x => x | None => I end in
                         if le_state I I' then I else iter n' I'
                     end
           end) loop_bound a in
      match flow s1 inv with
      | None => None
      | Some eb =>
          if le_state inv a && ole_b (Some inv) (ex_norm eb) && ole_b (Some inv) (ex_cnt eb)
          then Some (mkExits (ex_brk eb) (ex_ret eb) None None)
          else None
      end
  | Scope s1 =>
      match flow s1 a with
      | None => None
      | Some eb =>
          Some (mkExits (meet_opt (meet_opt (ex_norm eb) (ex_ret eb)) (meet_opt (ex_brk eb) (ex_cnt eb)))
                        None None None)
      end
  | Break => Some (mkExits None None (Some a) None)
  | Continue => Some (mkExits None None None (Some a))
  | Return => Some (mkExits None (Some a) None None)
  | NoReturn => Some no_exits
  | Wait m => Some (norm_only (add m (remove m (fst a)), snd a))
  | _ => match xfer s a with Some a' => Some (norm_only a') | None => None end
  end.
End Flow.

Definition init_state : astate := ([], []).

Definition check_thread (p : program) (body : stmt) : bool :=
  match flow (qlock p) body init_state with Some _ => true | None => false end.

Definition own_check (p : program) : bool :=
  forallb (fun t => check_thread p (snd t)) (pr_threads p).

(* all scenarios of a generated file *)
Definition own_check_all (scs : list (string * program)) : bool :=
  forallb (fun sc => own_check (snd sc)) scs.
