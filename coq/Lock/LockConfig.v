(* C12 - which variables the lockset theorem speaks about (hand-written policy over the
   regenerated tables of Gen/LockProg.v). *)
From LBZ Require Import Lock.LockLang Lock.Lockset Gen.LockProg.
Local Open Scope string_scope.

Fixpoint assoc {A} (l : list (positive * A)) (k : positive) : option A :=
  match l with [] => None | (k', x) :: l' => if Pos.eqb k' k then Some x else assoc l' k end.

Definition var_name (v : var) : string := match assoc var_names v with Some s => s | None => "?" end.

(* Globals that are NOT protected by a mutex but by an ownership token; they are
   excluded from the lockset theorem and listed in the evidence as relying on the
   ownership invariant (see Lock/Ownership.v):
   - expand.c:par  (struct parser_state): handed to parse() by the one task that holds
     parse_token (taken and returned under sched_mutex). *)
Definition owned_prefixes : list string := ["expand.c:par."].

(* Heap classes (objects reached through pointers) whose every access must be made
   under a common mutex, checked like globals.  All other heap classes are objects
   owned by one task at a time and are only classified (partial, see Ownership.v). *)
Definition heap_locked : list string := [
  (* slots of the scheduler queues (arrays reached through q.root) *)
  "heap:struct_in_blk_*"; "heap:struct_work_blk_*"; "heap:struct_retr_blk_*"; "heap:struct_emit_blk_*";
  "heap:struct_out_blk_*"; "heap:struct_unord_blk_*"; "heap:struct_detached_bitstream_*";
  "heap:struct_position_*"; "heap:expand.c:head_blk";
  (* slots of the output queue (sink_mutex) *)
  "heap:process.c:block";
  (* unord blocks are shared between the scanner's retrieve job and the parser *)
  "heap:expand.c:unord_blk"; "heap:expand.c:unord_blk.base"; "heap:expand.c:unord_blk.complete";
  "heap:expand.c:unord_blk.legitimate"; "heap:expand.c:unord_blk.end_pos";
  "heap:expand.c:retr_blk.unord_link"; "heap:expand.c:retr_blk.curr_pos"
].

Definition tracked_name (info : var_info) (n : string) : bool :=
  if vi_heap info then existsb (String.eqb n) heap_locked
  else negb (existsb (fun pre => prefix pre n) owned_prefixes).

Definition tracked_list : list var :=
  Eval vm_compute in
    map fst (filter (fun x => tracked_name (snd x) (var_name (fst x))) var_table).

Definition sigatomic_list : list var :=
  Eval vm_compute in map fst (filter (fun x => vi_sigatomic (snd x)) var_table).

Definition classes : classes :=
  mkClasses scenarios (fun v => existsb (Pos.eqb v) tracked_list) (fun v => existsb (Pos.eqb v) sigatomic_list).
