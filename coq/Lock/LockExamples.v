(* C12 - non-vacuity: a two-thread program with an unprotected counter has a reachable
   race and is rejected; with the lock around the access it is accepted. *)
From LBZ Require Import Lock.LockLang Lock.Lockset Lock.LocksetSound.
Local Open Scope positive_scope.

Definition ex_specs : list spec :=
  [mkSpec "worker" 1 true false None true false].
Definition ex_classes : classes :=
  mkClasses [("demo"%string, ex_specs)] (fun _ => true) (fun _ => false).

Definition racy : program := [(1, Some (Seq (Rd 7 1) (Wr 7 2)))].
Definition locked : program := [(1, Some (Seq (Lock 3) (Seq (Rd 7 1) (Seq (Wr 7 2) (Unlock 3)))))].

Definition two (k : cont) : config :=
  mkCfg [mkThread 0 k true; mkThread 0 k true] (fun _ => None).

Lemma racy_rejected : check racy ex_classes = false.
Proof. vm_compute. reflexivity. Qed.

Lemma locked_accepted : check locked ex_classes = true.
Proof. vm_compute. reflexivity. Qed.

Definition k_start : cont := [IS (Call 1)].
Definition k_body : cont := [IS (Seq (Rd 7 1) (Wr 7 2)); IRet].
Definition k_rd : cont := [IS (Rd 7 1); IS (Wr 7 2); IRet].
Definition k_wr : cont := [IS (Wr 7 2); IRet].

Definition cfg2 (k0 k1 : cont) : config :=
  mkCfg [mkThread 0 k0 true; mkThread 0 k1 true] (fun _ => None).

Lemma step_at p specs c i t a k' c' :
  nth_error (threads c) i = Some t ->
  tstep p (spec_main specs (th_spec t)) (th_cont t) a k' ->
  enabled a (owner c) ->
  c' = mkCfg (set_nth i (mkThread (th_spec t) k' (conc_after a (th_conc t))) (threads c)) (owner_after i a (owner c)) ->
  step p specs c c'.
Proof. intros H1 H2 H3 ->. eapply step_thread; eauto. Qed.

Lemma racy_has_race :
  exists cfg, reachable (par_sem racy ex_specs) cfg /\ race ex_classes ex_specs cfg.
Proof.
  exists (cfg2 k_wr k_rd).
  split.
  - (* thread 0: call, seq, read; thread 1: call, seq *)
    assert (R0 : reachable (par_sem racy ex_specs) (cfg2 k_start k_start)).
    { apply reach_init. split; [reflexivity|]. split.
      - intros i t Hi. exists (mkSpec "worker" 1 true false None true false).
        destruct i as [|[|i]]; simpl in Hi; inversion Hi; subst; try (destruct i; discriminate); repeat split.
      - intros i j ti tj Hi Hj _ Hm. destruct i as [|[|i]]; simpl in Hi; inversion Hi; subst;
          try (destruct i; discriminate); discriminate. }
    assert (S1 : reachable (par_sem racy ex_specs) (cfg2 k_body k_start)).
    { eapply reach_step; [exact R0|].
      eapply step_at with (i := 0%nat) (a := ATau); [reflexivity | apply ts_call_int; reflexivity | exact I | reflexivity]. }
    assert (S2 : reachable (par_sem racy ex_specs) (cfg2 k_rd k_start)).
    { eapply reach_step; [exact S1|].
      eapply step_at with (i := 0%nat) (a := ATau); [reflexivity | apply ts_seq | exact I | reflexivity]. }
    assert (S3 : reachable (par_sem racy ex_specs) (cfg2 k_wr k_start)).
    { eapply reach_step; [exact S2|].
      eapply step_at with (i := 0%nat) (a := AAcc false 7 1); [reflexivity | apply ts_rd | exact I | reflexivity]. }
    assert (S4 : reachable (par_sem racy ex_specs) (cfg2 k_wr k_body)).
    { eapply reach_step; [exact S3|].
      eapply step_at with (i := 1%nat) (a := ATau); [reflexivity | apply ts_call_int; reflexivity | exact I | reflexivity]. }
    eapply reach_step; [exact S4|].
    eapply step_at with (i := 1%nat) (a := ATau); [reflexivity | apply ts_seq | exact I | reflexivity].
  - exists 0%nat, 1%nat, (mkThread 0 k_wr true), (mkThread 0 k_rd true), true, false, 7, 2, 1.
    repeat split; try reflexivity; try discriminate.
    intros [[H _] | [[H _] | [H _]]]; discriminate.
Qed.

(* the accepted variant is race free in every reachable configuration *)
Lemma locked_race_free :
  forall cfg, reachable (par_sem locked ex_specs) cfg -> ~ race ex_classes ex_specs cfg.
Proof. exact (lockset_sound_all locked ex_classes locked_accepted "demo"%string ex_specs (or_introl eq_refl)). Qed.
