(* C12 - heap objects (partial).  Blocks, decoder states and I/O buffers are not
   protected by a mutex while a task works on them; they are protected by ownership:
   an object is either linked into a scheduler queue (touched only under the scheduler
   lock) or held by the one task that dequeued / allocated it.  This file states that
   discipline on a small abstract model and proves that it excludes conflicting
   accesses.  That compress.c / expand.c FOLLOW the discipline is shown in
   OwnLang.v / OwnCheck.v / OwnSound.v on the regenerated hand-over skeleton
   (Gen/OwnProg.v); this one-mutex, one-queue model is an instance of the state used
   there (OwnExamples.ownership_model_instance). *)
From Coq Require Import List Arith Bool.
Import ListNotations.

Inductive ostate := Queued | Held (t : nat) | Freed.

Record state := mkState { lock : option nat; obj : nat -> ostate }.

Definition set_obj (s : state) (o : nat) (x : ostate) : state :=
  mkState (lock s) (fun o' => if Nat.eqb o' o then x else obj s o').

Inductive ev :=
| Acquire (t : nat) | Release (t : nat)
| Alloc (t o : nat)            (* fresh object, private to t *)
| Deq (t o : nat) | Enq (t o : nat) | Free (t o : nat)
| Access (t o : nat).

(* the discipline *)
Definition may_access (s : state) (t o : nat) : Prop :=
  obj s o = Held t \/ (lock s = Some t /\ obj s o = Queued).

Inductive ostep : state -> ev -> state -> Prop :=
| o_acq s t : lock s = None -> ostep s (Acquire t) (mkState (Some t) (obj s))
| o_rel s t : lock s = Some t -> ostep s (Release t) (mkState None (obj s))
| o_alloc s t o : obj s o = Freed -> ostep s (Alloc t o) (set_obj s o (Held t))
| o_deq s t o : lock s = Some t -> obj s o = Queued -> ostep s (Deq t o) (set_obj s o (Held t))
| o_enq s t o : lock s = Some t -> obj s o = Held t -> ostep s (Enq t o) (set_obj s o Queued)
| o_free s t o : may_access s t o -> ostep s (Free t o) (set_obj s o Freed)
| o_access s t o : may_access s t o -> ostep s (Access t o) s.

(* two threads are never both entitled to touch one object *)
Theorem ownership_exclusive s t u o : may_access s t o -> may_access s u o -> t = u.
Proof.
  intros [H1 | [H1 H2]] [H3 | [H3 H4]]; try congruence.
Qed.

Definition thread_of (e : ev) : nat :=
  match e with
  | Acquire t | Release t | Alloc t _ | Deq t _ | Enq t _ | Free t _ | Access t _ => t
  end.

(* an object held by t stays held by t whatever the other threads do *)
Theorem ownership_stable s e s' t o :
  ostep s e s' -> obj s o = Held t -> thread_of e <> t -> obj s' o = Held t.
Proof.
  intros Hs Ho Hne. destruct Hs; simpl in *; auto;
    destruct (Nat.eqb o o0) eqn:E; auto; apply Nat.eqb_eq in E; subst; try congruence.
  destruct H as [H | [_ H]]; congruence.
Qed.
