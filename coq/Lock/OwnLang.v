(* C12 (heap part) - syntax of the HAND-OVER SKELETON that lib/gen_own.py transcribes
   from process.c, compress.c, expand.c (Gen/OwnProg.v), and its interleaving semantics
   with an explicit heap-ownership state.

   A thread body is the inlined code of one thread entry function.  Its events speak
   about local pointer variables [p] (renamed apart by the translator):
     New p        p = malloc(..)                      fresh object, owned by the thread
     Deq p q      p = dequeue(q) / shift(q) / `p = G; G = NULL`
     Enq p q      enqueue(q,p) / push / unshift / `G = p`
     Free p       free(p)
     Access p     any read or write through p
     Move p r     p = r   (pointer copy)
     Null p       p = NULL
     Share p m    publish p as an object that is reachable from several places and is only
                  touched under mutex m (unord blocks, the input blocks of expand.c)
     Borrow p m   p = <pointer to some published object of mutex m>
     AccQ q       access through peek(q) / dq_get(q,i) (no variable)
     AccShared m  access to a published object through a path (rb->unord_link->complete)
   Conditions are dropped (both branches possible); [Loop] is an endless loop left by
   [Break]; [Scope] is an inlined function body ([Return] leaves it).

   Heap-ownership state: every object is free, held by exactly one thread, linked into
   exactly one queue, or published under one mutex.  What a statement DOES to that state
   never depends on the checker: [Enq]/[Free]/[Share] move an object only if the thread
   really holds it (a thread cannot give away what it does not have), every access is
   possible at any time - whether it is LEGITIMATE is the theorem (OwnSound.v). *)
From Coq Require Export List PArith Bool String Arith.
Export ListNotations.

Definition mutex := positive.
Definition var := positive.
Definition queue := positive.
Definition site := positive.
Definition obj := nat.

Inductive stmt : Type :=
| Skip | Seq (a b : stmt) | If (a b : stmt) | Loop (s : stmt) | Break | Continue
| Scope (s : stmt) | Return | NoReturn
| Lock (m : mutex) | Unlock (m : mutex) | Wait (m : mutex)
| New (p : var) | Deq (p : var) (q : queue) | Enq (p : var) (q : queue)
| Free (p : var) (st : site) | Access (p : var) (st : site)
| Move (p r : var) | Null (p : var)
| Share (p : var) (m : mutex) | Borrow (p : var) (m : mutex)
| AccQ (q : queue) (st : site) | AccShared (m : mutex) (st : site).

(* threads of one scenario: (name, several instances?, body); mutex protecting each queue *)
Record program := mkProgram {
  pr_threads : list (string * bool * stmt);
  pr_qlock : list (queue * mutex)
}.

Fixpoint assoc {A} (l : list (positive * A)) (k : positive) : option A :=
  match l with [] => None | (k', x) :: l' => if Pos.eqb k' k then Some x else assoc l' k end.

Definition qlock (p : program) (q : queue) : option mutex := assoc (pr_qlock p) q.

(* ---------------------------------------------------------------------- *)
(* continuations                                                           *)

Inductive item := IS (s : stmt) | IScope | ILoop (s : stmt).
Definition cont := list item.

Fixpoint unwind_ret (k : cont) : cont :=
  match k with [] => [] | IScope :: k' => k' | _ :: k' => unwind_ret k' end.
(* a break/continue outside any loop of the current function ends the function *)
Fixpoint unwind_break (k : cont) : cont :=
  match k with [] => [] | ILoop _ :: k' => k' | IScope :: k' => IScope :: k' | IS _ :: k' => unwind_break k' end.
Fixpoint unwind_cont (k : cont) : cont :=
  match k with [] => [] | ILoop s :: k' => ILoop s :: k' | IScope :: k' => IScope :: k' | IS _ :: k' => unwind_cont k' end.

(* ---------------------------------------------------------------------- *)
(* heap-ownership state                                                    *)

Inductive ostate := OFree | OHeld (t : nat) | OInQ (q : queue) | OShared (m : mutex).

Definition env := var -> option obj.
Definition heap_t := obj -> ostate.

Definition eupd (e : env) (p : var) (x : option obj) : env :=
  fun p' => if Pos.eqb p' p then x else e p'.
Definition hupd (h : heap_t) (o : obj) (x : ostate) : heap_t :=
  fun o' => if Nat.eqb o' o then x else h o'.

Definition held (h : heap_t) (i : nat) (o : obj) : bool :=
  match h o with OHeld j => Nat.eqb j i | _ => false end.

(* thread i gives the object its variable points to a new state - if it holds it *)
Definition give (h : heap_t) (i : nat) (x : option obj) (s : ostate) : heap_t :=
  match x with
  | Some o => if held h i o then hupd h o s else h
  | None => h
  end.

Inductive action := ATau | ALock (m : mutex) | AUnlock (m : mutex).

(* one step of thread i *)
Inductive lstep (i : nat) : cont -> env -> heap_t -> action -> cont -> env -> heap_t -> Prop :=
| ls_skip k e h : lstep i (IS Skip :: k) e h ATau k e h
| ls_seq a b k e h : lstep i (IS (Seq a b) :: k) e h ATau (IS a :: IS b :: k) e h
| ls_if1 a b k e h : lstep i (IS (If a b) :: k) e h ATau (IS a :: k) e h
| ls_if2 a b k e h : lstep i (IS (If a b) :: k) e h ATau (IS b :: k) e h
| ls_loop s k e h : lstep i (IS (Loop s) :: k) e h ATau (IS s :: ILoop s :: k) e h
| ls_loopk s k e h : lstep i (ILoop s :: k) e h ATau (IS (Loop s) :: k) e h
| ls_break k e h : lstep i (IS Break :: k) e h ATau (unwind_break k) e h
| ls_continue k e h : lstep i (IS Continue :: k) e h ATau (unwind_cont k) e h
| ls_scope s k e h : lstep i (IS (Scope s) :: k) e h ATau (IS s :: IScope :: k) e h
| ls_iscope k e h : lstep i (IScope :: k) e h ATau k e h
| ls_return k e h : lstep i (IS Return :: k) e h ATau (unwind_ret k) e h
(* NoReturn: no step *)
| ls_lock m k e h : lstep i (IS (Lock m) :: k) e h (ALock m) k e h
| ls_unlock m k e h : lstep i (IS (Unlock m) :: k) e h (AUnlock m) k e h
| ls_wait m k e h : lstep i (IS (Wait m) :: k) e h (AUnlock m) (IS (Lock m) :: k) e h
| ls_new p o k e h : h o = OFree ->
    lstep i (IS (New p) :: k) e h ATau k (eupd e p (Some o)) (hupd h o (OHeld i))
| ls_deq p q o k e h : h o = OInQ q ->
    lstep i (IS (Deq p q) :: k) e h ATau k (eupd e p (Some o)) (hupd h o (OHeld i))
| ls_deq_none p q k e h :                              (* the slot held NULL *)
    lstep i (IS (Deq p q) :: k) e h ATau k (eupd e p None) h
| ls_enq p q k e h : lstep i (IS (Enq p q) :: k) e h ATau k e (give h i (e p) (OInQ q))
| ls_free p st k e h : lstep i (IS (Free p st) :: k) e h ATau k e (give h i (e p) OFree)
| ls_access p st k e h : lstep i (IS (Access p st) :: k) e h ATau k e h
| ls_move p r k e h : lstep i (IS (Move p r) :: k) e h ATau k (eupd e p (e r)) h
| ls_null p k e h : lstep i (IS (Null p) :: k) e h ATau k (eupd e p None) h
| ls_share p m k e h : lstep i (IS (Share p m) :: k) e h ATau k e (give h i (e p) (OShared m))
| ls_borrow p m o k e h : h o = OShared m ->
    lstep i (IS (Borrow p m) :: k) e h ATau k (eupd e p (Some o)) h
| ls_borrow_none p m k e h : lstep i (IS (Borrow p m) :: k) e h ATau k (eupd e p None) h
| ls_accq q st k e h : lstep i (IS (AccQ q st) :: k) e h ATau k e h
| ls_accshared m st k e h : lstep i (IS (AccShared m st) :: k) e h ATau k e h.

(* ---------------------------------------------------------------------- *)
(* configurations                                                          *)

Record thread := mkThread { th_cont : cont; th_env : env }.
Record config := mkCfg { threads : list thread; owner : mutex -> option nat; heap : heap_t }.

Definition upd (o : mutex -> option nat) (m : mutex) (x : option nat) : mutex -> option nat :=
  fun m' => if Pos.eqb m' m then x else o m'.

Definition owner_after (i : nat) (a : action) (o : mutex -> option nat) : mutex -> option nat :=
  match a with
  | ALock m => upd o m (Some i)
  | AUnlock m => match o m with
                 | Some j => if Nat.eqb j i then upd o m None else o
                 | None => o
                 end
  | ATau => o
  end.

Definition enabled (a : action) (o : mutex -> option nat) : Prop :=
  match a with ALock m => o m = None | _ => True end.

Fixpoint set_nth {A} (i : nat) (x : A) (l : list A) : list A :=
  match l, i with
  | [], _ => []
  | _ :: l', O => x :: l'
  | y :: l', S i' => y :: set_nth i' x l'
  end.

Inductive step : config -> config -> Prop :=
| step_thread c i t a k' e' h' :
    nth_error (threads c) i = Some t ->
    lstep i (th_cont t) (th_env t) (heap c) a k' e' h' ->
    enabled a (owner c) ->
    step c (mkCfg (set_nth i (mkThread k' e') (threads c)) (owner_after i a (owner c)) h').

(* any number of threads, each running one of the thread bodies of the scenario from its
   start with all pointer variables NULL; no mutex held; no object allocated *)
Definition initial (p : program) (c : config) : Prop :=
  (forall m, owner c m = None) /\
  (forall o, heap c o = OFree) /\
  (forall i t, nth_error (threads c) i = Some t ->
     (forall x, th_env t x = None) /\
     exists n b body, In (n, b, body) (pr_threads p) /\ th_cont t = [IS body]).

Inductive reachable (p : program) : config -> Prop :=
| reach_init c : initial p c -> reachable p c
| reach_step c c' : reachable p c -> step c c' -> reachable p c'.

(* ---------------------------------------------------------------------- *)
(* accesses and who is entitled to them                                    *)

(* thread t (in heap h) is about to touch object o *)
Definition about_to_access (t : thread) (h : heap_t) (o : obj) : Prop :=
  match th_cont t with
  | IS (Access p _) :: _ => th_env t p = Some o
  | IS (Free p _) :: _ => th_env t p = Some o
  | IS (AccQ q _) :: _ => h o = OInQ q
  | IS (AccShared m _) :: _ => h o = OShared m
  | _ => False
  end.

(* the discipline (generalises Lock/Ownership.v [may_access] to several queues, several
   mutexes and published objects): the thread holds the object, or the object is linked
   into a queue / published and the thread owns the mutex that protects it *)
Definition may_access (p : program) (c : config) (i : nat) (o : obj) : Prop :=
  heap c o = OHeld i \/
  (exists q m, heap c o = OInQ q /\ qlock p q = Some m /\ owner c m = Some i) \/
  (exists m, heap c o = OShared m /\ owner c m = Some i).

(* two different threads about to touch one object *)
Definition heap_race (c : config) : Prop :=
  exists i j ti tj o, i <> j /\
    nth_error (threads c) i = Some ti /\ nth_error (threads c) j = Some tj /\
    about_to_access ti (heap c) o /\ about_to_access tj (heap c) o.
