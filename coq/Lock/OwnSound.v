(* C12 (heap part) - soundness of the ownership checker:  own_check p = true  implies
   that in every reachable configuration of the interleaving semantics of OwnLang.v every
   thread that is about to touch an object is entitled to it ([may_access]); entitlement
   is exclusive, so no two threads are ever about to touch the same object.

   Structure (the same as LocksetSound.v): (1) a declarative judgment [wt] with weakening
   built in, (2) [flow] constructs [wt] derivations, (3) [wtk] lifts it to continuations
   and is preserved by every step of the thread together with the concretisation [J] of
   the abstract variable map (SOwn variables point to objects the thread holds and are
   pairwise separate, SShr m variables to objects published under m), (4) steps of OTHER
   threads never change an object a thread holds or a published object, (5) a mutex has
   one owner and an object one state. *)
From Coq Require Import List PArith Bool Arith Lia.
From LBZ Require Import Lock.OwnLang Lock.OwnCheck.

(* ------------------------------------------------------------------ *)
(* sets of mutexes                                                     *)

Lemma mem_In m l : mem m l = true <-> In m l.
Proof.
  unfold mem. rewrite existsb_exists. split.
  - intros [x [Hin Heq]]. apply Pos.eqb_eq in Heq. subst. exact Hin.
  - intros Hin. exists m. split; [exact Hin | apply Pos.eqb_refl].
Qed.

Lemma In_add x m l : In x (add m l) <-> x = m \/ In x l.
Proof.
  unfold add. destruct (mem m l) eqn:E.
  - apply mem_In in E. split; [intros; right; assumption | intros [->|H]; assumption].
  - simpl. split; intros [H|H]; auto.
Qed.

Lemma In_remove x m l : In x (remove m l) <-> In x l /\ x <> m.
Proof.
  unfold remove. rewrite filter_In. split; intros [H1 H2]; split; auto.
  - intros ->. rewrite Pos.eqb_refl in H2. discriminate.
  - apply negb_true_iff. apply Pos.eqb_neq. exact H2.
Qed.

Lemma In_inter x a b : In x (inter a b) <-> In x a /\ In x b.
Proof. unfold inter. rewrite filter_In. rewrite mem_In. tauto. Qed.

Lemma subset_spec a b : subset a b = true <-> (forall x, In x a -> In x b).
Proof.
  unfold subset. rewrite forallb_forall. split; intros H x Hx.
  - apply mem_In. apply H. exact Hx.
  - apply mem_In. apply H. exact Hx.
Qed.

(* ------------------------------------------------------------------ *)
(* variable maps                                                       *)

Lemma status_eqb_eq x y : status_eqb x y = true <-> x = y.
Proof.
  destruct x, y; simpl; split; intros H; try discriminate; try reflexivity.
  - apply Pos.eqb_eq in H. subst. reflexivity.
  - inversion H. apply Pos.eqb_refl.
Qed.

Lemma get_del_eq S p : get (del S p) p = SOwn.
Proof.
  induction S as [|[x s] S IH]; simpl; auto.
  destruct (Pos.eqb x p) eqn:E; simpl; auto. rewrite E. exact IH.
Qed.

Lemma get_del_neq S p x : x <> p -> get (del S p) x = get S x.
Proof.
  intros Hne. induction S as [|[y s] S IH]; simpl; auto.
  destruct (Pos.eqb y p) eqn:E; simpl.
  - apply Pos.eqb_eq in E. subst y.
    destruct (Pos.eqb p x) eqn:E2; [apply Pos.eqb_eq in E2; congruence | exact IH].
  - destruct (Pos.eqb y x); auto.
Qed.

Lemma get_set_eq S p s : get (set S p s) p = s.
Proof. unfold set. simpl. rewrite Pos.eqb_refl. reflexivity. Qed.

Lemma get_set_neq S p s x : x <> p -> get (set S p s) x = get S x.
Proof.
  intros Hne. unfold set. simpl.
  destruct (Pos.eqb p x) eqn:E; [apply Pos.eqb_eq in E; congruence|].
  apply get_del_neq. exact Hne.
Qed.

Lemma get_set S p s x : get (set S p s) x = if Pos.eqb x p then s else get S x.
Proof.
  destruct (Pos.eqb x p) eqn:E.
  - apply Pos.eqb_eq in E. subst. apply get_set_eq.
  - apply Pos.eqb_neq in E. apply get_set_neq. exact E.
Qed.

Lemma get_notin S p : ~ In p (map fst S) -> get S p = SOwn.
Proof.
  induction S as [|[x s] S IH]; simpl; auto. intros H.
  destruct (Pos.eqb x p) eqn:E.
  - apply Pos.eqb_eq in E. subst. exfalso. apply H. left. reflexivity.
  - apply IH. intros Hin. apply H. right. exact Hin.
Qed.

Lemma get_fold_in (f : var -> status) l p :
  In p l -> get (fold_right (fun x acc => set acc x (f x)) [] l) p = f p.
Proof.
  induction l as [|x l IH]; [intros []|]. intros Hin. cbn [fold_right].
  rewrite get_set. destruct (Pos.eqb p x) eqn:E.
  - apply Pos.eqb_eq in E. subst. reflexivity.
  - apply Pos.eqb_neq in E. apply IH. destruct Hin as [->|H]; [congruence | exact H].
Qed.

Lemma get_fold_notin (f : var -> status) l p :
  ~ In p l -> get (fold_right (fun x acc => set acc x (f x)) [] l) p = SOwn.
Proof.
  induction l as [|x l IH]; [reflexivity|]. intros Hn. cbn [fold_right].
  rewrite get_set. destruct (Pos.eqb p x) eqn:E.
  - apply Pos.eqb_eq in E. subst. exfalso. apply Hn. left. reflexivity.
  - apply IH. intros H. apply Hn. right. exact H.
Qed.

Lemma get_meet S1 S2 p : get (meet_smap S1 S2) p = status_meet (get S1 p) (get S2 p).
Proof.
  unfold meet_smap.
  destruct (in_dec Pos.eq_dec p (keys S1 S2)) as [H|H].
  - apply get_fold_in. exact H.
  - rewrite get_fold_notin by exact H.
    unfold keys in H. rewrite in_app_iff in H.
    rewrite (get_notin S1 p), (get_notin S2 p); [reflexivity | tauto | tauto].
Qed.

(* x at least as conservative as y *)
Definition stle (x y : status) : Prop := x = SDead \/ x = y.

Lemma status_le_spec x y : status_le x y = true -> stle x y.
Proof.
  unfold status_le, stle. destruct x; auto; intros H; right; apply status_eqb_eq; exact H.
Qed.

Lemma stle_refl x : stle x x.
Proof. right. reflexivity. Qed.

Lemma stle_trans x y z : stle x y -> stle y z -> stle x z.
Proof. unfold stle. intros [H1|H1] [H2|H2]; subst; auto. Qed.

Lemma stle_meet_l x y : stle (status_meet x y) x.
Proof. unfold status_meet, stle. destruct (status_eqb x y); auto. Qed.

Lemma stle_meet_r x y : stle (status_meet x y) y.
Proof.
  unfold status_meet, stle. destruct (status_eqb x y) eqn:E; auto.
  apply status_eqb_eq in E. auto.
Qed.

(* ------------------------------------------------------------------ *)
(* order on abstract states                                            *)

Definition sle (a b : astate) : Prop :=
  (forall x, In x (fst a) -> In x (fst b)) /\ (forall p, stle (get (snd a) p) (get (snd b) p)).

Lemma le_state_spec a b : le_state a b = true -> sle a b.
Proof.
  unfold le_state, sle. intros H. apply andb_true_iff in H. destruct H as [H1 H2].
  split; [apply subset_spec; exact H1|].
  intros p. unfold le_smap in H2. rewrite forallb_forall in H2.
  destruct (in_dec Pos.eq_dec p (keys (snd a) (snd b))) as [Hin|Hn].
  - apply status_le_spec. apply H2. exact Hin.
  - unfold keys in Hn. rewrite in_app_iff in Hn.
    rewrite (get_notin (snd a) p), (get_notin (snd b) p); [apply stle_refl | tauto | tauto].
Qed.

Lemma sle_refl a : sle a a.
Proof. split; auto. intros p. apply stle_refl. Qed.

Lemma sle_trans a b c : sle a b -> sle b c -> sle a c.
Proof. intros [H1 H2] [H3 H4]. split; auto. intros p. eapply stle_trans; eauto. Qed.

Definition ole (x y : option astate) : Prop :=
  match y with
  | None => True
  | Some b => exists a, x = Some a /\ sle a b
  end.

Lemma ole_b_spec x y : ole_b x y = true -> ole x y.
Proof.
  unfold ole_b, ole. destruct y as [b|]; [|tauto].
  destruct x as [a|]; [|discriminate]. intros H. exists a. split; auto. apply le_state_spec. exact H.
Qed.

Lemma ole_refl x : ole x x.
Proof. destruct x as [a|]; simpl; auto. exists a. split; auto. apply sle_refl. Qed.

Lemma ole_refl_eq x y : x = y -> ole x y.
Proof. intros ->. apply ole_refl. Qed.

Lemma ole_trans x y z : ole x y -> ole y z -> ole x z.
Proof.
  unfold ole. destruct z as [c|]; auto. intros Hxy [b [-> Hbc]].
  destruct Hxy as [a [-> Hab]]. exists a. split; auto. eapply sle_trans; eauto.
Qed.

Lemma ole_some a b : sle a b -> ole (Some a) (Some b).
Proof. intros H. exists a. auto. Qed.

Lemma sle_meet_l a b : sle (meet_state a b) a.
Proof.
  unfold meet_state, sle. simpl. split.
  - intros x Hx. apply In_inter in Hx. tauto.
  - intros p. rewrite get_meet. apply stle_meet_l.
Qed.

Lemma sle_meet_r a b : sle (meet_state a b) b.
Proof.
  unfold meet_state, sle. simpl. split.
  - intros x Hx. apply In_inter in Hx. tauto.
  - intros p. rewrite get_meet. apply stle_meet_r.
Qed.

Lemma ole_meet_l x y : ole (meet_opt x y) x.
Proof.
  destruct x as [a|]; simpl; auto. destruct y as [b|]; simpl.
  - exists (meet_state a b). split; auto. apply sle_meet_l.
  - exists a. split; auto. apply sle_refl.
Qed.

Lemma ole_meet_r x y : ole (meet_opt x y) y.
Proof.
  destruct y as [b|]; simpl; auto. destruct x as [a|]; simpl.
  - exists (meet_state a b). split; auto. apply sle_meet_r.
  - exists b. split; auto. apply sle_refl.
Qed.

Definition ole4 (e e' : exits) : Prop :=
  ole (ex_norm e) (ex_norm e') /\ ole (ex_ret e) (ex_ret e') /\
  ole (ex_brk e) (ex_brk e') /\ ole (ex_cnt e) (ex_cnt e').

Lemma ole4_refl e : ole4 e e.
Proof. repeat split; apply ole_refl. Qed.

Lemma ole4_meet_l e1 e2 : ole4 (meet_exits e1 e2) e1.
Proof. repeat split; apply ole_meet_l. Qed.

Lemma ole4_meet_r e1 e2 : ole4 (meet_exits e1 e2) e2.
Proof. repeat split; apply ole_meet_r. Qed.

Lemma ole_pre x a a' : ole x (Some a) -> sle a a' -> ole x (Some a').
Proof. intros H1 H2. eapply ole_trans; [exact H1 | apply ole_some; exact H2]. Qed.

(* ------------------------------------------------------------------ *)
(* the one-step statements are monotone                                *)

Lemma sle_set L L' S S' p s s' :
  sle (L, S) (L', S') -> stle s s' -> sle (L, set S p s) (L', set S' p s').
Proof.
  intros [H1 H2] Hs. cbn [fst snd] in *. split; cbn [fst snd]; auto.
  intros x. rewrite !get_set. destruct (Pos.eqb x p); auto.
Qed.

Lemma stle_own x : stle SOwn x -> x = SOwn.
Proof. intros [H|H]; [discriminate | auto]. Qed.

Lemma stle_shr m x : stle (SShr m) x -> x = SShr m.
Proof. intros [H|H]; [discriminate | auto]. Qed.

Section Mono.
Variable ql : queue -> option mutex.

Lemma acc_ok_mono a a' p : sle a a' -> acc_ok a p = true -> acc_ok a' p = true.
Proof.
  intros [H1 H2] H. unfold acc_ok in *. specialize (H2 p).
  destruct (get (snd a) p) eqn:E.
  - apply stle_own in H2. rewrite H2. reflexivity.
  - apply stle_shr in H2. rewrite H2. apply mem_In. apply H1. apply mem_In. exact H.
  - discriminate.
Qed.

Lemma q_held_mono a a' q : sle a a' -> q_held ql a q = true -> q_held ql a' q = true.
Proof.
  intros [H1 _] H. unfold q_held in *. destruct (ql q); [|discriminate].
  apply mem_In. apply H1. apply mem_In. exact H.
Qed.

Lemma xfer_mono s a a' b :
  sle a a' -> xfer ql s a = Some b -> exists b', xfer ql s a' = Some b' /\ sle b b'.
Proof.
  intros Hle H. destruct a as [L S], a' as [L' S']. pose proof Hle as [HL HS]. simpl in HL, HS.
  destruct s; simpl in H; try discriminate.
  - (* Lock *) inversion H; subst. eexists. split; [reflexivity|]. split; simpl; auto.
    intros x Hx. apply In_add in Hx. apply In_add. intuition.
  - (* Unlock *) inversion H; subst. eexists. split; [reflexivity|]. split; simpl; auto.
    intros x Hx. apply In_remove in Hx. apply In_remove. intuition.
  - (* New *) inversion H; subst. eexists. split; [reflexivity|]. apply sle_set; auto. apply stle_refl.
  - (* Deq *) destruct (q_held ql (L, S) q) eqn:Q; [|discriminate]. inversion H; subst.
    simpl. rewrite (q_held_mono _ _ _ Hle Q). eexists. split; [reflexivity|]. apply sle_set; auto. apply stle_refl.
  - (* Enq *) destruct (get S p) eqn:G; try discriminate. inversion H; subst.
    pose proof (HS p) as Hp. rewrite G in Hp. apply stle_own in Hp. simpl. rewrite Hp.
    eexists. split; [reflexivity|]. apply sle_set; auto. apply stle_refl.
  - (* Free *) destruct (acc_ok (L, S) p) eqn:A; [|discriminate]. inversion H; subst.
    simpl. rewrite (acc_ok_mono _ _ _ Hle A). eexists. split; [reflexivity|]. apply sle_set; auto. apply stle_refl.
  - (* Access *) destruct (acc_ok (L, S) p) eqn:A; [|discriminate]. inversion H; subst.
    simpl. rewrite (acc_ok_mono _ _ _ Hle A). eexists. split; [reflexivity|]. exact Hle.
  - (* Move *) simpl. destruct (Pos.eqb p r).
    + inversion H; subst. eexists. split; [reflexivity|]. exact Hle.
    + inversion H; subst. eexists. split; [reflexivity|].
      apply sle_set; [apply sle_set; auto; apply stle_refl | apply HS].
  - (* Null *) inversion H; subst. eexists. split; [reflexivity|]. apply sle_set; auto. apply stle_refl.
  - (* Share *) simpl. pose proof (HS p) as Hp. destruct (get S p) eqn:G; try discriminate.
    + apply stle_own in Hp. rewrite Hp. inversion H; subst. eexists. split; [reflexivity|].
      apply sle_set; auto. apply stle_refl.
    + apply stle_shr in Hp. rewrite Hp. destruct (Pos.eqb m0 m); [|discriminate].
      inversion H; subst. eexists. split; [reflexivity|]. exact Hle.
  - (* Borrow *) inversion H; subst. eexists. split; [reflexivity|]. apply sle_set; auto. apply stle_refl.
  - (* AccQ *) destruct (q_held ql (L, S) q) eqn:Q; [|discriminate]. inversion H; subst.
    simpl. rewrite (q_held_mono _ _ _ Hle Q). eexists. split; [reflexivity|]. exact Hle.
  - (* AccShared *) destruct (mem m L) eqn:M; [|discriminate]. inversion H; subst.
    simpl. assert (M' : mem m L' = true) by (apply mem_In; apply HL; apply mem_In; exact M).
    rewrite M'. eexists. split; [reflexivity|]. exact Hle.
Qed.

(* ------------------------------------------------------------------ *)
(* the declarative judgment                                            *)

Inductive wt : astate -> stmt -> exits -> Prop :=
| wt_skip a e : ole (ex_norm e) (Some a) -> wt a Skip e
| wt_seq a s1 s2 e1 e2 e :
    wt a s1 e1 ->
    (forall a1, ex_norm e1 = Some a1 -> wt a1 s2 e2) ->
    (forall a1, ex_norm e1 = Some a1 -> ole4 e e2) ->
    ole (ex_ret e) (ex_ret e1) -> ole (ex_brk e) (ex_brk e1) -> ole (ex_cnt e) (ex_cnt e1) ->
    wt a (Seq s1 s2) e
| wt_if a s1 s2 e1 e2 e : wt a s1 e1 -> wt a s2 e2 -> ole4 e e1 -> ole4 e e2 -> wt a (If s1 s2) e
| wt_loop a I s eb e :
    sle I a -> wt I s eb -> ole (Some I) (ex_norm eb) -> ole (Some I) (ex_cnt eb) ->
    ole (ex_norm e) (ex_brk eb) -> ole (ex_ret e) (ex_ret eb) -> wt a (Loop s) e
| wt_break a e : ole (ex_brk e) (Some a) -> wt a Break e
| wt_continue a e : ole (ex_cnt e) (Some a) -> wt a Continue e
| wt_return a e : ole (ex_ret e) (Some a) -> wt a Return e
| wt_noreturn a e : wt a NoReturn e
| wt_scope a s eb e :
    wt a s eb ->
    ole (ex_norm e) (ex_norm eb) -> ole (ex_norm e) (ex_ret eb) ->
    ole (ex_norm e) (ex_brk eb) -> ole (ex_norm e) (ex_cnt eb) -> wt a (Scope s) e
| wt_wait a m e : ole (ex_norm e) (Some (add m (remove m (fst a)), snd a)) -> wt a (Wait m) e
| wt_atom a s a' e :
    atomic s = true -> xfer ql s a = Some a' -> ole (ex_norm e) (Some a') -> wt a s e.

Lemma wt_strengthen a s e : wt a s e -> forall a', sle a a' -> wt a' s e.
Proof.
  induction 1; intros a2 Hle.
  - apply wt_skip. eapply ole_pre; eauto.
  - eapply wt_seq; eauto.
  - eapply wt_if; eauto.
  - eapply wt_loop with (I := I) (eb := eb); auto. eapply sle_trans; eauto.
  - apply wt_break. eapply ole_pre; eauto.
  - apply wt_continue. eapply ole_pre; eauto.
  - apply wt_return. eapply ole_pre; eauto.
  - apply wt_noreturn.
  - eapply wt_scope; eauto.
  - apply wt_wait. eapply ole_pre; eauto. destruct Hle as [H1 H2]. split; simpl; auto.
    intros x Hx. apply In_add in Hx. apply In_add. destruct Hx as [->|Hx]; auto.
    right. apply In_remove in Hx. apply In_remove. intuition.
  - destruct (xfer_mono _ _ _ _ Hle H0) as [b' [Hx Hb]].
    eapply wt_atom; eauto. eapply ole_pre; eauto.
Qed.

(* ---------------- continuations ---------------- *)

Inductive wtk : astate -> cont -> Prop :=
| wtk_nil a : wtk a []
| wtk_stmt a s k e :
    wt a s e ->
    (forall x, ex_norm e = Some x -> wtk x k) ->
    (forall x, ex_ret e = Some x -> wtk x (unwind_ret k)) ->
    (forall x, ex_brk e = Some x -> wtk x (unwind_break k)) ->
    (forall x, ex_cnt e = Some x -> wtk x (unwind_cont k)) ->
    wtk a (IS s :: k)
| wtk_iscope a k : wtk a k -> wtk a (IScope :: k)
| wtk_iloop a s k : wtk a (IS (Loop s) :: k) -> wtk a (ILoop s :: k).

Lemma wtk_strengthen a k : wtk a k -> forall a', sle a a' -> wtk a' k.
Proof.
  induction 1; intros a' Hle.
  - apply wtk_nil.
  - eapply wtk_stmt; eauto. eapply wt_strengthen; eauto.
  - apply wtk_iscope. auto.
  - apply wtk_iloop. auto.
Qed.

Lemma ole_wtk x y k :
  ole x y -> (forall a, x = Some a -> wtk a k) -> forall b, y = Some b -> wtk b k.
Proof.
  intros Hle Hx b ->. destruct Hle as [a [-> Hab]]. eapply wtk_strengthen; [apply Hx; reflexivity | exact Hab].
Qed.

(* ------------------------------------------------------------------ *)
(* concretisation                                                      *)

Definition holds (L : lockset) (own : mutex -> option nat) (i : nat) : Prop :=
  forall m, In m L -> own m = Some i.

Record J (i : nat) (S : smap) (e : env) (h : heap_t) : Prop := mkJ {
  J_own : forall p o, get S p = SOwn -> e p = Some o -> h o = OHeld i;
  J_shr : forall p o m, get S p = SShr m -> e p = Some o -> h o = OShared m;
  J_sep : forall p p' o, p <> p' -> get S p = SOwn -> get S p' = SOwn ->
                         e p = Some o -> e p' = Some o -> False
}.

Lemma J_weaken i S S' e h : (forall p, stle (get S p) (get S' p)) -> J i S' e h -> J i S e h.
Proof.
  intros Hle [A B C]. split.
  - intros p o G. pose proof (Hle p) as Hp. rewrite G in Hp. apply stle_own in Hp. eauto.
  - intros p o m G. pose proof (Hle p) as Hp. rewrite G in Hp. apply stle_shr in Hp. eauto.
  - intros p p' o Hne G G'. pose proof (Hle p) as Hp. pose proof (Hle p') as Hp'.
    rewrite G in Hp. rewrite G' in Hp'. apply stle_own in Hp. apply stle_own in Hp'. eauto.
Qed.

Lemma holds_sub L L' own i : (forall x, In x L -> In x L') -> holds L' own i -> holds L own i.
Proof. intros H1 H2 m Hm. apply H2. apply H1. exact Hm. Qed.

Lemma eupd_eq e p x : eupd e p x p = x.
Proof. unfold eupd. rewrite Pos.eqb_refl. reflexivity. Qed.

Lemma eupd_neq e p x y : y <> p -> eupd e p x y = e y.
Proof. intros H. unfold eupd. destruct (Pos.eqb y p) eqn:E; auto. apply Pos.eqb_eq in E. congruence. Qed.

Lemma hupd_eq h o x : hupd h o x o = x.
Proof. unfold hupd. rewrite Nat.eqb_refl. reflexivity. Qed.

Lemma hupd_neq h o x o' : o' <> o -> hupd h o x o' = h o'.
Proof. intros H. unfold hupd. destruct (Nat.eqb o' o) eqn:E; auto. apply Nat.eqb_eq in E. congruence. Qed.

Lemma held_spec h i o : held h i o = true <-> h o = OHeld i.
Proof.
  unfold held. destruct (h o); split; intros H; try discriminate.
  - apply Nat.eqb_eq in H. subst. reflexivity.
  - inversion H. apply Nat.eqb_refl.
Qed.

(* a variable becomes a fresh binding to an object nobody's SOwn/SShr variable points to *)
Lemma J_bind_held i S e h p o :
  J i S e h -> (h o = OFree \/ exists q, h o = OInQ q) ->
  J i (set S p SOwn) (eupd e p (Some o)) (hupd h o (OHeld i)).
Proof.
  intros [A B C] Ho.
  assert (Hn1 : forall x, get S x = SOwn -> e x = Some o -> False).
  { intros x G E. specialize (A _ _ G E). destruct Ho as [Ho|[q Ho]]; congruence. }
  assert (Hn2 : forall x m, get S x = SShr m -> e x = Some o -> False).
  { intros x m G E. specialize (B _ _ _ G E). destruct Ho as [Ho|[q Ho]]; congruence. }
  split.
  - intros x o' G E. rewrite get_set in G. unfold eupd in E. destruct (Pos.eqb x p) eqn:Ex.
    + inversion E; subst. apply hupd_eq.
    + destruct (Nat.eq_dec o' o) as [->|Hne]; [exfalso; eauto|]. rewrite hupd_neq by exact Hne. eauto.
  - intros x o' m G E. rewrite get_set in G. unfold eupd in E. destruct (Pos.eqb x p) eqn:Ex; [discriminate|].
    destruct (Nat.eq_dec o' o) as [->|Hne]; [exfalso; eauto|]. rewrite hupd_neq by exact Hne. eauto.
  - intros x x' o' Hne G G' E E'. rewrite get_set in G, G'. unfold eupd in E, E'.
    destruct (Pos.eqb x p) eqn:Ex; destruct (Pos.eqb x' p) eqn:Ex'.
    + apply Pos.eqb_eq in Ex. apply Pos.eqb_eq in Ex'. congruence.
    + inversion E; subst. eauto.
    + inversion E'; subst. eauto.
    + eauto.
Qed.

Lemma J_bind_none i S e h p : J i S e h -> J i (set S p SOwn) (eupd e p None) h.
Proof.
  intros [A B C]. split.
  - intros x o G E. rewrite get_set in G. unfold eupd in E. destruct (Pos.eqb x p); [discriminate | eauto].
  - intros x o m G E. rewrite get_set in G. unfold eupd in E. destruct (Pos.eqb x p); [discriminate | eauto].
  - intros x x' o Hne G G' E E'. rewrite get_set in G, G'. unfold eupd in E, E'.
    destruct (Pos.eqb x p); [discriminate|]. destruct (Pos.eqb x' p); [discriminate|]. eauto.
Qed.

(* p (SOwn) gives its object away: p becomes [s'] (dead, or published) *)
Lemma J_give i S e h p st s' :
  J i S e h -> get S p = SOwn ->
  (forall o, e p = Some o -> s' = SDead \/ exists m, s' = SShr m /\ st = OShared m) ->
  (forall j, st <> OHeld j) ->
  J i (set S p s') e (give h i (e p) st).
Proof.
  intros [A B C] G Hs Hst. unfold give. destruct (e p) as [o|] eqn:E.
  - assert (Ho : h o = OHeld i) by eauto.
    assert (Hh : held h i o = true) by (apply held_spec; exact Ho). rewrite Hh.
    split.
    + intros x o' Gx Ex. rewrite get_set in Gx. destruct (Pos.eqb x p) eqn:Exp.
      * apply Pos.eqb_eq in Exp. subst x. rewrite E in Ex. inversion Ex; subst o'.
        destruct (Hs o eq_refl) as [->|[m [-> _]]]; discriminate.
      * apply Pos.eqb_neq in Exp. destruct (Nat.eq_dec o' o) as [->|Hne].
        -- exfalso. eapply (C x p o); eauto.
        -- rewrite hupd_neq by exact Hne. eauto.
    + intros x o' m Gx Ex. rewrite get_set in Gx. destruct (Pos.eqb x p) eqn:Exp.
      * apply Pos.eqb_eq in Exp. subst x. rewrite E in Ex. inversion Ex; subst o'.
        destruct (Hs o eq_refl) as [->|[m' [-> ->]]]; [discriminate|]. inversion Gx; subst. apply hupd_eq.
      * destruct (Nat.eq_dec o' o) as [->|Hne].
        -- specialize (B _ _ _ Gx Ex). congruence.
        -- rewrite hupd_neq by exact Hne. eauto.
    + intros x x' o' Hne Gx Gx' Ex Ex'. rewrite get_set in Gx, Gx'.
      destruct (Pos.eqb x p) eqn:Exp.
      * apply Pos.eqb_eq in Exp. subst x. rewrite E in Ex. inversion Ex; subst o'.
        destruct (Hs o eq_refl) as [->|[m' [-> _]]]; discriminate.
      * destruct (Pos.eqb x' p) eqn:Exp'.
        -- apply Pos.eqb_eq in Exp'. subst x'. rewrite E in Ex'. inversion Ex'; subst o'.
           destruct (Hs o eq_refl) as [->|[m' [-> _]]]; discriminate.
        -- eauto.
  - split.
    + intros x o Gx Ex. rewrite get_set in Gx. destruct (Pos.eqb x p) eqn:Exp; [|eauto].
      apply Pos.eqb_eq in Exp. subst x. congruence.
    + intros x o m Gx Ex. rewrite get_set in Gx. destruct (Pos.eqb x p) eqn:Exp; [|eauto].
      apply Pos.eqb_eq in Exp. subst x. congruence.
    + intros x x' o Hne Gx Gx' Ex Ex'. rewrite get_set in Gx, Gx'.
      destruct (Pos.eqb x p) eqn:Exp; [apply Pos.eqb_eq in Exp; subst x; congruence|].
      destruct (Pos.eqb x' p) eqn:Exp'; [apply Pos.eqb_eq in Exp'; subst x'; congruence|]. eauto.
Qed.

(* giving through a variable that points to a published object (or NULL) changes nothing *)
Lemma give_shr i S e h p m st : J i S e h -> get S p = SShr m -> give h i (e p) st = h.
Proof.
  intros [A B C] G. unfold give. destruct (e p) as [o|] eqn:E; auto.
  specialize (B _ _ _ G E). unfold held. rewrite B. reflexivity.
Qed.

Lemma J_kill i S e h p : J i S e h -> J i (set S p SDead) e h.
Proof.
  intros HJ. eapply J_weaken; [|exact HJ]. intros x. rewrite get_set.
  destruct (Pos.eqb x p); [left; reflexivity | apply stle_refl].
Qed.

Lemma own_after_self i act (o : mutex -> option nat) L m :
  holds L o i ->
  match act with
  | ALock m' => m = m' \/ In m L
  | AUnlock m' => m <> m' /\ In m L
  | ATau => In m L
  end -> owner_after i act o m = Some i.
Proof.
  intros Hh H. destruct act; simpl; auto.
  - unfold upd. destruct (Pos.eqb m m0) eqn:E; auto.
    destruct H as [->|H]; [rewrite Pos.eqb_refl in E; discriminate | auto].
  - destruct H as [Hne H]. destruct (o m0) as [j|]; auto. destruct (Nat.eqb j i); auto.
    unfold upd. destruct (Pos.eqb m m0) eqn:E; auto. apply Pos.eqb_eq in E. contradiction.
Qed.

(* the one-step statements preserve the concretisation *)
Lemma xfer_sound i s k e h act k' e' h' a a' own :
  atomic s = true ->
  lstep i (IS s :: k) e h act k' e' h' ->
  xfer ql s a = Some a' ->
  holds (fst a) own i -> J i (snd a) e h ->
  k' = k /\ holds (fst a') (owner_after i act own) i /\ J i (snd a') e' h'.
Proof.
  intros Hat Hstep Hx Hh HJ. destruct a as [L S]. simpl in Hh, HJ.
  inversion Hstep; subst; simpl in Hat; try discriminate; simpl in Hx.
  - (* Lock *) inversion Hx; subst. split; auto. split; auto. simpl.
    intros x Hin. apply In_add in Hin. apply (own_after_self i (ALock m) own L x Hh). simpl. tauto.
  - (* Unlock *) inversion Hx; subst. split; auto. split; auto. simpl.
    intros x Hin. apply In_remove in Hin. apply (own_after_self i (AUnlock m) own L x Hh). simpl. tauto.
  - (* New *) inversion Hx; subst. split; auto. split; auto. simpl. apply J_bind_held; auto.
  - (* Deq some *) destruct (q_held ql (L, S) q); [|discriminate]. inversion Hx; subst.
    split; auto. split; auto. simpl. apply J_bind_held; eauto.
  - (* Deq none *) destruct (q_held ql (L, S) q); [|discriminate]. inversion Hx; subst.
    split; auto. split; auto. simpl. apply J_bind_none; auto.
  - (* Enq *) destruct (get S p) eqn:G; try discriminate. inversion Hx; subst.
    split; auto. split; auto. simpl. apply J_give; auto; congruence.
  - (* Free *) destruct (acc_ok (L, S) p) eqn:A; [|discriminate]. inversion Hx; subst.
    split; auto. split; auto. simpl. unfold acc_ok in A. simpl in A.
    destruct (get S p) eqn:G; try discriminate.
    + apply J_give; auto; congruence.
    + rewrite (give_shr _ _ _ _ _ _ _ HJ G). apply J_kill. exact HJ.
  - (* Access *) destruct (acc_ok (L, S) p); [|discriminate]. inversion Hx; subst. auto.
  - (* Move *) split; auto. destruct (Pos.eqb p r) eqn:Epr.
    + inversion Hx; subst. apply Pos.eqb_eq in Epr. subst r. split; auto. simpl.
      destruct HJ as [A B C]. split.
      * intros x o G E. unfold eupd in E. destruct (Pos.eqb x p) eqn:Ex; eauto.
        apply Pos.eqb_eq in Ex. subst. eauto.
      * intros x o m G E. unfold eupd in E. destruct (Pos.eqb x p) eqn:Ex; eauto.
        apply Pos.eqb_eq in Ex. subst. eauto.
      * intros x x' o Hne G G' E E'. unfold eupd in E, E'.
        destruct (Pos.eqb x p) eqn:Ex; destruct (Pos.eqb x' p) eqn:Ex';
          try (apply Pos.eqb_eq in Ex; subst x); try (apply Pos.eqb_eq in Ex'; subst x'); eauto.
    + inversion Hx; subst. split; auto. simpl. apply Pos.eqb_neq in Epr.
      destruct HJ as [A B C]. split.
      * intros x o G E. rewrite !get_set in G. unfold eupd in E.
        destruct (Pos.eqb x p) eqn:Ex; [eauto|]. destruct (Pos.eqb x r) eqn:Exr; [discriminate | eauto].
      * intros x o m G E. rewrite !get_set in G. unfold eupd in E.
        destruct (Pos.eqb x p) eqn:Ex; [eauto|]. destruct (Pos.eqb x r) eqn:Exr; [discriminate | eauto].
      * intros x x' o Hne G G' E E'. rewrite !get_set in G, G'. unfold eupd in E, E'.
        destruct (Pos.eqb x p) eqn:Ex; destruct (Pos.eqb x' p) eqn:Ex'.
        -- apply Pos.eqb_eq in Ex. apply Pos.eqb_eq in Ex'. congruence.
        -- destruct (Pos.eqb x' r) eqn:Exr; [discriminate|]. apply Pos.eqb_neq in Exr.
           apply (C r x' o); auto.
        -- destruct (Pos.eqb x r) eqn:Exr; [discriminate|]. apply Pos.eqb_neq in Exr.
           apply (C x r o); auto.
        -- destruct (Pos.eqb x r); [discriminate|]. destruct (Pos.eqb x' r); [discriminate|]. eauto.
  - (* Null *) inversion Hx; subst. split; auto. split; auto. simpl. apply J_bind_none; auto.
  - (* Share *) split; auto. destruct (get S p) eqn:G; try discriminate.
    + inversion Hx; subst. split; auto. simpl. apply J_give; auto; [|congruence].
      intros o _. right. exists m. auto.
    + destruct (Pos.eqb m0 m); [|discriminate]. inversion Hx; subst. split; auto. simpl.
      rewrite (give_shr _ _ _ _ _ _ _ HJ G). exact HJ.
  - (* Borrow some *) inversion Hx; subst. split; auto. split; auto. simpl.
    destruct HJ as [A B C]. split.
    + intros x o' G E. rewrite get_set in G. unfold eupd in E. destruct (Pos.eqb x p); [discriminate | eauto].
    + intros x o' m' G E. rewrite get_set in G. unfold eupd in E. destruct (Pos.eqb x p) eqn:Ex; [|eauto].
      inversion G; subst. inversion E; subst. assumption.
    + intros x x' o' Hne G G' E E'. rewrite get_set in G, G'. unfold eupd in E, E'.
      destruct (Pos.eqb x p); [discriminate|]. destruct (Pos.eqb x' p); [discriminate|]. eauto.
  - (* Borrow none *) inversion Hx; subst. split; auto. split; auto. simpl.
    destruct HJ as [A B C]. split.
    + intros x o' G E. rewrite get_set in G. unfold eupd in E. destruct (Pos.eqb x p); [discriminate | eauto].
    + intros x o' m' G E. rewrite get_set in G. unfold eupd in E. destruct (Pos.eqb x p); [discriminate | eauto].
    + intros x x' o' Hne G G' E E'. rewrite get_set in G, G'. unfold eupd in E, E'.
      destruct (Pos.eqb x p); [discriminate|]. destruct (Pos.eqb x' p); [discriminate|]. eauto.
  - (* AccQ *) destruct (q_held ql (L, S) q); [|discriminate]. inversion Hx; subst. auto.
  - (* AccShared *) destruct (mem m L); [|discriminate]. inversion Hx; subst. auto.
Qed.

Lemma xfer_atom_case i s k e h act k' e' h' a a' e0 own :
  atomic s = true -> xfer ql s a = Some a' ->
  lstep i (IS s :: k) e h act k' e' h' ->
  ole (ex_norm e0) (Some a') ->
  (forall x, ex_norm e0 = Some x -> wtk x k) ->
  holds (fst a) own i -> J i (snd a) e h ->
  exists a2, wtk a2 k' /\ holds (fst a2) (owner_after i act own) i /\ J i (snd a2) e' h'.
Proof.
  intros Hat Hx Hstep Hle Hk Hh HJ.
  destruct (xfer_sound _ _ _ _ _ _ _ _ _ _ _ _ Hat Hstep Hx Hh HJ) as [-> [Hh' HJ']].
  destruct Hle as [a0 [E [H1 H2]]]. exists a0. split; [apply Hk; exact E|]. split.
  - eapply holds_sub; eauto.
  - eapply J_weaken; eauto.
Qed.

Ltac atomcase :=
  eapply xfer_atom_case;
  [ eassumption | eassumption | solve [econstructor; eauto] | eassumption | eassumption | eassumption | eassumption ].

Ltac olewtk :=
  match goal with
  | Hle : ole _ _ |- wtk _ _ =>
      solve [eapply (ole_wtk _ _ _ Hle); [eassumption | first [eassumption | reflexivity]]]
  end.

Ltac notatomic :=
  match goal with H : atomic _ = true |- _ => simpl in H; discriminate H end.

(* the simulation step *)
Lemma lstep_preserves i k e h act k' e' h' :
  lstep i k e h act k' e' h' ->
  forall a own, wtk a k -> holds (fst a) own i -> J i (snd a) e h ->
  exists a', wtk a' k' /\ holds (fst a') (owner_after i act own) i /\ J i (snd a') e' h'.
Proof.
  intros Hstep a own Hk Hh HJ.
  assert (Hctl : forall a0, wtk a0 k' -> act = ATau -> e' = e -> h' = h -> sle a0 a ->
                 exists a', wtk a' k' /\ holds (fst a') (owner_after i act own) i /\ J i (snd a') e' h').
  { intros a0 Hk0 -> -> -> Hle. exists a0. split; auto. destruct Hle as [H1 H2]. split.
    - simpl. eapply holds_sub; eauto.
    - eapply J_weaken; eauto. }
  destruct Hstep; inversion Hk; subst; clear Hk;
    try match goal with Hw : wt _ _ _ |- _ => inversion Hw; subst; clear Hw end;
    try notatomic.
  - (* skip *) apply (Hctl a); auto; [olewtk | apply sle_refl].
  - (* seq *) apply (Hctl a); auto; [|apply sle_refl].
    match goal with
    | Hw1 : wt ?xa0 ?xs1 ?xe1, Hw2 : (forall a1, ex_norm ?xe1 = Some a1 -> wt a1 ?xs2 ?xe2),
      Ho : (forall a1, ex_norm ?xe1 = Some a1 -> ole4 ?xe ?xe2),
      Hr : ole (ex_ret ?xe) (ex_ret ?xe1), Hb : ole (ex_brk ?xe) (ex_brk ?xe1), Hc : ole (ex_cnt ?xe) (ex_cnt ?xe1) |- _ =>
        eapply wtk_stmt with (e := xe1); [exact Hw1 | | | |]
    end.
    + intros x Hx.
      match goal with
      | Hw2 : (forall a1, ex_norm ?xe1 = Some a1 -> wt a1 ?xs2 ?xe2),
        Ho : (forall a1, ex_norm ?xe1 = Some a1 -> ole4 ?xe ?xe2) |- _ =>
          destruct (Ho x Hx) as [A [B [C D]]]; eapply wtk_stmt with (e := xe2); [exact (Hw2 x Hx) | | | |]
      end; intros y Hy; olewtk.
    + simpl. intros x Hx. olewtk.
    + simpl. intros x Hx. olewtk.
    + simpl. intros x Hx. olewtk.
  - (* if1 *) apply (Hctl a); auto; [|apply sle_refl].
    match goal with
    | Hw : wt _ ?xs ?xe1, Ho : ole4 _ ?xe1 |- wtk _ (IS ?xs :: _) =>
        destruct Ho as [A [B [C D]]]; eapply wtk_stmt with (e := xe1); [exact Hw | | | |]
    end; intros x Hx; olewtk.
  - (* if2 *) apply (Hctl a); auto; [|apply sle_refl].
    match goal with
    | Hw : wt _ ?xs ?xe1, Ho : ole4 _ ?xe1 |- wtk _ (IS ?xs :: _) =>
        destruct Ho as [A [B [C D]]]; eapply wtk_stmt with (e := xe1); [exact Hw | | | |]
    end; intros x Hx; olewtk.
  - (* loop *) apply (Hctl a); auto; [|apply sle_refl].
    match goal with
    | HI : sle ?xI a, Hb : wt ?xI s ?xeb, Hn : ole (Some ?xI) (ex_norm ?xeb), Hc : ole (Some ?xI) (ex_cnt ?xeb),
      Hx1 : ole (ex_norm ?xe) (ex_brk ?xeb), Hx2 : ole (ex_ret ?xe) (ex_ret ?xeb) |- _ =>
        assert (Hloop : forall x, sle xI x -> wtk x (ILoop s :: k));
        [ intros x Hs; apply wtk_iloop; eapply wtk_stmt with (e := xe); eauto;
          eapply wt_loop with (I := xI) (eb := xeb); eauto
        | eapply wtk_stmt with (e := xeb); [eapply wt_strengthen; eauto | | | |] ]
    end.
    + intros x Hx. apply Hloop.
      match goal with Hn : ole (Some ?xI) (ex_norm ?xeb) |- _ =>
        rewrite Hx in Hn; destruct Hn as [I' [E Hs]]; inversion E; subst; exact Hs end.
    + simpl. intros x Hx. olewtk.
    + simpl. intros x Hx. olewtk.
    + simpl. intros x Hx. apply Hloop.
      match goal with Hc : ole (Some ?xI) (ex_cnt ?xeb) |- _ =>
        rewrite Hx in Hc; destruct Hc as [I' [E Hs]]; inversion E; subst; exact Hs end.
  - (* loopk *) apply (Hctl a); auto; apply sle_refl.
  - (* break *) apply (Hctl a); auto; [olewtk | apply sle_refl].
  - (* continue *) apply (Hctl a); auto; [olewtk | apply sle_refl].
  - (* scope *) apply (Hctl a); auto; [|apply sle_refl].
    match goal with Hw : wt a s ?xeb |- _ => eapply wtk_stmt with (e := xeb); [exact Hw | | | |] end; simpl.
    + intros x Hx. apply wtk_iscope. olewtk.
    + intros x Hx. olewtk.
    + intros x Hx. apply wtk_iscope. olewtk.
    + intros x Hx. apply wtk_iscope. olewtk.
  - (* iscope *) apply (Hctl a); auto; apply sle_refl.
  - (* return *) apply (Hctl a); auto; [olewtk | apply sle_refl].
  - (* lock *) atomcase.
  - (* unlock *) atomcase.
  - (* wait *) exists (remove m (fst a), snd a). split; [|split].
    + eapply wtk_stmt with (e := e0); eauto. eapply wt_atom; [reflexivity | reflexivity | assumption].
    + simpl. intros x Hin. apply In_remove in Hin. apply (own_after_self i (AUnlock m) own (fst a) x Hh). simpl. tauto.
    + simpl. exact HJ.
  - atomcase.
  - atomcase.
  - atomcase.
  - atomcase.
  - atomcase.
  - atomcase.
  - atomcase.
  - atomcase.
  - atomcase.
  - atomcase.
  - atomcase.
  - atomcase.
  - atomcase.
Qed.
End Mono.

(* ------------------------------------------------------------------ *)
(* the algorithm constructs derivations                                *)

Section FlowSound.
Variable ql : queue -> option mutex.

Ltac atomsound H :=
  cbn [flow] in H;
  match type of H with
  | match xfer ?q ?s ?a with _ => _ end = _ =>
      let X := fresh "X" in
      destruct (xfer q s a) as [a'|] eqn:X; [|discriminate H];
      inversion H; subst; eapply wt_atom; [reflexivity | exact X | apply ole_refl]
  end.

Lemma flow_sound s : forall a e, flow ql s a = Some e -> wt ql a s e.
Proof.
  induction s; intros a e H.
  - (* Skip *) inversion H; subst. apply wt_skip. apply ole_refl.
  - (* Seq *) cbn [flow] in H.
    destruct (flow ql s1 a) as [e1|] eqn:E1; [|discriminate].
    pose proof (IHs1 _ _ E1) as Hw1.
    destruct (ex_norm e1) as [a1|] eqn:N1.
    + destruct (flow ql s2 a1) as [e2|] eqn:E2; [|discriminate].
      pose proof (IHs2 _ _ E2) as Hw2. inversion H; subst; clear H.
      eapply wt_seq with (e1 := e1) (e2 := e2).
      * exact Hw1.
      * intros x Hx. rewrite N1 in Hx. inversion Hx; subst. exact Hw2.
      * intros x _. repeat split; simpl; try apply ole_refl; apply ole_meet_r.
      * simpl. apply ole_meet_l.
      * simpl. apply ole_meet_l.
      * simpl. apply ole_meet_l.
    + inversion H; subst; clear H.
      eapply wt_seq with (e1 := e) (e2 := no_exits).
      * exact Hw1.
      * intros x Hx. rewrite N1 in Hx. discriminate.
      * intros x Hx. rewrite N1 in Hx. discriminate.
      * apply ole_refl.
      * apply ole_refl.
      * apply ole_refl.
  - (* If *) cbn [flow] in H.
    destruct (flow ql s1 a) as [e1|] eqn:E1; [|discriminate].
    destruct (flow ql s2 a) as [e2|] eqn:E2; [|discriminate].
    inversion H; subst; clear H.
    eapply wt_if with (e1 := e1) (e2 := e2); eauto; [apply ole4_meet_l | apply ole4_meet_r].
  - (* Loop *) cbn [flow] in H.
    match type of H with context [flow ql s ?I] => remember I as inv eqn:EI end.
    clear EI.
    destruct (flow ql s inv) as [eb|] eqn:E1; [|discriminate].
    pose proof (IHs _ _ E1) as Hw.
    destruct (le_state inv a && ole_b (Some inv) (ex_norm eb) && ole_b (Some inv) (ex_cnt eb)) eqn:C; [|discriminate].
    inversion H; subst; clear H.
    apply andb_true_iff in C. destruct C as [C C3]. apply andb_true_iff in C. destruct C as [C1 C2].
    apply le_state_spec in C1. apply ole_b_spec in C2. apply ole_b_spec in C3.
    eapply wt_loop with (I := inv) (eb := eb); eauto; apply ole_refl.
  - (* Break *) inversion H; subst. apply wt_break. apply ole_refl.
  - (* Continue *) inversion H; subst. apply wt_continue. apply ole_refl.
  - (* Scope *) cbn [flow] in H.
    destruct (flow ql s a) as [eb|] eqn:E1; [|discriminate].
    inversion H; subst; clear H.
    eapply wt_scope with (eb := eb); eauto; simpl.
    + eapply ole_trans; [apply ole_meet_l | apply ole_meet_l].
    + eapply ole_trans; [apply ole_meet_l | apply ole_meet_r].
    + eapply ole_trans; [apply ole_meet_r | apply ole_meet_l].
    + eapply ole_trans; [apply ole_meet_r | apply ole_meet_r].
  - (* Return *) inversion H; subst. apply wt_return. apply ole_refl.
  - (* NoReturn *) apply wt_noreturn.
  - (* Lock *) atomsound H.
  - (* Unlock *) atomsound H.
  - (* Wait *) inversion H; subst. apply wt_wait. apply ole_refl.
  - atomsound H.
  - atomsound H.
  - atomsound H.
  - atomsound H.
  - atomsound H.
  - atomsound H.
  - atomsound H.
  - atomsound H.
  - atomsound H.
  - atomsound H.
  - atomsound H.
Qed.
End FlowSound.

(* ------------------------------------------------------------------ *)
(* list update                                                         *)

Lemma nth_set_nth_eq {A} (l : list A) : forall i x t,
  nth_error l i = Some t -> nth_error (set_nth i x l) i = Some x.
Proof.
  induction l as [|y l IH]; intros [|i] x t H; simpl in *; try discriminate; auto.
  eapply IH; eauto.
Qed.

Lemma nth_set_nth_neq {A} (l : list A) : forall i j x,
  i <> j -> nth_error (set_nth i x l) j = nth_error l j.
Proof.
  induction l as [|y l IH]; intros [|i] [|j] x H; simpl in *; auto; try congruence.
Qed.

(* ------------------------------------------------------------------ *)
(* what a step of thread i can do to the heap and the mutexes          *)

Lemma give_frame h i x s o :
  give h i x s o = h o \/ h o = OHeld i.
Proof.
  unfold give. destruct x as [o'|]; auto. destruct (held h i o') eqn:Hh; auto.
  destruct (Nat.eq_dec o o') as [->|Hne].
  - right. apply held_spec. exact Hh.
  - left. apply hupd_neq. exact Hne.
Qed.

Lemma heap_frame i k e h act k' e' h' :
  lstep i k e h act k' e' h' ->
  forall o, h' o = h o \/ h o = OFree \/ (exists q, h o = OInQ q) \/ h o = OHeld i.
Proof.
  intros Hs o0. destruct Hs; auto.
  - destruct (Nat.eq_dec o0 o) as [->|Hne]; [auto | left; apply hupd_neq; exact Hne].
  - destruct (Nat.eq_dec o0 o) as [->|Hne]; [eauto | left; apply hupd_neq; exact Hne].
  - destruct (give_frame h i (e p) (OInQ q) o0); auto.
  - destruct (give_frame h i (e p) OFree o0); auto.
  - destruct (give_frame h i (e p) (OShared m) o0); auto.
Qed.

Lemma J_other i j S e h h' :
  i <> j ->
  (forall o, h' o = h o \/ h o = OFree \/ (exists q, h o = OInQ q) \/ h o = OHeld i) ->
  J j S e h -> J j S e h'.
Proof.
  intros Hne Hf [A B C]. split; auto.
  - intros p o G E. specialize (A _ _ G E).
    destruct (Hf o) as [H|[H|[[q H]|H]]]; congruence.
  - intros p o m G E. specialize (B _ _ _ G E).
    destruct (Hf o) as [H|[H|[[q H]|H]]]; congruence.
Qed.

Lemma own_after_other i j act (o : mutex -> option nat) m :
  i <> j -> enabled act o -> o m = Some j -> owner_after i act o m = Some j.
Proof.
  intros Hne Hen Hm. destruct act; simpl in *; auto.
  - unfold upd. destruct (Pos.eqb m m0) eqn:E; auto. apply Pos.eqb_eq in E. subst. congruence.
  - destruct (o m0) as [j'|] eqn:Eo; auto. destruct (Nat.eqb j' i) eqn:Ej; auto.
    unfold upd. destruct (Pos.eqb m m0) eqn:E; auto.
    apply Pos.eqb_eq in E. subst. apply Nat.eqb_eq in Ej. congruence.
Qed.

(* ------------------------------------------------------------------ *)
(* the invariant of the interleaving semantics                         *)

Section Global.
Variable p : program.
Hypothesis Hchk : own_check p = true.

Definition tinv (c : config) (i : nat) (t : thread) : Prop :=
  exists a, wtk (qlock p) a (th_cont t) /\ holds (fst a) (owner c) i /\
            J i (snd a) (th_env t) (heap c).

Definition inv (c : config) : Prop :=
  forall i t, nth_error (threads c) i = Some t -> tinv c i t.

Lemma inv_init c : initial p c -> inv c.
Proof.
  intros [Hown [Hheap Hthr]] i t Hi.
  destruct (Hthr i t Hi) as [Henv [n [b [body [Hin Hc]]]]].
  unfold own_check in Hchk. rewrite forallb_forall in Hchk.
  specialize (Hchk _ Hin). simpl in Hchk. unfold check_thread in Hchk.
  destruct (flow (qlock p) body init_state) as [e|] eqn:E; [|discriminate].
  exists init_state. split; [|split].
  - rewrite Hc. eapply wtk_stmt with (e := e); [apply flow_sound; exact E | | | |]; intros; apply wtk_nil.
  - intros m [].
  - split; intros; rewrite Henv in *; discriminate.
Qed.

Lemma inv_step c c' : step c c' -> inv c -> inv c'.
Proof.
  intros Hstep Hinv. destruct Hstep as [c i t act k' e' h' Hi Hts Hen].
  intros j tj' Hj. simpl in Hj.
  destruct (Nat.eq_dec i j) as [<-|Hne].
  - rewrite (nth_set_nth_eq _ _ _ _ Hi) in Hj. inversion Hj; subst tj'.
    destruct (Hinv i t Hi) as [a [Hk [Hh HJ]]].
    destruct (lstep_preserves (qlock p) _ _ _ _ _ _ _ _ Hts a (owner c) Hk Hh HJ) as [a' [Hk' [Hh' HJ']]].
    exists a'. simpl. auto.
  - rewrite nth_set_nth_neq in Hj by exact Hne.
    destruct (Hinv j tj' Hj) as [a [Hk [Hh HJ]]].
    exists a. simpl. split; [exact Hk|]. split.
    + intros m Hm. apply own_after_other; auto.
    + eapply J_other; [exact Hne | eapply heap_frame; exact Hts | exact HJ].
Qed.

Lemma inv_reachable c : reachable p c -> inv c.
Proof.
  induction 1.
  - apply inv_init. assumption.
  - eapply inv_step; eauto.
Qed.

Lemma wtk_head_atom a s k :
  wtk (qlock p) a (IS s :: k) -> atomic s = true -> exists a', xfer (qlock p) s a = Some a'.
Proof.
  intros Hk Hat. inversion Hk; subst.
  match goal with Hw : wt _ _ _ _ |- _ => inversion Hw; subst; try (simpl in Hat; discriminate Hat) end.
  eauto.
Qed.

Lemma acc_ok_entitled c i t a x o :
  holds (fst a) (owner c) i -> J i (snd a) (th_env t) (heap c) ->
  acc_ok a x = true -> th_env t x = Some o -> may_access p c i o.
Proof.
  intros Hh [A B C] Hok E. unfold acc_ok in Hok.
  destruct (get (snd a) x) eqn:G; try discriminate.
  - left. eauto.
  - right. right. exists m. split; [eauto|]. apply Hh. apply mem_In. exact Hok.
Qed.

Lemma inv_entitled c : inv c ->
  forall i t o, nth_error (threads c) i = Some t -> about_to_access t (heap c) o -> may_access p c i o.
Proof.
  intros Hinv i t o Hi Ha. destruct (Hinv i t Hi) as [a [Hk [Hh HJ]]].
  unfold about_to_access in Ha.
  destruct (th_cont t) as [|[s| |s] k] eqn:Ek; try contradiction.
  destruct s; try contradiction.
  - (* Free *)
    destruct (wtk_head_atom _ _ _ Hk eq_refl) as [a' Hx]. destruct a as [L S]. simpl in Hx.
    destruct (acc_ok (L, S) p0) eqn:A; [|discriminate]. eapply acc_ok_entitled; eauto.
  - (* Access *)
    destruct (wtk_head_atom _ _ _ Hk eq_refl) as [a' Hx]. destruct a as [L S]. simpl in Hx.
    destruct (acc_ok (L, S) p0) eqn:A; [|discriminate]. eapply acc_ok_entitled; eauto.
  - (* AccQ *)
    destruct (wtk_head_atom _ _ _ Hk eq_refl) as [a' Hx]. destruct a as [L S]. simpl in Hx.
    unfold q_held in Hx. simpl in Hx. destruct (qlock p q) as [m|] eqn:Q; [|discriminate].
    destruct (mem m L) eqn:M; [|discriminate].
    right. left. exists q, m. repeat split; auto. apply Hh. apply mem_In. exact M.
  - (* AccShared *)
    destruct (wtk_head_atom _ _ _ Hk eq_refl) as [a' Hx]. destruct a as [L S]. simpl in Hx.
    destruct (mem m L) eqn:M; [|discriminate].
    right. right. exists m. split; auto. apply Hh. apply mem_In. exact M.
Qed.
End Global.

(* ------------------------------------------------------------------ *)
(* main theorems                                                       *)

(* entitlement is exclusive: an object has one state and a mutex one owner *)
Theorem may_access_exclusive p c i j o : may_access p c i o -> may_access p c j o -> i = j.
Proof.
  intros [H1|[[q [m [H1 [H2 H3]]]]|[m [H1 H2]]]] [H4|[[q' [m' [H4 [H5 H6]]]]|[m' [H4 H5]]]]; try congruence.
  all: rewrite H1 in H4; inversion H4; subst; try (rewrite H2 in H5; inversion H5; subst); congruence.
Qed.

(* every access of every reachable configuration is made by a thread entitled to it *)
Theorem own_sound p :
  own_check p = true ->
  forall c, reachable p c ->
  forall i t o, nth_error (threads c) i = Some t -> about_to_access t (heap c) o -> may_access p c i o.
Proof.
  intros Hc c Hr. apply inv_entitled; auto. apply inv_reachable; auto.
Qed.

(* hence no two threads are ever about to touch the same object *)
Theorem own_no_race p :
  own_check p = true -> forall c, reachable p c -> ~ heap_race c.
Proof.
  intros Hc c Hr [i [j [ti [tj [o [Hne [Hi [Hj [Ai Aj]]]]]]]]].
  apply Hne. eapply (may_access_exclusive p c i j o); eapply own_sound; eauto.
Qed.

(* all scenarios of a generated file *)
Lemma own_check_all_In scs name p : own_check_all scs = true -> In (name, p) scs -> own_check p = true.
Proof.
  unfold own_check_all. intros H Hin. rewrite forallb_forall in H. apply (H _ Hin).
Qed.

Theorem own_entitled_all scs :
  own_check_all scs = true ->
  forall name p, In (name, p) scs ->
  forall c, reachable p c ->
  forall i t o, nth_error (threads c) i = Some t -> about_to_access t (heap c) o -> may_access p c i o.
Proof.
  intros H name p Hin. apply own_sound. eapply own_check_all_In; eauto.
Qed.

Theorem own_sound_all scs :
  own_check_all scs = true ->
  forall name p, In (name, p) scs ->
  forall c, reachable p c -> ~ heap_race c.
Proof.
  unfold own_check_all. intros H name p Hin. rewrite forallb_forall in H.
  apply own_no_race. apply (H _ Hin).
Qed.

Print Assumptions own_sound.
Print Assumptions own_no_race.
