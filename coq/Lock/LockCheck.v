(* C12 - the checker run on the regenerated program (by computation). *)
From LBZ Require Import Lock.LockLang Lock.Lockset Lock.LocksetSound Gen.LockProg Lock.LockConfig.

Lemma check_program : check program classes = true.
Proof. vm_compute. reflexivity. Qed.

(* every file-scope / external variable of the five files is tracked, except the leaves
   of expand.c:par (token-protected, see LockConfig.v) *)
Definition untracked_globals : list string :=
  map (fun x => var_name (fst x))
      (filter (fun x => negb (vi_heap (snd x)) && negb (cl_tracked classes (fst x))) var_table).

Lemma untracked_globals_are_par :
  forallb (fun n => prefix "expand.c:par." n) untracked_globals = true.
Proof. vm_compute. reflexivity. Qed.

(* the heap classes that are checked like globals all exist in the regenerated table
   (a renamed struct would otherwise silently drop out of the check) *)
Lemma heap_locked_present :
  forallb (fun n => existsb (fun x => String.eqb n (snd x)) var_names) heap_locked = true.
Proof. vm_compute. reflexivity. Qed.

Lemma scenarios_present :
  map fst (cl_scenarios classes) = ["copy"; "schedule"]%string.
Proof. vm_compute. reflexivity. Qed.

Theorem program_race_free :
  forall name specs, In (name, specs) (cl_scenarios classes) ->
  forall cfg, reachable (par_sem program specs) cfg -> ~ race classes specs cfg.
Proof. exact (lockset_sound_all program classes check_program). Qed.
