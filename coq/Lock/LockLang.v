(* C12 - syntax of the lock/access skeleton that lib/gen_lock.py transcribes from
   process.c, compress.c, expand.c, signals.c, main.c, and its interleaving
   small-step semantics [par_sem].

   The grammar extends the one of DESIGN.md section 4/C12 by
     Break / Continue   (the C loops of lbzip2 leave their body with break while
                         holding a mutex: sink_thread_proc),
     IfMain             (`if (pthread_equal(pthread_self(), main_thread))` in bailout():
                         only the main thread takes the first branch),
     Create / Join last (the positions of pthread_create / pthread_join; [Join true]
                         is the last join of a bracket function: after it none of the
                         threads created by this thread is running). *)
From Coq Require Export List PArith Bool String.
Export ListNotations.

Definition mutex := positive.
Definition var := positive.
Definition fname := positive.
Definition site := positive.

Inductive stmt : Type :=
| Skip | Seq (a b : stmt) | If (a b : stmt) | IfMain (a b : stmt) | Loop (s : stmt)
| Break | Continue | Return | NoReturn
| Lock (m : mutex) | Unlock (m : mutex) | Wait (m : mutex)
| Rd (v : var) (s : site) | Wr (v : var) (s : site)
| Call (f : fname) | CallAny (fs : list fname)
| Create | Join (last : bool).

(* function table: [None] = the function could not be transcribed (goto) *)
Definition program := list (fname * option stmt).

Fixpoint lookup (p : program) (f : fname) : option (option stmt) :=
  match p with
  | [] => None                                  (* not in the five files: library function *)
  | (g, b) :: p' => if Pos.eqb g f then Some b else lookup p' f
  end.

Record var_info := mkVarInfo { vi_heap : bool; vi_const : bool; vi_sigatomic : bool }.

(* one thread class of a scenario *)
Record spec := mkSpec {
  sp_name : string;
  sp_entry : fname;            (* function the class runs *)
  sp_multi : bool;             (* false: at most one thread of this class exists *)
  sp_is_main : bool;           (* the main thread (IfMain) *)
  sp_parent : option nat;      (* index of the class whose threads create this one *)
  sp_start_conc : bool;        (* false: starts before its first pthread_create (bracket function) *)
  sp_handler : bool            (* the signal handler, run asynchronously inside the main thread *)
}.

Record classes := mkClasses {
  cl_scenarios : list (string * list spec);
  cl_tracked : var -> bool;    (* variables the theorem speaks about *)
  cl_sigatomic : var -> bool   (* declared volatile sig_atomic_t *)
}.

(* ---------------------------------------------------------------------- *)
(* thread-local small-step semantics over a continuation                    *)

Inductive item := IS (s : stmt) | IRet | ILoop (s : stmt).
Definition cont := list item.

Fixpoint unwind_ret (k : cont) : cont :=
  match k with [] => [] | IRet :: k' => k' | _ :: k' => unwind_ret k' end.
(* a break/continue outside any loop of the current function ends the function *)
Fixpoint unwind_break (k : cont) : cont :=
  match k with [] => [] | ILoop _ :: k' => k' | IRet :: k' => IRet :: k' | IS _ :: k' => unwind_break k' end.
Fixpoint unwind_cont (k : cont) : cont :=
  match k with [] => [] | ILoop s :: k' => ILoop s :: k' | IRet :: k' => IRet :: k' | IS _ :: k' => unwind_cont k' end.

Inductive action :=
| ATau | ALock (m : mutex) | AUnlock (m : mutex) | AAcc (w : bool) (v : var) (s : site)
| ACreate | AJoin (last : bool).

Section ThreadStep.
Variable p : program.
Variable ismain : bool.

Inductive tstep : cont -> action -> cont -> Prop :=
| ts_skip k : tstep (IS Skip :: k) ATau k
| ts_seq a b k : tstep (IS (Seq a b) :: k) ATau (IS a :: IS b :: k)
| ts_if1 a b k : tstep (IS (If a b) :: k) ATau (IS a :: k)
| ts_if2 a b k : tstep (IS (If a b) :: k) ATau (IS b :: k)
| ts_ifmain a b k : tstep (IS (IfMain a b) :: k) ATau (IS (if ismain then a else b) :: k)
| ts_loop s k : tstep (IS (Loop s) :: k) ATau (IS s :: ILoop s :: k)       (* endless loop ... *)
| ts_loopk s k : tstep (ILoop s :: k) ATau (IS (Loop s) :: k)
| ts_break k : tstep (IS Break :: k) ATau (unwind_break k)                  (* ... left by Break *)
| ts_continue k : tstep (IS Continue :: k) ATau (unwind_cont k)
| ts_return k : tstep (IS Return :: k) ATau (unwind_ret k)
| ts_iret k : tstep (IRet :: k) ATau k
(* NoReturn: no step (abort, _exit, pthread_exit: the thread stops, keeping what it holds) *)
| ts_lock m k : tstep (IS (Lock m) :: k) (ALock m) k
| ts_unlock m k : tstep (IS (Unlock m) :: k) (AUnlock m) k
| ts_wait m k : tstep (IS (Wait m) :: k) (AUnlock m) (IS (Lock m) :: k)     (* Wait m = Unlock m; Lock m *)
| ts_rd v s k : tstep (IS (Rd v s) :: k) (AAcc false v s) k
| ts_wr v s k : tstep (IS (Wr v s) :: k) (AAcc true v s) k
| ts_call_int f b k : lookup p f = Some (Some b) -> tstep (IS (Call f) :: k) ATau (IS b :: IRet :: k)
| ts_call_ext f k : lookup p f = None -> tstep (IS (Call f) :: k) ATau k
| ts_callany f fs k : In f fs -> tstep (IS (CallAny fs) :: k) ATau (IS (Call f) :: k)
| ts_create k : tstep (IS Create :: k) ACreate k
| ts_join l k : tstep (IS (Join l) :: k) (AJoin l) k.
End ThreadStep.

(* ---------------------------------------------------------------------- *)
(* configurations: threads + mutex-owner map                               *)

Record thread := mkThread {
  th_spec : nat;               (* index of its class in the scenario *)
  th_cont : cont;
  th_conc : bool               (* between its first pthread_create and its last pthread_join *)
}.

Record config := mkCfg { threads : list thread; owner : mutex -> option nat }.

Definition upd (o : mutex -> option nat) (m : mutex) (x : option nat) : mutex -> option nat :=
  fun m' => if Pos.eqb m' m then x else o m'.

Definition owner_after (i : nat) (a : action) (o : mutex -> option nat) : mutex -> option nat :=
  match a with
  | ALock m => upd o m (Some i)
  | AUnlock m => match o m with
                 | Some j => if Nat.eqb j i then upd o m None else o   (* unlocking what one does not hold: no effect *)
                 | None => o
                 end
  | _ => o
  end.

Definition conc_after (a : action) (b : bool) : bool :=
  match a with ACreate => true | AJoin true => false | _ => b end.

Definition enabled (a : action) (o : mutex -> option nat) : Prop :=
  match a with ALock m => o m = None | _ => True end.        (* Lock blocks unless the mutex is free *)

Fixpoint set_nth {A} (i : nat) (x : A) (l : list A) : list A :=
  match l, i with
  | [], _ => []
  | _ :: l', O => x :: l'
  | y :: l', S i' => y :: set_nth i' x l'
  end.

Definition spec_main (specs : list spec) (i : nat) : bool :=
  match nth_error specs i with Some sp => sp_is_main sp | None => false end.
Definition spec_handler (specs : list spec) (i : nat) : bool :=
  match nth_error specs i with Some sp => sp_handler sp | None => false end.
Definition spec_multi (specs : list spec) (i : nat) : bool :=
  match nth_error specs i with Some sp => sp_multi sp | None => true end.

Section Par.
Variable p : program.
Variable specs : list spec.

Inductive step : config -> config -> Prop :=
| step_thread c i t a k' :
    nth_error (threads c) i = Some t ->
    tstep p (spec_main specs (th_spec t)) (th_cont t) a k' ->
    enabled a (owner c) ->
    step c (mkCfg (set_nth i (mkThread (th_spec t) k' (conc_after a (th_conc t))) (threads c))
                  (owner_after i a (owner c))).

(* any number of threads; every thread runs the entry function of a class of the
   scenario; classes that are not [sp_multi] have at most one thread; no mutex held *)
Definition initial (c : config) : Prop :=
  (forall m, owner c m = None) /\
  (forall i t, nth_error (threads c) i = Some t ->
     exists sp, nth_error specs (th_spec t) = Some sp /\
                th_cont t = [IS (Call (sp_entry sp))] /\ th_conc t = sp_start_conc sp) /\
  (forall i j ti tj, nth_error (threads c) i = Some ti -> nth_error (threads c) j = Some tj ->
     th_spec ti = th_spec tj -> spec_multi specs (th_spec ti) = false -> i = j).
End Par.

Record tsys := mkTsys { ts_init : config -> Prop; ts_step : config -> config -> Prop }.

Definition par_sem (p : program) (specs : list spec) : tsys := mkTsys (initial specs) (step p specs).

Inductive reachable (T : tsys) : config -> Prop :=
| reach_init c : ts_init T c -> reachable T c
| reach_step c c' : reachable T c -> ts_step T c c' -> reachable T c'.

(* ---------------------------------------------------------------------- *)
(* races                                                                    *)

Definition next_access (t : thread) : option (bool * var * site) :=
  match th_cont t with
  | IS (Rd v s) :: _ => Some (false, v, s)
  | IS (Wr v s) :: _ => Some (true, v, s)
  | _ => None
  end.

(* [is_desc specs n a b]: class a is a proper descendant of class b (created, directly
   or not, by threads of class b) *)
Fixpoint is_desc (specs : list spec) (fuel : nat) (a b : nat) : bool :=
  match fuel with
  | O => false
  | S n => match nth_error specs a with
           | Some sp => match sp_parent sp with
                        | Some pa => Nat.eqb pa b || is_desc specs n pa b
                        | None => false
                        end
           | None => false
           end
  end.

(* pairs that are ordered by something other than a mutex:
   - a thread outside its create..join phase versus the threads it creates
     (pthread_create / pthread_join order memory: trusted, DESIGN.md section 3);
   - the signal handler versus the main thread it interrupts, on a
     volatile sig_atomic_t object (C11 7.14.1p5). *)
Definition exempt (cl : classes) (specs : list spec) (ti tj : thread) (v : var) : Prop :=
  (th_conc ti = false /\ is_desc specs (List.length specs) (th_spec tj) (th_spec ti) = true) \/
  (th_conc tj = false /\ is_desc specs (List.length specs) (th_spec ti) (th_spec tj) = true) \/
  (cl_sigatomic cl v = true /\
   ((spec_handler specs (th_spec ti) = true /\ spec_main specs (th_spec tj) = true) \/
    (spec_main specs (th_spec ti) = true /\ spec_handler specs (th_spec tj) = true))).

(* two different threads whose next actions are conflicting accesses (at least one
   write) to one tracked variable, not ordered as above *)
Definition race (cl : classes) (specs : list spec) (c : config) : Prop :=
  exists i j ti tj wi wj v si sj,
    i <> j /\ nth_error (threads c) i = Some ti /\ nth_error (threads c) j = Some tj /\
    next_access ti = Some (wi, v, si) /\ next_access tj = Some (wj, v, sj) /\
    (wi || wj = true) /\ cl_tracked cl v = true /\ ~ exempt cl specs ti tj v.
