(* Strict inspection of a compressed file: the same walk as decode_from, but
   returning what each block header says (used by the C02 check on the bytes the
   real compressor wrote). *)
From Coq Require Import List NArith Arith Bool Lia.
From LBZ Require Import Common.Bits Dec.Prog Dec.Format Dec.Policies.
Import ListNotations.
Local Open Scope N_scope.

Record block_info := {
  bi_level : N; bi_rand : bool; bi_idx : N; bi_size : N; bi_ntrees : N; bi_nsel : N;
  bi_tables : list (list N); bi_crc_ok : bool;
}.

Fixpoint inspect_from (pol : policy) (fuel : nat) (level : N) (ccrc : N) (bits : list bool)
  : result (list block_info) :=
  match fuel with
  | 0%nat => Err ErrFuel
  | S f =>
      match run (take 48) bits with
      | Err e => Err e
      | Ok (magic, r1) =>
          if magic =? block_magic then
            match run (take 32) r1 with
            | Err e => Err e
            | Ok (crc, r2) =>
                match run (read_block pol (S (length bits))) r2 with
                | Err e => Err e
                | Ok (rb, r3) =>
                    match unmtf_block (100000 * level) (rb_used rb) (rb_mtfv rb), decode_block pol level rb with
                    | Ok col, Ok out =>
                        let info := {| bi_level := level; bi_rand := rb_rand rb; bi_idx := rb_idx rb;
                                       bi_size := N.of_nat (length col); bi_ntrees := rb_ntrees rb; bi_nsel := rb_nsel rb;
                                       bi_tables := rb_tables rb;
                                       bi_crc_ok := N.lxor (crc_bytes mask32 out) mask32 =? crc |} in
                        match inspect_from pol f level (combine_stream_crc ccrc crc) r3 with
                        | Err e => Err e
                        | Ok l => Ok (info :: l)
                        end
                    | Err e, _ => Err e
                    | _, Err e => Err e
                    end
                end
            end
          else if magic =? eos_magic then
            match run (take 32) r1 with
            | Err e => Err e
            | Ok (scrc, r2) =>
                if negb (scrc =? ccrc) then Err ErrStrmCrc
                else match next_stream (align_drop r2) with
                     | None => Ok []
                     | Some (level', r3) => inspect_from pol f level' 0 r3
                     end
            end
          else Err ErrHeader
      end
  end.

Definition inspect_file (file : list N) : result (list block_info) :=
  match run (take 32) (bits_of_bytes file) with
  | Ok (h, rest) =>
      if (0x425A6831 <=? h) && (h <=? 0x425A6839) then inspect_from ref_noexc_policy (S (length rest)) (h - 0x425A6830) 0 rest
      else Err ErrNotBzip2
  | Err _ => Err ErrNotBzip2
  end.
