(* Vocabulary of the regenerated parse() state machine (Gen/ParseTab.v, written by
   lib/gen_parse.py): return codes, the outcome of one loop iteration, the C integer
   conversions the translator may emit, and the list model of `bits_align`. *)
From Coq Require Import List NArith ZArith Bool.
Import ListNotations.

(* enum error of common.h, one constructor per enumerator (the translator only emits
   names it found in that enum; a new name makes Gen/ParseTab.v fail to build) *)
Inductive rcode :=
| RC_OK | RC_MORE | RC_FINISH
| RC_ERR_MAGIC | RC_ERR_HEADER | RC_ERR_BITMAP | RC_ERR_TREES | RC_ERR_GROUPS | RC_ERR_SELECTOR
| RC_ERR_DELTA | RC_ERR_PREFIX | RC_ERR_INCOMPLT | RC_ERR_EMPTY | RC_ERR_UNTERM | RC_ERR_RUNLEN
| RC_ERR_BLKCRC | RC_ERR_STRMCRC | RC_ERR_OVERFLOW | RC_ERR_BWTIDX | RC_ERR_EOF.

(* one iteration of the while loop of parse(): go round again, return a code, or
   run into an assert *)
Inductive pout := PCont | PRet (c : rcode) | PAbort.

(* int -> unsigned and unsigned -> int (two's complement, 32 bits) *)
Definition u32_of_int (z : Z) : N := Z.to_N (z mod 4294967296).
Definition int_of_u32 (n : N) : Z :=
  if N.ltb n 2147483648 then Z.of_N n else (Z.of_N n - 4294967296)%Z.

(* bits_align(bs) = bits_dump(bs, bs->live % 8u).  The bit buffer is modelled as the list
   of bits that are available and not yet consumed (most significant first), so `live`
   is congruent to its length modulo 8 as long as input arrives in whole bytes. *)
Definition bits_align (buf : list bool) : list bool := skipn (length buf mod 8) buf.
