(* The decoders the properties talk about, as instances of the generic format. *)
From Coq Require Import List NArith Arith Bool Lia.
From LBZ Require Import Common.Bits Dec.Prog Dec.Format Dec.Delta Gen.DecTabs.
Import ListNotations.
Local Open Scope N_scope.

(* the bzip2 format: 900000-byte blocks plus the end-of-block symbol need at most 18001 groups of 50 *)
Definition format_sel_clamp : N := 18001.

Definition complete_only (lens : list N) : result unit :=
  if kraft lens =? kraft_full then Ok tt
  else if kraft lens <? kraft_full then Err ErrIncomplete else Err ErrPrefix.

Definition not_oversubscribed (lens : list N) : result unit :=
  if kraft lens <=? kraft_full then Ok tt else Err ErrPrefix.

(* what lbzip2 -d does (model of decode.c / parse.c / the checks of expand.c) *)
Definition lbz_policy : policy :=
  {| delta_reader := win_delta; table_check := complete_only; runlen_strict := true; sel_clamp := sel_clamp_value |}.

(* the strict bzip2 1.0.x format: every single delta step in range, used tables
   must be prefix codes (an incomplete one is fine as long as no missing code is
   met), a block must not end after four equal bytes without their count
   (libbz2 1.0.x and tests/minbzcat.c reject that too) *)
Definition ref_policy : policy :=
  {| delta_reader := strict_delta; table_check := not_oversubscribed; runlen_strict := true; sel_clamp := format_sel_clamp |}.

(* the most lenient reading of "a conforming encoder's output": additionally a
   block may end after four equal bytes (they are then plain bytes) *)
Definition ref_lenient_policy : policy :=
  {| delta_reader := strict_delta; table_check := not_oversubscribed; runlen_strict := false; sel_clamp := format_sel_clamp |}.

(* the strict format minus the two documented exceptions of lbzip2 *)
Definition ref_noexc_policy : policy :=
  {| delta_reader := strict_delta; table_check := complete_only; runlen_strict := true; sel_clamp := format_sel_clamp |}.

Definition lbz_decode (file : list N) : result (list N) := decode_file lbz_policy file.
Definition ref_decode (file : list N) : result (list N) := decode_file ref_policy file.
Definition ref_lenient_decode (file : list N) : result (list N) := decode_file ref_lenient_policy file.
Definition ref_noexc_decode (file : list N) : result (list N) := decode_file ref_noexc_policy file.
