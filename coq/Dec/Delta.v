(* The two ways of reading delta-coded code lengths: bit by bit with a range
   check after every step (strict format), and lbzip2's 6-bit table-driven
   windows over the regenerated tables L[], R[] (and, once present, Rmin[],
   Rmax[]) of src/decode.c. *)
From Coq Require Import List NArith Arith Bool Lia.
From LBZ Require Import Common.Bits Dec.Prog Gen.DecTabs Gen.Consts.
Import ListNotations.
Local Open Scope N_scope.

(* ---- strict, bit by bit ----------------------------------------------------------- *)
(* state (tag, cur): tag 0 = about to read the continue bit (length is checked here),
   1 = about to read the direction bit, 2 = done, 3 = failed *)
Definition sstate := (N * N)%type.

Definition in_len_range (c : N) : bool := (MIN_CODE_LENGTH <=? c) && (c <=? MAX_CODE_LENGTH).

Definition strict_step (s : sstate) (b : bool) : sstate :=
  let '(tag, cur) := s in
  if tag =? 0 then
    if in_len_range cur then (if b then (1, cur) else (2, cur)) else (3, cur)
  else if tag =? 1 then (0, if b then N.pred cur else cur + 1)
  else s.

Definition strict_stat (s : sstate) : mstatus N :=
  let '(tag, cur) := s in
  if tag =? 0 then (if in_len_range cur then MRun else MFail ErrDelta)
  else if tag =? 1 then MRun
  else if tag =? 2 then MDone cur
  else MFail ErrDelta.

Definition strict_machine : machine sstate N := {| mstep := strict_step; mstat := strict_stat |}.
Definition strict_delta (fuel : nat) (cur : N) : prog N := mprog strict_machine fuel (0, cur).

(* ---- lbzip2's windows ------------------------------------------------------------- *)
Definition tabL (k : N) : N := nth (N.to_nat k) delta_L 0.
Definition tabR (k : N) : N := nth (N.to_nat k) delta_R 0.
Definition tabRmin (k : N) : N :=
  if delta_check_excursion then match delta_Rmin with Some t => nth (N.to_nat k) t 0 | None => 0 end else tabR k.
Definition tabRmax (k : N) : N :=
  if delta_check_excursion then match delta_Rmax with Some t => nth (N.to_nat k) t 0 | None => 255 end else tabR k.

(* the range test of retrieve(): on the net change (no excursion tables in the
   source) or on the extreme prefix sums of the window (tables present) *)
Definition window_apply (cur k : N) : option N :=
  if (cur + tabRmin k <? delta_check_lo) || (delta_check_hi <? cur + tabRmax k) then None
  else if (cur + tabR k <? delta_check_lo) || (delta_check_hi <? cur + tabR k) then None
  else Some (cur + tabR k - delta_bias).

(* state (tag, cur, j, v): tag 0 = inside a window having read j bits of value v,
   1 = done, 2 = failed range check, 3 = table not prefix-consistent *)
Definition wstate := (N * N * N * N)%type.

Definition win_step (s : wstate) (b : bool) : wstate :=
  let '(tag, cur, j, v) := s in
  if tag =? 0 then
    let j' := j + 1 in
    let v' := 2 * v + (if b then 1 else 0) in
    let k := N.shiftl v' (6 - j') in
    if tabL k =? j' then
      match window_apply cur k with
      | None => (2, cur, 0, 0)
      | Some cur' => if j' =? 6 then (0, cur', 0, 0) else (1, cur', 0, 0)
      end
    else if j' =? 6 then (3, cur, 0, 0)
    else (0, cur, j', v')
  else s.

Definition win_stat (s : wstate) : mstatus N :=
  let '(tag, cur, j, v) := s in
  if tag =? 0 then MRun
  else if tag =? 1 then MDone cur
  else if tag =? 2 then MFail ErrDelta
  else MFail ErrTable.

Definition win_machine : machine wstate N := {| mstep := win_step; mstat := win_stat |}.
Definition win_delta (fuel : nat) (cur : N) : prog N := mprog win_machine fuel (0, cur, 0, 0).

(* prefix-consistency of the tables: the entry for a 6-bit window is determined
   by its first L bits (what makes "peek 6, consume L" a bit-by-bit reader) *)
Definition window_prefix (k j : N) : N := N.shiftl (N.shiftr k (6 - j)) (6 - j).
Definition tables_prefix_consistent : bool :=
  forallb (fun kk =>
    let k := N.of_nat kk in
    let j := tabL k in
    let kp := window_prefix k j in
    (1 <=? j) && (j <=? 6) && (tabL kp =? j) && (tabR kp =? tabR k) &&
    (tabRmin kp =? tabRmin k) && (tabRmax kp =? tabRmax k) &&
    forallb (fun jj => let j' := N.of_nat jj in negb (tabL (window_prefix k j') =? j')) (seq 1 (N.to_nat j - 1)))
  (seq 0 64).

(* the selector table: position of the first zero bit of a 6-bit window (7 = none) *)
Definition first_zero (k : N) : N :=
  if negb (N.testbit k 5) then 1 else if negb (N.testbit k 4) then 2 else if negb (N.testbit k 3) then 3
  else if negb (N.testbit k 2) then 4 else if negb (N.testbit k 1) then 5 else if negb (N.testbit k 0) then 6 else 7.
Definition sel_table_ok : bool :=
  forallb (fun kk => nth kk sel_table 0 =? first_zero (N.of_nat kk)) (seq 0 64).
