(* C15: flipping any bit of a stored block or stream CRC makes decoding fail. *)
From Coq Require Import List NArith Arith Bool Lia.
From LBZ Require Import Common.Bits Dec.Prog Dec.Sim Dec.Format.
Import ListNotations.

Definition flip (i : nat) (l : list bool) : list bool :=
  firstn i l ++ match skipn i l with [] => [] | b :: r => negb b :: r end.

Lemma flip_length i l : length (flip i l) = length l.
Proof.
  unfold flip. rewrite app_length. rewrite <- (firstn_skipn i l) at 3. rewrite app_length.
  destruct (skipn i l); reflexivity.
Qed.

Lemma flip_app_r (a r : list bool) k : flip (length a + k) (a ++ r) = a ++ flip k r.
Proof.
  unfold flip. rewrite firstn_app. rewrite firstn_all2 by lia.
  replace (length a + k - length a)%nat with k by lia.
  rewrite skipn_app. rewrite skipn_all2 by lia.
  replace (length a + k - length a)%nat with k by lia. simpl. rewrite <- app_assoc. reflexivity.
Qed.

Lemma flip_app_l (a r : list bool) k : (k < length a)%nat -> flip k (a ++ r) = flip k a ++ r.
Proof.
  intro H. unfold flip. rewrite firstn_app. replace (k - length a)%nat with 0%nat by lia.
  simpl. rewrite app_nil_r. rewrite skipn_app. replace (k - length a)%nat with 0%nat by lia. simpl.
  destruct (skipn k a) as [|b t] eqn:E.
  - apply (f_equal (@length bool)) in E. rewrite skipn_length in E. simpl in E. lia.
  - rewrite <- app_assoc. reflexivity.
Qed.

Lemma flip_neq k (a : list bool) : (k < length a)%nat -> flip k a <> a.
Proof.
  intros H E. unfold flip in E. rewrite <- (firstn_skipn k a) in E at 3.
  apply app_inv_head in E. destruct (skipn k a) as [|b t] eqn:S.
  - apply (f_equal (@length bool)) in S. rewrite skipn_length in S. simpl in S. lia.
  - inversion E. destruct b; discriminate.
Qed.

(* ---- take ---------------------------------------------------------------------------- *)
Lemma N_of_bits_acc_inj : forall a a' acc acc', length a = length a' ->
  N_of_bits_acc acc a = N_of_bits_acc acc' a' -> acc = acc' /\ a = a'.
Proof.
  induction a as [|b r IH]; intros [|b' r'] acc acc' Hl H; cbn [N_of_bits_acc length] in *; try discriminate; auto.
  apply IH in H; [|lia]. destruct H as [H1 H2]. subst r'.
  destruct b, b'; try (exfalso; lia); split; try reflexivity; lia.
Qed.

Lemma run_take_acc n : forall acc bits v r, run (take_acc n acc) bits = Ok (v, r) ->
  exists a, bits = a ++ r /\ length a = n /\ v = N_of_bits_acc acc a.
Proof.
  induction n as [|n IH]; intros acc bits v r H; cbn [take_acc run] in H.
  - inversion H; subst. exists []. auto.
  - destruct bits as [|b rest]; [discriminate|]. apply IH in H as [a [H1 [H2 H3]]].
    exists (b :: a). subst. simpl. auto.
Qed.

Lemma run_take_app n : forall acc a r, length a = n -> run (take_acc n acc) (a ++ r) = Ok (N_of_bits_acc acc a, r).
Proof.
  induction n as [|n IH]; intros acc a r H; destruct a as [|b a']; cbn [length] in H; try discriminate;
    cbn [app take_acc run N_of_bits_acc]; [reflexivity|]. apply IH. lia.
Qed.

Lemma run_take n bits v r : run (take n) bits = Ok (v, r) ->
  exists a, bits = a ++ r /\ length a = n /\ v = N_of_bits a.
Proof. apply run_take_acc. Qed.

Lemma run_take_app0 n a r : length a = n -> run (take n) (a ++ r) = Ok (N_of_bits a, r).
Proof. apply run_take_app. Qed.

Lemma N_of_bits_flip k a : (k < length a)%nat -> N_of_bits (flip k a) <> N_of_bits a.
Proof.
  intros H E. unfold N_of_bits in E. apply N_of_bits_acc_inj in E; [|apply flip_length].
  destruct E as [_ E]. exact (flip_neq k a H E).
Qed.

(* ---- next_stream frame ---------------------------------------------------------------- *)
Lemma next_stream_frame x lv r3 : next_stream x = Some (lv, r3) ->
  exists h, x = h ++ r3 /\ forall r3', next_stream (h ++ r3') = Some (lv, r3').
Proof.
  unfold next_stream. intro H.
  destruct (run (take 16) x) as [[w1 r1]|e] eqn:E1; [|discriminate].
  destruct (N.eqb w1 16986) eqn:W1; [|discriminate].
  destruct (run (take 16) r1) as [[w2 r2]|e] eqn:E2; [|discriminate].
  destruct ((N.leb 26673 w2) && (N.leb w2 26681))%bool eqn:W2; [|discriminate].
  inversion H; subst. apply run_take in E1 as [a1 [A1 [L1 V1]]]. apply run_take in E2 as [a2 [A2 [L2 V2]]].
  exists (a1 ++ a2). subst. split; [rewrite <- app_assoc; reflexivity|].
  intro r3'. rewrite <- app_assoc. rewrite (run_take_app0 16 a1 (a2 ++ r3') L1). rewrite W1.
  rewrite (run_take_app0 16 a2 r3' L2). rewrite W2. reflexivity.
Qed.

(* ---- the theorem ------------------------------------------------------------------------ *)
Theorem crc_flip_from pol : forall fuel level ccrc bits o ps p j,
  decode_from pol fuel level ccrc bits = Ok (o, ps) -> In p ps -> (j < 32)%nat ->
  exists e, decode_from pol fuel level ccrc (flip (p + j) bits) = Err e.
Proof.
  induction fuel as [|f IH]; intros level ccrc bits o ps p j H Hin Hj; cbn [decode_from] in H; [discriminate|].
  destruct (run (take 48) bits) as [[magic r1]|e] eqn:E48; [|discriminate].
  apply run_take in E48 as [a48 [Hb [L48 Vm]]].
  destruct (N.eqb magic block_magic) eqn:Mb.
  - (* a block *)
    destruct (run (take 32) r1) as [[crc r2]|e] eqn:E32; [|discriminate].
    apply run_take in E32 as [c32 [Hr1 [L32 Vc]]].
    destruct (run (read_block pol (S (length bits))) r2) as [[rb r3]|e] eqn:Erb; [|discriminate].
    destruct (run_frame _ _ _ _ Erb) as [d [Hr2 Hframe]].
    destruct (decode_block pol level rb) as [out|e] eqn:Edb; [|discriminate].
    destruct (negb (N.eqb (N.lxor (crc_bytes mask32 out) mask32) crc)) eqn:Ecrc; [discriminate|].
    destruct (decode_from pol f level (combine_stream_crc ccrc crc) r3) as [[o' ps']|e] eqn:Erec; [|discriminate].
    inversion H; subst o ps. clear H.
    assert (Hlen : (length bits - length r3 = 48 + 32 + length d)%nat).
    { subst bits r1 r2. rewrite !app_length. lia. }
    destruct Hin as [Hp|Hp].
    + (* the block CRC field itself *)
      subst p. cbn [decode_from].
      assert (Hb' : flip (48 + j) bits = a48 ++ flip j c32 ++ r2).
      { subst bits r1. rewrite <- L48. rewrite flip_app_r. rewrite flip_app_l by lia. reflexivity. }
      rewrite Hb'. rewrite (run_take_app0 48 a48 _ L48). rewrite <- Vm, Mb.
      rewrite (run_take_app0 32 (flip j c32) r2) by (rewrite flip_length; exact L32).
      replace (length (a48 ++ flip j c32 ++ r2)) with (length bits)
        by (subst bits r1; rewrite !app_length, flip_length; reflexivity).
      rewrite Erb, Edb.
      assert (Hne : N.eqb (N.lxor (crc_bytes mask32 out) mask32) (N_of_bits (flip j c32)) = false).
      { apply negb_false_iff in Ecrc. apply N.eqb_eq in Ecrc. apply N.eqb_neq. rewrite Ecrc, Vc.
        intro E. symmetry in E. exact (N_of_bits_flip j c32 ltac:(lia) E). }
      rewrite Hne. simpl. eauto.
    + (* a CRC field further on *)
      apply in_map_iff in Hp as [p' [Hp Hin']]. subst p. rewrite Hlen.
      destruct (IH _ _ _ _ _ p' j Erec Hin' Hj) as [e He].
      cbn [decode_from].
      assert (Hb' : flip (48 + 32 + length d + p' + j) bits = a48 ++ c32 ++ d ++ flip (p' + j) r3).
      { subst bits r1 r2. rewrite <- L48, <- L32.
        replace (length a48 + length c32 + length d + p' + j)%nat with (length a48 + (length c32 + (length d + (p' + j))))%nat by lia.
        rewrite !flip_app_r. reflexivity. }
      rewrite Hb'. rewrite (run_take_app0 48 a48 _ L48). rewrite <- Vm, Mb.
      rewrite (run_take_app0 32 c32 _ L32). rewrite <- Vc.
      replace (length (a48 ++ c32 ++ d ++ flip (p' + j) r3)) with (length bits)
        by (subst bits r1 r2; rewrite !app_length, flip_length; reflexivity).
      rewrite Hframe, Edb, Ecrc, He. eauto.
  - destruct (N.eqb magic eos_magic) eqn:Me; [|discriminate].
    destruct (run (take 32) r1) as [[scrc r2]|e] eqn:E32; [|discriminate].
    apply run_take in E32 as [c32 [Hr1 [L32 Vc]]].
    destruct (negb (N.eqb scrc ccrc)) eqn:Ecrc; [discriminate|].
    assert (Hflip_crc : exists e, decode_from pol (S f) level ccrc (flip (48 + j) bits) = Err e).
    { cbn [decode_from].
      assert (Hb' : flip (48 + j) bits = a48 ++ flip j c32 ++ r2).
      { subst bits r1. rewrite <- L48. rewrite flip_app_r. rewrite flip_app_l by lia. reflexivity. }
      rewrite Hb'. rewrite (run_take_app0 48 a48 _ L48). rewrite <- Vm, Mb, Me.
      rewrite (run_take_app0 32 (flip j c32) r2) by (rewrite flip_length; exact L32).
      assert (Hne : N.eqb (N_of_bits (flip j c32)) ccrc = false).
      { apply negb_false_iff in Ecrc. apply N.eqb_eq in Ecrc. apply N.eqb_neq. rewrite <- Ecrc, Vc.
        apply N_of_bits_flip. lia. }
      rewrite Hne. simpl. eauto. }
    destruct (next_stream (align_drop r2)) as [[level' r3]|] eqn:Ens.
    + destruct (decode_from pol f level' 0 r3) as [[o' ps']|e] eqn:Erec; [|discriminate].
      inversion H; subst o ps. clear H.
      destruct Hin as [Hp|Hp]; [subst p; exact Hflip_crc|].
      apply in_map_iff in Hp as [p' [Hp Hin']]. subst p.
      destruct (IH _ _ _ _ _ p' j Erec Hin' Hj) as [e He].
      destruct (next_stream_frame _ _ _ Ens) as [h [Hal Hns]].
      unfold align_drop in Hal.
      set (k := (length r2 mod 8)%nat) in *.
      assert (Hk : (k <= length r2)%nat) by (unfold k; pose proof (Nat.mod_le (length r2) 8); lia).
      assert (Hr2 : r2 = firstn k r2 ++ h ++ r3) by (rewrite <- Hal; symmetry; apply firstn_skipn).
      set (g := firstn k r2) in *.
      assert (Lg : length g = k) by (unfold g; rewrite firstn_length; lia).
      assert (Hlen : (length bits - length r3 = 48 + 32 + length g + length h)%nat).
      { subst bits r1. rewrite Hr2. rewrite !app_length. lia. }
      rewrite Hlen. cbn [decode_from].
      assert (Hb' : flip (48 + 32 + length g + length h + p' + j) bits = a48 ++ c32 ++ g ++ h ++ flip (p' + j) r3).
      { subst bits r1. rewrite Hr2. rewrite <- L48, <- L32.
        replace (length a48 + length c32 + length g + length h + p' + j)%nat
          with (length a48 + (length c32 + (length g + (length h + (p' + j)))))%nat by lia.
        rewrite !flip_app_r. reflexivity. }
      rewrite Hb'. rewrite (run_take_app0 48 a48 _ L48). rewrite <- Vm, Mb, Me.
      rewrite (run_take_app0 32 c32 _ L32). rewrite <- Vc, Ecrc.
      assert (Hal' : align_drop (g ++ h ++ flip (p' + j) r3) = h ++ flip (p' + j) r3).
      { unfold align_drop.
        replace (length (g ++ h ++ flip (p' + j) r3)) with (length r2)
          by (rewrite Hr2 at 1; rewrite !app_length, flip_length; reflexivity).
        fold k. rewrite <- Lg. rewrite skipn_app. rewrite skipn_all. rewrite Nat.sub_diag. reflexivity. }
      rewrite Hal', Hns, He. eauto.
    + inversion H; subst o ps. destruct Hin as [Hp|[]]. subst p. exact Hflip_crc.
Qed.

Theorem crc_flip_bits pol bits o ps p j :
  decode_bits_info pol bits = Ok (o, ps) -> In p ps -> (j < 32)%nat ->
  exists e, decode_bits_info pol (flip (p + j) bits) = Err e.
Proof.
  unfold decode_bits_info. intros H Hin Hj.
  destruct (run (take 32) bits) as [[h rest]|e] eqn:E32; [|discriminate].
  apply run_take in E32 as [a32 [Hb [L32 Vh]]].
  destruct ((N.leb 1113221169 h) && (N.leb h 1113221177))%bool eqn:Hm; [|discriminate].
  destruct (decode_from pol (S (length rest)) (h - 1113221168) 0 rest) as [[o' ps']|e] eqn:E; [|discriminate].
  injection H as Ho Hps. subst o ps. apply in_map_iff in Hin as [p' [Hp Hin]]. subst p.
  destruct (crc_flip_from pol _ _ _ _ _ _ p' j E Hin Hj) as [e He].
  assert (Hb' : forall k, k = (32 + p' + j)%nat -> flip k bits = a32 ++ flip (p' + j) rest).
  { intros k ->. subst bits. rewrite <- L32. replace (length a32 + p' + j)%nat with (length a32 + (p' + j))%nat by lia.
    apply flip_app_r. }
  erewrite Hb' by reflexivity. rewrite (run_take_app0 32 a32 _ L32). rewrite <- Vh, Hm. rewrite flip_length. rewrite He. eauto.
Qed.

(* bytes <-> bits, so that the statement is about flipping a bit of the FILE *)
Fixpoint bytes_of_bits (l : list bool) : list N :=
  match l with
  | b7 :: b6 :: b5 :: b4 :: b3 :: b2 :: b1 :: b0 :: r => N_of_bits [b7; b6; b5; b4; b3; b2; b1; b0] :: bytes_of_bits r
  | _ => []
  end.

Definition flip_file_bit (i : nat) (file : list N) : list N := bytes_of_bits (flip i (bits_of_bytes file)).

Definition all_bytes_ok : bool :=
  forallb (fun n => bl_eqb (bits8 (N_of_bits (bits8 (N.of_nat n)))) (bits8 (N.of_nat n))) (seq 0 256).

Lemma bits8_N_of_bits b7 b6 b5 b4 b3 b2 b1 b0 :
  bits8 (N_of_bits [b7; b6; b5; b4; b3; b2; b1; b0]) = [b7; b6; b5; b4; b3; b2; b1; b0].
Proof. destruct b7, b6, b5, b4, b3, b2, b1, b0; reflexivity. Qed.

Lemma bits_bytes_bits : forall n l, length l = (8 * n)%nat -> bits_of_bytes (bytes_of_bits l) = l.
Proof.
  induction n as [|n IH]; intros l H.
  - destruct l; [reflexivity|discriminate].
  - do 8 (destruct l as [|? l]; [simpl in H; lia|]).
    cbn [bytes_of_bits bits_of_bytes]. rewrite bits8_N_of_bits. cbn [app]. do 8 f_equal.
    apply IH. simpl in H. lia.
Qed.

Lemma bits_of_bytes_length file : length (bits_of_bytes file) = (8 * length file)%nat.
Proof. induction file as [|b r IH]; [reflexivity|]. cbn [bits_of_bytes length]. rewrite app_length, IH. unfold bits8. rewrite bits_msb_length. lia. Qed.

Theorem crc_flip_file pol file o ps p j :
  decode_file_info pol file = Ok (o, ps) -> In p ps -> (j < 32)%nat ->
  exists e, decode_file_info pol (flip_file_bit (p + j) file) = Err e.
Proof.
  unfold decode_file_info, flip_file_bit. intros H Hin Hj.
  rewrite (bits_bytes_bits (length file)) by (rewrite flip_length; apply bits_of_bytes_length).
  eapply crc_flip_bits; eauto.
Qed.

Lemma flip_file_bit_spec i file : bits_of_bytes (flip_file_bit i file) = flip i (bits_of_bytes file).
Proof.
  unfold flip_file_bit. apply (bits_bytes_bits (length file)). rewrite flip_length. apply bits_of_bytes_length.
Qed.
