(* The bzip2 stream format as an executable decoder, generic in a [policy] that
   fixes the three points where lbzip2's decoder and the strict reference
   differ: how delta-coded lengths are range-checked, which prefix tables may be
   used, and what happens when a block ends in four equal bytes without count. *)
From Coq Require Import List NArith Arith Bool Lia.
From LBZ Require Import Common.Bits Dec.Prog Gen.CrcTab Gen.DecTabs.
Import ListNotations.
Local Open Scope N_scope.

(* ---- CRC (table driven, as decode.c/encode.c do it) ------------------------------ *)
Definition mask32 : N := 0xFFFFFFFF.
Definition crc_step (crc : N) (byte : N) : N :=
  N.lxor (N.land (N.shiftl crc 8) mask32)
         (nth (N.to_nat (N.lxor (N.shiftr crc 24) byte)) crc_table 0).
Definition crc_bytes (crc : N) (bs : list N) : N := fold_left crc_step bs crc.

Definition rotl1_32 (x : N) : N := N.lor (N.land (N.shiftl x 1) mask32) (N.shiftr x 31).
Definition combine_stream_crc (cc c : N) : N := N.lxor (rotl1_32 cc) c.

(* ---- policies ------------------------------------------------------------------------ *)
Record policy := {
  (* reads the delta code of ONE symbol starting from the current length;
     returns the symbol's length (= the next current length) *)
  delta_reader : nat -> N -> prog N;
  (* may this table (list of code lengths) be used to decode a group? *)
  table_check : list N -> result unit;
  (* block ends right after four equal bytes: error (true) or plain end (false) *)
  runlen_strict : bool;
  (* at most this many selectors are used for decoding groups (the format: 18001) *)
  sel_clamp : N;
}.

(* ---- block header pieces ---------------------------------------------------------------- *)
Definition testbit16 (x : N) (i : nat) : bool := N.testbit x (N.of_nat (15 - i)).

(* the 16+16x16 bitmap of bytes in use *)
Fixpoint read_smalls (big : N) (i : nat) (n : nat) : prog (list N) :=
  match n with
  | 0%nat => Ret []
  | S n' =>
      if testbit16 big i then
        s <- take 16 ;;
        rest <- read_smalls big (S i) n' ;;
        Ret (map (fun j => (16 * N.of_nat i + N.of_nat j)) (filter (testbit16 s) (seq 0 16)) ++ rest)
      else read_smalls big (S i) n'
  end.

Definition read_bitmap : prog (list N) :=
  big <- take 16 ;; read_smalls big 0 16.

(* unary coded selector MTF value, at most [ntrees] ones *)
Fixpoint read_unary (left : nat) (c : N) : prog N :=
  match left with
  | 0%nat => Fail ErrSelector
  | S l => Bit (fun b => if b then read_unary l (c + 1) else Ret c)
  end.

(* code lengths of one table: 5-bit start value, then one delta code per symbol *)
Fixpoint read_lens (pol : policy) (fuel : nat) (n : nat) (cur : N) : prog (list N) :=
  match n with
  | 0%nat => Ret []
  | S n' => l <- delta_reader pol fuel cur ;; rest <- read_lens pol fuel n' l ;; Ret (l :: rest)
  end.

Definition read_table (pol : policy) (fuel : nat) (alpha : nat) : prog (list N) :=
  start <- take 5 ;; read_lens pol fuel alpha start.

(* ---- canonical prefix decoding -------------------------------------------------------------- *)
Definition max_len : nat := 20.
Definition len_range : list N := map N.of_nat (seq 1 max_len).

Definition count_len (lens : list N) (l : N) : N := N.of_nat (length (filter (N.eqb l) lens)).
Definition counts (lens : list N) : list N := map (count_len lens) len_range.

Definition syms_of_len (lens : list N) (l : N) : list N :=
  map (fun p => N.of_nat (fst p)) (filter (fun p => N.eqb l (snd p)) (combine (seq 0 (length lens)) lens)).
Definition sorted_syms (lens : list N) : list N := flat_map (syms_of_len lens) len_range.

Definition kraft (lens : list N) : N := fold_left (fun acc l => acc + N.shiftl 1 (20 - l)) lens 0.
Definition kraft_full : N := N.shiftl 1 20.

Fixpoint dsym (cnts : list N) (sorted : list N) (code first index : N) : prog N :=
  match cnts with
  | [] => Fail ErrIncomplete
  | c :: cs => Bit (fun b =>
      let code' := code + (if b then 1 else 0) in
      if code' <? first + c then Ret (nth (N.to_nat (index + (code' - first))) sorted 0)
      else dsym cs sorted (2 * code') (2 * (first + c)) (index + c))
  end.

Definition decode_sym (lens : list N) : prog N := dsym (counts lens) (sorted_syms lens) 0 0 0.

(* one group: at most [n] symbols, stops after EOB (alphabet index alpha-1) *)
Fixpoint read_group (lens : list N) (eob : N) (n : nat) : prog (list N * bool) :=
  match n with
  | 0%nat => Ret ([], false)
  | S n' => s <- decode_sym lens ;;
            if s =? eob then Ret ([], true)
            else r <- read_group lens eob n' ;; Ret (s :: fst r, snd r)
  end.

(* inverse MTF of the selector sequence over the list [0;1;..;5] *)
Definition mtf_front {A} (i : nat) (l : list A) (d : A) : A * list A :=
  (nth i l d, nth i l d :: (firstn i l ++ skipn (S i) l)).

Fixpoint unmtf_selectors (order : list N) (sels : list N) : list N :=
  match sels with
  | [] => []
  | s :: r => let '(t, order') := mtf_front (N.to_nat s) order 0 in t :: unmtf_selectors order' r
  end.

Definition group_size : nat := 50.

Fixpoint read_groups (pol : policy) (tables : list (list N)) (eob : N) (sels : list N) : prog (list N) :=
  match sels with
  | [] => Fail ErrUnterm
  | t :: r =>
      let lens := nth (N.to_nat t) tables [] in
      match table_check pol lens with
      | Err e => Fail e
      | Ok _ =>
          g <- read_group lens eob group_size ;;
          if snd g then Ret (fst g)
          else rest <- read_groups pol tables eob r ;; Ret (fst g ++ rest)
      end
  end.

Record raw_block := {
  rb_rand : bool; rb_idx : N; rb_used : list N; rb_mtfv : list N;
  rb_ntrees : N; rb_nsel : N; rb_tables : list (list N);
}.

Definition read_block (pol : policy) (fuel : nat) : prog raw_block :=
  rnd <- take 1 ;;
  idx <- take 24 ;;
  used <- read_bitmap ;;
  _ <- guard (negb (N.of_nat (length used) =? 0)) ErrBitmap ;;
  let alpha := (length used + 2)%nat in
  nt <- take 3 ;;
  _ <- guard ((2 <=? nt) && (nt <=? 6)) ErrTrees ;;
  ns <- take 15 ;;
  _ <- guard (negb (ns =? 0)) ErrGroups ;;
  selm <- repeat_prog (N.to_nat ns) (read_unary (N.to_nat nt) 0) ;;
  tables <- repeat_prog (N.to_nat nt) (read_table pol fuel alpha) ;;
  let sels := unmtf_selectors [0; 1; 2; 3; 4; 5] (firstn (N.to_nat (sel_clamp pol)) selm) in
  mtfv <- read_groups pol tables (N.of_nat alpha - 1) sels ;;
  Ret {| rb_rand := negb (rnd =? 0); rb_idx := idx; rb_used := used; rb_mtfv := mtfv;
         rb_ntrees := nt; rb_nsel := ns; rb_tables := tables |}.

(* ---- inverse MTF + zero-run decoding ---------------------------------------------------- *)
(* symbols: 0 = RUNA, 1 = RUNB, s >= 2 = MTF position s-1 *)
Fixpoint unmtf (limit : N) (order : list N) (run shift size : N) (acc : list (N * N)) (syms : list N)
  : result (list (N * N) * N) :=
  (* acc: reversed list of (byte, repeat count); size: bytes produced so far *)
  match syms with
  | [] =>
      if limit <? size + run then Err ErrOverflow
      else Ok ((hd 0 order, run) :: acc, size + run)
  | s :: r =>
      if s <=? 1 then unmtf limit order (run + N.shiftl (s + 1) shift) (shift + 1) size acc r
      else
        if limit <? size + run then Err ErrOverflow
        else
          let '(c, order') := mtf_front (N.to_nat (s - 1)) order 0 in
          unmtf limit order' 1 0 (size + run) ((hd 0 order, run) :: acc) r
  end.

Fixpoint expand_runs (l : list (N * N)) : list N :=
  match l with
  | [] => []
  | (c, n) :: r => repeat c (N.to_nat n) ++ expand_runs r
  end.

Definition unmtf_block (limit : N) (used mtfv : list N) : result (list N) :=
  match unmtf limit used 0 0 0 [] mtfv with
  | Err e => Err e
  | Ok (runs, _) => Ok (expand_runs (rev runs))
  end.

(* ---- inverse BWT: the linked list of decode() ------------------------------------------- *)
(* P[j] = index i of the j-th element in the stable sort of the last column *)
Definition stable_perm (tt : list N) : list N :=
  flat_map (fun c => map (fun p => N.of_nat (fst p))
                         (filter (fun p => N.eqb c (snd p)) (combine (seq 0 (length tt)) tt)))
           (map N.of_nat (seq 0 256)).

Fixpoint follow (n : nat) (P tt : list N) (j : N) : list N :=
  match n with
  | 0%nat => []
  | S n' => let j' := nth (N.to_nat j) P 0 in nth (N.to_nat j') tt 0 :: follow n' P tt j'
  end.

Definition ibwt (tt : list N) (idx : N) : list N := follow (length tt) (stable_perm tt) tt idx.

(* ---- derandomisation -------------------------------------------------------------------- *)
Fixpoint derand_pos (fuel : nat) (i j size : N) : list N :=
  match fuel with
  | 0%nat => []
  | S f => if j <? size then j :: derand_pos f (N.land (i + 1) 511) (j + nth (N.to_nat (N.land (i + 1) 511)) rand_table 0) size
           else []
  end.

Definition derand (blk : list N) : list N :=
  let size := N.of_nat (length blk) in
  let ps := derand_pos (length blk) 0 RAND_THRESH size in
  map (fun p => if existsb (N.eqb (N.of_nat (fst p))) ps then N.lxor (snd p) 1 else snd p)
      (combine (seq 0 (length blk)) blk).

(* ---- final run-length decoding ---------------------------------------------------------- *)
(* state: previous byte (256 = none) and how many equal bytes in a row so far *)
Fixpoint unrle (strict : bool) (prev cnt : N) (blk : list N) : result (list N) :=
  match blk with
  | [] => if strict && (cnt =? 4) then Err ErrRunlen else Ok []
  | c :: r =>
      if cnt =? 4 then
        (* c is a repeat count for prev *)
        rbind (unrle strict 256 0 r) (fun o => Ok (repeat prev (N.to_nat c) ++ o))
      else
        let cnt' := if c =? prev then cnt + 1 else 1 in
        rbind (unrle strict c cnt' r) (fun o => Ok (c :: o))
  end.

(* ---- one block, after its 48-bit magic and 32-bit CRC ---------------------------------- *)
Definition decode_block (pol : policy) (level : N) (rb : raw_block) : result (list N) :=
  rbind (unmtf_block (100000 * level) (rb_used rb) (rb_mtfv rb)) (fun tt =>
  if N.of_nat (length tt) =? 0 then Err ErrEmpty
  else if N.of_nat (length tt) <=? rb_idx rb then Err ErrBwtIdx
  else
    let b := ibwt tt (rb_idx rb) in
    let b := if rb_rand rb then derand b else b in
    unrle (runlen_strict pol) 256 0 b).

(* ---- stream level (parse.c) -------------------------------------------------------------- *)
Definition block_magic : N := 0x314159265359.
Definition eos_magic : N := 0x177245385090.

Definition align_drop (bits : list bool) : list bool := skipn (length bits mod 8) bits.

(* what follows an end-of-stream trailer: nothing/garbage (None) or a new stream at [level] *)
Definition next_stream (bits : list bool) : option (N * list bool) :=
  match run (take 16) bits with
  | Ok (w1, r1) =>
      if w1 =? 0x425A then
        match run (take 16) r1 with
        | Ok (w2, r2) => if (0x6831 <=? w2) && (w2 <=? 0x6839) then Some (N.land w2 15, r2) else None
        | Err _ => None
        end
      else None
  | Err _ => None
  end.

(* returns the output bytes and the offsets (relative to [bits]) of the stored CRC fields *)
Fixpoint decode_from (pol : policy) (fuel : nat) (level : N) (ccrc : N) (bits : list bool)
  : result (list N * list nat) :=
  match fuel with
  | 0%nat => Err ErrFuel
  | S f =>
      match run (take 48) bits with
      | Err e => Err e
      | Ok (magic, r1) =>
          if magic =? block_magic then
            match run (take 32) r1 with
            | Err e => Err e
            | Ok (crc, r2) =>
                match run (read_block pol (S (length bits))) r2 with
                | Err e => Err e
                | Ok (rb, r3) =>
                    match decode_block pol level rb with
                    | Err e => Err e
                    | Ok out =>
                        if negb (N.lxor (crc_bytes mask32 out) mask32 =? crc) then Err ErrBlkCrc
                        else
                          match decode_from pol f level (combine_stream_crc ccrc crc) r3 with
                          | Err e => Err e
                          | Ok (o, ps) => Ok (out ++ o, 48%nat :: map (fun p => (length bits - length r3 + p)%nat) ps)
                          end
                    end
                end
            end
          else if magic =? eos_magic then
            match run (take 32) r1 with
            | Err e => Err e
            | Ok (scrc, r2) =>
                if negb (scrc =? ccrc) then Err ErrStrmCrc
                else
                  match next_stream (align_drop r2) with
                  | None => Ok ([], [48%nat])
                  | Some (level', r3) =>
                      match decode_from pol f level' 0 r3 with
                      | Err e => Err e
                      | Ok (o, ps) => Ok (o, 48%nat :: map (fun p => (length bits - length r3 + p)%nat) ps)
                      end
                  end
            end
          else Err ErrHeader
      end
  end.

Fixpoint bits_of_bytes (bs : list N) : list bool :=
  match bs with
  | [] => []
  | b :: r => bits8 b ++ bits_of_bytes r
  end.

(* the whole file: work() sniffs the 4-byte header (process.c: ntohl(header) in
   MAGIC(1)..MAGIC(9)), then the parser runs on what follows *)
Definition decode_bits_info (pol : policy) (bits : list bool) : result (list N * list nat) :=
  match run (take 32) bits with
  | Ok (h, rest) =>
      if (0x425A6831 <=? h) && (h <=? 0x425A6839) then
        match decode_from pol (S (length rest)) (h - 0x425A6830) 0 rest with
        | Err e => Err e
        | Ok (o, ps) => Ok (o, map (fun p => (32 + p)%nat) ps)
        end
      else Err ErrNotBzip2
  | Err _ => Err ErrNotBzip2
  end.

Definition decode_file_info (pol : policy) (file : list N) : result (list N * list nat) :=
  decode_bits_info pol (bits_of_bytes file).

Definition decode_file (pol : policy) (file : list N) : result (list N) :=
  match decode_file_info pol file with
  | Ok (o, _) => Ok o
  | Err e => Err e
  end.
