(* Refinement between decoding policies (C05/C06) and CRC enforcement (C15). *)
From Coq Require Import List NArith Arith Bool Lia.
From LBZ Require Import Common.Bits Dec.Prog Dec.Sim Dec.Format Dec.Delta Dec.DeltaProofs Dec.Policies
  Gen.DecTabs Gen.Consts.
Import ListNotations.
Local Open Scope N_scope.

(* ---- small facts about readers ------------------------------------------------------ *)
Lemma take_acc_lt n : forall acc bits v r, run (take_acc n acc) bits = Ok (v, r) ->
  v < (acc + 1) * 2 ^ N.of_nat n.
Proof.
  induction n as [|n IH]; intros acc bits v r H.
  - simpl in H. inversion H; subst. simpl. lia.
  - cbn [take_acc run] in H. destruct bits as [|b rest]; [discriminate|].
    apply IH in H. rewrite Nat2N.inj_succ, N.pow_succ_r'. destruct b; nia.
Qed.

Lemma take_lt n bits v r : run (take n) bits = Ok (v, r) -> v < 2 ^ N.of_nat n.
Proof. intro H. apply take_acc_lt in H. lia. Qed.

Definition prog_le {A} (p q : prog A) : Prop :=
  forall bits v r, run p bits = Ok (v, r) -> run q bits = Ok (v, r).

Lemma prog_le_refl {A} (p : prog A) : prog_le p p.
Proof. intros bits v r H. exact H. Qed.

Lemma bind_le {A B} (p q : prog A) (f g : A -> prog B) :
  prog_le p q -> (forall a, prog_le (f a) (g a)) -> prog_le (bind p f) (bind q g).
Proof.
  intros Hp Hf bits v r H. rewrite run_bind in *.
  destruct (run p bits) as [[a r1]|e] eqn:E; [|discriminate].
  rewrite (Hp _ _ _ E). apply Hf. exact H.
Qed.

Lemma repeat_prog_le {A} (p q : prog A) n : prog_le p q -> prog_le (repeat_prog n p) (repeat_prog n q).
Proof.
  intro H. induction n as [|n IH]; cbn [repeat_prog]; [apply prog_le_refl|].
  apply bind_le; [exact H|]. intro a. apply bind_le; [exact IH|]. intro. apply prog_le_refl.
Qed.

(* ---- policy refinement ------------------------------------------------------------------- *)
Definition pol_le (p q : policy) : Prop :=
  (forall fuel cur bits v r, cur < 32 ->
     run (delta_reader p fuel cur) bits = Ok (v, r) ->
     run (delta_reader q fuel cur) bits = Ok (v, r) /\ v < 32) /\
  (forall lens u, table_check p lens = Ok u -> table_check q lens = Ok u) /\
  (runlen_strict q = true -> runlen_strict p = true) /\
  sel_clamp p = sel_clamp q.

Section Refine.
  Variables p q : policy.
  Hypothesis Hle : pol_le p q.

  Lemma read_lens_le fuel n : forall cur bits ls r, cur < 32 ->
    run (read_lens p fuel n cur) bits = Ok (ls, r) -> run (read_lens q fuel n cur) bits = Ok (ls, r).
  Proof.
    destruct Hle as [Hd _].
    induction n as [|n IH]; intros cur bits ls r Hc H; cbn [read_lens] in *; [exact H|].
    rewrite run_bind in *. destruct (run (delta_reader p fuel cur) bits) as [[l r1]|e] eqn:E; [|discriminate].
    destruct (Hd _ _ _ _ _ Hc E) as [E' Hl]. rewrite E'.
    rewrite run_bind in *. destruct (run (read_lens p fuel n l) r1) as [[ls' r2]|e] eqn:E2; [|discriminate].
    rewrite (IH _ _ _ _ Hl E2). exact H.
  Qed.

  Lemma read_table_le fuel alpha : prog_le (read_table p fuel alpha) (read_table q fuel alpha).
  Proof.
    intros bits v r H. unfold read_table in *. rewrite run_bind in *.
    destruct (run (take 5) bits) as [[s r1]|e] eqn:E; [|discriminate].
    apply read_lens_le; [|exact H]. apply take_lt in E. simpl in E. exact E.
  Qed.

  Lemma read_groups_le tables eob : forall sels, prog_le (read_groups p tables eob sels) (read_groups q tables eob sels).
  Proof.
    destruct Hle as [_ [Ht _]].
    induction sels as [|t rest IH]; cbn [read_groups]; [apply prog_le_refl|].
    intros bits v r H.
    destruct (table_check p (nth (N.to_nat t) tables [])) as [u|e] eqn:E; [|discriminate].
    rewrite (Ht _ _ E). revert bits v r H. apply bind_le; [apply prog_le_refl|].
    intro g. destruct (snd g); [apply prog_le_refl|]. apply bind_le; [exact IH|]. intro. apply prog_le_refl.
  Qed.

  Lemma read_block_le fuel : prog_le (read_block p fuel) (read_block q fuel).
  Proof.
    unfold read_block. destruct Hle as [_ [_ [_ Hc]]]. rewrite Hc.
    repeat (apply bind_le; [apply prog_le_refl|intro]).
    apply bind_le; [apply repeat_prog_le; apply read_table_le|intro].
    apply bind_le; [apply read_groups_le|intro]. apply prog_le_refl.
  Qed.

  Lemma unrle_le : forall blk prev cnt o,
    unrle (runlen_strict p) prev cnt blk = Ok o -> unrle (runlen_strict q) prev cnt blk = Ok o.
  Proof.
    destruct Hle as [_ [_ [Hs _]]].
    induction blk as [|c r IH]; intros prev cnt o H; cbn [unrle] in *.
    - destruct (runlen_strict q) eqn:Eq.
      + rewrite (Hs eq_refl) in H. exact H.
      + destruct (runlen_strict p && (cnt =? 4)); [discriminate|]. exact H.
    - destruct (cnt =? 4).
      + destruct (unrle (runlen_strict p) 256 0 r) as [o'|e] eqn:E; [|discriminate].
        rewrite (IH _ _ _ E). exact H.
      + destruct (unrle (runlen_strict p) c (if c =? prev then cnt + 1 else 1) r) as [o'|e] eqn:E; [|discriminate].
        rewrite (IH _ _ _ E). exact H.
  Qed.

  Lemma decode_block_le level rb o : decode_block p level rb = Ok o -> decode_block q level rb = Ok o.
  Proof.
    unfold decode_block. destruct (unmtf_block (100000 * level) (rb_used rb) (rb_mtfv rb)) as [tt|e]; cbn [rbind]; [|discriminate].
    destruct (N.of_nat (length tt) =? 0); [discriminate|].
    destruct (N.of_nat (length tt) <=? rb_idx rb); [discriminate|]. apply unrle_le.
  Qed.

  Lemma decode_from_le : forall fuel level ccrc bits x,
    decode_from p fuel level ccrc bits = Ok x -> decode_from q fuel level ccrc bits = Ok x.
  Proof.
    induction fuel as [|f IH]; intros level ccrc bits x H; cbn [decode_from] in *; [discriminate|].
    destruct (run (take 48) bits) as [[magic r1]|e]; [|discriminate].
    destruct (magic =? block_magic).
    - destruct (run (take 32) r1) as [[crc r2]|e]; [|discriminate].
      destruct (run (read_block p (S (length bits))) r2) as [[rb r3]|e] eqn:E; [|discriminate].
      rewrite (read_block_le _ _ _ _ E).
      destruct (decode_block p level rb) as [out|e] eqn:E2; [|discriminate].
      rewrite (decode_block_le _ _ _ E2).
      destruct (negb (N.lxor (crc_bytes mask32 out) mask32 =? crc)); [discriminate|].
      destruct (decode_from p f level (combine_stream_crc ccrc crc) r3) as [[o ps]|e] eqn:E3; [|discriminate].
      rewrite (IH _ _ _ _ E3). exact H.
    - destruct (magic =? eos_magic); [|discriminate].
      destruct (run (take 32) r1) as [[scrc r2]|e]; [|discriminate].
      destruct (negb (scrc =? ccrc)); [discriminate|].
      destruct (next_stream (align_drop r2)) as [[level' r3]|]; [|exact H].
      destruct (decode_from p f level' 0 r3) as [[o ps]|e] eqn:E3; [|discriminate].
      rewrite (IH _ _ _ _ E3). exact H.
  Qed.

  Theorem decode_file_le file o : decode_file p file = Ok o -> decode_file q file = Ok o.
  Proof.
    unfold decode_file, decode_file_info, decode_bits_info.
    destruct (run (take 32) (bits_of_bytes file)) as [[h rest]|e]; [|discriminate].
    destruct ((1113221169 <=? h) && (h <=? 1113221177)); [|discriminate].
    destruct (decode_from p (S (length rest)) (h - 1113221168) 0 rest) as [[o' ps]|e] eqn:E; [|discriminate].
    rewrite (decode_from_le _ _ _ _ _ E). intro H. exact H.
  Qed.
End Refine.

(* ---- the concrete refinements ---------------------------------------------------------- *)
Lemma closed_ws_true : closed_ws = true.
Proof. vm_compute. reflexivity. Qed.
Lemma closed_sw_true : closed_sw = true.
Proof. vm_compute. reflexivity. Qed.
Lemma tables_prefix_consistent_true : tables_prefix_consistent = true.
Proof. vm_compute. reflexivity. Qed.
Lemma sel_table_ok_true : sel_table_ok = true.
Proof. vm_compute. reflexivity. Qed.

Lemma complete_only_le lens u : complete_only lens = Ok u -> not_oversubscribed lens = Ok u.
Proof.
  unfold complete_only, not_oversubscribed. destruct (N.eqb_spec (kraft lens) kraft_full) as [E|E].
  - intro H. rewrite E, N.leb_refl. exact H.
  - destruct (kraft lens <? kraft_full); discriminate.
Qed.

Lemma lbz_le_ref : pol_le lbz_policy ref_policy.
Proof.
  split; [|split].
  - intros fuel cur bits v r Hc H. cbn [delta_reader lbz_policy ref_policy] in *.
    pose proof (win_to_strict closed_ws_true fuel cur bits v r Hc H) as H'. split; [exact H'|].
    eapply strict_delta_range. exact H'.
  - intros lens u H. cbn [table_check lbz_policy ref_policy] in *. apply complete_only_le. exact H.
  - split; [intro; reflexivity|reflexivity].
Qed.

Lemma noexc_le_lbz : pol_le ref_noexc_policy lbz_policy.
Proof.
  split; [|split].
  - intros fuel cur bits v r Hc H. cbn [delta_reader lbz_policy ref_noexc_policy] in *. split.
    + apply (strict_to_win closed_sw_true); assumption.
    + eapply strict_delta_range. exact H.
  - intros lens u H. exact H.
  - split; [intro; reflexivity|reflexivity].
Qed.

Lemma noexc_le_ref : pol_le ref_noexc_policy ref_policy.
Proof.
  split; [|split].
  - intros fuel cur bits v r Hc H. split; [exact H|]. eapply strict_delta_range. exact H.
  - intros lens u H. apply complete_only_le. exact H.
  - split; [intro; reflexivity|reflexivity].
Qed.

Lemma ref_le_lenient : pol_le ref_policy ref_lenient_policy.
Proof.
  split; [|split].
  - intros fuel cur bits v r Hc H. split; [exact H|]. eapply strict_delta_range. exact H.
  - intros lens u H. exact H.
  - split; [cbn; discriminate|reflexivity].
Qed.

Theorem lbz_sound file o : lbz_decode file = Ok o -> ref_decode file = Ok o.
Proof. apply decode_file_le. apply lbz_le_ref. Qed.

Theorem lbz_complete file o : ref_noexc_decode file = Ok o -> lbz_decode file = Ok o.
Proof. apply decode_file_le. apply noexc_le_lbz. Qed.

Theorem noexc_sound file o : ref_noexc_decode file = Ok o -> ref_decode file = Ok o.
Proof. apply decode_file_le. apply noexc_le_ref. Qed.

Theorem ref_lenient_ext file o : ref_decode file = Ok o -> ref_lenient_decode file = Ok o.
Proof. apply decode_file_le. apply ref_le_lenient. Qed.

Lemma policies_differ :
  delta_reader ref_noexc_policy = delta_reader ref_lenient_policy /\
  (forall lens, table_check ref_noexc_policy lens = Ok tt <-> kraft lens = kraft_full) /\
  (forall lens, table_check ref_lenient_policy lens = Ok tt <-> kraft lens <= kraft_full) /\
  runlen_strict ref_noexc_policy = true /\ runlen_strict ref_lenient_policy = false.
Proof.
  split; [reflexivity|]. split; [|split; [|split; reflexivity]].
  - intro lens. cbn [table_check ref_noexc_policy]. unfold complete_only.
    destruct (N.eqb_spec (kraft lens) kraft_full); [tauto|].
    split; [destruct (kraft lens <? kraft_full); discriminate|tauto].
  - intro lens. cbn [table_check ref_lenient_policy]. unfold not_oversubscribed.
    destruct (N.leb_spec (kraft lens) kraft_full); split; auto; try discriminate; lia.
Qed.

Lemma strict_lengths_in_range fuel cur bits v r :
  run (strict_delta fuel cur) bits = Ok (v, r) -> in_len_range v = true.
Proof. intro H. eapply strict_result_range; [|exact H]. unfold sinv; cbn [fst]; discriminate. Qed.
