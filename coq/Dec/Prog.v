(* Bit-reader programs: decision trees over the input bits.  Every decoder piece
   that reads the bit stream is a [prog]; this gives, once and for all, the
   frame property (a reader's result depends only on the bits it consumed). *)
From Coq Require Import List NArith Arith Bool Lia.
Import ListNotations.

Inductive err :=
| EOF | ErrNotBzip2 | ErrHeader | ErrBitmap | ErrTrees | ErrGroups | ErrSelector | ErrDelta
| ErrPrefix | ErrIncomplete | ErrEmpty | ErrUnterm | ErrRunlen | ErrBlkCrc | ErrStrmCrc
| ErrOverflow | ErrBwtIdx | ErrFuel | ErrTable.

Inductive result (A : Type) := Ok (a : A) | Err (e : err).
Arguments Ok {A} a.
Arguments Err {A} e.

Definition rbind {A B} (r : result A) (f : A -> result B) : result B :=
  match r with Ok a => f a | Err e => Err e end.

Inductive prog (A : Type) :=
| Ret (a : A)
| Bit (k : bool -> prog A)
| Fail (e : err).
Arguments Ret {A} a.
Arguments Bit {A} k.
Arguments Fail {A} e.

Fixpoint bind {A B} (p : prog A) (f : A -> prog B) : prog B :=
  match p with
  | Ret a => f a
  | Bit k => Bit (fun b => bind (k b) f)
  | Fail e => Fail e
  end.

Fixpoint run {A} (p : prog A) (bits : list bool) : result (A * list bool) :=
  match p with
  | Ret a => Ok (a, bits)
  | Fail e => Err e
  | Bit k => match bits with
             | [] => Err EOF
             | b :: r => run (k b) r
             end
  end.

Notation "x <- p ;; q" := (bind p (fun x => q)) (at level 61, p at next level, right associativity).

(* read [n] bits, most significant first *)
Fixpoint take_acc (n : nat) (acc : N) : prog N :=
  match n with
  | 0 => Ret acc
  | S n' => Bit (fun b => take_acc n' (2 * acc + (if b then 1 else 0))%N)
  end.
Definition take (n : nat) : prog N := take_acc n 0%N.

Definition guard (c : bool) (e : err) : prog unit := if c then Ret tt else Fail e.

(* repeat a reader n times, collecting results in order *)
Fixpoint repeat_prog {A} (n : nat) (p : prog A) : prog (list A) :=
  match n with
  | 0 => Ret []
  | S n' => x <- p ;; xs <- repeat_prog n' p ;; Ret (x :: xs)
  end.

(* ---- finite-state machines as programs ------------------------------------- *)
Inductive mstatus (A : Type) := MRun | MDone (a : A) | MFail (e : err).
Arguments MRun {A}.
Arguments MDone {A} a.
Arguments MFail {A} e.

Record machine (S A : Type) := { mstep : S -> bool -> S; mstat : S -> mstatus A }.
Arguments mstep {S A} m s b.
Arguments mstat {S A} m s.

Fixpoint mprog {S A} (m : machine S A) (fuel : nat) (s : S) : prog A :=
  match mstat m s with
  | MDone a => Ret a
  | MFail e => Fail e
  | MRun => match fuel with
            | 0 => Fail ErrFuel
            | S f => Bit (fun b => mprog m f (mstep m s b))
            end
  end.
