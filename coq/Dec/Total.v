(* The decoder never runs out of fuel: with the fuel decode_file gives it, every
   loop is bounded by the number of input bits (no-hang at codec level). *)
From Coq Require Import List NArith Arith Bool Lia.
From LBZ Require Import Common.Bits Dec.Prog Dec.Sim Dec.Format Dec.Delta Dec.Policies.
Import ListNotations.

Definition nf {A} (n : nat) (p : prog A) : Prop :=
  forall bits, (length bits <= n)%nat -> run p bits <> Err ErrFuel.

Lemma run_rest_le {A} (p : prog A) bits a r : run p bits = Ok (a, r) -> (length r <= length bits)%nat.
Proof. intro H. destruct (run_frame p bits a r H) as [d [E _]]. subst. rewrite app_length. lia. Qed.

Lemma nf_ret {A} n (a : A) : nf n (Ret a).
Proof. intros bits _. discriminate. Qed.

Lemma nf_fail {A} n e : e <> ErrFuel -> nf n (@Fail A e).
Proof. intros H bits _ E. simpl in E. congruence. Qed.

Lemma nf_bit {A} n (k : bool -> prog A) : (forall b, nf (n - 1) (k b)) -> nf n (Bit k).
Proof.
  intros H bits Hl. simpl. destruct bits as [|b r]; [discriminate|]. apply H. simpl in Hl. lia.
Qed.

Lemma nf_mono {A} n m (p : prog A) : (m <= n)%nat -> nf n p -> nf m p.
Proof. intros H Hn bits Hl. apply Hn. lia. Qed.

Lemma nf_bind {A B} n (p : prog A) (f : A -> prog B) : nf n p -> (forall a, nf n (f a)) -> nf n (bind p f).
Proof.
  intros Hp Hf bits Hl. rewrite run_bind. destruct (run p bits) as [[a r]|e] eqn:E.
  - apply Hf. apply run_rest_le in E. lia.
  - intro H. apply (Hp bits Hl). congruence.
Qed.

Lemma nf_take_acc n k acc : nf n (take_acc k acc).
Proof.
  revert n acc. induction k as [|k IH]; intros n acc; cbn [take_acc]; [apply nf_ret|].
  apply nf_bit. intro b. apply IH.
Qed.

Lemma nf_take n k : nf n (take k).
Proof. apply nf_take_acc. Qed.

Lemma nf_guard n c e : e <> ErrFuel -> nf n (guard c e).
Proof. intro H. unfold guard. destruct c; [apply nf_ret|apply nf_fail; exact H]. Qed.

Lemma nf_repeat {A} n k (p : prog A) : nf n p -> nf n (repeat_prog k p).
Proof.
  intro H. induction k as [|k IH]; cbn [repeat_prog]; [apply nf_ret|].
  apply nf_bind; [exact H|]. intro. apply nf_bind; [exact IH|]. intro. apply nf_ret.
Qed.

Lemma nf_mprog {S A} (m : machine S A) : (forall s e, mstat m s = MFail e -> e <> ErrFuel) ->
  forall fuel n s, (n < fuel)%nat -> nf n (mprog m fuel s).
Proof.
  intros Hm. induction fuel as [|f IH]; intros n s Hn; [lia|].
  cbn [mprog]. destruct (mstat m s) eqn:E.
  - destruct (Nat.eq_dec n 0) as [->|Hne].
    + intros bits Hl. destruct bits; [simpl; discriminate|simpl in Hl; lia].
    + apply nf_bit. intro b. apply IH. lia.
  - apply nf_ret.
  - apply nf_fail. eapply Hm. exact E.
Qed.

Lemma strict_fail_codes s e : strict_stat s = MFail e -> e <> ErrFuel.
Proof.
  destruct s as [tag cur]. unfold strict_stat.
  destruct (N.eqb tag 0); [destruct (in_len_range cur); intro H; inversion H; discriminate|].
  destruct (N.eqb tag 1); [discriminate|]. destruct (N.eqb tag 2); intro H; inversion H; discriminate.
Qed.

Lemma win_fail_codes s e : win_stat s = MFail e -> e <> ErrFuel.
Proof.
  destruct s as [[[tag cur] j] v]. unfold win_stat.
  destruct (N.eqb tag 0); [discriminate|]. destruct (N.eqb tag 1); [discriminate|].
  destruct (N.eqb tag 2); intro H; inversion H; discriminate.
Qed.

Definition pol_nf (pol : policy) : Prop :=
  (forall fuel n cur, (n < fuel)%nat -> nf n (delta_reader pol fuel cur)) /\
  (forall lens e, table_check pol lens = Err e -> e <> ErrFuel).

Lemma lbz_pol_nf : pol_nf lbz_policy.
Proof.
  split.
  - intros fuel n cur H. apply (nf_mprog win_machine win_fail_codes). exact H.
  - intros lens e. cbn. unfold complete_only. destruct (N.eqb (kraft lens) kraft_full); [discriminate|].
    destruct (N.ltb (kraft lens) kraft_full); intro H; inversion H; discriminate.
Qed.

Lemma ref_pol_nf : pol_nf ref_policy.
Proof.
  split.
  - intros fuel n cur H. apply (nf_mprog strict_machine strict_fail_codes). exact H.
  - intros lens e. cbn. unfold not_oversubscribed. destruct (N.leb (kraft lens) kraft_full); [discriminate|].
    intro H; inversion H; discriminate.
Qed.

Section NoFuel.
  Variable pol : policy.
  Hypothesis Hp : pol_nf pol.

  Lemma nf_read_smalls n big : forall k i, nf n (read_smalls big i k).
  Proof.
    induction k as [|k IH]; intro i; cbn [read_smalls]; [apply nf_ret|].
    destruct (testbit16 big i); [|apply IH].
    apply nf_bind; [apply nf_take|]. intro. apply nf_bind; [apply IH|]. intro. apply nf_ret.
  Qed.

  Lemma nf_read_unary n : forall l c, nf n (read_unary l c).
  Proof.
    intros l. revert n. induction l as [|l IH]; intros n c; cbn [read_unary]; [apply nf_fail; discriminate|].
    apply nf_bit. intro b. destruct b; [apply IH|apply nf_ret].
  Qed.

  Lemma nf_read_lens fuel n : (n < fuel)%nat -> forall k cur, nf n (read_lens pol fuel k cur).
  Proof.
    intro H. induction k as [|k IH]; intro cur; cbn [read_lens]; [apply nf_ret|].
    apply nf_bind; [apply (proj1 Hp); exact H|]. intro. apply nf_bind; [apply IH|]. intro. apply nf_ret.
  Qed.

  Lemma nf_dsym n : forall cnts sorted code first index, nf n (dsym cnts sorted code first index).
  Proof.
    intros cnts. revert n. induction cnts as [|c cs IH]; intros n sorted code first index; cbn [dsym];
      [apply nf_fail; discriminate|].
    apply nf_bit. intro b. destruct (N.ltb _ _); [apply nf_ret|apply IH].
  Qed.

  Lemma nf_read_group n lens eob : forall k, nf n (read_group lens eob k).
  Proof.
    induction k as [|k IH]; cbn [read_group]; [apply nf_ret|].
    apply nf_bind; [apply nf_dsym|]. intro s. destruct (N.eqb s eob); [apply nf_ret|].
    apply nf_bind; [apply IH|]. intro. apply nf_ret.
  Qed.

  Lemma nf_read_groups n tables eob : forall sels, nf n (read_groups pol tables eob sels).
  Proof.
    induction sels as [|t r IH]; cbn [read_groups]; [apply nf_fail; discriminate|].
    destruct (table_check pol (nth (N.to_nat t) tables [])) eqn:E.
    - apply nf_bind; [apply nf_read_group|]. intro g. destruct (snd g); [apply nf_ret|].
      apply nf_bind; [apply IH|]. intro. apply nf_ret.
    - apply nf_fail. eapply (proj2 Hp). exact E.
  Qed.

  Lemma nf_read_block fuel n : (n < fuel)%nat -> nf n (read_block pol fuel).
  Proof.
    intro H. unfold read_block.
    apply nf_bind; [apply nf_take|intro].
    apply nf_bind; [apply nf_take|intro].
    apply nf_bind; [unfold read_bitmap; apply nf_bind; [apply nf_take|intro; apply nf_read_smalls]|intro].
    apply nf_bind; [apply nf_guard; discriminate|intro].
    apply nf_bind; [apply nf_take|intro].
    apply nf_bind; [apply nf_guard; discriminate|intro].
    apply nf_bind; [apply nf_take|intro].
    apply nf_bind; [apply nf_guard; discriminate|intro].
    apply nf_bind; [apply nf_repeat; apply nf_read_unary|intro].
    apply nf_bind; [apply nf_repeat; unfold read_table; apply nf_bind; [apply nf_take|intro; apply nf_read_lens; exact H]|intro].
    apply nf_bind; [apply nf_read_groups|intro]. apply nf_ret.
  Qed.

  Lemma unmtf_no_fuel limit : forall syms order run shift size acc e,
    unmtf limit order run shift size acc syms = Err e -> e <> ErrFuel.
  Proof.
    induction syms as [|s r IH]; intros order run shift size acc e H; cbn [unmtf] in H.
    - destruct (N.ltb limit (size + run)); inversion H; discriminate.
    - destruct (N.leb s 1); [eapply IH; exact H|].
      destruct (N.ltb limit (size + run)); [inversion H; discriminate|].
      destruct (mtf_front (N.to_nat (s - 1)) order 0%N). eapply IH; exact H.
  Qed.

  Lemma unrle_no_fuel strict : forall blk prev cnt e, unrle strict prev cnt blk = Err e -> e <> ErrFuel.
  Proof.
    induction blk as [|c r IH]; intros prev cnt e H; cbn [unrle] in H.
    - destruct (strict && N.eqb cnt 4)%bool; inversion H; discriminate.
    - destruct (N.eqb cnt 4).
      + destruct (unrle strict 256 0 r) eqn:E; cbn [rbind] in H; [discriminate|]. inversion H; subst. eapply IH; exact E.
      + destruct (unrle strict c (if N.eqb c prev then (cnt + 1)%N else 1%N) r) eqn:E; cbn [rbind] in H; [discriminate|].
        inversion H; subst. eapply IH; exact E.
  Qed.

  Lemma decode_block_no_fuel level rb e : decode_block pol level rb = Err e -> e <> ErrFuel.
  Proof.
    unfold decode_block, unmtf_block.
    destruct (unmtf (100000 * level) (rb_used rb) 0 0 0 [] (rb_mtfv rb)) as [[runs sz]|e'] eqn:E; cbn [rbind].
    - destruct (N.eqb _ 0); [intro H; inversion H; discriminate|].
      destruct (N.leb _ _); [intro H; inversion H; discriminate|]. apply unrle_no_fuel.
    - intro H. inversion H; subst. eapply unmtf_no_fuel. exact E.
  Qed.

  Lemma run_take_shrinks n bits v r : run (take (S n)) bits = Ok (v, r) -> (length r < length bits)%nat.
  Proof.
    unfold take. cbn [take_acc run]. destruct bits as [|b rest]; [discriminate|]. intro H.
    apply run_rest_le in H. simpl. lia.
  Qed.

  Theorem decode_from_no_fuel : forall fuel level ccrc bits,
    (length bits < fuel)%nat -> decode_from pol fuel level ccrc bits <> Err ErrFuel.
  Proof.
    induction fuel as [|f IH]; intros level ccrc bits Hl; [lia|]. cbn [decode_from].
    destruct (run (take 48) bits) as [[magic r1]|e] eqn:E48.
    2:{ intro H. apply (nf_take (length bits) 48 bits (le_n _)). congruence. }
    pose proof (run_take_shrinks _ _ _ _ E48) as L1.
    destruct (N.eqb magic block_magic).
    - destruct (run (take 32) r1) as [[crc r2]|e] eqn:E32.
      2:{ intro H. apply (nf_take (length r1) 32 r1 (le_n _)). congruence. }
      pose proof (run_rest_le _ _ _ _ E32) as L2.
      destruct (run (read_block pol (S (length bits))) r2) as [[rb r3]|e] eqn:Erb.
      2:{ intro H. apply (nf_read_block (S (length bits)) (length r2) ltac:(lia) r2 (le_n _)). congruence. }
      pose proof (run_rest_le _ _ _ _ Erb) as L3.
      destruct (decode_block pol level rb) as [out|e] eqn:Edb.
      2:{ intro H. inversion H; subst. eapply decode_block_no_fuel; eauto. }
      destruct (negb _); [discriminate|].
      destruct (decode_from pol f level (combine_stream_crc ccrc crc) r3) as [[o ps]|e] eqn:Erec; [discriminate|].
      intro H. inversion H; subst. apply (IH level (combine_stream_crc ccrc crc) r3); [lia|exact Erec].
    - destruct (N.eqb magic eos_magic); [|discriminate].
      destruct (run (take 32) r1) as [[scrc r2]|e] eqn:E32.
      2:{ intro H. apply (nf_take (length r1) 32 r1 (le_n _)). congruence. }
      pose proof (run_rest_le _ _ _ _ E32) as L2.
      destruct (negb _); [discriminate|].
      destruct (next_stream (align_drop r2)) as [[level' r3]|] eqn:Ens; [|discriminate].
      assert (L3 : (length r3 <= length r2)%nat).
      { unfold next_stream in Ens.
        destruct (run (take 16) (align_drop r2)) as [[w1 q1]|] eqn:A1; [|discriminate].
        destruct (N.eqb w1 16986); [|discriminate].
        destruct (run (take 16) q1) as [[w2 q2]|] eqn:A2; [|discriminate].
        destruct (_ && _)%bool; [|discriminate]. inversion Ens; subst.
        apply run_rest_le in A1. apply run_rest_le in A2. unfold align_drop in A1. rewrite skipn_length in A1. lia. }
      destruct (decode_from pol f level' 0 r3) as [[o ps]|e] eqn:Erec; [discriminate|].
      intro H. inversion H; subst. apply (IH level' 0%N r3); [lia|exact Erec].
  Qed.

  Theorem decode_file_no_fuel file : decode_file pol file <> Err ErrFuel.
  Proof.
    unfold decode_file, decode_file_info, decode_bits_info.
    destruct (run (take 32) (bits_of_bytes file)) as [[h rest]|e]; [|discriminate].
    destruct (_ && _)%bool; [|discriminate].
    destruct (decode_from pol (S (length rest)) (h - 1113221168) 0 rest) as [[o ps]|e] eqn:E; [discriminate|].
    intro H. inversion H; subst. apply (decode_from_no_fuel (S (length rest)) (h - 1113221168)%N 0%N rest); [lia|exact E].
  Qed.
End NoFuel.

From LBZ Require Import Dec.DecProofs.

Lemma always_verdict file : lbz_decode file <> Err ErrFuel /\ ref_decode file <> Err ErrFuel.
Proof. split; [apply (decode_file_no_fuel lbz_policy lbz_pol_nf)|apply (decode_file_no_fuel ref_policy ref_pol_nf)]. Qed.

Lemma invalid_rejected file : (forall o, ref_decode file <> Ok o) -> exists e, lbz_decode file = Err e /\ e <> ErrFuel.
Proof.
  intro H. destruct (lbz_decode file) as [o|e] eqn:E.
  - exfalso. apply (H o). apply lbz_sound. exact E.
  - exists e. split; [reflexivity|]. intro He. subst e. exact (proj1 (always_verdict file) E).
Qed.
