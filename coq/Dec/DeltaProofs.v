(* The table-driven delta reader of lbzip2 against the strict bit-by-bit reader:
   both directions, by a finite closed check over the regenerated tables lifted
   to all bit strings by Sim.sim_ok. *)
From Coq Require Import List NArith Arith Bool Lia.
From LBZ Require Import Common.Bits Dec.Prog Dec.Sim Gen.DecTabs Gen.Consts Dec.Delta.
Import ListNotations.
Local Open Scope N_scope.

Definition w_eqb (a b : wstate) : bool :=
  let '(a1, a2, a3, a4) := a in let '(b1, b2, b3, b4) := b in
  (a1 =? b1) && (a2 =? b2) && (a3 =? b3) && (a4 =? b4).
Definition s_eqb (a b : sstate) : bool :=
  let '(a1, a2) := a in let '(b1, b2) := b in (a1 =? b1) && (a2 =? b2).

Lemma w_eqb_eq a b : w_eqb a b = true -> a = b.
Proof.
  destruct a as [[[a1 a2] a3] a4], b as [[[b1 b2] b3] b4]. unfold w_eqb. intro H.
  repeat (apply andb_true_iff in H as [H ?]). apply N.eqb_eq in H.
  repeat match goal with E : (_ =? _) = true |- _ => apply N.eqb_eq in E end. subst. reflexivity.
Qed.
Lemma s_eqb_eq a b : s_eqb a b = true -> a = b.
Proof.
  destruct a as [a1 a2], b as [b1 b2]. unfold s_eqb. intro H.
  apply andb_true_iff in H as [H1 H2]. apply N.eqb_eq in H1. apply N.eqb_eq in H2. subst. reflexivity.
Qed.

Definition pair_eqb (p q : wstate * sstate) : bool := w_eqb (fst p) (fst q) && s_eqb (snd p) (snd q).

Definition is_run {A} (st : mstatus A) : bool := match st with MRun => true | _ => false end.

Definition succ_pairs (p : wstate * sstate) : list (wstate * sstate) :=
  let '(w, s) := p in
  if is_run (win_stat w) && is_run (strict_stat s) then
    [(win_step w false, strict_step s false); (win_step w true, strict_step s true)]
  else [].

Fixpoint add_new (ps new : list (wstate * sstate)) : list (wstate * sstate) :=
  match new with
  | [] => ps
  | p :: r => if existsb (pair_eqb p) ps then add_new ps r else add_new (ps ++ [p]) r
  end.

Fixpoint explore (d : nat) (ps : list (wstate * sstate)) : list (wstate * sstate) :=
  match d with
  | 0%nat => ps
  | S d' => explore d' (add_new ps (flat_map succ_pairs ps))
  end.

Definition init_pairs : list (wstate * sstate) :=
  map (fun c => ((0, N.of_nat c, 0, 0), (0, N.of_nat c))) (seq 0 32).

Definition pairs : list (wstate * sstate) := explore 7 init_pairs.

Definition rel_ws (w : wstate) (s : sstate) : bool := existsb (pair_eqb (w, s)) pairs.
Definition rel_sw (s : sstate) (w : wstate) : bool := rel_ws w s.

(* lbzip2 accepts => strict accepts (the direction that finding F1 breaks) *)
Definition closed_ws : bool :=
  forallb (fun p => compat win_machine strict_machine rel_ws 7 (fst p) (snd p)) pairs.
(* strict accepts => lbzip2 accepts *)
Definition closed_sw : bool :=
  forallb (fun p => compat strict_machine win_machine rel_sw 7 (snd p) (fst p)) pairs.

Lemma rel_ws_in w s : rel_ws w s = true -> In (w, s) pairs.
Proof.
  unfold rel_ws. intro H. apply existsb_exists in H as [[w' s'] [Hin He]].
  unfold pair_eqb in He. simpl in He. apply andb_true_iff in He as [H1 H2].
  apply w_eqb_eq in H1. apply s_eqb_eq in H2. subst. exact Hin.
Qed.

Lemma init_rel c : (c < 32) -> rel_ws (0, c, 0, 0) (0, c) = true.
Proof.
  intro H. assert (E : forallb (fun cc => rel_ws (0, N.of_nat cc, 0, 0) (0, N.of_nat cc)) (seq 0 32) = true)
    by (vm_compute; reflexivity).
  rewrite forallb_forall in E. specialize (E (N.to_nat c)). rewrite N2Nat.id in E. apply E. apply in_seq. lia.
Qed.

Section WithClosedWS.
  Hypothesis Hc : closed_ws = true.
  Theorem win_to_strict fuel cur bits v r : cur < 32 ->
    run (win_delta fuel cur) bits = Ok (v, r) -> run (strict_delta fuel cur) bits = Ok (v, r).
  Proof.
    intros Hcur H. unfold win_delta, strict_delta in *.
    eapply (sim_ok win_machine strict_machine rel_ws 7); [|apply init_rel; exact Hcur|exact H].
    intros w s Hr. apply rel_ws_in in Hr. unfold closed_ws in Hc. rewrite forallb_forall in Hc.
    exact (Hc (w, s) Hr).
  Qed.
End WithClosedWS.

Section WithClosedSW.
  Hypothesis Hc : closed_sw = true.
  Theorem strict_to_win fuel cur bits v r : cur < 32 ->
    run (strict_delta fuel cur) bits = Ok (v, r) -> run (win_delta fuel cur) bits = Ok (v, r).
  Proof.
    intros Hcur H. unfold win_delta, strict_delta in *.
    eapply (sim_ok strict_machine win_machine rel_sw 7); [|apply init_rel; exact Hcur|exact H].
    intros s w Hr. unfold rel_sw in Hr. apply rel_ws_in in Hr. unfold closed_sw in Hc. rewrite forallb_forall in Hc.
    exact (Hc (w, s) Hr).
  Qed.
End WithClosedSW.

(* results of the strict reader are code lengths in range *)
Definition sinv (s : sstate) : Prop := fst s = 2 -> in_len_range (snd s) = true.

Lemma strict_step_inv s b : sinv s -> sinv (strict_step s b).
Proof.
  destruct s as [tag cur]. unfold sinv, strict_step. cbn [fst snd]. intro Hinv.
  destruct (tag =? 0) eqn:E0.
  - destruct (in_len_range cur) eqn:R; destruct b; cbn [fst snd]; intro H; try discriminate; auto.
  - destruct (tag =? 1) eqn:E1; cbn [fst snd]; intro H; [discriminate|auto].
Qed.

Lemma strict_result_range fuel : forall s bits v r,
  sinv s -> run (mprog strict_machine fuel s) bits = Ok (v, r) -> in_len_range v = true.
Proof.
  induction fuel as [|f IH]; intros s bits v r Hinv H; cbn [mprog mstat strict_machine] in H.
  - destruct s as [tag cur]. unfold strict_stat in H.
    destruct (tag =? 0) eqn:E0; [destruct (in_len_range cur); discriminate|].
    destruct (tag =? 1) eqn:E1; [discriminate|].
    destruct (tag =? 2) eqn:E2; [|discriminate]. cbn [run] in H. inversion H; subst.
    apply Hinv. apply N.eqb_eq in E2. exact E2.
  - destruct (strict_stat s) eqn:St.
    + cbn [run mstep strict_machine] in H. destruct bits as [|b rest]; [discriminate|].
      eapply IH; [|exact H]. apply strict_step_inv. exact Hinv.
    + cbn [run] in H. inversion H; subst. destruct s as [tag cur]. unfold strict_stat in St.
      destruct (tag =? 0) eqn:E0; [destruct (in_len_range cur); discriminate|].
      destruct (tag =? 1) eqn:E1; [discriminate|].
      destruct (tag =? 2) eqn:E2; [|discriminate]. inversion St; subst.
      apply Hinv. apply N.eqb_eq in E2. exact E2.
    + discriminate.
Qed.

Lemma strict_delta_range fuel cur bits v r :
  run (strict_delta fuel cur) bits = Ok (v, r) -> v < 32.
Proof.
  intro H. apply strict_result_range in H; [|unfold sinv; cbn [fst]; discriminate].
  unfold in_len_range in H. apply andb_true_iff in H as [_ H]. apply N.leb_le in H.
  assert (MAX_CODE_LENGTH < 32) by (vm_compute; reflexivity). lia.
Qed.
