(* The regenerated parse() state machine (Gen/ParseTab.v) refines the stream layer of the
   format (Dec/Format.v decode_from / decode_bits_info).

   Part 1  the table: what every case of the regenerated parse_step / parse_eof / parser_init
           does, proved by computation on the regenerated terms (a mutated source changes the
           terms and these lemmas stop compiling)
   Part 2  the loop of parse(): fuel irrelevance, one-iteration unfolding
   Part 3  arithmetic: 16-bit halves, the CRC combination, levels
   Part 4  machine driver = word-level stream skeleton (wstream), for every block handler
   Part 5  word-level skeleton vs Format.decode_from
   Part 6  whole file; stream CRC enforcement; input in pieces *)
From Coq Require Import List NArith ZArith Bool Lia.
From LBZ Require Import Common.Bits Dec.Prog Dec.Sim Dec.Format Dec.Policies Dec.DecProofs Dec.Total Dec.CrcProofs
  Dec.ParseVocab Gen.ParseTab Dec.ParseModel.
Import ListNotations.
Local Open Scope N_scope.

(* ================================================================================== *)
(* Part 1: the regenerated table                                                       *)
(* ================================================================================== *)
Ltac pm_unfold :=
  cbv beta iota zeta delta
    [parse_step parse_eof parser_init parse_entry_ok
     m_state m_ps_bs100k m_ps_stored_crc m_ps_computed_crc m_ps_stream_mode m_hd_bs100k m_hd_crc m_garbage m_buf
     set_state set_ps_bs100k set_ps_stored_crc set_ps_computed_crc set_ps_stream_mode set_hd_bs100k set_hd_crc
     set_garbage set_buf fst snd].

Ltac split_ifs :=
  repeat match goal with
         | |- context [if ?c then _ else _] => destruct c eqn:?
         end.

Ltac eqb_cases :=
  repeat match goal with
         | |- context [N.eqb ?a ?b] => destruct (N.eqb_spec a b)
         end; subst; cbn [negb]; try reflexivity; try congruence; try discriminate.

Lemma word_bits_16 : parse_word_bits = 16%nat.
Proof. reflexivity. Qed.

(* the states are distinct integers (ACCEPT of scantab.h does not collide with the enum) *)
Lemma pstate_codes_distinct : NoDup (map pstate_code all_pstates).
Proof.
  repeat (constructor; [cbn; intuition discriminate|]). constructor.
Qed.

Lemma pstate_eqb_spec a b : pstate_eqb a b = true <-> a = b.
Proof. destruct a, b; vm_compute; split; congruence. Qed.

Lemma all_pstates_complete s : In s all_pstates.
Proof. destruct s; cbn; tauto. Qed.

(* how work()/expand.c start the parser *)
Lemma file_magic_consts :
  file_magic_base + file_magic_lo = 0x425A6831 /\ file_magic_base + file_magic_hi = 0x425A6839 /\
  file_magic_base + file_magic_level_base = 0x425A6830 /\ expand_stream_mode = 0%Z.
Proof. repeat split; reflexivity. Qed.

Lemma parser_init_spec st b sc cc md hb hc g buf l sm :
  parser_init (mk_pmem st b sc cc md hb hc g buf) l sm = mk_pmem PS_BLOCK_MAGIC_1 l sc 0 sm hb hc g buf.
Proof. reflexivity. Qed.

Lemma entry_ok_spec m : parse_entry_ok m = negb (pstate_eqb (m_state m) PS_ACCEPT).
Proof. reflexivity. Qed.

Section Table.
  Variables (b : Z) (sc cc : N) (hb : Z) (hc g : N) (buf : list bool) (w : N).
  Local Notation M st := (mk_pmem st b sc cc 0%Z hb hc g buf).

  Lemma step_BLOCK_MAGIC_1 :
    parse_step (M PS_BLOCK_MAGIC_1) w =
    if w =? 0x1772 then (M PS_EOS_2, PCont)
    else if w =? 0x3141 then (M PS_BLOCK_MAGIC_2, PCont)
    else (M PS_BLOCK_MAGIC_1, PRet RC_ERR_HEADER).
  Proof.
    pm_unfold. eqb_cases.
  Qed.

  Lemma step_BLOCK_MAGIC_2 :
    parse_step (M PS_BLOCK_MAGIC_2) w =
    if w =? 0x5926 then (M PS_BLOCK_MAGIC_3, PCont) else (M PS_BLOCK_MAGIC_2, PRet RC_ERR_HEADER).
  Proof.
    pm_unfold. eqb_cases.
  Qed.

  Lemma step_BLOCK_MAGIC_3 :
    parse_step (M PS_BLOCK_MAGIC_3) w =
    if w =? 0x5359 then (M PS_BLOCK_CRC_1, PCont) else (M PS_BLOCK_MAGIC_3, PRet RC_ERR_HEADER).
  Proof.
    pm_unfold. eqb_cases.
  Qed.

  Lemma step_BLOCK_CRC_1 :
    parse_step (M PS_BLOCK_CRC_1) w = (mk_pmem PS_BLOCK_CRC_2 b w cc 0%Z hb hc g buf, PCont).
  Proof. reflexivity. Qed.

  (* the block CRC is the two halves glued together, all 32 bits; the stream CRC so far is
     rotated left by one (32 bits wide) and xor-ed with it *)
  Lemma step_BLOCK_CRC_2 :
    parse_step (M PS_BLOCK_CRC_2) w =
    let crc := N.lor ((N.shiftl sc 16) mod 2 ^ 32) w in
    (mk_pmem PS_BLOCK_MAGIC_1 b sc (N.lxor (N.lxor ((N.shiftl cc 1) mod 2 ^ 32) (N.shiftr cc 31)) crc) 0%Z b crc g buf,
     PRet RC_OK).
  Proof. reflexivity. Qed.

  Lemma step_EOS_2 :
    parse_step (M PS_EOS_2) w =
    if w =? 0x4538 then (M PS_EOS_3, PCont) else (M PS_EOS_2, PRet RC_ERR_HEADER).
  Proof.
    pm_unfold. eqb_cases.
  Qed.

  Lemma step_EOS_3 :
    parse_step (M PS_EOS_3) w =
    if w =? 0x5090 then (M PS_EOS_CRC_1, PCont) else (M PS_EOS_3, PRet RC_ERR_HEADER).
  Proof.
    pm_unfold. eqb_cases.
  Qed.

  Lemma step_EOS_CRC_1 :
    parse_step (M PS_EOS_CRC_1) w = (mk_pmem PS_EOS_CRC_2 b w cc 0%Z hb hc g buf, PCont).
  Proof. reflexivity. Qed.

  (* the stored stream CRC is the two halves glued together and ALL of it is compared with
     the computed one; on a match the computed CRC is reset, the buffer byte-aligned and a
     new stream may start *)
  Lemma step_EOS_CRC_2 :
    parse_step (M PS_EOS_CRC_2) w =
    let scrc := N.lor ((N.shiftl sc 16) mod 2 ^ 32) w in
    if scrc =? cc then (mk_pmem PS_STREAM_MAGIC_1 b scrc 0 0%Z hb hc g (bits_align buf), PCont)
    else (mk_pmem PS_EOS_CRC_2 b scrc cc 0%Z hb hc g buf, PRet RC_ERR_STRMCRC).
  Proof.
    pm_unfold. change (2 ^ 32) with 4294967296. eqb_cases.
  Qed.

  Lemma step_STREAM_MAGIC_1 :
    parse_step (M PS_STREAM_MAGIC_1) w =
    if w =? 0x425A then (M PS_STREAM_MAGIC_2, PCont)
    else (mk_pmem PS_ACCEPT b sc cc 0%Z (-1)%Z 0 16 buf, PRet RC_FINISH).
  Proof.
    pm_unfold. eqb_cases.
  Qed.

  Lemma step_STREAM_MAGIC_2 :
    parse_step (M PS_STREAM_MAGIC_2) w =
    if (0x6831 <=? w) && (w <=? 0x6839)
    then (mk_pmem PS_BLOCK_MAGIC_1 (int_of_u32 (N.land w 15)) sc cc 0%Z hb hc g buf, PCont)
    else (mk_pmem PS_ACCEPT b sc cc 0%Z (-1)%Z 0 32 buf, PRet RC_FINISH).
  Proof.
    pm_unfold.
    destruct (N.ltb_spec 0x6839 w), (N.ltb_spec w 0x6831), (N.leb_spec 0x6831 w), (N.leb_spec w 0x6839);
      cbn [orb andb negb]; try reflexivity; lia.
  Qed.

  Lemma eof_STREAM_MAGIC_1 :
    parse_eof (M PS_STREAM_MAGIC_1) = (mk_pmem PS_ACCEPT b sc cc 0%Z hb hc 0 buf, PRet RC_FINISH).
  Proof. reflexivity. Qed.

  Lemma eof_STREAM_MAGIC_2 :
    parse_eof (M PS_STREAM_MAGIC_2) = (mk_pmem PS_ACCEPT b sc cc 0%Z hb hc 16 buf, PRet RC_FINISH).
  Proof. reflexivity. Qed.

  Lemma eof_other st :
    st <> PS_STREAM_MAGIC_1 -> st <> PS_STREAM_MAGIC_2 -> parse_eof (M st) = (M st, PRet RC_ERR_EOF).
  Proof. destruct st; intros H1 H2; try congruence; reflexivity. Qed.
End Table.

(* no case of parse() makes the bit buffer longer (only bits_align touches it), and what it
   does to the rest of the memory does not depend on the buffer *)
Lemma bits_align_length buf : (length (bits_align buf) <= length buf)%nat.
Proof. unfold bits_align. rewrite skipn_length. lia. Qed.

Lemma parse_step_buf m w :
  m_buf (fst (parse_step m w)) = m_buf m \/ m_buf (fst (parse_step m w)) = bits_align (m_buf m).
Proof. destruct m as [st b sc cc md hb hc g buf]. destruct st; pm_unfold; split_ifs; auto. Qed.

Lemma parse_step_buf_le m w : (length (m_buf (fst (parse_step m w))) <= length (m_buf m))%nat.
Proof.
  destruct (parse_step_buf m w) as [H|H]; rewrite H; [lia|apply bits_align_length].
Qed.

(* ================================================================================== *)
(* Part 2: the loop of parse()                                                         *)
(* ================================================================================== *)
Lemma run_word_shrinks bits w rest :
  run (take parse_word_bits) bits = Ok (w, rest) -> (length rest < length bits)%nat.
Proof. apply (run_take_shrinks 15). Qed.

Lemma m_buf_set_buf m x : m_buf (set_buf m x) = x.
Proof. reflexivity. Qed.

Lemma parse_loop_fuel : forall f1 f2 m eof,
  (length (m_buf m) < f1)%nat -> (length (m_buf m) < f2)%nat -> parse_loop f1 m eof = parse_loop f2 m eof.
Proof.
  induction f1 as [|f1 IH]; intros f2 m eof H1 H2; [lia|]. destruct f2 as [|f2]; [lia|].
  cbn [parse_loop]. destruct (run (take parse_word_bits) (m_buf m)) as [[w rest]|e] eqn:E; [|reflexivity].
  pose proof (run_word_shrinks _ _ _ E) as L1.
  pose proof (parse_step_buf_le (set_buf m rest) w) as L2. rewrite m_buf_set_buf in L2.
  destruct (parse_step (set_buf m rest) w) as [m' [|c|]]; try reflexivity.
  cbn [fst] in L2. apply IH; lia.
Qed.

(* the fuel given by ploop is enough: PC_fuel never comes out *)
Lemma parse_loop_no_fuel : forall f m eof, (length (m_buf m) < f)%nat -> parse_loop f m eof <> PC_fuel.
Proof.
  induction f as [|f IH]; intros m eof H; [lia|]. cbn [parse_loop].
  destruct (run (take parse_word_bits) (m_buf m)) as [[w rest]|e] eqn:E.
  - pose proof (run_word_shrinks _ _ _ E) as L1.
    pose proof (parse_step_buf_le (set_buf m rest) w) as L2. rewrite m_buf_set_buf in L2.
    destruct (parse_step (set_buf m rest) w) as [m' [|c|]]; try discriminate.
    cbn [fst] in L2. apply IH. lia.
  - destruct eof; [|discriminate]. destruct (parse_eof m) as [m' [|c|]]; discriminate.
Qed.

Lemma ploop_unfold m eof :
  ploop m eof =
  match run (take 16) (m_buf m) with
  | Ok (w, rest) =>
      match parse_step (set_buf m rest) w with
      | (m', PCont) => ploop m' eof
      | (m', PRet c) => PC_ret c m'
      | (_, PAbort) => PC_abort
      end
  | Err _ =>
      if eof then match parse_eof m with (m', PRet c) => PC_ret c m' | _ => PC_abort end
      else PC_ret RC_MORE m
  end.
Proof.
  unfold ploop at 1. cbn [parse_loop]. change parse_word_bits with 16%nat.
  destruct (run (take 16) (m_buf m)) as [[w rest]|e] eqn:E; [|reflexivity].
  pose proof (run_word_shrinks _ _ _ E) as L1.
  pose proof (parse_step_buf_le (set_buf m rest) w) as L2. rewrite m_buf_set_buf in L2.
  destruct (parse_step (set_buf m rest) w) as [m' [|c|]]; try reflexivity.
  cbn [fst] in L2. unfold ploop. apply parse_loop_fuel; lia.
Qed.

Lemma ploop_step st b sc cc md hb hc g buf eof w rest :
  run (take 16) buf = Ok (w, rest) ->
  ploop (mk_pmem st b sc cc md hb hc g buf) eof =
  match parse_step (mk_pmem st b sc cc md hb hc g rest) w with
  | (m', PCont) => ploop m' eof
  | (m', PRet c) => PC_ret c m'
  | (_, PAbort) => PC_abort
  end.
Proof. intro H. rewrite ploop_unfold. cbn [m_buf]. rewrite H. reflexivity. Qed.

Lemma ploop_end st b sc cc md hb hc g buf e :
  run (take 16) buf = Err e ->
  ploop (mk_pmem st b sc cc md hb hc g buf) true =
  match parse_eof (mk_pmem st b sc cc md hb hc g buf) with (m', PRet c) => PC_ret c m' | _ => PC_abort end.
Proof. intro H. rewrite ploop_unfold. cbn [m_buf]. rewrite H. reflexivity. Qed.

(* ================================================================================== *)
(* Part 3: arithmetic                                                                  *)
(* ================================================================================== *)
Lemma lt_pow2_testbit x n : x < 2 ^ n -> forall k, n <= k -> N.testbit x k = false.
Proof.
  intros H k Hk. destruct (N.eq_dec x 0) as [->|Hx]; [apply N.bits_0|].
  apply N.bits_above_log2. apply N.log2_lt_pow2 in H; lia.
Qed.

Lemma testbit_lt_pow2 x n : (forall k, n <= k -> N.testbit x k = false) -> x < 2 ^ n.
Proof.
  intro H. destruct (N.lt_ge_cases x (2 ^ n)) as [L|L]; [exact L|exfalso].
  assert (Hx : 0 < x) by (pose proof (N.pow_nonzero 2 n); lia).
  apply N.log2_le_pow2 in L; [|exact Hx]. specialize (H _ L). rewrite N.bit_log2 in H; [discriminate|lia].
Qed.

(* two 16-bit halves glued together as parse() does it = the 32-bit field *)
Lemma glue_halves h l : h < 2 ^ 16 -> l < 2 ^ 16 -> N.lor ((N.shiftl h 16) mod 2 ^ 32) l = h * 65536 + l.
Proof.
  intros Hh Hl. rewrite N.shiftl_mul_pow2. change (2 ^ 16) with 65536 in *. change (2 ^ 32) with 4294967296.
  rewrite N.mod_small by lia.
  assert (E : N.land (h * 65536) l = 0).
  { apply N.bits_inj. intro k. rewrite N.land_spec, N.bits_0.
    destruct (N.lt_ge_cases k 16) as [L|L].
    - change 65536 with (2 ^ 16). rewrite N.mul_pow2_bits_low by exact L. reflexivity.
    - rewrite (lt_pow2_testbit l 16 Hl k L). apply andb_false_r. }
  rewrite <- (N.lxor_lor _ _ E). symmetry. apply N.add_nocarry_lxor. exact E.
Qed.

(* rotate left by one in 32 bits, as parse() writes it, = the rotl1_32 of the format *)
Lemma rotl_eq cc : cc < 2 ^ 32 -> N.lxor ((N.shiftl cc 1) mod 2 ^ 32) (N.shiftr cc 31) = rotl1_32 cc.
Proof.
  intro H. unfold rotl1_32. change mask32 with (N.ones 32). rewrite N.land_ones.
  apply N.lxor_lor. apply N.bits_inj. intro k. rewrite N.land_spec, N.bits_0, N.shiftr_spec'.
  destruct (N.eq_dec k 0) as [->|Hk].
  - rewrite N.mod_pow2_bits_low by lia. rewrite N.shiftl_spec_low by lia. reflexivity.
  - rewrite (lt_pow2_testbit cc 32 H (k + 31)) by lia. apply andb_false_r.
Qed.

Lemma combine_eq cc c :
  cc < 2 ^ 32 -> N.lxor (N.lxor ((N.shiftl cc 1) mod 2 ^ 32) (N.shiftr cc 31)) c = combine_stream_crc cc c.
Proof. intro H. unfold combine_stream_crc. rewrite rotl_eq by exact H. reflexivity. Qed.

Lemma combine_lt cc c : cc < 2 ^ 32 -> c < 2 ^ 32 -> combine_stream_crc cc c < 2 ^ 32.
Proof.
  intros H1 H2. apply testbit_lt_pow2. intros k Hk. unfold combine_stream_crc, rotl1_32.
  rewrite N.lxor_spec, N.lor_spec, N.land_spec, N.shiftr_spec'.
  change mask32 with (N.ones 32). rewrite N.ones_spec_high by exact Hk.
  rewrite (lt_pow2_testbit cc 32 H1 (k + 31)) by lia. rewrite (lt_pow2_testbit c 32 H2 k Hk).
  rewrite andb_false_r. reflexivity.
Qed.

Lemma level_of_word w : int_of_u32 (N.land w 15) = Z.of_N (N.land w 15).
Proof.
  unfold int_of_u32. change 15 with (N.ones 4). rewrite N.land_ones.
  pose proof (N.mod_upper_bound w (2 ^ 4) ltac:(discriminate)) as H. change (2 ^ 4) with 16 in *.
  destruct (N.ltb_spec (w mod 16) 2147483648); [reflexivity|lia].
Qed.

(* reading n1 + n2 bits = reading n1, then n2 *)
Lemma run_take_acc_shift n : forall acc bits,
  run (take_acc n acc) bits =
  match run (take_acc n 0) bits with
  | Ok (v, r) => Ok (acc * 2 ^ N.of_nat n + v, r)
  | Err e => Err e
  end.
Proof.
  induction n as [|n IH]; intros acc bits.
  - cbn [take_acc run]. f_equal. f_equal. cbn. lia.
  - cbn [take_acc run]. destruct bits as [|b r]; [reflexivity|].
    rewrite IH. rewrite (IH (2 * 0 + (if b then 1 else 0))).
    destruct (run (take_acc n 0) r) as [[v r']|e]; [|reflexivity].
    f_equal. f_equal. rewrite Nat2N.inj_succ, N.pow_succ_r'. destruct b; lia.
Qed.

Lemma run_take_acc_err n : forall acc bits e, run (take_acc n acc) bits = Err e -> e = EOF.
Proof.
  induction n as [|n IH]; intros acc bits e H; cbn [take_acc run] in H.
  - discriminate.
  - destruct bits as [|b r]; [inversion H; reflexivity|]. eapply IH. exact H.
Qed.

Lemma run_take_err n bits e : run (take n) bits = Err e -> e = EOF.
Proof. apply run_take_acc_err. Qed.

Lemma run_take_acc_add n1 n2 : forall acc bits,
  run (take_acc (n1 + n2) acc) bits =
  match run (take_acc n1 acc) bits with
  | Err e => Err e
  | Ok (h, r) => run (take_acc n2 h) r
  end.
Proof.
  induction n1 as [|n1 IH]; intros acc bits; cbn [Nat.add take_acc run]; [reflexivity|].
  destruct bits as [|b r]; [reflexivity|]. apply IH.
Qed.

Lemma run_take_add n1 n2 bits :
  run (take (n1 + n2)) bits =
  match run (take n1) bits with
  | Err _ => Err EOF
  | Ok (h, r) =>
      match run (take n2) r with
      | Err _ => Err EOF
      | Ok (l, r') => Ok (h * 2 ^ N.of_nat n2 + l, r')
      end
  end.
Proof.
  unfold take. rewrite run_take_acc_add.
  destruct (run (take_acc n1 0) bits) as [[h r]|e] eqn:E1.
  - rewrite run_take_acc_shift. destruct (run (take_acc n2 0) r) as [[l r']|e] eqn:E2; [reflexivity|].
    f_equal. eapply run_take_acc_err. exact E2.
  - f_equal. eapply run_take_acc_err. exact E1.
Qed.

Lemma run_take_length n bits v r : run (take n) bits = Ok (v, r) -> length bits = (n + length r)%nat.
Proof. intro H. apply run_take in H as [a [-> [L _]]]. rewrite app_length. lia. Qed.

Lemma take32_halves bits :
  run (take 32) bits =
  match run (take 16) bits with
  | Err _ => Err EOF
  | Ok (h, r) => match run (take 16) r with Err _ => Err EOF | Ok (l, r') => Ok (h * 65536 + l, r') end
  end.
Proof. exact (run_take_add 16 16 bits). Qed.

Lemma take48_words bits :
  run (take 48) bits =
  match run (take 16) bits with
  | Err _ => Err EOF
  | Ok (w1, r1) =>
      match run (take 16) r1 with
      | Err _ => Err EOF
      | Ok (w2, r2) =>
          match run (take 16) r2 with
          | Err _ => Err EOF
          | Ok (w3, r3) => Ok (w1 * 4294967296 + (w2 * 65536 + w3), r3)
          end
      end
  end.
Proof.
  change (take 48) with (take (16 + 32)). rewrite (run_take_add 16 32 bits). destruct (run (take 16) bits) as [[w1 r1]|e]; [|reflexivity].
  rewrite take32_halves. destruct (run (take 16) r1) as [[w2 r2]|e]; [|reflexivity].
  destruct (run (take 16) r2) as [[w3 r3]|e]; reflexivity.
Qed.

(* ================================================================================== *)
(* Part 4: the machine driver = the word-level stream skeleton                         *)
(* ================================================================================== *)
(* one "header scan": what lies between the end of a block (or the stream header) and the
   next point where something other than reading 16-bit words happens *)
Inductive herr := HE_eof | HE_header | HE_strmcrc.
Definition herr_rcode (e : herr) : rcode :=
  match e with HE_eof => RC_ERR_EOF | HE_header => RC_ERR_HEADER | HE_strmcrc => RC_ERR_STRMCRC end.
Definition herr_err (e : herr) : err :=
  match e with HE_eof => EOF | HE_header => ErrHeader | HE_strmcrc => ErrStrmCrc end.

Inductive hview :=
| HV_err (e : herr)
| HV_finish (garbage : N)
| HV_block (crc : N) (rest : list bool)
| HV_restart (level' : N) (rest : list bool).

Definition hscan (cc : N) (bits : list bool) : hview :=
  match run (take 16) bits with
  | Err _ => HV_err HE_eof
  | Ok (w1, r1) =>
      if w1 =? 0x1772 then
        match run (take 16) r1 with
        | Err _ => HV_err HE_eof
        | Ok (w2, r2) =>
            if negb (w2 =? 0x4538) then HV_err HE_header else
            match run (take 16) r2 with
            | Err _ => HV_err HE_eof
            | Ok (w3, r3) =>
                if negb (w3 =? 0x5090) then HV_err HE_header else
                match run (take 32) r3 with
                | Err _ => HV_err HE_eof
                | Ok (scrc, r4) =>
                    if negb (scrc =? cc) then HV_err HE_strmcrc else
                    match next_stream (align_drop r4) with
                    | None => HV_finish (tail_garbage (align_drop r4))
                    | Some (level', r5) => HV_restart level' r5
                    end
                end
            end
        end
      else if w1 =? 0x3141 then
        match run (take 16) r1 with
        | Err _ => HV_err HE_eof
        | Ok (w2, r2) =>
            if negb (w2 =? 0x5926) then HV_err HE_header else
            match run (take 16) r2 with
            | Err _ => HV_err HE_eof
            | Ok (w3, r3) =>
                if negb (w3 =? 0x5359) then HV_err HE_header else
                match run (take 32) r3 with
                | Err _ => HV_err HE_eof
                | Ok (crc, r4) => HV_block crc r4
                end
            end
        end
      else HV_err HE_header
  end.

Lemma wstream_hscan {A} (blk : N -> N -> list bool -> result (list A * list bool)) f level cc bits :
  wstream blk (S f) level cc bits =
  match hscan cc bits with
  | HV_err e => Err (herr_err e)
  | HV_finish g => Ok ([], g)
  | HV_block crc r4 =>
      match blk level crc r4 with
      | Err e => Err e
      | Ok (out, r5) =>
          match wstream blk f level (combine_stream_crc cc crc) r5 with
          | Err e => Err e
          | Ok (o, g) => Ok (out ++ o, g)
          end
      end
  | HV_restart level' r5 => wstream blk f level' 0 r5
  end.
Proof.
  cbn [wstream]. unfold hscan.
  destruct (run (take 16) bits) as [[w1 r1]|e]; [|reflexivity].
  destruct (w1 =? 0x1772).
  - destruct (run (take 16) r1) as [[w2 r2]|e]; [|reflexivity].
    destruct (negb (w2 =? 0x4538)); [reflexivity|].
    destruct (run (take 16) r2) as [[w3 r3]|e]; [|reflexivity].
    destruct (negb (w3 =? 0x5090)); [reflexivity|].
    destruct (run (take 32) r3) as [[scrc r4]|e]; [|reflexivity].
    destruct (negb (scrc =? cc)); [reflexivity|].
    destruct (next_stream (align_drop r4)) as [[l' r5]|]; reflexivity.
  - destruct (w1 =? 0x3141); [|reflexivity].
    destruct (run (take 16) r1) as [[w2 r2]|e]; [|reflexivity].
    destruct (negb (w2 =? 0x5926)); [reflexivity|].
    destruct (run (take 16) r2) as [[w3 r3]|e]; [|reflexivity].
    destruct (negb (w3 =? 0x5359)); [reflexivity|].
    destruct (run (take 32) r3) as [[crc r4]|e]; reflexivity.
Qed.

Lemma next_stream_length x lv r : next_stream x = Some (lv, r) -> (length r + 32 = length x)%nat.
Proof.
  unfold next_stream. destruct (run (take 16) x) as [[w1 q1]|] eqn:A1; [|discriminate].
  destruct (w1 =? 0x425A); [|discriminate].
  destruct (run (take 16) q1) as [[w2 q2]|] eqn:A2; [|discriminate].
  destruct (_ && _)%bool; [|discriminate]. intro H. inversion H; subst.
  apply run_take_length in A1. apply run_take_length in A2. lia.
Qed.

Lemma align_drop_length x : (length (align_drop x) <= length x)%nat.
Proof. unfold align_drop. rewrite skipn_length. lia. Qed.

Lemma hscan_facts cc bits :
  match hscan cc bits with
  | HV_block crc r4 => crc < 2 ^ 32 /\ length bits = (80 + length r4)%nat
  | HV_restart _ r5 => (112 + length r5 <= length bits)%nat
  | _ => True
  end.
Proof.
  unfold hscan.
  destruct (run (take 16) bits) as [[w1 r1]|e] eqn:E1; [|exact I]. apply run_take_length in E1.
  destruct (w1 =? 0x1772).
  - destruct (run (take 16) r1) as [[w2 r2]|e] eqn:E2; [|exact I]. apply run_take_length in E2.
    destruct (negb (w2 =? 0x4538)); [exact I|].
    destruct (run (take 16) r2) as [[w3 r3]|e] eqn:E3; [|exact I]. apply run_take_length in E3.
    destruct (negb (w3 =? 0x5090)); [exact I|].
    destruct (run (take 32) r3) as [[scrc r4]|e] eqn:E4; [|exact I]. apply run_take_length in E4.
    destruct (negb (scrc =? cc)); [exact I|].
    destruct (next_stream (align_drop r4)) as [[l' r5]|] eqn:En; [|exact I].
    apply next_stream_length in En. pose proof (align_drop_length r4). lia.
  - destruct (w1 =? 0x3141); [|exact I].
    destruct (run (take 16) r1) as [[w2 r2]|e] eqn:E2; [|exact I]. apply run_take_length in E2.
    destruct (negb (w2 =? 0x5926)); [exact I|].
    destruct (run (take 16) r2) as [[w3 r3]|e] eqn:E3; [|exact I]. apply run_take_length in E3.
    destruct (negb (w3 =? 0x5359)); [exact I|].
    destruct (run (take 32) r3) as [[crc r4]|e] eqn:E4; [|exact I].
    split; [exact (take_lt _ _ _ _ E4)|]. apply run_take_length in E4. lia.
Qed.

Lemma parse_call_live st b sc cc md hb hc g buf eof :
  st <> PS_ACCEPT -> parse_call (mk_pmem st b sc cc md hb hc g buf) eof = ploop (mk_pmem st b sc cc md hb hc g buf) eof.
Proof. intro H. unfold parse_call. destruct st; try congruence; reflexivity. Qed.

Ltac pstep E := rewrite (ploop_step _ _ _ _ _ _ _ _ _ _ _ _ E).
Ltac pend E := rewrite (ploop_end _ _ _ _ _ _ _ _ _ _ E).

(* the machine, started in BLOCK_MAGIC_1 with end of input known, does one header scan *)
Lemma ploop_hscan level sc cc hb hc g bits :
  cc < 2 ^ 32 ->
  let M := mk_pmem PS_BLOCK_MAGIC_1 (Z.of_N level) sc cc 0%Z hb hc g bits in
  match hscan cc bits with
  | HV_err e => exists m', ploop M true = PC_ret (herr_rcode e) m'
  | HV_finish g' => exists m', ploop M true = PC_ret RC_FINISH m' /\ m_garbage m' = g'
  | HV_block crc r4 =>
      exists sc', ploop M true =
                  PC_ret RC_OK (mk_pmem PS_BLOCK_MAGIC_1 (Z.of_N level) sc' (combine_stream_crc cc crc) 0%Z
                                        (Z.of_N level) crc g r4)
  | HV_restart level' r5 =>
      exists sc', ploop M true = ploop (mk_pmem PS_BLOCK_MAGIC_1 (Z.of_N level') sc' 0 0%Z hb hc g r5) true
  end.
Proof.
  intros Hcc M. unfold M, hscan.
  destruct (run (take 16) bits) as [[w1 r1]|e] eqn:E1.
  2:{ eexists. pend E1. rewrite eof_other by discriminate. reflexivity. }
  pstep E1. rewrite step_BLOCK_MAGIC_1. destruct (w1 =? 0x1772).
  - (* end-of-stream trailer *)
    destruct (run (take 16) r1) as [[w2 r2]|e] eqn:E2.
    2:{ eexists. pend E2. rewrite eof_other by discriminate. reflexivity. }
    pstep E2. rewrite step_EOS_2. destruct (w2 =? 0x4538); cbn [negb]; [|eexists; reflexivity].
    destruct (run (take 16) r2) as [[w3 r3]|e] eqn:E3.
    2:{ eexists. pend E3. rewrite eof_other by discriminate. reflexivity. }
    pstep E3. rewrite step_EOS_3. destruct (w3 =? 0x5090); cbn [negb]; [|eexists; reflexivity].
    rewrite take32_halves.
    destruct (run (take 16) r3) as [[h q]|e] eqn:E4.
    2:{ eexists. pend E4. rewrite eof_other by discriminate. reflexivity. }
    pstep E4. rewrite step_EOS_CRC_1.
    destruct (run (take 16) q) as [[l r4]|e] eqn:E5.
    2:{ eexists. pend E5. rewrite eof_other by discriminate. reflexivity. }
    pstep E5. rewrite step_EOS_CRC_2. cbv zeta.
    rewrite (glue_halves h l (take_lt _ _ _ _ E4) (take_lt _ _ _ _ E5)).
    destruct (h * 65536 + l =? cc); cbn [negb]; [|eexists; reflexivity].
    change (bits_align r4) with (align_drop r4). unfold next_stream, tail_garbage.
    destruct (run (take 16) (align_drop r4)) as [[v1 q1]|e] eqn:F1.
    2:{ eexists. pend F1. rewrite eof_STREAM_MAGIC_1. split; reflexivity. }
    pstep F1. rewrite step_STREAM_MAGIC_1. destruct (v1 =? 0x425A); [|eexists; split; reflexivity].
    destruct (run (take 16) q1) as [[v2 q2]|e] eqn:F2.
    2:{ eexists. pend F2. rewrite eof_STREAM_MAGIC_2. split; reflexivity. }
    pstep F2. rewrite step_STREAM_MAGIC_2.
    destruct ((0x6831 <=? v2) && (v2 <=? 0x6839))%bool; [|eexists; split; reflexivity].
    rewrite level_of_word. eexists. reflexivity.
  - destruct (w1 =? 0x3141); [|eexists; reflexivity].
    (* block header *)
    destruct (run (take 16) r1) as [[w2 r2]|e] eqn:E2.
    2:{ eexists. pend E2. rewrite eof_other by discriminate. reflexivity. }
    pstep E2. rewrite step_BLOCK_MAGIC_2. destruct (w2 =? 0x5926); cbn [negb]; [|eexists; reflexivity].
    destruct (run (take 16) r2) as [[w3 r3]|e] eqn:E3.
    2:{ eexists. pend E3. rewrite eof_other by discriminate. reflexivity. }
    pstep E3. rewrite step_BLOCK_MAGIC_3. destruct (w3 =? 0x5359); cbn [negb]; [|eexists; reflexivity].
    rewrite take32_halves.
    destruct (run (take 16) r3) as [[h q]|e] eqn:E4.
    2:{ eexists. pend E4. rewrite eof_other by discriminate. reflexivity. }
    pstep E4. rewrite step_BLOCK_CRC_1.
    destruct (run (take 16) q) as [[l r4]|e] eqn:E5.
    2:{ eexists. pend E5. rewrite eof_other by discriminate. reflexivity. }
    pstep E5. rewrite step_BLOCK_CRC_2. cbv zeta.
    rewrite (glue_halves h l (take_lt _ _ _ _ E4) (take_lt _ _ _ _ E5)).
    rewrite (combine_eq cc _ Hcc). eexists. reflexivity.
Qed.

Section MachineVsWords.
  Context {A : Type}.
  Variable blk : N -> N -> list bool -> result (list A * list bool).
  (* the block reader hands the bit stream back at or after the point where it took it *)
  Hypothesis blk_le : forall l c bits o r, blk l c bits = Ok (o, r) -> (length r <= length bits)%nat.

  Lemma pdrive_same_call fuel m1 m2 :
    parse_call m1 true = parse_call m2 true -> pdrive blk fuel m1 = pdrive blk fuel m2.
  Proof. destruct fuel; cbn [pdrive]; [reflexivity|]. intros ->. reflexivity. Qed.

  Theorem pdrive_wstream : forall f level cc bits sc hb hc g fuel,
    cc < 2 ^ 32 -> (length bits < f)%nat -> (length bits < fuel)%nat ->
    pdrive blk fuel (mk_pmem PS_BLOCK_MAGIC_1 (Z.of_N level) sc cc 0%Z hb hc g bits) =
    inject (wstream blk f level cc bits).
  Proof.
    induction f as [|f IH]; intros level cc bits sc hb hc g fuel Hcc Hf Hfuel; [lia|].
    rewrite wstream_hscan.
    pose proof (ploop_hscan level sc cc hb hc g bits Hcc) as P. cbv zeta in P.
    pose proof (hscan_facts cc bits) as F.
    destruct (hscan cc bits) as [e|g'|crc r4|level' r5].
    - destruct P as [m' P]. destruct fuel as [|fuel]; [lia|]. cbn [pdrive].
      rewrite parse_call_live by discriminate. rewrite P. destruct e; reflexivity.
    - destruct P as [m' [P G]]. destruct fuel as [|fuel]; [lia|]. cbn [pdrive].
      rewrite parse_call_live by discriminate. rewrite P. rewrite G. reflexivity.
    - destruct P as [sc' P]. destruct F as [Hcrc Hlen]. destruct fuel as [|fuel]; [lia|]. cbn [pdrive].
      rewrite parse_call_live by discriminate. rewrite P. cbn [m_hd_bs100k m_hd_crc m_buf set_buf].
      rewrite N2Z.id. destruct (blk level crc r4) as [[out r5]|e] eqn:B; [|reflexivity].
      apply blk_le in B.
      change (set_buf _ r5) with (mk_pmem PS_BLOCK_MAGIC_1 (Z.of_N level) sc' (combine_stream_crc cc crc) 0%Z
                                          (Z.of_N level) crc g r5).
      rewrite (IH level (combine_stream_crc cc crc) r5); [|apply combine_lt; assumption|lia|lia].
      destruct (wstream blk f level (combine_stream_crc cc crc) r5) as [[o g'']|e]; reflexivity.
    - destruct P as [sc' P].
      rewrite (pdrive_same_call fuel _ (mk_pmem PS_BLOCK_MAGIC_1 (Z.of_N level') sc' 0 0%Z hb hc g r5)).
      + apply IH; [reflexivity|lia|lia].
      + rewrite !parse_call_live by discriminate. exact P.
  Qed.
End MachineVsWords.

(* ================================================================================== *)
(* Part 5: the word-level skeleton vs Format.decode_from                               *)
(* ================================================================================== *)
(* Format.decode_from reads a 48-bit magic in one piece, parse() in three 16-bit words and
   stops at the first word that cannot belong to a magic.  The only observable difference:
   when the input ends INSIDE a 48-bit magic whose complete words already mismatch,
   decode_from says EOF (premature end) where parse() says ERR_HEADER.  Everything else
   (accepted files, outputs, every other error) is identical. *)
Definition stream_refines {X} (w : result (list N * N)) (f : result (list N * X)) : Prop :=
  match f with
  | Ok (o, _) => exists g, w = Ok (o, g)
  | Err e => w = Err e \/ (e = EOF /\ w = Err ErrHeader)
  end.

Lemma magic_words w1 w2 w3 a b c :
  w1 < 65536 -> w2 < 65536 -> w3 < 65536 -> a < 65536 -> b < 65536 -> c < 65536 ->
  (w1 * 4294967296 + (w2 * 65536 + w3) =? a * 4294967296 + (b * 65536 + c)) =
  ((w1 =? a) && (w2 =? b) && (w3 =? c))%bool.
Proof.
  intros. destruct (N.eqb_spec w1 a), (N.eqb_spec w2 b), (N.eqb_spec w3 c); cbn [andb];
    try (apply N.eqb_eq; lia); apply N.eqb_neq; lia.
Qed.

Lemma block_magic_words : block_magic = 0x3141 * 4294967296 + (0x5926 * 65536 + 0x5359).
Proof. reflexivity. Qed.
Lemma eos_magic_words : eos_magic = 0x1772 * 4294967296 + (0x4538 * 65536 + 0x5090).
Proof. reflexivity. Qed.

Theorem wstream_format pol : forall fuel level cc bits,
  stream_refines (wstream (format_blk pol) fuel level cc bits) (decode_from pol fuel level cc bits).
Proof.
  induction fuel as [|f IH]; intros level cc bits; [left; reflexivity|].
  cbn [wstream decode_from]. rewrite take48_words.
  destruct (run (take 16) bits) as [[w1 r1]|e1] eqn:E1; [|left; reflexivity].
  pose proof (take_lt _ _ _ _ E1) as B1. change (2 ^ N.of_nat 16) with 65536 in B1.
  destruct (run (take 16) r1) as [[w2 r2]|e2] eqn:E2.
  2:{ destruct (w1 =? 0x1772); [left; reflexivity|]. destruct (w1 =? 0x3141); [left|right]; auto. }
  pose proof (take_lt _ _ _ _ E2) as B2. change (2 ^ N.of_nat 16) with 65536 in B2.
  destruct (run (take 16) r2) as [[w3 r3]|e3] eqn:E3.
  2:{ destruct (w1 =? 0x1772).
      - destruct (negb (w2 =? 0x4538)); [right|left]; auto.
      - destruct (w1 =? 0x3141); [|right; auto]. destruct (negb (w2 =? 0x5926)); [right|left]; auto. }
  pose proof (take_lt _ _ _ _ E3) as B3. change (2 ^ N.of_nat 16) with 65536 in B3.
  rewrite block_magic_words, eos_magic_words. rewrite !magic_words by (assumption || reflexivity).
  assert (Lbits : length bits = (48 + length r3)%nat).
  { apply run_take_length in E1. apply run_take_length in E2. apply run_take_length in E3. lia. }
  destruct (N.eqb_spec w1 0x1772) as [->|N1].
  - (* end of stream *)
    change (0x1772 =? 0x3141) with false. cbn [andb].
    destruct (w2 =? 0x4538); cbn [andb negb]; [|left; reflexivity].
    destruct (w3 =? 0x5090); cbn [andb negb]; [|left; reflexivity].
    destruct (run (take 32) r3) as [[scrc r4]|e4] eqn:E4.
    2:{ left. f_equal. symmetry. eapply run_take_err. exact E4. }
    destruct (negb (scrc =? cc)); [left; reflexivity|].
    destruct (next_stream (align_drop r4)) as [[level' r5]|]; [|eexists; reflexivity].
    specialize (IH level' 0 r5). unfold stream_refines in IH.
    destruct (decode_from pol f level' 0 r5) as [[o ps]|e]; exact IH.
  - destruct (N.eqb_spec w1 0x3141) as [->|N2]; cbn [andb]; [|left; reflexivity].
    (* block *)
    destruct (w2 =? 0x5926); cbn [andb negb]; [|left; reflexivity].
    destruct (w3 =? 0x5359); cbn [andb negb]; [|left; reflexivity].
    destruct (run (take 32) r3) as [[crc r4]|e4] eqn:E4.
    2:{ left. f_equal. symmetry. eapply run_take_err. exact E4. }
    unfold format_blk at 1.
    replace (S (80 + length r4)) with (S (length bits)) by (apply run_take_length in E4; lia).
    destruct (run (read_block pol (S (length bits))) r4) as [[rb r5]|e] eqn:Erb; [|left; reflexivity].
    destruct (decode_block pol level rb) as [out|e]; [|left; reflexivity].
    destruct (negb (N.lxor (crc_bytes mask32 out) mask32 =? crc)); [left; reflexivity|].
    specialize (IH level (combine_stream_crc cc crc) r5). unfold stream_refines in IH.
    destruct (decode_from pol f level (combine_stream_crc cc crc) r5) as [[o ps]|e].
    + destruct IH as [g ->]. eexists. reflexivity.
    + destruct IH as [->|[-> ->]]; [left|right]; auto.
Qed.

(* ================================================================================== *)
(* Part 6: whole file; stream CRC; input in pieces                                     *)
(* ================================================================================== *)
Lemma format_blk_le pol l c bits o r : format_blk pol l c bits = Ok (o, r) -> (length r <= length bits)%nat.
Proof.
  unfold format_blk. destruct (run (read_block pol (S (80 + length bits))) bits) as [[rb r3]|e] eqn:E; [|discriminate].
  destruct (decode_block pol l rb); [|discriminate]. destruct (negb _); [discriminate|].
  intro H. inversion H; subst. eapply run_rest_le. exact E.
Qed.

(* for every block handler: the decoder built on the regenerated parse() computes the
   word-level stream skeleton *)
Theorem pdecode_gen_wstream {A} (blk : N -> N -> list bool -> result (list A * list bool)) m0 bits :
  (forall l c b o r, blk l c b = Ok (o, r) -> (length r <= length b)%nat) ->
  pdecode_gen blk m0 bits =
  match run (take 32) bits with
  | Ok (h, rest) =>
      if (0x425A6831 <=? h) && (h <=? 0x425A6839)
      then inject (wstream blk (S (length rest)) (h - 0x425A6830) 0 rest)
      else D_err ErrNotBzip2
  | Err _ => D_err ErrNotBzip2
  end.
Proof.
  intro Hblk. unfold pdecode_gen. destruct (run (take 32) bits) as [[h rest]|e]; [|reflexivity].
  change (file_magic_base + file_magic_lo) with 0x425A6831.
  change (file_magic_base + file_magic_hi) with 0x425A6839.
  change (file_magic_base + file_magic_level_base) with 0x425A6830.
  change expand_stream_mode with 0%Z.
  destruct ((0x425A6831 <=? h) && (h <=? 0x425A6839))%bool; [|reflexivity].
  destruct m0 as [st b sc cc md hb hc g buf]. rewrite parser_init_spec.
  change (set_buf _ rest) with (mk_pmem PS_BLOCK_MAGIC_1 (Z.of_N (h - 0x425A6830)) sc 0 0%Z hb hc g rest).
  apply pdrive_wstream; [exact Hblk|reflexivity|lia|lia].
Qed.

Definition decode_refines {X} (d : dres N) (f : result (list N * X)) : Prop :=
  match f with
  | Ok (o, _) => exists g, d = D_ok o g
  | Err e => d = D_err e \/ (e = EOF /\ d = D_err ErrHeader)
  end.

Theorem parse_refines_format pol m0 bits :
  decode_refines (pdecode_bits pol m0 bits) (decode_bits_info pol bits).
Proof.
  unfold pdecode_bits. rewrite (pdecode_gen_wstream _ m0 bits (format_blk_le pol)).
  unfold decode_bits_info. destruct (run (take 32) bits) as [[h rest]|e]; [|left; reflexivity].
  destruct ((0x425A6831 <=? h) && (h <=? 0x425A6839))%bool; [|left; reflexivity].
  pose proof (wstream_format pol (S (length rest)) (h - 0x425A6830) 0 rest) as R.
  unfold stream_refines in R. unfold decode_refines.
  destruct (decode_from pol (S (length rest)) (h - 0x425A6830) 0 rest) as [[o ps]|e].
  - destruct R as [g ->]. eexists. reflexivity.
  - destruct R as [->|[-> ->]]; [left|right]; auto.
Qed.

(* consequences: same accepted files with the same output ... *)
Corollary parse_accepts_iff pol m0 bits o :
  (exists g, pdecode_bits pol m0 bits = D_ok o g) <-> (exists ps, decode_bits_info pol bits = Ok (o, ps)).
Proof.
  pose proof (parse_refines_format pol m0 bits) as R. unfold decode_refines in R. split.
  - intros [g H]. destruct (decode_bits_info pol bits) as [[o' ps]|e].
    + destruct R as [g' R]. rewrite R in H. inversion H; subst. eexists. reflexivity.
    + destruct R as [R|[_ R]]; rewrite R in H; discriminate.
  - intros [ps H]. rewrite H in R. exact R.
Qed.

(* ... never an assert failure, an impossible return code or fuel exhaustion ... *)
Corollary parse_always_verdict pol m0 bits :
  (exists o g, pdecode_bits pol m0 bits = D_ok o g) \/ (exists e, pdecode_bits pol m0 bits = D_err e).
Proof.
  pose proof (parse_refines_format pol m0 bits) as R. unfold decode_refines in R.
  destruct (decode_bits_info pol bits) as [[o ps]|e].
  - destruct R as [g R]. left. eauto.
  - right. destruct R as [R|[_ R]]; eauto.
Qed.

(* ... and the error classes agree except for the one documented case *)
Corollary parse_rejects pol m0 bits e :
  decode_bits_info pol bits = Err e ->
  pdecode_bits pol m0 bits = D_err e \/ (e = EOF /\ pdecode_bits pol m0 bits = D_err ErrHeader).
Proof. intro H. pose proof (parse_refines_format pol m0 bits) as R. rewrite H in R. exact R. Qed.

(* the one case does occur: "BZh9" followed by two bytes that start no magic *)
Lemma parse_error_class_differs :
  exists bits, decode_bits_info lbz_policy bits = Err EOF /\ pdecode_bits lbz_policy pmem0 bits = D_err ErrHeader.
Proof. exists (bits_of_bytes [66; 90; 104; 57; 88; 88]). split; vm_compute; reflexivity. Qed.

(* the stored CRC fields (block and stream) are enforced by the decoder built on parse():
   from an accepted input, flipping any bit of any stored CRC field gives a rejected input *)
Theorem parse_crc_fields_enforced pol m0 bits o g :
  pdecode_bits pol m0 bits = D_ok o g ->
  exists ps, decode_bits_info pol bits = Ok (o, ps) /\
             forall p j, In p ps -> (j < 32)%nat ->
                         exists e, pdecode_bits pol m0 (flip (p + j) bits) = D_err e.
Proof.
  intro H. destruct (proj1 (parse_accepts_iff pol m0 bits o) (ex_intro _ g H)) as [ps Hps].
  exists ps. split; [exact Hps|]. intros p j Hp Hj.
  destruct (crc_flip_bits pol bits o ps p j Hps Hp Hj) as [e He].
  destruct (parse_rejects pol m0 _ e He) as [R|[_ R]]; eauto.
Qed.

(* ---- the stream CRC, directly on the machine ------------------------------------------- *)
(* [crcs] = the stored CRCs of the blocks of the current stream met so far *)
Definition crc_inv (m : pmem) (crcs : list N) : Prop :=
  m_state m = PS_BLOCK_MAGIC_1 /\ m_ps_stream_mode m = 0%Z /\ Forall (fun c => c < 2 ^ 32) crcs /\
  m_ps_computed_crc m = fold_left combine_stream_crc crcs 0.

Lemma fold_combine_lt crcs : forall c0, c0 < 2 ^ 32 -> Forall (fun c => c < 2 ^ 32) crcs ->
  fold_left combine_stream_crc crcs c0 < 2 ^ 32.
Proof.
  induction crcs as [|c r IH]; intros c0 H0 H; cbn [fold_left]; [exact H0|].
  inversion H; subst. apply IH; [apply combine_lt; assumption|assumption].
Qed.

Lemma crc_inv_init m0 level buf : crc_inv (set_buf (parser_init m0 level expand_stream_mode) buf) [].
Proof. destruct m0. rewrite parser_init_spec. repeat split. constructor. Qed.

Lemma words_of_magic w1 w2 w3 a b c :
  w1 < 65536 -> w2 < 65536 -> w3 < 65536 -> a < 65536 -> b < 65536 -> c < 65536 ->
  w1 * 4294967296 + (w2 * 65536 + w3) = a * 4294967296 + (b * 65536 + c) -> w1 = a /\ w2 = b /\ w3 = c.
Proof. intros. lia. Qed.

Ltac take_bound H := let B := fresh "B" in
  pose proof (take_lt _ _ _ _ H) as B; change (2 ^ N.of_nat 16) with 65536 in B.

(* a block header: parse() returns OK with hd->crc = the stored CRC (all 32 bits),
   hd->bs100k = the level of the stream, the buffer right after the header, and the
   computed stream CRC combined with it *)
Theorem parse_block_header m crcs crc r1 r2 eof :
  crc_inv m crcs ->
  run (take 48) (m_buf m) = Ok (block_magic, r1) -> run (take 32) r1 = Ok (crc, r2) ->
  exists m', parse_call m eof = PC_ret RC_OK m' /\ m_hd_crc m' = crc /\ m_hd_bs100k m' = m_ps_bs100k m /\
             m_buf m' = r2 /\ crc_inv m' (crcs ++ [crc]).
Proof.
  intros [Hs [Hm [Hf Hc]]] E48 E32. destruct m as [st b sc cc md hb hc g buf]. cbn [m_state m_ps_stream_mode m_ps_computed_crc m_buf m_ps_bs100k] in *.
  subst st md. rewrite parse_call_live by discriminate.
  assert (Hcc : cc < 2 ^ 32) by (rewrite Hc; apply fold_combine_lt; [reflexivity|exact Hf]).
  rewrite take48_words in E48.
  destruct (run (take 16) buf) as [[w1 q1]|] eqn:E1; [|discriminate].
  destruct (run (take 16) q1) as [[w2 q2]|] eqn:E2; [|discriminate].
  destruct (run (take 16) q2) as [[w3 q3]|] eqn:E3; [|discriminate].
  take_bound E1. take_bound E2. take_bound E3. inversion E48 as [[Hmag Hr]]. subst q3.
  rewrite block_magic_words in Hmag. apply words_of_magic in Hmag; try assumption; try reflexivity.
  destruct Hmag as [-> [-> ->]].
  rewrite take32_halves in E32.
  destruct (run (take 16) r1) as [[h q4]|] eqn:E4; [|discriminate].
  destruct (run (take 16) q4) as [[l q5]|] eqn:E5; [|discriminate].
  take_bound E4. take_bound E5. injection E32 as <- <-.
  pstep E1. rewrite step_BLOCK_MAGIC_1. cbn [N.eqb Pos.eqb].
  pstep E2. rewrite step_BLOCK_MAGIC_2. cbn [N.eqb Pos.eqb].
  pstep E3. rewrite step_BLOCK_MAGIC_3. cbn [N.eqb Pos.eqb].
  pstep E4. rewrite step_BLOCK_CRC_1. pstep E5. rewrite step_BLOCK_CRC_2. cbv zeta.
  rewrite (glue_halves h l) by assumption. rewrite (combine_eq cc _ Hcc).
  eexists. split; [reflexivity|]. cbn [m_hd_crc m_hd_bs100k m_buf m_ps_bs100k].
  repeat split; try reflexivity.
  - apply Forall_app. split; [exact Hf|]. constructor; [|constructor].
    change (2 ^ 32) with 4294967296. lia.
  - cbn [m_ps_computed_crc]. rewrite fold_left_app. cbn [fold_left]. rewrite Hc. reflexivity.
Qed.

(* the end-of-stream trailer: unless the stored stream CRC equals (in all 32 bits) the
   combination of the stored block CRCs, parse() returns ERR_STRMCRC -- whether or not more
   input may follow *)
Theorem parse_stream_crc_enforced m crcs scrc r1 r2 eof :
  crc_inv m crcs ->
  run (take 48) (m_buf m) = Ok (eos_magic, r1) -> run (take 32) r1 = Ok (scrc, r2) ->
  scrc <> fold_left combine_stream_crc crcs 0 ->
  exists m', parse_call m eof = PC_ret RC_ERR_STRMCRC m'.
Proof.
  intros [Hs [Hm [Hf Hc]]] E48 E32 Hne. destruct m as [st b sc cc md hb hc g buf]. cbn [m_state m_ps_stream_mode m_ps_computed_crc m_buf] in *.
  subst st md. rewrite parse_call_live by discriminate.
  rewrite take48_words in E48.
  destruct (run (take 16) buf) as [[w1 q1]|] eqn:E1; [|discriminate].
  destruct (run (take 16) q1) as [[w2 q2]|] eqn:E2; [|discriminate].
  destruct (run (take 16) q2) as [[w3 q3]|] eqn:E3; [|discriminate].
  take_bound E1. take_bound E2. take_bound E3. inversion E48 as [[Hmag Hr]]. subst q3.
  rewrite eos_magic_words in Hmag. apply words_of_magic in Hmag; try assumption; try reflexivity.
  destruct Hmag as [-> [-> ->]].
  rewrite take32_halves in E32.
  destruct (run (take 16) r1) as [[h q4]|] eqn:E4; [|discriminate].
  destruct (run (take 16) q4) as [[l q5]|] eqn:E5; [|discriminate].
  take_bound E4. take_bound E5. injection E32 as <- <-.
  pstep E1. rewrite step_BLOCK_MAGIC_1. cbn [N.eqb Pos.eqb].
  pstep E2. rewrite step_EOS_2. cbn [N.eqb Pos.eqb].
  pstep E3. rewrite step_EOS_3. cbn [N.eqb Pos.eqb].
  pstep E4. rewrite step_EOS_CRC_1. pstep E5. rewrite step_EOS_CRC_2. cbv zeta.
  rewrite (glue_halves h l) by assumption.
  destruct (N.eqb_spec (h * 65536 + l) cc) as [E|_]; [congruence|].
  eexists. reflexivity.
Qed.

(* "differs in ANY bit": flipping bit i (i < 32) of the right value is a different value *)
Corollary parse_stream_crc_bitflip m crcs i r1 r2 eof :
  crc_inv m crcs -> i < 32 ->
  run (take 48) (m_buf m) = Ok (eos_magic, r1) ->
  run (take 32) r1 = Ok (N.lxor (fold_left combine_stream_crc crcs 0) (2 ^ i), r2) ->
  exists m', parse_call m eof = PC_ret RC_ERR_STRMCRC m'.
Proof.
  intros Hi Hlt E48 E32. eapply parse_stream_crc_enforced; eauto.
  intro H. apply (f_equal (fun x => N.testbit x i)) in H.
  rewrite N.lxor_spec, N.pow2_bits_true in H. destruct (N.testbit _ i); discriminate.
Qed.

(* ---- input in pieces ----------------------------------------------------------------------- *)
(* Suspending parse() with MORE and calling it again when the next piece of input has been
   appended to the bit buffer gives what one call on the whole input gives, provided the
   pieces are whole bytes (bits_align looks at the buffer length modulo 8; lbzip2's pieces
   are multiples of 32 bits). *)
Definition madd (m : pmem) (s : list bool) : pmem := set_buf m (m_buf m ++ s).

Lemma bits_align_app buf s : (length s mod 8 = 0)%nat -> bits_align (buf ++ s) = bits_align buf ++ s.
Proof.
  intro H. unfold bits_align. rewrite app_length.
  rewrite Nat.add_mod, H, Nat.add_0_r, Nat.mod_mod by discriminate.
  pose proof (Nat.mod_le (length buf) 8 ltac:(discriminate)) as L.
  rewrite skipn_app. replace (length buf mod 8 - length buf)%nat with 0%nat by lia. reflexivity.
Qed.

Ltac pm_cases := pm_unfold; try change (Z.eqb 0%Z 0%Z) with true; cbn [negb]; split_ifs.

Lemma step_suffix m w s :
  (length s mod 8 = 0)%nat ->
  parse_step (madd m s) w = (madd (fst (parse_step m w)) s, snd (parse_step m w)).
Proof.
  intro H. destruct m as [st b sc cc md hb hc g buf]. unfold madd.
  destruct st; pm_cases; rewrite ?(bits_align_app _ _ H); reflexivity.
Qed.

Lemma step_cont_entry m w m' : parse_step m w = (m', PCont) -> parse_entry_ok m' = true.
Proof.
  destruct m as [st b sc cc md hb hc g buf].
  destruct st; pm_cases; intro H; inversion H; reflexivity.
Qed.

Lemma step_never_more m w : snd (parse_step m w) <> PRet RC_MORE.
Proof.
  destruct m as [st b sc cc md hb hc g buf].
  destruct st; pm_cases; discriminate.
Qed.

Lemma run_app_ok {A} (p : prog A) bits a rest s : run p bits = Ok (a, rest) -> run p (bits ++ s) = Ok (a, rest ++ s).
Proof.
  intro H. apply run_frame in H as [d [-> Hd]]. rewrite <- app_assoc. apply Hd.
Qed.

Lemma ploop_more s : (length s mod 8 = 0)%nat -> forall n m,
  (length (m_buf m) <= n)%nat -> parse_entry_ok m = true ->
  (forall m', ploop m false = PC_ret RC_MORE m' ->
              parse_entry_ok m' = true /\ forall eof, ploop (madd m s) eof = ploop (madd m' s) eof) /\
  (forall c m', c <> RC_MORE -> ploop m false = PC_ret c m' -> forall eof, ploop (madd m s) eof = PC_ret c (madd m' s)) /\
  (ploop m false = PC_abort -> forall eof, ploop (madd m s) eof = PC_abort) /\
  ploop m false <> PC_fuel.
Proof.
  intros Hs. induction n as [|n IH]; intros m Hn Hentry.
  - (* empty buffer: MORE at once *)
    assert (E : run (take 16) (m_buf m) = Err EOF) by (destruct (m_buf m); [reflexivity|cbn in Hn; lia]).
    rewrite ploop_unfold, E. repeat split; try discriminate.
    + inversion H; subst. exact Hentry.
    + inversion H; subst. reflexivity.
    + intros c m' Hc H. inversion H; subst. congruence.
  - rewrite (ploop_unfold m false).
    destruct (run (take 16) (m_buf m)) as [[w rest]|e] eqn:E.
    + pose proof (run_word_shrinks _ _ _ E) as L1.
      pose proof (parse_step_buf_le (set_buf m rest) w) as L2. rewrite m_buf_set_buf in L2.
      pose proof (step_suffix (set_buf m rest) w s Hs) as SS.
      pose proof (step_never_more (set_buf m rest) w) as NM.
      assert (U : forall eof, ploop (madd m s) eof =
                              match parse_step (madd (set_buf m rest) s) w with
                              | (m', PCont) => ploop m' eof
                              | (m', PRet c) => PC_ret c m'
                              | (_, PAbort) => PC_abort
                              end).
      { intro eof. rewrite (ploop_unfold (madd m s)). change (m_buf (madd m s)) with (m_buf m ++ s).
        rewrite (run_app_ok _ _ _ _ s E). destruct m; reflexivity. }
      destruct (parse_step (set_buf m rest) w) as [m1 out] eqn:PS. cbn [fst snd] in *.
      destruct out as [|c|].
      * destruct (IH m1 ltac:(lia) (step_cont_entry _ _ _ PS)) as [I1 [I2 [I3 I4]]].
        repeat split.
        -- apply I1. exact H.
        -- intro eof. rewrite U, SS. apply (proj2 (I1 _ H)).
        -- intros c m' Hc H eof. rewrite U, SS. apply I2; assumption.
        -- intros H eof. rewrite U, SS. apply I3. exact H.
        -- exact I4.
      * repeat split; try discriminate.
        -- inversion H; subst. congruence.
        -- inversion H; subst. congruence.
        -- intros c' m' Hc H eof. inversion H; subst. rewrite U, SS. reflexivity.
      * repeat split; try discriminate. intros _ eof. rewrite U, SS. reflexivity.
    + repeat split; try discriminate.
      * inversion H; subst. exact Hentry.
      * inversion H; subst. reflexivity.
      * intros c m' Hc H. inversion H; subst. congruence.
Qed.

Lemma concat_mod8 chunks : Forall (fun c : list bool => (length c mod 8 = 0)%nat) chunks -> (length (concat chunks) mod 8 = 0)%nat.
Proof.
  induction 1 as [|c cs H _ IH]; [reflexivity|]. cbn [concat]. rewrite app_length, Nat.add_mod, H, IH by discriminate. reflexivity.
Qed.

Lemma madd_nil m : madd m [] = m.
Proof. destruct m as [st b sc cc md hb hc g buf]. unfold madd. cbn [m_buf set_buf]. rewrite app_nil_r. reflexivity. Qed.

Lemma madd_madd m x y : madd (madd m x) y = madd m (x ++ y).
Proof. destruct m as [st b sc cc md hb hc g buf]. unfold madd. cbn [m_buf set_buf]. rewrite app_assoc. reflexivity. Qed.

Lemma parse_call_no_fuel m eof : parse_call m eof <> PC_fuel.
Proof.
  unfold parse_call. destruct (parse_entry_ok m); [|discriminate]. apply parse_loop_no_fuel. lia.
Qed.

Theorem parse_chunking : forall chunks m,
  Forall (fun c : list bool => (length c mod 8 = 0)%nat) chunks ->
  match parse_chunks m chunks with
  | (PC_ret c m', unread) => parse_call (madd m (concat chunks)) true = PC_ret c (madd m' (concat unread))
  | (PC_abort, _) => parse_call (madd m (concat chunks)) true = PC_abort
  | (PC_fuel, _) => False
  end.
Proof.
  induction chunks as [|c cs IH]; intros m HF.
  - cbn [parse_chunks concat]. rewrite madd_nil.
    destruct (parse_call m true) as [c m'| |] eqn:E; [rewrite madd_nil; reflexivity|reflexivity|].
    exact (parse_call_no_fuel _ _ E).
  - inversion HF as [|? ? Hc Hcs]; subst. cbn [parse_chunks concat]. fold (madd m c).
    rewrite <- madd_madd.
    assert (PE : forall x eof, parse_call (madd (madd m c) x) eof =
                               if parse_entry_ok (madd m c) then ploop (madd (madd m c) x) eof else PC_abort) by reflexivity.
    rewrite !PE. unfold parse_call. clear PE.
    destruct (parse_entry_ok (madd m c)) eqn:Hentry; [|reflexivity].
    destruct (ploop_more (concat cs) (concat_mod8 _ Hcs) _ (madd m c) (le_n _) Hentry) as [I1 [I2 [I3 I4]]].
    destruct (ploop (madd m c) false) as [rc m1| |] eqn:E.
    + assert (D : rc = RC_MORE \/ rc <> RC_MORE) by (destruct rc; (left; reflexivity) || (right; discriminate)).
      destruct D as [->|Hrc].
      * destruct (I1 m1 eq_refl) as [Hentry1 I1']. rewrite I1'.
        specialize (IH m1 Hcs).
        assert (PE : parse_call (madd m1 (concat cs)) true = ploop (madd m1 (concat cs)) true).
        { unfold parse_call. change (parse_entry_ok (madd m1 (concat cs))) with (parse_entry_ok m1).
          rewrite Hentry1. reflexivity. }
        rewrite PE in IH. exact IH.
      * rewrite (I2 rc m1 Hrc eq_refl).
        destruct rc; try reflexivity. congruence.
    + apply I3. reflexivity.
    + exact (I4 eq_refl).
Qed.

(* ---- what the scheduler sees: the sequence of block headers ------------------------------- *)
Theorem parse_headers_spec body_end m0 bits :
  (forall b r, body_end b = Some r -> (length r <= length b)%nat) ->
  parse_headers body_end m0 bits =
  match run (take 32) bits with
  | Ok (h, rest) =>
      if (0x425A6831 <=? h) && (h <=? 0x425A6839)
      then inject (wstream (header_blk body_end) (S (length rest)) (h - 0x425A6830) 0 rest)
      else D_err ErrNotBzip2
  | Err _ => D_err ErrNotBzip2
  end.
Proof.
  intro H. apply pdecode_gen_wstream. intros l c b o r. unfold header_blk.
  destruct (body_end b) as [r'|] eqn:E; [|discriminate]. intro I. inversion I; subst. eapply H. exact E.
Qed.

Print Assumptions parse_refines_format.
Print Assumptions pdecode_gen_wstream.
Print Assumptions parse_stream_crc_enforced.
Print Assumptions parse_crc_fields_enforced.
Print Assumptions parse_chunking.
