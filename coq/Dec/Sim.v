(* Generic facts about reader programs: the frame property, and a simulation
   principle for finite-state machine readers whose hypothesis is a closed
   boolean check (to be discharged by computation on regenerated tables). *)
From Coq Require Import List NArith Arith Bool Lia.
From LBZ Require Import Common.Bits Dec.Prog.
Import ListNotations.

(* ---- frame property ---------------------------------------------------------------- *)
Lemma run_frame {A} (p : prog A) : forall bits a rest,
  run p bits = Ok (a, rest) ->
  exists d, bits = d ++ rest /\ forall rest', run p (d ++ rest') = Ok (a, rest').
Proof.
  induction p as [a0|k IH|e]; intros bits a rest H; simpl in H.
  - inversion H; subst. exists []. split; [reflexivity|]. intros. reflexivity.
  - destruct bits as [|b r]; [discriminate|].
    destruct (IH b r a rest H) as [d [Hd Hf]]. exists (b :: d). split.
    + simpl. rewrite Hd. reflexivity.
    + intros rest'. simpl. apply Hf.
  - discriminate.
Qed.

Lemma run_bind {A B} (p : prog A) (f : A -> prog B) bits :
  run (bind p f) bits = match run p bits with
                        | Ok (a, r) => run (f a) r
                        | Err e => Err e
                        end.
Proof.
  revert bits. induction p as [a0|k IH|e]; intros bits; simpl; auto.
  destruct bits as [|b r]; auto.
Qed.

(* ---- machines ------------------------------------------------------------------------ *)
Section Machines.
  Context {S1 S2 : Type}.
  Variable m1 : machine S1 N.
  Variable m2 : machine S2 N.

  (* every continuation of [s] ends in an error (within depth d) *)
  Fixpoint doomed (d : nat) (s : S1) : bool :=
    match mstat m1 s with
    | MFail _ => true
    | MDone _ => false
    | MRun => match d with
              | 0 => false
              | S d' => doomed d' (mstep m1 s false) && doomed d' (mstep m1 s true)
              end
    end.

  Lemma doomed_fails d : forall s, doomed d s = true ->
    forall fuel bits, exists e, run (mprog m1 fuel s) bits = Err e.
  Proof.
    induction d as [|d IH]; intros s H fuel bits; simpl in H; destruct (mstat m1 s) eqn:E; try discriminate.
    - destruct fuel; simpl; rewrite E; simpl; eauto.
    - destruct fuel as [|f]; simpl; rewrite E; simpl; eauto.
      apply andb_true_iff in H as [H0 H1]. destruct bits as [|b r]; simpl; eauto.
      destruct b; [apply IH; exact H1|apply IH; exact H0].
    - destruct fuel; simpl; rewrite E; simpl; eauto.
  Qed.

  Variable rel : S1 -> S2 -> bool.
  Variable depth : nat.

  (* one-directional compatibility: whenever m1 ends in a value, m2 ends in the same *)
  Definition compat (s1 : S1) (s2 : S2) : bool :=
    match mstat m1 s1, mstat m2 s2 with
    | MDone a, MDone b => N.eqb a b
    | MRun, MRun => rel (mstep m1 s1 false) (mstep m2 s2 false) && rel (mstep m1 s1 true) (mstep m2 s2 true)
    | MFail _, _ => true
    | MRun, MFail _ => doomed depth s1
    | MRun, MDone _ => false
    | MDone _, _ => false
    end.

  Hypothesis closed : forall s1 s2, rel s1 s2 = true -> compat s1 s2 = true.

  Theorem sim_ok : forall fuel bits s1 s2 v r, rel s1 s2 = true ->
    run (mprog m1 fuel s1) bits = Ok (v, r) -> run (mprog m2 fuel s2) bits = Ok (v, r).
  Proof.
    induction fuel as [|f IH]; intros bits s1 s2 v r Hrel H; pose proof (closed s1 s2 Hrel) as C;
      unfold compat in C; simpl in *.
    - destruct (mstat m1 s1) eqn:E1; destruct (mstat m2 s2) eqn:E2; simpl in *; try discriminate.
      apply N.eqb_eq in C. subst. exact H.
    - destruct (mstat m1 s1) eqn:E1; destruct (mstat m2 s2) eqn:E2; simpl in *; try discriminate.
      + apply andb_true_iff in C as [C0 C1]. destruct bits as [|b rest]; [discriminate|].
        destruct b; [eapply IH; [exact C1|exact H] | eapply IH; [exact C0|exact H]].
      + exfalso. destruct bits as [|b rest]; [discriminate|].
        destruct depth as [|dd]; simpl in C; rewrite E1 in C; [discriminate|].
        apply andb_true_iff in C as [C0 C1].
        destruct b.
        * destruct (doomed_fails dd _ C1 f rest) as [e1 He]. rewrite He in H. discriminate.
        * destruct (doomed_fails dd _ C0 f rest) as [e1 He]. rewrite He in H. discriminate.
      + apply N.eqb_eq in C. subst. exact H.
  Qed.
End Machines.
