(* Which diagnostic lbzip2 prints for a decoding error: the regenerated enum
   error (common.h) and err2str() table (expand.c). *)
From Coq Require Import List NArith Arith Bool String Lia.
From LBZ Require Import Dec.Prog Gen.Consts Gen.ErrTab.
Import ListNotations.
Local Open Scope string_scope.

Definition err_c_name (e : err) : option string :=
  match e with
  | EOF => Some "ERR_EOF" | ErrHeader => Some "ERR_HEADER" | ErrBitmap => Some "ERR_BITMAP"
  | ErrTrees => Some "ERR_TREES" | ErrGroups => Some "ERR_GROUPS" | ErrSelector => Some "ERR_SELECTOR"
  | ErrDelta => Some "ERR_DELTA" | ErrPrefix => Some "ERR_PREFIX" | ErrIncomplete => Some "ERR_INCOMPLT"
  | ErrEmpty => Some "ERR_EMPTY" | ErrUnterm => Some "ERR_UNTERM" | ErrRunlen => Some "ERR_RUNLEN"
  | ErrBlkCrc => Some "ERR_BLKCRC" | ErrStrmCrc => Some "ERR_STRMCRC" | ErrOverflow => Some "ERR_OVERFLOW"
  | ErrBwtIdx => Some "ERR_BWTIDX"
  | ErrNotBzip2 | ErrFuel | ErrTable => None
  end.

Fixpoint index_of (s : string) (l : list string) : option nat :=
  match l with
  | [] => None
  | x :: r => if String.eqb s x then Some 0 else option_map S (index_of s r)
  end.

(* err2str(err) = table[err - ERR_MAGIC] *)
Definition message (e : err) : option string :=
  match e with
  | ErrNotBzip2 => Some "not a valid bzip2 file"   (* process.c work() *)
  | _ =>
    match err_c_name e with
    | None => None
    | Some n =>
        match index_of n error_names, index_of err_first_name error_names with
        | Some i, Some b => if Nat.leb b i then nth_error err_messages (i - b)%nat else None
        | _, _ => None
        end
    end
  end.

Definition has_message (e : err) : bool :=
  match message e with Some m => negb (String.eqb m "") | None => false end.

Lemma every_error_has_message e : e <> ErrFuel -> e <> ErrTable -> has_message e = true.
Proof. destruct e; intros H1 H2; try congruence; vm_compute; reflexivity. Qed.

(* the table covers exactly the range the code asserts *)
Lemma err_table_covers_range :
  match index_of (fst err_range_names) error_names, index_of (snd err_range_names) error_names with
  | Some a, Some b => List.length err_messages = S (b - a) /\ Some a = index_of err_first_name error_names
  | _, _ => False
  end.
Proof. vm_compute. split; reflexivity. Qed.
