(* The resumable driver around the regenerated state machine of parse() (Gen/ParseTab.v,
   transcribed from src/parse.c by lib/gen_parse.py), and the decoder that uses it for the
   stream layer the way expand.c does: parse -> OK -> the block is consumed by the block
   reader -> parse continues where the block ended.

   Model of the bit buffer (struct bitstream and the macros bits_need/peek/dump/align, whose
   text is pinned by the translator): the list [m_buf] of the bits that are available and not
   yet consumed, most significant first, plus a flag [eof] = "no more input will come".
     bits_need(bs,16) == OK      <->  at least 16 bits in the list
     bits_peek + bits_dump       =    [run (take 16)] of Dec/Prog.v
     bits_need == FINISH / MORE  <->  fewer than 16 bits and eof / not eof
     bits_align                  =    drop (length mod 8) bits (ParseVocab.bits_align)
   Not modelled here: the 32-bit word granularity of the buffer and the zero padding of the
   last input word (expand.c compensates with `eof_missing`); see the notes in ParseProofs.v. *)
From Coq Require Import List NArith ZArith Bool Lia.
From LBZ Require Import Common.Bits Dec.Prog Dec.Format Dec.ParseVocab Gen.ParseTab.
Import ListNotations.
Local Open Scope N_scope.

(* ---- one call of parse() ------------------------------------------------------------- *)
Inductive pcall :=
| PC_ret (c : rcode) (m : pmem)     (* parse() returned c; m = *ps, *hd, *garbage, bit buffer *)
| PC_abort                          (* an assert failed *)
| PC_fuel.                          (* model artefact, excluded by the theorems *)

Fixpoint parse_loop (fuel : nat) (m : pmem) (eof : bool) : pcall :=
  match fuel with
  | 0%nat => PC_fuel
  | S f =>
      match run (take parse_word_bits) (m_buf m) with
      | Ok (word, rest) =>
          match parse_step (set_buf m rest) word with
          | (m', PCont) => parse_loop f m' eof
          | (m', PRet c) => PC_ret c m'
          | (_, PAbort) => PC_abort
          end
      | Err _ =>
          if eof then
            match parse_eof m with
            | (m', PRet c) => PC_ret c m'
            | _ => PC_abort
            end
          else PC_ret RC_MORE m
      end
  end.

Definition ploop (m : pmem) (eof : bool) : pcall := parse_loop (S (length (m_buf m))) m eof.

Definition parse_call (m : pmem) (eof : bool) : pcall :=
  if parse_entry_ok m then ploop m eof else PC_abort.

(* ---- input in pieces ------------------------------------------------------------------- *)
(* parse() is called with the pieces read so far; on MORE it is called again later with the
   same *ps and the bit buffer = what was left over ++ the next piece.  [] = end of input. *)
Fixpoint parse_chunks (m : pmem) (chunks : list (list bool)) : pcall * list (list bool) :=
  match chunks with
  | [] => (parse_call m true, [])
  | c :: cs =>
      match parse_call (set_buf m (m_buf m ++ c)) false with
      | PC_ret RC_MORE m' => parse_chunks m' cs
      | r => (r, cs)
      end
  end.

(* ---- the decoder around it --------------------------------------------------------------- *)
Inductive dres (A : Type) :=
| D_ok (outs : list A) (garbage : N)   (* parse() returned FINISH with *garbage = garbage *)
| D_err (e : err)                      (* parse() or the block reader returned an error *)
| D_code (c : rcode)                   (* parse() returned something it cannot return (excluded) *)
| D_abort                              (* assert failure (excluded) *)
| D_fuel.                              (* model artefact (excluded) *)
Arguments D_ok {A} outs garbage.
Arguments D_err {A} e.
Arguments D_code {A} c.
Arguments D_abort {A}.
Arguments D_fuel {A}.

Definition err_of_rcode (c : rcode) : option err :=
  match c with
  | RC_OK | RC_MORE | RC_FINISH => None
  | RC_ERR_MAGIC => Some ErrNotBzip2 | RC_ERR_HEADER => Some ErrHeader | RC_ERR_BITMAP => Some ErrBitmap
  | RC_ERR_TREES => Some ErrTrees | RC_ERR_GROUPS => Some ErrGroups | RC_ERR_SELECTOR => Some ErrSelector
  | RC_ERR_DELTA => Some ErrDelta | RC_ERR_PREFIX => Some ErrPrefix | RC_ERR_INCOMPLT => Some ErrIncomplete
  | RC_ERR_EMPTY => Some ErrEmpty | RC_ERR_UNTERM => Some ErrUnterm | RC_ERR_RUNLEN => Some ErrRunlen
  | RC_ERR_BLKCRC => Some ErrBlkCrc | RC_ERR_STRMCRC => Some ErrStrmCrc | RC_ERR_OVERFLOW => Some ErrOverflow
  | RC_ERR_BWTIDX => Some ErrBwtIdx | RC_ERR_EOF => Some EOF
  end.

Section Drive.
  Context {A : Type}.
  (* what happens to a block: [blk level crc bits] gets hd->bs100k, hd->crc and the bits
     after the block header; it fails, or yields some output and the bits after the block
     (where the retriever leaves the parser).  The theorems quantify over it. *)
  Variable blk : N -> N -> list bool -> result (list A * list bool).

  Fixpoint pdrive (fuel : nat) (m : pmem) : dres A :=
    match fuel with
    | 0%nat => D_fuel
    | S f =>
        match parse_call m true with
        | PC_fuel => D_fuel
        | PC_abort => D_abort
        | PC_ret RC_OK m' =>
            match blk (Z.to_N (m_hd_bs100k m')) (m_hd_crc m') (m_buf m') with
            | Err e => D_err e
            | Ok (out, rest) =>
                match pdrive f (set_buf m' rest) with
                | D_ok outs g => D_ok (out ++ outs) g
                | r => r
                end
            end
        | PC_ret RC_FINISH m' => D_ok [] (m_garbage m')
        | PC_ret c _ =>
            match err_of_rcode c with
            | Some e => D_err e
            | None => D_code c
            end
        end
    end.

  (* ---- the stream layer of the format, word by word (specification side) ------------- *)
  (* what parse() reports in *garbage when no further stream starts *)
  Definition tail_garbage (bits : list bool) : N :=
    match run (take 16) bits with
    | Err _ => 0
    | Ok (w1, r1) =>
        if w1 =? 0x425A then
          match run (take 16) r1 with
          | Err _ => 16
          | Ok _ => 32
          end
        else 16
    end.

  Fixpoint wstream (fuel : nat) (level cc : N) (bits : list bool) : result (list A * N) :=
    match fuel with
    | 0%nat => Err ErrFuel
    | S f =>
        match run (take 16) bits with
        | Err _ => Err EOF
        | Ok (w1, r1) =>
            if w1 =? 0x1772 then
              match run (take 16) r1 with
              | Err _ => Err EOF
              | Ok (w2, r2) =>
                  if negb (w2 =? 0x4538) then Err ErrHeader else
                  match run (take 16) r2 with
                  | Err _ => Err EOF
                  | Ok (w3, r3) =>
                      if negb (w3 =? 0x5090) then Err ErrHeader else
                      match run (take 32) r3 with
                      | Err _ => Err EOF
                      | Ok (scrc, r4) =>
                          if negb (scrc =? cc) then Err ErrStrmCrc else
                          match next_stream (align_drop r4) with
                          | None => Ok ([], tail_garbage (align_drop r4))
                          | Some (level', r5) => wstream f level' 0 r5
                          end
                      end
                  end
              end
            else if w1 =? 0x3141 then
              match run (take 16) r1 with
              | Err _ => Err EOF
              | Ok (w2, r2) =>
                  if negb (w2 =? 0x5926) then Err ErrHeader else
                  match run (take 16) r2 with
                  | Err _ => Err EOF
                  | Ok (w3, r3) =>
                      if negb (w3 =? 0x5359) then Err ErrHeader else
                      match run (take 32) r3 with
                      | Err _ => Err EOF
                      | Ok (crc, r4) =>
                          match blk level crc r4 with
                          | Err e => Err e
                          | Ok (out, r5) =>
                              match wstream f level (combine_stream_crc cc crc) r5 with
                              | Err e => Err e
                              | Ok (o, g) => Ok (out ++ o, g)
                              end
                          end
                      end
                  end
              end
            else Err ErrHeader
        end
    end.

  Definition inject (r : result (list A * N)) : dres A :=
    match r with
    | Ok (o, g) => D_ok o g
    | Err e => D_err e
    end.
End Drive.

(* ---- the block of the format as a [blk] ---------------------------------------------------- *)
(* exactly what Format.decode_from does between the block header and the next header; the
   fuel of the delta reader is the one decode_from uses (S (length of the bits from the block
   magic on) = S (80 + length of the bits after the header)) *)
Definition format_blk (pol : policy) (level crc : N) (r2 : list bool) : result (list N * list bool) :=
  match run (read_block pol (S (80 + length r2))) r2 with
  | Err e => Err e
  | Ok (rb, r3) =>
      match decode_block pol level rb with
      | Err e => Err e
      | Ok out =>
          if negb (N.lxor (crc_bytes mask32 out) mask32 =? crc) then Err ErrBlkCrc
          else Ok (out, r3)
      end
  end.

(* ---- the whole file: work() of process.c sniffs the first 32 bits, expand.c starts the
   parser with parser_init(&par, bs100k, expand_stream_mode) on what follows -------------- *)
Definition pdecode_gen {A} (blk : N -> N -> list bool -> result (list A * list bool))
           (m0 : pmem) (bits : list bool) : dres A :=
  match run (take 32) bits with
  | Ok (h, rest) =>
      if (file_magic_base + file_magic_lo <=? h) && (h <=? file_magic_base + file_magic_hi) then
        pdrive blk (S (length rest))
               (set_buf (parser_init m0 (Z.of_N (h - (file_magic_base + file_magic_level_base))) expand_stream_mode) rest)
      else D_err ErrNotBzip2
  | Err _ => D_err ErrNotBzip2
  end.

Definition pdecode_bits (pol : policy) (m0 : pmem) (bits : list bool) : dres N :=
  pdecode_gen (format_blk pol) m0 bits.

(* ---- what the scheduler sees: the block headers ------------------------------------------- *)
(* [body_end bits] = the bits after the block whose body starts at [bits] (None: the block
   reader fails).  The outputs are (number of bits left when the header was complete,
   hd->crc, hd->bs100k), in order; the verdict is that of [dres]. *)
Definition header_blk (body_end : list bool -> option (list bool)) (level crc : N) (bits : list bool)
  : result (list (nat * N * N) * list bool) :=
  match body_end bits with
  | Some rest => Ok ([(length bits, crc, level)], rest)
  | None => Err ErrUnterm
  end.

Definition parse_headers (body_end : list bool -> option (list bool)) (m0 : pmem) (bits : list bool)
  : dres (nat * N * N) := pdecode_gen (header_blk body_end) m0 bits.

(* an arbitrary content of the memory parser_init() and parse() start from *)
Definition pmem0 : pmem := mk_pmem PS_ACCEPT 77 0xDEADBEEF 0xBADC0DE 5 (-7) 0xFEEDFACE 99 [].
