(* C02 - Compressed output is a strictly well-formed bzip2 stream.
   The strict-format demands on the encoder's free choices are collected in
   witness_ok (evaluated by the correspondence on the real encoder state of every
   generated block, together with byte-exact agreement of transmit() with
   write_block): what it guarantees is C02_witness_is_strict; the writer sets the
   header digit, never the randomisation bit, and the reference-format decoder
   ref_noexc_decode (validated against libbz2) inverts it (see C01 for the stage
   inverses; the composed statement is C02_stream_strict once Enc/StreamProofs.v
   is in place). *)
From Coq Require Import List NArith Arith Bool Lia.
From LBZ Require Import Common.Bits Dec.Prog Dec.Format Dec.Policies Enc.EncModel Enc.EncFacts Gen.Consts.
Import ListNotations.
Local Open Scope N_scope.

(* block size <= N*100000 (M), primary index inside the block, 2-6 tables ALL complete
   with lengths 1-20 (used or not), selectors valid and at most 18002 *)
Theorem C02_witness_is_strict :
  forall M w, witness_ok M w = true ->
    w_blk w <> [] /\ N.of_nat (length (w_blk w)) <= M /\
    valid_idx (w_blk w) (w_idx w) /\
    (2 <= length (w_tables w) <= 6)%nat /\
    Forall (fun lens => Forall (fun l => 1 <= l <= 20) lens /\ kraft lens = kraft_full) (w_tables w) /\
    Forall (fun s => s < N.of_nat (length (w_tables w))) (w_sels w) /\
    N.of_nat (length (w_sels w)) + (if w_extra_sel w then 1 else 0) <= 18002 /\
    w_pad w <= 3.
Proof. exact witness_ok_spec. Qed.

(* the stream header carries the level digit; every block is written with randomisation bit 0 *)
Theorem C02_header_and_rand_bit :
  forall level ws, firstn 32 (write_stream level ws) = put 24 0x425A68 ++ put 8 (0x30 + level) /\
  forall w, firstn 1 (write_body w) = [false].
Proof. exact header_rand_facts. Qed.
