(* C02 - Compressed output is a strictly well-formed bzip2 stream.
   The strict-format demands on the encoder's free choices are collected in
   witness_ok (evaluated by the correspondence on the real encoder state of every
   generated block, together with byte-exact agreement of transmit() with
   write_block): what it guarantees is C02_witness_is_strict; the writer sets the
   header digit, never the randomisation bit, and the reference-format decoder
   ref_noexc_decode (the strict format minus nothing lbzip2 needs; validated
   against libbz2) decodes the written stream to the input (C02_stream_strict). *)
From Coq Require Import List NArith Arith Bool Lia.
From LBZ Require Rle.RleModel.
From LBZ Require Import Common.Bits Dec.Prog Dec.Format Dec.Policies Dec.DecProofs Dec.CrcProofs Enc.EncModel Enc.EncFacts Enc.StreamProofs Enc.EncCompose Gen.Consts.
Import ListNotations.
Local Open Scope N_scope.

(* block size <= N*100000 (M), primary index inside the block, 2-6 tables ALL complete
   with lengths 1-20 (used or not), selectors valid and at most 18002 *)
Theorem C02_witness_is_strict :
  forall M w, witness_ok M w = true ->
    w_blk w <> [] /\ N.of_nat (length (w_blk w)) <= M /\
    valid_idx (w_blk w) (w_idx w) /\
    (2 <= length (w_tables w) <= 6)%nat /\
    Forall (fun lens => Forall (fun l => 1 <= l <= 20) lens /\ kraft lens = kraft_full) (w_tables w) /\
    Forall (fun s => s < N.of_nat (length (w_tables w))) (w_sels w) /\
    N.of_nat (length (w_sels w)) + (if w_extra_sel w then 1 else 0) <= 18002 /\
    w_pad w <= 3.
Proof. exact witness_ok_spec. Qed.

(* the stream header carries the level digit; every block is written with randomisation bit 0 *)
Theorem C02_header_and_rand_bit :
  forall level ws, firstn 32 (write_stream level ws) = put 24 0x425A68 ++ put 8 (0x30 + level) /\
  forall w, firstn 1 (write_body w) = [false].
Proof. exact header_rand_facts. Qed.

(* the whole stream is accepted by the STRICT reference format (every delta step in
   1..20, every used table complete, no missing run count, CRCs, sizes) and decodes
   to the input - hence also by the reference format proper *)
Theorem C02_stream_strict :
  forall level (ws : list witness) (xs : list (list N)),
    1 <= level <= 9 ->
    Forall2 (fun w x => witness_ok (100000 * level) w = true /\ Forall (fun c => c < 256) x /\ x <> [] /\
                        w_blk w = RleModel.rle1 x /\ w_crc w = N.lxor (crc_bytes mask32 x) mask32) ws xs ->
    ref_noexc_decode (bytes_of_bits (pad_to_byte (write_stream level ws))) = Ok (concat xs) /\
    ref_decode (bytes_of_bits (pad_to_byte (write_stream level ws))) = Ok (concat xs).
Proof. exact stream_strict_both. Qed.
