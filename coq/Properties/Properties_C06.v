(* C06 - Every conforming bzip2 file is decompressed.
   ref_lenient_decode: the most lenient reading of a conforming stream (strict
   delta steps, used tables not over-subscribed, a block may even end in four
   equal bytes).  ref_noexc_decode: the same minus exactly the two documented
   exceptions of lbzip2 (a group coded by an INCOMPLETE table; a block ending in
   four equal bytes without count) - the three policies differ in nothing else
   (C06_exceptions_are_the_only_difference). *)
From Coq Require Import List NArith Arith Bool Lia.
From LBZ Require Import Common.Bits Dec.Prog Dec.Format Dec.Delta Dec.DeltaProofs Dec.Policies Dec.DecProofs Dec.FormatConst Gen.DecTabs Gen.CrcTab.
Import ListNotations.
Local Open Scope N_scope.

Theorem C06_complete :
  forall file o, ref_noexc_decode file = Ok o -> lbz_decode file = Ok o.
Proof. exact lbz_complete. Qed.

(* what is excluded is a sub-case of the reference format, with the same output *)
Theorem C06_noexc_is_conforming :
  forall file o, ref_noexc_decode file = Ok o -> ref_decode file = Ok o /\ ref_lenient_decode file = Ok o.
Proof. exact (fun file o H => conj (noexc_sound file o H) (ref_lenient_ext file o (noexc_sound file o H))). Qed.

Theorem C06_exceptions_are_the_only_difference :
  delta_reader ref_noexc_policy = delta_reader ref_lenient_policy /\
  (forall lens, table_check ref_noexc_policy lens = Ok tt <-> kraft lens = kraft_full) /\
  (forall lens, table_check ref_lenient_policy lens = Ok tt <-> kraft lens <= kraft_full) /\
  runlen_strict ref_noexc_policy = true /\ runlen_strict ref_lenient_policy = false.
Proof. exact policies_differ. Qed.

(* the strict reader accepts => the table-driven reader accepts, same length *)
Theorem C06_delta_windows_complete :
  forall fuel cur bits v r, cur < 32 ->
    run (strict_delta fuel cur) bits = Ok (v, r) -> run (win_delta fuel cur) bits = Ok (v, r).
Proof. exact (strict_to_win closed_sw_true). Qed.

(* legacy randomised blocks: the regenerated derandomisation table is the format's *)
Theorem C06_rand_table_is_format_constant :
  rand_table = format_rand_table /\ RAND_THRESH = format_rand_thresh.
Proof. exact rand_table_is_format. Qed.

Theorem C06_crc_table_is_crc32_polynomial : crc_table = crc_table_spec.
Proof. exact crc_table_is_poly. Qed.

(* non-vacuity *)
Example C06_accepts_randomised_6_tables :
  ref_noexc_decode [66; 90; 104; 51; 49; 65; 89; 38; 83; 89; 51; 71; 72; 175; 128; 0; 2; 65; 0; 0; 64; 4; 0; 96; 0; 33; 43; 192; 142; 176; 71; 58; 194; 22; 16; 187; 9; 94; 175; 32; 177; 119; 36; 83; 133; 9; 3; 52; 116; 138; 240] = Ok [100; 100; 100; 100; 100; 100; 100; 100; 100; 100; 100; 100] /\
  lbz_decode [66; 90; 104; 51; 49; 65; 89; 38; 83; 89; 51; 71; 72; 175; 128; 0; 2; 65; 0; 0; 64; 4; 0; 96; 0; 33; 43; 192; 142; 176; 71; 58; 194; 22; 16; 187; 9; 94; 175; 32; 177; 119; 36; 83; 133; 9; 3; 52; 116; 138; 240] = Ok [100; 100; 100; 100; 100; 100; 100; 100; 100; 100; 100; 100].
Proof. vm_compute. split; reflexivity. Qed.

Example C06_exception_incomplete_table :
  (exists o, ref_decode [66; 90; 104; 49; 49; 65; 89; 38; 83; 89; 157; 116; 161; 89; 0; 0; 0; 1; 0; 20; 0; 80; 0; 62; 21; 122; 122; 184; 36; 245; 125; 7; 94; 251; 154; 131; 122; 228; 13; 119; 174; 166; 217; 161; 119; 36; 83; 133; 9; 9; 215; 74; 21; 144] = Ok o) /\ lbz_decode [66; 90; 104; 49; 49; 65; 89; 38; 83; 89; 157; 116; 161; 89; 0; 0; 0; 1; 0; 20; 0; 80; 0; 62; 21; 122; 122; 184; 36; 245; 125; 7; 94; 251; 154; 131; 122; 228; 13; 119; 174; 166; 217; 161; 119; 36; 83; 133; 9; 9; 215; 74; 21; 144] = Err ErrIncomplete.
Proof. vm_compute. split; [eexists; reflexivity|reflexivity]. Qed.

Example C06_exception_four_equal_bytes :
  (exists o, ref_lenient_decode [66; 90; 104; 52; 49; 65; 89; 38; 83; 89; 88; 13; 221; 100; 0; 0; 5; 3; 74; 8; 0; 0; 6; 0; 32; 1; 32; 0; 20; 32; 0; 33; 129; 0; 192; 130; 200; 114; 247; 118; 120; 187; 146; 41; 194; 132; 130; 192; 110; 235; 32] = Ok o) /\ lbz_decode [66; 90; 104; 52; 49; 65; 89; 38; 83; 89; 88; 13; 221; 100; 0; 0; 5; 3; 74; 8; 0; 0; 6; 0; 32; 1; 32; 0; 20; 32; 0; 33; 129; 0; 192; 130; 200; 114; 247; 118; 120; 187; 146; 41; 194; 132; 130; 192; 110; 235; 32] = Err ErrRunlen.
Proof. vm_compute. split; [eexists; reflexivity|reflexivity]. Qed.
