(* C05/C06/C07/C15, stream layer: the state machine of parse() (src/parse.c), regenerated from
   the source into Gen/ParseTab.v by lib/gen_parse.py, refines the stream layer of the format
   (Dec/Format.v), which is what the theorems of Properties_C05/C06/C07/C15 are about.

   pdecode_bits pol m0 bits   = the decoder that uses the REGENERATED parse() for everything
                                between blocks (driver: Dec/ParseModel.v, bit buffer = list of
                                bits + eof flag) and Format's block reader for the blocks,
                                started like work()/expand.c start it, from arbitrary memory m0
   decode_bits_info pol bits  = the format (hand-written stream layer)

   All finite facts about the regenerated table (every case of the switch, the constants, the
   masks and shifts, that all 32 bits of a CRC are compared) are proved by computation on the
   regenerated terms in Dec/ParseProofs.v Part 1; a changed source changes the terms. *)
From Coq Require Import List NArith ZArith Bool Lia.
From LBZ Require Import Common.Bits Dec.Prog Dec.Format Dec.Policies Dec.CrcProofs
  Dec.ParseVocab Gen.ParseTab Dec.ParseModel Dec.ParseProofs.
Import ListNotations.
Local Open Scope N_scope.

(* ---- refinement ------------------------------------------------------------------------------ *)
(* Same accepted inputs with the same output; same error class, with ONE exception: when the
   input ends inside a 48-bit block/end-of-stream magic whose complete 16-bit words already
   mismatch, the format says "premature end" (it reads 48 bits at once) while parse() says
   ERR_HEADER (as the real binary does).  Never an assert failure, an impossible return code
   or fuel exhaustion (D_abort / D_code / D_fuel do not occur). *)
Theorem C05_parse_refines_format :
  forall pol m0 bits,
    match decode_bits_info pol bits with
    | Ok (o, _) => exists garbage, pdecode_bits pol m0 bits = D_ok o garbage
    | Err e => pdecode_bits pol m0 bits = D_err e \/ (e = EOF /\ pdecode_bits pol m0 bits = D_err ErrHeader)
    end.
Proof. exact parse_refines_format. Qed.

Theorem C05_parse_accepts_iff :
  forall pol m0 bits o,
    (exists garbage, pdecode_bits pol m0 bits = D_ok o garbage) <-> (exists ps, decode_bits_info pol bits = Ok (o, ps)).
Proof. exact parse_accepts_iff. Qed.

(* the exception is real (and it is the format model, not lbzip2, that is imprecise there) *)
Theorem C05_parse_error_class_differs :
  exists bits, decode_bits_info lbz_policy bits = Err EOF /\ pdecode_bits lbz_policy pmem0 bits = D_err ErrHeader.
Proof. exact parse_error_class_differs. Qed.

(* For EVERY block handler blk (what is done with a block and where its body ends is
   arbitrary, as long as the bit stream is handed back at or after the point it was taken):
   the machine driver computes the word-level stream skeleton wstream: same sequence of
   (level, block CRC) pairs handed to blk, same combined-CRC check, same treatment of
   concatenated streams, trailing garbage of 0 / 16 / 32 bits reported as parse() reports it. *)
Theorem C05_parse_refines_words :
  forall (A : Type) (blk : N -> N -> list bool -> result (list A * list bool)) m0 bits,
    (forall l c b o r, blk l c b = Ok (o, r) -> (length r <= length b)%nat) ->
    pdecode_gen blk m0 bits =
    match run (take 32) bits with
    | Ok (h, rest) =>
        if (0x425A6831 <=? h) && (h <=? 0x425A6839)
        then inject (wstream blk (S (length rest)) (h - 0x425A6830) 0 rest)
        else D_err ErrNotBzip2
    | Err _ => D_err ErrNotBzip2
    end.
Proof. exact @pdecode_gen_wstream. Qed.

(* ... and the word-level skeleton with the format's block reader is the format *)
Theorem C05_words_refine_format :
  forall pol fuel level cc bits,
    match decode_from pol fuel level cc bits with
    | Ok (o, _) => exists g, wstream (format_blk pol) fuel level cc bits = Ok (o, g)
    | Err e => wstream (format_blk pol) fuel level cc bits = Err e \/
               (e = EOF /\ wstream (format_blk pol) fuel level cc bits = Err ErrHeader)
    end.
Proof. exact wstream_format. Qed.

(* C07, stream layer: always a verdict *)
Theorem C07_parse_always_verdict :
  forall pol m0 bits,
    (exists o g, pdecode_bits pol m0 bits = D_ok o g) \/ (exists e, pdecode_bits pol m0 bits = D_err e).
Proof. exact parse_always_verdict. Qed.

(* suspending with MORE at the end of every piece of input (whole bytes) and resuming =
   one call on the whole input *)
Theorem C05_parse_chunking :
  forall chunks m,
    Forall (fun c : list bool => (length c mod 8 = 0)%nat) chunks ->
    match parse_chunks m chunks with
    | (PC_ret c m', unread) => parse_call (madd m (concat chunks)) true = PC_ret c (madd m' (concat unread))
    | (PC_abort, _) => parse_call (madd m (concat chunks)) true = PC_abort
    | (PC_fuel, _) => False
    end.
Proof. exact parse_chunking. Qed.

(* ---- C15 on the machine itself ----------------------------------------------------------------- *)
(* crc_inv m crcs: the parser is between blocks (state BLOCK_MAGIC_1, not in stream mode) and
   its computed_crc is the combination of the stored CRCs [crcs] of the blocks of the stream *)
Theorem C15_parse_starts_with_no_blocks :
  forall m0 level buf, crc_inv (set_buf (parser_init m0 level expand_stream_mode) buf) [].
Proof. exact crc_inv_init. Qed.

Theorem C15_parse_block_crc_passed_on :
  forall m crcs crc r1 r2 eof,
    crc_inv m crcs ->
    run (take 48) (m_buf m) = Ok (block_magic, r1) -> run (take 32) r1 = Ok (crc, r2) ->
    exists m', parse_call m eof = PC_ret RC_OK m' /\ m_hd_crc m' = crc /\ m_hd_bs100k m' = m_ps_bs100k m /\
               m_buf m' = r2 /\ crc_inv m' (crcs ++ [crc]).
Proof. exact parse_block_header. Qed.

(* the regenerated machine rejects a stream whose stored stream CRC differs from the combined
   CRC of the stored block CRCs -- in any bit, whether or not more input may follow *)
Theorem C15_parse_stream_crc_enforced :
  forall m crcs scrc r1 r2 eof,
    crc_inv m crcs ->
    run (take 48) (m_buf m) = Ok (eos_magic, r1) -> run (take 32) r1 = Ok (scrc, r2) ->
    scrc <> fold_left combine_stream_crc crcs 0 ->
    exists m', parse_call m eof = PC_ret RC_ERR_STRMCRC m'.
Proof. exact parse_stream_crc_enforced. Qed.

Theorem C15_parse_stream_crc_bitflip :
  forall m crcs i r1 r2 eof,
    crc_inv m crcs -> i < 32 ->
    run (take 48) (m_buf m) = Ok (eos_magic, r1) ->
    run (take 32) r1 = Ok (N.lxor (fold_left combine_stream_crc crcs 0) (2 ^ i), r2) ->
    exists m', parse_call m eof = PC_ret RC_ERR_STRMCRC m'.
Proof. exact parse_stream_crc_bitflip. Qed.

(* end to end: in an input accepted by the parse()-based decoder, flipping any bit of any
   stored CRC field (block or stream) gives an input it rejects *)
Theorem C15_parse_crc_fields_enforced :
  forall pol m0 bits o g,
    pdecode_bits pol m0 bits = D_ok o g ->
    exists ps, decode_bits_info pol bits = Ok (o, ps) /\
               forall p j, In p ps -> (j < 32)%nat -> exists e, pdecode_bits pol m0 (flip (p + j) bits) = D_err e.
Proof. exact parse_crc_fields_enforced. Qed.

(* the parser states are distinct integers (ACCEPT of scantab.h is none of the enum values) *)
Theorem C15_parse_states_distinct : NoDup (map pstate_code all_pstates).
Proof. exact pstate_codes_distinct. Qed.

(* ---- non-vacuity ---------------------------------------------------------------------------------- *)
Definition hello_bz2 : list N :=
  [66; 90; 104; 49; 49; 65; 89; 38; 83; 89; 158; 98; 91; 254; 0; 0; 2; 145; 0; 64; 0; 2; 68; 160; 0; 33; 20; 96;
   102; 130; 145; 239; 35; 71; 11; 185; 34; 156; 40; 72; 79; 49; 45; 255; 0].

(* a real one-block stream, twice, followed by 5 bytes of garbage: accepted, garbage = 16 *)
Example C05_parse_real_stream :
  pdecode_bits lbz_policy pmem0 (bits_of_bytes (hello_bz2 ++ hello_bz2 ++ [0; 0; 0; 0; 0])) =
  D_ok (map (fun c => N.of_nat c) ([104; 101; 108; 108; 111; 32; 104; 101; 108; 108; 111; 32; 104; 101; 108; 108; 111] ++
                                   [104; 101; 108; 108; 111; 32; 104; 101; 108; 108; 111; 32; 104; 101; 108; 108; 111])%nat) 16.
Proof. vm_compute. reflexivity. Qed.

(* the headers the scheduler gets for it: two blocks of level 1 with the same CRC; the block
   body is 161 bits long (the oracle here: skip 161 bits) *)
Example C05_parse_real_headers :
  parse_headers (fun b => Some (skipn 161 b)) pmem0 (bits_of_bytes (hello_bz2 ++ hello_bz2)) =
  D_ok [(608%nat, 0x9E625BFE, 1); (248%nat, 0x9E625BFE, 1)] 0.
Proof. vm_compute. reflexivity. Qed.

(* the hypotheses of C15_parse_stream_crc_enforced on a concrete state: after one block with
   stored CRC 0x9E625BFE, a trailer whose stream CRC has its lowest bit flipped *)
Example C15_parse_hypotheses_satisfiable :
  let m := mk_pmem PS_BLOCK_MAGIC_1 1 0x9E62 (combine_stream_crc 0 0x9E625BFE) 0 1 0x9E625BFE 0
                   (bits_msb 48 eos_magic ++ bits_msb 32 0x9E625BFF ++ [true; false]) in
  crc_inv m [0x9E625BFE] /\
  run (take 48) (m_buf m) = Ok (eos_magic, bits_msb 32 0x9E625BFF ++ [true; false]) /\
  run (take 32) (bits_msb 32 0x9E625BFF ++ [true; false]) = Ok (0x9E625BFF, [true; false]) /\
  0x9E625BFF <> fold_left combine_stream_crc [0x9E625BFE] 0 /\
  (exists m', parse_call m false = PC_ret RC_ERR_STRMCRC m') /\
  (* ... and with the right CRC the same call goes on (here: asks for more input) *)
  (exists m', parse_call (set_buf m (bits_msb 48 eos_magic ++ bits_msb 32 0x9E625BFE ++ [true; false])) false
              = PC_ret RC_MORE m').
Proof.
  cbv zeta. split; [|split; [|split; [|split; [|split]]]].
  - repeat split. repeat constructor.
  - vm_compute. reflexivity.
  - vm_compute. reflexivity.
  - vm_compute. discriminate.
  - eexists. vm_compute. reflexivity.
  - eexists. vm_compute. reflexivity.
Qed.
