(* C01/C02 with EVERYTHING but the BWT primary index computed: encode() itself is modelled.
   Properties_C02gen(_total) compute the prefix tables and the selectors with the model of generate_prefix_code();
   tree_pad (w_pad <= 3) and the surplus selector were still free choices.  Here Enc/EncodeModel.v models encode()
   of src/encode.c from the MTF stage on: the cost arithmetic in uint32_t (header 123 bits + the value RETURNED by
   generate_prefix_code() + selector MTF costs + padding + character map), the packed 32-bit selector MTF
   (p = 0x543210, xor/add/and/ctz), j = (8 - (cost & 7)) & 7, tree_pad = j >> 1, surplus selector j & 1,
   out_expect_len = cost >> 3, with every assert() of encode() and the selectorMTF[] bound as error values.
   Tied to the C by checks/encode_part.py: the extracted model run on (block, real BWT index) must reproduce tree_pad,
   num_selectors, selectorMTF[], out_expect_len and the complete BYTES of the block written by the real transmit().

   What the theorems say (Enc/EncodePmCost.v, EncodeGenCost.v, EncodeSelMtf.v, EncodeLayout.v, EncodeProofs.v):
   - the value returned by assign_codes() is exactly 5 + as + 2 sum|delta| + sum freq * length of the FINAL lengths;
   - the value returned by generate_prefix_code() is exactly the number of bits transmit() spends on the tables
     (without tree_pad) and on the prefix codes; the first selector is tree 0;
   - the packed selector MTF computes move-to-front positions (all 720 x 6 states);
   - on every valid block the model of encode() returns no error value, tree_pad <= 3, and the bit length of
     write_block on the computed witness EQUALS the cost encode() computed, which is 8 * out_expect_len:
     every block ends on a byte boundary, transmit()'s final asserts hold, the stream needs no padding;
   - every value of `a` that transmit() sends / steps through for a table stays within 1..20 (tree_pad rule a < 4);
   - C01 round trip + C02 strictness for streams written with computed tables, selectors, tree_pad, surplus selector.
   What REMAINS witness: the BWT primary index (divbwt.c), constrained by valid_idxb. *)
From Coq Require Import List NArith Arith Bool Lia.
From LBZ Require Rle.RleModel.
From LBZ Require Import Common.Bits Gen.Consts Dec.Prog Dec.Format Dec.Policies Dec.CrcProofs
  Enc.EncModel Enc.PmModel Enc.PmReal Enc.PmProofs Enc.PmCost Enc.GenModel Enc.GenProofs Enc.GenCompose
  Enc.EncodeModel Enc.EncodePmCost Enc.EncodeGenCost Enc.EncodeSelMtf Enc.EncodeLayout Enc.EncodeProofs.
Import ListNotations.
Local Open Scope N_scope.

(* the value returned by assign_codes(): cost of the table + cost of the symbols, over the final lengths, no wrap *)
Theorem C02enc_assign_codes_cost :
  forall f len0 r, pm_input_ok f -> (3 <= length f)%nat -> length len0 = length f ->
    assign_lengths len0 f = Ok r ->
    r_cost r = dot f (r_lengths r) + tree_cost (r_lengths r) /\ r_cost r <= 20 * lsum f + 10583.
Proof. exact assign_lengths_cost. Qed.

(* the value returned by generate_prefix_code(): bits of all transmitted tables + bits of all prefix codes *)
Theorem C02enc_generate_prefix_code_cost :
  forall cf mtfv r, 1 <= cf -> gen_input_ok mtfv -> 3 <= last mtfv 0 + 1 ->
    gen_prefix_code cf mtfv = GOk r ->
    g_cost r = lsum (map tree_cost (g_tables r)) + gbits (tab_of (g_tables r)) (g_sels r) mtfv /\
    g_cost r < 2 ^ 27 /\
    hd 1 (g_sels r) = 0 /\ g_sels_old r <> [] /\ Forall (fun t => t < MAX_TREES) (g_sels_old r).
Proof. exact gen_cost. Qed.

(* the packed selector MTF of encode() = move-to-front positions over [0..5] *)
Theorem C02enc_selector_mtf :
  forall nt sels cost, nt <= 6 -> Forall (fun c => c < nt) sels ->
    sel_mtf_loop nt sels SEL_MTF_INIT cost =
      EOk (mtf_encode_sels [0; 1; 2; 3; 4; 5] sels, selcost (mtf_encode_sels [0; 1; 2; 3; 4; 5] sels) cost) /\
    Forall (fun j => j <= 5) (mtf_encode_sels [0; 1; 2; 3; 4; 5] sels).
Proof. exact sel_mtf_loop_init. Qed.

(* field lengths of the layout *)
Theorem C02enc_block_length :
  forall w, w_tables w <> [] -> Forall (fun lens => lens <> []) (w_tables w) ->
    (4 <= hd 0 (hd [] (w_tables w)) -> w_pad w <= hd 0 (hd [] (w_tables w))) ->
    N.of_nat (length (write_block w)) =
      HEADER_COST + (16 + 16 * used_ranges (used_bytes (bwt_last (w_blk w)))) +
      (lsum (mtf_encode_sels sel_order0 (w_sels w)) + N.of_nat (length (w_sels w))) + (if w_extra_sel w then 1 else 0) +
      2 * w_pad w + lsum (map tree_cost (w_tables w)) + gbits (tab_of (w_tables w)) (w_sels w) (block_syms w).
Proof. exact write_block_length_eq. Qed.

(* (a) + (b): encode() never errs on a valid block; tree_pad <= 3; the bits written = the cost computed = 8 * out_expect_len *)
Theorem C02enc_encode_total :
  forall cf blk idx crc, 1 <= cf -> block_ok blk ->
    exists r, encode_block_full cf blk idx crc = EOk r /\ encode_facts cf blk idx crc r.
Proof. exact encode_block_full_ok. Qed.

Theorem C02enc_byte_aligned :
  forall cf blk idx crc, 1 <= cf -> block_ok blk ->
    exists r, encode_block_full cf blk idx crc = EOk r /\
      N.of_nat (length (write_block (e_wit r))) = 8 * e_expect_len r /\
      N.of_nat (length (write_block (e_wit r))) = e_cost_bits r /\
      (length (write_block (e_wit r)) mod 8 = 0)%nat.
Proof. exact encode_block_aligned. Qed.

(* the computed witness is the one of Properties_C02gen with the computed padding choices, and it is acceptable *)
Theorem C02enc_block_witness :
  forall cf blk idx crc, 1 <= cf -> block_ok blk ->
    exists w, encode_block cf blk idx crc = EOk w /\
      w_pad w <= 3 /\ w_blk w = blk /\ w_idx w = idx /\ w_crc w = crc /\
      gen_witness make_code_lengths cf blk idx (w_extra_sel w) (w_pad w) crc = GOk w.
Proof. exact encode_block_ok. Qed.

Theorem C02enc_witness_ok :
  forall cf M blk idx crc, 1 <= cf -> M <= MAX_BLOCK_SIZE ->
    blk <> [] -> N.of_nat (length blk) <= M -> Forall (fun c => c < 256) blk ->
    valid_idxb blk idx = true -> crc < 2 ^ 32 ->
    exists w, encode_block cf blk idx crc = EOk w /\ witness_ok M w = true /\ w_blk w = blk /\ w_crc w = crc.
Proof. exact encode_block_witness_ok. Qed.

(* (c) the 5-bit start value and every delta step of a table stay within 1..20 *)
Theorem C02enc_table_walk :
  forall pad lens, pad <= 3 -> lens <> [] -> Forall (fun l => 1 <= l <= 20) lens ->
    Forall (fun a => 1 <= a <= 20) (table_walk pad lens).
Proof. exact table_walk_range. Qed.

(* table_walk lists exactly the values behind the bits of write_table: start value, one entry per 2-bit delta code *)
Theorem C02enc_walk_bits :
  forall pad lens,
    write_table pad lens = put 5 (table_start pad lens) ++ write_deltas (table_start pad lens) lens /\
    length (write_deltas (table_start pad lens) lens) =
      (2 * length (delta_walk (table_start pad lens) lens) + length lens)%nat.
Proof. exact write_table_walk. Qed.

Theorem C02enc_block_walks :
  forall cf blk idx crc, 1 <= cf -> block_ok blk ->
    exists w, encode_block cf blk idx crc = EOk w /\
      forall i lens, nth_error (w_tables w) i = Some lens ->
        Forall (fun a => 1 <= a <= 20) (table_walk (if (i =? 0)%nat then w_pad w else 0) lens).
Proof. exact encode_block_walks. Qed.

(* (d) C01_roundtrip / C02_stream_strict with tables, selectors, tree_pad and surplus selector all COMPUTED: the
   input is cut into non-empty blocks within the block size of the level; for every choice of valid BWT primary
   indices the encoder model yields the witnesses, every block is a whole number of bytes (the stream needs no
   padding), and the stream decodes to the input with lbzip2's decoder model, the strict reference format and the
   reference format. *)
Theorem C02enc_stream_total :
  forall cf level (xs : list (list N)) (idxs : list N),
    1 <= cf -> 1 <= level <= 9 -> Forall2 (enc_input_ok level) xs idxs ->
    exists ws,
      Forall2 (encoded cf) (combine xs idxs) ws /\
      Forall (fun w => w_pad w <= 3 /\ (length (write_block w) mod 8 = 0)%nat) ws /\
      pad_to_byte (write_stream level ws) = write_stream level ws /\
      lbz_decode (bytes_of_bits (write_stream level ws)) = Prog.Ok (concat xs) /\
      ref_noexc_decode (bytes_of_bits (write_stream level ws)) = Prog.Ok (concat xs) /\
      ref_decode (bytes_of_bits (write_stream level ws)) = Prog.Ok (concat xs).
Proof. exact enc_stream_total. Qed.

(* ---- non-vacuity -------------------------------------------------------------------------------------------------------------- *)
(* "banana": 1 group, one tree used + the dummy tree; generate_prefix_code() returns 42; 123 + 42 + 1 (selector) = 166,
   j = 2: tree_pad = 1, no surplus selector; + 32 bits of character map: 200 bits = 25 bytes *)
Definition ex_banana : list N := [98; 97; 110; 97; 110; 97].

Example C02enc_example_block :
  block_ok ex_banana /\
  match encode_block_full CLUSTER_FACTOR ex_banana 3 (block_crc ex_banana) with
  | EOk r => e_wit r = {| w_blk := ex_banana; w_idx := 3; w_tables := [[3; 3; 3; 1; 3]; [2; 2; 2; 3; 3]]; w_sels := [0];
                          w_extra_sel := false; w_pad := 1; w_crc := block_crc ex_banana |} /\
             g_cost (e_gen r) = 42 /\ e_selmtf r = [0] /\ e_nsel r = 1 /\ e_cost_bits r = 200 /\ e_expect_len r = 25 /\
             length (write_block (e_wit r)) = 200%nat /\
             table_walk (w_pad (e_wit r)) [3; 3; 3; 1; 3] = [4; 3; 2; 1; 2; 3]
  | EErr _ => False
  end.
Proof.
  split; [split; [discriminate|split; [vm_compute; discriminate|repeat constructor]]|].
  vm_compute. repeat split; reflexivity.
Qed.

(* a block whose padding needs the surplus selector (j = 3: tree_pad = 1 and one dummy selector); the first table
   starts with length 4, so the start value is 4 - tree_pad *)
Example C02enc_example_surplus_selector :
  match encode_block_full CLUSTER_FACTOR [1; 2; 3; 4] 0 0 with
  | EOk r => w_tables (e_wit r) = [[4; 4; 2; 2; 2; 3]; [2; 2; 3; 3; 3; 3]] /\ w_sels (e_wit r) = [0] /\
             w_pad (e_wit r) = 1 /\ w_extra_sel (e_wit r) = true /\ e_nsel r = 2 /\ e_selmtf r = [0; 0] /\
             g_cost (e_gen r) = 41 /\ e_cost_bits r = 200 /\ e_expect_len r = 25 /\
             length (write_block (e_wit r)) = 200%nat /\
             table_walk (w_pad (e_wit r)) [4; 4; 2; 2; 2; 3] = [3; 4; 3; 2; 3]
  | EErr _ => False
  end.
Proof. vm_compute. repeat split; reflexivity. Qed.

Example C02enc_example_stream :
  enc_input_ok 1 ex_banana 3 /\
  lbz_decode (bytes_of_bits (write_stream 1
    [{| w_blk := ex_banana; w_idx := 3; w_tables := [[3; 3; 3; 1; 3]; [2; 2; 2; 3; 3]]; w_sels := [0];
        w_extra_sel := false; w_pad := 1; w_crc := block_crc ex_banana |}]))
  = Prog.Ok ex_banana.
Proof.
  assert (I : enc_input_ok 1 ex_banana 3).
  { split; [repeat constructor|]. split; [discriminate|]. split; [vm_compute; discriminate|vm_compute; reflexivity]. }
  split; [exact I|].
  destruct (C02enc_stream_total CLUSTER_FACTOR 1 [ex_banana] [3] ltac:(vm_compute; discriminate) ltac:(lia)
              ltac:(constructor; [exact I|constructor])) as [ws [F [_ [_ [D _]]]]].
  cbn [combine] in F. inversion F as [|? w ? ws' Hw Hr]; subst. inversion Hr; subst.
  unfold encoded, encode_block in Hw. cbn [fst snd] in Hw.
  assert (E : w = {| w_blk := ex_banana; w_idx := 3; w_tables := [[3; 3; 3; 1; 3]; [2; 2; 2; 3; 3]]; w_sels := [0];
                     w_extra_sel := false; w_pad := 1; w_crc := block_crc ex_banana |}).
  { vm_compute in Hw. inversion Hw. reflexivity. }
  subst w. cbn [concat app] in D. rewrite app_nil_r in D. exact D.
Qed.

Print Assumptions C02enc_assign_codes_cost.
Print Assumptions C02enc_generate_prefix_code_cost.
Print Assumptions C02enc_encode_total.
Print Assumptions C02enc_block_walks.
Print Assumptions C02enc_stream_total.
