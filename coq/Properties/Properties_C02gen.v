(* C01/C02 without a witness for tables and selectors.
   Properties_C01/C02 are stated for a WITNESS-based encoder model: the prefix tables, the selectors and the
   number of tables chosen by the heuristics of generate_prefix_code() (src/encode.c) are arbitrary values
   constrained by EncModel.witness_ok, which the correspondence evaluates on the real encoder state.  Here the
   heuristic itself is modelled (Enc/GenModel.v: number of trees from nm, dummy completion of the last group,
   generate_initial_trees(), the EM iterations with len_pack / find_best_tree() / frequency counting /
   make_code_lengths(), tree reordering with tmap_old2new / tmap_new2old and assign_codes() per first-seen tree
   (Enc/PmModel.v, C20pm), the dummy second tree with the cl0 bit trick; tied to the C by checks/gen_part.py:
   real function vs extracted model on num_trees, selectors in both numberings, tmap_new2old, every transmitted
   table and the returned cost) and the table/selector conjuncts of witness_ok are THEOREMS about that model.

   Conjuncts of witness_ok discharged here: 2 <= number of tables <= 6; every transmitted table is table_ok
   (as entries, lengths 1..20, Kraft sum exactly 1); number of selectors = ceil(nm / 50); every selector (after
   tmap_old2new) < number of tables; ngroups + surplus selector <= 18002.  Discharged from the block itself:
   block non-empty, <= M, bytes < 256, crc < 2^32.
   What REMAINS witness: the BWT primary index (divbwt.c; valid_idxb), tree_pad <= 3 and the surplus selector
   chosen by encode() from the returned cost (c_pad, c_extra) - and that the model of make_code_lengths()
   returned no error value on the frequency vectors of the EM iterations (C02gen_tables_selectors holds for
   EVERY function in its place; that the real one cannot fail - Huffman depth <= 30 for sums <= 900050, queue
   discipline of build_tree - is NOT proved, it is exercised by the correspondence). *)
From Coq Require Import List NArith Arith Bool Lia.
From LBZ Require Rle.RleModel.
From LBZ Require Import Common.Bits Gen.Consts Dec.Prog Dec.Format Dec.Policies Dec.CrcProofs
  Enc.EncModel Enc.PmModel Enc.GenModel Enc.GenEm Enc.GenReorder Enc.GenProofs Enc.GenMcl Enc.GenCompose.
Import ListNotations.
Local Open Scope N_scope.

(* THE THEOREM about the model of the real heuristic.  For every symbol vector generate_prefix_code() can be
   called on (2 <= nm <= MAX_BLOCK_SIZE + GROUP_SIZE symbols, all < as = last + 1, 2 <= as <= 258), every
   cluster_factor >= 1 (encoder_init asserts 0 < cluster_factor) and every function [mcl] in the place of
   make_code_lengths() that keeps the row length and returns only its own error values: the model returns
   either such an error value of [mcl], or - never any other error value, i.e. no out-of-bounds access to
   code[0], length[][], frequency[][], len_pack[], selector[], tmap_old2new[], tmap_new2old[], no read of a
   tmap_old2new entry that was not written, no failing assert() of generate_prefix_code /
   generate_initial_trees / assign_codes (cum == nm, nm > 0, as >= nt, a < b, cum > 0, cum <= nm, as >= nt-1,
   as == 0, nm == 0, t < nt, sp - selector == num_selectors, nt >= 1, leaf < as, next_code, leaf == as) - a
   result with the properties gen_result_ok. *)
Theorem C02gen_tables_selectors :
  forall mcl cf mtfv,
    mcl_wf is_mcl_err mcl -> 1 <= cf -> gen_input_ok mtfv ->
    match gen_prefix_code_with mcl cf mtfv with
    | GOk r => gen_result_ok mtfv r
    | GErr e => exists m, e = GMcl m
    end.
Proof. exact gen_witness_ok. Qed.

(* with a make_code_lengths that never fails the model returns no error value at all *)
Theorem C02gen_tables_selectors_total :
  forall mcl cf mtfv,
    (forall old f, exists l, mcl old f = GOk l /\ length l = length old) ->
    1 <= cf -> gen_input_ok mtfv ->
    exists r, gen_prefix_code_with mcl cf mtfv = GOk r /\ gen_result_ok mtfv r.
Proof. exact gen_witness_ok_total. Qed.

(* the exact model of make_code_lengths() is an admissible [mcl] *)
Theorem C02gen_make_code_lengths_admissible : mcl_wf is_mcl_err make_code_lengths.
Proof. exact make_code_lengths_wf. Qed.

(* the dummy second tree: the bit trick computes floor(log2(as)), the loop bound (2 << cl0) - as stays inside
   the row, and (2 << cl0) - as codes of cl0 bits followed by codes of cl0 + 1 bits form a complete code *)
Theorem C02gen_dummy_tree :
  forall a, (2 <= a <= 258)%nat ->
    cl0_of (N.of_nat a) = N.log2 (N.of_nat a) /\ dummy_count (N.of_nat a) <= N.of_nat a /\
    table_ok a (dummy_row a) = true.
Proof. exact dummy_fact. Qed.

(* the witness built from the model's result is acceptable *)
Theorem C02gen_witness_ok :
  forall E mcl cf M blk idx extra pad crc w,
    mcl_wf E mcl -> 1 <= cf -> M <= MAX_BLOCK_SIZE ->
    blk <> [] -> N.of_nat (length blk) <= M -> Forall (fun c => c < 256) blk ->
    valid_idxb blk idx = true -> pad <= 3 -> crc < 2 ^ 32 ->
    gen_witness mcl cf blk idx extra pad crc = GOk w ->
    witness_ok M w = true /\ w_blk w = blk /\ w_crc w = crc.
Proof. exact gen_witness_is_ok. Qed.

(* C01_roundtrip / C02_stream_strict with computed tables and selectors: the input is cut into non-empty
   blocks x_1..x_k, block i is written with the tables/selectors the model of generate_prefix_code() computes
   on the symbols of rle1 x_i, a valid BWT index and any padding choice; the stream decodes to x_1 ++ .. ++ x_k
   with lbzip2's decoder model, the strict reference format and the reference format. *)
Theorem C02gen_stream_strict :
  forall cf level (xs : list (list N)) (cs : list choice) (ws : list witness),
    1 <= cf -> 1 <= level <= 9 -> length cs = length xs ->
    Forall2 (fun xc w => computed_block make_code_lengths cf level (fst xc) (snd xc) w) (combine xs cs) ws ->
    lbz_decode (bytes_of_bits (pad_to_byte (write_stream level ws))) = Prog.Ok (concat xs) /\
    ref_noexc_decode (bytes_of_bits (pad_to_byte (write_stream level ws))) = Prog.Ok (concat xs) /\
    ref_decode (bytes_of_bits (pad_to_byte (write_stream level ws))) = Prog.Ok (concat xs).
Proof. exact gen_stream_roundtrip_real. Qed.

(* the same for every admissible function in the place of make_code_lengths *)
Theorem C02gen_stream_strict_any_mcl :
  forall mcl cf level (xs : list (list N)) (cs : list choice) (ws : list witness),
    mcl_wf is_mcl_err mcl -> 1 <= cf -> 1 <= level <= 9 -> length cs = length xs ->
    Forall2 (fun xc w => computed_block mcl cf level (fst xc) (snd xc) w) (combine xs cs) ws ->
    lbz_decode (bytes_of_bits (pad_to_byte (write_stream level ws))) = Prog.Ok (concat xs) /\
    ref_noexc_decode (bytes_of_bits (pad_to_byte (write_stream level ws))) = Prog.Ok (concat xs) /\
    ref_decode (bytes_of_bits (pad_to_byte (write_stream level ws))) = Prog.Ok (concat xs).
Proof. exact gen_stream_roundtrip. Qed.

(* ---- non-vacuity ------------------------------------------------------------------------------------------------------ *)
(* 208 symbols over an alphabet of 7: nt = 2 from the thresholds, two classes, both trees used *)
Definition ex_syms : list N := repeat 0 70 ++ repeat 1 30 ++ repeat 4 60 ++ repeat 5 45 ++ [2; 3; 6].

Example C02gen_example_two_trees :
  gen_input_ok ex_syms /\
  gen_prefix_code CLUSTER_FACTOR ex_syms =
    GOk {| g_num_trees := 2; g_sels_old := [0; 0; 1; 1; 1];
           g_o2n := [Some 0; Some 1; None; None; None; None]; g_n2o := [0; 1]; g_sels := [0; 0; 1; 1; 1];
           g_tables := [[1; 2; 4; 4; 4; 5; 5]; [5; 5; 4; 4; 1; 2; 4]]; g_cost := 338 |}.
Proof.
  split; [|vm_compute; reflexivity].
  unfold gen_input_ok. cbv zeta. split; [vm_compute; split; discriminate|]. split; [vm_compute; split; discriminate|].
  apply Forall_forall. intros s Hs.
  assert (C : forallb (fun s => s <? last ex_syms 0 + 1) ex_syms = true) by (vm_compute; reflexivity).
  rewrite forallb_forall in C. apply N.ltb_lt. apply C. exact Hs.
Qed.

(* "banana": one group, one tree used, the dummy second tree (as = 5: cl0 = 2, three codes of 2 bits, two of 3) *)
Definition ex_banana : list N := [98; 97; 110; 97; 110; 97].

Example C02gen_example_block :
  computed_block make_code_lengths CLUSTER_FACTOR 1 ex_banana {| c_idx := 3; c_extra := false; c_pad := 2 |}
    {| w_blk := ex_banana; w_idx := 3; w_tables := [[3; 3; 3; 1; 3]; [2; 2; 2; 3; 3]]; w_sels := [0];
       w_extra_sel := false; w_pad := 2; w_crc := N.lxor (crc_bytes mask32 ex_banana) mask32 |} /\
  blk_syms (RleModel.rle1 ex_banana) = [3; 0; 3; 3; 1; 4].
Proof.
  split; [|vm_compute; reflexivity].
  unfold computed_block. cbn [c_idx c_extra c_pad].
  split; [repeat constructor|]. split; [discriminate|]. split; [vm_compute; discriminate|].
  split; [vm_compute; reflexivity|]. split; [vm_compute; discriminate|]. vm_compute. reflexivity.
Qed.

Example C02gen_example_stream :
  lbz_decode (bytes_of_bits (pad_to_byte (write_stream 1
    [{| w_blk := ex_banana; w_idx := 3; w_tables := [[3; 3; 3; 1; 3]; [2; 2; 2; 3; 3]]; w_sels := [0];
        w_extra_sel := false; w_pad := 2; w_crc := N.lxor (crc_bytes mask32 ex_banana) mask32 |}])))
  = Prog.Ok ex_banana.
Proof.
  assert (F : Forall2 (fun xc w => computed_block make_code_lengths CLUSTER_FACTOR 1 (fst xc) (snd xc) w)
                (combine [ex_banana] [{| c_idx := 3; c_extra := false; c_pad := 2 |}])
                [{| w_blk := ex_banana; w_idx := 3; w_tables := [[3; 3; 3; 1; 3]; [2; 2; 2; 3; 3]]; w_sels := [0];
                    w_extra_sel := false; w_pad := 2; w_crc := N.lxor (crc_bytes mask32 ex_banana) mask32 |}]).
  { cbn [combine]. constructor; [cbn [fst snd]; exact (proj1 C02gen_example_block)|constructor]. }
  pose proof (C02gen_stream_strict CLUSTER_FACTOR 1 [ex_banana] [{| c_idx := 3; c_extra := false; c_pad := 2 |}]
                _ ltac:(vm_compute; discriminate) ltac:(lia) eq_refl F) as H.
  destruct H as [H _]. cbn [concat app] in H. rewrite app_nil_r in H. exact H.
Qed.
