(* C20 - Prefix tables are optimal for the symbols they code.
   The optimality theorem of the code in src/encode.c (sort_alphabet / package_merge /
   assign_codes) is proved in Properties_C20pm.v (C20pm_optimal, C20pm_safe_and_complete)
   about the executable model Enc/PmModel.v, which is tied to encode.c by the
   correspondence of checks/pm_part.py.  THIS file holds the format-side facts: every table
   accepted by the strict-format predicate table_ok (which witness_ok demands of every table
   the encoder emits, and which C20pm_safe_and_complete proves of every assign_codes result)
   has lengths 1..20, is a COMPLETE prefix code, and its canonical code decodes uniquely.
   What stays evaluated per generated block rather than proved: that the frequency vector
   handed to assign_codes() is the count vector of the groups that select the table. *)
From Coq Require Import List NArith Arith Bool Lia.
From LBZ Require Import Common.Bits Dec.Prog Dec.Format Enc.EncModel Enc.EncFacts Enc.HuffProofs.
Import ListNotations.
Local Open Scope N_scope.

Definition cost (freqs lens : list N) : N := fold_left N.add (map (fun p => fst p * snd p) (combine freqs lens)) 0.

(* every table accepted by table_ok has all lengths in 1..20 and is a COMPLETE prefix code *)
Theorem C20_table_ok_means_complete_1_20 :
  forall alpha lens, table_ok alpha lens = true ->
    length lens = alpha /\ Forall (fun l => 1 <= l <= 20) lens /\ kraft lens = kraft_full.
Proof. exact table_ok_spec. Qed.

(* the canonical code of such a table is uniquely decodable, symbol by symbol *)
Theorem C20_codes_decodable :
  forall alpha lens s rest, table_ok alpha lens = true -> (N.to_nat s < alpha)%nat ->
    run (decode_sym lens) (sym_bits lens s ++ rest) = Ok (s, rest).
Proof. exact sym_roundtrip. Qed.

Example C20_table_ok_example : table_ok 7 [2; 3; 3; 3; 3; 3; 3] = true /\ table_ok 7 [2; 2; 2; 3; 3; 3; 3] = false.
Proof. vm_compute. split; reflexivity. Qed.
