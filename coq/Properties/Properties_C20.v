(* C20 - Prefix tables are optimal for the symbols they code.
   FULL STATEMENT (NOT PROVED; kept visible):
     for every block lbzip2 writes and every table t used by at least one group,
       forall lens', length lens' = length lens_t -> Forall (fun l => 1 <= l <= max lens_t) lens' ->
         kraft lens' = kraft_full -> cost freq_t lens_t <= cost freq_t lens'
   This is the correctness theorem of (boundary) Package-Merge for the code in
   src/encode.c (package_merge/assign_codes); it is not mechanised here.  What is
   delivered: (1) the properties that the strict format demands of every table
   the encoder emits are part of witness_ok, which the correspondence evaluates on
   the REAL encoder state of every generated block (code lengths 1..20, Kraft sum
   exactly full, also for tables no group uses); (2) decoding with such tables
   inverts coding with them (C20_partial_codes_decodable); (3) optimality is
   TESTED per used table against an independent length-limited optimum
   (checks/enclib.optimal_limited_cost) - testing, labelled so in the evidence. *)
From Coq Require Import List NArith Arith Bool Lia.
From LBZ Require Import Common.Bits Dec.Prog Dec.Format Enc.EncModel Enc.EncFacts Enc.HuffProofs.
Import ListNotations.
Local Open Scope N_scope.

Definition cost (freqs lens : list N) : N := fold_left N.add (map (fun p => fst p * snd p) (combine freqs lens)) 0.

(* every table accepted by table_ok has all lengths in 1..20 and is a COMPLETE prefix code *)
Theorem C20_partial_lengths_and_completeness :
  forall alpha lens, table_ok alpha lens = true ->
    length lens = alpha /\ Forall (fun l => 1 <= l <= 20) lens /\ kraft lens = kraft_full.
Proof. exact table_ok_spec. Qed.

(* the canonical code of such a table is uniquely decodable, symbol by symbol *)
Theorem C20_partial_codes_decodable :
  forall alpha lens s rest, table_ok alpha lens = true -> (N.to_nat s < alpha)%nat ->
    run (decode_sym lens) (sym_bits lens s ++ rest) = Ok (s, rest).
Proof. exact sym_roundtrip. Qed.

Example C20_table_ok_example : table_ok 7 [2; 3; 3; 3; 3; 3; 3] = true /\ table_ok 7 [2; 2; 2; 3; 3; 3; 3] = false.
Proof. vm_compute. split; reflexivity. Qed.
