(* C03 - Compressed bytes depend only on the input and the options.
   Three facts (DESIGN.md, C03):
   1. (regenerated, checked by the translator / trace replay) the scheduler passes
      the codec functions nothing but the chunk bytes: in the model the codec is
      the Section parameter [collect], a function of (encoder contents, data);
   2. chunking ignores read() fragmentation, writing ignores short writes;
   3. the scheduler is confluent on what it writes: every complete run, for every
      worker count and interleaving, writes the same block sequence.
   Only statements; proofs are [exact]. *)
From Coq Require Import List NArith Arith Bool Lia.
From LBZ Require Import SchedC.SchedCIface Gen.SchedCTab SchedC.Pool SchedC.PoolLemmas SchedC.SchedC SchedC.SchedCInv
  SchedC.Tiling SchedC.SchedCOrder SchedC.SchedCData SchedC.SchedCDataU SchedC.Copy SchedC.CopyProofs.
Import ListNotations.

(* 2a. the chunk list the reader thread produces is [cut M input] for every
   fragmentation of read() (any byte type, any granule M > 0) *)
Theorem C03_xread_fills : forall (A : Type) (fuel M : nat) (frag : list nat) (x : list A), 0 < M ->
  reader_chunks fuel M frag x = cut fuel M x.
Proof. exact reader_chunks_cut. Qed.

(* 2b. one xread() call stores exactly the next min(vacant, remaining) bytes *)
Theorem C03_xread_one : forall (A : Type) (vacant : nat) (frag : list nat) (rest acc : list A),
  exists frag', xread vacant frag rest acc =
    (acc ++ firstn vacant rest, vacant - length (firstn vacant rest), frag', skipn vacant rest).
Proof. exact xread_fills. Qed.

(* 2c. xwrite() with arbitrary short writes appends exactly the buffer *)
Theorem C03_short_writes : forall (A : Type) (frag : list nat) (buf file : list A),
  xwrite frag buf file = file ++ buf.
Proof. exact xwrite_all. Qed.

(* 3. confluence of the scheduler on its output, BOTH modes (default and
   --sequential): two complete runs on the same chunk list and level - any worker
   counts n1, n2 >= 1, any interleavings - have passed the same blocks (positions
   and contents) to xwrite() in the same order.  The trailer is a fold over that
   list, the header depends on the level.  (--sequential: SchedC/SchedCDataU.v, where
   a complete run is shown to write exactly the output of the pure sequential
   collector machine, blocks spanning chunks included.) *)
Theorem C03_confluent :
  forall (Data Enc : Type) (data_len : Data -> N) (enc_empty : Enc) (collect : Enc -> Data -> Enc * Data * bool)
         (chunks : list Data) (level : N) (ultra : bool) (n1 n2 : nat) s1 s2,
    1 <= n1 -> 1 <= n2 ->
    reachable data_len enc_empty collect n1 ultra level chunks s1 ->
    reachable data_len enc_empty collect n2 ultra level chunks s2 ->
    final s1 = true -> final s2 = true ->
    written s1 = written s2.
Proof. exact c03_confluent. Qed.

(* every block anywhere in the system is the block the specification assigns to its
   position: contents and extent are a function of (chunk list, position) *)
Theorem C03_blocks_are_specified :
  forall (Data Enc : Type) (data_len : Data -> N) (enc_empty : Enc) (collect : Enc -> Data -> Enc * Data * bool)
         (chunks : list Data) (level : N) (n : nat) s wb,
    reachable data_len enc_empty collect n false level chunks s ->
    In wb (written s) -> @SpecW Data Enc data_len enc_empty collect chunks wb.
Proof. exact written_specified. Qed.

(* non-vacuity: the same two chunks (the first is cut into two blocks) compressed
   with 1 worker and with 3 workers under different round-robin interleavings:
   both runs are complete and write the same three blocks *)
Definition ex_data := (N * list N)%type.
Definition ex_len (d : ex_data) : N := fst d.
Definition ex_collect (e : N) (d : ex_data) : N * ex_data * bool :=
  match snd d with [] => ((e + fst d)%N, (0%N, []), true) | l :: r => ((e + (fst d - l))%N, (l, r), true) end.
Definition ex_input : list ex_data := [(100000%N, [20000%N; 0%N]); (5000%N, [0%N])].

Example C03_example_two_runs :
  let s1 := rr ex_len 0%N ex_collect 60 [TM; TS; TR; TW 0] (init N 1 false 1%N ex_input) in
  let s2 := rr ex_len 0%N ex_collect 60 [TW 2; TW 1; TW 0; TR; TS; TM] (init N 3 false 1%N ex_input) in
  final s1 = true /\ final s2 = true /\ written s1 = written s2 /\
  map (@wb_enc N) (written s1) = [80000; 20000; 5000]%N.
Proof. vm_compute. repeat split; reflexivity. Qed.
