(* C10 - Speculative block discovery never influences the output.
   Only statements; every proof is [exact <lemma>].
   The guards, thresholds, task order and the booleans describing the re-enqueue
   sites of expand.c are regenerated (Gen/SchedXTab.v) on every run.  The
   statements are about [gen_cfg], i.e. about the source as it is now: the lemmas
   they are obtained from need `requeue_retr_checks_head = true` (and the two
   sibling tests), discharged by [reflexivity] on the regenerated values, so this
   file compiles only when the source has the tests (finding F4 repaired).  While
   it had not, notes/XF4Refuted_before_fix.v compiled instead and exhibited the violation. *)
From Coq Require Import List NArith Bool.
From LBZ Require Import Gen.Consts SchedX.XState Gen.SchedXTab SchedX.XSet SchedX.XModel SchedX.XInvDefs
  SchedX.XF4 SchedX.XOracle SchedX.XSeq SchedX.XC10 SchedX.XOwn SchedX.XC11b.
Import ListNotations.
Local Open Scope N_scope.

(* (I4) No bit stream is ever attached outside the live input: the asserts of
   can_attach()/attach() hold in every reachable state, for every worker count,
   slot configuration, input fragmentation, scanner behaviour and interleaving;
   queued retrieve and scan jobs never lie below head_offs. *)
Theorem C10_no_stale_attach :
  forall n tin tout ultra st, reach gen_cfg (init_state n tin tout ultra) st ->
    x_bad_attach st = false /\ retr_inv st = true /\
    Forall (fun s => x_head_offs st <= d_off s) (x_scan_q st).
Proof. exact C10_no_stale_attach_gen. Qed.

(* (I5) mutual exclusion of the sequential part: the parse token, a running parser
   and a legitimate (parser-created or adopted) retriever exclude one another. *)
Theorem C10_one_master :
  forall n tin tout ultra st, reach gen_cfg (init_state n tin tout ultra) st ->
    (b2n (x_parse_token st) + nparse st + length (filter (jm (x_unords st)) (all_jobs st)) <= 1)%nat.
Proof. exact C10_one_master_gen. Qed.

(* The property.  [O] holds the unlocked computations as functions of the stream and
   a bit position (parser, retrieve/decode for EVERY position, emit); the scanner has
   no oracle: scan events are unconstrained, so the statement holds for every scanner.
   [SeqDec O 0 0 L R]: the sequential decoding (parser, block at the parser's position,
   parser from the end of that block, ...) hands the buffers L to the writer and succeeds
   iff R.  For every worker count, slot configuration, input fragmentation and
   interleaving, every run whose labels are consistent with O satisfies:
   the buffers handed to the writer are a prefix of L; if the run fails, the sequential
   decoding fails; if it terminates normally it has written exactly L and R = true
   (hence: it fails exactly when the sequential decoding fails). *)
Theorem C10_speculation_free :
  forall (O : oracle) n tin tout ultra st L R,
    oreach O gen_cfg (init_state n tin tout ultra) st -> SeqDec O 0 0 L R ->
    (exists l', L = x_written st ++ l') /\
    (x_failed st <> None -> R = false) /\
    (completed st -> x_written st = L /\ R = true).
Proof. exact C10_speculation_free_gen. Qed.

(* The same with the hypothesis a caller can observe.  [terminated st]: nothing failed and
   can_terminate() holds (the workers may exit); that the order is then empty (every confirmed
   block has been written) is a theorem: the ownership invariant of order_q (SchedX/XOwn.v).
   [opreach]: as [oreach], and every POk label lies at least HDR_MIN = 32 bits after the base of the
   block confirmed before it (SchedX/XOwn.v ev_prog).  That holds of parse() (parse.c): a block header
   is 80 bits and OK is returned only when all of it has been consumed - possibly over several calls
   that return MORE when the header straddles input blocks, which is why the hypothesis refers to the
   previous base and not to the parser's position at the start of the last call; every trace replay
   checks it.  The model's parse1 admits POk labels without progress, and with them the statement is
   false of the model (Properties_C11x.C11x_order_empty_without_progress_refuted). *)
Theorem C10_speculation_free_terminated :
  forall (O : oracle) n tin tout ultra st L R,
    opreach O gen_cfg (init_state n tin tout ultra) st -> SeqDec O 0 0 L R ->
    (exists l', L = x_written st ++ l') /\
    (x_failed st <> None -> R = false) /\
    (terminated st -> x_written st = L /\ R = true).
Proof. exact C10_speculation_free_term_gen. Qed.

(* non-vacuity: the scenario of finding F4 runs in the model up to the critical
   event; with the test in place the stale job is dropped instead of re-queued *)
Example C10_example_f4_scenario_repaired :
  exists st, run gen_cfg f4_init f4_events = Some st /\ retr_inv st = true /\ x_work_units st = 1.
Proof. eexists. split; [vm_compute; reflexivity|split; vm_compute; reflexivity]. Qed.

(* non-vacuity of C10_speculation_free: a stream on which the parser reports end of input
   at once; the sequential decoding writes nothing and succeeds, and so does the run *)
Definition O_empty : oracle :=
  mkoracle (fun _ _ => HFinish false) (fun _ => dbs0) (fun _ => 0) (fun _ => 0) (fun _ => 0) (fun _ _ => 0) (fun _ _ => 0).

Example C10_example_empty_stream :
  SeqDec O_empty 0 0 [] true /\
  exists st, oreach O_empty gen_cfg (init_state 2 8 32 false) st /\ completed st /\ x_written st = [].
Proof.
  split; [exact (SD_finish O_empty 0 0 false eq_refl)|].
  eexists. split.
  - eapply (oreach_step O_empty gen_cfg _ _ (EvParse1 (Some 0) (PFinish (mkdbs 16 1) 0)) _).
    + eapply (oreach_step O_empty gen_cfg _ _ EvParse0 _).
      * eapply (oreach_step O_empty gen_cfg _ _ EvEof _).
        -- eapply (oreach_step O_empty gen_cfg _ _ (EvInput 2 0) _); [apply oreach_init|exact I|vm_compute; reflexivity].
        -- exact I.
        -- vm_compute; reflexivity.
      * exact I.
      * vm_compute; reflexivity.
    + vm_compute. reflexivity.
    + vm_compute; reflexivity.
  - vm_compute. repeat split; reflexivity.
Qed.

(* the same run satisfies the hypotheses of C10_speculation_free_terminated *)
Example C10_example_empty_stream_terminated :
  exists st, opreach O_empty gen_cfg (init_state 2 8 32 false) st /\ terminated st /\ x_written st = [].
Proof.
  eexists. split.
  - eapply (opreach_step O_empty gen_cfg _ _ (EvParse1 (Some 0) (PFinish (mkdbs 16 1) 0)) _).
    + eapply (opreach_step O_empty gen_cfg _ _ EvParse0 _).
      * eapply (opreach_step O_empty gen_cfg _ _ EvEof _).
        -- eapply (opreach_step O_empty gen_cfg _ _ (EvInput 2 0) _); [apply opreach_init|exact I|exact I|vm_compute; reflexivity].
        -- exact I.
        -- exact I.
        -- vm_compute; reflexivity.
      * exact I.
      * exact I.
      * vm_compute; reflexivity.
    + vm_compute. reflexivity.
    + exact I.
    + vm_compute; reflexivity.
  - vm_compute. repeat split; reflexivity.
Qed.
