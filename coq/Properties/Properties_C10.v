(* C10 - Speculative block discovery never influences the output.
   Only statements; every proof is [exact <lemma>].
   The guards, thresholds, task order and the booleans describing the re-enqueue
   sites of expand.c are regenerated (Gen/SchedXTab.v) on every run.  The
   statements are about [gen_cfg], i.e. about the source as it is now: the lemmas
   they are obtained from need `requeue_retr_checks_head = true` (and the two
   sibling tests), discharged by [reflexivity] on the regenerated values, so this
   file compiles only when the source has the tests (finding F4 repaired).  While
   it has not, SchedX/XF4Refuted.v compiles instead and exhibits the violation. *)
From Coq Require Import List NArith Bool.
From LBZ Require Import Gen.Consts SchedX.XState Gen.SchedXTab SchedX.XSet SchedX.XModel SchedX.XInvDefs
  SchedX.XF4 SchedX.XC10.
Import ListNotations.
Local Open Scope N_scope.

(* (I4) No bit stream is ever attached outside the live input: the asserts of
   can_attach()/attach() hold in every reachable state, for every worker count,
   slot configuration, input fragmentation, scanner behaviour and interleaving;
   queued retrieve and scan jobs never lie below head_offs. *)
Theorem C10_no_stale_attach :
  forall n tin tout ultra st, reach gen_cfg (init_state n tin tout ultra) st ->
    x_bad_attach st = false /\ retr_inv st = true /\
    Forall (fun s => x_head_offs st <= d_off s) (x_scan_q st).
Proof. exact C10_no_stale_attach_gen. Qed.

(* (I5) mutual exclusion of the sequential part: the parse token, a running parser
   and a legitimate (parser-created or adopted) retriever exclude one another. *)
Theorem C10_one_master :
  forall n tin tout ultra st, reach gen_cfg (init_state n tin tout ultra) st ->
    (b2n (x_parse_token st) + nparse st + length (filter (jm (x_unords st)) (all_jobs st)) <= 1)%nat.
Proof. exact C10_one_master_gen. Qed.

(* non-vacuity: the scenario of finding F4 runs in the model up to the critical
   event; with the test in place the stale job is dropped instead of re-queued *)
Example C10_example_f4_scenario_repaired :
  exists st, run gen_cfg f4_init f4_events = Some st /\ retr_inv st = true /\ x_work_units st = 1.
Proof. eexists. split; [vm_compute; reflexivity|split; vm_compute; reflexivity]. Qed.
