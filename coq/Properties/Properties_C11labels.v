(* C11/C10, decompression scheduler: the LABEL HYPOTHESES of the runs, derived from the models of
   the unlocked functions.  Only statements; every proof is [exact <lemma>].

   The liveness and ownership theorems of Properties_C11x.v / Properties_C10.v are about runs
   whose event labels satisfy
     (H1) SchedX/XOwn.v [ev_prog]           EvParse1 _ (POk bs ..) : x_next st + 32 <= d_bit bs
          (a confirmed block header ends >= 32 bits after the one confirmed before it)
     (H2) SchedX/XLiveDefs.v [ev_scan_prog] EvScan1 s _ true s' _  : d_bit s < d_bit s'
          (a scan() that finds a magic ends strictly after the position it started from)
     (H3) SchedX/XLiveTerm.v [ev_term]      EvParse1 _ (PMore bs _): d_bit (x_parser_bs st) < d_bit bs
          (a parse() call that returns MORE consumed >= 1 bit)
     (H4) SchedX/XLiveTerm.v [ev_term]      EvEmit1 e MORE ..      : snd (e_base e) < K
          (emit() returns MORE fewer than K times for one block)
   which so far were only ASSERTED on every replayed trace of the real binary.  Here they are
   theorems about the function models (positions: a model's position = number of bits of the
   whole input - number of unread bits, so "advances by n" = "n fewer unread bits"):

     L1 -> H1  C11L_parse_confirmed_positions_advance (the form of [ev_prog]), C11L_parse_run_advances,
               C11L_parse_ok_80, C11L_parse_chain_80, C11L_parse_next_header_80,
               C11L_parse_first_header_80, C11L_parse_headers_positions     (80 >= HDR_MIN = 32)
     L1 -> H3  C11L_parse_more, C11L_parse_more_progress, C11L_parse_more_progress_piece,
               C11L_parse_eof_never_more, C11L_parse_eof_short
               PRECISELY: a call returning MORE consumed >= 1 bit IFF it was offered >= 16 bits.
               With < 16 bits offered and eof = false it returns MORE having consumed nothing; with
               eof = true it never returns MORE.  So H3 holds for the calls made on a buffer
               of >= 16 bits (left-over ++ a new input piece of >= 2 bytes), which is every call
               the muxer makes except possibly after the LAST piece, where eof is set.
     L2 -> H2  C11L_scan_ok_position, C11L_scan_ok_advances (>= 80 bits after the effective start,
               hence after the position of the call), C11L_scan_more_consumes_all
     L3 -> H4  C11L_block_output_bounded, C11L_emit_more_calls_filled, C11L_emit_more_calls_bounded,
               C11L_emit_more_count_bounded: K = 255 * MAX_BLOCK_SIZE + 1 = 229500001 for ALL
               buffer sizes 1 <= b < 2^32 - 1; (255 * MAX_BLOCK_SIZE) / b for buffers >= b.
               (The side condition b < 2^32 - 1 is needed: Safe/EmitProofs.v ex_bufsize_2p32.)

   WHAT REMAINS ASSUMED: the identification of the label of a scheduler event with the
   corresponding call of the function model -
     EvParse1 _ (POk bs ..) / (PMore bs ..)  <->  parse_call m eof = PC_ret RC_OK / RC_MORE m'
         with d_bit = total - length (m_buf _) and x_next = the position of the previous OK;
     EvScan1 s _ true s' _                   <->  scan bs skip = ScanOK rest
         with d_bit s / d_bit s' = total - length (flat bs) / (flat rest);
     EvEmit1 e rv ..                         <->  the (snd (e_base e))-th call of
         [decode_emit col idx rand sizes] (sub-block index = number of earlier MORE results)
   and that the hypotheses of the models hold for the real calls ([block_ok]: the retriever
   produced a block of 1..900000 bytes with a valid BWT index, Properties_C08/C09;
   [Forall word_ok]: input words are 4 bytes).  The SchedX theorems are NOT re-plumbed over
   these lemmas; they still take H1-H4 as hypotheses on the labels. *)
From Coq Require Import List NArith ZArith Arith Bool Lia.
From LBZ Require Import Common.Bits Gen.Consts Dec.Prog Dec.Format Dec.ParseVocab Gen.ParseTab Dec.ParseModel
  Dec.ParseProofs Safe.EmitModel Safe.EmitProofs SchedX.XLabels SchedX.XLabelsScan SchedX.XLabelsEmit.
From LBZ Require Gen.ScanTab Scan.ScanModel Scan.ScanTables Scan.ScanProofs.
Import ListNotations.

(* ================================================================================== *)
(* L1: parse()  (the regenerated state machine, Gen/ParseTab.v + Dec/ParseModel.v)      *)
(* ================================================================================== *)
(* [ok_dist s] = the number of 16-bit words the machine must consume from state s before it can
   return OK; 5 (= 48-bit magic + 32-bit CRC) in the state parser_init() and every OK leave *)
Theorem C11L_ok_dist_values :
  ok_dist PS_BLOCK_MAGIC_1 = 5%nat /\ ok_dist PS_BLOCK_MAGIC_2 = 4%nat /\ ok_dist PS_BLOCK_MAGIC_3 = 3%nat /\
  ok_dist PS_BLOCK_CRC_1 = 2%nat /\ ok_dist PS_BLOCK_CRC_2 = 1%nat /\
  (forall s, s <> PS_ACCEPT -> (1 <= ok_dist s)%nat).
Proof. exact ok_dist_values. Qed.

(* one call returning OK *)
Theorem C11L_parse_ok_80 :
  forall m eof m', parse_call m eof = PC_ret RC_OK m' ->
    (16 * ok_dist (m_state m) + length (m_buf m') <= length (m_buf m))%nat /\ m_state m' = PS_BLOCK_MAGIC_1.
Proof. exact parse_call_ok. Qed.

(* whatever a call returns, what it leaves is a suffix of what it was offered *)
Theorem C11L_parse_suffix :
  forall m eof c m', parse_call m eof = PC_ret c m' -> exists consumed, m_buf m = consumed ++ m_buf m'.
Proof. exact parse_call_suffix. Qed.

(* MORE* OK, the buffer being replaced arbitrarily between the calls: n = bits consumed in total *)
Theorem C11L_parse_chain_80 :
  forall m n m', ok_chain m n m' -> (16 * ok_dist (m_state m) <= n)%nat /\ m_state m' = PS_BLOCK_MAGIC_1.
Proof. exact ok_chain_consumes. Qed.

Theorem C11L_parse_first_header_80 :
  forall m0 level mode buf n m', ok_chain (set_buf (parser_init m0 level mode) buf) n m' -> (80 <= n)%nat.
Proof. exact first_header_80. Qed.

(* H1: after an OK, wherever the retriever leaves the bit buffer ([rest] arbitrary), the next OK
   comes after >= 80 further bits consumed by parse() *)
Theorem C11L_parse_next_header_80 :
  forall m eof m1 rest n m2,
    parse_call m eof = PC_ret RC_OK m1 -> ok_chain (set_buf m1 rest) n m2 -> (80 <= n)%nat.
Proof. exact next_header_80. Qed.

Theorem C11L_parse_chain_next_header_80 :
  forall m n m1 rest n' m2, ok_chain m n m1 -> ok_chain (set_buf m1 rest) n' m2 -> (80 <= n')%nat.
Proof. exact chain_header_80. Qed.

(* the same with absolute positions (position = number of input bits consumed so far; the parser
   is resumed after MORE with left-over ++ next piece): [ok_run p m p' m'] = called at p, OK at p' *)
Theorem C11L_parse_run_advances :
  forall p m p' m', ok_run p m p' m' ->
    (p + 16 * ok_dist (m_state m) <= p')%nat /\ m_state m' = PS_BLOCK_MAGIC_1.
Proof. exact ok_run_advances. Qed.

Theorem C11L_parse_first_position :
  forall p m0 level mode buf p' m',
    ok_run p (set_buf (parser_init m0 level mode) buf) p' m' -> (p + 80 <= p')%nat.
Proof. exact first_position_advance. Qed.

(* H1 in the form of [ev_prog]: header confirmed at p1; the retriever consumes [body]; the next
   header is confirmed at p2 >= p1 + |body| + 80 >= p1 + HDR_MIN *)
Theorem C11L_parse_confirmed_positions_advance :
  forall p0 m0 p1 m1 body rest p2 m2,
    ok_run p0 m0 p1 m1 ->
    m_buf m1 = body ++ rest ->
    ok_run (p1 + length body) (set_buf m1 rest) p2 m2 ->
    (p1 + length body + 80 <= p2)%nat /\ (p1 + 32 <= p2)%nat.
Proof. exact confirmed_positions_advance. Qed.

Theorem C11L_parse_run_example :
  let hdr := bits_msb 48 block_magic ++ bits_msb 32 0x9E625BFE%N in
  exists p' m', ok_run 32 (set_buf (parser_init pmem0 9%Z expand_stream_mode) (firstn 40 hdr)) p' m' /\
                p' = 112%nat /\ m_hd_crc m' = 0x9E625BFE%N /\ m_buf m' = [].
Proof. exact ok_run_example. Qed.

(* the driver of Dec/ParseModel.v: the header positions (bits left when the header was complete)
   reported for an accepted input go down by >= 80 from block to block *)
Theorem C11L_parse_headers_positions :
  forall body_end m0 bits hs g,
    (forall b r, body_end b = Some r -> (length r <= length b)%nat) ->
    parse_headers body_end m0 bits = D_ok hs g ->
    desc80 (length bits - 32) (map (fun h => fst (fst h)) hs).
Proof. exact parse_headers_positions. Qed.

(* H3 *)
Theorem C11L_parse_more :
  forall m eof m', parse_call m eof = PC_ret RC_MORE m' ->
    eof = false /\ (length (m_buf m') < 16)%nat /\ parse_entry_ok m' = true /\
    (16 * ok_dist (m_state m) + length (m_buf m') <= length (m_buf m) + 16 * ok_dist (m_state m'))%nat.
Proof. exact parse_call_more. Qed.

Theorem C11L_parse_more_progress :
  forall m eof m', parse_call m eof = PC_ret RC_MORE m' ->
    ((length (m_buf m') < length (m_buf m))%nat <-> (16 <= length (m_buf m))%nat).
Proof. exact parse_more_progress. Qed.

Theorem C11L_parse_more_progress_piece :
  forall m1 s m', parse_call (madd m1 s) false = PC_ret RC_MORE m' ->
    (16 <= length (m_buf m1) + length s)%nat -> (length (m_buf m') < length (m_buf m1) + length s)%nat.
Proof. exact parse_more_progress_piece. Qed.

Theorem C11L_parse_eof_never_more :
  forall m m', parse_call m true <> PC_ret RC_MORE m'.
Proof. exact parse_eof_never_more. Qed.

(* end of input with fewer than 16 bits left: nothing consumed, FINISH between streams, else ERR_EOF *)
Theorem C11L_parse_eof_short :
  forall m c m', parse_call m true = PC_ret c m' -> (length (m_buf m) < 16)%nat ->
    m_buf m' = m_buf m /\
    ((c = RC_FINISH /\ (m_state m = PS_STREAM_MAGIC_1 \/ m_state m = PS_STREAM_MAGIC_2)) \/
     (c = RC_ERR_EOF /\ m_state m <> PS_STREAM_MAGIC_1 /\ m_state m <> PS_STREAM_MAGIC_2)).
Proof. exact parse_eof_short. Qed.

(* non-vacuity: a real block header offered in two pieces (40 bits: MORE after 32; then OK) *)
Theorem C11L_parse_chain_example :
  let hdr := bits_msb 48 block_magic ++ bits_msb 32 0x9E625BFE%N in
  exists n m', ok_chain (set_buf (parser_init pmem0 9%Z expand_stream_mode) (firstn 40 hdr)) n m' /\
               n = 80%nat /\ m_hd_crc m' = 0x9E625BFE%N.
Proof. exact ok_chain_example. Qed.

(* ================================================================================== *)
(* L2: scan()  (Scan/ScanModel.v, specification C14_scan)                              *)
(* ================================================================================== *)
Section ScanLabels.
  Import Gen.ScanTab Scan.ScanModel Scan.ScanTables Scan.ScanProofs.

  Theorem C11L_scan_ok_position :
    forall bs skip rest, Forall word_ok (data bs) -> scan bs skip = ScanOK rest ->
      exists e, first_occ_end (skipn (eff_start bs skip) (flat bs)) e /\
                48 <= e /\
                eff_start bs skip + e + 32 <= length (flat bs) /\
                flat rest = skipn (eff_start bs skip + e + 32) (flat bs).
  Proof. exact scan_ok_position. Qed.

  (* H2 *)
  Theorem C11L_scan_ok_advances :
    forall bs skip rest, Forall word_ok (data bs) -> scan bs skip = ScanOK rest ->
      length (flat rest) + 80 <= length (flat (apply_skip bs skip)) /\
      length (flat rest) + eff_start bs skip + 80 <= length (flat bs).
  Proof. exact scan_ok_advances. Qed.

  Theorem C11L_scan_ok_strict :
    forall bs skip rest, Forall word_ok (data bs) -> scan bs skip = ScanOK rest ->
      length (flat rest) < length (flat bs).
  Proof. exact scan_ok_strict. Qed.

  Theorem C11L_scan_more_consumes_all :
    forall bs skip rest, Forall word_ok (data bs) -> scan bs skip = ScanMORE rest -> flat rest = [].
  Proof. exact scan_more_consumes_all. Qed.

  Theorem C11L_scan_example :
    let bs := {| live := [true; false; true; true; false] ++ P;
                 data := [(1, 2, 3, 4); (5, 6, 7, 8)]%N |} in
    exists rest, scan bs 0 = ScanOK rest /\ length (flat bs) - length (flat rest) = 85.
  Proof. exact scan_ok_example. Qed.
End ScanLabels.

(* ================================================================================== *)
(* L3: emit()  (Safe/EmitModel.v)                                                      *)
(* ================================================================================== *)
Local Open Scope N_scope.

(* MAX_BLOCK_OUTPUT := 255 * MAX_BLOCK_SIZE (MAX_BLOCK_SIZE regenerated from the source, Gen/Consts.v) *)
Theorem C11L_max_block_output : MAX_BLOCK_OUTPUT = 229500000.
Proof. exact max_block_output_value. Qed.

(* the bytes of one block: at most 255 per byte handed over by decode() *)
Theorem C11L_block_output_bounded :
  forall col idx rand, block_ok col idx ->
    exists out, unrle false 256 0 (block_of col idx rand) = Ok out /\
                N.of_nat (length out) <= 255 * N.of_nat (length col) <= MAX_BLOCK_OUTPUT.
Proof. exact block_output_bounded. Qed.

(* [more_calls r] = the number of emit() calls of the run r that returned MORE; it is the
   number counted call by call ([decode_more_count]) *)
Theorem C11L_more_calls_is_count :
  forall col idx rand sizes, block_ok col idx -> sizes_ok sizes ->
    decode_more_count col idx rand sizes = more_calls (decode_emit col idx rand sizes).
Proof. exact decode_more_count_calls. Qed.

(* the buffers of the calls that returned MORE were filled, with bytes of the block's output *)
Theorem C11L_emit_more_calls_filled :
  forall col idx rand sizes out, block_ok col idx -> sizes_ok sizes ->
    unrle false 256 0 (block_of col idx rand) = Ok out ->
    (more_calls (decode_emit col idx rand sizes) <= length sizes)%nat /\
    total (firstn (more_calls (decode_emit col idx rand sizes)) sizes) <= N.of_nat (length out).
Proof. exact emit_more_calls_filled. Qed.

(* H4, any buffer sizes (1 <= b < 2^32 - 1) *)
Theorem C11L_emit_more_calls_bounded :
  forall col idx rand sizes, block_ok col idx -> sizes_ok sizes ->
    N.of_nat (more_calls (decode_emit col idx rand sizes)) <= 255 * N.of_nat (length col) <= MAX_BLOCK_OUTPUT.
Proof. exact emit_more_calls_bounded. Qed.

(* H4, buffers of at least b bytes *)
Theorem C11L_emit_more_count_bounded :
  forall col idx rand sizes b, block_ok col idx -> sizes_ok sizes ->
    1 <= b -> Forall (fun x => b <= x) sizes ->
    N.of_nat (decode_more_count col idx rand sizes) <= MAX_BLOCK_OUTPUT / b <= MAX_BLOCK_OUTPUT.
Proof. exact emit_more_count_bounded. Qed.

Theorem C11L_emit_example :
  decode_more_count ex_col 5 false [1; 1; 1; 1; 1; 1; 1; 1; 1; 1; 1; 1; 1; 1; 1] = 13%nat /\
  decode_more_count ex_col 5 false [4; 4; 4; 4; 4] = 3%nat.
Proof. exact emit_more_count_example. Qed.

Print Assumptions C11L_parse_confirmed_positions_advance.
Print Assumptions C11L_parse_chain_80.
Print Assumptions C11L_parse_more_progress.
Print Assumptions C11L_parse_headers_positions.
Print Assumptions C11L_scan_ok_advances.
Print Assumptions C11L_emit_more_calls_bounded.
Print Assumptions C11L_emit_more_count_bounded.
