(* C19 - -cdf passes non-bzip2 data through unchanged.
   Model: SchedC/Copy.v (work()'s 4-byte sniff with arbitrary read() fragmentation,
   the header write, copy() with reader/writer threads, copy_terminate() at every
   sched_unlock(), halt()).  The 2/2 slots, the 65536-byte block, the raise
   condition, the magic test, the fallback condition and the length of the header
   write are regenerated from /repo/src/process.c (Gen/SchedCTab.v).
   Only statements; proofs are [exact]. *)
From Coq Require Import List NArith ZArith Arith Bool Lia.
From LBZ Require Import SchedC.SchedCIface Gen.SchedCTab SchedC.Pool SchedC.Copy SchedC.CopyProofs.
Import ListNotations.

(* every complete run (any interleaving of main, reader and writer; any
   fragmentation of read()) has written exactly the input, exits 0 and has raised
   SIGUSR2 exactly once *)
Theorem C19_copy : forall force stdout x frag s,
  CReach (cinit force stdout x frag) s -> k_main s = MDone ->
  k_written s = x /\ exit_of s = Exit0 /\ k_raised s = 1.
Proof. exact copy_correct. Qed.

(* with -f writing to standard output an input that does not start with a bzip2
   header never takes the decompression or the "not a valid bzip2 file" path *)
Theorem C19_copy_path : forall x frag s,
  is_magic_input x = false -> fallback_cond true true = true ->
  CReach (cinit true true x frag) s ->
  k_main s <> MDecompress /\ k_main s <> MFail /\ k_force s = true /\ k_stdout s = true.
Proof. exact copy_path. Qed.

Theorem C19_usr2_once : forall force stdout x frag s,
  CReach (cinit force stdout x frag) s -> k_raised s <= 1.
Proof. exact usr2_at_most_once. Qed.

(* no reachable state is stuck before the exit (the historical hang of copy()) *)
Theorem C19_progress : forall force stdout x frag s,
  CReach (cinit force stdout x frag) s -> cfinal s = false -> exists e s', cstep s e = Some s'.
Proof. exact copy_progress. Qed.

(* inputs of 0-3 bytes are never taken for a bzip2 stream *)
Theorem C19_short_inputs : forall x, length x < sniff_size -> is_magic_input x = false.
Proof. exact short_not_magic. Qed.

(* the magic test is: "BZh" followed by a digit 1..9 *)
Theorem C19_magic_is_BZh_1_9 : forall x, Forall (fun b => (b < 256)%N) x ->
  (is_magic_input x = true <->
   exists d rest, x = 66%N :: 90%N :: 104%N :: d :: rest /\ (49 <= d <= 57)%N).
Proof. exact magic_input_spec. Qed.

(* an input that does start with such a header goes to the decompressor exactly as
   without -c -f: same four bytes consumed, nothing written first *)
Theorem C19_magic : forall force stdout x frag, is_magic_input x = true ->
  exists s', cstep (cinit force stdout x frag) TM = Some s' /\ k_main s' = MDecompress /\
             k_rest s' = skipn sniff_size x /\ k_written s' = [].
Proof. exact magic_path. Qed.

(* the chunking of the reader does not depend on read() fragmentation, and short
   writes do not change what reaches the output *)
Theorem C19_xread_fills : forall (fuel gran : nat) (frag : list nat) (x : list N), 0 < gran ->
  reader_chunks fuel gran frag x = cut fuel gran x.
Proof. exact (reader_chunks_cut N). Qed.

(* non-vacuity: a 3-byte input ("BZh") read one byte at a time, and a 5-byte
   input whose last byte goes through the reader/writer pipeline *)
Example C19_example_3_bytes :
  exists s, crun (cinit true true [66; 90; 104]%N [1; 1; 1; 1])
                 [TM; TM; TR; TR; TR; TM; TM; TS; TM] = Some s /\ k_main s = MDone /\
            k_written s = [66; 90; 104]%N /\ exit_of s = Exit0.
Proof. eexists. split; [vm_compute; reflexivity|]. repeat split; reflexivity. Qed.

Example C19_example_5_bytes :
  exists s, crun (cinit true true [66; 90; 104; 48; 7]%N [1; 3; 1])
                 [TM; TM; TR; TR; TR; TR; TS; TS; TS; TR; TM; TM; TS; TM] = Some s /\ k_main s = MDone /\
            k_written s = [66; 90; 104; 48; 7]%N /\ exit_of s = Exit0 /\ k_raised s = 1.
Proof. eexists. split; [vm_compute; reflexivity|]. repeat split; reflexivity. Qed.
