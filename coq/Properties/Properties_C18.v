(* C18 - Multiple operands are processed independently (front-end part: the
   operand loop; the per-run re-initialisation of the schedulers belongs to the
   scheduler models).  Only statements; every proof is [exact <lemma>]. *)
From Coq Require Import List NArith Arith Bool String Ascii Lia.
From LBZ Require Import Gen.FrontTab Front.FsModel Front.MainLoop Front.FrontSpec Front.FrontLemmas
     Front.FrontNoFault Front.FrontProofs.
Import ListNotations.
Local Open Scope N_scope.

(* The loop is a fold of the per-operand step -- under every fault/signal plan. *)
Theorem C18_fold_step :
  forall codec cf pl op ops s,
    run_ops codec cf pl (op :: ops) s =
    match run_op codec cf pl op s with
    | Ret _ s' => run_ops codec cf pl ops s'
    | Stop o _ s' => (s', o)
    end.
Proof. reflexivity. Qed.

(* Independence: from ANY state at an operand boundary -- whatever the call counters,
   diagnostics, history and `warned` left behind by earlier operands -- processing an
   operand has exactly the effect [op_effect cfg op fs], a function of the configuration,
   the operand and the file system only; `warned` is or-ed. *)
Theorem C18_independent :
  forall codec cf op s, boundary s ->
    let e := op_effect codec cf op (m_fs s) in
    exists s' h,
      m_fs s' = e_fs e /\ m_hist s' = h :: m_hist s /\
      h_op h = op /\ h_before h = m_fs s /\ h_after h = e_fs e /\
      match e_end e with
      | ENext d => run_op codec cf [] op s = Ret tt s' /\ h_disp h = d /\
                   m_warned s' = (m_warned s || e_warn e) /\ boundary s'
      | EStop o w => run_op codec cf [] op s = Stop o w s' /\ h_disp h = DAborted w
      end.
Proof. exact run_op_nf. Qed.

(* One operand processed alone. *)
Theorem C18_alone :
  forall codec cf op f,
    run codec cf f [op] [] =
    (e_fs (op_effect codec cf op f),
     match e_end (op_effect codec cf op f) with
     | ENext _ => Exit (if e_warn (op_effect codec cf op f) then 4 else 0)
     | EStop o _ => o
     end).
Proof. exact run_single. Qed.

(* Several operands in one invocation = the first alone, then the others on the
   resulting file system; the exit status is 4 if either part warned; a fatal error in
   the first stops everything with its status. *)
Theorem C18_fold :
  forall codec cf op ops f,
    run codec cf f (op :: ops) [] =
    let '(f1, o1) := run codec cf f [op] [] in
    match o1 with
    | Exit 0 => run codec cf f1 ops []
    | Exit 4 => let '(f2, o2) := run codec cf f1 ops [] in
                (f2, match o2 with Exit 0 => Exit 4 | _ => o2 end)
    | _ => (f1, o1)
    end.
Proof. exact run_cons. Qed.

(* Exit status of the whole run. *)
Theorem C18_exit_status :
  forall codec cf ops f,
    Forall completes (trace codec cf ops f) ->
    snd (run codec cf f ops []) = Exit (if existsb e_warn (trace codec cf ops f) then 4 else 0).
Proof. exact exit_status_run. Qed.

(* A fatal error stops processing with status 1; the operands before it have been
   processed completely (the file system the failing operand starts from is the fold of
   their effects) and later operands are not started. *)
Theorem C18_fatal_stops :
  forall codec cf ops1 op ops2 f f1 o y,
    Forall completes (trace codec cf ops1 f) ->
    f1 = fold_left (fun g o => e_fs (op_effect codec cf o g)) ops1 f ->
    e_end (op_effect codec cf op f1) = EStop o y ->
    run codec cf f (ops1 ++ op :: ops2) [] = (e_fs (op_effect codec cf op f1), o) /\
    ((o = Hang /\ y = WHang) \/ (o = Exit 1 /\ exists tag, y = WFatal tag)).
Proof. exact fatal_stops. Qed.

(* The statement "exit status 4 if any operand was SKIPPED" is not exactly what the code
   does: a processed operand whose mode has setuid/setgid/sticky bits also warns. *)
Theorem C18_exit4_only_if_skipped_refuted :
  exists codec cf f op,
    e_end (op_effect codec cf op f) = ENext DDone /\ snd (run codec cf f [op] []) = Exit 4.
Proof. exact exit4_without_skip. Qed.

(* non-vacuity *)
Example C18_example :
  let codec := fun (_ : cmode) (d : bytes) => {| c_io := [IoRead; IoWrite (1 :: d)]; c_ok := true |} in
  let cf := {| c_decompress := false; c_force := false; c_keep := true; c_outmode := OmRegf; c_uid := 0; c_gid := 0; c_now := 9 |} in
  let nd := fun d => {| i_kind := KReg; i_mode := 420; i_uid := 0; i_gid := 0; i_atime := 1; i_mtime := 2; i_data := d; i_committed := true |} in
  let f := {| f_names := [("a"%string, DLink 1); ("b"%string, DLink 2)]; f_inodes := [(1, nd [7]); (2, nd [])]; f_stdout := [] |} in
  snd (run codec cf f ["a"; "missing"; "b"]%string []) = Exit 4 /\
  fst (run codec cf f ["a"; "missing"; "b"]%string []) =
  fst (run codec cf (fst (run codec cf (fst (run codec cf f ["a"%string] [])) ["missing"%string] [])) ["b"%string] []).
Proof. vm_compute. split; reflexivity. Qed.
