(* C05 / C06 / C08 / C09, the block reader retrieve() of src/decode.c at STATEMENT LEVEL.

   Safe/RetrModel.v is a resumable model of retrieve(): its control-flow graph with one function per state in
   which the C function can be suspended (S_BWT_IDX .. S_PREFIX, the `case (s):` labels inside the NEED macro), the
   bit buffer (v, w), the words of the current input chunk, RESTORE()/SAVE(), the fast path (NEED_FAST, locals) and the
   slow path (NEED, state in *rs) of the symbol loop as separate code, C integer widths, bounds-checked arrays,
   make_tree()/the table decode sequence (Safe/TreeModel.v) and mtf_one() (Safe/SlideModel.v) re-used.  It is tied
   to the current source by checks/retr_part.py (harness/retr_h.c includes decode.c; call-by-call comparison on
   chunked inputs).  The theorems:
   (a) SAFETY for any input bits and any chunking (extends C08 to the whole of retrieve());
   (b) CHUNK INDEPENDENCE: the result depends only on the concatenation of the chunks - this is what the
       process-level theorem of C09 assumes of retrieve() (fast path = slow path; suspension is transparent);
   (c) REFINEMENT of the executable format description Dec/Format.v (read_block under lbz_policy, then unmtf_block):
       the link between the bit-level theorems C05/C06/C07/C15 and the code.
   Limits stated in the theorems themselves: retrieve() answers ERR_EOF when a block would end with fewer than 32 bits
   of input behind it (NEED wants a whole word; in a bzip2 file at least the 80-bit trailer follows); an error code is
   only related to the format description as "no block there either" (retrieve() reports ERR_OVERFLOW as soon as a run
   does not fit, the format description reads the symbols first). *)
From Coq Require Import List NArith Arith Bool Lia.
From LBZ Require Import Common.Bits Gen.Consts Dec.Prog Dec.Format Dec.Policies
  Safe.TreeModel Safe.RetrModel Safe.RetrChunk Safe.RetrInv Safe.RetrSafe Safe.RetrSpec Safe.RetrRefine Safe.RetrProofs.
Import ListNotations.
Local Open Scope N_scope.

(* (a) no out-of-bounds index (selector[], code_len[], mtf[], tree[], the tables inside a tree, imtf_slide[],
   imtf_row[], ftab[], tt[], the constant tables), no shift by the width or more, no failing assert, no read behind
   bs->limit (NEED_FAST), no read of a perm[] entry make_tree() did not write - for every initial state with arbitrary
   array contents, every sequence of input words, cut into any non-empty chunks; and the call(s) at end of input end
   the block with OK or an error code (never MORE; the fuel of the model never runs out) *)
Theorem C09retr_safe :
  forall st chunks, init_ok st -> Forall words_ok chunks -> Forall (fun c => c <> []) chunks ->
    match fst (retr_chunks st chunks) with
    | ROk _ => True
    | RErr _ _ => True
    | RMore _ => False
    | RFault _ => False
    end.
Proof. exact RetrProofs.retr_safe. Qed.

(* (b) two ways of cutting the same words into chunks give the same result: same verdict (OK / the same error code); for
   OK the same randomised flag, origin pointer, tt[] contents, block size, ftab[], the same saved bit buffer and the
   same words left unread ([xsim]) *)
Theorem C09retr_chunk_independent :
  forall st cs1 cs2, init_ok st -> b_eof st = false ->
    Forall words_ok cs1 -> Forall (fun c => c <> []) cs1 -> Forall words_ok cs2 -> Forall (fun c => c <> []) cs2 ->
    concat cs1 = concat cs2 ->
    xsim (retr_chunks st cs1) (retr_chunks st cs2).
Proof. exact RetrProofs.retr_chunk_indep. Qed.

(* the fast path computes what the slow path computes: a run of the machine that honours the test
   (limit - next) >= 32 is matched by the machine that never takes the fast path *)
Theorem C09retr_fast_is_slow :
  forall n p st rF, run_from true n p st = rF -> no_fault rF ->
    exists m rS, run_from false m p st = rS /\ rsim [] rS rF.
Proof. exact fast_to_slow_run. Qed.

(* (c) what retrieve() delivers is the block of the format description, read from the same bits; bits consumed agree *)
Theorem C09retr_refines_format :
  forall st cs f, init_ok st -> b_eof st = false -> Forall words_ok cs -> Forall (fun c => c <> []) cs ->
    (length (init_bits st ++ wbits (concat cs)) < f)%nat ->
    match retr_chunks st cs with
    | (ROk st', lo) =>
        spec_block f (init_bits st ++ wbits (concat cs)) =
          Ok (negb (d_rand (s_core st') =? 0), d_bwt_idx (s_core st'), rev (c_tt (s_core st')),
              strm (s_core st') (b_data st' ++ concat lo)) /\
        d_block_size st' = N.of_nat (length (c_tt (s_core st')))
    | (RErr code _, _) =>
        (exists e, spec_block f (init_bits st ++ wbits (concat cs)) = Err e) \/
        (code = E_ERR_EOF /\
         forall r rest, spec_block f (init_bits st ++ wbits (concat cs)) = Ok (r, rest) -> (length rest < 32)%nat)
    | _ => False
    end.
Proof. exact RetrProofs.retr_refines. Qed.

(* every block of the format with at least 32 bits behind it is delivered *)
Theorem C09retr_complete :
  forall st cs f r rest, init_ok st -> b_eof st = false -> Forall words_ok cs -> Forall (fun c => c <> []) cs ->
    (length (init_bits st ++ wbits (concat cs)) < f)%nat ->
    spec_block f (init_bits st ++ wbits (concat cs)) = Ok (r, rest) -> (32 <= length rest)%nat ->
    exists st' lo, retr_chunks st cs = (ROk st', lo) /\
      r = (negb (d_rand (s_core st') =? 0), d_bwt_idx (s_core st'), rev (c_tt (s_core st'))) /\
      rest = strm (s_core st') (b_data st' ++ concat lo) /\
      d_block_size st' = N.of_nat (length (c_tt (s_core st'))).
Proof. exact RetrProofs.retr_complete. Qed.

(* what the format description rejects is answered with an error code *)
Theorem C09retr_rejects :
  forall st cs f e, init_ok st -> b_eof st = false -> Forall words_ok cs -> Forall (fun c => c <> []) cs ->
    (length (init_bits st ++ wbits (concat cs)) < f)%nat ->
    spec_block f (init_bits st ++ wbits (concat cs)) = Err e ->
    exists code st' lo, retr_chunks st cs = (RErr code st', lo).
Proof. exact RetrProofs.retr_rejects. Qed.

(* the block reader of the format description is the one the bit-level theorems (C05, C06, C15) are about *)
Theorem C09retr_spec_is_read_block :
  forall f bits, spec_block f bits =
    match run (read_block lbz_policy f) bits with
    | Err e => Err e
    | Ok (rb, rest) =>
        match unmtf_block MAX_BLOCK_SIZE (rb_used rb) (rb_mtfv rb) with
        | Err e => Err e
        | Ok col =>
            if N.of_nat (length col) =? 0 then Err ErrEmpty
            else if N.of_nat (length col) <=? rb_idx rb then Err ErrBwtIdx
            else Ok (rb_rand rb, rb_idx rb, col, rest)
        end
    end.
Proof. exact RetrProofs.spec_block_unfold. Qed.

(* ---- the hypotheses are satisfiable; a concrete block ---------------------------------------------------------------- *)
(* the state harness/retr_h.c and the extracted model start from (arrays filled with 0xAA..), any bit buffer *)
Example init_ok_junk : init_ok (init_state junk_core 0 0) /\ init_ok (init_state junk_core (5 * 2 ^ 61) 3).
Proof.
  split.
  - apply (junk_init_ok 0 0 0); [discriminate|reflexivity|reflexivity].
  - apply (junk_init_ok (5 * 2 ^ 61) 3 5); [discriminate|reflexivity|reflexivity].
Qed.

(* the block of "abracadabra" (2 tables; bits behind the block CRC, followed by the 80-bit trailer of the stream) *)
Definition abra_words : list N :=
  [257; 2151415824; 2097185; 537166042; 1292049501; 3373588802; 1083028783; 1610612736].

Example abra_whole :
  match retr_chunks (init_state junk_core 0 0) [abra_words] with
  | (ROk st', lo) => rev (c_tt (s_core st')) = [114; 100; 97; 114; 99; 97; 97; 97; 97; 98; 98] /\
                     d_bwt_idx (s_core st') = 2 /\ d_rand (s_core st') = 0 /\ d_block_size st' = 11 /\ lo = []
  | _ => False
  end.
Proof. vm_compute. repeat split; reflexivity. Qed.

(* one word per call (the call is suspended at every NEED that finds the chunk exhausted): the same block *)
Example abra_chunked :
  match retr_chunks (init_state junk_core 0 0) (map (fun w => [w]) abra_words) with
  | (ROk st', lo) => rev (c_tt (s_core st')) = [114; 100; 97; 114; 99; 97; 97; 97; 97; 98; 98] /\
                     d_bwt_idx (s_core st') = 2 /\ d_block_size st' = 11
  | _ => False
  end.
Proof. vm_compute. repeat split; reflexivity. Qed.

(* the input cut short inside the block: ERR_EOF *)
Example abra_truncated :
  match fst (retr_chunks (init_state junk_core 0 0) [firstn 3 abra_words]) with
  | RErr code _ => code = E_ERR_EOF
  | _ => False
  end.
Proof. vm_compute. reflexivity. Qed.

(* the limit of (c), on the real code as well (checks/retr_part.py): 10 bits behind the block are not enough for
   retrieve(), whose NEED wants a whole 32-bit word before the last symbol, while the format description has the block *)
Example abra_slack_10_bits :
  (match fst (retr_chunks (init_state junk_core 0 0) [firstn 5 abra_words]) with RErr code _ => code = E_ERR_EOF | _ => False end) /\
  (match spec_block 200 (wbits (firstn 5 abra_words)) with
   | Ok (_, _, col, rest) => col = [114; 100; 97; 114; 99; 97; 97; 97; 97; 98; 98] /\ length rest = 10%nat
   | Err _ => False
   end).
Proof. vm_compute. repeat split; reflexivity. Qed.
