(* C11 - Schedulers are deadlock-free, bounded and order-preserving.
   Compression scheduler (compress.c on process.c), both modes, every worker count
   n >= 1, every input shape (Data/collect are arbitrary), every interleaving
   (Reach = reachable by any event list).  Only statements; proofs are [exact].
   Guards, TRANSM_THRESH, task order, capacities, slot formulas, start values and
   the signalling condition are regenerated from /repo/src (Gen/SchedCTab.v). *)
From Coq Require Import List NArith Arith Bool Lia.
From LBZ Require Import SchedC.SchedCIface Gen.SchedCTab SchedC.Pool SchedC.PoolLemmas SchedC.SchedC SchedC.SchedCInv.
Import ListNotations.

Section C11.
  Variables (Data Enc : Type) (data_len : Data -> N) (enc_empty : Enc)
            (collect : Enc -> Data -> Enc * Data * bool).
  Notation reachable := (reachable data_len enc_empty collect).

  (* no queue ever holds more items than the capacity it was allocated with,
     no counter exceeds its total *)
  Theorem C11_capacity : forall n u lvl inp s, reachable n u lvl inp s ->
    length (coll_q s) <= cap_coll n /\ length (trans_q s) <= cap_trans n /\
    length (reord_q s) <= cap_reord n /\ length (output_q s) <= cap_output n /\
    work_units s <= n /\ in_slots s <= total_in n /\ out_slots s <= total_out n.
  Proof. exact (@c11_capacity Data Enc data_len enc_empty collect). Qed.

  (* every work unit, input slot and output slot is either free or held by
     exactly one queue element / running task / I/O thread *)
  Theorem C11_conserve : forall n u lvl inp s, reachable n u lvl inp s ->
    work_units s + units_held s = n /\
    in_slots s + in_held s = total_in n /\
    out_slots s + out_held s = total_out n.
  Proof. exact (@c11_conserve Data Enc data_len enc_empty collect). Qed.

  (* no dequeue from an empty queue, no counter underflow, no push on a full
     deque, no failing assert *)
  Theorem C11_no_undefined_behaviour : forall n u lvl inp s, reachable n u lvl inp s -> bad s = false.
  Proof. exact (@c11_no_ub Data Enc data_len enc_empty collect). Qed.

  (* a terminal state has given back everything *)
  Theorem C11_final : forall n u lvl inp s, 1 <= n -> reachable n u lvl inp s -> final s = true ->
    work_units s = n /\ in_slots s = total_in n /\ out_slots s = total_out n /\
    coll_q s = [] /\ trans_q s = [] /\ reord_q s = [] /\ output_q s = [] /\ unfinished s = None /\
    collect_token s = true /\ eof s = true.
  Proof. exact (@c11_final Data Enc data_len enc_empty collect). Qed.
End C11.
