(* C11 - Schedulers are deadlock-free, bounded and order-preserving.
   Compression scheduler (compress.c on process.c), both modes, every worker count
   n >= 1, every input shape (Data/collect are arbitrary), every interleaving
   (Reach = reachable by any event list).  Only statements; proofs are [exact].
   Guards, TRANSM_THRESH, task order, capacities, slot formulas, start values and
   the signalling condition are regenerated from /repo/src (Gen/SchedCTab.v). *)
From Coq Require Import List NArith Arith Bool Lia.
From LBZ Require Import SchedC.SchedCIface Gen.SchedCTab SchedC.Pool SchedC.PoolLemmas SchedC.SchedC SchedC.SchedCInv
  SchedC.Tiling SchedC.SchedCOrder SchedC.SchedCOrderU SchedC.SchedCLive SchedC.SchedCProg SchedC.SchedCProgU SchedC.SchedCTerm.
Import ListNotations.

Section C11.
  Variables (Data Enc : Type) (data_len : Data -> N) (enc_empty : Enc)
            (collect : Enc -> Data -> Enc * Data * bool).
  Notation reachable := (reachable data_len enc_empty collect).

  (* no queue ever holds more items than the capacity it was allocated with,
     no counter exceeds its total *)
  Theorem C11_capacity : forall n u lvl inp s, reachable n u lvl inp s ->
    length (coll_q s) <= cap_coll n /\ length (trans_q s) <= cap_trans n /\
    length (reord_q s) <= cap_reord n /\ length (output_q s) <= cap_output n /\
    work_units s <= n /\ in_slots s <= total_in n /\ out_slots s <= total_out n.
  Proof. exact (@c11_capacity Data Enc data_len enc_empty collect). Qed.

  (* every work unit, input slot and output slot is either free or held by
     exactly one queue element / running task / I/O thread *)
  Theorem C11_conserve : forall n u lvl inp s, reachable n u lvl inp s ->
    work_units s + units_held s = n /\
    in_slots s + in_held s = total_in n /\
    out_slots s + out_held s = total_out n.
  Proof. exact (@c11_conserve Data Enc data_len enc_empty collect). Qed.

  (* no dequeue from an empty queue, no counter underflow, no push on a full
     deque, no failing assert *)
  Theorem C11_no_undefined_behaviour : forall n u lvl inp s, reachable n u lvl inp s -> bad s = false.
  Proof. exact (@c11_no_ub Data Enc data_len enc_empty collect). Qed.

  (* a terminal state has given back everything *)
  Theorem C11_final : forall n u lvl inp s, 1 <= n -> reachable n u lvl inp s -> final s = true ->
    work_units s = n /\ in_slots s = total_in n /\ out_slots s = total_out n /\
    coll_q s = [] /\ trans_q s = [] /\ reord_q s = [] /\ output_q s = [] /\ unfinished s = None /\
    collect_token s = true /\ eof s = true.
  Proof. exact (@c11_final Data Enc data_len enc_empty collect). Qed.

  (* blocks are handed to the writer in stream order (both modes): the handed blocks
     (written or queued for writing) form the gap-free chain 0.0 -> ... -> [order]
     (each block starts where the previous one ends) with strictly increasing
     positions; by C03_confluent this chain is a prefix of the block sequence of every
     complete run of the default mode. *)
  Theorem C11_order : forall n u lvl inp s, reachable n u lvl inp s ->
    chain pos0 (map (@iv_wb Enc) (@handed Data Enc s)) (order s) /\
    Sorted.StronglySorted (fun a b => plt (wb_pos a) (wb_pos b)) (@handed Data Enc s).
  Proof. exact (@c11_order Data Enc data_len enc_empty collect). Qed.

  (* nothing is lost on the way (both modes): a terminal state has handed over every
     block of the input that was read *)
  Theorem C11_final_order : forall n u lvl inp s, 1 <= n -> reachable n u lvl inp s -> final s = true ->
    order s = mkpos (next_id s) 0 /\ output_q s = [] /\ @handed Data Enc s = written s.
  Proof. exact (@c11_final_order Data Enc data_len enc_empty collect). Qed.

  (* whenever the mutex is free and a task is ready (or the process has finished and
     a worker has not exited yet), a signal is pending for a waiting worker or some
     worker is running unlocked code / has not started: no wake-up is lost.
     Both modes. *)
  Theorem C11_no_lost_wakeup : forall n u lvl inp s, 1 <= n -> reachable n u lvl inp s ->
    lock s = None ->
    (is_some (next_task s) = true \/
     (finished s = true /\ sumf (@exited_of Data Enc) (workers s) < length (workers s))) ->
    0 < wakeups s \/ 0 < sumf (@awake_of Data Enc) (workers s).
  Proof. exact (@c11_no_lost_wakeup Data Enc data_len enc_empty collect). Qed.

  (* select_task() respects the documented static priorities (collect_seq, reorder,
     transmit, collect): nothing of higher priority than the chosen task is ready *)
  Theorem C11_priority : forall (s : state Data Enc) t, next_task s = Some t -> @Inv Data Enc s ->
    forall t', prio t' < prio t -> ready s t' = false.
  Proof. exact (@c11_priority Data Enc enc_empty collect). Qed.

  (* deadlock freedom (both modes): every reachable non-final state has an enabled
     event that is not an idle (spurious) wake-up *)
  Theorem C11_progress : forall n u lvl inp s, 1 <= n -> reachable n u lvl inp s -> final s = false ->
    exists e s', step data_len enc_empty collect s e = Some s' /\ @productive Data Enc s e = true.
  Proof. exact (@c11_progress Data Enc data_len enc_empty collect). Qed.

  (* termination (both modes): if collect() consumes at least one byte of a non-empty
     input, every event except an idle wake-up strictly decreases the measure (work
     left, workers alive, scheduling noise) in the well-founded lexicographic order
     lt3; with C11_progress: every maximal run is finite up to idle stuttering and
     ends in a final state. *)
  Theorem C11_terminates :
    (forall e d, (0 < data_len d)%N -> (data_len (snd (fst (collect e d))) < data_len d)%N) ->
    forall n u lvl inp s e s', reachable n u lvl inp s ->
      step data_len enc_empty collect s e = Some s' -> @productive Data Enc s e = true ->
      lt3 (@measure Data Enc data_len s') (@measure Data Enc data_len s).
  Proof. exact (@c11_terminates Data Enc data_len enc_empty collect). Qed.

  Theorem C11_measure_well_founded : well_founded lt3.
  Proof. exact lt3_wf. Qed.
End C11.

(* non-vacuity: two workers, one chunk that is split into two blocks (the remainder
   has 20000 bytes after the first collect()), round-robin interleaving: the run is
   complete, both blocks are written in order, everything is returned *)
Definition ex_data := (N * list N)%type.
Definition ex_len (d : ex_data) : N := fst d.
Definition ex_collect (e : unit) (d : ex_data) : unit * ex_data * bool :=
  match snd d with [] => (e, (0%N, []), true) | l :: r => (e, (l, r), true) end.

Example C11_example_run :
  let s := rr ex_len tt ex_collect 40 [TM; TS; TR; TW 0; TW 1]
              (init unit 2 false 1%N [(100000%N, [20000%N; 0%N])]) in
  reachable ex_len tt ex_collect 2 false 1%N [(100000%N, [20000%N; 0%N])] s /\
  final s = true /\ bad s = false /\
  map (@wb_pos unit) (written s) = [mkpos 0 0; mkpos 0 1] /\ order s = mkpos 1 0 /\
  work_units s = 2 /\ in_slots s = 4 /\ out_slots s = 6.
Proof.
  split; [apply rr_reach; constructor|]. vm_compute. repeat split; reflexivity.
Qed.
