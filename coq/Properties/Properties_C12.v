(* C12 - No data races between threads.
   Only statements; every proof is [exact <lemma>].  Gen/LockProg.v (the lock/access
   skeleton of process.c, compress.c, expand.c, signals.c, main.c, the variable table
   and the thread-class scenarios) is regenerated from /repo/src on every run.

   What the statements say: in the interleaving semantics [par_sem] of the transcribed
   skeleton (any number of worker threads, any schedule, every branch of every
   condition possible, compression in both modes / decompression = scenario
   "schedule", -cdf copying = scenario "copy") no reachable configuration has two
   different threads about to make conflicting accesses to one tracked variable, unless
   the pair is ordered by thread creation/joining or is the signal handler against the
   main thread on a volatile sig_atomic_t ([exempt], trusted: DESIGN.md section 3).

   Partial (named, not silently dropped):
   - tracked = every file-scope/external variable of the five files except the leaves
     of expand.c:par, plus the heap classes of LockConfig.heap_locked (C12_tracked);
     expand.c:par and all other heap classes are protected by ownership
     (Lock/Ownership.v: discipline stated and proved exclusive on an abstract model;
     that the code follows it is not proved - the check lists the unlocked accesses);
   - the create/join ordering itself ([exempt], [Join true] marking) is trusted;
   - the tie to the C text is the translator lib/gen_lock.py (trusted, cross-checked). *)
From LBZ Require Import Lock.LockLang Lock.Lockset Lock.LocksetSound Lock.LockConfig Lock.LockCheck
                        Lock.LockExamples Lock.Ownership Gen.LockProg.

(* soundness of the analysis, once and for all programs and class tables *)
Theorem lockset_sound :
  forall p cl, check p cl = true ->
  forall name specs, In (name, specs) (cl_scenarios cl) ->
  forall cfg, reachable (par_sem p specs) cfg -> ~ race cl specs cfg.
Proof. exact lockset_sound_all. Qed.

(* its two ingredients: the recorded facts under-approximate what a thread owns at every
   access of every execution; a mutex has one owner *)
Theorem C12_held_set_underapproximated :
  forall p specs F, collect p 0 specs [] = Some F ->
  forall c, reachable (par_sem p specs) c ->
  forall i t w v st, nth_error (threads c) i = Some t -> next_access t = Some (w, v, st) ->
  exists f, In f F /\ f_spec f = th_spec t /\ f_var f = v /\ f_write f = w /\
            (forall m, In m (f_locks f) -> owner c m = Some i) /\
            (th_conc t = true -> f_conc f = true).
Proof. exact held_set_underapproximated. Qed.

Theorem C12_mutex_one_owner :
  forall (c : config) m i j, owner c m = Some i -> owner c m = Some j -> i = j.
Proof. exact mutex_one_owner. Qed.

(* the regenerated program passes (by computation: any access moved out of its lock,
   new unprotected shared variable or wrong mutex makes this fail) *)
Theorem C12_globals : check LockProg.program LockConfig.classes = true.
Proof. exact check_program. Qed.

Theorem C12_no_race :
  forall name specs, In (name, specs) (cl_scenarios LockConfig.classes) ->
  forall cfg, reachable (par_sem LockProg.program specs) cfg -> ~ race LockConfig.classes specs cfg.
Proof. exact program_race_free. Qed.

(* what is tracked: the only globals left out are the leaves of expand.c:par *)
Theorem C12_tracked :
  forallb (fun n => prefix "expand.c:par." n) untracked_globals = true.
Proof. exact untracked_globals_are_par. Qed.

Theorem C12_scenarios : map fst (cl_scenarios LockConfig.classes) = ["copy"; "schedule"]%string.
Proof. exact scenarios_present. Qed.

(* heap objects, abstract ownership model (partial: not tied to the C text) *)
Theorem C12_ownership_partial :
  forall s t u o, may_access s t o -> may_access s u o -> t = u.
Proof. exact ownership_exclusive. Qed.

(* non-vacuity: [race] is reachable for a program the checker rejects, and a program
   with the lock around the same accesses is accepted *)
Example C12_example_racy_rejected : check racy ex_classes = false.
Proof. exact racy_rejected. Qed.

Example C12_example_race_exists :
  exists cfg, reachable (par_sem racy ex_specs) cfg /\ race ex_classes ex_specs cfg.
Proof. exact racy_has_race. Qed.

Example C12_example_locked_accepted : check locked ex_classes = true.
Proof. exact locked_accepted. Qed.
