(* C12 - No data races between threads.
   Only statements; every proof is [exact <lemma>].  Gen/LockProg.v (the lock/access
   skeleton of process.c, compress.c, expand.c, signals.c, main.c, the variable table
   and the thread-class scenarios) is regenerated from /repo/src on every run.

   What the statements say: in the interleaving semantics [par_sem] of the transcribed
   skeleton (any number of worker threads, any schedule, every branch of every
   condition possible, compression in both modes / decompression = scenario
   "schedule", -cdf copying = scenario "copy") no reachable configuration has two
   different threads about to make conflicting accesses to one tracked variable, unless
   the pair is ordered by thread creation/joining or is the signal handler against the
   main thread on a volatile sig_atomic_t ([exempt], trusted: DESIGN.md section 3).

   Heap objects (blocks, buffers, decoder/encoder states) are not protected by a mutex
   while a task works on them but by OWNERSHIP: Gen/OwnProg.v (lib/gen_own.py) is the
   hand-over skeleton of the worker / reader / writer threads of the three scenarios
   (compression, expansion, the -cdf copy), regenerated on every run; [own_check]
   (Lock/OwnCheck.v) enforces the discipline on it - no access through a pointer after
   the object was enqueued / freed / copied away until it is acquired again, dequeue and
   peek only under the queue's mutex, published objects (unord blocks, the input blocks
   of expand.c) only under the scheduler mutex - and [own_sound] shows that then, in the
   interleaving semantics of Lock/OwnLang.v with an explicit ownership state per object,
   every access of every reachable configuration is made by the one thread entitled to
   it (C12_heap_ownership, C12_no_heap_race, C12_heap_accesses_entitled).

   Partial (named, not silently dropped):
   - tracked (lockset part) = every file-scope/external variable of the five files except
     the leaves of expand.c:par, plus the heap classes of LockConfig.heap_locked
     (C12_tracked); expand.c:par is protected by the parse_token hand-over, not proved;
   - heap part: abstractions of the translator (its docstring and DESIGN.md): objects
     reached through fields of other modules' structs (struct bitstream: the reference
     counted input buffer of expand.c between attach() and detach()), memory LIFETIME of
     published objects (complete/legitimate, ref_count) and pointer retention by the
     codec functions of other modules are outside the skeleton;
   - the create/join ordering itself ([exempt], [Join true] marking) is trusted;
   - the tie to the C text is the translator lib/gen_lock.py (trusted, cross-checked). *)
From LBZ Require Import Lock.LockLang Lock.Lockset Lock.LocksetSound Lock.LockConfig Lock.LockCheck
                        Lock.LockExamples Lock.Ownership Gen.LockProg.
From LBZ Require Lock.OwnLang Lock.OwnCheck Lock.OwnSound Lock.OwnProgCheck Lock.OwnExamples Gen.OwnProg.

(* soundness of the analysis, once and for all programs and class tables *)
Theorem lockset_sound :
  forall p cl, check p cl = true ->
  forall name specs, In (name, specs) (cl_scenarios cl) ->
  forall cfg, reachable (par_sem p specs) cfg -> ~ race cl specs cfg.
Proof. exact lockset_sound_all. Qed.

(* its two ingredients: the recorded facts under-approximate what a thread owns at every
   access of every execution; a mutex has one owner *)
Theorem C12_held_set_underapproximated :
  forall p specs F, collect p 0 specs [] = Some F ->
  forall c, reachable (par_sem p specs) c ->
  forall i t w v st, nth_error (threads c) i = Some t -> next_access t = Some (w, v, st) ->
  exists f, In f F /\ f_spec f = th_spec t /\ f_var f = v /\ f_write f = w /\
            (forall m, In m (f_locks f) -> owner c m = Some i) /\
            (th_conc t = true -> f_conc f = true).
Proof. exact held_set_underapproximated. Qed.

Theorem C12_mutex_one_owner :
  forall (c : config) m i j, owner c m = Some i -> owner c m = Some j -> i = j.
Proof. exact mutex_one_owner. Qed.

(* the regenerated program passes (by computation: any access moved out of its lock,
   new unprotected shared variable or wrong mutex makes this fail) *)
Theorem C12_globals : check LockProg.program LockConfig.classes = true.
Proof. exact check_program. Qed.

Theorem C12_no_race :
  forall name specs, In (name, specs) (cl_scenarios LockConfig.classes) ->
  forall cfg, reachable (par_sem LockProg.program specs) cfg -> ~ race LockConfig.classes specs cfg.
Proof. exact program_race_free. Qed.

(* what is tracked: the only globals left out are the leaves of expand.c:par *)
Theorem C12_tracked :
  forallb (fun n => prefix "expand.c:par." n) untracked_globals = true.
Proof. exact untracked_globals_are_par. Qed.

Theorem C12_scenarios : map fst (cl_scenarios LockConfig.classes) = ["copy"; "schedule"]%string.
Proof. exact scenarios_present. Qed.

(* ---- heap objects: ownership ---- *)

(* soundness of the ownership checker, once and for all skeletons: every access of every
   reachable configuration is made by a thread that holds the object, or owns the mutex
   of the queue it is linked into / under which it is published *)
Theorem C12_ownership_sound :
  forall p, OwnCheck.own_check p = true ->
  forall c, OwnLang.reachable p c ->
  forall i t o, nth_error (OwnLang.threads c) i = Some t ->
    OwnLang.about_to_access t (OwnLang.heap c) o -> OwnLang.may_access p c i o.
Proof. exact OwnSound.own_sound. Qed.

(* entitlement is exclusive *)
Theorem C12_ownership_exclusive :
  forall p c i j o, OwnLang.may_access p c i o -> OwnLang.may_access p c j o -> i = j.
Proof. exact OwnSound.may_access_exclusive. Qed.

(* the regenerated hand-over skeleton of the current source passes (by computation: an
   access after enqueue / free / sink_write_buffer, a dequeue or peek outside the mutex, a
   published object touched without the scheduler mutex makes this fail) *)
Theorem C12_heap_ownership : OwnCheck.own_check_all OwnProg.scenarios = true.
Proof. exact OwnProgCheck.own_check_program. Qed.

(* the scenarios and thread bodies that were checked *)
Theorem C12_heap_threads :
  OwnProgCheck.thread_table =
  [("compression", [("worker_thread_proc", true); ("source_thread_proc", false); ("sink_thread_proc", false)]);
   ("expansion", [("worker_thread_proc", true); ("source_thread_proc", false); ("sink_thread_proc", false)]);
   ("pseudo_process", [("source_thread_proc", false); ("sink_thread_proc", false)])]%string.
Proof. exact OwnProgCheck.thread_table_expected. Qed.

Theorem C12_heap_accesses_entitled :
  forall name p, In (name, p) OwnProg.scenarios ->
  forall c, OwnLang.reachable p c ->
  forall i t o, nth_error (OwnLang.threads c) i = Some t ->
    OwnLang.about_to_access t (OwnLang.heap c) o -> OwnLang.may_access p c i o.
Proof. exact OwnProgCheck.program_accesses_entitled. Qed.

(* no two threads are ever about to touch the same heap object *)
Theorem C12_no_heap_race :
  forall name p, In (name, p) OwnProg.scenarios ->
  forall c, OwnLang.reachable p c -> ~ OwnLang.heap_race c.
Proof. exact OwnProgCheck.program_no_heap_race. Qed.

(* the abstract model of Lock/Ownership.v (one mutex, one queue) and its exclusiveness;
   its [may_access] is the projection of the one above *)
Theorem C12_ownership_partial :
  forall s t u o, may_access s t o -> may_access s u o -> t = u.
Proof. exact ownership_exclusive. Qed.

Theorem C12_ownership_model_instance :
  forall p c m q t o, OwnLang.qlock p q = Some m ->
  may_access (OwnExamples.proj c m q) t o -> OwnLang.may_access p c t o.
Proof. exact OwnExamples.ownership_model_instance. Qed.

(* non-vacuity: [race] is reachable for a program the checker rejects, and a program
   with the lock around the same accesses is accepted *)
Example C12_example_racy_rejected : check racy ex_classes = false.
Proof. exact racy_rejected. Qed.

Example C12_example_race_exists :
  exists cfg, reachable (par_sem racy ex_specs) cfg /\ race ex_classes ex_specs cfg.
Proof. exact racy_has_race. Qed.

Example C12_example_locked_accepted : check locked ex_classes = true.
Proof. exact locked_accepted. Qed.

(* heap part: the seeded defect in miniature (access after enqueue) is rejected, an
   interleaving reaches a configuration where producer and consumer are about to touch the
   same object and the producer is not entitled; with the access before the hand-over the
   skeleton is accepted *)
Example C12_example_handover_racy_rejected : OwnCheck.own_check OwnExamples.racy = false.
Proof. exact OwnExamples.racy_rejected. Qed.

Example C12_example_heap_race_exists :
  exists c, OwnLang.reachable OwnExamples.racy c /\ OwnLang.heap_race c.
Proof. exact OwnExamples.racy_has_race. Qed.

Example C12_example_not_entitled :
  exists c t o, OwnLang.reachable OwnExamples.racy c /\ nth_error (OwnLang.threads c) 0 = Some t /\
                OwnLang.about_to_access t (OwnLang.heap c) o /\ ~ OwnLang.may_access OwnExamples.racy c 0 o.
Proof. exact OwnExamples.racy_not_entitled. Qed.

Example C12_example_handover_accepted : OwnCheck.own_check OwnExamples.handover_ok = true.
Proof. exact OwnExamples.handover_accepted. Qed.
