(* C05 - Decompression never accepts malformed data or emits wrong bytes.
   Statements only.  lbz_decode is the model of `lbzip2 -d` (Dec/Format.v with
   Dec/Policies.lbz_policy over the regenerated tables of src/decode.c);
   ref_decode is the strict bzip2 1.0.x format (every single code-length step in
   1..20, CRCs, declared block size, primary index inside the block, trailing
   data ignored only if it does not begin with a full BZh1..BZh9 header). *)
From Coq Require Import List NArith Arith Bool Lia.
From LBZ Require Import Common.Bits Dec.Prog Dec.Format Dec.Delta Dec.DeltaProofs Dec.Policies Dec.DecProofs.
Import ListNotations.
Local Open Scope N_scope.

Theorem C05_sound :
  forall file o, lbz_decode file = Ok o -> ref_decode file = Ok o.
Proof. exact lbz_sound. Qed.

(* the heart of it: on every bit string, whenever lbzip2's 6-bit table-driven
   delta reader (regenerated L[], R[], Rmin[], Rmax[] and range constants)
   yields a code length, the bit-by-bit reader that checks 1..20 after every
   single step yields the same length from the same bits *)
Theorem C05_delta_steps_checked :
  forall fuel cur bits v r, cur < 32 ->
    run (win_delta fuel cur) bits = Ok (v, r) -> run (strict_delta fuel cur) bits = Ok (v, r).
Proof. exact (win_to_strict closed_ws_true). Qed.

(* ... and that strict reader only ever returns lengths in MIN..MAX_CODE_LENGTH *)
Theorem C05_strict_lengths_in_range :
  forall fuel cur bits v r, run (strict_delta fuel cur) bits = Ok (v, r) ->
    in_len_range v = true.
Proof. exact strict_lengths_in_range. Qed.

(* the regenerated delta tables are prefix-consistent ("peek 6, consume L[k]" is a
   bit-by-bit reader) and the selector table is "position of the first zero bit" *)
Theorem C05_tables_consistent : tables_prefix_consistent = true /\ sel_table_ok = true.
Proof. exact (conj tables_prefix_consistent_true sel_table_ok_true). Qed.

(* non-vacuity: a real bzip2 -1 stream of "hello hello hello" is accepted *)
Example C05_accepts_real_stream :
  lbz_decode [66; 90; 104; 49; 49; 65; 89; 38; 83; 89; 158; 98; 91; 254; 0; 0; 2; 145; 0; 64; 0; 2; 68; 160; 0; 33; 20; 96; 102; 130; 145; 239; 35; 71; 11; 185; 34; 156; 40; 72; 79; 49; 45; 255; 0] = Ok [104; 101; 108; 108; 111; 32; 104; 101; 108; 108; 111; 32; 104; 101; 108; 108; 111].
Proof. vm_compute. reflexivity. Qed.

(* regression pins for finding F1 (fixed): a code length that leaves 1..20 and
   comes back, and a start value of 0, are rejected *)
Example C05_excursion_rejected : lbz_decode [66; 90; 104; 57; 49; 65; 89; 38; 83; 89; 169; 238; 48; 204; 0; 0; 0; 0; 2; 16; 0; 80; 0; 62; 19; 65; 52; 17; 132; 124; 10; 24; 187; 146; 41; 194; 132; 133; 79; 113; 134; 96] = Err ErrDelta.
Proof. vm_compute. reflexivity. Qed.
Example C05_start0_rejected : lbz_decode [66; 90; 104; 54; 49; 65; 89; 38; 83; 89; 26; 94; 132; 88; 0; 0; 8; 129; 0; 48; 0; 64; 0; 60; 9; 32; 42; 104; 62; 115; 182; 27; 119; 107; 162; 53; 152; 181; 184; 187; 146; 41; 194; 132; 128; 210; 244; 34; 192] = Err ErrDelta.
Proof. vm_compute. reflexivity. Qed.
