(* C16 - placeholder while the tie is being calibrated *)
From Coq Require Import List NArith.
From LBZ Require Import Front.FsModel Front.MainLoop Front.FrontSpec.
Example C16_stub : True. Proof. exact I. Qed.
