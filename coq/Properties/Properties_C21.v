(* C21 - I/O failures on filters terminate promptly.
   Only statements; every proof is [exact <lemma>].

   Setting (IoFail/IoFailModel.v): [run_fault r x generated dfl main_suspended others sch]
   is the state reached from the moment a read()/write() of a stdin->stdout filter run has
   returned -1 with errno [x] in the thread of role [r] (main thread: 4-byte sniff read /
   copy-mode header write; reader thread; writer thread; primary thread in write_header /
   write_trailer), where
     generated       the kernel generated SIGPIPE/SIGXFSZ for that thread together with
                     EPIPE/EFBIG (a real broken pipe does; an injected errno alone does not),
     dfl             SIGPIPE/SIGXFSZ have their default disposition (false: SIG_IGN inherited),
     main_suspended  the main thread is already in sigsuspend() (false: still on its way),
     others          the states of all other threads (running, blocked on a condition
                     variable, blocked in read()/write(), exited), arbitrary,
     sch             an arbitrary schedule: steps of the failing thread, of the main thread,
                     arbitrary state changes of the other threads, and the pipeline events
                     "the other pipeline threads are done", "the failing thread is done",
                     "completion signal raised".
   The operations executed by the failing thread and by the main thread (xread/xwrite error
   branch, the DEF() logging macro and its print condition, bailout(), halt()'s dispatch,
   blocked/handled signal tables, exit codes) are regenerated from /repo/src on every run
   (Gen/IoFailTab.v); the theorems are about that regenerated configuration.

   Declared partiality: wall-clock promptness and kernel signal-delivery latency are not
   modelled; "prompt" is rendered as a bound on the number of steps the failing thread and
   the main thread can take before the process is gone, independent of all other threads. *)
From Coq Require Import List NArith Bool.
From LBZ Require Import Gen.IoFailTab IoFail.IoFailModel IoFail.IoFailProofs.
Import ListNotations.
Local Open Scope N_scope.

(* Whenever the process is gone, it exited with status 1, or was killed by SIGPIPE
   (only for EPIPE with the signal generated and default disposition) or SIGXFSZ
   (likewise for EFBIG); never status 0; stderr is empty iff errno is EPIPE or EFBIG. *)
Theorem C21_outcome :
  forall r x generated dfl main_suspended others sch o,
    k_res (s_core (run_fault r x generated dfl main_suspended others sch)) = Some o ->
    (o = Exited 1
     \/ (o = Killed SIGPIPE /\ x = EPIPE /\ generated = true /\ dfl = true)
     \/ (o = Killed SIGXFSZ /\ x = EFBIG /\ generated = true /\ dfl = true))
    /\ o <> Exited 0
    /\ (k_printed (s_core (run_fault r x generated dfl main_suspended others sch)) = 0
        <-> (x = EPIPE \/ x = EFBIG)).
Proof. exact outcome. Qed.

(* sharper: the outcome and the number of diagnostics are those of the canonical
   schedule [predict] (failing thread first, then the main thread, nobody else moves):
   a function of (role, errno, signal generated, disposition) alone *)
Theorem C21_outcome_exact :
  forall r x generated dfl main_suspended others sch o,
    k_res (s_core (run_fault r x generated dfl main_suspended others sch)) = Some o ->
    Some o = fst (predict r x generated dfl) /\
    k_printed (s_core (run_fault r x generated dfl main_suspended others sch)) = snd (predict r x generated dfl).
Proof. exact outcome_exact. Qed.

(* ... in particular it does not depend on the other threads, the schedule, or on
   whether the main thread had reached sigsuspend() *)
Theorem C21_outcome_independent_of_other_threads :
  forall r x generated dfl sp1 sp2 others1 others2 sch1 sch2 o1 o2,
    k_res (s_core (run_fault r x generated dfl sp1 others1 sch1)) = Some o1 ->
    k_res (s_core (run_fault r x generated dfl sp2 others2 sch2)) = Some o2 ->
    o1 = o2 /\ k_printed (s_core (run_fault r x generated dfl sp1 others1 sch1))
               = k_printed (s_core (run_fault r x generated dfl sp2 others2 sch2)).
Proof. exact others_irrelevant. Qed.

(* No reachable state after the fault is quiescent and non-final: as long as the
   process exists, the failing thread or the main thread can take a step that strictly
   decreases the measure [mu] -- whatever the other threads are doing (sigsuspend()
   returns once SIGUSR1 is raised; _exit() does not wait for anybody). *)
Theorem C21_no_stuck :
  forall r x generated dfl main_suspended others sch,
    k_res (s_core (run_fault r x generated dfl main_suspended others sch)) = None ->
    exists ev, In ev own_events /\
      (mu gen_cfg (s_core (step gen_cfg (fenv_of gen_cfg r x generated dfl) (EvCore ev)
                                (run_fault r x generated dfl main_suspended others sch)))
       < mu gen_cfg (s_core (run_fault r x generated dfl main_suspended others sch)))%nat.
Proof. exact no_stuck. Qed.

(* Steps of the other threads and pipeline events never increase the measure and own
   steps that change anything decrease it: the number of state-changing steps of the
   failing thread and the main thread in ANY schedule is bounded by the initial measure *)
Theorem C21_own_steps_bounded :
  forall r x generated dfl main_suspended others sch,
    (own_effective gen_cfg (fenv_of gen_cfg r x generated dfl)
                   (init_core gen_cfg (fenv_of gen_cfg r x generated dfl) main_suspended) (core_events sch)
     + mu gen_cfg (s_core (run_fault r x generated dfl main_suspended others sch))
     <= mu0 r x generated dfl main_suspended)%nat.
Proof. exact bounded. Qed.

(* ... so under any scheduler that lets the two threads run, the process is gone after
   fewer than [mu_cap] = 64 of their steps *)
Theorem C21_terminates_within :
  forall r x generated dfl main_suspended others sch,
    k_res (s_core (run_fault r x generated dfl main_suspended others sch)) = None ->
    (own_effective gen_cfg (fenv_of gen_cfg r x generated dfl)
                   (init_core gen_cfg (fenv_of gen_cfg r x generated dfl) main_suspended) (core_events sch)
     < mu_cap)%nat.
Proof. exact terminates_within. Qed.

(* Success is never signalled nor reported after a failed read or write: the completion
   signal SIGUSR2 is never raised, halt() never returns normally, and the exit status is
   never EX_OK = 0.  (Stated for every role; the write roles are RCopyHdrWrite, RWriter,
   RPrimaryHdr, RPrimaryTrl.) *)
Theorem C21_no_success_after_failed_write :
  forall r x generated dfl main_suspended others sch,
    k_completed (s_core (run_fault r x generated dfl main_suspended others sch)) = false
    /\ k_m (s_core (run_fault r x generated dfl main_suspended others sch)) <> MReturned
    /\ k_res (s_core (run_fault r x generated dfl main_suspended others sch)) <> Some (Exited EX_OK)
    /\ k_res (s_core (run_fault r x generated dfl main_suspended others sch)) <> Some (Exited 0).
Proof. exact no_success. Qed.

(* the print condition of the logging macro, transcribed from main.c, is exactly
   "not a bail-out, or errno is neither EPIPE nor EFBIG" *)
Theorem C21_silent_set :
  forall bail x, def_log_cond bail x = negb bail || negb (N.eqb x EPIPE || N.eqb x EFBIG).
Proof. exact def_log_cond_spec. Qed.

(* the call structure the model relies on (transcribed call lists) *)
Theorem C21_structure : structure_ok = true.
Proof. exact structure_ok_true. Qed.

(* ---------------- non-vacuity ---------------- *)
(* Final states are reachable (the hypotheses [k_res ... = Some o] above are satisfiable) for
   sub-thread and main-thread failures, with other threads interleaved; the concrete outcomes
   are spelled out for the main-thread roles (no promotion involved) and, for the sub-thread
   roles, given by [predict] (further fully concrete runs: IoFail/IoFailExamples.v). *)

(* writer thread, real broken pipe (EPIPE + SIGPIPE, default action), three other threads that
   change state in between, main not yet suspended: the process is gone, stderr is empty *)
Example C21_example_writer_sigpipe :
  let st := run_fault RWriter EPIPE true true false [ORunning; OBlockedCond; OBlockedIO]
              ([EvCore EvF; EvOther 0 OBlockedCond; EvCore EvF; EvCore EvF; EvCore EvMain; EvOther 2 OExited;
                EvCore EvF; EvCore EvF; EvCore EvF; EvCore EvF; EvCore EvF; EvCore EvOthersDone; EvCore EvComplete]
               ++ repeat (EvCore EvF) 12 ++ repeat (EvCore EvMain) 24) in
  k_res (s_core st) <> None /\ k_res (s_core st) = fst (predict RWriter EPIPE true true)
  /\ k_printed (s_core st) = 0 /\ s_others st = [OBlockedCond; OBlockedCond; OExited].
Proof. vm_compute. repeat split. discriminate. Qed.

(* reader thread, EIO: exactly one diagnostic, exit status 1 *)
Example C21_example_reader_eio :
  let st := run_fault RReader EIO false true true [OBlockedCond]
              (repeat (EvCore EvF) 24 ++ repeat (EvCore EvMain) 24) in
  k_res (s_core st) = Some (Exited 1) /\ k_printed (s_core st) = 1.
Proof. vm_compute. repeat split. Qed.

(* main thread failing in the copy-mode header write with EFBIG + SIGXFSZ, default action *)
Example C21_example_main_sigxfsz :
  let st := run_fault RCopyHdrWrite EFBIG true true false [] (repeat (EvCore EvMain) 24) in
  k_res (s_core st) = Some (Killed SIGXFSZ) /\ k_printed (s_core st) = 0.
Proof. vm_compute. repeat split. Qed.

(* the same with SIGXFSZ ignored: exit status 1, still silent *)
Example C21_example_main_sigxfsz_ignored :
  let st := run_fault RCopyHdrWrite EFBIG true false false [] (repeat (EvCore EvMain) 24) in
  k_res (s_core st) = Some (Exited 1) /\ k_printed (s_core st) = 0.
Proof. vm_compute. repeat split. Qed.

(* main thread failing in the 4-byte sniff read with ENOSPC: diagnostic and exit status 1 *)
Example C21_example_sniff_read :
  let st := run_fault RSniffRead ENOSPC false true false [] (repeat (EvCore EvMain) 24) in
  k_res (s_core st) = Some (Exited 1) /\ k_printed (s_core st) = 1.
Proof. vm_compute. repeat split. Qed.

(* the finite check is not vacuous: it rejects broken variants of the configuration *)
Example C21_checker_rejects_missing_sigusr1 :
  check cfg_no_usr1 (fenv_of cfg_no_usr1 RWriter EIO false true) false = false.
Proof. exact no_usr1_rejected. Qed.

Example C21_checker_rejects_ignored_write_error :
  check cfg_ignore_write (fenv_of cfg_ignore_write RWriter EIO false true) false = false.
Proof. exact ignore_write_rejected. Qed.

Example C21_checker_rejects_return_after_message :
  check cfg_return_after_log (fenv_of cfg_return_after_log RWriter EIO false true) false = false.
Proof. exact return_after_log_rejected. Qed.
