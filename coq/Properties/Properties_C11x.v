(* C11, decompression part - the scheduler of expand.c is bounded, conserves its
   resources and preserves the stream order.  Only statements.  The theorems are
   about [gen_cfg] and the regenerated capacities / guards; see Properties_C10.v. *)
From Coq Require Import List NArith Bool.
From LBZ Require Import Gen.Consts SchedX.XState Gen.SchedXTab SchedX.XSet SchedX.XModel SchedX.XInvDefs
  SchedX.XCount SchedX.XOracle SchedX.XSeq SchedX.XC10 SchedX.XC11.
Import ListNotations.
Local Open Scope N_scope.

(* every worker unit, output slot and input slot is free or held by exactly one queue
   element, running task or buffer on its way to the writer - for every worker count,
   slot configuration, input shape and interleaving *)
Theorem C11x_conserve :
  forall n tin tout ultra st, reach gen_cfg (init_state n tin tout ultra) st -> x_failed st = None ->
    x_work_units st + units_held st = x_num_worker st /\
    x_out_slots st + slots_held st = x_total_out st /\
    x_in_slots st + in_held st = x_total_in st.
Proof. exact C11x_conserve_gen. Qed.

(* queues never exceed the capacities given to pqueue_init/deque_init in init().
   PARTIAL: input_q, retr_q, emit_q, reord_q.  Missing: scan_q (needs "at most one scan job
   per live input block"), unord_q and order_q (need "every element owns a unit or a slot");
   these three are asserted at run time by hook H3 in every replayed run. *)
Theorem C11x_capacity_partial :
  forall n tin tout ultra st, reach gen_cfg (init_state n tin tout ultra) st -> x_failed st = None ->
    let cap f := f (x_total_in st) (x_num_worker st) (x_total_out st) in
    N.of_nat (length (x_input_q st)) <= cap cap_input_q /\
    N.of_nat (length (x_retr_q st)) <= cap cap_retr_q /\
    N.of_nat (length (x_emit_q st)) <= cap cap_emit_q /\
    N.of_nat (length (x_reord_q st)) <= cap cap_reord_q.
Proof. exact C11x_capacity_gen. Qed.

(* when can_terminate() holds, every unit and slot has been given back and the
   pipeline is empty *)
Theorem C11x_final :
  forall n tin tout ultra st, reach gen_cfg (init_state n tin tout ultra) st -> x_failed st = None ->
    can_terminate st = true ->
    x_work_units st = x_num_worker st /\ x_out_slots st = x_total_out st /\
    x_retr_q st = [] /\ x_emit_q st = [] /\ x_running st = [] /\ x_reord_q st = [] /\ x_outq st = 0 /\
    x_parsing_done st = true /\ x_parse_token st = true.
Proof. exact C11x_final_gen. Qed.

(* blocks reach the writer in stream order: what has been handed to the writer is
   always a prefix of the sequential list of output buffers (whatever the scanner did) *)
Theorem C11x_order :
  forall (O : oracle) n tin tout ultra st L R,
    oreach O gen_cfg (init_state n tin tout ultra) st -> SeqDec O 0 0 L R ->
    exists l', L = x_written st ++ l'.
Proof. intros O n tin tout ultra st L R H1 H2. exact (proj1 (C10_speculation_free_gen O n tin tout ultra st L R H1 H2)). Qed.

(* Deadlock freedom.  Safety part: the asserts guarding attach() never fire
   (C10_no_stale_attach), resources are conserved (C11x_conserve).
   C11x_progress (every non-final, non-failed reachable state has an enabled event) and
   termination are NOT proved for the decompressor.  For the source with `pos_eq` in the
   second disjunct of can_emit() progress is REFUTED: notes/XF8Refuted_before_fix.v
   (C11x_progress_refuted, finding F8: a rejected candidate at the minimum of emit_q blocks
   the reserved output slots for ever; reproduced on the binary, repair = pos_le,
   notes/fix_F8_deadlock.diff).  For the repaired guard the missing proof is the case
   analysis "out_slots <= EMIT_THRESH or work_units = 0: the job at or before the head of
   order_q can always proceed" together with the ownership invariant of unord_q/order_q;
   until then liveness is supported only by the watchdog-timed runs of the direct tests. *)
