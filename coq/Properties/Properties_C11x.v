(* C11, decompression part - the scheduler of expand.c is bounded, conserves its
   resources and preserves the stream order.  Only statements.  The theorems are
   about [gen_cfg] and the regenerated capacities / guards; see Properties_C10.v. *)
From Coq Require Import List NArith Bool.
From LBZ Require Import Gen.Consts SchedX.XState Gen.SchedXTab SchedX.XSet SchedX.XModel SchedX.XInvDefs
  SchedX.XCount SchedX.XOracle SchedX.XSeq SchedX.XC10 SchedX.XC11 SchedX.XOwn SchedX.XOwnRefuted SchedX.XC11b
  SchedX.XScanOwn SchedX.XLiveDefs SchedX.XTie SchedX.XTieDrop SchedX.XLiveRun SchedX.XLive SchedX.XLiveTerm.
Import ListNotations.
Local Open Scope N_scope.

(* every worker unit, output slot and input slot is free or held by exactly one queue
   element, running task or buffer on its way to the writer - for every worker count,
   slot configuration, input shape and interleaving *)
Theorem C11x_conserve :
  forall n tin tout ultra st, reach gen_cfg (init_state n tin tout ultra) st -> x_failed st = None ->
    x_work_units st + units_held st = x_num_worker st /\
    x_out_slots st + slots_held st = x_total_out st /\
    x_in_slots st + in_held st = x_total_in st.
Proof. exact C11x_conserve_gen. Qed.

(* queues never exceed the capacities given to pqueue_init/deque_init in init().
   PARTIAL (kept; superseded by C11x_capacity below): input_q, retr_q, emit_q, reord_q. *)
Theorem C11x_capacity_partial :
  forall n tin tout ultra st, reach gen_cfg (init_state n tin tout ultra) st -> x_failed st = None ->
    let cap f := f (x_total_in st) (x_num_worker st) (x_total_out st) in
    N.of_nat (length (x_input_q st)) <= cap cap_input_q /\
    N.of_nat (length (x_retr_q st)) <= cap cap_retr_q /\
    N.of_nat (length (x_emit_q st)) <= cap cap_emit_q /\
    N.of_nat (length (x_reord_q st)) <= cap cap_reord_q.
Proof. exact C11x_capacity_gen. Qed.

(* All seven queues stay within the capacities regenerated from init().
   - scan_q: at most one scan job (queued or running) per live input block (SchedX/XScanOwn.v).
   - unord_q: it grows only where do_scan() records a candidate, and the source tests
     `size(unord_q) >= unord_cap` there (regenerated boolean scan_checks_unord_cap; repair of
     finding F9 - without the test the bound is false, notes/XF9Refuted_before_fix.v:
     the unord block of a speculative job that the master overtakes stays queued, owning nothing).
   - order_q: every head is owned by the master retriever of its block, by an emit-stage job of
     its block or by the block's last buffer in reord_q; heads have distinct bit positions, so
     length order_q <= held work units + length reord_q (SchedX/XOwn.v, XOwnProofs.v).
   [preach]: every POk label of the run lies at least HDR_MIN = 32 bits after the base of the block
   confirmed before it ([x_next]; 0 initially).  A block header is 80 bits (48-bit magic, 32-bit CRC) and
   parse() (parse.c) returns OK only when it has consumed all of it, so every run of the program is such
   a run - and every trace replay checks it (checks/schedx_part.py, harness/schedx_driver.ml).  NOTE: the
   hypothesis is deliberately NOT "the call that returns OK consumed >= 32 bits": when a header straddles
   input blocks parse() returns MORE in between and the last call may consume only a few bits (observed on
   traces with 4..16-byte input blocks); an earlier version of this development assumed that and was
   therefore vacuous on such runs.  The model's parse1 also admits POk labels without any progress, and for
   those the order_q part is false of the model (C11x_order_empty_without_progress_refuted below).  The
   scan_q and unord_q parts need no such hypothesis (C11x_capacity_scan_unord). *)
Theorem C11x_capacity :
  forall n tin tout ultra st, preach gen_cfg (init_state n tin tout ultra) st -> x_failed st = None ->
    let cap f := f (x_total_in st) (x_num_worker st) (x_total_out st) in
    N.of_nat (length (x_input_q st)) <= cap cap_input_q /\
    N.of_nat (length (x_scan_q st)) <= cap cap_scan_q /\
    N.of_nat (length (x_retr_q st)) <= cap cap_retr_q /\
    N.of_nat (length (x_emit_q st)) <= cap cap_emit_q /\
    N.of_nat (length (unord_q st)) <= cap cap_unord_q /\
    N.of_nat (length (x_order_q st)) <= cap cap_order_q /\
    N.of_nat (length (x_reord_q st)) <= cap cap_reord_q.
Proof. exact C11x_capacity_all_gen. Qed.

Theorem C11x_capacity_scan_unord :
  forall n tin tout ultra st, reach gen_cfg (init_state n tin tout ultra) st -> x_failed st = None ->
    N.of_nat (length (x_scan_q st)) <= cap_scan_q (x_total_in st) (x_num_worker st) (x_total_out st) /\
    N.of_nat (length (unord_q st)) <= cap_unord_q (x_total_in st) (x_num_worker st) (x_total_out st).
Proof. exact C11x_capacity_scan_unord_gen. Qed.

(* when can_terminate() holds and nothing failed, every confirmed block has been written:
   order_q is empty (so the run is `completed` in the sense of C10/C09) *)
Theorem C11x_terminate_order_empty :
  forall n tin tout ultra st, preach gen_cfg (init_state n tin tout ultra) st -> x_failed st = None ->
    can_terminate st = true -> x_order_q st = [].
Proof. exact terminate_order_empty_gen. Qed.

(* the head of order_q always has an owner that can make progress towards it: the master
   retriever of its block, an emit-stage job of its block at or after the head's buffer, or the
   block's last buffer in reord_q (the lemma the liveness argument starts from) *)
Theorem C11x_order_head_owned :
  forall n tin tout ultra st h rest,
    preach gen_cfg (init_state n tin tout ultra) st -> x_failed st = None -> x_order_q st = h :: rest ->
    (snd (h_base h) = 0 /\ exists j, In j (all_jobs st) /\ jm (x_unords st) j = true /\ fst (r_base j) = fst (h_base h)) \/
    (exists e, In e (estage st) /\ fst (e_base e) = fst (h_base h) /\ snd (h_base h) <= snd (e_base e)) \/
    (exists o, In o (x_reord_q st) /\ o_status o <> MORE /\ fst (o_base o) = fst (h_base h) /\ snd (h_base h) <= snd (o_base o)).
Proof. exact order_head_owned_gen. Qed.

(* Why [preach]: with a POk label at the position of the block confirmed before (and a retriever that
   ends where it began) the MODEL reaches a non-failed state in which can_terminate() holds and order_q is
   not empty.  This is a permissiveness of the model's label constraints (parse1 checks
   `d_bit parser_bs <= d_bit bs`, not `<`), not a behaviour of the program. *)
Theorem C11x_order_empty_without_progress_refuted :
  exists st, reach gen_cfg (init_state 2 8 32 false) st /\ x_failed st = None /\ can_terminate st = true /\
    x_order_q st <> [].
Proof. exact terminate_order_empty_needs_progress. Qed.

(* when can_terminate() holds, every unit and slot has been given back and the
   pipeline is empty *)
Theorem C11x_final :
  forall n tin tout ultra st, reach gen_cfg (init_state n tin tout ultra) st -> x_failed st = None ->
    can_terminate st = true ->
    x_work_units st = x_num_worker st /\ x_out_slots st = x_total_out st /\
    x_retr_q st = [] /\ x_emit_q st = [] /\ x_running st = [] /\ x_reord_q st = [] /\ x_outq st = 0 /\
    x_parsing_done st = true /\ x_parse_token st = true.
Proof. exact C11x_final_gen. Qed.

(* blocks reach the writer in stream order: what has been handed to the writer is
   always a prefix of the sequential list of output buffers (whatever the scanner did) *)
Theorem C11x_order :
  forall (O : oracle) n tin tout ultra st L R,
    oreach O gen_cfg (init_state n tin tout ultra) st -> SeqDec O 0 0 L R ->
    exists l', L = x_written st ++ l'.
Proof. intros O n tin tout ultra st L R H1 H2. exact (proj1 (C10_speculation_free_gen O n tin tout ultra st L R H1 H2)). Qed.

(* ---- tie-breaking of the priority queues (the binary heap returns SOME minimal element) ------------- *)
(* [sreach]: runs whose POk labels satisfy [ev_prog] (as in preach) and whose scan labels satisfy
   [ev_scan_prog]: a scan() call that reports a magic ends strictly after the position it started from
   (scan() consumes the 48 bits of the magic and 32 more; checked on every replayed trace).
   Along such runs the keys of scan_q, unord_q, emit_q and reord_q are pairwise distinct, so it does not
   matter which minimal element a peek()/dequeue() returns: the model's "first minimal element in list
   order" is THE minimal element.  (For scan_q plain reach suffices: SchedX/XTie.v scan_keys_distinct.) *)
Theorem C11x_queue_keys_distinct :
  forall n tin tout ultra st, 0 < n -> sreach gen_cfg (init_state n tin tout ultra) st -> x_failed st = None ->
    NoDup (map d_pos (x_scan_q st)) /\ NoDup (map u_base (unord_q st)) /\
    NoDup (map e_base (x_emit_q st)) /\ NoDup (map o_base (x_reord_q st)).
Proof. exact C11x_queue_keys_distinct_gen. Qed.

(* retr_q is different: its key is the CURRENT position of a job, and two jobs CAN have equal keys - in
   the model and in the program: e.g. the master retriever of a block and the retriever of a spurious
   candidate inside that block both run to the end of the same input block and wait there with the same
   number of buffered bits. *)
Theorem C11x_retr_keys_can_tie :
  exists st j1 j2, sreach gen_cfg (init_state 3 8 8 false) st /\ x_failed st = None /\
    x_retr_q st = [j1; j2] /\ r_base j1 <> r_base j2 /\ rkey j1 = rkey j2.
Proof. exact retr_keys_tie_witness. Qed.

(* The model is tie-insensitive for retr_q.  do_retrieve(): the model's retr0 takes ANY minimal element
   (the label names it).  can_retrieve(): tied jobs stand at the same word offset, so the guard evaluates
   the same whichever of them peek() returns. *)
Theorem C11x_can_retrieve_tie :
  forall n tin tout ultra st x, reach gen_cfg (init_state n tin tout ultra) st ->
    In x (x_retr_q st) -> is_minimal rkey pos_lt x (x_retr_q st) = true ->
    can_attach st (r_cur x) = can_attach st (r_cur (peek_retr pos_lt st)).
Proof. exact C11x_can_retrieve_tie_gen. Qed.

(* advance(): "while peek(retr_q) lies below head_offs: dequeue, drop" removes exactly the jobs below
   head_offs and keeps exactly the others, for EVERY rule [pick] that returns some minimal element -
   in particular for the binary heap - and hence agrees with the model's loop (same queue left, the same
   jobs dropped up to order). *)
Theorem C11x_advance_any_tiebreak :
  forall n tin tout ultra st (pick : list rjob -> option rjob) hd,
    reach gen_cfg (init_state n tin tout ultra) st ->
    (forall q j, pick q = Some j -> In j q /\ forall y, In y q -> pos_lt (rkey y) (rkey j) = false) ->
    (forall q, q <> [] -> exists j, pick q = Some j) ->
    snd (adv_retr_g pick (length (x_retr_q st)) hd (x_retr_q st)) = snd (adv_retr (length (x_retr_q st)) hd (x_retr_q st)) /\
    Permutation.Permutation (fst (adv_retr_g pick (length (x_retr_q st)) hd (x_retr_q st)))
                            (fst (adv_retr (length (x_retr_q st)) hd (x_retr_q st))).
Proof. exact C11x_advance_any_tiebreak_gen. Qed.

(* ... and so are the unord blocks that the dropped jobs give back (drop_unord_link() of jobs with
   different unord blocks commute) *)
Theorem C11x_advance_unords_any_tiebreak :
  forall n tin tout ultra st (pick : list rjob -> option rjob) hd,
    reach gen_cfg (init_state n tin tout ultra) st ->
    (forall q j, pick q = Some j -> In j q /\ forall y, In y q -> pos_lt (rkey y) (rkey j) = false) ->
    (forall q, q <> [] -> exists j, pick q = Some j) ->
    drop_links (fst (adv_retr_g pick (length (x_retr_q st)) hd (x_retr_q st))) (x_unords st) =
    drop_links (fst (adv_retr (length (x_retr_q st)) hd (x_retr_q st))) (x_unords st).
Proof. exact C11x_advance_unords_any_tiebreak_gen. Qed.

(* ---- deadlock freedom ------------------------------------------------------------------------------- *)
(* Every state of an [sreach] run that has not failed and is not final has an enabled event of the system
   - worker task, reader thread, writer thread - that is not a stutter ([productive]: an input block
   handed over after source_close() does not count, and the end of input counts only when the reader
   thread really is able to move: it has an input slot or request_close is set; source_thread_proc()).
   First part: if no worker is inside an unlocked computation (x_running = []) the enabled event is a
   FIRST segment - a task that is ready -, an output slot returned by the writer, or the reader.
   Second part: a worker inside parse()/retrieve()/decode()/emit()/scan() can always complete its second
   locked segment (SchedX/XLiveRun.v), so some productive event is enabled in every such state.
   Hypotheses on the configuration: at least one worker and one input slot, and more than EMIT_THRESH
   output slots (every configuration of set_memory_constraints() except `-n1` with --small, which has
   2 = EMIT_THRESH output slots: there the first disjunct of can_emit() is never true and the proof would
   need "no speculation with one worker"; C11x_progress_dec below).
   The deadlock of the source with `pos_eq` in can_emit(): notes/XF8Refuted_before_fix.v (finding F8). *)
Theorem C11x_progress :
  forall n tin tout ultra st, 1 <= n -> 1 <= tin -> EMIT_THRESH < tout ->
    sreach gen_cfg (init_state n tin tout ultra) st -> x_failed st = None -> final st = false ->
    (x_running st = [] ->
     exists e st', step gen_cfg st e = Some st' /\ productive st e = true /\
       match e with EvParse1 _ _ | EvRetr1 _ _ _ _ | EvRetr2 _ | EvEmit1 _ _ _ _ _ | EvScan1 _ _ _ _ _ => False | _ => True end) /\
    exists e st', step gen_cfg st e = Some st' /\ productive st e = true.
Proof. exact C11x_progress_gen. Qed.

(* the configurations of `lbzip2 -d`: all but one worker with --small *)
Theorem C11x_progress_dec :
  forall n small ultra st, 1 <= n -> (small = true -> 2 <= n) ->
    sreach gen_cfg (init_dec n small ultra) st -> x_failed st = None -> final st = false ->
    exists e st', step gen_cfg st e = Some st' /\ productive st e = true.
Proof. exact C11x_progress_dec_gen. Qed.

(* the invariants behind it, for use elsewhere: all of inv / own / cnt / lin / ltk / lld / llm / lrs / lrd
   hold along the run (SchedX/XLive.v livep) *)
Theorem C11x_live_invariants :
  forall n tin tout ultra st, 0 < n -> sreach gen_cfg (init_state n tin tout ultra) st -> livep st.
Proof. exact C11x_live_invariants_gen. Qed.

(* non-vacuity: a run that satisfies the label hypotheses, with a spurious candidate, two retrievers
   waiting for input - not failed, not final *)
Example C11x_progress_example :
  exists st, sreach gen_cfg (init_state 3 8 8 false) st /\ x_failed st = None /\ final st = false /\ x_running st = [].
Proof. exact C11x_progress_example_gen. Qed.

(* ---- termination ---------------------------------------------------------------------------------------- *)
(* [treach T K]: runs of an input of at most T words whose labels satisfy, besides ev_prog and ev_scan_prog,
   [ev_term T K]: EvInput keeps tail_offs <= T; a parser call that returns MORE has consumed at least one
   bit (parse() reads 16 bits at a time and returns MORE only when it has used up what it had; checked on
   every replayed trace); emit() of one block returns MORE at most K times.  (The model's labels are unconstrained: without these a parser
   that returns MORE at the end of the input for ever, or an emit() that returns MORE for ever, is a run.)
   Every event that is not a stutter strictly decreases the measure - failed flag, input left, blocks left to
   confirm, scanning left, retrieving left, parser position, emitting left, buffers, scheduling noise - in the
   well-founded lexicographic order mlt (SchedX/XLiveTerm.v).  With C11x_progress: every maximal run is finite
   up to stuttering and ends in a final or a failed state. *)
Theorem C11x_terminates :
  forall T K n tin tout ultra st e st',
    0 < n -> treach T K gen_cfg (init_state n tin tout ultra) st ->
    ev_prog st e -> ev_scan_prog e -> ev_term T K st e -> step gen_cfg st e = Some st' -> productive st e = true ->
    mlt (measure T K st') (measure T K st).
Proof. exact C11x_terminates_gen. Qed.

Theorem C11x_measure_well_founded : well_founded mlt.
Proof. exact mlt_wf. Qed.

(* non-vacuity: a complete run (two input blocks, a block whose retrieval waits for input and whose output
   takes two buffers, a spurious candidate that is overtaken, a parser call that returns MORE, end of input)
   that satisfies every label hypothesis and ends in a final state *)
Example C11x_terminates_example :
  exists st, treach 6 1 gen_cfg (init_state 3 8 8 false) st /\ x_failed st = None /\ final st = true.
Proof. exact term_example. Qed.
