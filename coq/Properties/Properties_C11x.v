(* C11, decompression part - the scheduler of expand.c is bounded, conserves its
   resources and preserves the stream order.  Only statements.  The theorems are
   about [gen_cfg] and the regenerated capacities / guards; see Properties_C10.v. *)
From Coq Require Import List NArith Bool.
From LBZ Require Import Gen.Consts SchedX.XState Gen.SchedXTab SchedX.XSet SchedX.XModel SchedX.XInvDefs
  SchedX.XCount SchedX.XOracle SchedX.XSeq SchedX.XC10 SchedX.XC11 SchedX.XOwn SchedX.XOwnRefuted SchedX.XC11b.
Import ListNotations.
Local Open Scope N_scope.

(* every worker unit, output slot and input slot is free or held by exactly one queue
   element, running task or buffer on its way to the writer - for every worker count,
   slot configuration, input shape and interleaving *)
Theorem C11x_conserve :
  forall n tin tout ultra st, reach gen_cfg (init_state n tin tout ultra) st -> x_failed st = None ->
    x_work_units st + units_held st = x_num_worker st /\
    x_out_slots st + slots_held st = x_total_out st /\
    x_in_slots st + in_held st = x_total_in st.
Proof. exact C11x_conserve_gen. Qed.

(* queues never exceed the capacities given to pqueue_init/deque_init in init().
   PARTIAL (kept; superseded by C11x_capacity below): input_q, retr_q, emit_q, reord_q. *)
Theorem C11x_capacity_partial :
  forall n tin tout ultra st, reach gen_cfg (init_state n tin tout ultra) st -> x_failed st = None ->
    let cap f := f (x_total_in st) (x_num_worker st) (x_total_out st) in
    N.of_nat (length (x_input_q st)) <= cap cap_input_q /\
    N.of_nat (length (x_retr_q st)) <= cap cap_retr_q /\
    N.of_nat (length (x_emit_q st)) <= cap cap_emit_q /\
    N.of_nat (length (x_reord_q st)) <= cap cap_reord_q.
Proof. exact C11x_capacity_gen. Qed.

(* All seven queues stay within the capacities regenerated from init().
   - scan_q: at most one scan job (queued or running) per live input block (SchedX/XScanOwn.v).
   - unord_q: it grows only where do_scan() records a candidate, and the source tests
     `size(unord_q) >= unord_cap` there (regenerated boolean scan_checks_unord_cap; repair of
     finding F9 - without the test the bound is false, notes/XF9Refuted_before_fix.v:
     the unord block of a speculative job that the master overtakes stays queued, owning nothing).
   - order_q: every head is owned by the master retriever of its block, by an emit-stage job of
     its block or by the block's last buffer in reord_q; heads have distinct bit positions, so
     length order_q <= held work units + length reord_q (SchedX/XOwn.v, XOwnProofs.v).
   [preach]: every POk label of the run advances the parser's bit position by at least
   HDR_MIN = 32 bits.  parse() (parse.c) returns OK only after it has consumed the 48-bit block
   magic and the 32-bit block CRC in the same call, so every run of the program is such a run;
   the model's parse1 also admits POk labels without progress, and for those the order_q part
   is false of the model (C11x_order_empty_without_progress_refuted below).  The scan_q and
   unord_q parts need no such hypothesis (C11x_capacity_scan_unord). *)
Theorem C11x_capacity :
  forall n tin tout ultra st, preach gen_cfg (init_state n tin tout ultra) st -> x_failed st = None ->
    let cap f := f (x_total_in st) (x_num_worker st) (x_total_out st) in
    N.of_nat (length (x_input_q st)) <= cap cap_input_q /\
    N.of_nat (length (x_scan_q st)) <= cap cap_scan_q /\
    N.of_nat (length (x_retr_q st)) <= cap cap_retr_q /\
    N.of_nat (length (x_emit_q st)) <= cap cap_emit_q /\
    N.of_nat (length (unord_q st)) <= cap cap_unord_q /\
    N.of_nat (length (x_order_q st)) <= cap cap_order_q /\
    N.of_nat (length (x_reord_q st)) <= cap cap_reord_q.
Proof. exact C11x_capacity_all_gen. Qed.

Theorem C11x_capacity_scan_unord :
  forall n tin tout ultra st, reach gen_cfg (init_state n tin tout ultra) st -> x_failed st = None ->
    N.of_nat (length (x_scan_q st)) <= cap_scan_q (x_total_in st) (x_num_worker st) (x_total_out st) /\
    N.of_nat (length (unord_q st)) <= cap_unord_q (x_total_in st) (x_num_worker st) (x_total_out st).
Proof. exact C11x_capacity_scan_unord_gen. Qed.

(* when can_terminate() holds and nothing failed, every confirmed block has been written:
   order_q is empty (so the run is `completed` in the sense of C10/C09) *)
Theorem C11x_terminate_order_empty :
  forall n tin tout ultra st, preach gen_cfg (init_state n tin tout ultra) st -> x_failed st = None ->
    can_terminate st = true -> x_order_q st = [].
Proof. exact terminate_order_empty_gen. Qed.

(* the head of order_q always has an owner that can make progress towards it: the master
   retriever of its block, an emit-stage job of its block at or after the head's buffer, or the
   block's last buffer in reord_q (the lemma the liveness argument starts from) *)
Theorem C11x_order_head_owned :
  forall n tin tout ultra st h rest,
    preach gen_cfg (init_state n tin tout ultra) st -> x_failed st = None -> x_order_q st = h :: rest ->
    (snd (h_base h) = 0 /\ exists j, In j (all_jobs st) /\ jm (x_unords st) j = true /\ fst (r_base j) = fst (h_base h)) \/
    (exists e, In e (estage st) /\ fst (e_base e) = fst (h_base h) /\ snd (h_base h) <= snd (e_base e)) \/
    (exists o, In o (x_reord_q st) /\ o_status o <> MORE /\ fst (o_base o) = fst (h_base h) /\ snd (h_base h) <= snd (o_base o)).
Proof. exact order_head_owned_gen. Qed.

(* Why [preach]: with a POk label that consumes no bits (and a retriever that ends where it
   began) the MODEL reaches a non-failed state in which can_terminate() holds and order_q is not
   empty.  This is a permissiveness of the model's label constraints (parse1 checks
   `d_bit parser_bs <= d_bit bs`, not `<`), not a behaviour of the program. *)
Theorem C11x_order_empty_without_progress_refuted :
  exists st, reach gen_cfg (init_state 2 8 32 false) st /\ x_failed st = None /\ can_terminate st = true /\
    x_order_q st <> [].
Proof. exact terminate_order_empty_needs_progress. Qed.

(* when can_terminate() holds, every unit and slot has been given back and the
   pipeline is empty *)
Theorem C11x_final :
  forall n tin tout ultra st, reach gen_cfg (init_state n tin tout ultra) st -> x_failed st = None ->
    can_terminate st = true ->
    x_work_units st = x_num_worker st /\ x_out_slots st = x_total_out st /\
    x_retr_q st = [] /\ x_emit_q st = [] /\ x_running st = [] /\ x_reord_q st = [] /\ x_outq st = 0 /\
    x_parsing_done st = true /\ x_parse_token st = true.
Proof. exact C11x_final_gen. Qed.

(* blocks reach the writer in stream order: what has been handed to the writer is
   always a prefix of the sequential list of output buffers (whatever the scanner did) *)
Theorem C11x_order :
  forall (O : oracle) n tin tout ultra st L R,
    oreach O gen_cfg (init_state n tin tout ultra) st -> SeqDec O 0 0 L R ->
    exists l', L = x_written st ++ l'.
Proof. intros O n tin tout ultra st L R H1 H2. exact (proj1 (C10_speculation_free_gen O n tin tout ultra st L R H1 H2)). Qed.

(* Deadlock freedom.  Safety part: the asserts guarding attach() never fire
   (C10_no_stale_attach), resources are conserved (C11x_conserve).
   C11x_progress (every non-final, non-failed reachable state has an enabled event) and
   termination are NOT proved for the decompressor.  For the source with `pos_eq` in the
   second disjunct of can_emit() progress is REFUTED: notes/XF8Refuted_before_fix.v
   (C11x_progress_refuted, finding F8: a rejected candidate at the minimum of emit_q blocks
   the reserved output slots for ever; reproduced on the binary, repair = pos_le,
   notes/fix_F8_deadlock.diff).  For the repaired guard the missing proof is the case
   analysis "out_slots <= EMIT_THRESH or work_units = 0: the job at or before the head of
   order_q can always proceed" together with the ownership invariant of unord_q/order_q;
   until then liveness is supported only by the watchdog-timed runs of the direct tests.
   The ownership invariant is now available: C11x_order_head_owned, and SchedX/XOwnProofs.v
   (more_buffer_followed: a buffer with status MORE in reord_q is followed by its block's emit
   job or last buffer). *)
