(* C20 - "In every block lbzip2 writes, each prefix table used by at least one group gives the smallest
   possible total coded length for the symbols coded with it, among all complete prefix codes no longer
   than that table's longest code.  No code is longer than 20 bits."

   Theorems about the executable model Enc/PmModel.v of sort_alphabet() / package_merge() / assign_codes()
   of src/encode.c (tied to the C by checks/pm_part.py: real functions vs extracted model on leaf_weight[],
   the whole tree[21][21], length[] and the returned cost).

   Input condition [pm_input_ok f]: 2 <= as <= MAX_ALPHA_SIZE, every frequency < 2^32 and
   MAX_ALPHA_SIZE * sum f < 2^32.  lbzip2 only calls assign_codes with sum f <= number of MTF symbols of a
   block (<= 900001 + a few), far below 2^32 / 258 = 16 647 160.  The bound cannot be dropped to
   "sum f < 2^32": see C20pm_sum_below_2p32_refuted (the 32-bit frequency field of a package weight wraps;
   the real assign_codes then fails its assert(leaf < as)).

   What the theorems do NOT cover: (1) that the vector frequency[t] which generate_prefix_code() hands to
   assign_codes() for a used table t is the vector of counts of the symbols in the groups whose selector is t
   (last E step; every used table is produced by that assign_codes call, make_code_lengths() only serves the
   EM iterations) - this is the witness/correspondence part of checks/c20.py; (2) the canonical code
   assignment code[] (modelled in Enc/EncModel.v, decodability in Properties_C20.v). *)
From Coq Require Import List NArith Arith Bool Lia.
From LBZ Require Import Gen.Consts Dec.Format Enc.EncModel Enc.PmModel Enc.PmReal Enc.PmProofs Enc.PmOptimal.
Import ListNotations.
Local Open Scope N_scope.

(* L1 + L2: the model never returns an error value (no out-of-bounds access to leaf_weight[0..as],
   tree[0..20][0..20], pkg/prev/curr_weight[0..20], count[], length[0..as-1]; no unsigned wrap in
   as - tree[d][0], tree[h][d-1] - tree[h][d], MAX_ALPHA_SIZE - (w & 0xFFFF); both assert()s hold; the
   binary fuel 2^22 per value of width suffices) and the lengths form a complete prefix code with all
   lengths in 1 .. chosen height <= 20. *)
Theorem C20pm_safe_and_complete :
  forall f, pm_input_ok f ->
    exists r, pm_lengths_res f = Ok r /\
      table_ok (length f) (r_lengths r) = true /\
      (1 <= r_height r)%nat /\ (r_height r <= 20)%nat /\
      Forall (fun l => 1 <= l <= N.of_nat (r_height r)) (r_lengths r).
Proof. exact pm_lengths_complete. Qed.

(* L3, the C20 theorem for the model: the computed table is a complete prefix code of depth <= 20 and no
   length vector of the same size with lengths between 1 and the table's longest code and Kraft sum <= 1
   (in particular no complete prefix code) has a smaller total coded length sum f_i * len_i. *)
Theorem C20pm_optimal :
  forall f, pm_input_ok f ->
    exists lens, pm_lengths f = Some lens /\
      table_ok (length f) lens = true /\
      forall lens', length lens' = length f ->
        Forall (fun l => 1 <= l <= max_len lens) lens' ->
        kraft lens' <= kraft_full ->
        pm_cost f lens <= pm_cost f lens'.
Proof. exact pm_lengths_correct. Qed.

(* the same whatever length[0..as-1] contains on entry (the only state the model abstracts) *)
Theorem C20pm_optimal_any_initial_lengths :
  forall f len0, pm_input_ok f -> length len0 = length f ->
    exists r, assign_lengths len0 f = Ok r /\
      table_ok (length f) (r_lengths r) = true /\
      forall lens', length lens' = length f ->
        Forall (fun l => 1 <= l <= max_len (r_lengths r)) lens' ->
        kraft lens' <= kraft_full ->
        pm_cost f (r_lengths r) <= pm_cost f lens'.
Proof. exact assign_lengths_correct. Qed.

(* the explicit stack count[] of package_merge: MAX_CODE_LENGTH + 1 = 21 entries are enough (the loop run
   on a bounds-checked 21-entry array succeeds), i.e. next_depth stays <= 20 *)
Theorem C20pm_stack_depth :
  forall f c, pm_input_ok f -> length c = S MCL ->
    exists s0 s' c', pm_init (make_leaf_weight f) (length f) zero_tree = Ok s0 /\
      pm_widths (length f - 2) (make_leaf_weight f) (N.of_nat (length f)) (set_cnt s0 c) = Ok (set_cnt s' c') /\
      length c' = S MCL.
Proof. exact pm_stack_bound. Qed.

(* "sum f < 2^32" alone is not enough *)
Theorem C20pm_sum_below_2p32_refuted :
  exists f, (2 <= length f)%nat /\ (length f <= N.to_nat MAX_ALPHA_SIZE)%nat /\
            Forall (fun x => x < 2 ^ 32) f /\ lsum f < 2 ^ 32 /\ pm_lengths f = None.
Proof. exact pm_sum_limit_needed. Qed.

(* ---- the hypotheses are satisfiable on non-trivial vectors ------------------------------------------------- *)
(* 1, 2, 4, ..., 2^22: the unrestricted Huffman code would be 22 bits deep, the 20-bit limit binds *)
Definition pow2_23 : list N :=
  [1; 2; 4; 8; 16; 32; 64; 128; 256; 512; 1024; 2048; 4096; 8192; 16384; 32768; 65536; 131072; 262144; 524288;
   1048576; 2097152; 4194304].

Example C20pm_example_limit_binds :
  pm_input_ok pow2_23 /\
  pm_lengths pow2_23 = Some [20; 20; 20; 20; 19; 19; 17; 16; 15; 14; 13; 12; 11; 10; 9; 8; 7; 6; 5; 4; 3; 2; 1] /\
  max_len [20; 20; 20; 20; 19; 19; 17; 16; 15; 14; 13; 12; 11; 10; 9; 8; 7; 6; 5; 4; 3; 2; 1] = 20.
Proof.
  split; [|split; vm_compute; reflexivity].
  unfold pm_input_ok. split; [cbn; lia|]. split; [vm_compute; lia|]. split; [|vm_compute; reflexivity].
  repeat constructor; vm_compute; reflexivity.
Qed.

(* zero frequencies and ties; a competitor of the same depth that is complete but more expensive *)
Example C20pm_example_small :
  pm_input_ok [5; 0; 0; 9; 1; 1; 7] /\
  pm_lengths [5; 0; 0; 9; 1; 1; 7] = Some [3; 3; 3; 2; 3; 3; 3] /\
  kraft [3; 3; 3; 3; 2; 3; 3] = kraft_full /\
  pm_cost [5; 0; 0; 9; 1; 1; 7] [3; 3; 3; 2; 3; 3; 3] = 60 /\
  pm_cost [5; 0; 0; 9; 1; 1; 7] [3; 3; 3; 3; 2; 3; 3] = 68.
Proof.
  split; [|repeat split; vm_compute; reflexivity].
  unfold pm_input_ok. split; [cbn; lia|]. split; [vm_compute; lia|]. split; [|vm_compute; reflexivity].
  repeat constructor; vm_compute; reflexivity.
Qed.

Example C20pm_example_stack : length (repeat 0 (S MCL)) = S MCL /\ S MCL = 21%nat.
Proof. split; reflexivity. Qed.
