(* C13, decompression part - live heap bounded by a linear function of the worker count. *)
From Coq Require Import List NArith Bool.
From LBZ Require Import Gen.Consts SchedX.XState Gen.SchedXTab SchedX.XSet SchedX.XModel SchedX.XInvDefs
  SchedX.XCount SchedX.XC11.
Import ListNotations.
Local Open Scope N_scope.

(* The number of large buffers alive (input blocks of in_granul bytes, decoder states of
   4*900000 bytes + tables - at most one per held work unit -, output buffers of
   out_granul bytes) never exceeds total_in + n + total_out, for every input, whatever
   its length or expansion ratio.
   PARTIAL: the 56-byte unord_blk records are not covered: on the source without the
   F3 repair they leak (one per dropped speculative job); with it their number is bounded
   by the capacity of unord_q plus the number of running retrievers, which is not proved. *)
Theorem C13x_buffers_partial :
  forall n small ultra st, reach gen_cfg (init_dec n small ultra) st -> x_failed st = None ->
    big_buffers st <= dec_total_in small n + n + dec_total_out small n.
Proof. exact C13x_buffers_gen. Qed.

Theorem C13x_linear :
  forall small, exists a b, forall n, dec_total_in small n + n + dec_total_out small n = a * n + b.
Proof. exact C13x_linear_gen. Qed.
