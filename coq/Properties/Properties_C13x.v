(* C13, decompression part - live heap bounded by a linear function of the worker count. *)
From Coq Require Import List NArith Bool.
From LBZ Require Import Gen.Consts SchedX.XState Gen.SchedXTab SchedX.XSet SchedX.XModel SchedX.XInvDefs
  SchedX.XCount SchedX.XC11 SchedX.XOwn SchedX.XC11b.
Import ListNotations.
Local Open Scope N_scope.

(* The number of large buffers alive (input blocks of in_granul bytes, decoder states of
   4*900000 bytes + tables - at most one per held work unit -, output buffers of
   out_granul bytes) never exceeds total_in + n + total_out, for every input, whatever
   its length or expansion ratio.
   PARTIAL (kept): the 56-byte unord_blk records are not counted here; they are covered by
   C13x_unord_records below. *)
Theorem C13x_buffers_partial :
  forall n small ultra st, reach gen_cfg (init_dec n small ultra) st -> x_failed st = None ->
    big_buffers st <= dec_total_in small n + n + dec_total_out small n.
Proof. exact C13x_buffers_gen. Qed.

Theorem C13x_linear :
  forall small, exists a b, forall n, dec_total_in small n + n + dec_total_out small n = a * n + b.
Proof. exact C13x_linear_gen. Qed.

(* The unord_blk records (56 bytes each).  A record is either in unord_q - at most the capacity
   unord_q was allocated with, because do_scan() tests `size(unord_q) >= unord_cap` before it
   records a candidate (repair of finding F9) - or it is referenced by its own retrieve job, which
   holds a work unit (every path that drops a job gives the record back: repair of finding F3).
   So at most cap_unord_q + n records are alive, for every input.  On the source without the
   capacity test the number is not bounded by any function of n: notes/XF9Refuted_before_fix.v
   (C13x_unord_count_refuted, 100 records with 2 workers).
   [preach]: every POk label lies at least 32 bits after the base of the block confirmed before it,
   which holds of parse() (see Properties_C11x.C11x_capacity). *)
Theorem C13x_unord_records :
  forall n small ultra st, preach gen_cfg (init_dec n small ultra) st -> x_failed st = None ->
    N.of_nat (length (x_unords st)) <= cap_unord_q (dec_total_in small n) n (dec_total_out small n) + n.
Proof. exact C13x_unord_records_gen. Qed.

Theorem C13x_unord_records_linear :
  forall small, exists a b, forall n, 1 <= n ->
    cap_unord_q (dec_total_in small n) n (dec_total_out small n) + n = a * n - b.
Proof. exact C13x_unord_linear_gen. Qed.
