(* C17 - File operands follow the documented naming and safety rules.
   Only statements; every proof is [exact <lemma>].
   [run codec cfg fs operands plan] is the operand loop of main() over the abstract
   file system (Front/MainLoop.v); the suffix table, permission masks, exit codes and
   stat fields it uses are regenerated from src/main.c (Gen/FrontTab.v).  [codec] is
   any function (how work() transforms content); the theorems hold for all of them. *)
From Coq Require Import List NArith Arith Bool String Ascii Lia.
From LBZ Require Import Gen.FrontTab Front.FsModel Front.MainLoop Front.FrontSpec Front.FrontLemmas
     Front.FrontNoFault Front.FrontProofs Front.FrontSafety.
Import ListNotations.
Local Open Scope N_scope.

(* Bridge: without injected faults the loop is the fold of the per-operand effect
   function [op_effect]; the theorems below are about op_effect. *)
Theorem C17_run_is_fold :
  forall codec cf f ops, run codec cf f ops [] = run_effect codec cf ops f false.
Proof. exact run_is_fold. Qed.

(* Without -f no existing file that is not an operand is modified or removed -- under
   EVERY fault/signal plan (output creation is exclusive and nothing else is unlinked). *)
Theorem C17_no_clobber :
  forall codec cf f0 ops pl p d,
    c_force cf = false ->
    nlook f0 p = Some d -> ~ In p ops ->
    let f := fst (run codec cf f0 ops pl) in
    nlook f p = Some d /\ (forall i, d = DLink i -> ilook f i = ilook f0 i).
Proof. exact no_clobber. Qed.

(* Admission (output to files, no -f): an operand that is not a regular file, or has
   more than one link without -k, or cannot be lstat()ed, is skipped with a warning and
   nothing changes. *)
Theorem C17_admission :
  forall codec cf op f,
    c_outmode cf = OmRegf -> c_force cf = false ->
    ~ (exists st, sys_lstat f op = SOk st /\ st_kind st = SReg /\ (c_keep cf = true \/ st_nlink st <= 1)) ->
    exists t, op_effect codec cf op f = {| e_fs := f; e_warn := true; e_end := ENext (DSkipped t) |}.
Proof. exact admission. Qed.

(* When compressing, a name with a compressed suffix is always skipped with a warning (also with -f). *)
Theorem C17_compressed_suffix :
  forall codec cf op f,
    c_decompress cf = false ->
    (ends_with op ".bz2" || ends_with op ".tbz" || ends_with op ".tbz2" || ends_with op ".tz2") = true ->
    exists t, op_effect codec cf op f = {| e_fs := f; e_warn := true; e_end := ENext (DSkipped t) |}.
Proof. exact suffix_skip_doc. Qed.

(* Naming. *)
Theorem C17_naming_compress : forall s, out_name false s = Some (s ++ ".bz2")%string.
Proof. exact out_name_compress. Qed.
Theorem C17_naming_bz2 : forall x, out_name true (x ++ ".bz2") = Some x.
Proof. exact out_name_bz2. Qed.
Theorem C17_naming_tbz2 : forall x, out_name true (x ++ ".tbz2") = Some (x ++ ".tar")%string.
Proof. exact out_name_tbz2. Qed.
Theorem C17_naming_tbz : forall x, out_name true (x ++ ".tbz") = Some (x ++ ".tar")%string.
Proof. exact out_name_tbz. Qed.
Theorem C17_naming_tz2 : forall x, out_name true (x ++ ".tz2") = Some (x ++ ".tar")%string.
Proof. exact out_name_tz2. Qed.
Theorem C17_naming_other :
  forall s, (ends_with s ".bz2" || ends_with s ".tbz" || ends_with s ".tbz2" || ends_with s ".tz2") = false ->
            out_name true s = Some (s ++ ".out")%string.
Proof. exact out_name_other. Qed.
Theorem C17_output_name_differs : forall dec s q, out_name dec s = Some q -> q <> s.
Proof. exact out_name_neq. Qed.

(* A processed operand (output to files): the output is a regular file under the name
   given by the rules, holds everything work() wrote, was closed successfully, carries the
   input's permission bits (mode & 0777), owner and access/modification times; no other
   inode changed and no other name changed. *)
Theorem C17_metadata :
  forall codec cf op f,
    c_outmode cf = OmRegf -> e_end (op_effect codec cf op f) = ENext DDone ->
    let f' := e_fs (op_effect codec cf op f) in
    exists iin st ndin q iout nd,
      sys_open_rd f op = SOk iin /\ sys_fstat f iin = SOk st /\ ilook f iin = Some ndin /\
      out_name (c_decompress cf) op = Some q /\
      nlook f' q = Some (DLink iout) /\ ilook f iout = None /\ ilook f' iout = Some nd /\
      i_kind nd = KReg /\ i_committed nd = true /\
      expected_output codec cf (i_data ndin) = Some (i_data nd) /\
      i_mode nd = N.land (st_mode st) 511 /\
      i_atime nd = st_atime st /\ i_mtime nd = st_mtime st /\
      i_uid nd = st_uid st /\ i_gid nd = st_gid st /\
      (forall j, j <> iout -> ilook f' j = ilook f j) /\
      (forall p, p <> q -> p <> op -> nlook f' p = nlook f p) /\
      (c_force cf = false -> nlook f q = None) /\
      e_warn (op_effect codec cf op f) = negb (N.land (st_mode st) 3584 =? 0).
Proof. exact metadata. Qed.

(* The input is removed unless -k, -c or -t is given. *)
Theorem C17_removal :
  forall codec cf op f,
    e_end (op_effect codec cf op f) = ENext DDone ->
    let f' := e_fs (op_effect codec cf op f) in
    match c_outmode cf with
    | OmRegf => nlook f' op = if c_keep cf then nlook f op else None
    | _ => f_names f' = f_names f /\ f_inodes f' = f_inodes f
    end.
Proof. exact removal. Qed.

(* Exit status: absent a fatal error it is 4 iff some operand warned, else 0. *)
Theorem C17_exit :
  forall codec cf ops f,
    Forall completes (trace codec cf ops f) ->
    snd (run codec cf f ops []) = Exit (if existsb e_warn (trace codec cf ops f) then 4 else 0).
Proof. exact exit_status_run. Qed.

(* ---- corner names pinned against the regenerated table ------------------------------ *)
Example C17_name_dot_bz2 : out_name true ".bz2" = Some ""%string /\ is_compressed_name ".bz2" = true.
Proof. split; reflexivity. Qed.
Example C17_name_a_tbz2 : out_name true "a.tbz2" = Some "a.tar"%string.
Proof. reflexivity. Qed.
Example C17_name_x_tz2_bz2 : out_name true "x.tz2.bz2" = Some "x.tz2"%string.
Proof. reflexivity. Qed.
Example C17_name_short :
  out_name true "z2" = Some "z2.out"%string /\ out_name true "bz2" = Some "bz2.out"%string /\
  out_name true "" = Some ".out"%string /\ is_compressed_name "bz2" = false /\ is_compressed_name "tbz" = false.
Proof. repeat split. Qed.
Example C17_name_case : out_name true "A.BZ2" = Some "A.BZ2.out"%string /\ is_compressed_name "A.BZ2" = false.
Proof. split; reflexivity. Qed.

(* ---- non-vacuity: a concrete file system on which an operand is processed ------------ *)
Definition ex_codec (m : cmode) (d : bytes) : cres :=
  {| c_io := [IoWrite [66; 90; 104; 57]; IoRead; IoRead; IoWrite (rev d)]; c_ok := true |}.
Definition ex_cfg : cfg :=
  {| c_decompress := false; c_force := false; c_keep := false; c_outmode := OmRegf; c_uid := 0; c_gid := 0; c_now := 99 |}.
Definition ex_fs : fs :=
  {| f_names := [("a"%string, DLink 1); ("b.bz2"%string, DLink 2); ("l"%string, DSym "a"%string); ("a2"%string, DLink 3); ("a2.lnk"%string, DLink 3)];
     f_inodes := [(1, {| i_kind := KReg; i_mode := 2532 (* 04744 *); i_uid := 7; i_gid := 8; i_atime := 10; i_mtime := 20;
                        i_data := [1; 2; 3]; i_committed := true |});
                  (2, {| i_kind := KReg; i_mode := 420; i_uid := 0; i_gid := 0; i_atime := 1; i_mtime := 2;
                        i_data := [5]; i_committed := true |});
                  (3, {| i_kind := KReg; i_mode := 420; i_uid := 0; i_gid := 0; i_atime := 1; i_mtime := 2;
                        i_data := [6]; i_committed := true |})];
     f_stdout := [] |}.

Example C17_example_run :
  let '(f', o) := run ex_codec ex_cfg ex_fs ["a"; "b.bz2"; "l"; "a2"; "nope"]%string [] in
  o = Exit 4 /\
  nlook f' "a"%string = None /\ nlook f' "b.bz2"%string = Some (DLink 2) /\ nlook f' "l"%string = Some (DSym "a"%string) /\
  nlook f' "a2"%string = Some (DLink 3) /\
  exists j nd, nlook f' "a.bz2"%string = Some (DLink j) /\ ilook f' j = Some nd /\
               i_data nd = [66; 90; 104; 57; 3; 2; 1] /\ i_mode nd = 484 (* 0744 *) /\
               i_uid nd = 7 /\ i_gid nd = 8 /\ i_atime nd = 10 /\ i_mtime nd = 20 /\ i_committed nd = true.
Proof. vm_compute. repeat split; try reflexivity. eexists; eexists; repeat split; reflexivity. Qed.
