(* C13 - Peak memory is bounded by the worker count (compression scheduler).
   [mem s]: sum of the sizes of all heap objects that compress.c / process.c hold in
   model state s (input chunk buffers of in_granul bytes, struct in_blk, struct
   work_blk, encoders of encoder_alloc_size(bs100k*100000) bytes, output buffers,
   queue roots); sizes and slot formulas are regenerated from /repo/src.
   PARTIAL by design: resident set size also contains thread stacks, allocator
   slack, libc buffers and the binary - none is modelled; the bound OB on one
   output buffer is a hypothesis (a codec property); the decompression scheduler
   is the SchedX area.  Only statements; proofs are [exact]. *)
From Coq Require Import List NArith Arith Bool Lia.
From LBZ Require Import SchedC.SchedCIface Gen.SchedCTab SchedC.Pool SchedC.SchedC SchedC.SchedCInv SchedC.SchedCMemDef SchedC.SchedCMem.
Import ListNotations.
Local Open Scope N_scope.

(* for every worker count, mode, level, input (any length, any content, any
   splitting into blocks) and interleaving: live heap <= B n level *)
Theorem C13_bound_partial :
  forall (Data Enc : Type) (data_len : Data -> N) (enc_empty : Enc) (collect : Enc -> Data -> Enc * Data * bool)
         (buf_size : Enc -> N) (OB : N),
    (forall e, buf_size e <= OB) ->
    forall n u level inp s, reachable data_len enc_empty collect n u level inp s ->
      @mem Data Enc buf_size s <= B OB n level.
Proof. exact c13_bound. Qed.

(* B is a fixed linear function of the number of workers; nothing in it mentions
   the input *)
Theorem C13_B_linear : forall (OB level : N), exists a b, forall n : nat, B OB n level = a * N.of_nat n + b.
Proof. exact B_linear. Qed.

(* non-vacuity: the bound for the default level and 4 workers, with a 1 MB bound
   on an output buffer, is about 36 MB *)
Example C13_example_value : B 1000000 4 9 = 36256500.
Proof. vm_compute. reflexivity. Qed.

(* The hypothesis OB of C13_bound_partial can be discharged for the buffers the compressor really
   allocates: do_transmit() allocates (size + 3) / 4 words where size is the value returned by encode(),
   i.e. out_expect_len; for the model of encode() (Enc/EncodeModel.v, tied to the C byte for byte) that
   value is below 2^25 for EVERY block, input and cluster factor - a fixed number that mentions neither
   the input length nor the ratio (the real maximum is about 1.1 MB; the theorem only needs a constant). *)
From LBZ Require Enc.EncModel Enc.EncodeModel Enc.EncodeProofs.

Theorem C13_output_buffer_bounded :
  forall cf blk idx crc, (1 <= cf)%N -> EncodeProofs.block_ok blk ->
    exists r, EncodeModel.encode_block_full cf blk idx crc = EncodeModel.EOk r /\ (EncodeModel.e_expect_len r < 2 ^ 25)%N.
Proof.
  intros cf blk idx crc Hcf Hb.
  destruct (EncodeProofs.encode_block_full_ok cf blk idx crc Hcf Hb) as [r [E F]].
  exists r. split; [exact E|].
  pose proof (EncodeProofs.ef_aligned _ _ _ _ _ F) as A. pose proof (EncodeProofs.ef_small _ _ _ _ _ F) as S.
  rewrite A in S. change (2 ^ 28)%N with (8 * 2 ^ 25)%N in S. apply N.mul_lt_mono_pos_l in S; [exact S|reflexivity].
Qed.
