(* C13 - Peak memory is bounded by the worker count (compression scheduler).
   [mem s]: sum of the sizes of all heap objects that compress.c / process.c hold in
   model state s (input chunk buffers of in_granul bytes, struct in_blk, struct
   work_blk, encoders of encoder_alloc_size(bs100k*100000) bytes, output buffers,
   queue roots); sizes and slot formulas are regenerated from /repo/src.
   PARTIAL by design: resident set size also contains thread stacks, allocator
   slack, libc buffers and the binary - none is modelled; the bound OB on one
   output buffer is a hypothesis (a codec property); the decompression scheduler
   is the SchedX area.  Only statements; proofs are [exact]. *)
From Coq Require Import List NArith Arith Bool Lia.
From LBZ Require Import SchedC.SchedCIface Gen.SchedCTab SchedC.Pool SchedC.SchedC SchedC.SchedCInv SchedC.SchedCMemDef SchedC.SchedCMem.
Import ListNotations.
Local Open Scope N_scope.

(* for every worker count, mode, level, input (any length, any content, any
   splitting into blocks) and interleaving: live heap <= B n level *)
Theorem C13_bound_partial :
  forall (Data Enc : Type) (data_len : Data -> N) (enc_empty : Enc) (collect : Enc -> Data -> Enc * Data * bool)
         (buf_size : Enc -> N) (OB : N),
    (forall e, buf_size e <= OB) ->
    forall n u level inp s, reachable data_len enc_empty collect n u level inp s ->
      @mem Data Enc buf_size s <= B OB n level.
Proof. exact c13_bound. Qed.

(* B is a fixed linear function of the number of workers; nothing in it mentions
   the input *)
Theorem C13_B_linear : forall (OB level : N), exists a b, forall n : nat, B OB n level = a * N.of_nat n + b.
Proof. exact B_linear. Qed.

(* non-vacuity: the bound for the default level and 4 workers, with a 1 MB bound
   on an output buffer, is about 36 MB *)
Example C13_example_value : B 1000000 4 9 = 36256500.
Proof. vm_compute. reflexivity. Qed.
