(* C02gen without the proviso "the model of make_code_lengths() returned no error value".
   Properties_C02gen.v proves the table/selector conjuncts of witness_ok for EVERY admissible function in the place
   of make_code_lengths(), so its composition theorems are conditional on the exact model not failing.  Here:
   the exact model (Enc/GenModel.v: labelling, sort_alphabet, build_tree with the packed depth byte, compute_depths,
   the length assignment loop, with every assert() / array bound / unsigned underflow as an error value) returns NO
   error value on every input generate_prefix_code() can produce:
     MIN_ALPHA_SIZE = 3 <= as <= MAX_ALPHA_SIZE = 258, row of as lengths, frequencies summing to at most
     MCL_SUM_MAX = fib 33 - 259 = 3524319   (lbzip2: sum = 50 * number of groups <= 900050).
   Proof (Enc/GenMclBt.v, GenMclCd.v, GenMclTotal.v): two-queue discipline of build_tree (indices in range, r == 2,
   s == 0, both queues sorted by frequency, the merged nodes are frequency-minimal whatever the tie-breaking by
   depth byte / leaf counter / stale label does); Fibonacci bound: a node of height h has frequency >= fib (h + 2),
   hence every height <= 30 = MAX_HUFF_CODE_LENGTH for sums < fib 33 = 3524578 (the depth byte cannot carry into the
   frequency field); FIFO order makes the parent pointers monotone, so node depths are non-decreasing in index
   order and compute_depths' level-by-level scan passes avail > used and ends with avail == 0; the level counts
   have Kraft sum exactly 2^31 and sum up to as.
   The hypothesis 3 <= as CANNOT be dropped from the model-level statement (gen_input_ok allows as = 2, on which
   make_code_lengths' first assert fails: C02gen_as2_fails) - every real block has as >= 3 (C02gen_block_total).
   The sum bound is needed: on the first 32 Fibonacci numbers the tree is 31 deep and assert(avail == 0) fails
   (C02gen_fib32_fails; sum 5702886, not reachable in lbzip2). *)
From Coq Require Import List NArith Arith Bool Lia.
From LBZ Require Rle.RleModel.
From LBZ Require Import Common.Bits Gen.Consts Dec.Prog Dec.Format Dec.Policies Dec.CrcProofs
  Enc.EncModel Enc.PmModel Enc.PmReal Enc.GenModel Enc.GenEm Enc.GenReorder Enc.GenProofs Enc.GenMcl Enc.GenCompose
  Enc.GenMclDefs Enc.GenMclBt Enc.GenMclCd Enc.GenMclTotal Enc.GenMclBlocks.
Import ListNotations.
Local Open Scope N_scope.

(* make_code_lengths(): total on admissible inputs, the row keeps its length *)
Theorem C02gen_make_code_lengths_total :
  forall old f,
    (length f <= length old)%nat /\ (3 <= length f <= 258)%nat /\ lsum f <= 3524319 ->
    exists l, make_code_lengths old f = GOk l /\ length l = length old.
Proof. exact make_code_lengths_total. Qed.

(* with lbzip2's bound GEN_MAX_NM = MAX_BLOCK_SIZE + GROUP_SIZE = 900050 *)
Theorem C02gen_make_code_lengths_total_lbzip2 :
  forall old f, length old = length f -> (3 <= length f <= 258)%nat -> lsum f <= GEN_MAX_NM ->
    exists l, make_code_lengths old f = GOk l /\ length l = length old.
Proof. exact make_code_lengths_total_lbzip2. Qed.

(* build_tree() alone: on as >= 2 descending leaf weights (depth byte 0, frequencies >= 1 summing to T < fib 33)
   no error value, r == 2, s == 0, and the tree facts BtPost (parents V[i] < i, monotone, <= 2 internal children,
   depth byte = height, root height <= 30) *)
Theorem C02gen_build_tree_total :
  forall (as_ : nat) (W0 : list N) (T : N),
    (2 <= as_)%nat -> length W0 = as_ ->
    (forall i, (i < as_)%nat -> hg (wn W0 i) = 0 /\ 1 <= fq (wn W0 i)) ->
    (forall i j, (i <= j)%nat -> (j < as_)%nat -> fq (wn W0 j) <= fq (wn W0 i)) ->
    T < fib 33 -> sumr (gq W0) 0 as_ = T ->
    exists W V, bt_loop (as_ - 1) W0 (repeat 0 as_) as_ as_ = GOk (W, V, 2%nat, 0%nat) /\ BtPost as_ W0 W V.
Proof. exact build_tree_ok. Qed.

(* compute_depths() and the length assignment loop on such a tree *)
Theorem C02gen_compute_depths_total :
  forall as_ W0 W V old,
    (3 <= as_ <= 258)%nat -> BtPost as_ W0 W V ->
    (forall i, (i < as_)%nat -> N.land (wn W0 i) 65535 <= MAX_ALPHA_SIZE /\
                                (N.to_nat (MAX_ALPHA_SIZE - N.land (wn W0 i) 65535) < length old)%nat) ->
    exists count len, compute_depths V as_ = GOk count /\
      gl_outer (S (N.to_nat MAX_HUFF_CODE_LENGTH)) as_ W count old 0 0 0
        = GOk (len, as_, N.shiftl 1 (MAX_HUFF_CODE_LENGTH + 1)).
Proof. exact cd_gl_total. Qed.

(* THE UNCONDITIONAL THEOREM about the model of generate_prefix_code(): for every symbol vector it can be called on
   with an alphabet of at least MIN_ALPHA_SIZE symbols and every cluster_factor >= 1 the model returns a result -
   no error value of any kind - with the properties gen_result_ok *)
Theorem C02gen_unconditional :
  forall cf mtfv,
    1 <= cf -> gen_input_ok mtfv -> 3 <= last mtfv 0 + 1 ->
    exists r, gen_prefix_code cf mtfv = GOk r /\ gen_result_ok mtfv r.
Proof. exact gen_prefix_code_total. Qed.

(* the symbol vector of every non-empty block qualifies (as = number of byte values in use + 2 >= 3) *)
Theorem C02gen_block_total :
  forall cf blk,
    1 <= cf -> blk <> [] -> N.of_nat (length blk) <= MAX_BLOCK_SIZE -> Forall (fun c => c < 256) blk ->
    exists r, gen_prefix_code cf (blk_syms blk) = GOk r /\ gen_result_ok (blk_syms blk) r.
Proof. exact gen_block_total. Qed.

(* the premise "gen_witness .. = GOk w" of computed_block (Properties_C02gen.C02gen_stream_strict) always holds *)
Theorem C02gen_computed_block_exists :
  forall cf level x c,
    1 <= cf -> 1 <= level <= 9 -> Forall (fun b => b < 256) x -> x <> [] ->
    N.of_nat (length (RleModel.rle1 x)) <= 100000 * level ->
    valid_idxb (RleModel.rle1 x) (c_idx c) = true -> c_pad c <= 3 ->
    exists w, computed_block make_code_lengths cf level x c w.
Proof. exact computed_block_exists. Qed.

(* C01_roundtrip / C02_stream_strict with computed tables and selectors and NO proviso: the input is cut into
   non-empty blocks within the block size of the level; for every choice of valid BWT indices, surplus selectors
   and paddings the computed witnesses exist and the written stream decodes to the input with lbzip2's decoder
   model, the strict reference format and the reference format *)
Theorem C02gen_stream_total :
  forall cf level (xs : list (list N)) (cs : list choice),
    1 <= cf -> 1 <= level <= 9 ->
    Forall2 (fun x c => Forall (fun b => b < 256) x /\ x <> [] /\
                        N.of_nat (length (RleModel.rle1 x)) <= 100000 * level /\
                        valid_idxb (RleModel.rle1 x) (c_idx c) = true /\ c_pad c <= 3) xs cs ->
    exists ws,
      Forall2 (fun xc w => computed_block make_code_lengths cf level (fst xc) (snd xc) w) (combine xs cs) ws /\
      lbz_decode (bytes_of_bits (pad_to_byte (write_stream level ws))) = Prog.Ok (concat xs) /\
      ref_noexc_decode (bytes_of_bits (pad_to_byte (write_stream level ws))) = Prog.Ok (concat xs) /\
      ref_decode (bytes_of_bits (pad_to_byte (write_stream level ws))) = Prog.Ok (concat xs).
Proof. exact gen_stream_total. Qed.

(* ---- the hypotheses are needed / non-vacuity --------------------------------------------------------------------------- *)
(* as = 2 is admitted by gen_input_ok but not by make_code_lengths (assert(as >= MIN_ALPHA_SIZE)) *)
Example C02gen_as2_fails :
  gen_input_ok [0; 1] /\ gen_prefix_code 1 [0; 1] = GErr (GMcl (MAssert 1)).
Proof.
  split; [|vm_compute; reflexivity].
  unfold gen_input_ok. cbv zeta. split; [vm_compute; split; discriminate|]. split; [vm_compute; split; discriminate|].
  repeat constructor.
Qed.

Fixpoint fibs (n : nat) (a b : N) : list N := match n with O => [] | S k => a :: fibs k b (a + b) end.

(* the deepest tree within lbzip2's bound: 28 Fibonacci frequencies (sum 832039 <= 900050), 27 levels *)
Example C02gen_fib28 :
  lsum (fibs 28 1 1) = 832039 /\
  make_code_lengths (repeat 0 28%nat) (fibs 28 1 1) =
    GOk [27; 27; 26; 25; 24; 23; 22; 21; 20; 19; 18; 17; 16; 15; 14; 13; 12; 11; 10; 9; 8; 7; 6; 5; 4; 3; 2; 1].
Proof. split; vm_compute; reflexivity. Qed.

(* beyond the bound the C code would fail: 32 Fibonacci frequencies (sum 5702886) give a tree 31 deep *)
Example C02gen_fib32_fails :
  lsum (fibs 32 1 1) = 5702886 /\ make_code_lengths (repeat 0 32%nat) (fibs 32 1 1) = GErr (GMcl (MAssert 5)).
Proof. split; vm_compute; reflexivity. Qed.

Print Assumptions C02gen_make_code_lengths_total.
Print Assumptions C02gen_unconditional.
Print Assumptions C02gen_stream_total.
