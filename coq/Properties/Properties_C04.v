(* C04 - Block boundaries follow the greedy run-length packing rule.
   Only statements; every proof is [exact <lemma>].  MAX_RUN_LENGTH is regenerated
   from /repo/src/encode.c on every run (Gen/Consts.v); the model of collect() and of
   the two drivers (Rle/RleModel.v) is tied to the source by the correspondence
   check of checks/c04.py. *)
From Coq Require Import List NArith ZArith Bool Lia.
From LBZ Require Import Gen.Consts Gen.RleGen Rle.RleModel Rle.RleProofs.
Import ListNotations.
Local Open Scope N_scope.

(* ---- the encoding ------------------------------------------------------------ *)
(* runs are split at 259 (the constant the code uses today) ... *)
Theorem C04_max_run_is_259 : MAX_RUN_LENGTH = 259.
Proof. exact max_run_is_259. Qed.

(* ... so the count written after four copies is a byte *)
Theorem C04_rle1_output_is_bytes :
  forall x, Forall (fun b => b < 256) x -> Forall (fun b => b < 256) (rle1 x).
Proof. exact rle1_bytes. Qed.

(* |rle1| is monotone in the prefix: "the longest prefix that fits" is well defined *)
Theorem C04_rle1_len_monotone : forall p q, rle1_len p <= rle1_len (p ++ q).
Proof. exact rle1_len_mono. Qed.

(* a fourth equal byte is taken only when both it and its count fit *)
Theorem C04_fourth_byte_needs_room_for_count :
  forall M p c t, runs_rev p = (c, 3) :: t -> rle1_len p + 1 = M ->
    fits M p = true /\ fits M (p ++ [c]) = false.
Proof. exact fourth_byte_needs_two. Qed.

(* ---- the specification: greedy_spec cuts at the LONGEST prefix that fits ------ *)
Theorem C04_greedy_spec_takes_longest_prefix :
  forall M x G, greedy_spec M x = Some G -> GreedyCut M x G.
Proof. exact greedy_spec_sound. Qed.

Theorem C04_greedy_spec_total :
  forall M x, 0 < M -> exists G, greedy_spec M x = Some G.
Proof. exact greedy_spec_total. Qed.

Theorem C04_greedy_spec_partitions_input :
  forall M x G, GreedyCut M x G -> concat G = x.
Proof. exact GreedyCut_concat. Qed.

(* ---- one call of collect() ----------------------------------------------------
   From a state reached by consuming p without filling the block (Inv), a call
   on buffer l consumes l1 (l = l1 ++ rest) and either exhausts the buffer keeping
   the invariant, or reports the block full with exactly rle1 (p ++ l1) in the
   block, p ++ l1 fitting and the next input byte (if it is known) not fitting. *)
Theorem C04_one_collect_call :
  forall M p s l, 0 < M -> Inv M p s -> Post M p l (collect s l).
Proof. exact collect_call_spec. Qed.

(* ---- the full statement -------------------------------------------------------
   For every capacity M > 0, every mode and every list of buffers (every way of
   splitting the input over successive calls, empty buffers allowed): the blocks,
   the number of input bytes each stands for, and the block CRCs are those of the
   greedy rule (sequential: over the concatenation; default: per buffer). *)
Theorem C04_collect_greedy :
  forall M sequential bufs, 0 < M ->
    exists G obs,
      spec_blocks sequential M bufs = Some G /\
      collect_run sequential M bufs = Some obs /\
      map ob_bytes obs = map rle1 G /\
      map ob_weight obs = map (fun g => N.of_nat (length g)) G /\
      map ob_crc obs = map crc_of G.
Proof. exact collect_run_greedy_fields. Qed.

(* the two modes of the program at level lvl (capacity and input-buffer size are
   both lvl * 100000) *)
Theorem C04_modes :
  forall lvl x, 1 <= lvl -> lvl <= 9 ->
    let M := lvl * 100000 in
    (forall bufs, concat bufs = x ->
       exists G, greedy_spec M x = Some G /\ collect_run true M bufs = Some (map spec_blk G)) /\
    (exists pieces G, cut M x = Some pieces /\ concat pieces = x /\
       all_but_last_full (N.to_nat M) pieces /\
       greedy_each M pieces = Some G /\ collect_run false M pieces = Some (map spec_blk G)).
Proof. exact modes_spec. Qed.

(* what the statement above takes from the code around collect(), regenerated from
   compress.c / process.c on every run: capacity of the encoder in both drivers and the
   size of an input buffer are level * 100000; do_collect_seq creates an encoder
   only when there is no unfinished one and finishes a block when collect() says so *)
Theorem C04_source_facts :
  COLLECT_CAP_UNIT = 100000 /\ COLLECT_SEQ_CAP_UNIT = 100000 /\ IN_GRANUL_UNIT = 100000 /\
  COLLECT_INIT_CALLS = 1 /\ COLLECT_SEQ_INIT_CALLS = 1 /\
  SEQ_INIT_GUARDED = true /\ SEQ_DONE_FROM_COLLECT = true.
Proof. exact driver_consts. Qed.

(* ---- non-vacuity ------------------------------------------------------------------ *)
(* capacity 5; runs of 3, 4 and 5 equal bytes meeting the end of the block *)
Example C04_ex_run3 :
  greedy_spec 5 [1; 2; 7; 7; 7; 9] = Some [[1; 2; 7; 7; 7]; [9]] /\
  option_map (map ob_bytes) (collect_run true 5 [[1; 2]; [7; 7]; []; [7; 9]]) = Some [[1; 2; 7; 7; 7]; [9]].
Proof. split; vm_compute; reflexivity. Qed.

(* the fourth 7 would need two bytes (copy + count): the block closes at M-1 = 4 *)
Example C04_ex_run4_lookahead :
  greedy_spec 5 [1; 7; 7; 7; 7; 9] = Some [[1; 7; 7; 7]; [7; 9]] /\
  option_map (map ob_bytes) (collect_run true 5 [[1; 7; 7; 7; 7; 9]]) = Some [[1; 7; 7; 7]; [7; 9]] /\
  option_map (map ob_bytes) (collect_run true 5 [[1; 7; 7; 7]; [7; 9]]) = Some [[1; 7; 7; 7]; [7; 9]] /\
  option_map (map ob_weight) (collect_run true 5 [[1; 7]; [7]; [7]; [7]; [9]]) = Some [4; 2].
Proof. repeat split; vm_compute; reflexivity. Qed.

(* a run of 5 costs 5 bytes and absorbs further equal bytes for free *)
Example C04_ex_run5 :
  greedy_spec 5 [7; 7; 7; 7; 7; 7; 7; 9] = Some [[7; 7; 7; 7; 7; 7; 7]; [9]] /\
  option_map (map ob_bytes) (collect_run true 5 [[7; 7; 7]; [7; 7; 7]; [7; 9]]) = Some [[7; 7; 7; 7; 3]; [9]] /\
  option_map (map ob_bytes) (collect_run false 5 [[7; 7; 7]; [7; 7; 7]; [7; 9]]) = Some [[7; 7; 7]; [7; 7; 7]; [7; 9]].
Proof. repeat split; vm_compute; reflexivity. Qed.

(* the invariant of C04_one_collect_call is satisfiable on a non-trivial state:
   three equal bytes pending at M-1, and the call that then sees a fourth one
   reports "full" without consuming it *)
Example C04_ex_invariant :
  let s := fst (collect (encoder_init 5) [1; 7; 7; 7]) in
  Inv 5 [1; 7; 7; 7] s /\ rle_state s = 3%Z /\ nblock s = 4 /\
  fst (collect_call s [7; 9]) = (true, 0) /\ fst (collect_call s [8; 9]) = (true, 1).
Proof. vm_compute. repeat split; reflexivity. Qed.

Example C04_ex_cut : cut 3 [1; 2; 3; 4; 5; 6; 7] = Some [[1; 2; 3]; [4; 5; 6]; [7]].
Proof. vm_compute. reflexivity. Qed.
