(* C09 - Decompression result is independent of configuration and schedule.
   Only statements; every proof is [exact <lemma>].  See Properties_C10.v for how
   the statements are tied to the regenerated description of the source. *)
From Coq Require Import List NArith Bool.
From LBZ Require Import Gen.Consts SchedX.XState Gen.SchedXTab SchedX.XSet SchedX.XModel SchedX.XInvDefs
  SchedX.XF4 SchedX.XOracle SchedX.XSeq SchedX.XC10 SchedX.XGranule SchedX.XOwn SchedX.XC11b.
Import ListNotations.
Local Open Scope N_scope.

(* Every worker count, every slot configuration (the regenerated formulas of
   set_memory_constraints() are one instance), every input fragmentation (the
   sizes of the EvInput events are arbitrary, i.e. every in_granul and every
   read() pattern) and every interleaving: the scheduler never attaches a bit
   stream outside the live input. *)
Theorem C09_safe_for_every_configuration :
  forall n small ultra st, reach gen_cfg (init_dec n small ultra) st ->
    x_bad_attach st = false /\ retr_inv st = true.
Proof. exact C09_safe_gen. Qed.

(* Process level: for one stream (one oracle O) two runs that differ in worker count,
   slot numbers, the sizes in which the input arrives (in_granul, read fragmentation)
   and the interleaving give the same result: if both terminate normally they have
   handed the same buffers to the writer; if one terminates normally the other cannot
   fail; in every case what one has written is a prefix of what the other has written
   (finding F2: on failing input the length of that prefix depends on the schedule). *)
Theorem C09_process :
  forall (O : oracle) n1 tin1 tout1 u1 n2 tin2 tout2 u2 st1 st2 L R,
    SeqDec O 0 0 L R ->
    oreach O gen_cfg (init_state n1 tin1 tout1 u1) st1 ->
    oreach O gen_cfg (init_state n2 tin2 tout2 u2) st2 ->
    (completed st1 -> completed st2 -> x_written st1 = x_written st2) /\
    (completed st1 -> x_failed st2 = None) /\
    (exists l, x_written st1 = x_written st2 ++ l \/ x_written st2 = x_written st1 ++ l).
Proof. exact C09_process_gen. Qed.

(* The same for runs that have terminated ([terminated]: nothing failed and can_terminate()
   holds), over runs whose POk labels lie at least 32 bits after the base of the block confirmed
   before ([opreach], see Properties_C10.C10_speculation_free_terminated for why parse() does). *)
Theorem C09_process_terminated :
  forall (O : oracle) n1 tin1 tout1 u1 n2 tin2 tout2 u2 st1 st2 L R,
    SeqDec O 0 0 L R ->
    opreach O gen_cfg (init_state n1 tin1 tout1 u1) st1 ->
    opreach O gen_cfg (init_state n2 tin2 tout2 u2) st2 ->
    (terminated st1 -> terminated st2 -> x_written st1 = x_written st2) /\
    (terminated st1 -> x_failed st2 = None) /\
    (exists l, x_written st1 = x_written st2 ++ l \/ x_written st2 = x_written st1 ++ l).
Proof. exact C09_process_term_gen. Qed.

(* Output buffer size: two cuttings of the blocks' output into buffers (out_granul) that
   agree block-wise (the codec-layer fact about the resumable emit()) give sequential
   decodings with the same result and, on success, the same bytes.  Together with
   C09_process (each run writes its sequential decoding) the output bytes do not depend
   on out_granul either. *)
Theorem C09_output_buffer_size_independent :
  forall (O1 O2 : oracle),
    (forall ps p, next_hdr O1 ps p = next_hdr O2 ps p) -> (forall b, blk_end O1 b = blk_end O2 b) ->
    forall bytes1 bytes2 : N -> N -> list N,
    (forall b lv crc l1 r1 l2 r2, BlockOut O1 b lv crc 0 l1 r1 -> BlockOut O2 b lv crc 0 l2 r2 ->
       r1 = r2 /\ (r1 = true -> out_bytes bytes1 l1 = out_bytes bytes2 l2)) ->
    forall ps p L1 R1 L2 R2, SeqDec O1 ps p L1 R1 -> SeqDec O2 ps p L2 R2 ->
      R1 = R2 /\ (R1 = true -> out_bytes bytes1 L1 = out_bytes bytes2 L2).
Proof. exact seqdec_granule_indep. Qed.

(* Codec layer facts the process-level statements lean on (proved about the array-level
   models of decode()/emit() and about bit-reader programs, tied to decode.c by the
   harnesses of C08):
   - out_granul: the bytes written over successive emit() calls are the same for ANY
     positive buffer sizes, as are the verdict and (on success) the CRC;
   - in_granul / read() fragmentation: feeding a reader its input in arbitrary chunks
     (suspending with MORE at every chunk end) gives the result of running it on the
     concatenation. *)
From LBZ Require Common.Bits Dec.Prog Safe.Bounds Safe.EmitModel Safe.EmitProofs.

Theorem C09_codec_output_buffer_sizes :
  forall col idx rand s1 s2 r1 c1 e1 r2 c2 e2,
    EmitProofs.block_ok col idx -> EmitProofs.sizes_ok s1 -> EmitProofs.sizes_ok s2 ->
    EmitModel.decode_emit col idx rand s1 = EmitModel.RFinished r1 c1 e1 ->
    EmitModel.decode_emit col idx rand s2 = EmitModel.RFinished r2 c2 e2 ->
    r1 = r2 /\ concat c1 = concat c2 /\ (r1 = Consts.E_OK -> EmitModel.ds_crc e1 = EmitModel.ds_crc e2).
Proof. exact EmitProofs.emit_buffer_independent. Qed.

Theorem C09_codec_input_chunking :
  forall (A : Type) (p : Prog.prog A) (chunks : list (list bool)),
    Bounds.finish (Bounds.feed_all p chunks) = Prog.run p (concat chunks).
Proof. exact (@Bounds.feed_chunking). Qed.
