(* C09 - Decompression result is independent of configuration and schedule.
   Only statements; every proof is [exact <lemma>].  See Properties_C10.v for how
   the statements are tied to the regenerated description of the source. *)
From Coq Require Import List NArith Bool.
From LBZ Require Import Gen.Consts SchedX.XState Gen.SchedXTab SchedX.XSet SchedX.XModel SchedX.XInvDefs
  SchedX.XF4 SchedX.XOracle SchedX.XSeq SchedX.XC10.
Import ListNotations.
Local Open Scope N_scope.

(* Every worker count, every slot configuration (the regenerated formulas of
   set_memory_constraints() are one instance), every input fragmentation (the
   sizes of the EvInput events are arbitrary, i.e. every in_granul and every
   read() pattern) and every interleaving: the scheduler never attaches a bit
   stream outside the live input. *)
Theorem C09_safe_for_every_configuration :
  forall n small ultra st, reach gen_cfg (init_dec n small ultra) st ->
    x_bad_attach st = false /\ retr_inv st = true.
Proof. exact C09_safe_gen. Qed.

(* Process level: for one stream (one oracle O) two runs that differ in worker count,
   slot numbers, the sizes in which the input arrives (in_granul, read fragmentation)
   and the interleaving give the same result: if both terminate normally they have
   handed the same buffers to the writer; if one terminates normally the other cannot
   fail; in every case what one has written is a prefix of what the other has written
   (finding F2: on failing input the length of that prefix depends on the schedule). *)
Theorem C09_process :
  forall (O : oracle) n1 tin1 tout1 u1 n2 tin2 tout2 u2 st1 st2 L R,
    SeqDec O 0 0 L R ->
    oreach O gen_cfg (init_state n1 tin1 tout1 u1) st1 ->
    oreach O gen_cfg (init_state n2 tin2 tout2 u2) st2 ->
    (completed st1 -> completed st2 -> x_written st1 = x_written st2) /\
    (completed st1 -> x_failed st2 = None) /\
    (exists l, x_written st1 = x_written st2 ++ l \/ x_written st2 = x_written st1 ++ l).
Proof. exact C09_process_gen. Qed.
