(* C09 - Decompression result is independent of configuration and schedule.
   Only statements; every proof is [exact <lemma>].  See Properties_C10.v for how
   the statements are tied to the regenerated description of the source. *)
From Coq Require Import List NArith Bool.
From LBZ Require Import Gen.Consts SchedX.XState Gen.SchedXTab SchedX.XSet SchedX.XModel SchedX.XInvDefs
  SchedX.XF4 SchedX.XC10.
Import ListNotations.
Local Open Scope N_scope.

(* Every worker count, every slot configuration (the regenerated formulas of
   set_memory_constraints() are one instance), every input fragmentation (the
   sizes of the EvInput events are arbitrary, i.e. every in_granul and every
   read() pattern) and every interleaving: the scheduler never attaches a bit
   stream outside the live input. *)
Theorem C09_safe_for_every_configuration :
  forall n small ultra st, reach gen_cfg (init_dec n small ultra) st ->
    x_bad_attach st = false /\ retr_inv st = true.
Proof. exact C09_safe_gen. Qed.
