(* C08 - No undefined behaviour for any input.  PARTIAL by nature: a theorem can
   carry the index/shift/overflow discipline of ARRAY-LEVEL models of the code
   (arrays = lists of the declared C length, every access bounds-checked, C integer
   widths explicit); each model is tied to the C by a call-by-call correspondence
   harness that includes the real function (harness/safe_h_*.c), and the whole
   program is run under ASan/UBSan as SUPPORT (testing).  Not covered by any
   theorem: divbwt.c, main.c string handling, libc, the scheduler's pointer
   attach (that is C10/C11: finding F4). *)
From Coq Require Import List NArith Arith Bool Lia.
From LBZ Require Import Common.Bits Dec.Prog Dec.Format Gen.Consts Gen.DecTabs
  Safe.Bounds Safe.SlideModel Safe.SlideProofs Safe.EmitModel Safe.EmitProofs.
Import ListNotations.

(* retrieve(): everything used as an index is within the regenerated array sizes:
   alpha_size <= MAX_ALPHA_SIZE (code_len[], perm[]), num_trees <= MAX_TREES (tree[],
   mtf[]), num_selectors <= MAX_SELECTORS (selector[]), bytes in use < 256 *)
Theorem C08_retrieve_index_bounds :
  forall pol fuel bits rb r, run (read_block pol fuel) bits = Ok (rb, r) ->
    (1 <= length (rb_used rb) <= 256)%nat /\ Forall (fun c => (c < 256)%N) (rb_used rb) /\
    (N.of_nat (length (rb_used rb)) + 2 <= MAX_ALPHA_SIZE)%N /\
    (2 <= rb_ntrees rb <= MAX_TREES)%N /\ length (rb_tables rb) = N.to_nat (rb_ntrees rb) /\
    (1 <= rb_nsel rb <= MAX_SELECTORS)%N.
Proof. exact read_block_index_bounds. Qed.

(* `run += RUN(s) << shift++` guarded by run <= MAX_BLOCK_SIZE: the shift count stays
   below 32 and nothing exceeds 32 bits, for any symbol sequence *)
Theorem C08_run_accumulation_no_overflow :
  forall run shift s run' shift', (s <= 1)%N -> run_inv run shift -> acc_run run shift s = Some (run', shift') ->
    (shift < 32)%N /\ (N.shiftl (s + 1) shift < 2 ^ 32)%N /\ (run' < 2 ^ 32)%N /\ run_inv run' shift'.
Proof. exact acc_run_safe. Qed.

(* mtf_one() on the 8192-byte slide with 16 row pointers: from the state retrieve() sets up,
   for ANY sequence of positions < 256, no access leaves the slide; and it computes exactly
   the list move-to-front the abstract decoder uses *)
Theorem C08_slide_safe :
  forall junk flags cs st alpha,
    len junk = SLIDE_LENGTH -> length flags = 256%nat -> slide_init_c junk flags = Some (st, alpha) ->
    Forall (fun c => (c < 256)%N) cs -> no_oob (slide_run_c cs st).
Proof. exact slide_safe_from_init. Qed.

Theorem C08_slide_refines_list_mtf :
  forall syms limit st order run shift size acc,
    Sim_c st order -> Forall (fun s => (s <= N.of_nat (length order))%N) syms ->
    unmtf_slide limit st (hd 0%N order) run shift size acc syms = sl_of_result (unmtf limit order run shift size acc syms).
Proof. exact unmtf_slide_refines. Qed.

(* decode(): for every column of 1..MAX_BLOCK_SIZE bytes, every primary index inside it, randomised
   or not: no out-of-bounds access to tt[]/ftab[], `i << 8` and the prefix sums fit 32 bits, both
   asserts hold, every list pointer stays inside the block *)
Theorem C08_decode_safe :
  forall col idx rand crc0, block_ok col idx ->
    exists tt' ft' st,
      decode_model col (ftab_of col) (N.of_nat (length col)) idx rand crc0 = Good (tt', ft', st) /\
      length tt' = length col /\ length ft' = 256%nat /\ nth 255 ft' 0%N = N.of_nat (length col) /\
      (forall q, (q < length col)%nat ->
         if rand then N.shiftr (nth q tt' 0%N) 8 = N.of_nat (S q)
         else (N.shiftr (nth q tt' 0%N) 8 < N.of_nat (length col))%N) /\
      rle_state st = 0%N /\ rle_avail st = N.of_nat (length col) /\ rle_crc st = M1 /\
      (exists ws, Walk tt' (rle_index st) ws /\ length ws = length col).
Proof. exact decode_safe. Qed.

(* emit(): for every sequence of output buffer sizes in [1, 2^32-2]: no out-of-bounds read of
   tt[]/crc_table[], never more bytes written than the buffer holds, the exit assertion holds *)
Theorem C08_emit_safe :
  forall col idx rand sizes, block_ok col idx -> sizes_ok sizes ->
    match decode_emit col idx rand sizes with
    | RFinished _ chunks _ => chunks_fit chunks sizes
    | RPending chunks _ => Forall2 (fun c b => N.of_nat (length c) = b) chunks sizes
    | RFault _ => False
    end.
Proof. exact emit_safe. Qed.

(* ... and EVERY accumulation site in retrieve() (the fast path on local variables and the slow resumable
   path) sits under such a guard with a limit <= MAX_BLOCK_SIZE: the list of guards is regenerated from
   the source, one entry per `run += RUN(s) << shift++` *)
Theorem C08_every_run_accumulation_is_guarded :
  forallb run_guard_ok run_acc_guards = true /\ (2 <= length run_acc_guards)%nat.
Proof. exact run_acc_guards_ok. Qed.

Theorem C08_guarded_accumulation_no_overflow :
  forall g lim run shift s, In g run_acc_guards -> g = Some lim -> (s <= 1)%N -> run_inv run shift -> (run <= lim)%N ->
    (shift < 32)%N /\ (N.shiftl (s + 1) shift < 2 ^ 32)%N /\ (run + N.shiftl (s + 1) shift < 2 ^ 32)%N.
Proof. exact guarded_site_safe. Qed.

(* make_tree() and the table-driven prefix decoding (start[]/base[]/count[]/perm[]): for every
   length vector the delta reader can deliver (3..258 lengths in 1..20), whatever the previous
   contents of the tables: no out-of-bounds access, no undefined shift, no assertion failure; the
   verdict is exactly the Kraft test of the abstract decoder; and for a complete table, every
   64-bit buffer value with bit 0 clear (NEED() keeps at most 63 valid bits) decodes without any
   bad index to exactly the symbol and length of canonical bit-by-bit decoding *)
From LBZ Require Import Safe.TreeModel Safe.TreeProofs Dec.Policies.

Theorem C08_make_tree_safe :
  forall lens pad T, tree_pre lens pad T ->
    exists vd T', make_tree (N.of_nat (length lens)) (lens ++ pad) T = Done (vd, T') /\ tree_wf T'.
Proof. exact make_tree_safe. Qed.

Theorem C08_make_tree_verdict_is_kraft :
  forall lens pad T vd T', tree_pre lens pad T ->
    make_tree (N.of_nat (length lens)) (lens ++ pad) T = Done (vd, T') ->
    verdict_result vd = complete_only lens.
Proof. exact make_tree_verdict_policy. Qed.

Theorem C08_table_decode_safe_and_canonical :
  forall lens pad T T' v, tree_pre lens pad T ->
    make_tree (N.of_nat (length lens)) (lens ++ pad) T = Done (VBuilt, T') ->
    (v < 2 ^ 64 - 1)%N ->
    exists a k rest,
      tree_decode (N.of_nat (length lens)) T' v =
        Done (isym (N.of_nat (length lens)) a, N.of_nat k, ((v * 2 ^ N.of_nat k) mod 2 ^ 64)%N) /\
      (1 <= k <= 20)%nat /\ (a < N.of_nat (length lens))%N /\
      run (decode_sym lens) (bits_msb 64 v) = Ok (a, rest) /\
      rest = bits_msb (64 - k) v /\ length rest = (64 - k)%nat.
Proof. exact tree_decode_correct. Qed.

(* The scheduler's arrays (pqueue / deque storage allocated by init() with the regenerated
   capacities): no queue of the compressor ever holds more elements than it was allocated
   with, for every worker count, mode, input and interleaving; no dequeue from an empty queue,
   no push on a full deque, no failing assert (bad = false).  For the decompressor the same for
   input_q, retr_q, emit_q, reord_q (scan_q / unord_q / order_q: asserted by hook H3 only) and
   the asserts guarding attach() (a pointer computed from a released input block: finding F4)
   never fire. *)
From LBZ Require SchedC.SchedCIface Gen.SchedCTab SchedC.SchedC SchedC.SchedCInv.
From LBZ Require Gen.SchedXTab SchedX.XState SchedX.XModel SchedX.XInvDefs SchedX.XC10 SchedX.XC11.

Theorem C08_compressor_queues_in_bounds :
  forall (Data Enc : Type) (data_len : Data -> N) (enc_empty : Enc) (collect : Enc -> Data -> Enc * Data * bool)
         n u lvl inp s, SchedCInv.reachable data_len enc_empty collect n u lvl inp s ->
    (length (SchedC.SchedC.coll_q s) <= SchedC.SchedC.cap_coll n /\ length (SchedC.SchedC.trans_q s) <= SchedC.SchedC.cap_trans n /\
     length (SchedC.SchedC.reord_q s) <= SchedC.SchedC.cap_reord n /\ length (SchedC.SchedC.output_q s) <= SchedC.SchedC.cap_output n)%nat /\
    SchedC.SchedC.bad s = false.
Proof.
  intros Data Enc data_len enc_empty collect n u lvl inp s R. split.
  - destruct (SchedCInv.c11_capacity R) as (A & B & C & D & _). repeat split; assumption.
  - exact (SchedCInv.c11_no_ub R).
Qed.

Theorem C08_decompressor_queues_in_bounds_partial :
  forall n tin tout ultra st,
    XInvDefs.reach XModel.gen_cfg (XModel.init_state n tin tout ultra) st ->
    XState.x_bad_attach st = false /\
    (XState.x_failed st = None ->
     let cap f := f (XState.x_total_in st) (XState.x_num_worker st) (XState.x_total_out st) in
     (N.of_nat (length (XState.x_input_q st)) <= cap SchedXTab.cap_input_q /\
      N.of_nat (length (XState.x_retr_q st)) <= cap SchedXTab.cap_retr_q /\
      N.of_nat (length (XState.x_emit_q st)) <= cap SchedXTab.cap_emit_q /\
      N.of_nat (length (XState.x_reord_q st)) <= cap SchedXTab.cap_reord_q)%N).
Proof.
  intros n tin tout ultra st R. split.
  - exact (proj1 (XC10.C10_no_stale_attach_gen n tin tout ultra st R)).
  - intros NF. exact (XC11.C11x_capacity_gen n tin tout ultra st R NF).
Qed.
