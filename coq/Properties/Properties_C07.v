(* C07 - Damaged input is rejected cleanly.  Codec-level statements; the process
   level (exit status 1, diagnostic on stderr, output file removed, no signal
   death, no hang) is tied by running the real binary on every truncation and
   on mutated/crafted invalid files, and its main-loop part is modelled in C16.
   Declared partial: freedom from crashes is the memory-safety property C08. *)
From Coq Require Import List NArith Arith Bool String Lia.
From LBZ Require Import Common.Bits Dec.Prog Dec.Format Dec.Policies Dec.DecProofs Dec.Total Dec.ErrMap.
Import ListNotations.

(* every file that is not a valid sequence of bzip2 streams is rejected, and the
   rejection is a real verdict of the format (not an exhausted loop bound) *)
Theorem C07_invalid_is_rejected :
  forall file, (forall o, ref_decode file <> Ok o) ->
    exists e, lbz_decode file = Err e /\ e <> ErrFuel.
Proof. exact invalid_rejected. Qed.

(* decoding always reaches a verdict: the loop bounds derived from the file
   length are never exhausted (no hang at codec level), for any file *)
Theorem C07_always_a_verdict :
  forall file, lbz_decode file <> Err ErrFuel /\ ref_decode file <> Err ErrFuel.
Proof. exact always_verdict. Qed.

(* every error the decoder can report has a non-empty diagnostic in the
   regenerated err2str() table, which covers exactly the asserted range *)
Theorem C07_every_error_has_a_diagnostic :
  forall e, e <> ErrFuel -> e <> ErrTable -> has_message e = true.
Proof. exact every_error_has_message. Qed.

Example C07_truncated_stream_rejected :
  lbz_decode [66; 90; 104; 57; 23; 114; 69; 56; 80; 144; 0; 0; 0]%N = Err EOF /\
  message EOF = Some "unexpected end of file"%string.
Proof. vm_compute. split; reflexivity. Qed.

Example C07_empty_and_wrong_magic_rejected :
  lbz_decode [] = Err ErrNotBzip2 /\ lbz_decode [66; 90; 104; 48; 1; 2]%N = Err ErrNotBzip2.
Proof. vm_compute. split; reflexivity. Qed.
