(* C01 - Compression round-trips exactly.
   Model: the compressor output for an input cut into blocks x_1..x_k is
   write_stream level [w_1..w_k] where w_i carries rle1 x_i, ANY valid BWT primary
   index and ANY acceptable choice of tables/selectors/padding (witness_ok) - the
   heuristics of generate_prefix_code() and divsufsort are not modelled, their
   results are checked (per generated case, on the real encoder state) to satisfy
   witness_ok and the real transmit() is compared byte for byte with write_block.
   C01_roundtrip is the composed statement; the stage inverses follow. *)
From Coq Require Import List NArith Arith Bool Lia.
From LBZ Require Rle.RleModel.
From LBZ Require Import Common.Bits Dec.Prog Dec.Format Dec.Policies Enc.EncModel Gen.Consts
  Enc.HuffProofs Enc.MtfProofs Enc.BwtProofs Enc.RleInvProofs Enc.LayoutA Enc.LayoutB Enc.BlockProofs Enc.StreamProofs Enc.EncCompose
  Dec.CrcProofs.
Import ListNotations.
Local Open Scope N_scope.

(* THE ROUND TRIP: for every level, every way the input is cut into non-empty blocks
   x_1..x_k (default or --sequential mode, any chunking - C04 says which), every valid
   BWT index and every acceptable choice of tables/selectors/padding, the bytes
   written decode - with lbzip2's own decoder model - to exactly x_1 ++ .. ++ x_k.
   Also covers the empty input (k = 0). *)
Theorem C01_roundtrip :
  forall level (ws : list witness) (xs : list (list N)),
    1 <= level <= 9 ->
    Forall2 (fun w x => witness_ok (100000 * level) w = true /\ Forall (fun c => c < 256) x /\ x <> [] /\
                        w_blk w = RleModel.rle1 x /\ w_crc w = N.lxor (crc_bytes mask32 x) mask32) ws xs ->
    lbz_decode (bytes_of_bits (pad_to_byte (write_stream level ws))) = Ok (concat xs).
Proof. exact stream_roundtrip_lbz. Qed.

(* one block: what the block reader reconstructs, and what it decodes to *)
Theorem C01_block_roundtrip :
  forall M level w x fuel rest,
    1 <= level <= 9 -> M = 100000 * level -> witness_ok M w = true -> (64 <= fuel)%nat ->
    Forall (fun c => c < 256) x -> x <> [] -> w_blk w = RleModel.rle1 x ->
    run (read_block ref_noexc_policy fuel) (write_body w ++ rest) = Ok (raw_of w, rest) /\
    decode_block ref_noexc_policy level (raw_of w) = Ok x.
Proof. exact block_roundtrip_both. Qed.

(* non-vacuity: a concrete acceptable witness *)
Example C01_witness_example :
  witness_ok 100 {| w_blk := [98;97;110;97;110;97;97;97;97;97;0;3]; w_idx := 9;
                    w_tables := [[2;3;3;3;3;3;3]; [3;3;3;3;3;3;2]]; w_sels := [1]; w_extra_sel := false;
                    w_pad := 2; w_crc := 12345 |} = true.
Proof. vm_compute. reflexivity. Qed.

(* initial run-length coding *)
Theorem C01_stage_rle : forall x, Forall (fun c => c < 256) x -> unrle true 256 0 (RleModel.rle1 x) = Ok x.
Proof. exact unrle_rle1. Qed.

(* Burrows-Wheeler transform: the linked-list inverse of decode() inverts the sorted-rotations
   transform for EVERY valid primary index (periodic blocks have several) *)
Theorem C01_stage_bwt : forall blk i, blk <> [] -> Forall (fun c => c < 256) blk -> valid_idx blk i ->
  ibwt (bwt_last blk) i = blk.
Proof. exact ibwt_bwt. Qed.

(* move-to-front + zero-run coding *)
Theorem C01_stage_mtf : forall col limit, col <> [] -> N.of_nat (length col) <= limit ->
  unmtf_block limit (used_bytes col) (mtf_zrle col) = Ok col.
Proof. exact mtf_roundtrip. Qed.

(* prefix coding with any complete table of lengths 1..20 *)
Theorem C01_stage_prefix_code : forall alpha lens s rest, table_ok alpha lens = true -> (N.to_nat s < alpha)%nat ->
  run (decode_sym lens) (sym_bits lens s ++ rest) = Ok (s, rest).
Proof. exact sym_roundtrip. Qed.

(* block header fields: fixed-width fields, in-use bitmap, selectors (unary + MTF), delta-coded tables incl. padding *)
Theorem C01_stage_fields :
  (forall n v rest, v < 2 ^ N.of_nat n -> run (take n) (put n v ++ rest) = Ok (v, rest)) /\
  (forall used rest, Sorted.StronglySorted N.lt used -> Forall (fun c => c < 256) used ->
     run read_bitmap (write_bitmap used ++ rest) = Ok (used, rest)) /\
  (forall nt ks rest, Forall (fun k => (N.to_nat k < nt)%nat) ks ->
     run (repeat_prog (length ks) (read_unary nt 0)) (flat_map unary ks ++ rest) = Ok (ks, rest)) /\
  (forall order sels, NoDup order -> Forall (fun s => In s order) sels ->
     unmtf_selectors order (mtf_encode_sels order sels) = sels) /\
  (forall fuel pad lens rest, lens <> [] -> Forall (fun l => 1 <= l <= 20) lens -> pad <= 3 -> (64 <= fuel)%nat ->
     run (read_table ref_noexc_policy fuel (length lens)) (write_table pad lens ++ rest) = Ok (lens, rest)).
Proof. exact (conj take_put (conj bitmap_roundtrip (conj selectors_read (conj mtf_sels_roundtrip table_roundtrip)))). Qed.
