(* C11 (C10, C13 use the same queues), queue primitives: the ring-buffer deque and the
   binary-heap priority queue of src/process.h / src/process.c refine the list / sorted-list
   abstractions that the scheduler models (SchedC/Pool.v: position-sorted list; SchedX/XState.v:
   list with a minimal element taken) are written over.

   Model: Safe/PoolModel.v executes the macro bodies and up_heap()/down_heap() as REGENERATED
   from the current source into Gen/PoolTab.v by lib/gen_pool.py (index expressions with
   explicit 32-bit unsigned wrap-around, order of the side effects, comparison operands);
   array = list of cells, every access bounds-checked ([Bad Oob]), reading a cell that was
   never written is [Bad Uninit], a failing assert() is [Bad AssertFail], the heap loops run
   on fuel S(log2(size+1)) ([Bad Fuel]).  Every "= Good .." below therefore says: no index
   out of bounds, no uninitialised read, no assertion failure, loop ends within the fuel.

   Capacity: any 1 <= capacity <= 2^31 (= UHALF; beyond that `head + i + 1` and `2*j + 1`
   can wrap in 32-bit unsigned arithmetic and the statements are false).

   [key] maps a heap element to its struct position (major, minor); the deque never looks at
   it (its statements hold for every key). *)
From Coq Require Import List NArith Bool Sorted Permutation.
From LBZ Require Import Safe.PoolVocab Gen.PoolTab Safe.PoolModel Safe.PoolLemmas Safe.PoolDeque Safe.PoolHeap
  Safe.PoolProofs.
Import ListNotations.
Local Open Scope N_scope.

(* ---- deque --------------------------------------------------------------------------------- *)
(* abs_dq s = the [size] cells after [head], wrapping at [modulus];
   dq_inv s = array length = modulus, 1 <= modulus <= 2^31, head < modulus, size <= modulus and those
   cells have been written. *)
Theorem C11_deque_init :
  forall (A : Type) (key : A -> pos) (n : N), 1 <= n <= UHALF ->
    exists s, dq_init key n = Good s /\ dq_inv s /\ abs_dq s = [] /\ f_modulus (q_f s) = n.
Proof. exact @deque_init_refines. Qed.

Theorem C11_deque_refines_list :
  forall (A : Type) (key : A -> pos) (s : qstate A), dq_inv s ->
    let l := abs_dq s in
    let cap := f_modulus (q_f s) in
    N.of_nat (length l) <= cap /\
    (* size(), empty() *)
    q_size key s = Good (N.of_nat (length l)) /\
    q_empty key s = Good (nilb l) /\
    (* dq_get(q, i) = i-th element; dq_set replaces it *)
    (forall i x, nth_error l i = Some x -> dq_get key s (N.of_nat i) = Good x) /\
    (forall i x, (i < length l)%nat ->
       exists s', dq_set key s (N.of_nat i) x = Good s' /\ dq_inv s' /\ abs_dq s' = lset l i x /\ f_modulus (q_f s') = cap) /\
    (* push on a non-full deque appends at the back *)
    (forall x, N.of_nat (length l) < cap ->
       exists s', dq_push key s x = Good s' /\ dq_inv s' /\ abs_dq s' = l ++ [x] /\ f_modulus (q_f s') = cap) /\
    (* unshift on a non-full deque puts the element back at the FRONT *)
    (forall x, N.of_nat (length l) < cap ->
       exists s', dq_unshift key s x = Good s' /\ dq_inv s' /\ abs_dq s' = x :: l /\ f_modulus (q_f s') = cap) /\
    (* shift removes and returns the first element, pop the last *)
    (forall x r, l = x :: r ->
       exists s', dq_shift key s = Good (x, s') /\ dq_inv s' /\ abs_dq s' = r /\ f_modulus (q_f s') = cap) /\
    (forall r x, l = r ++ [x] ->
       exists s', dq_pop key s = Good (x, s') /\ dq_inv s' /\ abs_dq s' = r /\ f_modulus (q_f s') = cap).
Proof. exact @deque_refines_list. Qed.

(* ---- priority queue ------------------------------------------------------------------------- *)
(* pq_elems s = the cells [0, size); abs_pq key s = pq_elems sorted by insertion with
   pq_insert (before the first strictly greater key, as SchedC/Pool.v);
   pq_inv key s = size <= array length <= 2^31, cells [0, size) written, and every cell is
   not greater (w.r.t. the regenerated pos_lt) than its children 2i+1, 2i+2. *)
Theorem C11_pqueue_init :
  forall (A : Type) (key : A -> pos) (n : N), n <= UHALF ->
    exists s, pq_init key n = Good s /\ pq_inv key s /\ pq_elems s = [] /\ alen (q_arr s) = n.
Proof. exact @pq_init_spec. Qed.

Theorem C11_pqueue_refines_sorted :
  forall (A : Type) (key : A -> pos) (s : qstate A), pq_inv key s ->
    let l := abs_pq key s in
    let cap := alen (q_arr s) in
    StronglySorted (fun x y => pos_lt (key y) (key x) = false) l /\
    Permutation l (pq_elems s) /\
    N.of_nat (length l) <= cap /\
    q_size key s = Good (N.of_nat (length l)) /\
    q_empty key s = Good (nilb l) /\
    (* enqueue on a non-full queue inserts (in general: up to the order of equal keys;
       with pairwise distinct keys: exactly the ordered insertion) *)
    (forall x, N.of_nat (length l) < cap ->
       exists s', pq_enqueue key s x = Good s' /\ pq_inv key s' /\ alen (q_arr s') = cap /\
         Permutation (abs_pq key s') (x :: l) /\
         (NoDup (map key (x :: l)) -> abs_pq key s' = pq_insert key x l)) /\
    (* on a non-empty queue peek returns, and dequeue removes, an element m that no element is
       less than (ANY such element when keys are equal: the heap guarantees no tie-break);
       with pairwise distinct keys: the head of the sorted list, leaving its tail *)
    (l <> [] ->
       exists m s', pq_peek key s = Good m /\ pq_dequeue key s = Good (m, s') /\ pq_inv key s' /\ alen (q_arr s') = cap /\
         In m l /\ (forall y, In y l -> pos_lt (key y) (key m) = false) /\
         Permutation l (m :: abs_pq key s') /\
         (NoDup (map key l) -> l = m :: abs_pq key s')).
Proof. exact @pqueue_refines_sorted. Qed.

(* the functions behind enqueue/dequeue, array level: up_heap(root, n) with the new element in
   cell n; down_heap(root, n) on a heap of n+1 cells moves the minimum to cell n *)
Theorem C11_up_heap_safe :
  forall (A : Type) (key : A -> pos) (a : arr A) (n : N),
    n < alen a -> alen a <= UHALF -> filled a (n + 1) -> heap_ord key a n ->
    exists a', up_heap key a n = Good a' /\ alen a' = alen a /\ Permutation a' a /\
      skipn (N.to_nat (n + 1)) a' = skipn (N.to_nat (n + 1)) a /\ filled a' (n + 1) /\ heap_ord key a' (n + 1).
Proof. exact @up_heap_spec. Qed.

Theorem C11_down_heap_safe :
  forall (A : Type) (key : A -> pos) (a : arr A) (n : N),
    n < alen a -> alen a <= UHALF -> filled a (n + 1) -> heap_ord key a (n + 1) ->
    exists a', down_heap key a n = Good a' /\ alen a' = alen a /\ Permutation a' a /\
      skipn (N.to_nat (n + 1)) a' = skipn (N.to_nat (n + 1)) a /\ cell a' n = cell a 0 /\
      filled a' (n + 1) /\ heap_ord key a' n.
Proof. exact @down_heap_spec. Qed.

(* ---- examples ------------------------------------------------------------------------------- *)
(* capacity 3: push 10, push 11, unshift 9 with head = 0 (new head must be modulus-1 = 2),
   shift (head wraps 2 -> 0), push 12 (write index wraps to cell 0), shift, unshift 8 (head 1 -> 0),
   dq_get 2 (read index wraps), pop *)
Example C11_deque_wrap_run :
  let k := fun x : N => (x, 0) in
  (s0 <-- dq_init k 3 ;; s1 <-- dq_push k s0 10 ;; s2 <-- dq_push k s1 11 ;;
   s3 <-- dq_unshift k s2 9 ;; r4 <-- dq_shift k s3 ;; s5 <-- dq_push k (snd r4) 12 ;;
   r6 <-- dq_shift k s5 ;; s7 <-- dq_unshift k (snd r6) 8 ;; g <-- dq_get k s7 2 ;; r8 <-- dq_pop k s7 ;;
   Good ((f_head (q_f s2), f_head (q_f s3), abs_dq s3), (fst r4, f_head (q_f (snd r4))), abs_dq s5,
         (fst r6, f_head (q_f (snd r6))), (f_head (q_f s7), abs_dq s7, q_arr s7), g, (fst r8, abs_dq (snd r8))))
  = Good ((0, 2, [9; 10; 11]), (9, 0), [10; 11; 12],
          (10, 1), (0, [8; 11; 12], [Some 12; Some 8; Some 11]), 12, (12, [8; 11])).
Proof. vm_compute. reflexivity. Qed.

(* a full deque refuses push and unshift (assert), an empty one shift *)
Example C11_deque_asserts :
  let k := fun x : N => (x, 0) in
  (s0 <-- dq_init k 1 ;; s1 <-- dq_push k s0 5 ;; Good (dq_push k s1 6, dq_unshift k s1 6, dq_shift k s0))
  = Good (Bad AssertFail, Bad AssertFail, Bad AssertFail).
Proof. vm_compute. reflexivity. Qed.

(* the invariant is satisfiable on a wrapped state *)
Example C11_deque_inv_example :
  dq_inv (mkq (mkqf 2 3 1) [Some 12; None; Some 11]) /\ abs_dq (mkq (mkqf 2 3 1) [Some 12; None; Some 11]) = [11; 12].
Proof.
  split; [|reflexivity]. constructor; cbn; try (vm_compute; intuition congruence).
  intros [|[|[|i]]] x; cbn; intro H; inversion H; reflexivity.
Qed.

(* heap: keys with ties; elements are (key, tag) *)
Example C11_pqueue_run :
  let k := fun x : pos * N => fst x in
  (s0 <-- pq_init k 4 ;; s1 <-- pq_enqueue k s0 ((5, 0), 1) ;; s2 <-- pq_enqueue k s1 ((3, 7), 2) ;;
   s3 <-- pq_enqueue k s2 ((3, 2), 3) ;; s4 <-- pq_enqueue k s3 ((5, 0), 4) ;;
   p <-- pq_peek k s4 ;; r5 <-- pq_dequeue k s4 ;; r6 <-- pq_dequeue k (snd r5) ;;
   Good (q_arr s4, p, fst r5, fst r6, abs_pq k (snd r6), pq_enqueue k s4 ((0, 0), 9)))
  = Good ([Some ((3, 2), 3); Some ((5, 0), 1); Some ((3, 7), 2); Some ((5, 0), 4)],
          ((3, 2), 3), ((3, 2), 3), ((3, 7), 2), [((5, 0), 1); ((5, 0), 4)], Bad Oob).
Proof. vm_compute. reflexivity. Qed.

(* equal keys: NO first-in-first-out guarantee.  #1 and #4 have the same key (5,0) and #1 was
   enqueued first, yet after two dequeues the heap returns #4 before #1 (the sorted abstraction
   abs_pq, which inserts after equal keys, lists #1 first).  A model of the scheduler may only
   assume "some element that no element is less than". *)
Example C11_pqueue_ties_not_fifo :
  let k := fun x : pos * N => fst x in
  (s0 <-- pq_init k 4 ;; s1 <-- pq_enqueue k s0 ((5, 0), 1) ;; s2 <-- pq_enqueue k s1 ((3, 7), 2) ;;
   s3 <-- pq_enqueue k s2 ((3, 2), 3) ;; s4 <-- pq_enqueue k s3 ((5, 0), 4) ;;
   r5 <-- pq_dequeue k s4 ;; r6 <-- pq_dequeue k (snd r5) ;; r7 <-- pq_dequeue k (snd r6) ;; r8 <-- pq_dequeue k (snd r7) ;;
   Good (abs_pq k (snd r6), snd (fst r7), snd (fst r8)))
  = Good ([((5, 0), 1); ((5, 0), 4)], 4, 1).
Proof. vm_compute. reflexivity. Qed.
