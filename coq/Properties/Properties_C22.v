(* C22 - Invocation name and option sources select the documented mode.
   Only statements; every proof is [exact <lemma>] (or computation for Examples).

   Reading guide.  [parse_cli pname env argv tty_in tty_out] (Cli/CliModel.v) is the model of
   everything main.c does between process start and the first operand: building the argument
   list from LBZIP2, BZIP2, BZIP and argv, opts_setup(), and main()'s `small = 0`.  The
   option tables it interprets (Gen/CliTab.v) are regenerated from src/main.c on every run.
   The documented option syntax is the state-free lexer [lex LGo] of Cli/CliProofs.v: it
   turns a token list into option occurrences
       IShort k        the letter with byte code k in a cluster (not n, m)
       ILong r a       the long option --r
       IArg k v        -n / -m with its value (attached or the next token)
       IOperand a, IEndOpts ("--"), IArgMissing k.
   [toks_of env argv] is the effective token list.  Theorems speak about the outcome
   [Run cfg operands]; the other outcomes (Usage, Version, Fatal e) select no mode. *)
From Coq Require Import List NArith Bool String Ascii.
From LBZ Require Import Gen.CliTab Cli.CliModel Cli.CliProofs.
Import ListNotations.
Local Open Scope string_scope.
Local Open Scope N_scope.
Local Open Scope list_scope.

(* 0. The one-pass argument loop of the model (pending -n/-m value, "--", clusters, immediate
      fail()) is exactly: lex by the documented syntax, then give each occurrence the meaning
      the regenerated tables assign to it, starting from the documented defaults for the
      invocation name (compress, to files, level 9; decompress for bunzip2/lbunzip2/bzcat/lbzcat;
      standard output for bzcat/lbzcat). *)
Theorem C22_model_is_documented_syntax :
  forall pname args tty_in tty_out,
    opts_setup pname args tty_in tty_out =
    finalize tty_in tty_out (run (lex LGo args) (doc_init_state pname)).
Proof. exact opts_setup_lex. Qed.

(* the regenerated switch has exactly the documented syntax classes: '\0' ends a cluster, n and m
   take a value, h L V stop everything, every other letter is a flag or unknown; nothing in the
   table has a shape the model gives no meaning to *)
Theorem C22_short_option_syntax : forall k, syntax_pb k (short_kind k) = true.
Proof. exact short_syntax. Qed.

Theorem C22_long_option_syntax : forall r, long_syntax_pb r (long_kind r) = true.
Proof. exact long_syntax. Qed.

(* (a)+(b) in one statement: decompress is decided by the last occurrence of
   -d/--decompress (true), -z/--compress (false), -t/--test (true) in the effective token list,
   in any spelling and any source, and by the invocation name if there is none *)
Theorem C22_mode :
  forall pname env argv tty_in tty_out cfg ops,
    parse_cli pname env argv tty_in tty_out = Run cfg ops ->
    c_decompress cfg =
    decompress_after (lex LGo (toks_of env argv)) (mem_str pname ["bunzip2"; "lbunzip2"; "bzcat"; "lbzcat"]).
Proof. exact mode_selection. Qed.

(* (a) no -d/-z/-t in any spelling: the name decides, and bzcat/lbzcat write to standard output *)
Theorem C22_name :
  forall pname env argv tty_in tty_out cfg ops,
    parse_cli pname env argv tty_in tty_out = Run cfg ops ->
    Forall (fun i => item_mode i = None) (lex LGo (toks_of env argv)) ->
    c_decompress cfg = mem_str pname ["bunzip2"; "lbunzip2"; "bzcat"; "lbzcat"] /\
    (In pname ["bzcat"; "lbzcat"] -> c_outmode cfg = OM_STDOUT).
Proof. exact name_selects_mode. Qed.

(* bzcat/lbzcat keep writing to standard output whatever else is given, as long as there is no -t *)
Theorem C22_cat_stdout :
  forall pname env argv tty_in tty_out cfg ops,
    parse_cli pname env argv tty_in tty_out = Run cfg ops ->
    In pname ["bzcat"; "lbzcat"] ->
    Forall (fun i => item_mode i <> Some MT) (lex LGo (toks_of env argv)) ->
    c_outmode cfg = OM_STDOUT.
Proof. exact cat_names_stdout. Qed.

(* (b) the last of -d/-z/--decompress/--compress (and -t/--test, which forces decompression)
   wins over the name and over every earlier one, inside clusters too *)
Theorem C22_last_dz :
  forall pname env argv tty_in tty_out cfg ops pre i post m,
    parse_cli pname env argv tty_in tty_out = Run cfg ops ->
    lex LGo (toks_of env argv) = pre ++ i :: post ->
    item_mode i = Some m ->
    Forall (fun j => item_mode j = None) post ->
    c_decompress cfg = match m with MZ => false | MD | MT => true end.
Proof. exact last_mode_option_wins. Qed.

(* (c) the environment is a prefix of the command line: LBZIP2, then BZIP2, then BZIP, each cut
   at spaces and tabs.  Nothing is special about the boundary: a "--" or a trailing "-n" coming
   from a variable acts on argv exactly as it would if typed first on the command line. *)
Theorem C22_env :
  forall pname env argv tty_in tty_out,
    parse_cli pname env argv tty_in tty_out =
    parse_cli pname no_env
      (toks_of_var (env "LBZIP2") ++ toks_of_var (env "BZIP2") ++ toks_of_var (env "BZIP") ++ argv)
      tty_in tty_out.
Proof. exact env_is_prefix. Qed.

(* what "cut at spaces and tabs" means: the separator set, and the three equations that
   determine [tokens] on every string *)
Theorem C22_envsep : forall c, mem_char c envsep = Ascii.eqb c " " || Ascii.eqb c "009".
Proof. exact envsep_chars. Qed.

Theorem C22_tokens_empty : forall sep, tokens sep "" = [].
Proof. exact tokens_empty. Qed.

Theorem C22_tokens_single :
  forall sep s, s <> "" -> no_sep sep s = true -> tokens sep s = [s].
Proof. exact tokens_single. Qed.

Theorem C22_tokens_app :
  forall sep c a b, mem_char c sep = true ->
    tokens sep (a ++ String c b)%string = tokens sep a ++ tokens sep b.
Proof. exact tokens_sep_app. Qed.

(* (d) the documented no-ops: occurrences of -q -s --quiet --small --repetitive-fast
   --repetitive-best --exponential, anywhere (own token, inside a cluster, from the
   environment), never change the outcome: two lines whose occurrence lists agree after
   dropping them give the same effective configuration, operands, or the same help/error. *)
Theorem C22_noops :
  forall pname env argv env' argv' tty_in tty_out,
    drop_noops (lex LGo (toks_of env argv)) = drop_noops (lex LGo (toks_of env' argv')) ->
    parse_cli pname env argv tty_in tty_out = parse_cli pname env' argv' tty_in tty_out.
Proof. exact noops_irrelevant_cli. Qed.

(* --small in particular: main() resets it, whatever was given *)
Theorem C22_small_is_off :
  forall pname env argv tty_in tty_out cfg ops,
    parse_cli pname env argv tty_in tty_out = Run cfg ops -> c_small cfg = false.
Proof. exact small_is_off. Qed.

(* ---------------------------------------------------------------- non-vacuity *)
Definition env1 : environ :=
  fun nm => if String.eqb nm "LBZIP2" then Some " -d  -k" else
            if String.eqb nm "BZIP" then Some (String "009" "-z9") else None.

(* the documented syntax on a line that uses every token class *)
Example C22_example_lex :
  lex LGo ["-dk"; "-n"; "4"; "-qm5k"; "in"; "--best"; "-"; "--"; "-z"] =
  [IShort 100; IShort 107; IArg 110 "4"; IShort 113; IArg 109 "5k"; IOperand "in";
   ILong "best" "--best"; IEndOpts; IOperand "-z"].
Proof. vm_compute. reflexivity. Qed.

(* normal runs exist (hypotheses of the theorems above are satisfiable), for every kind of name *)
Example C22_example_run_bunzip2 :
  parse_cli "bunzip2" no_env ["-kv"; "in"] false false =
  Run (mkConfig true OM_REGF 9 false true true false false false 0 0) ["in"].
Proof. vm_compute. reflexivity. Qed.

Example C22_example_run_bzcat :
  parse_cli "bzcat" no_env ["-s"; "in"] false false =
  Run (mkConfig true OM_STDOUT 9 false false false false false false 0 0) ["in"].
Proof. vm_compute. reflexivity. Qed.

(* environment first, last of d/z wins: LBZIP2 says -d -k, BZIP says -z9, argv says -dn2 *)
Example C22_example_env :
  toks_of env1 ["-dn2"; "f"] = ["-d"; "-k"; "-z9"; "-dn2"; "f"] /\
  parse_cli "lbzip2" env1 ["-dn2"; "f"] false false =
  Run (mkConfig true OM_REGF 9 false true false false false false 2 0) ["f"] /\
  parse_cli "lbzip2" env1 ["f"] false false =
  Run (mkConfig false OM_REGF 9 false true false false false false 0 0) ["f"].
Proof. vm_compute. auto. Qed.

(* premises of C22_last_dz on that line: the last mode option is the d of the cluster -dn2 *)
Example C22_example_last_dz :
  lex LGo (toks_of env1 ["-dn2"; "f"]) =
  [IShort 100; IShort 107; IShort 122; IShort 57] ++ IShort 100 :: [IArg 110 "2"; IOperand "f"] /\
  item_mode (IShort 100) = Some MD /\
  Forall (fun j => item_mode j = None) [IArg 110 "2"; IOperand "f"].
Proof. vm_compute. repeat split; repeat constructor. Qed.

(* no-ops inside a cluster, as own tokens, and from the environment *)
Example C22_example_noops :
  drop_noops (lex LGo (toks_of (fun nm => if String.eqb nm "BZIP2" then Some "--quiet -s" else None)
                               ["-qkvs"; "--exponential"; "in"])) =
  drop_noops (lex LGo (toks_of no_env ["-kv"; "in"])) /\
  parse_cli "lbzip2" no_env ["-kv"; "in"] false false =
  Run (mkConfig false OM_REGF 9 false true true false false false 0 0) ["in"].
Proof. vm_compute. auto. Qed.

(* -t forces decompression, -c after -t is refused, a terminal is refused *)
Example C22_example_test_mode :
  parse_cli "lbzip2" no_env ["-zt"; "in"] false false =
  Run (mkConfig true OM_DISCARD 9 false false false false false false 0 0) ["in"] /\
  parse_cli "lbzip2" no_env ["-tc"] false false = Fatal EIncompat /\
  parse_cli "lbzip2" no_env [] false true = Fatal ETtyOut /\
  parse_cli "bunzip2" no_env [] true false = Fatal ETtyIn.
Proof. vm_compute. auto. Qed.

(* (d) is about option OCCURRENCES.  Deleting the letter q from the text of the (invalid)
   cluster "-q-" yields the token "--", which is a different thing altogether: *)
Example C22_noops_textual_erasure_refuted :
  parse_cli "lbzip2" no_env ["-q-"] false false = Fatal (EUnknownShort 45) /\
  parse_cli "lbzip2" no_env ["--"] false false =
  Run (mkConfig false OM_STDOUT 9 false false false false false false 0 0) [].
Proof. vm_compute. auto. Qed.
