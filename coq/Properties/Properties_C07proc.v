(* C07 - Damaged input is rejected cleanly: the PROCESS-level part.
   Only statements; every proof is [exact <lemma>].

   Setting (IoFail/DataFail.v on the state machine of IoFail/IoFailModel.v, shared with C21):
   [run_data s main_suspended others sch] is the state reached from the moment a thread calls
   the logging function at the data-error call site [s], where
     s               a row of [data_sites] (Gen/DataFailTab.v, regenerated from the source on
                     every run): every call of a bail-out or warning logging function without
                     errno argument in expand.c / parse.c / decode.c / process.c -- at present
                     the three `failf(&ispec, "compressed data error: %s", err2str(..))` of
                     do_parse() and do_reorder() (executed by a WORKER thread running a task of
                     the `expansion` task list) and `failf(&ispec, "not a valid bzip2 file")`
                     of work() (executed by the MAIN thread),
     main_suspended  the main thread is already in sigsuspend() (false: still on its way);
                     irrelevant for the main-thread site,
     others          the states of all other threads (running, blocked on a condition variable,
                     blocked in read()/write(), exited), arbitrary,
     sch             an arbitrary schedule: steps of the failing thread, of the main thread,
                     arbitrary state changes of the other threads, and the pipeline events
                     "the other pipeline threads are done", "the failing thread is done",
                     "completion signal raised".
   The operations executed (the DEF() logging macro with its print condition evaluated at errno 0,
   bailout() of a sub-thread / of the main thread, halt()'s dispatch on SIGUSR1, signal tables,
   exit codes) are the regenerated ones of Gen/IoFailTab.v.  [code] is the value of `enum error`
   handed to err2str(); it only determines the text.

   Abstracted / assumed (see IoFail/DataFail.v): one failure per run; no signals from outside;
   the pipeline cannot signal completion (SIGUSR2) while the failing task has not returned (the
   task still holds its work unit / output slot, and the call is made with the scheduler lock
   held, which the dying thread keeps: syntactic side conditions in [C07_data_structure]);
   wall-clock time; the content of stderr is a counter of diagnostics plus the rendered text of
   the (only) printing call.  That the process reaches the site at all for a given damaged file
   is the codec-level theorem C07_invalid_is_rejected plus the tested link of
   checks/c07proc_part.py (and the scheduler models C16/SchedX), see [C07_rejected_file_exits_1]. *)
From Coq Require Import List NArith Bool String.
From LBZ Require Import Common.Bits Dec.Prog Dec.Format Dec.Policies Dec.ErrMap.
From LBZ Require Import Gen.IoFailTab Gen.DataFailTab Gen.Consts Gen.ErrTab.
From LBZ Require Import IoFail.IoFailModel IoFail.DataFailGeneric IoFail.DataFail IoFail.DataFailProofs IoFail.DataFailCodec.
Import ListNotations.
Local Open Scope N_scope.

(* Whenever the process is gone after a data error, it exited with status 1: never status 0,
   never a signal death; the final state is the one of the canonical schedule; exactly one
   diagnostic has been printed, and its text is the site's format with the (non-empty)
   err2str() text of the code in place of %s -- for every site, every error code the site can
   report, every state and behaviour of the other threads and every schedule. *)
Theorem C07_data_error_outcome :
  forall s code main_suspended others sch o,
    In s data_sites -> E_ERR_MAGIC <= code <= E_ERR_EOF -> site_admits s code = true ->
    k_res (s_core (run_data s main_suspended others sch)) = Some o ->
    o = Exited 1 /\ o <> Exited 0 /\ (forall sg, o <> Killed sg)
    /\ Some o = fst (data_predict s)
    /\ k_printed (s_core (run_data s main_suspended others sch)) = 1
    /\ exists msg, site_message s code = Some msg /\ msg <> ""%string
         /\ ((ds_arg s = ArgNone /\ msg = ds_fmt s)
             \/ exists em, err2str code = Some em /\ em <> ""%string /\ msg = fill (ds_fmt s) [em])
         /\ forall pname sep fsname, exists line, render_line pname sep fsname s code = Some line.
Proof. exact data_outcome. Qed.

(* The diagnostic comes first: as soon as a signal handler has run (SIGUSR1 caught by the main
   thread), or the failing thread has terminated, or the process is gone, the message is on
   stderr. *)
Theorem C07_diagnostic_precedes_exit :
  forall s main_suspended others sch, In s data_sites ->
    (k_caught (s_core (run_data s main_suspended others sch)) <> None \/
     k_f (s_core (run_data s main_suspended others sch)) = FDead \/
     k_res (s_core (run_data s main_suspended others sch)) <> None) ->
    k_printed (s_core (run_data s main_suspended others sch)) = 1.
Proof. exact data_message_first. Qed.

(* No reachable state after the data error is quiescent and non-final: the failing thread or
   the main thread can always take a step that strictly decreases the measure, whatever the
   other threads are doing (no hang). *)
Theorem C07_data_error_no_stuck :
  forall s main_suspended others sch, In s data_sites ->
    k_res (s_core (run_data s main_suspended others sch)) = None ->
    exists ev, In ev own_events /\
      (mu gen_cfg (s_core (step gen_cfg (data_fenv gen_cfg) (EvCore ev) (run_data s main_suspended others sch)))
       < mu gen_cfg (s_core (run_data s main_suspended others sch)))%nat.
Proof. exact data_no_stuck. Qed.

(* Steps of other threads never increase the measure, own steps that change anything decrease it *)
Theorem C07_data_error_own_steps_bounded :
  forall s main_suspended others sch, In s data_sites ->
    (own_effective gen_cfg (data_fenv gen_cfg) (data_init s main_suspended) (core_events sch)
     + mu gen_cfg (s_core (run_data s main_suspended others sch))
     <= mu gen_cfg (data_init s main_suspended))%nat.
Proof. exact data_bounded. Qed.

(* ... so the process is gone after fewer than [data_mu_cap] = 64 state-changing steps of the
   failing thread and the main thread *)
Theorem C07_data_error_terminates_within :
  forall s main_suspended others sch, In s data_sites ->
    k_res (s_core (run_data s main_suspended others sch)) = None ->
    (own_effective gen_cfg (data_fenv gen_cfg) (data_init s main_suspended) (core_events sch) < data_mu_cap)%nat.
Proof. exact data_terminates_within. Qed.

(* Success is never signalled nor reported: SIGUSR2 is never raised, halt() never returns
   normally, the failing thread never goes back to work, and the exit status is neither
   EX_OK = 0 nor EX_WARN = 4 *)
Theorem C07_data_error_never_success :
  forall s main_suspended others sch, In s data_sites ->
    k_completed (s_core (run_data s main_suspended others sch)) = false
    /\ k_m (s_core (run_data s main_suspended others sch)) <> MReturned
    /\ k_f (s_core (run_data s main_suspended others sch)) <> FLive
    /\ k_res (s_core (run_data s main_suspended others sch)) <> Some (Exited EX_OK)
    /\ k_res (s_core (run_data s main_suspended others sch)) <> Some (Exited (final_status true)).
Proof. exact data_no_success. Qed.

(* Warnings.  What the code does: NOTHING in the decompression code warns.  Every data-error
   site is a bail-out, no warn*() function is called in expand.c / parse.c / decode.c /
   process.c, hence `warned` (main(): _exit(warned ? EX_WARN : EX_OK)) is never set by the
   pipeline and exit status 4 cannot come from damaged or trailing data.  Trailing garbage after
   a complete stream is accepted SILENTLY (parse() returns FINISH; codec level: C06 / C15parse);
   there is no "trailing garbage ignored" warning in this version of the source. *)
Theorem C07_no_warning_while_decompressing :
  (forall s, In s data_sites -> ds_bail s = true /\ ds_warn s = false)
  /\ (forall f g fn, In (f, g, fn) decomp_log_calls -> is_warn_fn fn = false)
  /\ final_status false = EX_OK /\ final_status true = EX_WARN /\ EX_WARN <> EX_FAIL.
Proof. exact data_no_warning. Qed.

(* Every error the codec model can report has its call site, and the text printed there is the
   site's format filled with the codec-level diagnostic [message e] of Dec/ErrMap.v
   ("not a valid bzip2 file" itself for the main-thread site of work()). *)
Theorem C07_codec_error_has_site :
  forall e, e <> ErrFuel -> e <> ErrTable ->
    exists s em t, site_for e = Some s /\ In s data_sites /\ on_main s = is_notbz e
      /\ message e = Some em /\ em <> ""%string
      /\ text_for s e = Some t /\ t <> ""%string
      /\ t = (if is_notbz e then em else fill (ds_fmt s) [em]).
Proof. exact codec_link. Qed.

(* Composition with the codec-level theorem C07_invalid_is_rejected: a file the strict reference
   rejects has a genuine verdict e of the decoder model; the site for e exists, and every run
   of the process from that site ends, if it ends, with exit status 1 after printing the
   diagnostic.  NOT proved: that the process reaches this site on this file (tested link). *)
Theorem C07_rejected_file_exits_1 :
  forall file, (forall o, ref_decode file <> Ok o) ->
    exists e, lbz_decode file = Err e /\ e <> ErrFuel /\
      (e <> ErrTable ->
       exists s em t,
         site_for e = Some s /\ In s data_sites /\ on_main s = is_notbz e
         /\ message e = Some em /\ em <> ""%string
         /\ text_for s e = Some t /\ t <> ""%string
         /\ t = (if is_notbz e then em else fill (ds_fmt s) [em])
         /\ forall main_suspended others sch o,
              k_res (s_core (run_data s main_suspended others sch)) = Some o ->
              o = Exited 1 /\ k_printed (s_core (run_data s main_suspended others sch)) = 1).
Proof. exact rejected_file_exits_1. Qed.

(* The static facts about the regenerated tables the model relies on: every site is a
   failf()-like call whose errno argument is the literal 0 (the EPIPE/EFBIG silence rule does not
   apply: def_log_cond true 0 = true), executed by the main thread or by a worker task at a
   point where, replaying the lock operations that precede the call in source order, the
   scheduler lock is held; tasks run between xlock() and the first xunlock()/xwait()
   of worker_thread_proc(); bailout() and halt() print nothing; the main thread calls cleanup()
   (removal of the output file) before _exit(); handlers are installed before work(). *)
Theorem C07_data_structure : data_structure_ok = true.
Proof. exact data_structure_ok_true. Qed.

(* ---------------- non-vacuity ---------------- *)
Definition site_nth (i : nat) : data_site :=
  nth i data_sites (mk_data_site "" "" "" ThSink [] false false false false "" ArgNone [] []).

(* do_reorder() reports a block CRC mismatch on a worker thread while three other threads
   change state and the main thread is not yet suspended: exit status 1, one diagnostic *)
Example C07_example_worker_blkcrc :
  let s := site_nth 2 in
  let st := run_data s false [ORunning; OBlockedCond; OBlockedIO]
              ([EvCore EvF; EvOther 0 OBlockedCond; EvCore EvF; EvCore EvF; EvCore EvMain; EvOther 2 OExited;
                EvCore EvF; EvCore EvF; EvCore EvOthersDone; EvCore EvComplete]
               ++ repeat (EvCore EvF) 12 ++ repeat (EvCore EvMain) 24) in
  In s data_sites /\ ds_func s = "do_reorder"%string /\ site_admits s E_ERR_BLKCRC = true
  /\ k_res (s_core st) = Some (Exited 1) /\ k_printed (s_core st) = 1
  /\ s_others st = [OBlockedCond; OBlockedCond; OExited]
  /\ site_message s E_ERR_BLKCRC = Some "compressed data error: block CRC mismatch"%string.
Proof. vm_compute. repeat split. right; right; left; reflexivity. Qed.

(* work() rejects a file without bzip2 magic on the main thread *)
Example C07_example_not_bzip2 :
  let s := site_nth 3 in
  let st := run_data s false [] (repeat (EvCore EvMain) 24) in
  In s data_sites /\ on_main s = true
  /\ k_res (s_core st) = Some (Exited 1) /\ k_printed (s_core st) = 1
  /\ render_line "lbzip2" "" "stdin" s 0
     = Some ("lbzip2: stdin: not a valid bzip2 file" ++ newline)%string.
Proof. vm_compute. repeat split. right; right; right; left; reflexivity. Qed.

(* the truncated-file site of do_parse() reports ERR_EOF only *)
Example C07_example_eof_site :
  let s := site_nth 0 in
  site_admits s E_ERR_EOF = true /\ site_admits s E_ERR_HEADER = false
  /\ render_line "lbzip2" """" "x.bz2" s E_ERR_EOF
     = Some ("lbzip2: ""x.bz2"": compressed data error: unexpected end of file" ++ newline)%string.
Proof. vm_compute. repeat split. Qed.

(* a warn()-like call would not be fatal: the caller prints, unlocks stderr and goes on; the
   pipeline can then complete normally *)
Example C07_warn_call_would_not_be_fatal :
  let e := data_fenv gen_cfg in
  let k := run_core gen_cfg e (data_init_core false warn_ops false) (repeat EvF 10) in
  k_res k = None /\ k_f k = FLive /\ k_printed k = 1 /\ k_lock k = None
  /\ k_res (run_core gen_cfg e k [EvMain; EvOthersDone; EvFDone; EvComplete; EvMain; EvMain])
     = Some (Exited EX_OK).
Proof. exact warn_call_not_fatal. Qed.

(* the finite check is not vacuous: it rejects broken variants *)
Example C07_checker_rejects_warning_site :
  dcheck gen_cfg (data_fenv gen_cfg) (data_init (worker_site_with warn_ops) false) = false.
Proof. exact warn_site_rejected. Qed.

Example C07_checker_rejects_missing_bailout :
  let c := with_bail_tail gen_cfg [OpUnlockStderr; OpReturn] in
  dcheck c (data_fenv c) (data_init (worker_site_with [OpFail true false]) false) = false.
Proof. exact return_after_log_rejected_data. Qed.

Example C07_checker_rejects_exit_status_0 :
  let c := with_bail_main gen_cfg [OpCleanup; OpUnblock blocked_signals; OpExit 0] in
  dcheck c (data_fenv c) (data_init (worker_site_with [OpFail true false]) true) = false.
Proof. exact exit0_rejected. Qed.
