(* C15 - Stored CRC fields are enforced.
   decode_file_info returns, besides the output, the bit offsets (in the file) of
   every stored 32-bit CRC field it met: one per block, one per stream. *)
From Coq Require Import List NArith Arith Bool Lia.
From LBZ Require Import Common.Bits Dec.Prog Dec.Format Dec.Policies Dec.CrcProofs Dec.FormatConst Gen.CrcTab.
Import ListNotations.
Local Open Scope N_scope.

Theorem C15_crc_enforced :
  forall file o ps p j,
    decode_file_info lbz_policy file = Ok (o, ps) -> In p ps -> (j < 32)%nat ->
    exists e, decode_file_info lbz_policy (flip_file_bit (p + j) file) = Err e.
Proof. exact (crc_flip_file lbz_policy). Qed.

(* the same on raw bit strings, for any decoding policy *)
Theorem C15_crc_enforced_bits :
  forall pol bits o ps p j,
    decode_bits_info pol bits = Ok (o, ps) -> In p ps -> (j < 32)%nat ->
    exists e, decode_bits_info pol (flip (p + j) bits) = Err e.
Proof. exact crc_flip_bits. Qed.

(* the regenerated CRC table is that of the CRC-32 polynomial 0x04C11DB7 *)
Theorem C15_crc_table_is_crc32_polynomial : crc_table = crc_table_spec.
Proof. exact crc_table_is_poly. Qed.

(* flip_file_bit really is "flip one bit of the file" *)
Theorem C15_flip_is_a_bit_flip :
  forall i file, bits_of_bytes (flip_file_bit i file) = flip i (bits_of_bytes file).
Proof. exact flip_file_bit_spec. Qed.

(* non-vacuity: the CRC fields of a real one-block stream: block CRC at bit 80, stream CRC right after the 48-bit end-of-stream magic *)
Example C15_positions_of_real_stream :
  exists o, decode_file_info lbz_policy [66; 90; 104; 49; 49; 65; 89; 38; 83; 89; 158; 98; 91; 254; 0; 0; 2; 145; 0; 64; 0; 2; 68; 160; 0; 33; 20; 96; 102; 130; 145; 239; 35; 71; 11; 185; 34; 156; 40; 72; 79; 49; 45; 255; 0] = Ok (o, [80%nat; 321%nat]).
Proof. vm_compute. eexists. reflexivity. Qed.
