(* C04 - initial run-length encoding and block cutting.

   Part A: the specification ([rle1], [fits], [longest_fit], [greedy_spec], [cut]).
   Part B: an executable model of collect() (src/encode.c:135-336), of
           encoder_init(), of the final flush at the top of encode()
           (src/encode.c:442-447) and of the two drivers do_collect() /
           do_collect_seq() (src/compress.c:109-234).
   No proofs in this file (RleProofs.v); it must build and extract on its own. *)
From Coq Require Import List NArith ZArith Bool.
From LBZ Require Import Gen.Consts Gen.CrcTab Gen.RleGen.
Import ListNotations.
Local Open Scope N_scope.

(* ====================================================================== *)
(* Part A: specification                                                    *)
(* ====================================================================== *)

(* A run is (byte, length).  The input is read left to right; a byte joins the
   current run when it is equal to the run's byte and the run is still shorter
   than MAX_RUN_LENGTH (regenerated from encode.c; Properties_C04 pins it to
   259), otherwise it starts a new run.  [runs_rev] keeps the runs in reverse
   order (current run first). *)
Definition run := (N * N)%type.

Definition push_byte (rs : list run) (d : N) : list run :=
  match rs with
  | (c, n) :: t => if (d =? c) && (n <? MAX_RUN_LENGTH) then (c, n + 1) :: t else (d, 1) :: rs
  | [] => [(d, 1)]
  end.

Definition runs_rev (x : list N) : list run := fold_left push_byte x [].
Definition runs (x : list N) : list run := rev (runs_rev x).

(* runs of 1..3 are written literally, runs of 4.. as four copies plus (length-4) *)
Definition emit_run (r : run) : list N :=
  let (c, n) := r in
  if n <? 4 then repeat c (N.to_nat n) else [c; c; c; c; n - 4].

Definition rle1 (x : list N) : list N := flat_map emit_run (runs x).

Definition rle1_len (x : list N) : N := N.of_nat (length (rle1 x)).

(* a stretch of input fits a block of capacity M *)
Definition fits (M : N) (p : list N) : bool := rle1_len p <=? M.

(* the largest k <= n such that the first k bytes of x fit (0 always fits) *)
Fixpoint longest_from (M : N) (x : list N) (n : nat) : nat :=
  match n with
  | O => O
  | S n' => if fits M (firstn n x) then n else longest_from M x n'
  end.
Definition longest_fit (M : N) (x : list N) : nat := longest_from M x (length x).

(* repeatedly take the longest prefix that fits.  [None] = no progress possible
   (only when M = 0) or fuel exhausted (never: RleProofs.greedy_spec_total). *)
Fixpoint greedy_go (fuel : nat) (M : N) (x : list N) : option (list (list N)) :=
  match x with
  | [] => Some []
  | _ :: _ =>
    match fuel with
    | O => None
    | S f =>
      let k := longest_fit M x in
      match k with
      | O => None
      | S _ => match greedy_go f M (skipn k x) with
               | Some bs => Some (firstn k x :: bs)
               | None => None
               end
      end
    end
  end.
Definition greedy_spec (M : N) (x : list N) : option (list (list N)) := greedy_go (length x) M x.

(* every piece of a list of pieces packed on its own *)
Fixpoint greedy_each (M : N) (pieces : list (list N)) : option (list (list N)) :=
  match pieces with
  | [] => Some []
  | b :: r => match greedy_spec M b, greedy_each M r with
              | Some g, Some gs => Some (g ++ gs)
              | _, _ => None
              end
  end.

(* consecutive pieces of k bytes (the last one may be shorter) *)
Fixpoint cut_go (fuel : nat) (k : nat) (x : list N) : option (list (list N)) :=
  match x with
  | [] => Some []
  | _ :: _ =>
    match fuel, k with
    | O, _ => None
    | _, O => None
    | S f, S _ => match cut_go f k (skipn k x) with
                  | Some ps => Some (firstn k x :: ps)
                  | None => None
                  end
    end
  end.
Definition cut (M : N) (x : list N) : option (list (list N)) := cut_go (length x) (N.to_nat M) x.

(* block CRC as accumulated by the CRC() macro of encode.c:103, start value -1 *)
Definition crc_update (crc ch : N) : N :=
  N.lxor (N.land (N.shiftl crc 8) 0xFFFFFFFF)
         (nth (N.to_nat (N.lxor (N.shiftr crc 24) ch)) crc_table 0).
Definition crc_of (x : list N) : N := fold_left crc_update x 0xFFFFFFFF.   (* spec: start value -1 *)

(* ====================================================================== *)
(* Part B: model of the implementation                                      *)
(* ====================================================================== *)

(* the members of struct encoder_state that collect() touches; [blk] is the
   block buffer block[0..nblock-1] in REVERSE order (last byte written first) *)
Record enc := mkenc {
  max_block_size : N;
  nblock : N;
  rle_state : Z;            (* -1 = block full, 0..MAX_RUN_LENGTH-1 *)
  rle_character : N;
  block_crc : N;
  blk : list N
}.

(* encoder_init (encode.c:117-132); rle_character is left uninitialised in C,
   the model starts it at 0 and nobody reads it while rle_state = 0 *)
Definition encoder_init (M : N) : enc :=
  mkenc M INIT_NBLOCK (Z.of_N INIT_RLE_STATE) 0 INIT_BLOCK_CRC [].   (* regenerated start values *)

Definition put (s : enc) (ch : N) : enc :=        (* *q++ = ch *)
  mkenc (max_block_size s) (nblock s + 1) (rle_state s) (rle_character s) (block_crc s) (ch :: blk s).
Definition crcu (s : enc) (ch : N) : enc :=       (* CRC(ch) *)
  mkenc (max_block_size s) (nblock s) (rle_state s) (rle_character s) (crc_update (block_crc s) ch) (blk s).
Definition set_crc (s : enc) (c : N) : enc :=
  mkenc (max_block_size s) (nblock s) (rle_state s) (rle_character s) c (blk s).
(* qMax = block + max_block_size - 1 (QMAX_BACKOFF regenerated), q = block + nblock *)
Definition q_gt (s : enc) : bool := max_block_size s - QMAX_BACKOFF <? nblock s.     (* q >  qMax *)
Definition q_ge (s : enc) : bool := max_block_size s - QMAX_BACKOFF <=? nblock s.    (* q >= qMax *)

(* the `done:' label: store rle_state (and rle_character where the C code does) *)
Definition done (s : enc) (rs : Z) (rem : list N) : enc * list N :=
  (mkenc (max_block_size s) (nblock s) rs (rle_character s) (block_crc s) (blk s), rem).
Definition done_c (s : enc) (rs : Z) (ch : N) (rem : list N) : enc * list N :=
  (mkenc (max_block_size s) (nblock s) rs ch (block_crc s) (blk s), rem).

(* p < pLim && *p == last *)
Definition lookahead (l : list N) (last : N) : bool :=
  match l with c :: _ => c =? last | [] => false end.

(* Where the main loop stands when it is about to fetch the next input byte:
   R0 = state0 after the capacity test; R1/R2/R3 last = 1/2/3 equal bytes written,
   capacity tests passed; R4 last run = inside the for loop of STATE 4+. *)
Inductive mode := R0 | R1 (last : N) | R2 (last : N) | R3 (last : N) | R4 (last : N) (run : N).

(* encode.c:160-272.  [l] = the unread part of the buffer (p .. pLim). *)
Fixpoint scan (m : mode) (s : enc) (l : list N) {struct l} : enc * list N :=
  match l with
  | [] =>
    match m with
    | R0 => done s 0%Z []                                   (* :166-169 *)
    | R1 c => done_c s 1%Z c []                             (* :180-184 *)
    | R2 c => done_c s 2%Z c []                             (* :206-210 *)
    | R3 c => done_c s 3%Z c []                             (* :222-226 *)
    | R4 c run => done_c s (Z.of_N run) c []                (* :240-244 *)
    end
  | ch :: l' =>
    match m with
    | R0 =>                                                 (* :170-171 then S1 *)
      let s := put (crcu s ch) ch in
      if q_gt s then done s (-1)%Z l' else scan (R1 ch) s l'
    | R1 last =>                                            (* S1 :185-189 *)
      let s := crcu s ch in
      if ch =? last then
        let s := put s ch in                                (* state2 :201-205 *)
        if q_gt s then done s (-1)%Z l' else scan (R2 last) s l'
      else
        let s := put s ch in                                (* next S1 *)
        if q_gt s then done s (-1)%Z l' else scan (R1 ch) s l'
    | R2 last =>                                            (* :211-214 *)
      let s := crcu s ch in
      if negb (ch =? last) then
        let s := put s ch in
        if q_gt s then done s (-1)%Z l' else scan (R1 ch) s l'
      else
        let s := put s ch in                                (* STATE 3 :217-221 *)
        if q_ge s && (q_gt s || lookahead l' last) then done s (-1)%Z l'
        else scan (R3 last) s l'
    | R3 last =>                                            (* :227-230 *)
      let s := crcu s ch in
      if negb (ch =? last) then
        let s := put s ch in
        if q_gt s then done s (-1)%Z l' else scan (R1 ch) s l'
      else
        let s := put s ch in                                (* STATE 4+ :234, for (run = 4; run < MAX; ...) *)
        if 4 <? MAX_RUN_LENGTH then scan (R4 last 4) s l'
        else
          let s := put s (MAX_RUN_LENGTH - 4) in            (* :270-272, state0 *)
          if q_gt s then done s (-1)%Z l' else scan R0 s l'
    | R4 last run =>                                        (* :247-266 *)
      let save_crc := block_crc s in
      let s := crcu s ch in
      if negb (ch =? last) then
        let s := put s (run - 4) in                         (* :254 *)
        if negb (q_gt s) then                               (* q <= qMax: goto state1 *)
          let s := put s ch in
          if q_gt s then done s (-1)%Z l' else scan (R1 ch) s l'
        else done (set_crc s save_crc) (-1)%Z (ch :: l')    (* unget :261-264 *)
      else
        if run + 1 <? MAX_RUN_LENGTH then scan (R4 last (run + 1)) s l'
        else
          let s := put s (MAX_RUN_LENGTH - 4) in            (* :270-272, state0 *)
          if q_gt s then done s (-1)%Z l' else scan R0 s l'
    end
  end.

(* the label state0 (:160-165) reached without having consumed a byte *)
Definition state0 (s : enc) (l : list N) : enc * list N :=
  if q_gt s then done s (-1)%Z l else scan R0 s l.

(* finish_run with rle_state >= 4: the while loop :289-314 *)
Fixpoint fin4 (rs : N) (ch : N) (s : enc) (l : list N) {struct l} : enc * list N :=
  match l with
  | [] => done s (Z.of_N rs) []
  | c :: l' =>
    if negb (c =? ch) then state0 (put s (rs - 4)) l        (* :292-296, byte not consumed *)
    else
      let s := crcu s ch in
      let rs := rs + 1 in
      if rs =? MAX_RUN_LENGTH then state0 (put s (MAX_RUN_LENGTH - 4)) l'
      else fin4 rs ch s l'
  end.

(* finish_run (:274-329); rs = s->rle_state, ch = s->rle_character *)
Fixpoint fin (rs : N) (ch : N) (s : enc) (l : list N) {struct l} : enc * list N :=
  if q_ge s && (q_gt s || ((rs =? 3) && lookahead l ch)) then done s (-1)%Z l   (* :276-279 *)
  else
    match l with
    | [] => done s (Z.of_N rs) []                            (* :282-283 *)
    | c :: l' =>
      if 4 <=? rs then fin4 rs ch s l                        (* :286-315 *)
      else if negb (c =? ch) then state0 s l                 (* :319-320 *)
      else fin (rs + 1) ch (put (crcu s ch) ch) l'           (* :323-329 *)
    end.

(* collect(): returns the new encoder state and the unconsumed rest of the buffer;
   the C return value is [full] of the new state, *buf_sz is the rest's length *)
Definition collect (s : enc) (l : list N) : enc * list N :=
  if (rle_state s =? 0)%Z then state0 s l
  else fin (Z.to_N (rle_state s)) (rle_character s) s l.

Definition full (s : enc) : bool := (rle_state s <? 0)%Z.

(* "Finalize initial RLE" at the top of encode() (encode.c:442-447) *)
Definition flush (s : enc) : enc :=
  if (Z.of_N FLUSH_MIN_RUN <=? rle_state s)%Z then put s (Z.to_N (rle_state s - Z.of_N FLUSH_BIAS)) else s.

(* ---- drivers ------------------------------------------------------------ *)
Record out_blk := mkob {
  ob_bytes : list N;      (* block[0..nblock-1] handed to the BWT *)
  ob_weight : N;          (* number of input bytes the block stands for (wblk->weight) *)
  ob_crc : N              (* s->block_crc *)
}.

Definition finish_block (s : enc) (w : N) : out_blk :=
  let s := flush s in mkob (rev (blk s)) w (block_crc s).

Definition consumed_of (b rem : list N) : N := N.of_nat (length b - length rem).

(* do_collect on one input buffer and its re-queued leftovers: a fresh encoder
   per call, encode() after every call *)
Fixpoint collect_chunk (fuel : nat) (M : N) (b : list N) : option (list out_blk) :=
  match fuel with
  | O => None
  | S f =>
    let (s, rem) := collect (encoder_init M) b in
    let ob := finish_block s (consumed_of b rem) in
    match rem with
    | [] => Some [ob]
    | _ :: _ => match collect_chunk f M rem with
                | Some r => Some (ob :: r)
                | None => None
                end
    end
  end.

(* the source thread never hands out an empty buffer (process.c:380-383) *)
Fixpoint run_default (M : N) (bufs : list (list N)) : option (list out_blk) :=
  match bufs with
  | [] => Some []
  | [] :: r => run_default M r
  | b :: r => match collect_chunk (S (length b)) M b, run_default M r with
              | Some x, Some y => Some (x ++ y)
              | _, _ => None
              end
  end.

(* do_collect_seq on one input buffer and its re-queued leftovers; [unf] =
   unfinished_work (encoder and weight so far) *)
Fixpoint seq_buf (fuel : nat) (M : N) (unf : option (enc * N)) (b : list N)
  : option (list out_blk * option (enc * N)) :=
  match fuel with
  | O => None
  | S f =>
    let (s, w) := match unf with Some sw => sw | None => (encoder_init M, 0) end in
    let (s', rem) := collect s b in
    let w' := w + consumed_of b rem in
    if full s' then
      match rem with
      | [] => Some ([finish_block s' w'], None)
      | _ :: _ => match seq_buf f M None rem with
                  | Some (obs, u) => Some (finish_block s' w' :: obs, u)
                  | None => None
                  end
      end
    else
      match rem with
      | [] => Some ([], Some (s', w'))
      | _ :: _ => seq_buf f M (Some (s', w')) rem
      end
  end.

Fixpoint run_seq_go (M : N) (unf : option (enc * N)) (bufs : list (list N)) : option (list out_blk) :=
  match bufs with
  | [] => match unf with                               (* eof && unfinished_work != NULL *)
          | Some (s, w) => Some [finish_block s w]
          | None => Some []
          end
  | [] :: r => run_seq_go M unf r
  | b :: r => match seq_buf (2 * length b + 2) M unf b with
              | Some (obs, u) => match run_seq_go M u r with
                                 | Some y => Some (obs ++ y)
                                 | None => None
                                 end
              | None => None
              end
  end.

Definition collect_run (sequential : bool) (M : N) (bufs : list (list N)) : option (list out_blk) :=
  if sequential then run_seq_go M None bufs else run_default M bufs.

(* what the specification says the blocks are, per mode *)
Definition spec_blocks (sequential : bool) (M : N) (bufs : list (list N)) : option (list (list N)) :=
  if sequential then greedy_spec M (concat bufs) else greedy_each M bufs.

(* ---- step-by-step interface for the correspondence harness ---------------- *)
(* one collect() call: (return value, consumed, state) *)
Definition collect_call (s : enc) (l : list N) : (bool * N) * enc :=
  let (s', rem) := collect s l in ((full s', consumed_of l rem), s').
