(* C04 - proofs: the collect() machine driven over any list of buffers produces
   exactly the blocks of the greedy longest-prefix rule. *)
From Coq Require Import List NArith ZArith Bool Arith Lia.
From LBZ Require Import Gen.Consts Gen.CrcTab Gen.RleGen Rle.RleModel.
Import ListNotations.
Local Open Scope N_scope.

(* ---------------------------------------------------------------------- *)
(* side conditions on the regenerated constant (discharged by computation;   *)
(* everything below uses MAX_RUN_LENGTH only through these)                  *)
(* ---------------------------------------------------------------------- *)
Lemma max_run_gt4 : 4 < MAX_RUN_LENGTH.
Proof. reflexivity. Qed.
Lemma max_run_count_is_byte : MAX_RUN_LENGTH - 4 < 256.
Proof. reflexivity. Qed.
Lemma max_run_is_259 : MAX_RUN_LENGTH = 259.
Proof. reflexivity. Qed.

(* regenerated facts about the code around collect() (Gen/RleGen.v) *)
Lemma qmax_backoff_is_1 : QMAX_BACKOFF = 1.
Proof. reflexivity. Qed.
Lemma flush_consts : FLUSH_MIN_RUN = 4 /\ FLUSH_BIAS = 4.
Proof. split; reflexivity. Qed.
Lemma init_consts : INIT_NBLOCK = 0 /\ INIT_RLE_STATE = 0 /\ INIT_BLOCK_CRC = 0xFFFFFFFF.
Proof. repeat split; reflexivity. Qed.
Lemma driver_consts :
  COLLECT_CAP_UNIT = 100000 /\ COLLECT_SEQ_CAP_UNIT = 100000 /\ IN_GRANUL_UNIT = 100000 /\
  COLLECT_INIT_CALLS = 1 /\ COLLECT_SEQ_INIT_CALLS = 1 /\
  SEQ_INIT_GUARDED = true /\ SEQ_DONE_FROM_COLLECT = true.
Proof. repeat split; reflexivity. Qed.

Local Opaque MAX_RUN_LENGTH QMAX_BACKOFF FLUSH_MIN_RUN FLUSH_BIAS INIT_NBLOCK INIT_RLE_STATE INIT_BLOCK_CRC.

(* ---------------------------------------------------------------------- *)
(* specification side                                                        *)
(* ---------------------------------------------------------------------- *)

(* output of a list of runs given in reverse order, itself reversed *)
Definition out_rev (rs : list run) : list N := rev (flat_map emit_run (rev rs)).

Lemma out_rev_nil : out_rev [] = [].
Proof. reflexivity. Qed.

Lemma out_rev_cons r t : out_rev (r :: t) = rev (emit_run r) ++ out_rev t.
Proof.
  unfold out_rev. simpl. rewrite flat_map_app. simpl. rewrite app_nil_r.
  rewrite rev_app_distr. reflexivity.
Qed.

Lemma rle1_out_rev x : rle1 x = rev (out_rev (runs_rev x)).
Proof. unfold rle1, runs, out_rev. rewrite rev_involutive. reflexivity. Qed.

Definition elen (n : N) : N := if n <? 4 then n else 5.
Definition olen (rs : list run) : N := N.of_nat (length (out_rev rs)).

Lemma emit_run_length c n : N.of_nat (length (emit_run (c, n))) = elen n.
Proof.
  unfold emit_run, elen. destruct (n <? 4).
  - rewrite repeat_length. lia.
  - reflexivity.
Qed.

Lemma olen_nil : olen [] = 0.
Proof. reflexivity. Qed.

Lemma olen_cons c n t : olen ((c, n) :: t) = elen n + olen t.
Proof.
  unfold olen. rewrite out_rev_cons, app_length, rev_length.
  rewrite Nat2N.inj_add, emit_run_length. reflexivity.
Qed.

Lemma rle1_len_olen x : rle1_len x = olen (runs_rev x).
Proof. unfold rle1_len, olen. rewrite rle1_out_rev, rev_length. reflexivity. Qed.

Lemma runs_rev_snoc p d : runs_rev (p ++ [d]) = push_byte (runs_rev p) d.
Proof. unfold runs_rev. rewrite fold_left_app. reflexivity. Qed.

Lemma crc_of_snoc p d : crc_of (p ++ [d]) = crc_update (crc_of p) d.
Proof. unfold crc_of. rewrite fold_left_app. reflexivity. Qed.

Lemma runs_rev_head_pos p c n t : runs_rev p = (c, n) :: t -> 1 <= n.
Proof.
  revert c n t. induction p as [|d p IH] using rev_ind; intros c n t H.
  - discriminate.
  - rewrite runs_rev_snoc in H. unfold push_byte in H.
    destruct (runs_rev p) as [|[c0 n0] t0] eqn:E.
    + inversion H; subst. lia.
    + destruct ((d =? c0) && (n0 <? MAX_RUN_LENGTH)); inversion H; subst; lia.
Qed.

Lemma elen_mono n : elen n <= elen (n + 1).
Proof. unfold elen. destruct (N.ltb_spec n 4), (N.ltb_spec (n + 1) 4); lia. Qed.

Lemma olen_push rs d : olen rs <= olen (push_byte rs d).
Proof.
  unfold push_byte. destruct rs as [|[c n] t].
  - rewrite olen_cons, olen_nil. lia.
  - destruct ((d =? c) && (n <? MAX_RUN_LENGTH)).
    + rewrite !olen_cons. pose proof (elen_mono n). lia.
    + rewrite (olen_cons d 1). change (elen 1) with 1. lia.
Qed.

Lemma fits_iff M p : fits M p = true <-> olen (runs_rev p) <= M.
Proof. unfold fits. rewrite rle1_len_olen. apply N.leb_le. Qed.

Lemma fits_false_iff M p : fits M p = false <-> M < olen (runs_rev p).
Proof. unfold fits. rewrite rle1_len_olen. apply N.leb_gt. Qed.

Lemma fits_nil M : fits M [] = true.
Proof. apply fits_iff. cbn. lia. Qed.

Lemma fits_single M d : 0 < M -> fits M [d] = true.
Proof.
  intro H. apply fits_iff. unfold runs_rev. cbn [fold_left push_byte].
  rewrite olen_cons. change (elen 1 + 0 <= M). change (elen 1) with 1. lia.
Qed.

Lemma fits_snoc M p d : fits M (p ++ [d]) = true -> fits M p = true.
Proof.
  rewrite !fits_iff, runs_rev_snoc. pose proof (olen_push (runs_rev p) d). lia.
Qed.

Lemma fits_app M p q : fits M (p ++ q) = true -> fits M p = true.
Proof.
  revert p. induction q as [|d q IH] using rev_ind; intro p.
  - rewrite app_nil_r. auto.
  - rewrite app_assoc. intro H. apply fits_snoc in H. auto.
Qed.

(* |rle1| is monotone in the prefix *)
Lemma rle1_len_mono p q : rle1_len p <= rle1_len (p ++ q).
Proof.
  induction q as [|d q IH] using rev_ind.
  - rewrite app_nil_r. lia.
  - rewrite app_assoc, !rle1_len_olen, runs_rev_snoc.
    rewrite !rle1_len_olen in IH. pose proof (olen_push (runs_rev (p ++ q)) d). lia.
Qed.

(* longest_from really is the longest fitting prefix among the first n *)
Lemma longest_from_spec M x n :
  (longest_from M x n <= n)%nat /\
  fits M (firstn (longest_from M x n) x) = true /\
  (forall k, (k <= n)%nat -> fits M (firstn k x) = true -> (k <= longest_from M x n)%nat).
Proof.
  induction n as [|n IH].
  - simpl. split; [lia|]. split; [apply fits_nil|]. intros; lia.
  - cbn [longest_from]. destruct (fits M (firstn (S n) x)) eqn:E.
    + split; [lia|]. split; [exact E|]. intros; lia.
    + destruct IH as (A & B & C). split; [lia|]. split; [exact B|].
      intros k Hk Hf. destruct (Nat.eq_dec k (S n)) as [->|Hne]; [congruence|].
      apply C; [lia|exact Hf].
Qed.

(* the cutting lemma: a non-empty fitting stretch [cur] that cannot take the next
   byte is the longest fitting prefix *)
Lemma longest_fit_cut M cur rest :
  fits M cur = true ->
  (rest = [] \/ exists d r, rest = d :: r /\ fits M (cur ++ [d]) = false) ->
  longest_fit M (cur ++ rest) = length cur.
Proof.
  intros Hf Hstop. unfold longest_fit.
  destruct (longest_from_spec M (cur ++ rest) (length (cur ++ rest))) as (A & B & C).
  set (L := longest_from M (cur ++ rest) (length (cur ++ rest))) in *.
  assert (H1 : (length cur <= L)%nat).
  { apply C; [rewrite app_length; lia|].
    rewrite firstn_app, Nat.sub_diag, firstn_all. simpl. rewrite app_nil_r. exact Hf. }
  destruct (Nat.eq_dec L (length cur)) as [|Hne]; [assumption|exfalso].
  destruct Hstop as [->|(d & r & -> & Hnf)].
  - rewrite app_nil_r in A. lia.
  - rewrite firstn_app, firstn_all2 in B by lia.
    destruct (L - length cur)%nat as [|j] eqn:Ej; [lia|]. simpl in B.
    change (d :: firstn j r) with ([d] ++ firstn j r) in B. rewrite app_assoc in B.
    apply fits_app in B. congruence.
Qed.

Lemma greedy_go_fuel M : forall f1 f2 x, (length x <= f1)%nat -> (length x <= f2)%nat ->
  greedy_go f1 M x = greedy_go f2 M x.
Proof.
  induction f1 as [|f1 IH]; intros f2 x H1 H2.
  - destruct x; [destruct f2; reflexivity|simpl in H1; lia].
  - destruct x as [|c x]; [destruct f2; reflexivity|].
    destruct f2 as [|f2]; [simpl in H2; lia|].
    cbn [greedy_go]. destruct (longest_fit M (c :: x)) as [|k] eqn:E; [reflexivity|].
    rewrite (IH f2); [reflexivity| |]; rewrite skipn_length; simpl in *; lia.
Qed.

Lemma greedy_spec_nil M : greedy_spec M [] = Some [].
Proof. reflexivity. Qed.

Lemma firstn_exact {A} (a b : list A) : firstn (length a) (a ++ b) = a.
Proof. rewrite firstn_app, Nat.sub_diag, firstn_all. simpl. apply app_nil_r. Qed.

Lemma skipn_exact {A} (a b : list A) : skipn (length a) (a ++ b) = b.
Proof. rewrite skipn_app, Nat.sub_diag, skipn_all. reflexivity. Qed.

Lemma greedy_go_unfold f M x : x <> [] ->
  greedy_go (S f) M x =
  match longest_fit M x with
  | O => None
  | S _ => match greedy_go f M (skipn (longest_fit M x) x) with
           | Some bs => Some (firstn (longest_fit M x) x :: bs)
           | None => None
           end
  end.
Proof. destruct x; [congruence|reflexivity]. Qed.

Lemma greedy_spec_cut M cur rest :
  cur <> [] -> fits M cur = true ->
  (rest = [] \/ exists d r, rest = d :: r /\ fits M (cur ++ [d]) = false) ->
  greedy_spec M (cur ++ rest) =
  match greedy_spec M rest with Some bs => Some (cur :: bs) | None => None end.
Proof.
  intros Hne Hf Hstop. unfold greedy_spec.
  assert (Hl : exists k, length cur = S k) by (destruct cur; [congruence|eexists; reflexivity]).
  destruct Hl as [k Hk].
  assert (Hl2 : length (cur ++ rest) = S (k + length rest)) by (rewrite app_length; lia).
  rewrite Hl2, greedy_go_unfold by (destruct cur; [congruence|discriminate]).
  rewrite (longest_fit_cut M cur rest Hf Hstop), firstn_exact, skipn_exact, Hk.
  rewrite (greedy_go_fuel M (k + length rest) (length rest) rest) by lia. reflexivity.
Qed.

(* ---------------------------------------------------------------------- *)
(* machine side: what the block buffer holds after consuming p               *)
(* ---------------------------------------------------------------------- *)
Lemma rev_repeat {A} (c : A) k : rev (repeat c k) = repeat c k.
Proof.
  induction k as [|k IH]; [reflexivity|]. simpl. rewrite IH.
  clear IH. induction k as [|k IH]; [reflexivity|]. simpl. rewrite IH. reflexivity.
Qed.

Lemma out_rev_lt4 c n t : n < 4 -> out_rev ((c, n) :: t) = repeat c (N.to_nat n) ++ out_rev t.
Proof.
  intro H. rewrite out_rev_cons. unfold emit_run.
  destruct (N.ltb_spec n 4); [|lia]. rewrite rev_repeat. reflexivity.
Qed.

Lemma out_rev_ge4 c n t : 4 <= n -> out_rev ((c, n) :: t) = (n - 4) :: c :: c :: c :: c :: out_rev t.
Proof.
  intro H. rewrite out_rev_cons. unfold emit_run.
  destruct (N.ltb_spec n 4); [lia|]. reflexivity.
Qed.

(* block contents while the last run is still open: a run of 4..MAX-1 has its
   four copies in the block but not yet its count byte *)
Definition blk_of (rs : list run) : list N :=
  match rs with
  | [] => []
  | (c, n) :: t =>
    (if n <? 4 then repeat c (N.to_nat n)
     else if n <? MAX_RUN_LENGTH then [c; c; c; c] else [n - 4; c; c; c; c]) ++ out_rev t
  end.

Lemma blk_of_lt4 c n t : n < 4 -> blk_of ((c, n) :: t) = repeat c (N.to_nat n) ++ out_rev t.
Proof. intro H. unfold blk_of. destruct (N.ltb_spec n 4); [reflexivity|lia]. Qed.

Lemma blk_of_mid c n t : 4 <= n -> n < MAX_RUN_LENGTH -> blk_of ((c, n) :: t) = c :: c :: c :: c :: out_rev t.
Proof.
  intros H1 H2. unfold blk_of. destruct (N.ltb_spec n 4); [lia|].
  destruct (N.ltb_spec n MAX_RUN_LENGTH); [reflexivity|lia].
Qed.

Lemma blk_of_max c n t : MAX_RUN_LENGTH <= n -> blk_of ((c, n) :: t) = (n - 4) :: c :: c :: c :: c :: out_rev t.
Proof.
  intros H1. pose proof max_run_gt4. unfold blk_of. destruct (N.ltb_spec n 4); [lia|].
  destruct (N.ltb_spec n MAX_RUN_LENGTH); [lia|reflexivity].
Qed.

Lemma push_same c n t : n < MAX_RUN_LENGTH -> push_byte ((c, n) :: t) c = (c, n + 1) :: t.
Proof.
  intro H. unfold push_byte. rewrite N.eqb_refl. destruct (N.ltb_spec n MAX_RUN_LENGTH); [reflexivity|lia].
Qed.

Lemma push_diff c n t d : d <> c -> push_byte ((c, n) :: t) d = (d, 1) :: (c, n) :: t.
Proof. intro H. unfold push_byte. destruct (N.eqb_spec d c); [congruence|reflexivity]. Qed.

Lemma push_maxed c n t d : MAX_RUN_LENGTH <= n -> push_byte ((c, n) :: t) d = (d, 1) :: (c, n) :: t.
Proof.
  intro H. unfold push_byte. destruct (N.ltb_spec n MAX_RUN_LENGTH); [lia|].
  rewrite andb_false_r. reflexivity.
Qed.

Lemma blk_of_closed c n t : n < 4 \/ MAX_RUN_LENGTH <= n -> blk_of ((c, n) :: t) = out_rev ((c, n) :: t).
Proof.
  pose proof max_run_gt4. intros [H1|H1].
  - rewrite blk_of_lt4, out_rev_lt4 by exact H1. reflexivity.
  - rewrite blk_of_max, out_rev_ge4 by lia. reflexivity.
Qed.

Section Machine.
Variable M : N.
Hypothesis HM : 0 < M.

Definition ViewB (p : list N) (s : enc) (B : list N) : Prop :=
  max_block_size s = M /\ blk s = B /\ nblock s = N.of_nat (length B) /\ block_crc s = crc_of p.

Definition Pre (m : mode) (p : list N) (s : enc) (l : list N) : Prop :=
  nblock s < M /\
  match m with
  | R0 => ViewB p s (out_rev (runs_rev p)) /\
          (runs_rev p = [] \/
           exists c n t, runs_rev p = (c, n) :: t /\
             (MAX_RUN_LENGTH <= n \/ exists d r, l = d :: r /\ d <> c))
  | R1 c => ViewB p s (blk_of (runs_rev p)) /\ exists t, runs_rev p = (c, 1) :: t
  | R2 c => ViewB p s (blk_of (runs_rev p)) /\ exists t, runs_rev p = (c, 2) :: t
  | R3 c => ViewB p s (blk_of (runs_rev p)) /\ (exists t, runs_rev p = (c, 3) :: t) /\
            (nblock s + 1 < M \/ lookahead l c = false)
  | R4 c run => ViewB p s (blk_of (runs_rev p)) /\ (exists t, runs_rev p = (c, run) :: t) /\
                4 <= run /\ run < MAX_RUN_LENGTH
  end.

(* between two calls, block not full *)
Definition Inv (p : list N) (s : enc) : Prop :=
  ViewB p s (blk_of (runs_rev p)) /\ nblock s < M /\
  match runs_rev p with
  | [] => rle_state s = 0%Z
  | (c, n) :: _ => if n <? MAX_RUN_LENGTH then rle_state s = Z.of_N n /\ rle_character s = c
                   else rle_state s = 0%Z
  end.

(* block reported full after consuming p; rem = unconsumed rest of the buffer *)
Definition FullSt (p : list N) (s : enc) (rem : list N) : Prop :=
  rle_state s = (-1)%Z /\ ViewB p s (out_rev (runs_rev p)) /\ fits M p = true /\
  forall d, (rem = [] \/ exists r, rem = d :: r) -> fits M (p ++ [d]) = false.

Definition Post (p l : list N) (r : enc * list N) : Prop :=
  exists l1, l = l1 ++ snd r /\
    ((snd r = [] /\ Inv (p ++ l1) (fst r)) \/ FullSt (p ++ l1) (fst r) (snd r)).

Lemma post_cons p ch l' r : Post (p ++ [ch]) l' r -> Post p (ch :: l') r.
Proof.
  intros (l1 & E & H). exists (ch :: l1). split; [simpl; congruence|].
  replace (p ++ ch :: l1) with ((p ++ [ch]) ++ l1) by (rewrite <- app_assoc; reflexivity). exact H.
Qed.

Lemma q_gt_iff s : max_block_size s = M -> (q_gt s = true <-> M <= nblock s).
Proof. intro E. unfold q_gt. rewrite qmax_backoff_is_1, E, N.ltb_lt. lia. Qed.
Lemma q_gt_false s : max_block_size s = M -> (q_gt s = false <-> nblock s < M).
Proof. intro E. unfold q_gt. rewrite qmax_backoff_is_1, E, N.ltb_ge. lia. Qed.
Lemma q_ge_iff s : max_block_size s = M -> (q_ge s = true <-> M <= nblock s + 1).
Proof. intro E. unfold q_ge. rewrite qmax_backoff_is_1, E, N.leb_le. lia. Qed.
Lemma q_ge_false s : max_block_size s = M -> (q_ge s = false <-> nblock s + 1 < M).
Proof. intro E. unfold q_ge. rewrite qmax_backoff_is_1, E, N.leb_gt. lia. Qed.

Lemma viewB_olen p s : ViewB p s (out_rev (runs_rev p)) -> olen (runs_rev p) = nblock s.
Proof. intros (_ & _ & Hn & _). unfold olen. congruence. Qed.

(* leaving with "block full" when the block holds exactly M bytes *)
Lemma full_exit p s rem :
  ViewB p s (out_rev (runs_rev p)) -> nblock s = M ->
  (forall c n t, runs_rev p = (c, n) :: t ->
     n < 4 \/ MAX_RUN_LENGTH <= n \/ exists d r, rem = d :: r /\ d <> c) ->
  FullSt p (fst (done s (-1)%Z rem)) rem.
Proof.
  intros HV Hn Hc. pose proof (viewB_olen _ _ HV) as Ho.
  split; [reflexivity|]. split; [exact HV|]. split; [apply fits_iff; lia|].
  intros d Hd. apply fits_false_iff. rewrite runs_rev_snoc.
  destruct (runs_rev p) as [|[c n] t] eqn:E.
  - rewrite olen_nil in Ho. lia.
  - rewrite olen_cons in Ho. specialize (Hc c n t eq_refl).
    destruct (N.eq_dec d c) as [->|Hdc].
    + destruct (N.ltb_spec n MAX_RUN_LENGTH) as [Hlt|Hge].
      * rewrite push_same by exact Hlt. rewrite olen_cons.
        destruct Hc as [H4|[Hmax|(d' & r' & Hr & Hd')]].
        -- unfold elen in *. destruct (N.ltb_spec n 4); [|lia].
           destruct (N.ltb_spec (n + 1) 4); lia.
        -- lia.
        -- destruct Hd as [->|(r & ->)]; [discriminate|]. inversion Hr; subst. congruence.
      * rewrite push_maxed by exact Hge. rewrite (olen_cons c 1), olen_cons. change (elen 1) with 1. lia.
    + rewrite push_diff by exact Hdc. rewrite (olen_cons d 1), olen_cons. change (elen 1) with 1. lia.
Qed.

(* leaving with "block full" at M-1 bytes: three equal bytes written, a fourth
   equal one is next, and 4th copy + count would need two more bytes *)
Lemma look_exit p s c t r :
  ViewB p s (out_rev (runs_rev p)) -> nblock s + 1 = M -> runs_rev p = (c, 3) :: t ->
  FullSt p (fst (done s (-1)%Z (c :: r))) (c :: r).
Proof.
  intros HV Hn E. pose proof (viewB_olen _ _ HV) as Ho. pose proof max_run_gt4.
  split; [reflexivity|]. split; [exact HV|]. split; [apply fits_iff; lia|].
  intros d [Hd|(r' & Hd)]; [discriminate|]. inversion Hd; subst d r'.
  apply fits_false_iff. rewrite runs_rev_snoc, E, push_same by lia.
  rewrite E, olen_cons in Ho. rewrite olen_cons.
  change (elen 3) with 3 in Ho. change (elen (3 + 1)) with 5. lia.
Qed.


Lemma viewB_put p s B k : ViewB p s B -> ViewB p (put s k) (k :: B).
Proof.
  intros (Hm & Hb & Hn & Hc). repeat split; cbn [put max_block_size blk nblock block_crc]; try assumption.
  - congruence.
  - rewrite Hn. cbn [length]. lia.
Qed.

Lemma viewB_crcu p s B ch : ViewB p s B -> ViewB (p ++ [ch]) (crcu s ch) B.
Proof.
  intros (Hm & Hb & Hn & Hc). repeat split; cbn [crcu max_block_size blk nblock block_crc]; try assumption.
  rewrite crc_of_snoc. congruence.
Qed.

Lemma viewB_eq p s B B' : ViewB p s B -> B = B' -> ViewB p s B'.
Proof. intros H <-. exact H. Qed.

Lemma viewB_max p s B : ViewB p s B -> max_block_size s = M.
Proof. intros (Hm & _). exact Hm. Qed.

Lemma ltb_max_true n : n < MAX_RUN_LENGTH -> (n <? MAX_RUN_LENGTH) = true.
Proof. intro H. apply N.ltb_lt. exact H. Qed.

(* the common tail of S1: a byte that starts a new run has just been fetched
   (crc updated), the closed output is in the block *)
Lemma new_run l' (IH : forall m s p, Pre m p s l' -> Post p l' (scan m s l')) s1 p ch :
  ViewB (p ++ [ch]) s1 (out_rev (runs_rev p)) ->
  push_byte (runs_rev p) ch = (ch, 1) :: runs_rev p ->
  nblock s1 < M ->
  Post p (ch :: l') (if q_gt (put s1 ch) then done (put s1 ch) (-1)%Z l' else scan (R1 ch) (put s1 ch) l').
Proof.
  intros HV E Hn. apply post_cons.
  assert (E' : runs_rev (p ++ [ch]) = (ch, 1) :: runs_rev p) by (rewrite runs_rev_snoc; exact E).
  assert (HV2 : ViewB (p ++ [ch]) (put s1 ch) (blk_of (runs_rev (p ++ [ch])))).
  { eapply viewB_eq; [apply viewB_put; exact HV|]. rewrite E', blk_of_lt4 by lia. reflexivity. }
  assert (Hn2 : nblock (put s1 ch) = nblock s1 + 1) by reflexivity.
  destruct (q_gt (put s1 ch)) eqn:Q.
  - apply q_gt_iff in Q; [|exact (viewB_max _ _ _ HV2)].
    exists []. split; [reflexivity|]. right. rewrite app_nil_r.
    apply full_exit.
    + eapply viewB_eq; [exact HV2|]. rewrite E'. apply blk_of_closed. lia.
    + lia.
    + intros c n t Ec. rewrite E' in Ec. inversion Ec; subst. left. lia.
  - apply q_gt_false in Q; [|exact (viewB_max _ _ _ HV2)].
    apply IH. split; [exact Q|]. split; [exact HV2|]. eexists. exact E'.
Qed.

Lemma scan_spec : forall l m s p, Pre m p s l -> Post p l (scan m s l).
Proof.
  pose proof max_run_gt4 as HMAX.
  induction l as [|ch l' IH]; intros m s p HP.
  - (* end of buffer *)
    exists []. split; [destruct m; reflexivity|]. left. rewrite app_nil_r.
    destruct HP as (Hn & HP). destruct m as [|c|c|c|c run].
    + destruct HP as (HV & Hc). split; [reflexivity|]. split; [|split; [exact Hn|]].
      * eapply viewB_eq; [exact HV|].
        destruct Hc as [->|(c & n & t & -> & [Hx|(d & r & Hl & _)])]; [reflexivity| |discriminate].
        symmetry. apply blk_of_closed. right. exact Hx.
      * destruct Hc as [->|(c & n & t & -> & [Hx|(d & r & Hl & _)])]; [reflexivity| |discriminate].
        destruct (N.ltb_spec n MAX_RUN_LENGTH); [lia|reflexivity].
    + destruct HP as (HV & t & E). split; [reflexivity|]. split; [exact HV|split; [exact Hn|]].
      rewrite E, ltb_max_true by lia. split; reflexivity.
    + destruct HP as (HV & t & E). split; [reflexivity|]. split; [exact HV|split; [exact Hn|]].
      rewrite E, ltb_max_true by lia. split; reflexivity.
    + destruct HP as (HV & (t & E) & _). split; [reflexivity|]. split; [exact HV|split; [exact Hn|]].
      rewrite E, ltb_max_true by lia. split; reflexivity.
    + destruct HP as (HV & (t & E) & H4 & Hlt). split; [reflexivity|]. split; [exact HV|split; [exact Hn|]].
      rewrite E, ltb_max_true by lia. split; reflexivity.
  - destruct HP as (Hn & HP). destruct m as [|last|last|last|last run]; cbn [scan].
    + (* R0 *)
      destruct HP as (HV & Hc).
      apply (new_run l' IH (crcu s ch) p ch).
      * apply viewB_crcu. exact HV.
      * destruct Hc as [->|(c & n & t & -> & [Hx|(d & r & Hl & Hd)])].
        -- reflexivity.
        -- apply push_maxed. exact Hx.
        -- inversion Hl; subst. apply push_diff. exact Hd.
      * exact Hn.
    + (* R1 *)
      destruct HP as (HV & t & E).
      destruct (N.eqb_spec ch last) as [->|Hne].
      * apply post_cons.
        assert (E' : runs_rev (p ++ [last]) = (last, 2) :: t)
          by (rewrite runs_rev_snoc, E, push_same by lia; reflexivity).
        set (s2 := put (crcu s last) last).
        assert (HV2 : ViewB (p ++ [last]) s2 (blk_of (runs_rev (p ++ [last])))).
        { eapply viewB_eq; [apply viewB_put, viewB_crcu; exact HV|].
          rewrite E, E', !blk_of_lt4 by lia. reflexivity. }
        assert (Hn2 : nblock s2 = nblock s + 1) by reflexivity.
        destruct (q_gt s2) eqn:Q.
        -- apply q_gt_iff in Q; [|exact (viewB_max _ _ _ HV2)].
           exists []. split; [reflexivity|]. right. rewrite app_nil_r. apply full_exit.
           ++ eapply viewB_eq; [exact HV2|]. rewrite E'. apply blk_of_closed. lia.
           ++ lia.
           ++ intros c n t0 Ec. rewrite E' in Ec. inversion Ec; subst. left. lia.
        -- apply q_gt_false in Q; [|exact (viewB_max _ _ _ HV2)].
           apply IH. split; [exact Q|]. split; [exact HV2|]. eexists. exact E'.
      * apply (new_run l' IH (crcu s ch) p ch).
        -- eapply viewB_eq; [apply viewB_crcu; exact HV|]. rewrite E. apply blk_of_closed. lia.
        -- rewrite E. apply push_diff. exact Hne.
        -- exact Hn.
    + (* R2 *)
      destruct HP as (HV & t & E).
      destruct (N.eqb_spec ch last) as [->|Hne]; cbn [negb].
      * apply post_cons.
        assert (E' : runs_rev (p ++ [last]) = (last, 3) :: t)
          by (rewrite runs_rev_snoc, E, push_same by lia; reflexivity).
        set (s2 := put (crcu s last) last).
        assert (HV2 : ViewB (p ++ [last]) s2 (blk_of (runs_rev (p ++ [last])))).
        { eapply viewB_eq; [apply viewB_put, viewB_crcu; exact HV|].
          rewrite E, E', !blk_of_lt4 by lia. reflexivity. }
        assert (HV3 : ViewB (p ++ [last]) s2 (out_rev (runs_rev (p ++ [last])))).
        { eapply viewB_eq; [exact HV2|]. rewrite E'. apply blk_of_closed. lia. }
        assert (Hn2 : nblock s2 = nblock s + 1) by reflexivity.
        pose proof (viewB_max _ _ _ HV2) as Hm2.
        destruct (q_ge s2) eqn:Qe; cbn [andb].
        -- apply q_ge_iff in Qe; [|exact Hm2].
           destruct (q_gt s2) eqn:Q; cbn [orb].
           ++ apply q_gt_iff in Q; [|exact Hm2].
              exists []. split; [reflexivity|]. right. rewrite app_nil_r. apply full_exit.
              ** exact HV3.
              ** lia.
              ** intros c n t0 Ec. rewrite E' in Ec. inversion Ec; subst. left. lia.
           ++ apply q_gt_false in Q; [|exact Hm2].
              destruct (lookahead l' last) eqn:L.
              ** exists []. split; [reflexivity|]. right. rewrite app_nil_r.
                 destruct l' as [|c0 r]; [discriminate|]. cbn [lookahead] in L.
                 apply N.eqb_eq in L. subst c0.
                 apply (look_exit _ _ last t r); [exact HV3|lia|exact E'].
              ** apply IH. split; [exact Q|]. split; [exact HV2|]. split; [eexists; exact E'|].
                 right. exact L.
        -- apply q_ge_false in Qe; [|exact Hm2].
           apply IH. split; [lia|]. split; [exact HV2|]. split; [eexists; exact E'|]. left. exact Qe.
      * apply (new_run l' IH (crcu s ch) p ch).
        -- eapply viewB_eq; [apply viewB_crcu; exact HV|]. rewrite E. apply blk_of_closed. lia.
        -- rewrite E. apply push_diff. exact Hne.
        -- exact Hn.
    + (* R3 *)
      destruct HP as (HV & (t & E) & Hlook).
      destruct (N.eqb_spec ch last) as [->|Hne]; cbn [negb].
      * assert (Hroom : nblock s + 1 < M).
        { destruct Hlook as [H|H]; [exact H|]. cbn [lookahead] in H. rewrite N.eqb_refl in H. discriminate. }
        rewrite (proj2 (N.ltb_lt 4 MAX_RUN_LENGTH) HMAX).
        apply post_cons. apply IH.
        assert (E' : runs_rev (p ++ [last]) = (last, 4) :: t)
          by (rewrite runs_rev_snoc, E, push_same by lia; reflexivity).
        split; [cbn [put nblock]; exact Hroom|].
        split; [|split; [eexists; exact E'|lia]].
        eapply viewB_eq; [apply viewB_put, viewB_crcu; exact HV|].
        rewrite E, E', blk_of_lt4, blk_of_mid by lia. reflexivity.
      * apply (new_run l' IH (crcu s ch) p ch).
        -- eapply viewB_eq; [apply viewB_crcu; exact HV|]. rewrite E. apply blk_of_closed. lia.
        -- rewrite E. apply push_diff. exact Hne.
        -- exact Hn.
    + (* R4 *)
      destruct HP as (HV & (t & E) & H4 & Hlt).
      destruct (N.eqb_spec ch last) as [->|Hne]; cbn [negb].
      * destruct (N.ltb_spec (run + 1) MAX_RUN_LENGTH) as [Hlt2|Hge2].
        -- apply post_cons. apply IH.
           assert (E' : runs_rev (p ++ [last]) = (last, run + 1) :: t)
             by (rewrite runs_rev_snoc, E, push_same by lia; reflexivity).
           split; [exact Hn|]. split; [|split; [eexists; exact E'|lia]].
           eapply viewB_eq; [apply viewB_crcu; exact HV|].
           rewrite E, E', !blk_of_mid by lia. reflexivity.
        -- apply post_cons.
           assert (Erun : run + 1 = MAX_RUN_LENGTH) by lia.
           assert (E' : runs_rev (p ++ [last]) = (last, MAX_RUN_LENGTH) :: t)
             by (rewrite runs_rev_snoc, E, push_same by lia; rewrite Erun; reflexivity).
           set (s2 := put (crcu s last) (MAX_RUN_LENGTH - 4)).
           assert (HV2 : ViewB (p ++ [last]) s2 (out_rev (runs_rev (p ++ [last])))).
           { eapply viewB_eq; [apply viewB_put, viewB_crcu; exact HV|].
             rewrite E, E', blk_of_mid, out_rev_ge4 by lia. reflexivity. }
           assert (Hn2 : nblock s2 = nblock s + 1) by reflexivity.
           pose proof (viewB_max _ _ _ HV2) as Hm2.
           destruct (q_gt s2) eqn:Q.
           ++ apply q_gt_iff in Q; [|exact Hm2].
              exists []. split; [reflexivity|]. right. rewrite app_nil_r. apply full_exit.
              ** exact HV2.
              ** lia.
              ** intros c n t0 Ec. rewrite E' in Ec. inversion Ec; subst. right. left. lia.
           ++ apply q_gt_false in Q; [|exact Hm2].
              apply IH. split; [exact Q|]. split; [exact HV2|]. right.
              exists last, MAX_RUN_LENGTH, t. split; [exact E'|]. left. lia.
      * set (s1 := put (crcu s ch) (run - 4)).
        assert (HV1 : ViewB (p ++ [ch]) s1 (out_rev (runs_rev p))).
        { eapply viewB_eq; [apply viewB_put, viewB_crcu; exact HV|].
          rewrite E, blk_of_mid, out_rev_ge4 by lia. reflexivity. }
        assert (Hn1 : nblock s1 = nblock s + 1) by reflexivity.
        pose proof (viewB_max _ _ _ HV1) as Hm1.
        destruct (q_gt s1) eqn:Q; cbn [negb].
        -- (* unget *)
           apply q_gt_iff in Q; [|exact Hm1].
           exists []. split; [reflexivity|]. right. rewrite app_nil_r. apply full_exit.
           ++ destruct HV1 as (A & B & C & D). destruct HV as (_ & _ & _ & D0).
              repeat split; cbn [set_crc max_block_size blk nblock block_crc]; assumption.
           ++ cbn [set_crc nblock]. lia.
           ++ intros c n t0 Ec. rewrite E in Ec. inversion Ec; subst. right. right.
              exists ch, l'. split; [reflexivity|exact Hne].
        -- apply q_gt_false in Q; [|exact Hm1].
           apply (new_run l' IH s1 p ch).
           ++ exact HV1.
           ++ rewrite E. apply push_diff. exact Hne.
           ++ exact Q.
Qed.


Lemma state0_spec s p l :
  ViewB p s (out_rev (runs_rev p)) -> nblock s <= M ->
  (runs_rev p = [] \/
   exists c n t, runs_rev p = (c, n) :: t /\ (MAX_RUN_LENGTH <= n \/ exists d r, l = d :: r /\ d <> c)) ->
  Post p l (state0 s l).
Proof.
  intros HV Hn Hc. unfold state0. pose proof (viewB_max _ _ _ HV) as Hm.
  destruct (q_gt s) eqn:Q.
  - apply q_gt_iff in Q; [|exact Hm].
    exists []. split; [reflexivity|]. right. rewrite app_nil_r. apply full_exit; [exact HV|lia|].
    intros c n t E. destruct Hc as [Hc|(c' & n' & t' & E' & Hc)]; [congruence|].
    rewrite E in E'. inversion E'; subst. destruct Hc as [Hc|Hc]; [right; left; exact Hc|right; right; exact Hc].
  - apply q_gt_false in Q; [|exact Hm].
    apply scan_spec. split; [exact Q|]. split; assumption.
Qed.

Lemma fin4_spec ch : forall l rs s p t,
  ViewB p s (blk_of (runs_rev p)) -> nblock s < M -> runs_rev p = (ch, rs) :: t ->
  4 <= rs -> rs < MAX_RUN_LENGTH -> rle_character s = ch ->
  Post p l (fin4 rs ch s l).
Proof.
  induction l as [|c l' IH]; intros rs s p t HV Hn E H4 Hlt Hch.
  - exists []. split; [reflexivity|]. left. rewrite app_nil_r.
    split; [reflexivity|]. split; [exact HV|split; [exact Hn|]].
    rewrite E, ltb_max_true by lia. split; [reflexivity|exact Hch].
  - cbn [fin4]. destruct (N.eqb_spec c ch) as [->|Hne]; cbn [negb].
    + destruct (N.eqb_spec (rs + 1) MAX_RUN_LENGTH) as [Emax|Hnm].
      * apply post_cons.
        assert (E' : runs_rev (p ++ [ch]) = (ch, MAX_RUN_LENGTH) :: t)
          by (rewrite runs_rev_snoc, E, push_same by lia; rewrite Emax; reflexivity).
        apply state0_spec.
        -- eapply viewB_eq; [apply viewB_put, viewB_crcu; exact HV|].
           rewrite E, E', blk_of_mid, out_rev_ge4 by lia. reflexivity.
        -- cbn [put crcu nblock]. lia.
        -- right. exists ch, MAX_RUN_LENGTH, t. split; [exact E'|]. left. lia.
      * apply post_cons.
        assert (E' : runs_rev (p ++ [ch]) = (ch, rs + 1) :: t)
          by (rewrite runs_rev_snoc, E, push_same by lia; reflexivity).
        apply (IH (rs + 1) (crcu s ch) (p ++ [ch]) t); try lia; try assumption.
        eapply viewB_eq; [apply viewB_crcu; exact HV|].
        rewrite E, E', !blk_of_mid by lia. reflexivity.
    + apply state0_spec.
      * eapply viewB_eq; [apply viewB_put; exact HV|].
        rewrite E, blk_of_mid, out_rev_ge4 by lia. reflexivity.
      * cbn [put nblock]. lia.
      * right. exists ch, rs, t. split; [exact E|]. right. exists c, l'. split; [reflexivity|exact Hne].
Qed.

Lemma fin_spec ch : forall l rs s p t,
  ViewB p s (blk_of (runs_rev p)) -> nblock s <= M -> runs_rev p = (ch, rs) :: t ->
  1 <= rs -> rs < MAX_RUN_LENGTH -> (4 <= rs -> nblock s < M) -> rle_character s = ch ->
  Post p l (fin rs ch s l).
Proof.
  pose proof max_run_gt4 as HMAX.
  assert (Hexit : forall l rs s p t,
    ViewB p s (blk_of (runs_rev p)) -> nblock s <= M -> runs_rev p = (ch, rs) :: t ->
    (4 <= rs -> nblock s < M) ->
    q_ge s && (q_gt s || ((rs =? 3) && lookahead l ch)) = true ->
    Post p l (done s (-1)%Z l)).
  { intros l rs s p t HV Hn E Hroom T. pose proof (viewB_max _ _ _ HV) as Hm.
    apply andb_true_iff in T. destruct T as (Qe & T). apply q_ge_iff in Qe; [|exact Hm].
    exists []. split; [reflexivity|]. right. rewrite app_nil_r.
    destruct (q_gt s) eqn:Q.
    - apply q_gt_iff in Q; [|exact Hm]. assert (rs < 4) by lia.
      apply full_exit.
      + eapply viewB_eq; [exact HV|]. rewrite E. apply blk_of_closed. left. assumption.
      + lia.
      + intros c n t0 Ec. rewrite E in Ec. inversion Ec; subst. left. assumption.
    - apply q_gt_false in Q; [|exact Hm]. cbn [orb] in T. apply andb_true_iff in T.
      destruct T as (T3 & L). apply N.eqb_eq in T3. subst rs.
      destruct l as [|c0 r]; [discriminate|]. cbn [lookahead] in L. apply N.eqb_eq in L. subst c0.
      apply (look_exit _ _ ch t r); [|lia|exact E].
      eapply viewB_eq; [exact HV|]. rewrite E. apply blk_of_closed. left. lia. }
  assert (Hcont : forall l rs s,
    max_block_size s = M ->
    q_ge s && (q_gt s || ((rs =? 3) && lookahead l ch)) = false ->
    nblock s < M /\ (rs = 3 -> lookahead l ch = true -> nblock s + 1 < M)).
  { intros l rs s Hm T. destruct (q_ge s) eqn:Qe.
    - cbn [andb] in T. apply orb_false_iff in T. destruct T as (Q & T).
      apply q_gt_false in Q; [|exact Hm]. split; [exact Q|]. intros -> L. rewrite L in T. discriminate.
    - apply q_ge_false in Qe; [|exact Hm]. split; [lia|]. intros; exact Qe. }
  induction l as [|c l' IH]; intros rs s p t HV Hn E H1 Hlt Hroom Hch; cbn [fin];
    pose proof (viewB_max _ _ _ HV) as Hm;
    match goal with |- context [if ?T then _ else _] => destruct T eqn:Tst end;
    try (eapply Hexit; eassumption);
    apply Hcont in Tst; try exact Hm; destruct Tst as (Hn' & Hlk).
  - exists []. split; [reflexivity|]. left. rewrite app_nil_r.
    split; [reflexivity|]. split; [exact HV|split; [exact Hn'|]].
    rewrite E, ltb_max_true by lia. split; [reflexivity|exact Hch].
  - destruct (N.leb_spec 4 rs) as [H4|H4].
    + eapply fin4_spec; eassumption.
    + destruct (N.eqb_spec c ch) as [->|Hne]; cbn [negb].
      * apply post_cons.
        assert (E' : runs_rev (p ++ [ch]) = (ch, rs + 1) :: t)
          by (rewrite runs_rev_snoc, E, push_same by lia; reflexivity).
        apply (IH (rs + 1) (put (crcu s ch) ch) (p ++ [ch]) t); try lia; try assumption.
        -- eapply viewB_eq; [apply viewB_put, viewB_crcu; exact HV|]. rewrite E, E'.
           destruct (N.eq_dec rs 3) as [->|H3].
           ++ rewrite blk_of_lt4, blk_of_mid by lia. reflexivity.
           ++ rewrite !blk_of_lt4 by lia. rewrite N.add_1_r, N2Nat.inj_succ. reflexivity.
        -- cbn [put crcu nblock]. lia.
        -- cbn [put crcu nblock]. intro H5. assert (rs = 3) by lia.
           assert (nblock s + 1 < M); [|lia]. apply Hlk; [assumption|]. cbn [lookahead]. apply N.eqb_refl.
      * apply state0_spec.
        -- eapply viewB_eq; [exact HV|]. rewrite E. apply blk_of_closed. left. exact H4.
        -- lia.
        -- right. exists ch, rs, t. split; [exact E|]. right. exists c, l'. split; [reflexivity|exact Hne].
Qed.

Lemma collect_spec p s l : Inv p s -> Post p l (collect s l).
Proof.
  intros (HV & Hn & Hst). unfold collect. destruct (runs_rev p) as [|[c n] t] eqn:E.
  - rewrite Hst. cbn [Z.eqb]. apply state0_spec; [rewrite E; exact HV|lia|left; exact E].
  - pose proof (runs_rev_head_pos _ _ _ _ E) as Hpos.
    destruct (N.ltb_spec n MAX_RUN_LENGTH) as [Hlt|Hge].
    + destruct Hst as (Hs & Hc). rewrite Hs.
      destruct (Z.eqb_spec (Z.of_N n) 0) as [Hz|Hz]; [lia|].
      rewrite N2Z.id, Hc. eapply fin_spec; try eassumption; try lia.
      rewrite E. exact HV.
    + rewrite Hst. cbn [Z.eqb]. apply state0_spec.
      * eapply viewB_eq; [exact HV|]. rewrite E. apply blk_of_closed. right. exact Hge.
      * lia.
      * right. exists c, n, t. split; [exact E|]. left. exact Hge.
Qed.

End Machine.

(* ---------------------------------------------------------------------- *)
(* drivers                                                                   *)
(* ---------------------------------------------------------------------- *)
(* what the specification says a block made from input stretch g looks like *)
Definition spec_blk (g : list N) : out_blk := mkob (rle1 g) (N.of_nat (length g)) (crc_of g).

Lemma greedy_spec_whole M cur : cur <> [] -> fits M cur = true -> greedy_spec M cur = Some [cur].
Proof.
  intros Hne Hf. rewrite <- (app_nil_r cur) at 1.
  rewrite greedy_spec_cut; [reflexivity|exact Hne|exact Hf|left; reflexivity].
Qed.

Section Drivers.
Variable M : N.
Hypothesis HM : 0 < M.

Lemma init_inv : Inv M [] (encoder_init M).
Proof.
  destruct init_consts as (A & B & C). unfold encoder_init. rewrite A, B, C.
  split; [|split; [exact HM|reflexivity]]. repeat split.
Qed.

Lemma blk_of_len c n t :
  N.of_nat (length (blk_of ((c, n) :: t))) + (if (4 <=? n) && (n <? MAX_RUN_LENGTH) then 1 else 0)
  = olen ((c, n) :: t).
Proof.
  pose proof max_run_gt4. rewrite olen_cons. unfold elen, olen.
  destruct (N.leb_spec 4 n) as [H4|H4]; destruct (N.ltb_spec n MAX_RUN_LENGTH) as [Hm|Hm]; cbn [andb].
  - rewrite blk_of_mid by lia. destruct (N.ltb_spec n 4); [lia|]. cbn [length]. lia.
  - rewrite blk_of_max by lia. destruct (N.ltb_spec n 4); [lia|]. cbn [length]. lia.
  - rewrite blk_of_lt4 by lia. destruct (N.ltb_spec n 4); [|lia]. rewrite app_length, repeat_length. lia.
  - lia.
Qed.

Lemma inv_fits p s : Inv M p s -> fits M p = true.
Proof.
  intros ((_ & _ & Hn & _) & Hlt & _). apply fits_iff.
  destruct (runs_rev p) as [|[c n] t] eqn:E.
  - rewrite olen_nil. lia.
  - rewrite <- blk_of_len. unfold run in *.
    destruct ((4 <=? n) && (n <? MAX_RUN_LENGTH)); lia.
Qed.

Lemma inv_not_full p s : Inv M p s -> full s = false.
Proof.
  intros (_ & _ & Hst). unfold full. apply Z.ltb_ge.
  destruct (runs_rev p) as [|[c n] t]; [lia|].
  destruct (n <? MAX_RUN_LENGTH); [destruct Hst|]; lia.
Qed.

Lemma fullst_full p s rem : FullSt M p s rem -> full s = true.
Proof. intros (Hs & _). unfold full. rewrite Hs. reflexivity. Qed.

Lemma fullst_nonempty p s rem : FullSt M p s rem -> p <> [].
Proof.
  intros (_ & _ & _ & Hstop) ->.
  destruct rem as [|d r].
  - specialize (Hstop 0 (or_introl eq_refl)). cbn [app] in Hstop. rewrite fits_single in Hstop by exact HM. discriminate.
  - specialize (Hstop d (or_intror (ex_intro _ r eq_refl))). cbn [app] in Hstop.
    rewrite fits_single in Hstop by exact HM. discriminate.
Qed.

Lemma finish_inv p s w : Inv M p s -> finish_block s w = mkob (rle1 p) w (crc_of p).
Proof.
  pose proof max_run_gt4.
  destruct flush_consts as (F1 & F2).
  intros ((_ & Hb & _ & Hc) & _ & Hst). unfold finish_block, flush. rewrite F1, F2, rle1_out_rev.
  change (Z.of_N 4) with 4%Z.
  destruct (runs_rev p) as [|[c n] t] eqn:E.
  - rewrite Hst. cbn [Z.leb Z.compare]. rewrite Hb, Hc. reflexivity.
  - destruct (N.ltb_spec n MAX_RUN_LENGTH) as [Hlt|Hge].
    + destruct Hst as (Hs & _). rewrite Hs.
      destruct (Z.leb_spec 4 (Z.of_N n)) as [H4|H4].
      * cbn [put blk block_crc]. rewrite Hb, Hc, blk_of_mid, out_rev_ge4 by lia.
        replace (Z.to_N (Z.of_N n - 4)) with (n - 4) by lia. reflexivity.
      * rewrite Hb, Hc, blk_of_closed by lia. reflexivity.
    + rewrite Hst. cbn [Z.leb Z.compare]. rewrite Hb, Hc, blk_of_closed by lia. reflexivity.
Qed.

Lemma finish_full p s rem w : FullSt M p s rem -> finish_block s w = mkob (rle1 p) w (crc_of p).
Proof.
  destruct flush_consts as (F1 & F2).
  intros (Hs & (_ & Hb & _ & Hc) & _). unfold finish_block, flush. rewrite F1, F2, Hs.
  change (Z.of_N 4) with 4%Z. cbn [Z.leb Z.compare].
  rewrite rle1_out_rev, Hb, Hc. reflexivity.
Qed.

Lemma consumed_app l1 rem : consumed_of (l1 ++ rem) rem = N.of_nat (length l1).
Proof. unfold consumed_of. rewrite app_length. f_equal. lia. Qed.

(* one collect() call, as seen by the drivers *)
Lemma collect_result p s b s' rem :
  Inv M p s -> collect s b = (s', rem) ->
  exists l1, b = l1 ++ rem /\
    ((rem = [] /\ Inv M (p ++ l1) s') \/ FullSt M (p ++ l1) s' rem).
Proof.
  intros HI E. pose proof (collect_spec M HM p s b HI) as HP. rewrite E in HP. exact HP.
Qed.

(* ---- default mode: do_collect ------------------------------------------------ *)
Lemma collect_chunk_spec : forall fuel b, b <> [] -> (length b < fuel)%nat ->
  exists G, greedy_spec M b = Some G /\ collect_chunk fuel M b = Some (map spec_blk G).
Proof.
  induction fuel as [|f IH]; intros b Hne Hlen; [lia|].
  cbn [collect_chunk]. destruct (collect (encoder_init M) b) as [s' rem] eqn:E.
  destruct (collect_result [] _ b s' rem init_inv E) as (l1 & Eb & [(Hr & HI)|HF]); cbn [app] in *.
  - subst rem. rewrite app_nil_r in Eb. subst l1.
    exists [b]. split.
    + apply greedy_spec_whole; [exact Hne|]. exact (inv_fits _ _ HI).
    + rewrite (finish_inv _ _ _ HI). unfold consumed_of. cbn [length map]. rewrite Nat.sub_0_r. reflexivity.
  - pose proof (fullst_nonempty _ _ _ HF) as Hl1.
    rewrite (finish_full _ _ _ _ HF). subst b. rewrite consumed_app.
    destruct HF as (_ & _ & Hfit & Hstop).
    destruct rem as [|d r].
    + exists [l1]. rewrite app_nil_r. split; [apply greedy_spec_whole; assumption|reflexivity].
    + destruct (IH (d :: r)) as (G' & HG & HC); [discriminate| |].
      { rewrite app_length in Hlen. destruct l1; [congruence|]. cbn [length] in *. lia. }
      exists (l1 :: G'). split.
      * rewrite greedy_spec_cut; [rewrite HG; reflexivity|exact Hl1|exact Hfit|].
        right. exists d, r. split; [reflexivity|]. apply Hstop. right. exists r. reflexivity.
      * rewrite HC. reflexivity.
Qed.

Lemma run_default_spec : forall bufs,
  exists G, greedy_each M bufs = Some G /\ run_default M bufs = Some (map spec_blk G).
Proof.
  induction bufs as [|b r (G & HG & HR)].
  - exists []. split; reflexivity.
  - destruct b as [|c b].
    + exists G. cbn [greedy_each run_default]. rewrite greedy_spec_nil, HG. split; [reflexivity|exact HR].
    + destruct (collect_chunk_spec (S (length (c :: b))) (c :: b)) as (G1 & H1 & H2); [discriminate|lia|].
      exists (G1 ++ G). cbn [greedy_each run_default]. rewrite H1, HG, H2, HR, map_app. split; reflexivity.
Qed.

(* ---- sequential mode: do_collect_seq ----------------------------------------- *)
Definition Abs (unf : option (enc * N)) (p : list N) : Prop :=
  match unf with
  | None => p = []
  | Some (s, w) => Inv M p s /\ w = N.of_nat (length p) /\ p <> []
  end.

Definition bit (unf : option (enc * N)) : nat := match unf with Some _ => 1 | None => 0 end.

Lemma seq_buf_spec : forall fuel b unf p, Abs unf p -> b <> [] -> (2 * length b + bit unf < fuel)%nat ->
  exists G u' p', seq_buf fuel M unf b = Some (map spec_blk G, u') /\ Abs u' p' /\
    forall y, greedy_spec M (p ++ b ++ y) =
              match greedy_spec M (p' ++ y) with Some g => Some (G ++ g) | None => None end.
Proof.
  induction fuel as [|f IH]; intros b unf p HA Hne Hfuel; [lia|].
  cbn [seq_buf].
  assert (Hsw : exists s w, match unf with Some sw => sw | None => (encoder_init M, 0) end = (s, w) /\
                            Inv M p s /\ w = N.of_nat (length p)).
  { destruct unf as [[s w]|]; cbn [Abs] in HA.
    - exists s, w. destruct HA as (A & B & _). auto.
    - subst p. exists (encoder_init M), 0. split; [reflexivity|]. split; [exact init_inv|reflexivity]. }
  destruct Hsw as (s & w & Esw & HI & Hw). rewrite Esw.
  destruct (collect s b) as [s' rem] eqn:E.
  destruct (collect_result p s b s' rem HI E) as (l1 & Eb & [(Hr & HI')|HF]).
  - (* buffer exhausted, block not full *)
    subst rem. rewrite app_nil_r in Eb. subst l1. rewrite (inv_not_full _ _ HI').
    exists [], (Some (s', w + consumed_of b [])), (p ++ b). split; [reflexivity|]. split.
    + cbn [Abs]. split; [exact HI'|]. split.
      * unfold consumed_of. rewrite app_length. cbn [length]. lia.
      * destruct b; [congruence|]. destruct p; discriminate.
    + intro y. rewrite app_assoc. destruct (greedy_spec M ((p ++ b) ++ y)); reflexivity.
  - (* block full *)
    rewrite (fullst_full _ _ _ HF).
    pose proof (fullst_nonempty _ _ _ HF) as Hpl.
    rewrite (finish_full _ _ _ (w + consumed_of b rem) HF).
    assert (Hw' : w + consumed_of b rem = N.of_nat (length (p ++ l1))).
    { subst b. rewrite consumed_app, app_length. lia. }
    rewrite Hw'. fold (spec_blk (p ++ l1)).
    destruct HF as (_ & _ & Hfit & Hstop).
    destruct rem as [|d r].
    + rewrite app_nil_r in Eb. subst l1.
      exists [p ++ b], None, []. split; [reflexivity|]. split; [reflexivity|].
      intro y. rewrite app_assoc. cbn [app].
      rewrite greedy_spec_cut; [reflexivity|exact Hpl|exact Hfit|].
      destruct y as [|d r]; [left; reflexivity|right].
      exists d, r. split; [reflexivity|]. apply Hstop. left. reflexivity.
    + destruct (IH (d :: r) None []) as (G' & u' & p' & HS & HA' & HG); [reflexivity|discriminate| |].
      { cbn [bit]. subst b. rewrite app_length in Hfuel. cbn [length] in *.
        destruct l1 as [|x l1]; cbn [length] in *; [|lia].
        rewrite app_nil_r in Hpl. destruct unf as [sw|]; cbn [bit Abs] in *; [lia|congruence]. }
      rewrite HS. exists ((p ++ l1) :: G'), u', p'. split; [reflexivity|]. split; [exact HA'|].
      intro y. subst b. rewrite <- app_assoc, app_assoc.
      rewrite greedy_spec_cut; [|exact Hpl|exact Hfit|].
      * specialize (HG y). cbn [app] in HG. cbn [app]. rewrite HG.
        destruct (greedy_spec M (p' ++ y)); reflexivity.
      * right. exists d, (r ++ y). split; [reflexivity|]. apply Hstop. right. exists r. reflexivity.
Qed.

Lemma run_seq_go_spec : forall bufs unf p, Abs unf p ->
  exists G, greedy_spec M (p ++ concat bufs) = Some G /\ run_seq_go M unf bufs = Some (map spec_blk G).
Proof.
  induction bufs as [|b r IH]; intros unf p HA.
  - cbn [concat run_seq_go]. rewrite app_nil_r. destruct unf as [[s w]|]; cbn [Abs] in HA.
    + destruct HA as (HI & Hw & Hne). exists [p]. split.
      * apply greedy_spec_whole; [exact Hne|exact (inv_fits _ _ HI)].
      * rewrite (finish_inv _ _ _ HI), Hw. reflexivity.
    + subst p. exists []. split; reflexivity.
  - destruct b as [|c b].
    + cbn [concat run_seq_go app]. apply IH. exact HA.
    + destruct (seq_buf_spec (2 * length (c :: b) + 2) (c :: b) unf p HA) as (G1 & u' & p' & HS & HA' & HG);
        [discriminate|destruct unf; cbn [bit]; lia|].
      destruct (IH u' p' HA') as (G2 & HG2 & HR2).
      exists (G1 ++ G2). cbn [concat]. split.
      * rewrite HG, HG2. reflexivity.
      * cbn [run_seq_go]. rewrite HS, HR2, map_app. reflexivity.
Qed.

Theorem collect_run_greedy : forall sequential bufs,
  exists G, spec_blocks sequential M bufs = Some G /\
            collect_run sequential M bufs = Some (map spec_blk G).
Proof.
  intros [|] bufs; unfold spec_blocks, collect_run.
  - destruct (run_seq_go_spec bufs None [] eq_refl) as (G & H1 & H2). exists G. split; assumption.
  - apply run_default_spec.
Qed.

End Drivers.

(* ---------------------------------------------------------------------- *)
(* the specification is what its name says                                   *)
(* ---------------------------------------------------------------------- *)
(* declarative reading of "repeatedly take the longest prefix that fits" *)
Inductive GreedyCut (M : N) : list N -> list (list N) -> Prop :=
| GC_nil : GreedyCut M [] []
| GC_cons p rest G :
    p <> [] -> fits M p = true ->
    (forall k, (length p < k <= length (p ++ rest))%nat -> fits M (firstn k (p ++ rest)) = false) ->
    GreedyCut M rest G -> GreedyCut M (p ++ rest) (p :: G).

Lemma greedy_go_sound M : forall f x G, greedy_go f M x = Some G -> GreedyCut M x G.
Proof.
  induction f as [|f IH]; intros x G H.
  - destruct x; [inversion H; constructor|discriminate].
  - destruct x as [|c x]; [inversion H; constructor|].
    rewrite greedy_go_unfold in H by discriminate.
    remember (c :: x) as y eqn:Ey.
    destruct (longest_from_spec M y (length y)) as (A & B & C).
    fold (longest_fit M y) in A, B, C.
    destruct (longest_fit M y) as [|k] eqn:Ek; [discriminate|].
    destruct (greedy_go f M (skipn (S k) y)) as [bs|] eqn:Eg; [|discriminate].
    assert (HG : G = firstn (S k) y :: bs) by (injection H; auto). clear H. subst G.
    assert (Hlen : length (firstn (S k) y) = S k) by (rewrite firstn_length; lia).
    pose proof (firstn_skipn (S k) y) as Hy.
    remember (firstn (S k) y) as pre eqn:Epre. remember (skipn (S k) y) as suf eqn:Esuf.
    rewrite <- Hy. constructor.
    + intro E0. rewrite E0 in Hlen. discriminate.
    + exact B.
    + rewrite Hy, Hlen. intros k2 Hk2.
      destruct (fits M (firstn k2 y)) eqn:F; [|reflexivity].
      apply C in F; lia.
    + apply IH. exact Eg.
Qed.

Theorem greedy_spec_sound M x G : greedy_spec M x = Some G -> GreedyCut M x G.
Proof. apply greedy_go_sound. Qed.

Lemma GreedyCut_concat M x G : GreedyCut M x G -> concat G = x.
Proof. induction 1; [reflexivity|]. cbn [concat]. congruence. Qed.

(* "takes a fourth equal byte only when both it and its count fit" *)
Lemma fourth_byte_needs_two M p c t :
  runs_rev p = (c, 3) :: t -> rle1_len p + 1 = M -> fits M p = true /\ fits M (p ++ [c]) = false.
Proof.
  intros E H. pose proof max_run_gt4. rewrite rle1_len_olen in H. split.
  - apply fits_iff. lia.
  - apply fits_false_iff. rewrite runs_rev_snoc, E, push_same by lia.
    rewrite E, olen_cons in H. rewrite olen_cons.
    change (elen 3) with 3 in H. change (elen (3 + 1)) with 5. lia.
Qed.

(* run lengths never exceed MAX_RUN_LENGTH, so the count is a byte *)
Lemma runs_rev_bounds p :
  Forall (fun x => x < 256) p ->
  Forall (fun r : run => fst r < 256 /\ 1 <= snd r /\ snd r <= MAX_RUN_LENGTH) (runs_rev p).
Proof.
  pose proof max_run_gt4.
  induction p as [|d p IH] using rev_ind; intro HF; [constructor|].
  apply Forall_app in HF. destruct HF as (HFp & HFd). inversion HFd; subst.
  specialize (IH HFp). rewrite runs_rev_snoc. unfold push_byte.
  destruct (runs_rev p) as [|[c n] t].
  - constructor; [cbn; lia|constructor].
  - inversion IH as [|? ? (A & B & C) IHt]; subst. cbn [fst snd] in *.
    destruct (N.eqb_spec d c); destruct (N.ltb_spec n MAX_RUN_LENGTH); cbn [andb].
    + constructor; [cbn [fst snd]; lia|exact IHt].
    + constructor; [cbn [fst snd]; lia|exact IH].
    + constructor; [cbn [fst snd]; lia|exact IH].
    + constructor; [cbn [fst snd]; lia|exact IH].
Qed.

Theorem rle1_bytes p : Forall (fun x => x < 256) p -> Forall (fun x => x < 256) (rle1 p).
Proof.
  intro HF. pose proof max_run_count_is_byte. unfold rle1, runs.
  apply Forall_flat_map. apply Forall_rev. eapply Forall_impl; [|apply runs_rev_bounds; exact HF].
  intros [c n] (A & B & C). cbn [fst snd] in *. unfold emit_run.
  destruct (n <? 4).
  - apply Forall_forall. intros x Hx. apply repeat_spec in Hx. subst. exact A.
  - repeat constructor; try exact A. lia.
Qed.

(* ---------------------------------------------------------------------- *)
(* cutting the input into pieces (default mode)                              *)
(* ---------------------------------------------------------------------- *)
Fixpoint all_but_last_full (k : nat) (ps : list (list N)) : Prop :=
  match ps with
  | [] => True
  | b :: r => match r with [] => True | _ :: _ => length b = k end /\ all_but_last_full k r
  end.

Lemma cut_go_spec k : (0 < k)%nat -> forall fuel x, (length x <= fuel)%nat ->
  exists ps, cut_go fuel k x = Some ps /\ concat ps = x /\
             Forall (fun b => b <> [] /\ (length b <= k)%nat) ps /\ all_but_last_full k ps.
Proof.
  intros Hk. induction fuel as [|f IH]; intros x Hlen.
  - destruct x; [|simpl in Hlen; lia]. exists []. repeat split. constructor.
  - destruct x as [|c x]; [exists []; repeat split; constructor|].
    destruct k as [|k']; [lia|]. cbn [cut_go].
    destruct (IH (skipn (S k') (c :: x))) as (ps & E & Hc & HF & HL).
    { rewrite skipn_length. cbn [length] in *. lia. }
    rewrite E. exists (firstn (S k') (c :: x) :: ps). split; [reflexivity|]. split; [|split].
    + cbn [concat]. rewrite Hc. apply firstn_skipn.
    + constructor; [|exact HF]. split; [discriminate|]. rewrite firstn_length. lia.
    + cbn [all_but_last_full]. split; [|exact HL].
      destruct ps as [|b r]; [exact I|].
      rewrite firstn_length. destruct (Nat.le_gt_cases (S k') (length (c :: x))) as [Hle|Hgt]; [lia|].
      rewrite skipn_all2 in Hc by lia. cbn [concat] in Hc.
      inversion HF as [|? ? (Hb & _) _]; subst. destruct b; [congruence|discriminate].
Qed.

Lemma cut_spec M x : 0 < M ->
  exists ps, cut M x = Some ps /\ concat ps = x /\
             Forall (fun b => b <> [] /\ (length b <= N.to_nat M)%nat) ps /\
             all_but_last_full (N.to_nat M) ps.
Proof. intro H. unfold cut. apply cut_go_spec; lia. Qed.

(* ---------------------------------------------------------------------- *)
(* the two modes of the program                                              *)
(* ---------------------------------------------------------------------- *)
Theorem modes_spec : forall lvl x, 1 <= lvl -> lvl <= 9 ->
  let M := lvl * 100000 in
  (* --sequential: whatever way the input reaches collect(), greedy over everything *)
  (forall bufs, concat bufs = x ->
     exists G, greedy_spec M x = Some G /\ collect_run true M bufs = Some (map spec_blk G)) /\
  (* default: the input is cut into M-byte pieces, each packed on its own *)
  (exists pieces G, cut M x = Some pieces /\ concat pieces = x /\
     all_but_last_full (N.to_nat M) pieces /\
     greedy_each M pieces = Some G /\ collect_run false M pieces = Some (map spec_blk G)).
Proof.
  intros lvl x H1 H9 M. assert (HM : 0 < M) by (unfold M; lia). split.
  - intros bufs <-. exact (collect_run_greedy M HM true bufs).
  - destruct (cut_spec M x HM) as (ps & E & Hc & _ & HL).
    destruct (collect_run_greedy M HM false ps) as (G & HG & HR).
    exists ps, G. repeat split; assumption.
Qed.

(* field-wise reading of collect_run_greedy *)
Theorem collect_run_greedy_fields : forall M sequential bufs, 0 < M ->
  exists G obs, spec_blocks sequential M bufs = Some G /\ collect_run sequential M bufs = Some obs /\
    map ob_bytes obs = map rle1 G /\
    map ob_weight obs = map (fun g => N.of_nat (length g)) G /\
    map ob_crc obs = map crc_of G.
Proof.
  intros M sq bufs HM. destruct (collect_run_greedy M HM sq bufs) as (G & H1 & H2).
  exists G, (map spec_blk G). split; [exact H1|]. split; [exact H2|].
  rewrite !map_map. repeat split; apply map_ext; reflexivity.
Qed.

Theorem collect_call_spec : forall M p s l, 0 < M -> Inv M p s -> Post M p l (collect s l).
Proof. intros M p s l HM. apply collect_spec. exact HM. Qed.

(* the specification is total for every positive capacity (fuel never runs out) *)
Theorem greedy_spec_total : forall M x, 0 < M -> exists G, greedy_spec M x = Some G.
Proof.
  intros M x HM. destruct (collect_run_greedy M HM true [x]) as (G & H & _).
  unfold spec_blocks in H. cbn [concat] in H. rewrite app_nil_r in H. exists G. exact H.
Qed.
