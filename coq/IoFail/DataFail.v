(* C07 (process level) - a DATA error detected while decompressing: executable model.

   The fatal-exit machinery is the one of C21 (IoFail/IoFailModel.v: [cfg], [core], [cstep],
   [step], [run], the interpreter [exec_op] of the operations transcribed from signals.c /
   main.c).  What is new here is WHO enters it and WITH WHAT:

   * a call site of Gen/DataFailTab.v [data_sites] (regenerated from expand.c / process.c on
     every run): `failf(&ispec, "compressed data error: %s", err2str(..))` in a task run by a
     worker thread (do_parse, do_reorder) or `failf(&ispec, "not a valid bzip2 file")` in work()
     on the main thread.  The call statement is the operation list [ds_ops] of the site
     ([OpFail bail uses_errno] with the columns of the DEF() row of the logging function).
   * no errno (the x argument of the DEF row is the literal 0, so the EPIPE/EFBIG silence rule
     of the logging macro is evaluated at 0) and no accompanying signal: [data_fenv].
   * the failing thread F is that worker thread (or F does not exist and the main thread
     itself executes the list, inside work()); the main thread is on its way to sigsuspend()
     in halt() or already suspended; every other thread is arbitrary.

   The text that reaches stderr is rendered from the regenerated pieces of log_generic(), the
   site's format string and the regenerated err2str() table (Gen/ErrTab.v): [render_line].

   Not modelled: a second, concurrent failure (I/O error or another data error at the same
   time), signals from outside, wall-clock time.  Completion of the pipeline (SIGUSR2) is
   possible only after the failing thread has returned to normal work, as in C21; for worker
   tasks this rests on the scheduler's accounting (the task still holds its work unit /
   output slot, so can_terminate() is false: SchedX) and on the call being made with the
   scheduler lock held, which the dying thread never releases ([data_structure_ok]:
   lock_held_at, order of calls in worker_thread_proc()) -- an assumption of the model, backed
   by these syntactic side conditions only. *)
From Coq Require Import List NArith Bool String Ascii Arith.
From LBZ Require Import Gen.IoFailTab Gen.DataFailTab Gen.Consts Gen.ErrTab IoFail.IoFailModel.
Import ListNotations.
Local Open Scope N_scope.

(* ------------------------------------------------------------------ *)
(* who fails, and the initial state                                     *)
(* ------------------------------------------------------------------ *)
Definition on_main (s : data_site) : bool :=
  match ds_thread s with ThMain => true | _ => false end.

(* no errno, no signal generated together with the error.  [fe_role] is read only by
   IoFailModel.init_core, which is not used here; its value is irrelevant. *)
Definition data_fenv (c : cfg) : fenv :=
  {| fe_role := RReader;
     fe_logp := (c_logc c true 0, c_logc c false 0);
     fe_sig := None; fe_sig_default := true |}.

(* state at the moment the logging function is called *)
Definition data_init_core (onm : bool) (ops : list op) (main_suspended : bool) : core :=
  {| k_f := if onm then FNone else FOps ops;
     k_m := if onm then MOps InWork ops else if main_suspended then MSusp else MPre;
     k_pend_f := []; k_pend_m := []; k_pend_p := [];
     k_unb_f := []; k_unb_m := [];
     k_lock := None; k_caught := None; k_printed := 0;
     k_started := negb onm; k_odone := false; k_fdone := false; k_completed := false;
     k_res := None |}.

Definition data_init (s : data_site) (main_suspended : bool) : core :=
  data_init_core (on_main s) (ds_ops s) main_suspended.

Definition run_data_cfg (c : cfg) (s : data_site) (main_suspended : bool)
           (others : list ostate) (sch : list event) : state :=
  run c (data_fenv c) {| s_core := data_init s main_suspended; s_others := others |} sch.

(* entry point: the regenerated configuration *)
Definition run_data (s : data_site) (main_suspended : bool) (others : list ostate) (sch : list event) : state :=
  run_data_cfg gen_cfg s main_suspended others sch.

(* prediction = the canonical schedule (failing thread, then main, nobody else moves) *)
Definition data_canon (c : cfg) (s : data_site) : core :=
  run_core c (data_fenv c) (data_init s false) canon_sched.
Definition data_predict (s : data_site) : option outcome * N :=
  (k_res (data_canon gen_cfg s), k_printed (data_canon gen_cfg s)).

(* ------------------------------------------------------------------ *)
(* the text of the diagnostic                                           *)
(* ------------------------------------------------------------------ *)
Local Open Scope string_scope.

(* printf with %s directives only: successive arguments replace successive "%s" *)
Fixpoint fill (fmt : string) (args : list string) : string :=
  match fmt with
  | EmptyString => EmptyString
  | String "%" (String "s" r) =>
    match args with
    | a :: t => a ++ fill r t
    | [] => fill r []
    end
  | String ch r => String ch (fill r args)
  end.

Fixpoint name_index (s : string) (l : list string) : option nat :=
  match l with
  | [] => None
  | h :: t => if String.eqb s h then Some O else option_map S (name_index s t)
  end.

(* value of an enumerator of `enum error` (common.h, Gen/Consts.v [error_names]) *)
Definition code_of_name (n : string) : option N := option_map N.of_nat (name_index n error_names).

(* expand.c err2str(): table[err - ERR_MAGIC], defined on the asserted range only *)
Definition err2str (code : N) : option string :=
  if (N.leb E_ERR_MAGIC code && N.leb code E_ERR_EOF)%bool
  then nth_error err_messages (N.to_nat (code - E_ERR_MAGIC)) else None.

(* can the site report this error code? *)
Definition optN_eqb (a b : option N) : bool :=
  match a, b with Some x, Some y => N.eqb x y | None, None => true | _, _ => false end.
Definition site_admits (s : data_site) (code : N) : bool :=
  match ds_arg s with
  | ArgConst n => optN_eqb (code_of_name n) (Some code)
  | _ => true
  end.

(* the formatted message (vfprintf(stderr, fmt, args)) *)
Definition site_message (s : data_site) (code : N) : option string :=
  match ds_arg s with
  | ArgNone => Some (ds_fmt s)
  | ArgConst n =>
    match code_of_name n with
    | Some c => option_map (fun m => fill (ds_fmt s) [m]) (err2str c)
    | None => None
    end
  | ArgVar _ => option_map (fun m => fill (ds_fmt s) [m]) (err2str code)
  end.

Definition newline : string := String (ascii_of_nat 10) EmptyString.

(* log_generic(fs, 0, fmt, args, nl): the x argument of the data-error rows is 0, so the
   strerror piece is not printed *)
Definition render_piece (pname sep fsname msg : string) (filespec nl : bool) (p : log_piece) : string :=
  match p with
  | LpPname f => fill f [pname]
  | LpFilespec f => if filespec then fill f [sep; fsname; sep] else ""
  | LpMessage => msg
  | LpStrerror _ => ""
  | LpNewline => if nl then newline else ""
  | LpFlush => ""
  end.

Definition render_line (pname sep fsname : string) (s : data_site) (code : N) : option string :=
  match site_message s code with
  | Some msg => Some (concat "" (map (render_piece pname sep fsname msg (ds_filespec s) (ds_nl s)) log_generic_pieces))
  | None => None
  end.

Local Close Scope string_scope.

(* ------------------------------------------------------------------ *)
(* what must hold in every reachable state                              *)
(* ------------------------------------------------------------------ *)
Definition outcome_is_exit1 (o : outcome) : bool :=
  match o with Exited n => N.eqb n 1 | Killed _ => false end.

Definition dgood (c : cfg) (e : fenv) (k : core) : bool :=
  (* 1. a final state is "exit status 1, exactly one diagnostic printed"; a non-final state
        has an own step that makes progress *)
  match k_res k with
  | Some o => outcome_is_exit1 o && N.eqb (k_printed k) 1
  | None => existsb (fun ev => Nat.ltb (mu c (cstep c e ev k)) (mu c k)) own_events
  end
  (* 2. success is never signalled or reported; never more than one diagnostic *)
  && negb (k_completed k)
  && match k_m k with MReturned => false | _ => true end
  && N.leb (k_printed k) 1
  (* 3. the diagnostic precedes everything else: once a handler has run (SIGUSR1 caught), or
        the failing thread is gone, or main is in halt()'s dispatch, it is on stderr *)
  && match k_caught k with Some _ => N.eqb (k_printed k) 1 | None => true end
  && match k_f k with FDead => N.eqb (k_printed k) 1 | _ => true end
  && match k_m k with MOps InHalt _ => N.eqb (k_printed k) 1 | _ => true end
  (* 4. the failing thread never returns to normal work *)
  && match k_f k with FLive => false | _ => true end
  (* 5. own steps either do nothing or decrease the measure; others never increase it *)
  && forallb (fun ev => core_eqb (cstep c e ev k) k || Nat.ltb (mu c (cstep c e ev k)) (mu c k)) own_events
  && forallb (fun ev => Nat.leb (mu c (cstep c e ev k)) (mu c k)) env_events.

Definition dcheck_set (c : cfg) (e : fenv) (k0 : core) (S : list core) : bool :=
  memb k0 S && closedb c e S && forallb (dgood c e) S.

Definition dcheck (c : cfg) (e : fenv) (k0 : core) : bool :=
  dcheck_set c e k0 (explore c e explore_fuel [] [k0]).

(* every site, main suspended or not yet *)
Definition all_data_inits (sites : list data_site) : list core :=
  flat_map (fun s => map (data_init s) bools) sites.

Definition dcheck_all (c : cfg) (sites : list data_site) : bool :=
  forallb (dcheck c (data_fenv c)) (all_data_inits sites).

Definition gen_dcheck_all : bool := dcheck_all gen_cfg data_sites.

Definition data_mu_cap : nat := 64.
Definition data_mu_ok (c : cfg) (sites : list data_site) : bool :=
  forallb (fun k => Nat.leb (mu c k) data_mu_cap) (all_data_inits sites).

(* ------------------------------------------------------------------ *)
(* static side conditions on the regenerated tables                     *)
(* ------------------------------------------------------------------ *)
Definition is_printing (o : op) : bool :=
  match o with OpPrint | OpFail _ _ => true | _ => false end.
Definition is_exit (o : op) : bool := match o with OpExit _ => true | _ => false end.
Definition is_cleanup (o : op) : bool := match o with OpCleanup => true | _ => false end.

Fixpoint cleanup_precedes_exit (seen : bool) (l : list op) : bool :=
  match l with
  | [] => true
  | o :: r => if is_exit o then seen else cleanup_precedes_exit (seen || is_cleanup o) r
  end.

Definition row_args (fn : string) : option (string * string) :=
  option_map snd (find (fun p => String.eqb (fst p) fn) def_row_args).

Definition site_row_ok (s : data_site) : bool :=
  match row_args (ds_logfn s) with
  | Some (f, x) => String.eqb x "0" && Bool.eqb (String.eqb f "f") (ds_filespec s)
  | None => false
  end.

(* Is the scheduler lock held when the call is made?  Syntactic: the task is entered with the
   lock held; replay, in source order, the lock operations of the enclosing function that
   precede the call (a callee listed in [lock_effects] contributes its own operations, e.g.
   attach() = unlock, detach() = lock). *)
Definition lock_ops_of (c : string) : list string :=
  match find (fun p => String.eqb (fst p) c) lock_effects with
  | Some p => snd p
  | None => [c]
  end.
Definition apply_lock_op (locked : bool) (c : string) : bool :=
  if String.eqb c "sched_lock" then true
  else if String.eqb c "sched_unlock" then false
  else locked.
Definition lock_held_at (s : data_site) : bool :=
  fold_left apply_lock_op (flat_map lock_ops_of (ds_lock_trace s)) true.

Definition site_thread_ok (s : data_site) : bool :=
  match ds_thread s with
  | ThMain => true
  | ThWorkerTask =>
    lock_held_at s && existsb (fun t => String.eqb (snd t) (ds_func s)) expansion_tasks
  | _ => false       (* a site on another thread needs its own completion argument *)
  end.

Definition no_warning_site : bool :=
  forallb (fun s => ds_bail s && negb (ds_warn s)) data_sites.

Definition is_warn_fn (fn : string) : bool :=
  match find (fun p => String.eqb (fst p) fn) def_rows with
  | Some (_, (_, _, w, _, _)) => w
  | None => true
  end.
Definition no_warn_call_in_decompression : bool :=
  forallb (fun c => negb (is_warn_fn (snd c))) decomp_log_calls.

Definition data_structure_ok : bool :=
  (* every site is a failf()-like call (errno argument literally 0) on a thread we model *)
  forallb site_row_ok data_sites && forallb site_thread_ok data_sites
  (* with errno 0 the logging macro always prints (the EPIPE/EFBIG rule does not apply) *)
  && def_log_cond true 0
  (* tasks run between xlock() and the first xunlock()/xwait() of worker_thread_proc() *)
  && before "xlock" "next_task->run" worker_calls && before "next_task->run" "xunlock" worker_calls
  && before "next_task->run" "xwait" worker_calls
  (* nothing but the failing call prints: bailout() and halt() are silent *)
  && negb (existsb is_printing (bailout_main_ops ++ bailout_sub_ops ++ halt_default
                                ++ flat_map snd halt_cases))
  (* the main thread removes the output file before it exits *)
  && cleanup_precedes_exit false bailout_main_ops && existsb is_exit bailout_main_ops
  (* handlers are installed before work() runs *)
  && before "setup_signals" "cli" main_calls && before "cli" "work" main_calls
  (* there is at least one worker site and one main-thread site *)
  && existsb on_main data_sites && existsb (fun s => negb (on_main s)) data_sites.

(* a warn()-like call (non-bail row): what it would do, for the record *)
Definition warn_ops : list op := [OpFail false false].
