(* C21 - I/O failures on filters terminate promptly: executable model.

   A small state machine of the threads involved when a read()/write() of a
   stdin->stdout filter run returns -1:

   * the FAILING thread F: the reader thread in xread(), the writer thread in
     xwrite(), the primary worker thread in write_header()/write_trailer(), or
     the MAIN thread itself (4-byte sniff read of work(), copy-mode header
     write).  It executes the operation list transcribed from the source
     (Gen/IoFailTab.v): x{read,write}_on_error -> DEF() logging macro ->
     bailout().
   * the MAIN thread: on its way to sigsuspend() in halt() (MPre), suspended
     (MSusp), or executing the halt() dispatch / bailout() operations.
   * signals: thread-directed pending sets of F and main, the process-level
     pending set, what each of the two threads has unblocked so far, the last
     signal a handler caught (caught_index), dispositions.
   * the stderr stdio lock (flockfile), the number of diagnostics printed.
   * the rest of the pipeline, abstracted: "all other pipeline threads did
     their part" (EvOthersDone), "F did its part" (EvFDone, only possible if F
     returned to normal work), and the completion signal SIGUSR2 (EvComplete,
     enabled only when both hold) -- this is the only way the other threads
     can influence the main thread;
   * every other thread may be in any state and change it arbitrarily
     (EvOther i s): running, blocked on a condition variable, blocked in
     read()/write(), exited.  Nothing in the core reads these.

   Everything taken from the source is a field of [cfg]; [gen_cfg] is the
   instance regenerated on every run.  The model is total and executable
   (no fuel except in the untrusted search [explore], whose result is
   re-checked by [closedb]).

   Not modelled (declared partiality of C21): wall-clock time, kernel signal
   delivery latency, pthread_create failures, signals sent from outside. *)
From Coq Require Import List NArith Bool String Arith.
From LBZ Require Import Gen.IoFailTab.
Import ListNotations.
Local Open Scope N_scope.

(* ------------------------------------------------------------------ *)
(* configuration = what is transcribed from the source                 *)
(* ------------------------------------------------------------------ *)
Record cfg := {
  c_blocked : list N;            (* blocked_signals[]: blocked in every thread by setup_signals *)
  c_cli_blocks : list N;         (* blocked by cli() (and inherited by the sub-threads) *)
  c_cli_handlers : list N;       (* handler installed by cli() *)
  c_saved_ok : bool;             (* sigsuspend() uses the mask saved by cli() *)
  c_halt_cases : list (N * list op);
  c_halt_default : list op;
  c_bail_main : list op;
  c_bail_sub : list op;
  c_prologue : list op;
  c_logc : bool -> N -> bool;    (* DEF(): message printed? (bail, errno argument) *)
  c_log_ops : list op;
  c_nobail : list op;
  c_bail_tail : list op;
  c_xread_err : list op;
  c_xwrite_err : list op;
  c_ex_ok : N;
  c_complete_sig : N;            (* raised by the pipeline on successful completion *)
  c_sigpipe : N; c_sigxfsz : N; c_epipe : N; c_efbig : N
}.

Definition gen_cfg : cfg := {|
  c_blocked := blocked_signals;
  c_cli_blocks := cli_blocks;
  c_cli_handlers := cli_handlers;
  c_saved_ok := halt_suspends_with_saved_mask;
  c_halt_cases := halt_cases;
  c_halt_default := halt_default;
  c_bail_main := bailout_main_ops;
  c_bail_sub := bailout_sub_ops;
  c_prologue := def_prologue;
  c_logc := def_log_cond;
  c_log_ops := def_log_ops;
  c_nobail := def_nobail_ops;
  c_bail_tail := def_bail_ops;
  c_xread_err := xread_on_error;
  c_xwrite_err := xwrite_on_error;
  c_ex_ok := EX_OK;
  c_complete_sig := SIGUSR2;
  c_sigpipe := SIGPIPE; c_sigxfsz := SIGXFSZ; c_epipe := EPIPE; c_efbig := EFBIG
|}.

(* ------------------------------------------------------------------ *)
(* who fails                                                            *)
(* ------------------------------------------------------------------ *)
Inductive role :=
| RSniffRead      (* main thread: xread(&header) in work() *)
| RCopyHdrWrite   (* main thread: xwrite(&header) before copy() *)
| RReader         (* source thread: xread() *)
| RWriter         (* sink thread: xwrite() *)
| RPrimaryHdr     (* primary worker thread: write_header() in init() *)
| RPrimaryTrl.    (* primary worker thread: write_trailer() in uninit() *)

Definition role_is_main (r : role) : bool :=
  match r with RSniffRead | RCopyHdrWrite => true | _ => false end.
Definition role_is_write (r : role) : bool :=
  match r with RSniffRead | RReader => false | _ => true end.
Definition on_error (c : cfg) (r : role) : list op :=
  if role_is_write r then c_xwrite_err c else c_xread_err c.

(* what the step function needs to know about the fault *)
Record fenv := {
  fe_role : role;
  fe_logp : bool * bool;         (* (c_logc true errno, c_logc false errno) *)
  fe_sig : option N;             (* signal generated for the failing thread together with the error *)
  fe_sig_default : bool          (* its disposition is SIG_DFL (false: SIG_IGN inherited) *)
}.

Definition sig_of_errno (c : cfg) (x : N) (generated : bool) : option N :=
  if generated then
    if N.eqb x (c_epipe c) then Some (c_sigpipe c)
    else if N.eqb x (c_efbig c) then Some (c_sigxfsz c) else None
  else None.

Definition fenv_of (c : cfg) (r : role) (x : N) (generated dfl : bool) : fenv :=
  {| fe_role := r; fe_logp := (c_logc c true x, c_logc c false x);
     fe_sig := sig_of_errno c x generated; fe_sig_default := dfl |}.

(* ------------------------------------------------------------------ *)
(* state                                                                *)
(* ------------------------------------------------------------------ *)
Inductive who := WMain | WF.
Inductive fstat := FNone | FOps (ops : list op) | FLive | FDead.
Inductive mctx := InWork | InHalt.
Inductive mstat := MPre | MSusp | MOps (ctx : mctx) (ops : list op) | MReturned | MDead.
Inductive outcome := Exited (code : N) | Killed (sig : N).

Record core := {
  k_f : fstat;
  k_m : mstat;
  k_pend_f : list N;     (* pending, directed at thread F *)
  k_pend_m : list N;     (* pending, directed at the main thread *)
  k_pend_p : list N;     (* pending for the process *)
  k_unb_f : list N;      (* signals F has unblocked *)
  k_unb_m : list N;      (* signals main has unblocked *)
  k_lock : option who;   (* owner of the stderr stdio lock *)
  k_caught : option N;   (* handled_signals[caught_index] *)
  k_printed : N;         (* diagnostics that reached stderr *)
  k_started : bool;      (* pipeline threads exist *)
  k_odone : bool;        (* all other pipeline threads have done their part *)
  k_fdone : bool;        (* thread F has done its part *)
  k_completed : bool;    (* the completion signal has been raised *)
  k_res : option outcome (* the process is gone *)
}.

Definition set_f (k : core) (f : fstat) : core :=
  {| k_f := f; k_m := k_m k; k_pend_f := k_pend_f k; k_pend_m := k_pend_m k; k_pend_p := k_pend_p k;
     k_unb_f := k_unb_f k; k_unb_m := k_unb_m k; k_lock := k_lock k; k_caught := k_caught k;
     k_printed := k_printed k; k_started := k_started k; k_odone := k_odone k; k_fdone := k_fdone k;
     k_completed := k_completed k; k_res := k_res k |}.
Definition set_m (k : core) (m : mstat) : core :=
  {| k_f := k_f k; k_m := m; k_pend_f := k_pend_f k; k_pend_m := k_pend_m k; k_pend_p := k_pend_p k;
     k_unb_f := k_unb_f k; k_unb_m := k_unb_m k; k_lock := k_lock k; k_caught := k_caught k;
     k_printed := k_printed k; k_started := k_started k; k_odone := k_odone k; k_fdone := k_fdone k;
     k_completed := k_completed k; k_res := k_res k |}.
Definition set_pend (k : core) (pf pm pp : list N) : core :=
  {| k_f := k_f k; k_m := k_m k; k_pend_f := pf; k_pend_m := pm; k_pend_p := pp;
     k_unb_f := k_unb_f k; k_unb_m := k_unb_m k; k_lock := k_lock k; k_caught := k_caught k;
     k_printed := k_printed k; k_started := k_started k; k_odone := k_odone k; k_fdone := k_fdone k;
     k_completed := k_completed k; k_res := k_res k |}.
Definition set_unb (k : core) (uf um : list N) : core :=
  {| k_f := k_f k; k_m := k_m k; k_pend_f := k_pend_f k; k_pend_m := k_pend_m k; k_pend_p := k_pend_p k;
     k_unb_f := uf; k_unb_m := um; k_lock := k_lock k; k_caught := k_caught k;
     k_printed := k_printed k; k_started := k_started k; k_odone := k_odone k; k_fdone := k_fdone k;
     k_completed := k_completed k; k_res := k_res k |}.
Definition set_lock (k : core) (l : option who) : core :=
  {| k_f := k_f k; k_m := k_m k; k_pend_f := k_pend_f k; k_pend_m := k_pend_m k; k_pend_p := k_pend_p k;
     k_unb_f := k_unb_f k; k_unb_m := k_unb_m k; k_lock := l; k_caught := k_caught k;
     k_printed := k_printed k; k_started := k_started k; k_odone := k_odone k; k_fdone := k_fdone k;
     k_completed := k_completed k; k_res := k_res k |}.
Definition set_caught (k : core) (s : option N) : core :=
  {| k_f := k_f k; k_m := k_m k; k_pend_f := k_pend_f k; k_pend_m := k_pend_m k; k_pend_p := k_pend_p k;
     k_unb_f := k_unb_f k; k_unb_m := k_unb_m k; k_lock := k_lock k; k_caught := s;
     k_printed := k_printed k; k_started := k_started k; k_odone := k_odone k; k_fdone := k_fdone k;
     k_completed := k_completed k; k_res := k_res k |}.
Definition set_printed (k : core) (n : N) : core :=
  {| k_f := k_f k; k_m := k_m k; k_pend_f := k_pend_f k; k_pend_m := k_pend_m k; k_pend_p := k_pend_p k;
     k_unb_f := k_unb_f k; k_unb_m := k_unb_m k; k_lock := k_lock k; k_caught := k_caught k;
     k_printed := n; k_started := k_started k; k_odone := k_odone k; k_fdone := k_fdone k;
     k_completed := k_completed k; k_res := k_res k |}.
Definition set_flags (k : core) (started odone fdone completed : bool) : core :=
  {| k_f := k_f k; k_m := k_m k; k_pend_f := k_pend_f k; k_pend_m := k_pend_m k; k_pend_p := k_pend_p k;
     k_unb_f := k_unb_f k; k_unb_m := k_unb_m k; k_lock := k_lock k; k_caught := k_caught k;
     k_printed := k_printed k; k_started := started; k_odone := odone; k_fdone := fdone;
     k_completed := completed; k_res := k_res k |}.
Definition set_res (k : core) (r : option outcome) : core :=
  {| k_f := k_f k; k_m := k_m k; k_pend_f := k_pend_f k; k_pend_m := k_pend_m k; k_pend_p := k_pend_p k;
     k_unb_f := k_unb_f k; k_unb_m := k_unb_m k; k_lock := k_lock k; k_caught := k_caught k;
     k_printed := k_printed k; k_started := k_started k; k_odone := k_odone k; k_fdone := k_fdone k;
     k_completed := k_completed k; k_res := r |}.

(* ------------------------------------------------------------------ *)
(* signals                                                              *)
(* ------------------------------------------------------------------ *)
Definition memN (s : N) (l : list N) : bool := existsb (N.eqb s) l.
Definition addN (s : N) (l : list N) : list N := if memN s l then l else l ++ [s].
Definition delN (s : N) (l : list N) : list N := filter (fun t => negb (N.eqb s t)) l.

(* every thread blocks these after setup_signals() and cli() *)
Definition base_mask (c : cfg) : list N := c_blocked c ++ c_cli_blocks c.
(* mask in force during sigsuspend() *)
Definition susp_mask (c : cfg) : list N := if c_saved_ok c then c_blocked c else base_mask c.

Definition default_kills (e : fenv) (s : N) : bool :=
  match fe_sig e with
  | Some s' => if N.eqb s s' then fe_sig_default e else true
  | None => true
  end.

(* the signal is taken by a thread now: handler, or default action *)
Definition deliver (c : cfg) (e : fenv) (s : N) (k : core) : core :=
  match k_res k with
  | Some _ => k
  | None =>
    if memN s (c_cli_handlers c) then set_caught k (Some s)
    else if default_kills e s then set_res k (Some (Killed s)) else k
  end.

Definition who_eqb (a b : who) : bool :=
  match a, b with WMain, WMain | WF, WF => true | _, _ => false end.

Definition unb_of (t : who) (k : core) : list N := match t with WMain => k_unb_m k | WF => k_unb_f k end.
Definition pend_of (t : who) (k : core) : list N := match t with WMain => k_pend_m k | WF => k_pend_f k end.

Definition dispatch (c : cfg) (s : N) : list op :=
  match find (fun p => N.eqb (fst p) s) (c_halt_cases c) with
  | Some p => snd p
  | None => c_halt_default c
  end.

(* main wakes from sigsuspend() if a handler ran *)
Definition wake_main (c : cfg) (e : fenv) (s : N) (k : core) : core :=
  let k1 := deliver c e s k in
  if memN s (c_cli_handlers c) then set_m k1 (MOps InHalt (dispatch c s)) else k1.

Definition main_alive (k : core) : bool := match k_m k with MDead => false | _ => true end.
Definition f_alive (k : core) : bool := match k_f k with FOps _ | FLive => true | _ => false end.

(* kill(getpid(), s) *)
Definition raise_proc (c : cfg) (e : fenv) (s : N) (k : core) : core :=
  match k_res k with
  | Some _ => k
  | None =>
    if memN s (base_mask c) then
      match k_m k with
      | MSusp => if memN s (susp_mask c) then set_pend k (k_pend_f k) (k_pend_m k) (addN s (k_pend_p k))
                 else wake_main c e s k
      | _ =>
        if memN s (k_unb_m k) && main_alive k then deliver c e s k
        else if memN s (k_unb_f k) && f_alive k then deliver c e s k
        else set_pend k (k_pend_f k) (k_pend_m k) (addN s (k_pend_p k))
      end
    else deliver c e s k
  end.

(* thread t unblocks sigs: pending ones are delivered *)
Definition unblock_one (c : cfg) (e : fenv) (t : who) (k : core) (s : N) : core :=
  if memN s (pend_of t k) || memN s (k_pend_p k) then
    let k1 := match t with
              | WMain => set_pend k (k_pend_f k) (delN s (k_pend_m k)) (delN s (k_pend_p k))
              | WF => set_pend k (delN s (k_pend_f k)) (k_pend_m k) (delN s (k_pend_p k))
              end in
    deliver c e s k1
  else k.

Definition unblock (c : cfg) (e : fenv) (t : who) (sigs : list N) (k : core) : core :=
  let k1 := match t with
            | WMain => set_unb k (k_unb_f k) (fold_left (fun l s => addN s l) sigs (k_unb_m k))
            | WF => set_unb k (fold_left (fun l s => addN s l) sigs (k_unb_f k)) (k_unb_m k)
            end in
  fold_left (unblock_one c e t) sigs k1.

Definition block (t : who) (sigs : list N) (k : core) : core :=
  match t with
  | WMain => set_unb k (k_unb_f k) (filter (fun s => negb (memN s sigs)) (k_unb_m k))
  | WF => set_unb k (filter (fun s => negb (memN s sigs)) (k_unb_f k)) (k_unb_m k)
  end.

Definition promote1 (c : cfg) (e : fenv) (t : who) (k : core) (s : N) : core :=
  if memN s (pend_of t k) || memN s (k_pend_p k) then raise_proc c e s k else k.

(* ------------------------------------------------------------------ *)
(* one operation of thread t                                            *)
(* ------------------------------------------------------------------ *)
Definition set_ops (t : who) (ctx : mctx) (ops : list op) (k : core) : core :=
  match t with
  | WF => set_f k (FOps ops)
  | WMain => set_m k (MOps ctx ops)
  end.

Definition log_decision (c : cfg) (e : fenv) (bail uses_errno : bool) : bool :=
  if uses_errno then (if bail then fst (fe_logp e) else snd (fe_logp e)) else c_logc c bail 0.

Definition do_return (t : who) (ctx : mctx) (k : core) : core :=
  match t with
  | WF => set_f k FLive
  | WMain =>
    match ctx with
    | InHalt => set_m k MReturned
    | InWork => set_flags (set_m k MPre) true (k_odone k) (k_fdone k) (k_completed k)
    end
  end.

Definition exec_op (c : cfg) (e : fenv) (t : who) (ctx : mctx) (o : op) (rest : list op) (k : core) : core :=
  match o with
  | OpNop | OpCleanup => set_ops t ctx rest k
  | OpLockStderr =>
    match k_lock k with
    | None => set_ops t ctx rest (set_lock k (Some t))
    | Some t' => if who_eqb t t' then set_ops t ctx rest k else k     (* blocked *)
    end
  | OpUnlockStderr =>
    match k_lock k with
    | Some t' => if who_eqb t t' then set_ops t ctx rest (set_lock k None) else set_ops t ctx rest k
    | None => set_ops t ctx rest k
    end
  | OpPrint => set_ops t ctx rest (set_printed k (k_printed k + 1))
  | OpUnblock sigs => unblock c e t sigs (set_ops t ctx rest k)
  | OpBlock sigs => set_ops t ctx rest (block t sigs k)
  | OpExit code => set_res k (Some (Exited code))
  | OpPromote sigs => fold_left (promote1 c e t) sigs (set_ops t ctx rest k)
  | OpRaise s => raise_proc c e s (set_ops t ctx rest k)
  | OpThreadExit =>
    match t with
    | WF => set_pend (set_f k FDead) [] (k_pend_m k) (k_pend_p k)
    | WMain => set_m k MDead
    end
  | OpBailout => set_ops t ctx ((match t with WMain => c_bail_main c | WF => c_bail_sub c end) ++ rest) k
  | OpTerminate =>
    match k_caught k with
    | Some s => set_res k (Some (Killed s))
    | None => set_ops t ctx rest k
    end
  | OpReturn => do_return t ctx k
  | OpFail bail uses_errno =>
    set_ops t ctx (c_prologue c ++ (if log_decision c e bail uses_errno then c_log_ops c else [])
                   ++ (if bail then c_bail_tail c else c_nobail c) ++ rest) k
  end.

(* main reaches sigsuspend(): handled signals that are pending and not in the
   suspend mask are taken at once *)
Definition suspend (c : cfg) (e : fenv) (k : core) : core :=
  let cand := filter (fun s => negb (memN s (susp_mask c))) (k_pend_m k ++ k_pend_p k) in
  fold_left (fun k s =>
               match k_m k with
               | MSusp | MOps InHalt _ =>
                 wake_main c e s (set_pend k (k_pend_f k) (delN s (k_pend_m k)) (delN s (k_pend_p k)))
               | _ => k
               end) cand (set_m k MSusp).

(* ------------------------------------------------------------------ *)
(* events and steps                                                     *)
(* ------------------------------------------------------------------ *)
Inductive cevent := EvF | EvMain | EvOthersDone | EvFDone | EvComplete.
Definition own_events : list cevent := [EvF; EvMain].
Definition env_events : list cevent := [EvOthersDone; EvFDone; EvComplete].
Definition all_cevents : list cevent := own_events ++ env_events.

Definition cstep (c : cfg) (e : fenv) (ev : cevent) (k : core) : core :=
  match k_res k with
  | Some _ => k
  | None =>
    match ev with
    | EvF =>
      match k_f k with
      | FOps [] => set_f k FLive
      | FOps (o :: r) => exec_op c e WF InWork o r k
      | _ => k
      end
    | EvMain =>
      match k_m k with
      | MPre => suspend c e k
      | MSusp => k
      | MOps ctx [] => do_return WMain ctx k
      | MOps ctx (o :: r) => exec_op c e WMain ctx o r k
      | MReturned => set_res k (Some (Exited (c_ex_ok c)))
      | MDead => k
      end
    | EvOthersDone =>
      if k_started k then set_flags k (k_started k) true (k_fdone k) (k_completed k) else k
    | EvFDone =>
      match k_f k with
      | FLive => set_flags k (k_started k) (k_odone k) true (k_completed k)
      | _ => k
      end
    | EvComplete =>
      if k_started k && k_odone k && (k_fdone k || match k_f k with FNone => true | _ => false end)
         && negb (k_completed k)
      then raise_proc c e (c_complete_sig c) (set_flags k (k_started k) (k_odone k) (k_fdone k) true)
      else k
    end
  end.

Definition run_core (c : cfg) (e : fenv) (k : core) (sch : list cevent) : core :=
  fold_left (fun k ev => cstep c e ev k) sch k.

(* state at the moment the failing call has returned -1 *)
Definition init_core (c : cfg) (e : fenv) (main_suspended : bool) : core :=
  let r := fe_role e in
  let m := role_is_main r in
  let base := {|
    k_f := if m then FNone else FOps (on_error c r);
    k_m := if m then MOps InWork (on_error c r) else if main_suspended then MSusp else MPre;
    k_pend_f := []; k_pend_m := []; k_pend_p := [];
    k_unb_f := []; k_unb_m := [];
    k_lock := None; k_caught := None; k_printed := 0;
    k_started := negb m; k_odone := false; k_fdone := false; k_completed := false;
    k_res := None |} in
  match fe_sig e with
  | None => base
  | Some s =>
    if memN s (base_mask c) then
      if m then set_pend base [] [s] [] else set_pend base [s] [] []
    else deliver c e s base
  end.

(* ------------------------------------------------------------------ *)
(* full state: core + arbitrary other threads                           *)
(* ------------------------------------------------------------------ *)
Inductive ostate := ORunning | OBlockedCond | OBlockedIO | OExited.
Record state := { s_core : core; s_others : list ostate }.
Inductive event := EvCore (ev : cevent) | EvOther (i : nat) (o : ostate).

Fixpoint set_nth {A} (i : nat) (x : A) (l : list A) : list A :=
  match l, i with
  | [], _ => []
  | _ :: t, O => x :: t
  | h :: t, S j => h :: set_nth j x t
  end.

Definition step (c : cfg) (e : fenv) (ev : event) (st : state) : state :=
  match ev with
  | EvCore ev => {| s_core := cstep c e ev (s_core st); s_others := s_others st |}
  | EvOther i o =>
    match k_res (s_core st) with
    | Some _ => st
    | None => {| s_core := s_core st; s_others := set_nth i o (s_others st) |}
    end
  end.

Definition run (c : cfg) (e : fenv) (st : state) (sch : list event) : state :=
  fold_left (fun st ev => step c e ev st) sch st.

Definition init_state (c : cfg) (e : fenv) (main_suspended : bool) (others : list ostate) : state :=
  {| s_core := init_core c e main_suspended; s_others := others |}.

Definition core_events (sch : list event) : list cevent :=
  flat_map (fun ev => match ev with EvCore ev => [ev] | EvOther _ _ => [] end) sch.

(* ------------------------------------------------------------------ *)
(* prediction (a function of the fault only)                            *)
(* ------------------------------------------------------------------ *)
(* The prediction is what the canonical schedule gives: the failing thread runs
   until it is done, then the main thread, nobody else moves.  The theorems say
   that every other schedule, with any other threads, ends the same way. *)
Definition canon_sched : list cevent := repeat EvF 24 ++ repeat EvMain 24.
Definition canon (c : cfg) (e : fenv) : core := run_core c e (init_core c e false) canon_sched.
Definition predict_outcome (c : cfg) (e : fenv) : option outcome := k_res (canon c e).
Definition predict_printed (c : cfg) (e : fenv) : N := k_printed (canon c e).

(* what the property allows *)
Definition outcome_allowed (e : fenv) (o : outcome) : bool :=
  match o with
  | Exited n => N.eqb n 1
  | Killed s => match fe_sig e with Some s' => N.eqb s s' && fe_sig_default e | None => false end
  end.
Definition expected_printed (e : fenv) : N := if fst (fe_logp e) then 1 else 0.

(* ------------------------------------------------------------------ *)
(* termination measure                                                  *)
(* ------------------------------------------------------------------ *)
Fixpoint wop (c : cfg) (d : nat) (o : op) {struct d} : nat :=
  match d with
  | O => 1
  | S d' =>
    let wl := fun l => fold_right (fun o a => wop c d' o + a) 0 l in
    match o with
    | OpBailout => 1 + wl (c_bail_main c) + wl (c_bail_sub c)
    | OpFail _ _ => 1 + wl (c_prologue c) + wl (c_log_ops c) + wl (c_bail_tail c) + wl (c_nobail c)
    | _ => 1
    end
  end%nat.
Definition wdepth : nat := 4.
Definition wl (c : cfg) (l : list op) : nat := fold_right (fun o a => wop c wdepth o + a)%nat 0%nat l.
Definition whalt (c : cfg) : nat :=
  (wl c (c_halt_default c) + fold_right (fun p a => wl c (snd p) + a) 0 (c_halt_cases c))%nat.

Definition mu (c : cfg) (k : core) : nat :=
  match k_res k with
  | Some _ => 0
  | None =>
    (match k_f k with FOps l => 1 + wl c l | _ => 0 end +
     match k_m k with
     | MPre => 4 + whalt c
     | MSusp => 3 + whalt c
     | MOps InWork l => 5 + whalt c + wl c l
     | MOps InHalt l => 2 + wl c l
     | MReturned => 1
     | MDead => 0
     end)%nat
  end.

(* ------------------------------------------------------------------ *)
(* decidable equality on core states                                    *)
(* ------------------------------------------------------------------ *)
Definition op_eq_dec : forall a b : op, {a = b} + {a <> b}.
Proof. decide equality; try apply Bool.bool_dec; try apply N.eq_dec; apply (list_eq_dec N.eq_dec). Defined.
Definition who_eq_dec : forall a b : who, {a = b} + {a <> b}.
Proof. decide equality. Defined.
Definition fstat_eq_dec : forall a b : fstat, {a = b} + {a <> b}.
Proof. decide equality. apply (list_eq_dec op_eq_dec). Defined.
Definition mctx_eq_dec : forall a b : mctx, {a = b} + {a <> b}.
Proof. decide equality. Defined.
Definition mstat_eq_dec : forall a b : mstat, {a = b} + {a <> b}.
Proof. decide equality. apply (list_eq_dec op_eq_dec). apply mctx_eq_dec. Defined.
Definition outcome_eq_dec : forall a b : outcome, {a = b} + {a <> b}.
Proof. decide equality; apply N.eq_dec. Defined.
Definition optN_eq_dec : forall a b : option N, {a = b} + {a <> b}.
Proof. decide equality; apply N.eq_dec. Defined.
Definition core_eq_dec : forall a b : core, {a = b} + {a <> b}.
Proof.
  decide equality; try apply Bool.bool_dec; try apply N.eq_dec; try apply optN_eq_dec;
    try apply (list_eq_dec N.eq_dec).
  - decide equality. apply outcome_eq_dec.
  - decide equality. apply who_eq_dec.
  - apply mstat_eq_dec.
  - apply fstat_eq_dec.
Defined.

Definition core_eqb (a b : core) : bool := if core_eq_dec a b then true else false.
Definition memb (k : core) (l : list core) : bool := existsb (core_eqb k) l.

(* ------------------------------------------------------------------ *)
(* reachable-set search (untrusted) and its certificate check           *)
(* ------------------------------------------------------------------ *)
Fixpoint explore (c : cfg) (e : fenv) (fuel : nat) (seen todo : list core) : list core :=
  match fuel with
  | O => seen ++ todo
  | S f =>
    match todo with
    | [] => seen
    | k :: rest =>
      if memb k seen then explore c e f seen rest
      else explore c e f (k :: seen) (map (fun ev => cstep c e ev k) all_cevents ++ rest)
    end
  end.

Definition closedb (c : cfg) (e : fenv) (S : list core) : bool :=
  forallb (fun k => forallb (fun ev => memb (cstep c e ev k) S) all_cevents) S.

(* what must hold in every reachable state *)
Definition optout_eq_dec : forall a b : option outcome, {a = b} + {a <> b}.
Proof. decide equality. apply outcome_eq_dec. Defined.
Definition optout_eqb (a b : option outcome) : bool := if optout_eq_dec a b then true else false.

Definition good_state (c : cfg) (e : fenv) (k : core) : bool :=
  (* 1. a final state is the one of the canonical schedule, it is allowed by the property,
        and the number of diagnostics is 1 or 0 according to the print condition *)
  match k_res k with
  | Some o => optout_eqb (Some o) (predict_outcome c e) && N.eqb (k_printed k) (predict_printed c e)
              && outcome_allowed e o && N.eqb (k_printed k) (expected_printed e)
  | None =>
    (* 2. not final: some own step makes progress *)
    existsb (fun ev => Nat.ltb (mu c (cstep c e ev k)) (mu c k)) own_events
  end
  (* 3. success is never signalled or reported *)
  && negb (k_completed k)
  && match k_m k with MReturned => false | _ => true end
  && N.leb (k_printed k) (expected_printed e)
  (* 4. own steps either do nothing or decrease the measure; others never increase it *)
  && forallb (fun ev => core_eqb (cstep c e ev k) k || Nat.ltb (mu c (cstep c e ev k)) (mu c k)) own_events
  && forallb (fun ev => Nat.leb (mu c (cstep c e ev k)) (mu c k)) env_events.

Definition explore_fuel : nat := 2000.

Definition check_set (c : cfg) (e : fenv) (k0 : core) (S : list core) : bool :=
  memb k0 S && closedb c e S && forallb (good_state c e) S.

Definition check (c : cfg) (e : fenv) (main_suspended : bool) : bool :=
  check_set c e (init_core c e main_suspended)
            (explore c e explore_fuel [] [init_core c e main_suspended]).

(* the fault environments that have to be explored: three representative
   errno values, with and without the accompanying signal, both dispositions,
   every role, main suspended or not yet *)
Definition all_roles : list role := [RSniffRead; RCopyHdrWrite; RReader; RWriter; RPrimaryHdr; RPrimaryTrl].
Definition bools : list bool := [true; false].
Definition all_envs (c : cfg) (xother : N) : list (fenv * bool) :=
  flat_map (fun r => flat_map (fun x => flat_map (fun g => flat_map (fun d => map (fun sp =>
    (fenv_of c r x g d, sp)) bools) bools) bools) [c_epipe c; c_efbig c; xother]) all_roles.

Definition check_all (c : cfg) (xother : N) : bool :=
  forallb (fun p => check c (fst p) (snd p)) (all_envs c xother).

(* static side conditions on the transcribed call structure (strings) *)
Fixpoint index_of (s : string) (l : list string) : option nat :=
  match l with
  | [] => None
  | h :: t => if String.eqb s h then Some O else option_map S (index_of s t)
  end.
Definition before (a b : string) (l : list string) : bool :=
  match index_of a l, index_of b l with
  | Some i, Some j => Nat.ltb i j
  | _, _ => false
  end.
Definition has_site (f g : string) : bool :=
  existsb (fun p => String.eqb (fst p) f && String.eqb (snd p) g) io_sites.

Definition structure_ok : bool :=
  (* signals are set up and handlers installed before any I/O of work() *)
  before "setup_signals" "cli" main_calls && before "cli" "work" main_calls
  (* the I/O sites of the six roles *)
  && has_site "work" "xread" && has_site "work" "xwrite"
  && has_site "source_thread_proc" "xread" && has_site "sink_thread_proc" "xwrite"
  && has_site "write_header" "xwrite" && has_site "write_trailer" "xwrite"
  && has_site "init" "write_header" && has_site "uninit" "write_trailer"
  (* success is signalled only after the trailer has been written *)
  && before "process->uninit" "xraise(SIGUSR2)" primary_calls
  && before "uninit_io" "xraise(SIGUSR2)" primary_calls
  (* the main thread waits in halt() right after starting the pipeline *)
  && before "xcreate" "halt" schedule_calls && before "init_io" "halt" copy_calls.

(* ------------------------------------------------------------------ *)
(* entry point used by the extracted driver                             *)
(* ------------------------------------------------------------------ *)
Definition run_fault (r : role) (x : N) (generated dfl main_suspended : bool)
           (others : list ostate) (sch : list event) : state :=
  let e := fenv_of gen_cfg r x generated dfl in
  run gen_cfg e (init_state gen_cfg e main_suspended others) sch.

Definition predict (r : role) (x : N) (generated dfl : bool) : option outcome * N :=
  let e := fenv_of gen_cfg r x generated dfl in (predict_outcome gen_cfg e, predict_printed gen_cfg e).

Definition gen_check_all : bool := check_all gen_cfg EIO.
Definition gen_mu_bound (r : role) (x : N) (generated dfl sp : bool) : nat :=
  mu gen_cfg (init_core gen_cfg (fenv_of gen_cfg r x generated dfl) sp).
