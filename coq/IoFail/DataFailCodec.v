(* C07 - composition of the codec-level rejection theorem (Dec/Total.v) with the
   process-level exit theorem (IoFail/DataFailProofs.v).

   What is NOT proved here and is stated as such in Properties_C07proc.v: that the running
   process, on a file whose codec-level verdict is [Err e], actually reaches the call site
   [site_for e] (the scheduler hands the failed block to do_reorder / the parser state to
   do_parse; C16/SchedX and the correspondence run of checks/c07proc_part.py cover that link). *)
From Coq Require Import List NArith Bool String.
From LBZ Require Import Common.Bits Dec.Prog Dec.Format Dec.Policies Dec.DecProofs Dec.Total Dec.ErrMap.
From LBZ Require Import Gen.IoFailTab Gen.DataFailTab IoFail.IoFailModel IoFail.DataFail IoFail.DataFailProofs.
Import ListNotations.

Lemma rejected_file_exits_1 :
  forall file, (forall o, ref_decode file <> Ok o) ->
    exists e, lbz_decode file = Err e /\ e <> ErrFuel /\
      (e <> ErrTable ->
       exists s em t,
         site_for e = Some s /\ In s data_sites /\ on_main s = is_notbz e
         /\ message e = Some em /\ em <> ""%string
         /\ text_for s e = Some t /\ t <> ""%string
         /\ t = (if is_notbz e then em else fill (ds_fmt s) [em])
         /\ forall main_suspended others sch o,
              k_res (s_core (run_data s main_suspended others sch)) = Some o ->
              o = Exited 1 /\ k_printed (s_core (run_data s main_suspended others sch)) = 1%N).
Proof.
  intros file Hrej. destruct (invalid_rejected file Hrej) as [e [He Hf]].
  exists e. split; [exact He|]. split; [exact Hf|]. intros Ht.
  destruct (codec_link e Hf Ht) as [s [em [t [Hs [Hin [Hm [Hmsg [Hne [Htx [Htne Hshape]]]]]]]]]].
  exists s, em, t. repeat split; try assumption.
  - exact (proj1 (data_final s main_suspended others sch o Hin H)).
  - exact (proj2 (data_final s main_suspended others sch o Hin H)).
Qed.
