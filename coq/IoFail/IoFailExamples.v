(* C21 - fully concrete runs of the I/O-failure state machine on the configuration
   regenerated from the current source.  These are illustrations that depend on details the
   property does not fix (e.g. that a sub-thread's pending SIGPIPE is promoted to the process
   before SIGUSR1 is raised); they are deliberately NOT in the cone of Properties_C21.v. *)
From Coq Require Import List NArith Bool.
From LBZ Require Import Gen.IoFailTab IoFail.IoFailModel.
Import ListNotations.
Local Open Scope N_scope.

(* writer thread, real broken pipe: killed by SIGPIPE although the signal was generated for
   the writer thread, which is gone by the time main unblocks it *)
Example writer_sigpipe_is_promoted :
  let st := run_fault RWriter EPIPE true true false [ORunning; OBlockedCond; OBlockedIO]
              [EvCore EvF; EvOther 0 OBlockedCond; EvCore EvF; EvCore EvF; EvCore EvMain; EvOther 2 OExited;
               EvCore EvF; EvCore EvF; EvCore EvF; EvCore EvF; EvCore EvF; EvCore EvOthersDone;
               EvCore EvComplete; EvCore EvMain; EvCore EvMain; EvCore EvMain; EvCore EvMain] in
  k_res (s_core st) = Some (Killed SIGPIPE) /\ k_printed (s_core st) = 0
  /\ s_others st = [OBlockedCond; OBlockedCond; OExited].
Proof. vm_compute. repeat split. Qed.

(* the same failure with SIGPIPE ignored: exit status 1, still silent *)
Example writer_sigpipe_ignored :
  let st := run_fault RWriter EPIPE true false true []
              [EvCore EvF; EvCore EvF; EvCore EvF; EvCore EvF; EvCore EvF; EvCore EvF; EvCore EvF; EvCore EvF;
               EvCore EvMain; EvCore EvMain; EvCore EvMain; EvCore EvMain; EvCore EvMain] in
  k_res (s_core st) = Some (Exited 1) /\ k_printed (s_core st) = 0.
Proof. vm_compute. repeat split. Qed.

(* a state in the middle: SIGUSR1 is pending for the process while main has not yet
   reached sigsuspend(); nothing is lost, the next main step takes it *)
Example usr1_before_suspend :
  let st := run_fault RPrimaryTrl ENOSPC false true false []
              [EvCore EvF; EvCore EvF; EvCore EvF; EvCore EvF; EvCore EvF; EvCore EvF; EvCore EvF; EvCore EvF;
               EvCore EvF] in
  k_res (s_core st) = None /\ k_f (s_core st) = FDead /\ k_m (s_core st) = MPre
  /\ k_pend_p (s_core st) = [SIGUSR1]
  /\ k_m (s_core (step gen_cfg (fenv_of gen_cfg RPrimaryTrl ENOSPC false true) (EvCore EvMain) st))
     = MOps InHalt (dispatch gen_cfg SIGUSR1).
Proof. vm_compute. repeat split. Qed.
