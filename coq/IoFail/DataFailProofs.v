(* C07 (process level) - proofs about the data-error roles of the fatal-exit state machine
   (IoFail/DataFail.v on top of IoFail/IoFailModel.v).

   Method (the one of IoFailProofs.v; the generic lemmas are in DataFailGeneric.v so that this
   file does not depend on C21's finite check): for every regenerated call site and both positions of
   the main thread, the reachable core states under ALL interleavings of the failing thread,
   the main thread and the abstracted pipeline events form a finite set enumerated by the
   untrusted [explore]; [closedb] re-checks closure under every event and [dgood] is evaluated
   on every member.  [dcheck_sound] lifts this to all schedules; arbitrary other threads are
   added by the projection lemma [run_core_of_run].  The finite check is discharged by
   computation on the tables regenerated from the source ([gen_dcheck_all_true],
   [data_structure_ok_true], [messages_ok_true]), so a source change that alters a call site,
   the logging macro, bailout() or halt() re-opens exactly these obligations. *)
From Coq Require Import List NArith Bool String Arith Lia.
From LBZ Require Import Gen.IoFailTab Gen.DataFailTab Gen.Consts Gen.ErrTab
     IoFail.IoFailModel IoFail.DataFailGeneric IoFail.DataFail.
From LBZ Require Dec.Prog Dec.ErrMap.
Import ListNotations.
Local Open Scope N_scope.

(* ------------------------------------------------------------------ *)
(* generic part: certificate soundness for [dgood]                      *)
(* ------------------------------------------------------------------ *)
Lemma dcheck_set_sound : forall c e k0 S, dcheck_set c e k0 S = true ->
  forall sch, dgood c e (run_core c e k0 sch) = true.
Proof.
  intros c e k0 S H sch. unfold dcheck_set in H.
  apply andb_true_iff in H. destruct H as [H Hgood].
  apply andb_true_iff in H. destruct H as [Hinit Hclosed].
  rewrite forallb_forall in Hgood. apply Hgood.
  apply closed_run; [assumption|]. apply memb_In. assumption.
Qed.

Strategy expand [dcheck].

Lemma dcheck_sound : forall c e k0, dcheck c e k0 = true ->
  forall sch, dgood c e (run_core c e k0 sch) = true.
Proof. intros c e k0 H. unfold dcheck in H. exact (dcheck_set_sound c e _ _ H). Qed.

(* components of dgood *)
Ltac split_dgood H :=
  unfold dgood in H; repeat (apply andb_true_iff in H; let H' := fresh "G" in destruct H as [H H']).

Lemma dgood_final : forall c e k o, dgood c e k = true -> k_res k = Some o ->
  o = Exited 1 /\ k_printed k = 1.
Proof.
  intros c e k o H Hr. unfold dgood in H. rewrite Hr in H.
  repeat (apply andb_true_iff in H; destruct H as [H ?]).
  split.
  - destruct o as [n|s]; cbn in H; [|discriminate]. apply N.eqb_eq in H. subst. reflexivity.
  - apply N.eqb_eq. assumption.
Qed.

Lemma dgood_progress : forall c e k, dgood c e k = true -> k_res k = None ->
  exists ev, In ev own_events /\ (mu c (cstep c e ev k) < mu c k)%nat.
Proof.
  intros c e k H Hr. unfold dgood in H. rewrite Hr in H.
  repeat (apply andb_true_iff in H; destruct H as [H ?]).
  apply existsb_exists in H. destruct H as [ev [Hin Hlt]].
  exists ev. split; [assumption|]. apply Nat.ltb_lt. assumption.
Qed.

Lemma dgood_no_success : forall c e k, dgood c e k = true ->
  k_completed k = false /\ k_m k <> MReturned /\ k_f k <> FLive /\ (k_printed k <= 1).
Proof.
  intros c e k H. unfold dgood in H.
  repeat (apply andb_true_iff in H; destruct H as [H ?]).
  repeat split.
  - destruct (k_completed k); [discriminate|reflexivity].
  - intros Hm. rewrite Hm in *. discriminate.
  - intros Hf. rewrite Hf in *. discriminate.
  - apply N.leb_le. assumption.
Qed.

(* the diagnostic is on stderr before the failure is signalled / acted upon *)
Lemma dgood_message_first : forall c e k, dgood c e k = true ->
  (k_caught k <> None -> k_printed k = 1)
  /\ (k_f k = FDead -> k_printed k = 1)
  /\ (forall l, k_m k = MOps InHalt l -> k_printed k = 1).
Proof.
  intros c e k H. unfold dgood in H.
  repeat (apply andb_true_iff in H; destruct H as [H ?]).
  repeat split.
  - intros Hc. destruct (k_caught k); [apply N.eqb_eq; assumption | congruence].
  - intros Hf. rewrite Hf in *. apply N.eqb_eq. assumption.
  - intros l Hm. rewrite Hm in *. apply N.eqb_eq. assumption.
Qed.

Lemma dgood_own_mono : forall c e k ev, dgood c e k = true -> In ev own_events ->
  cstep c e ev k = k \/ (mu c (cstep c e ev k) < mu c k)%nat.
Proof.
  intros c e k ev H Hin. unfold dgood in H.
  repeat (apply andb_true_iff in H; destruct H as [H ?]).
  match goal with Hf : forallb _ own_events = true |- _ => rewrite forallb_forall in Hf; specialize (Hf ev Hin);
    apply orb_true_iff in Hf; destruct Hf as [Hf|Hf] end.
  - left. apply core_eqb_true. assumption.
  - right. apply Nat.ltb_lt. assumption.
Qed.

Lemma dgood_env_mono : forall c e k ev, dgood c e k = true -> In ev env_events ->
  (mu c (cstep c e ev k) <= mu c k)%nat.
Proof.
  intros c e k ev H Hin. unfold dgood in H.
  repeat (apply andb_true_iff in H; destruct H as [H ?]).
  match goal with Hf : forallb _ env_events = true |- _ => rewrite forallb_forall in Hf; specialize (Hf ev Hin) end.
  apply Nat.leb_le. assumption.
Qed.

Lemma dbounded_generic : forall c e S, closedb c e S = true -> forallb (dgood c e) S = true ->
  forall sch k, In k S -> (own_effective c e k sch + mu c (run_core c e k sch) <= mu c k)%nat.
Proof.
  intros c e S Hc Hg. rewrite forallb_forall in Hg.
  induction sch as [|ev t IH]; intros k Hin; cbn [own_effective run_core fold_left].
  - lia.
  - assert (Hin' : In (cstep c e ev k) S) by (apply closed_step; assumption).
    specialize (IH _ Hin'). unfold run_core in IH.
    destruct (is_own ev) eqn:Ho; cbn [andb].
    + destruct (dgood_own_mono c e k ev (Hg k Hin) (is_own_In ev Ho)) as [Heq | Hlt].
      * rewrite Heq in *. rewrite core_eqb_refl. cbn [negb]. lia.
      * destruct (core_eqb (cstep c e ev k) k); cbn [negb]; lia.
    + pose proof (dgood_env_mono c e k ev (Hg k Hin) (not_own_In ev Ho)). lia.
Qed.

Lemma dcheck_set_bounded : forall c e k0 S, dcheck_set c e k0 S = true ->
  forall sch, (own_effective c e k0 sch + mu c (run_core c e k0 sch) <= mu c k0)%nat.
Proof.
  intros c e k0 S H sch. unfold dcheck_set in H.
  apply andb_true_iff in H. destruct H as [H Hgood].
  apply andb_true_iff in H. destruct H as [Hinit Hclosed].
  eapply dbounded_generic; eauto. apply memb_In. assumption.
Qed.

Lemma dcheck_bounded : forall c e k0, dcheck c e k0 = true ->
  forall sch, (own_effective c e k0 sch + mu c (run_core c e k0 sch) <= mu c k0)%nat.
Proof. intros c e k0 H. unfold dcheck in H. exact (dcheck_set_bounded c e _ _ H). Qed.

(* ------------------------------------------------------------------ *)
(* the regenerated tables                                               *)
(* ------------------------------------------------------------------ *)
Lemma gen_dcheck_all_true :
  forallb (dcheck gen_cfg (data_fenv gen_cfg)) (all_data_inits data_sites) = true.
Proof. vm_compute. reflexivity. Qed.

Lemma data_structure_ok_true : data_structure_ok = true.
Proof. vm_compute. reflexivity. Qed.

Lemma data_mu_ok_true : data_mu_ok gen_cfg data_sites = true.
Proof. vm_compute. reflexivity. Qed.

Lemma no_warning_site_true : no_warning_site = true.
Proof. vm_compute. reflexivity. Qed.

Lemma no_warn_call_true : no_warn_call_in_decompression = true.
Proof. vm_compute. reflexivity. Qed.

Lemma exit_statuses : EX_FAIL = 1 /\ final_status false = 0 /\ final_status true = 4
                      /\ final_status true <> EX_FAIL /\ final_status false <> EX_FAIL.
Proof. vm_compute. repeat split; discriminate. Qed.

Lemma in_all_data_inits : forall sites s sp, In s sites -> In (data_init s sp) (all_data_inits sites).
Proof.
  intros sites s sp Hin. unfold all_data_inits. apply in_flat_map. exists s. split; [assumption|].
  apply in_map. destruct sp; cbn; tauto.
Qed.

Lemma gen_dcheck : forall s sp, In s data_sites ->
  dcheck gen_cfg (data_fenv gen_cfg) (data_init s sp) = true.
Proof.
  intros s sp Hin. pose proof gen_dcheck_all_true as H. rewrite forallb_forall in H.
  apply H. apply in_all_data_inits. assumption.
Qed.

Lemma core_of_run_data : forall s sp others sch,
  s_core (run_data s sp others sch)
  = run_core gen_cfg (data_fenv gen_cfg) (data_init s sp) (core_events sch).
Proof. intros. unfold run_data, run_data_cfg. rewrite run_core_of_run. reflexivity. Qed.

(* every state reachable under any schedule, with any other threads, is good *)
Lemma gen_dgood : forall s sp others sch, In s data_sites ->
  dgood gen_cfg (data_fenv gen_cfg) (s_core (run_data s sp others sch)) = true.
Proof.
  intros s sp others sch Hin. rewrite core_of_run_data.
  exact (dcheck_sound gen_cfg _ _ (gen_dcheck s sp Hin) (core_events sch)).
Qed.

(* ------------------------------------------------------------------ *)
(* the text of the diagnostic                                           *)
(* ------------------------------------------------------------------ *)
Definition nonempty (m : string) : bool := negb (String.eqb m "").

Definition messageb (s : data_site) (code : N) : bool :=
  negb (site_admits s code) ||
  match site_message s code with
  | Some m =>
    nonempty m &&
    match ds_arg s with
    | ArgNone => String.eqb m (ds_fmt s)
    | _ => match err2str code with
           | Some em => nonempty em && String.eqb m (fill (ds_fmt s) [em])
           | None => false
           end
    end
  | None => false
  end.

Definition n_codes : nat := N.to_nat (E_ERR_EOF + 1 - E_ERR_MAGIC).

Definition messages_ok : bool :=
  forallb (fun s => forallb (fun i => messageb s (E_ERR_MAGIC + N.of_nat i)) (seq 0 n_codes)) data_sites.

Lemma messages_ok_true : messages_ok = true.
Proof. vm_compute. reflexivity. Qed.

Lemma err_range : E_ERR_MAGIC <= E_ERR_EOF /\ List.length err_messages = n_codes.
Proof. vm_compute. split; [discriminate | reflexivity]. Qed.

Lemma nonempty_spec : forall m, nonempty m = true -> m <> ""%string.
Proof. intros m H Hm. subst. discriminate. Qed.

Lemma messageb_code : forall s code, In s data_sites -> E_ERR_MAGIC <= code <= E_ERR_EOF ->
  messageb s code = true.
Proof.
  intros s code Hin [Hlo Hhi].
  pose proof messages_ok_true as H. unfold messages_ok in H. rewrite forallb_forall in H.
  specialize (H s Hin). rewrite forallb_forall in H.
  assert (Hc : code = E_ERR_MAGIC + N.of_nat (N.to_nat (code - E_ERR_MAGIC))) by lia.
  rewrite Hc. apply H. apply in_seq. unfold n_codes. lia.
Qed.

(* the message a site prints for an error code it can report: never empty; it is the
   site's format with the err2str() text (itself never empty) in place of %s *)
Lemma data_message : forall s code, In s data_sites -> E_ERR_MAGIC <= code <= E_ERR_EOF ->
  site_admits s code = true ->
  exists msg, site_message s code = Some msg /\ msg <> ""%string /\
    ((ds_arg s = ArgNone /\ msg = ds_fmt s)
     \/ exists em, err2str code = Some em /\ em <> ""%string /\ msg = fill (ds_fmt s) [em]).
Proof.
  intros s code Hin Hr Ha. pose proof (messageb_code s code Hin Hr) as H.
  unfold messageb in H. rewrite Ha in H. cbn [negb orb] in H.
  destruct (site_message s code) as [m|]; [|discriminate].
  apply andb_true_iff in H. destruct H as [Hne H].
  exists m. split; [reflexivity|]. split; [apply nonempty_spec; assumption|].
  destruct (ds_arg s) eqn:Ea.
  - left. split; [reflexivity|]. apply String.eqb_eq. assumption.
  - right. destruct (err2str code) as [em|]; [|discriminate].
    apply andb_true_iff in H. destruct H as [He Hm].
    exists em. repeat split; [apply nonempty_spec; assumption | apply String.eqb_eq; assumption].
  - right. destruct (err2str code) as [em|]; [|discriminate].
    apply andb_true_iff in H. destruct H as [He Hm].
    exists em. repeat split; [apply nonempty_spec; assumption | apply String.eqb_eq; assumption].
Qed.

(* the complete stderr line exists whenever the message does, for any program/file name *)
Lemma render_line_some : forall pname sep fsname s code msg,
  site_message s code = Some msg ->
  render_line pname sep fsname s code
  = Some (concat "" (map (render_piece pname sep fsname msg (ds_filespec s) (ds_nl s)) log_generic_pieces)).
Proof. intros. unfold render_line. rewrite H. reflexivity. Qed.

(* ------------------------------------------------------------------ *)
(* link to the codec-level errors (Dec/Prog.v err, Dec/ErrMap.v message) *)
(* ------------------------------------------------------------------ *)
Import Dec.Prog Dec.ErrMap.

Definition code_of_err (e : err) : option N :=
  match err_c_name e with Some n => code_of_name n | None => None end.

(* the site at which the process reports codec error e: a worker site admitting its code,
   or the main-thread site of work() for "not a bzip2 file" *)
Definition site_for (e : err) : option data_site :=
  match e with
  | ErrNotBzip2 => find on_main data_sites
  | _ =>
    match code_of_err e with
    | Some code => find (fun s => negb (on_main s) && site_admits s code) data_sites
    | None => None
    end
  end.

Definition text_for (s : data_site) (e : err) : option string :=
  match code_of_err e with
  | Some code => site_message s code
  | None => site_message s 0
  end.

Definition is_notbz (e : err) : bool := match e with ErrNotBzip2 => true | _ => false end.

Definition codec_linkb (e : err) : bool :=
  match site_for e, message e with
  | Some s, Some em =>
    nonempty em &&
    match text_for s e with
    | Some t => nonempty t && String.eqb t (if is_notbz e then em else fill (ds_fmt s) [em])
    | None => false
    end
  | _, _ => false
  end.

Lemma find_main : forall s, find on_main data_sites = Some s -> In s data_sites /\ on_main s = true.
Proof. intros s H. apply find_some in H. exact H. Qed.

Lemma find_worker : forall code s,
  find (fun s => negb (on_main s) && site_admits s code) data_sites = Some s ->
  In s data_sites /\ on_main s = false.
Proof.
  intros code s H. apply find_some in H. destruct H as [Hi Hp]. split; [exact Hi|].
  apply andb_true_iff in Hp. destruct Hp as [Hp _]. destruct (on_main s); [discriminate|reflexivity].
Qed.

Lemma site_for_in : forall e s, site_for e = Some s -> In s data_sites /\ on_main s = is_notbz e.
Proof.
  intros e s H. unfold site_for in H.
  destruct e; cbv beta iota in H; cbn [is_notbz];
    try (apply find_main; exact H);
    (destruct (code_of_err _) as [code|]; [apply (find_worker code); exact H | discriminate]).
Qed.

(* every codec-level error has its site, and the text printed there is the site's format
   filled with the codec-level diagnostic [message e] of Dec/ErrMap.v *)
Lemma codec_link : forall e, e <> ErrFuel -> e <> ErrTable ->
  exists s em t, site_for e = Some s /\ In s data_sites /\ on_main s = is_notbz e
    /\ message e = Some em /\ em <> ""%string
    /\ text_for s e = Some t /\ t <> ""%string
    /\ t = (if is_notbz e then em else fill (ds_fmt s) [em]).
Proof.
  intros e H1 H2.
  assert (Hb : codec_linkb e = true) by (destruct e; try congruence; vm_compute; reflexivity).
  unfold codec_linkb in Hb.
  destruct (site_for e) as [s|] eqn:Es; [|discriminate].
  destruct (message e) as [em|] eqn:Em; [|discriminate].
  apply andb_true_iff in Hb. destruct Hb as [Hem Hb].
  destruct (text_for s e) as [t|] eqn:Et; [|discriminate].
  apply andb_true_iff in Hb. destruct Hb as [Ht Hb].
  destruct (site_for_in e s Es) as [Hin Hm].
  exists s, em, t. repeat split; try assumption; try reflexivity;
    try (apply nonempty_spec; assumption).
  apply String.eqb_eq. exact Hb.
Qed.

(* ------------------------------------------------------------------ *)
(* the C07 process-level theorems                                       *)
(* ------------------------------------------------------------------ *)
Lemma data_outcome : forall s code main_suspended others sch o,
  In s data_sites -> E_ERR_MAGIC <= code <= E_ERR_EOF -> site_admits s code = true ->
  k_res (s_core (run_data s main_suspended others sch)) = Some o ->
  o = Exited 1 /\ o <> Exited 0 /\ (forall sg, o <> Killed sg)
  /\ Some o = fst (data_predict s)
  /\ k_printed (s_core (run_data s main_suspended others sch)) = 1
  /\ exists msg, site_message s code = Some msg /\ msg <> ""%string
       /\ ((ds_arg s = ArgNone /\ msg = ds_fmt s)
           \/ exists em, err2str code = Some em /\ em <> ""%string /\ msg = fill (ds_fmt s) [em])
       /\ forall pname sep fsname, exists line, render_line pname sep fsname s code = Some line.
Proof.
  intros s code sp others sch o Hin Hr Ha Hres.
  destruct (dgood_final _ _ _ o (gen_dgood s sp others sch Hin) Hres) as [Ho Hp].
  subst o. split; [reflexivity|]. split; [discriminate|]. split; [intros sg; discriminate|].
  split.
  { (* the canonical run is one particular run *)
    assert (Hc : dgood gen_cfg (data_fenv gen_cfg) (data_canon gen_cfg s) = true).
    { unfold data_canon. exact (dcheck_sound gen_cfg _ _ (gen_dcheck s false Hin) canon_sched). }
    unfold data_predict. cbn [fst].
    destruct (k_res (data_canon gen_cfg s)) as [o'|] eqn:Ec.
    - destruct (dgood_final _ _ _ o' Hc Ec) as [Ho' _]. subst. reflexivity.
    - exfalso. revert Ec. clear -Hin.
      assert (Hall : forallb (fun s => match k_res (data_canon gen_cfg s) with Some _ => true | None => false end)
                             data_sites = true) by (vm_compute; reflexivity).
      rewrite forallb_forall in Hall. specialize (Hall s Hin). intros Ec. rewrite Ec in Hall. discriminate. }
  split; [exact Hp|].
  destruct (data_message s code Hin Hr Ha) as [msg [Hm [Hne Hshape]]].
  exists msg. repeat split; try assumption.
  intros pname sep fsname. eexists. apply render_line_some. exact Hm.
Qed.

(* the part that does not mention the error code *)
Lemma data_final : forall s main_suspended others sch o, In s data_sites ->
  k_res (s_core (run_data s main_suspended others sch)) = Some o ->
  o = Exited 1 /\ k_printed (s_core (run_data s main_suspended others sch)) = 1.
Proof.
  intros s sp others sch o Hin Hres.
  exact (dgood_final _ _ _ o (gen_dgood s sp others sch Hin) Hres).
Qed.

Lemma data_no_stuck : forall s main_suspended others sch, In s data_sites ->
  k_res (s_core (run_data s main_suspended others sch)) = None ->
  exists ev, In ev own_events /\
    (mu gen_cfg (s_core (step gen_cfg (data_fenv gen_cfg) (EvCore ev) (run_data s main_suspended others sch)))
     < mu gen_cfg (s_core (run_data s main_suspended others sch)))%nat.
Proof.
  intros s sp others sch Hin Hr. cbn [step s_core].
  exact (dgood_progress gen_cfg _ _ (gen_dgood s sp others sch Hin) Hr).
Qed.

Lemma data_bounded : forall s main_suspended others sch, In s data_sites ->
  (own_effective gen_cfg (data_fenv gen_cfg) (data_init s main_suspended) (core_events sch)
   + mu gen_cfg (s_core (run_data s main_suspended others sch))
   <= mu gen_cfg (data_init s main_suspended))%nat.
Proof.
  intros s sp others sch Hin. rewrite core_of_run_data.
  exact (dcheck_bounded gen_cfg _ _ (gen_dcheck s sp Hin) (core_events sch)).
Qed.

Lemma data_mu_init_le : forall s sp, In s data_sites -> (mu gen_cfg (data_init s sp) <= data_mu_cap)%nat.
Proof.
  intros s sp Hin. pose proof data_mu_ok_true as H. unfold data_mu_ok in H. rewrite forallb_forall in H.
  apply Nat.leb_le. apply H. apply in_all_data_inits. assumption.
Qed.

Lemma data_terminates_within : forall s main_suspended others sch, In s data_sites ->
  k_res (s_core (run_data s main_suspended others sch)) = None ->
  (own_effective gen_cfg (data_fenv gen_cfg) (data_init s main_suspended) (core_events sch) < data_mu_cap)%nat.
Proof.
  intros s sp others sch Hin Hr.
  pose proof (data_bounded s sp others sch Hin) as Hb.
  destruct (data_no_stuck s sp others sch Hin Hr) as [ev [_ Hlt]].
  pose proof (data_mu_init_le s sp Hin) as Hm.
  lia.
Qed.

Lemma data_no_success : forall s main_suspended others sch, In s data_sites ->
  k_completed (s_core (run_data s main_suspended others sch)) = false
  /\ k_m (s_core (run_data s main_suspended others sch)) <> MReturned
  /\ k_f (s_core (run_data s main_suspended others sch)) <> FLive
  /\ k_res (s_core (run_data s main_suspended others sch)) <> Some (Exited EX_OK)
  /\ k_res (s_core (run_data s main_suspended others sch)) <> Some (Exited (final_status true)).
Proof.
  intros s sp others sch Hin.
  pose proof (gen_dgood s sp others sch Hin) as Hg.
  destruct (dgood_no_success _ _ _ Hg) as [H1 [H2 [H3 _]]].
  repeat split; try assumption.
  - intros Hr. destruct (dgood_final _ _ _ _ Hg Hr) as [Ho _]. vm_compute in Ho. discriminate.
  - intros Hr. destruct (dgood_final _ _ _ _ Hg Hr) as [Ho _]. vm_compute in Ho. discriminate.
Qed.

Lemma data_message_first : forall s main_suspended others sch, In s data_sites ->
  (k_caught (s_core (run_data s main_suspended others sch)) <> None \/
   k_f (s_core (run_data s main_suspended others sch)) = FDead \/
   k_res (s_core (run_data s main_suspended others sch)) <> None) ->
  k_printed (s_core (run_data s main_suspended others sch)) = 1.
Proof.
  intros s sp others sch Hin H.
  pose proof (gen_dgood s sp others sch Hin) as Hg.
  destruct (dgood_message_first _ _ _ Hg) as [A [B _]].
  destruct H as [H|[H|H]]; [apply A; assumption | apply B; assumption |].
  destruct (k_res (s_core (run_data s sp others sch))) as [o|] eqn:Er; [|congruence].
  exact (proj2 (dgood_final _ _ _ o Hg Er)).
Qed.

(* what the code does about warnings while decompressing: there is no such call.  Every
   data-error site is a bail-out (never a warning), no warn*() function is called anywhere
   in expand.c / parse.c / decode.c / process.c, so the only way to exit status EX_WARN
   (main(): _exit(warned ? EX_WARN : EX_OK)) is a warning of main.c's operand handling;
   trailing garbage after a complete stream is accepted silently (codec level: C06/C15parse) *)
Lemma data_no_warning : (forall s, In s data_sites -> ds_bail s = true /\ ds_warn s = false)
  /\ (forall f g fn, In (f, g, fn) decomp_log_calls -> is_warn_fn fn = false)
  /\ final_status false = EX_OK /\ final_status true = EX_WARN /\ EX_WARN <> EX_FAIL.
Proof.
  split; [|split].
  - intros s Hin. pose proof no_warning_site_true as H. unfold no_warning_site in H.
    rewrite forallb_forall in H. specialize (H s Hin). apply andb_true_iff in H. destruct H as [Hb Hw].
    split; [assumption|]. destruct (ds_warn s); [discriminate|reflexivity].
  - intros f g fn Hin. pose proof no_warn_call_true as H. unfold no_warn_call_in_decompression in H.
    rewrite forallb_forall in H. specialize (H _ Hin). cbn [snd] in H.
    destruct (is_warn_fn fn); [discriminate|reflexivity].
  - vm_compute. repeat split. discriminate.
Qed.

(* a warn()-like call would NOT be fatal: the calling thread prints, releases the stderr
   lock and goes back to work; the process is still there and can complete *)
Lemma warn_call_not_fatal :
  let e := data_fenv gen_cfg in
  let k := run_core gen_cfg e (data_init_core false warn_ops false) (repeat EvF 10) in
  k_res k = None /\ k_f k = FLive /\ k_printed k = 1 /\ k_lock k = None
  /\ k_res (run_core gen_cfg e k [EvMain; EvOthersDone; EvFDone; EvComplete; EvMain; EvMain])
     = Some (Exited EX_OK).
Proof. vm_compute. repeat split. Qed.

(* ------------------------------------------------------------------ *)
(* the checker rejects broken variants (model-level detection)          *)
(* ------------------------------------------------------------------ *)
Definition worker_site_with (ops : list op) : data_site :=
  mk_data_site "src/expand.c" "do_reorder" "failf" ThWorkerTask ops false true true true
               "compressed data error: %s" (ArgVar "oblk->status") [] [].

(* a data-error site that warns instead of failing: rejected (the thread goes on, the
   pipeline completes, exit status 0/4 is reachable) *)
Lemma warn_site_rejected :
  dcheck gen_cfg (data_fenv gen_cfg) (data_init (worker_site_with warn_ops) false) = false.
Proof. vm_compute. reflexivity. Qed.

(* failf() without bailout(): `return` at the end of the logging function *)
Lemma return_after_log_rejected_data :
  let c := with_bail_tail gen_cfg [OpUnlockStderr; OpReturn] in
  dcheck c (data_fenv c) (data_init (worker_site_with [OpFail true false]) false) = false.
Proof. vm_compute. reflexivity. Qed.

(* bailout() of the main thread exiting with status 0 *)
Lemma exit0_rejected :
  let c := with_bail_main gen_cfg [OpCleanup; OpUnblock blocked_signals; OpExit 0] in
  dcheck c (data_fenv c) (data_init (worker_site_with [OpFail true false]) true) = false.
Proof. vm_compute. reflexivity. Qed.
