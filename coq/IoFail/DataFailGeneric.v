(* C07 (process level) - configuration-independent lemmas about the state machine of
   IoFail/IoFailModel.v: soundness of the closed-set certificate, projection of the full state
   onto the core, counting of effective own steps.

   These are the generic lemmas of IoFailProofs.v, proved again here on purpose: IoFailProofs.v
   also contains C21's finite check of the regenerated configuration ([gen_check_all_true]),
   and the C07 theorems must build - or fail on their OWN obligations - independently of it. *)
From Coq Require Import List NArith Bool String Arith Lia.
From LBZ Require Import Gen.IoFailTab IoFail.IoFailModel.
Import ListNotations.
Local Open Scope N_scope.

Lemma core_eqb_true : forall a b, core_eqb a b = true -> a = b.
Proof. intros a b H. unfold core_eqb in H. destruct (core_eq_dec a b); [assumption | discriminate]. Qed.

Lemma core_eqb_refl : forall a, core_eqb a a = true.
Proof. intros a. unfold core_eqb. destruct (core_eq_dec a a); [reflexivity | congruence]. Qed.

Lemma memb_In : forall k l, memb k l = true -> In k l.
Proof.
  intros k l H. unfold memb in H. apply existsb_exists in H. destruct H as [x [Hin Heq]].
  apply core_eqb_true in Heq. subst. assumption.
Qed.

Lemma all_cevents_complete : forall ev, In ev all_cevents.
Proof. intros ev. destruct ev; cbn; tauto. Qed.

Lemma closed_step : forall c e S k ev, closedb c e S = true -> In k S -> In (cstep c e ev k) S.
Proof.
  intros c e S k ev Hc Hin. unfold closedb in Hc. rewrite forallb_forall in Hc.
  specialize (Hc k Hin). rewrite forallb_forall in Hc.
  apply memb_In. apply Hc. apply all_cevents_complete.
Qed.

Lemma closed_run : forall c e S sch k, closedb c e S = true -> In k S -> In (run_core c e k sch) S.
Proof.
  intros c e S sch. induction sch as [|ev t IH]; intros k Hc Hin; cbn.
  - assumption.
  - apply IH; [assumption|]. apply closed_step; assumption.
Qed.

(* the other threads never touch the core *)
Lemma run_core_of_run : forall c e sch st,
  s_core (run c e st sch) = run_core c e (s_core st) (core_events sch).
Proof.
  intros c e sch. induction sch as [|ev t IH]; intros st; cbn.
  - reflexivity.
  - destruct ev as [ev | i o]; cbn.
    + unfold run in IH. rewrite IH. cbn. reflexivity.
    + unfold run in IH. rewrite IH. cbn.
      destruct (k_res (s_core st)); reflexivity.
Qed.

(* number of steps of the two own threads that changed the state *)
Definition is_own (ev : cevent) : bool := match ev with EvF | EvMain => true | _ => false end.

Fixpoint own_effective (c : cfg) (e : fenv) (k : core) (sch : list cevent) : nat :=
  match sch with
  | [] => 0
  | ev :: t =>
    let k' := cstep c e ev k in
    ((if is_own ev && negb (core_eqb k' k) then 1 else 0) + own_effective c e k' t)%nat
  end.

Lemma is_own_In : forall ev, is_own ev = true -> In ev own_events.
Proof. intros ev; destruct ev; cbn; intros; try discriminate; tauto. Qed.
Lemma not_own_In : forall ev, is_own ev = false -> In ev env_events.
Proof. intros ev; destruct ev; cbn; intros; try discriminate; tauto. Qed.

(* variants of a configuration, for the model-level detection examples *)
Definition with_bail_tail (c : cfg) (ops : list op) : cfg :=
  {| c_blocked := c_blocked c; c_cli_blocks := c_cli_blocks c; c_cli_handlers := c_cli_handlers c;
     c_saved_ok := c_saved_ok c; c_halt_cases := c_halt_cases c; c_halt_default := c_halt_default c;
     c_bail_main := c_bail_main c; c_bail_sub := c_bail_sub c; c_prologue := c_prologue c; c_logc := c_logc c;
     c_log_ops := c_log_ops c; c_nobail := c_nobail c; c_bail_tail := ops;
     c_xread_err := c_xread_err c; c_xwrite_err := c_xwrite_err c; c_ex_ok := c_ex_ok c;
     c_complete_sig := c_complete_sig c; c_sigpipe := c_sigpipe c; c_sigxfsz := c_sigxfsz c;
     c_epipe := c_epipe c; c_efbig := c_efbig c |}.

Definition with_bail_main (c : cfg) (ops : list op) : cfg :=
  {| c_blocked := c_blocked c; c_cli_blocks := c_cli_blocks c; c_cli_handlers := c_cli_handlers c;
     c_saved_ok := c_saved_ok c; c_halt_cases := c_halt_cases c; c_halt_default := c_halt_default c;
     c_bail_main := ops; c_bail_sub := c_bail_sub c; c_prologue := c_prologue c; c_logc := c_logc c;
     c_log_ops := c_log_ops c; c_nobail := c_nobail c; c_bail_tail := c_bail_tail c;
     c_xread_err := c_xread_err c; c_xwrite_err := c_xwrite_err c; c_ex_ok := c_ex_ok c;
     c_complete_sig := c_complete_sig c; c_sigpipe := c_sigpipe c; c_sigxfsz := c_sigxfsz c;
     c_epipe := c_epipe c; c_efbig := c_efbig c |}.
