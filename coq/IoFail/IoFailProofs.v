(* C21 - proofs about the I/O-failure state machine (IoFailModel.v).

   Method: the reachable core states under ALL interleavings of the failing
   thread, the main thread and the abstracted pipeline events form a finite set
   that the (untrusted) function [explore] enumerates; [closedb] re-checks that
   the set is closed under every event, and [good_state] is evaluated on each
   of its members.  [check_sound] (proved once, for every configuration) lifts
   this to all schedules by induction; the arbitrary other threads are then
   added by a projection lemma ([run_core_of_run]): their steps never touch the
   core.  The finite check itself is discharged by computation on the
   configuration regenerated from the source ([gen_check_all_true]), so a
   source change that alters the transcribed operations re-opens exactly this
   obligation. *)
From Coq Require Import List NArith Bool String Arith Lia.
From LBZ Require Import Gen.IoFailTab IoFail.IoFailModel.
Import ListNotations.
Local Open Scope N_scope.

(* ------------------------------------------------------------------ *)
(* generic part: certificate soundness                                  *)
(* ------------------------------------------------------------------ *)
Lemma core_eqb_true : forall a b, core_eqb a b = true -> a = b.
Proof. intros a b H. unfold core_eqb in H. destruct (core_eq_dec a b); [assumption | discriminate]. Qed.

Lemma core_eqb_refl : forall a, core_eqb a a = true.
Proof. intros a. unfold core_eqb. destruct (core_eq_dec a a); [reflexivity | congruence]. Qed.

Lemma memb_In : forall k l, memb k l = true -> In k l.
Proof.
  intros k l H. unfold memb in H. apply existsb_exists in H. destruct H as [x [Hin Heq]].
  apply core_eqb_true in Heq. subst. assumption.
Qed.

Lemma all_cevents_complete : forall ev, In ev all_cevents.
Proof. intros ev. destruct ev; cbn; tauto. Qed.

Lemma closed_step : forall c e S k ev, closedb c e S = true -> In k S -> In (cstep c e ev k) S.
Proof.
  intros c e S k ev Hc Hin. unfold closedb in Hc. rewrite forallb_forall in Hc.
  specialize (Hc k Hin). rewrite forallb_forall in Hc.
  apply memb_In. apply Hc. apply all_cevents_complete.
Qed.

Lemma closed_run : forall c e S sch k, closedb c e S = true -> In k S -> In (run_core c e k sch) S.
Proof.
  intros c e S sch. induction sch as [|ev t IH]; intros k Hc Hin; cbn.
  - assumption.
  - apply IH; [assumption|]. apply closed_step; assumption.
Qed.

Lemma check_set_sound : forall c e k0 S, check_set c e k0 S = true ->
  forall sch, good_state c e (run_core c e k0 sch) = true.
Proof.
  intros c e k0 S H sch. unfold check_set in H.
  apply andb_true_iff in H. destruct H as [H Hgood].
  apply andb_true_iff in H. destruct H as [Hinit Hclosed].
  rewrite forallb_forall in Hgood. apply Hgood.
  apply closed_run; [assumption|]. apply memb_In. assumption.
Qed.

(* kernel conversion heuristic only: when [check c e sp] has to be compared with its
   unfolding, unfold [check] first (the other order makes the kernel evaluate the
   symbolic search [explore] and does not terminate in reasonable time) *)
Strategy expand [check].
(* likewise: never unfold the 48-step canonical run while comparing terms that mention it *)
Strategy opaque [canon].

Lemma check_sound : forall c e sp, check c e sp = true ->
  forall sch, good_state c e (run_core c e (init_core c e sp) sch) = true.
Proof. intros c e sp H. unfold check in H. exact (check_set_sound c e _ _ H). Qed.

(* the other threads never touch the core *)
Lemma run_core_of_run : forall c e sch st,
  s_core (run c e st sch) = run_core c e (s_core st) (core_events sch).
Proof.
  intros c e sch. induction sch as [|ev t IH]; intros st; cbn.
  - reflexivity.
  - destruct ev as [ev | i o]; cbn.
    + unfold run in IH. rewrite IH. cbn. reflexivity.
    + unfold run in IH. rewrite IH. cbn.
      destruct (k_res (s_core st)); reflexivity.
Qed.

(* components of good_state *)
Lemma good_final : forall c e k o, good_state c e k = true -> k_res k = Some o ->
  Some o = predict_outcome c e /\ k_printed k = predict_printed c e
  /\ outcome_allowed e o = true /\ k_printed k = expected_printed e.
Proof.
  intros c e k o H Hr. unfold good_state in H. rewrite Hr in H.
  remember (predict_outcome c e) as po eqn:Epo. remember (predict_printed c e) as pp eqn:Epp.
  clear Epo Epp.
  repeat (apply andb_true_iff in H; destruct H as [H ?]).
  repeat split.
  - unfold optout_eqb in H. destruct (optout_eq_dec (Some o) po); [assumption|discriminate].
  - apply N.eqb_eq. assumption.
  - assumption.
  - apply N.eqb_eq. assumption.
Qed.

Lemma good_progress : forall c e k, good_state c e k = true -> k_res k = None ->
  exists ev, In ev own_events /\ (mu c (cstep c e ev k) < mu c k)%nat.
Proof.
  intros c e k H Hr. unfold good_state in H. rewrite Hr in H.
  repeat (apply andb_true_iff in H; destruct H as [H ?]).
  apply existsb_exists in H. destruct H as [ev [Hin Hlt]].
  exists ev. split; [assumption|]. apply Nat.ltb_lt. assumption.
Qed.

Lemma good_no_success : forall c e k, good_state c e k = true ->
  k_completed k = false /\ k_m k <> MReturned /\ (k_printed k <= expected_printed e).
Proof.
  intros c e k H. unfold good_state in H.
  repeat (apply andb_true_iff in H; destruct H as [H ?]).
  repeat split.
  - destruct (k_completed k); [discriminate|reflexivity].
  - intros Hm. rewrite Hm in *. discriminate.
  - apply N.leb_le. assumption.
Qed.

Lemma good_own_mono : forall c e k ev, good_state c e k = true -> In ev own_events ->
  cstep c e ev k = k \/ (mu c (cstep c e ev k) < mu c k)%nat.
Proof.
  intros c e k ev H Hin. unfold good_state in H.
  repeat (apply andb_true_iff in H; destruct H as [H ?]).
  match goal with Hf : forallb _ own_events = true |- _ => rewrite forallb_forall in Hf; specialize (Hf ev Hin);
    apply orb_true_iff in Hf; destruct Hf as [Hf|Hf] end.
  - left. apply core_eqb_true. assumption.
  - right. apply Nat.ltb_lt. assumption.
Qed.

Lemma good_env_mono : forall c e k ev, good_state c e k = true -> In ev env_events ->
  (mu c (cstep c e ev k) <= mu c k)%nat.
Proof.
  intros c e k ev H Hin. unfold good_state in H.
  repeat (apply andb_true_iff in H; destruct H as [H ?]).
  match goal with Hf : forallb _ env_events = true |- _ => rewrite forallb_forall in Hf; specialize (Hf ev Hin) end.
  apply Nat.leb_le. assumption.
Qed.

(* number of steps of the two own threads that changed the state *)
Definition is_own (ev : cevent) : bool := match ev with EvF | EvMain => true | _ => false end.

Fixpoint own_effective (c : cfg) (e : fenv) (k : core) (sch : list cevent) : nat :=
  match sch with
  | [] => 0
  | ev :: t =>
    let k' := cstep c e ev k in
    ((if is_own ev && negb (core_eqb k' k) then 1 else 0) + own_effective c e k' t)%nat
  end.

Lemma is_own_In : forall ev, is_own ev = true -> In ev own_events.
Proof. intros ev; destruct ev; cbn; intros; try discriminate; tauto. Qed.
Lemma not_own_In : forall ev, is_own ev = false -> In ev env_events.
Proof. intros ev; destruct ev; cbn; intros; try discriminate; tauto. Qed.

Lemma bounded_generic : forall c e S, closedb c e S = true -> forallb (good_state c e) S = true ->
  forall sch k, In k S -> (own_effective c e k sch + mu c (run_core c e k sch) <= mu c k)%nat.
Proof.
  intros c e S Hc Hg. rewrite forallb_forall in Hg.
  induction sch as [|ev t IH]; intros k Hin; cbn [own_effective run_core fold_left].
  - lia.
  - assert (Hin' : In (cstep c e ev k) S) by (apply closed_step; assumption).
    specialize (IH _ Hin'). unfold run_core in IH.
    destruct (is_own ev) eqn:Ho; cbn [andb].
    + destruct (good_own_mono c e k ev (Hg k Hin) (is_own_In ev Ho)) as [Heq | Hlt].
      * rewrite Heq in *. rewrite core_eqb_refl. cbn [negb]. lia.
      * destruct (core_eqb (cstep c e ev k) k); cbn [negb]; lia.
    + pose proof (good_env_mono c e k ev (Hg k Hin) (not_own_In ev Ho)). lia.
Qed.

Lemma check_set_bounded : forall c e k0 S, check_set c e k0 S = true ->
  forall sch, (own_effective c e k0 sch + mu c (run_core c e k0 sch) <= mu c k0)%nat.
Proof.
  intros c e k0 S H sch. unfold check_set in H.
  apply andb_true_iff in H. destruct H as [H Hgood].
  apply andb_true_iff in H. destruct H as [Hinit Hclosed].
  eapply bounded_generic; eauto. apply memb_In. assumption.
Qed.

Lemma check_bounded : forall c e sp, check c e sp = true ->
  forall sch, (own_effective c e (init_core c e sp) sch + mu c (run_core c e (init_core c e sp) sch)
               <= mu c (init_core c e sp))%nat.
Proof. intros c e sp H. unfold check in H. exact (check_set_bounded c e _ _ H). Qed.

(* ------------------------------------------------------------------ *)
(* the regenerated configuration                                        *)
(* ------------------------------------------------------------------ *)
(* the finite check on the configuration transcribed from the current source *)
Lemma gen_check_all_true :
  forallb (fun p => check gen_cfg (fst p) (snd p)) (all_envs gen_cfg EIO) = true.
Proof. vm_compute. reflexivity. Qed.

Lemma structure_ok_true : structure_ok = true.
Proof. vm_compute. reflexivity. Qed.

(* the condition of DEF() under which the message is printed is exactly
   "not bailing, or errno is neither EPIPE nor EFBIG" *)
Lemma def_log_cond_spec : forall b x,
  def_log_cond b x = negb b || negb (N.eqb x EPIPE || N.eqb x EFBIG).
Proof.
  intros b x. unfold def_log_cond.
  rewrite ?(N.eqb_sym EPIPE x), ?(N.eqb_sym EFBIG x).
  destruct b; destruct (N.eqb x EPIPE); destruct (N.eqb x EFBIG); reflexivity.
Qed.

Lemma signal_numbers_distinct :
  SIGPIPE <> SIGXFSZ /\ EPIPE <> EFBIG /\ EIO <> EPIPE /\ EIO <> EFBIG /\ EX_OK = 0 /\ EX_FAIL = 1.
Proof. vm_compute. repeat split; discriminate. Qed.

(* representative errno *)
Definition repr_errno (x : N) : N :=
  if N.eqb x EPIPE then EPIPE else if N.eqb x EFBIG then EFBIG else EIO.

Lemma fenv_repr : forall r x g d, fenv_of gen_cfg r x g d = fenv_of gen_cfg r (repr_errno x) g d.
Proof.
  intros r x g d. unfold repr_errno.
  destruct (N.eqb_spec x EPIPE) as [->|H1]; [reflexivity|].
  destruct (N.eqb_spec x EFBIG) as [->|H2]; [reflexivity|].
  unfold fenv_of, sig_of_errno. cbn [c_logc c_epipe c_efbig c_sigpipe c_sigxfsz gen_cfg].
  rewrite !def_log_cond_spec.
  destruct (N.eqb_spec x EPIPE); [contradiction|].
  destruct (N.eqb_spec x EFBIG); [contradiction|].
  destruct g; reflexivity.
Qed.

Lemma repr_in : forall x, In (repr_errno x) [c_epipe gen_cfg; c_efbig gen_cfg; EIO].
Proof.
  intros x. unfold repr_errno. cbn [c_epipe c_efbig gen_cfg].
  destruct (N.eqb x EPIPE); [left; reflexivity|].
  destruct (N.eqb x EFBIG); [right; left; reflexivity | right; right; left; reflexivity].
Qed.

Lemma all_envs_complete : forall c xo r x g d sp,
  In x [c_epipe c; c_efbig c; xo] -> In (fenv_of c r x g d, sp) (all_envs c xo).
Proof.
  intros c xo r x g d sp Hx. unfold all_envs.
  apply in_flat_map. exists r. split; [destruct r; cbn; tauto|].
  apply in_flat_map. exists x. split; [assumption|].
  apply in_flat_map. exists g. split; [destruct g; cbn; tauto|].
  apply in_flat_map. exists d. split; [destruct d; cbn; tauto|].
  apply in_map_iff. exists sp. split; [reflexivity | destruct sp; cbn; tauto].
Qed.

Lemma gen_check : forall r x g d sp, check gen_cfg (fenv_of gen_cfg r x g d) sp = true.
Proof.
  intros r x g d sp. rewrite fenv_repr.
  pose proof gen_check_all_true as H.
  rewrite forallb_forall in H.
  assert (Hin : In (fenv_of gen_cfg r (repr_errno x) g d, sp) (all_envs gen_cfg EIO))
    by (apply all_envs_complete; apply repr_in).
  specialize (H _ Hin). cbn beta iota delta [fst snd] in H. exact H.
Qed.

(* every state reachable under any schedule, with any other threads, is good *)
Lemma core_of_run_fault : forall r x g d sp others sch,
  s_core (run_fault r x g d sp others sch)
  = run_core gen_cfg (fenv_of gen_cfg r x g d) (init_core gen_cfg (fenv_of gen_cfg r x g d) sp) (core_events sch).
Proof. intros. unfold run_fault. rewrite run_core_of_run. reflexivity. Qed.

Lemma gen_good : forall r x g d sp others sch,
  good_state gen_cfg (fenv_of gen_cfg r x g d) (s_core (run_fault r x g d sp others sch)) = true.
Proof.
  intros r x g d sp others sch. rewrite core_of_run_fault.
  exact (check_sound gen_cfg _ sp (gen_check r x g d sp) (core_events sch)).
Qed.

(* what "allowed" means in terms of the errno *)
Lemma allowed_cases : forall r x g d o,
  outcome_allowed (fenv_of gen_cfg r x g d) o = true ->
  o = Exited 1
  \/ (o = Killed SIGPIPE /\ x = EPIPE /\ g = true /\ d = true)
  \/ (o = Killed SIGXFSZ /\ x = EFBIG /\ g = true /\ d = true).
Proof.
  intros r x g d o H. destruct o as [n|s]; cbn [outcome_allowed] in H.
  - left. apply N.eqb_eq in H. subst. reflexivity.
  - unfold fenv_of, sig_of_errno in H.
    cbn [fe_sig fe_sig_default c_epipe c_efbig c_sigpipe c_sigxfsz gen_cfg] in H.
    destruct g; [|discriminate].
    destruct (N.eqb_spec x EPIPE) as [->|H1].
    + apply andb_true_iff in H. destruct H as [Hs Hd]. apply N.eqb_eq in Hs. subst. right; left; auto.
    + destruct (N.eqb_spec x EFBIG) as [->|H2]; [|discriminate].
      apply andb_true_iff in H. destruct H as [Hs Hd]. apply N.eqb_eq in Hs. subst. right; right; auto.
Qed.

Lemma expected_printed_spec : forall r x g d,
  expected_printed (fenv_of gen_cfg r x g d) = if (N.eqb x EPIPE || N.eqb x EFBIG) then 0 else 1.
Proof.
  intros r x g d. unfold expected_printed, fenv_of. cbn [fe_logp fst c_logc gen_cfg].
  rewrite def_log_cond_spec. cbn [negb orb].
  destruct (N.eqb x EPIPE || N.eqb x EFBIG); reflexivity.
Qed.

(* ------------------------------------------------------------------ *)
(* the C21 theorems                                                     *)
(* ------------------------------------------------------------------ *)
Lemma final_facts : forall r x g d sp others sch o,
  k_res (s_core (run_fault r x g d sp others sch)) = Some o ->
  Some o = fst (predict r x g d)
  /\ k_printed (s_core (run_fault r x g d sp others sch)) = snd (predict r x g d)
  /\ outcome_allowed (fenv_of gen_cfg r x g d) o = true
  /\ k_printed (s_core (run_fault r x g d sp others sch)) = expected_printed (fenv_of gen_cfg r x g d).
Proof.
  intros r x g d sp others sch o Hr. unfold predict. cbn [fst snd].
  exact (good_final gen_cfg _ _ o (gen_good r x g d sp others sch) Hr).
Qed.

Lemma outcome_exact : forall r x g d sp others sch o,
  k_res (s_core (run_fault r x g d sp others sch)) = Some o ->
  Some o = fst (predict r x g d) /\
  k_printed (s_core (run_fault r x g d sp others sch)) = snd (predict r x g d).
Proof.
  intros r x g d sp others sch o Hr.
  destruct (final_facts r x g d sp others sch o Hr) as [A [B _]]. split; assumption.
Qed.

Lemma outcome : forall r x g d sp others sch o,
  k_res (s_core (run_fault r x g d sp others sch)) = Some o ->
  (o = Exited 1
   \/ (o = Killed SIGPIPE /\ x = EPIPE /\ g = true /\ d = true)
   \/ (o = Killed SIGXFSZ /\ x = EFBIG /\ g = true /\ d = true))
  /\ o <> Exited 0
  /\ (k_printed (s_core (run_fault r x g d sp others sch)) = 0 <-> (x = EPIPE \/ x = EFBIG)).
Proof.
  intros r x g d sp others sch o Hr.
  destruct (final_facts r x g d sp others sch o Hr) as [_ [_ [Ha Hp]]].
  pose proof (allowed_cases r x g d o Ha) as Hc.
  split; [exact Hc|split].
  - destruct Hc as [H|[[H _]|[H _]]]; rewrite H; discriminate.
  - rewrite Hp, expected_printed_spec.
    destruct (N.eqb_spec x EPIPE) as [->|H1]; cbn [orb].
    + split; auto.
    + destruct (N.eqb_spec x EFBIG) as [->|H2]; cbn [orb].
      * split; auto.
      * split; [discriminate | intros [?|?]; contradiction].
Qed.

Lemma no_stuck : forall r x g d sp others sch,
  k_res (s_core (run_fault r x g d sp others sch)) = None ->
  exists ev, In ev own_events /\
    (mu gen_cfg (s_core (step gen_cfg (fenv_of gen_cfg r x g d) (EvCore ev) (run_fault r x g d sp others sch)))
     < mu gen_cfg (s_core (run_fault r x g d sp others sch)))%nat.
Proof.
  intros r x g d sp others sch Hr. cbn [step s_core].
  exact (good_progress gen_cfg _ _ (gen_good r x g d sp others sch) Hr).
Qed.

Definition mu0 (r : role) (x : N) (g d sp : bool) : nat := gen_mu_bound r x g d sp.

Lemma bounded : forall r x g d sp others sch,
  (own_effective gen_cfg (fenv_of gen_cfg r x g d) (init_core gen_cfg (fenv_of gen_cfg r x g d) sp) (core_events sch)
   + mu gen_cfg (s_core (run_fault r x g d sp others sch)) <= mu0 r x g d sp)%nat.
Proof.
  intros r x g d sp others sch. rewrite core_of_run_fault. unfold mu0, gen_mu_bound.
  exact (check_bounded gen_cfg _ sp (gen_check r x g d sp) (core_events sch)).
Qed.

Lemma no_success : forall r x g d sp others sch,
  k_completed (s_core (run_fault r x g d sp others sch)) = false
  /\ k_m (s_core (run_fault r x g d sp others sch)) <> MReturned
  /\ k_res (s_core (run_fault r x g d sp others sch)) <> Some (Exited EX_OK)
  /\ k_res (s_core (run_fault r x g d sp others sch)) <> Some (Exited 0).
Proof.
  intros r x g d sp others sch.
  destruct (good_no_success gen_cfg _ _ (gen_good r x g d sp others sch)) as [H1 [H2 _]].
  assert (H0 : k_res (s_core (run_fault r x g d sp others sch)) <> Some (Exited 0)).
  { intros Hr. destruct (outcome r x g d sp others sch (Exited 0) Hr) as [_ [Hne _]]. apply Hne. reflexivity. }
  repeat split; assumption.
Qed.

(* the outcome does not depend on the schedule, on the other threads, or on
   whether main was already suspended *)
Lemma others_irrelevant : forall r x g d sp1 sp2 others1 others2 sch1 sch2 o1 o2,
  k_res (s_core (run_fault r x g d sp1 others1 sch1)) = Some o1 ->
  k_res (s_core (run_fault r x g d sp2 others2 sch2)) = Some o2 ->
  o1 = o2 /\ k_printed (s_core (run_fault r x g d sp1 others1 sch1))
             = k_printed (s_core (run_fault r x g d sp2 others2 sch2)).
Proof.
  intros r x g d sp1 sp2 others1 others2 sch1 sch2 o1 o2 H1 H2.
  destruct (outcome_exact r x g d sp1 others1 sch1 o1 H1) as [A1 B1].
  destruct (outcome_exact r x g d sp2 others2 sch2 o2 H2) as [A2 B2].
  split; congruence.
Qed.

(* a uniform bound on the number of effective own steps *)
Definition mu_cap : nat := 64.
Lemma mu_init_le_all : forallb (fun p => Nat.leb (mu gen_cfg (init_core gen_cfg (fst p) (snd p))) mu_cap)
                               (all_envs gen_cfg EIO) = true.
Proof. vm_compute. reflexivity. Qed.

Lemma mu_init_le : forall r x g d sp, (mu0 r x g d sp <= mu_cap)%nat.
Proof.
  intros r x g d sp. unfold mu0, gen_mu_bound. rewrite fenv_repr.
  pose proof mu_init_le_all as H. rewrite forallb_forall in H.
  assert (Hin : In (fenv_of gen_cfg r (repr_errno x) g d, sp) (all_envs gen_cfg EIO))
    by (apply all_envs_complete; apply repr_in).
  specialize (H _ Hin). cbn beta iota delta [fst snd] in H.
  apply Nat.leb_le. exact H.
Qed.

Lemma terminates_within : forall r x g d sp others sch,
  k_res (s_core (run_fault r x g d sp others sch)) = None ->
  (own_effective gen_cfg (fenv_of gen_cfg r x g d) (init_core gen_cfg (fenv_of gen_cfg r x g d) sp) (core_events sch)
   < mu_cap)%nat.
Proof.
  intros r x g d sp others sch Hr.
  pose proof (bounded r x g d sp others sch) as Hb.
  destruct (no_stuck r x g d sp others sch Hr) as [ev [_ Hlt]].
  pose proof (mu_init_le r x g d sp) as Hm.
  lia.
Qed.

(* ------------------------------------------------------------------ *)
(* the checker rejects broken configurations (model-level detection)   *)
(* ------------------------------------------------------------------ *)
Definition with_bail_sub (c : cfg) (ops : list op) : cfg :=
  {| c_blocked := c_blocked c; c_cli_blocks := c_cli_blocks c; c_cli_handlers := c_cli_handlers c;
     c_saved_ok := c_saved_ok c; c_halt_cases := c_halt_cases c; c_halt_default := c_halt_default c;
     c_bail_main := c_bail_main c; c_bail_sub := ops; c_prologue := c_prologue c; c_logc := c_logc c;
     c_log_ops := c_log_ops c; c_nobail := c_nobail c; c_bail_tail := c_bail_tail c;
     c_xread_err := c_xread_err c; c_xwrite_err := c_xwrite_err c; c_ex_ok := c_ex_ok c;
     c_complete_sig := c_complete_sig c; c_sigpipe := c_sigpipe c; c_sigxfsz := c_sigxfsz c;
     c_epipe := c_epipe c; c_efbig := c_efbig c |}.
Definition with_xwrite_err (c : cfg) (ops : list op) : cfg :=
  {| c_blocked := c_blocked c; c_cli_blocks := c_cli_blocks c; c_cli_handlers := c_cli_handlers c;
     c_saved_ok := c_saved_ok c; c_halt_cases := c_halt_cases c; c_halt_default := c_halt_default c;
     c_bail_main := c_bail_main c; c_bail_sub := c_bail_sub c; c_prologue := c_prologue c; c_logc := c_logc c;
     c_log_ops := c_log_ops c; c_nobail := c_nobail c; c_bail_tail := c_bail_tail c;
     c_xread_err := c_xread_err c; c_xwrite_err := ops; c_ex_ok := c_ex_ok c;
     c_complete_sig := c_complete_sig c; c_sigpipe := c_sigpipe c; c_sigxfsz := c_sigxfsz c;
     c_epipe := c_epipe c; c_efbig := c_efbig c |}.
Definition with_logc (c : cfg) (f : bool -> N -> bool) : cfg :=
  {| c_blocked := c_blocked c; c_cli_blocks := c_cli_blocks c; c_cli_handlers := c_cli_handlers c;
     c_saved_ok := c_saved_ok c; c_halt_cases := c_halt_cases c; c_halt_default := c_halt_default c;
     c_bail_main := c_bail_main c; c_bail_sub := c_bail_sub c; c_prologue := c_prologue c; c_logc := f;
     c_log_ops := c_log_ops c; c_nobail := c_nobail c; c_bail_tail := c_bail_tail c;
     c_xread_err := c_xread_err c; c_xwrite_err := c_xwrite_err c; c_ex_ok := c_ex_ok c;
     c_complete_sig := c_complete_sig c; c_sigpipe := c_sigpipe c; c_sigxfsz := c_sigxfsz c;
     c_epipe := c_epipe c; c_efbig := c_efbig c |}.
Definition with_bail_tail (c : cfg) (ops : list op) : cfg :=
  {| c_blocked := c_blocked c; c_cli_blocks := c_cli_blocks c; c_cli_handlers := c_cli_handlers c;
     c_saved_ok := c_saved_ok c; c_halt_cases := c_halt_cases c; c_halt_default := c_halt_default c;
     c_bail_main := c_bail_main c; c_bail_sub := c_bail_sub c; c_prologue := c_prologue c; c_logc := c_logc c;
     c_log_ops := c_log_ops c; c_nobail := c_nobail c; c_bail_tail := ops;
     c_xread_err := c_xread_err c; c_xwrite_err := c_xwrite_err c; c_ex_ok := c_ex_ok c;
     c_complete_sig := c_complete_sig c; c_sigpipe := c_sigpipe c; c_sigxfsz := c_sigxfsz c;
     c_epipe := c_epipe c; c_efbig := c_efbig c |}.

(* bailout() of a sub-thread without xraise(SIGUSR1): the checker says no, and
   a concrete schedule ends in a state in which nobody can move *)
Definition cfg_no_usr1 := with_bail_sub gen_cfg [OpPromote promote_set; OpThreadExit].

Lemma no_usr1_rejected : check cfg_no_usr1 (fenv_of cfg_no_usr1 RWriter EIO false true) false = false.
Proof. vm_compute. reflexivity. Qed.

Lemma no_usr1_hangs :
  let e := fenv_of cfg_no_usr1 RWriter EIO false true in
  let k := run_core cfg_no_usr1 e (init_core cfg_no_usr1 e false) [EvMain; EvF; EvF; EvF; EvF; EvF; EvF; EvF; EvF; EvF] in
  k_res k = None /\ k_f k = FDead /\ k_m k = MSusp /\
  (* quiescent: neither own thread can move, and the pipeline can never complete *)
  cstep cfg_no_usr1 e EvF k = k /\ cstep cfg_no_usr1 e EvMain k = k /\
  cstep cfg_no_usr1 e EvFDone k = k /\
  cstep cfg_no_usr1 e EvComplete (cstep cfg_no_usr1 e EvOthersDone k) = cstep cfg_no_usr1 e EvOthersDone k.
Proof. vm_compute. repeat split. Qed.

(* xwrite() ignoring the -1: the writer goes on, the pipeline completes, exit status 0 *)
Definition cfg_ignore_write := with_xwrite_err gen_cfg [].

Lemma ignore_write_rejected : check cfg_ignore_write (fenv_of cfg_ignore_write RWriter EIO false true) false = false.
Proof. vm_compute. reflexivity. Qed.

Lemma ignore_write_exits_0 :
  let e := fenv_of cfg_ignore_write RWriter EIO false true in
  k_res (run_core cfg_ignore_write e (init_core cfg_ignore_write e false)
           [EvF; EvMain; EvOthersDone; EvFDone; EvComplete; EvMain; EvMain]) = Some (Exited 0).
Proof. vm_compute. reflexivity. Qed.

(* a diagnostic for EPIPE as well *)
Definition cfg_print_epipe := with_logc gen_cfg (fun _ _ => true).
Lemma print_epipe_changes_stderr :
  let e := fenv_of cfg_print_epipe RWriter EPIPE true true in
  k_printed (run_core cfg_print_epipe e (init_core cfg_print_epipe e true)
               [EvF; EvF; EvF; EvF; EvF; EvF; EvF; EvF; EvF; EvF; EvMain; EvMain; EvMain; EvMain; EvMain]) = 1.
Proof. vm_compute. reflexivity. Qed.

(* `return` instead of bailout() at the end of the logging function *)
Definition cfg_return_after_log := with_bail_tail gen_cfg [OpReturn].
Lemma return_after_log_rejected :
  check cfg_return_after_log (fenv_of cfg_return_after_log RWriter EIO false true) false = false.
Proof. vm_compute. reflexivity. Qed.
