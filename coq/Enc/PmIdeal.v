(* C20 - the level sequences computed by (boundary) Package-Merge, as pure arithmetic on frequencies.

   xs = leaf frequencies in ASCENDING order (xs_0 lightest), n = length xs.
   [ilev d t] = the record of level d after t items have been taken at that level (t >= 2; the first two
   items are always the two lightest leaves):
     ia    the row tree[d][0..20]   (head = number of leaves taken at level d)
     ipkg  frequency of the last two items taken (= weight of the next package handed to level d+1)
     iprev frequency of the last item taken.
   A level takes the next package of the level below when its frequency is strictly smaller than the
   next leaf's (ties: leaf first), or when no leaf is left; level 1 has no packages and stops changing
   when its leaves are exhausted.  Arithmetic is unbounded here (no wrap-around). *)
From Coq Require Import List NArith Arith Bool Lia ZifyBool.
From LBZ Require Import Gen.Consts Enc.PmModel.
Import ListNotations.
Local Open Scope N_scope.

Record il := mkil { ia : list N; ipkg : N; iprev : N }.

Definition leafF (xs : list N) (l : nat) : N := nth l xs 0.

Definition il_init (xs : list N) : il :=
  mkil (2 :: repeat 0 MCL) (leafF xs 0 + leafF xs 1) (leafF xs 1).

Definition il_leaf (xs : list N) (l : il) : il :=
  let a0 := hd 0 (ia l) in
  let cur := leafF xs (N.to_nat a0) in
  mkil (a0 + 1 :: tl (ia l)) (iprev l + cur) cur.

Definition il_pkg (l lo : il) : il :=
  mkil (hd 0 (ia l) :: firstn MCL (ia lo)) (iprev l + ipkg lo) (ipkg lo).

(* the take number t+1 at a level whose lower level is [lower]; d1 = level - 1 *)
Definition istep (xs : list N) (lower : nat -> il) (d1 : nat) (t : nat) (l : il) : il :=
  let ell := N.to_nat (hd 0 (ia l)) in
  match d1 with
  | O => if (ell <? length xs)%nat then il_leaf xs l else l
  | S _ =>
    let lo := lower (2 * (t - ell) + 2)%nat in
    if (length xs <=? ell)%nat || (ipkg lo <? leafF xs ell) then il_pkg l lo else il_leaf xs l
  end.

Fixpoint irun (xs : list N) (lower : nat -> il) (d1 : nat) (k : nat) : il :=
  match k with
  | O => il_init xs
  | S k' => istep xs lower d1 (k' + 2) (irun xs lower d1 k')
  end.

Fixpoint ilev (xs : list N) (d : nat) : nat -> il :=
  match d with
  | O => fun _ => il_init xs
  | S d1 => fun t => irun xs (ilev xs d1) d1 (t - 2)
  end.

Definition ell (xs : list N) (d t : nat) : nat := N.to_nat (hd 0 (ia (ilev xs d t))).
Definition pk (xs : list N) (d t : nat) : nat := (t - ell xs d t)%nat.

(* ---- step equations -------------------------------------------------------------------------------- *)
Lemma ilev_2 xs d1 : ilev xs (S d1) 2 = il_init xs.
Proof. reflexivity. Qed.

Lemma ilev_S xs d1 t : (2 <= t)%nat ->
  ilev xs (S d1) (S t) = istep xs (ilev xs d1) d1 t (ilev xs (S d1) t).
Proof.
  intro H. cbn [ilev]. replace (S t - 2)%nat with (S (t - 2)) by lia. cbn [irun].
  replace (t - 2 + 2)%nat with t by lia. reflexivity.
Qed.

Inductive step_kind := KNoop | KLeaf | KPkg.

(* which of the three things happens at take number t+1 of level d1+1 *)
Lemma istep_cases xs lower d1 t l :
  let ell := N.to_nat (hd 0 (ia l)) in
  let lo := lower (2 * (t - ell) + 2)%nat in
  (istep xs lower d1 t l = l /\ d1 = O /\ (length xs <= ell)%nat) \/
  (istep xs lower d1 t l = il_leaf xs l /\ (ell < length xs)%nat /\ (d1 <> O -> leafF xs ell <= ipkg lo)) \/
  (istep xs lower d1 t l = il_pkg l lo /\ d1 <> O /\ ((length xs <= ell)%nat \/ ipkg lo < leafF xs ell)).
Proof.
  intros ell lo. unfold istep. fold ell. destruct d1 as [|d2].
  - destruct (Nat.ltb_spec ell (length xs)) as [H|H].
    + right; left. repeat split; auto. congruence.
    + left. auto.
  - fold lo. destruct (Nat.leb_spec (length xs) ell) as [H|H]; cbn [orb].
    + right; right. repeat split; auto.
    + destruct (N.ltb_spec (ipkg lo) (leafF xs ell)) as [H2|H2].
      * right; right. repeat split; auto.
      * right; left. repeat split; auto.
Qed.

(* ---- invariants -------------------------------------------------------------------------------------- *)
Section Ideal.
Variable xs : list N.
Notation n := (length xs).
Hypothesis Hn : (2 <= n)%nat.
Hypothesis Hs : forall i j, (i <= j)%nat -> (j < n)%nat -> leafF xs i <= leafF xs j.
Notation L := (ilev xs).
Notation El := (ell xs).
Notation Pk := (pk xs).

Record Inv (d t : nat) : Prop := mkInv {
  inv_len : length (ia (L d t)) = S MCL;
  inv_lo : (2 <= El d t)%nat;
  inv_hi : (El d t <= n)%nat;
  inv_t : (El d t <= t)%nat;
  inv_c : (El d t < n)%nat -> iprev (L d t) <= leafF xs (El d t);
  inv_d : leafF xs (El d t - 1) <= iprev (L d t);
  inv_e1 : iprev (L d t) <= ipkg (L d t);
  inv_e2 : ipkg (L d t) <= 2 * iprev (L d t);
  inv_f : (2 <= d)%nat -> iprev (L d t) <= ipkg (L (d - 1) (2 * Pk d t + 2));
  inv_g : (2 <= d)%nat -> (1 <= Pk d t)%nat -> ipkg (L (d - 1) (2 * Pk d t)) <= iprev (L d t);
  inv_h : tl (ia (L d t)) = if ((d <=? 1) || (Pk d t =? 0))%nat then repeat 0 MCL
                            else firstn MCL (ia (L (d - 1) (2 * Pk d t)));
  inv_i : (2 <= d)%nat -> (1 <= Pk d t)%nat -> (El (d - 1) (2 * Pk d t) <= El d t)%nat
}.

Lemma El_init d1 : El (S d1) 2 = 2%nat.
Proof. reflexivity. Qed.

Lemma inv_init d1 : Inv (S d1) 2.
Proof.
  assert (E : El (S d1) 2 = 2%nat) by reflexivity.
  assert (P : Pk (S d1) 2 = 0%nat) by reflexivity.
  assert (H01 : leafF xs 0 <= leafF xs 1) by (apply Hs; lia).
  constructor; rewrite ?E, ?P; try lia.
  - reflexivity.
  - intro H. change (iprev (L (S d1) 2)) with (leafF xs 1). apply Hs; lia.
  - change (iprev (L (S d1) 2)) with (leafF xs 1). cbn. lia.
  - change (iprev (L (S d1) 2)) with (leafF xs 1). change (ipkg (L (S d1) 2)) with (leafF xs 0 + leafF xs 1). lia.
  - change (iprev (L (S d1) 2)) with (leafF xs 1). change (ipkg (L (S d1) 2)) with (leafF xs 0 + leafF xs 1). lia.
  - intro Hd. destruct d1 as [|d2]; [lia|].
    change (iprev (L (S (S d2)) 2)) with (leafF xs 1).
    change (ipkg (L (S (S d2) - 1) (2 * 0 + 2))) with (leafF xs 0 + leafF xs 1). lia.
  - rewrite Bool.orb_true_r. reflexivity.
Qed.

Lemma El_unfold d t : El d t = N.to_nat (hd 0 (ia (L d t))).
Proof. reflexivity. Qed.

Lemma Pk_unfold d t : Pk d t = (t - El d t)%nat.
Proof. reflexivity. Qed.

Lemma inv_step d1 t : (2 <= t)%nat -> Inv (S d1) t ->
  (d1 <> O -> forall t', (2 <= t')%nat -> Inv d1 t') ->
  (d1 <> O -> forall t', (2 <= t')%nat -> ipkg (L d1 t') <= ipkg (L d1 (S (S t')))) ->
  Inv (S d1) (S t).
Proof.
  intros Ht I Hlow Hmono.
  pose proof (istep_cases xs (L d1) d1 t (L (S d1) t)) as C. cbn zeta in C.
  rewrite <- (ilev_S xs d1 t Ht) in C.
  rewrite <- El_unfold in C.
  assert (Esub : (S d1 - 1 = d1)%nat) by lia.
  destruct I as [Ilen Ilo Ihi It Ic Id Ie1 Ie2 If Ig Ih Ii]. rewrite Esub in *.
  set (l := L (S d1) t) in *. set (e := El (S d1) t) in *.
  assert (Ehd : hd 0 (ia l) = N.of_nat e) by (unfold e; rewrite El_unfold; fold l; lia).
  assert (Pe : Pk (S d1) t = (t - e)%nat) by reflexivity.
  rewrite Pe in *.
  destruct C as [[E [D0 Hge]] | [[E [Hlt Hcmp]] | [E [D0 Hcmp]]]].
  - (* no-op: level 1, leaves exhausted *)
    assert (E' : El (S d1) (S t) = e) by (rewrite El_unfold, E; reflexivity).
    assert (P' : Pk (S d1) (S t) = (S t - e)%nat) by (rewrite Pk_unfold, E'; reflexivity).
    subst d1. constructor; rewrite ?E', ?P', ?E; fold l; try lia; auto.
  - (* leaf *)
    assert (Eia : ia (L (S d1) (S t)) = N.of_nat e + 1 :: tl (ia l)) by (rewrite E; unfold il_leaf; cbn [ia]; rewrite Ehd; reflexivity).
    assert (Epk : ipkg (L (S d1) (S t)) = iprev l + leafF xs e).
    { rewrite E. unfold il_leaf; cbn [ipkg]. rewrite Ehd, Nnat.Nat2N.id. reflexivity. }
    assert (Epv : iprev (L (S d1) (S t)) = leafF xs e).
    { rewrite E. unfold il_leaf; cbn [iprev]. rewrite Ehd, Nnat.Nat2N.id. reflexivity. }
    assert (E' : El (S d1) (S t) = S e) by (rewrite El_unfold, Eia; cbn [hd]; lia).
    assert (P' : Pk (S d1) (S t) = (t - e)%nat) by (rewrite Pk_unfold, E'; lia).
    pose proof (Ic Hlt) as Ic'.
    constructor; rewrite ?E', ?P', ?Epk, ?Epv, ?Esub; try lia.
    + rewrite Eia. cbn [length]. destruct (ia l); cbn [length tl] in *; lia.
    + intro H. apply Hs; lia.
    + replace (S e - 1)%nat with e by lia. lia.
    + rewrite Eia. cbn [tl]. exact Ih.
  - (* package *)
    set (lo := L d1 (2 * (t - e) + 2)) in *.
    assert (Eia : ia (L (S d1) (S t)) = N.of_nat e :: firstn MCL (ia lo)) by (rewrite E; unfold il_pkg; cbn [ia]; rewrite Ehd; reflexivity).
    assert (Epk : ipkg (L (S d1) (S t)) = iprev l + ipkg lo) by (rewrite E; reflexivity).
    assert (Epv : iprev (L (S d1) (S t)) = ipkg lo) by (rewrite E; reflexivity).
    assert (E' : El (S d1) (S t) = e) by (rewrite El_unfold, Eia; cbn [hd]; lia).
    assert (P' : Pk (S d1) (S t) = S (t - e)) by (rewrite Pk_unfold, E'; lia).
    assert (Hd2 : (2 <= S d1)%nat) by lia.
    pose proof (If Hd2) as If'. fold lo in If'.
    assert (T2 : (2 <= 2 * (t - e) + 2)%nat) by lia.
    pose proof (Hlow D0 _ T2) as Ilow. fold lo in Ilow.
    destruct Ilow as [Jlen Jlo Jhi Jt Jc Jd Je1 Je2 _ _ _ _].
    constructor; rewrite ?E', ?P', ?Epk, ?Epv, ?Esub; try lia.
    + rewrite Eia. cbn [length]. rewrite firstn_length. fold lo in Jlen. rewrite Jlen. lia.
    + intros _. replace (2 * S (t - e) + 2)%nat with (S (S (2 * (t - e) + 2))) by lia.
      apply (Hmono D0). lia.
    + intros _ _. replace (2 * S (t - e))%nat with (2 * (t - e) + 2)%nat by lia. fold lo. lia.
    + rewrite Eia. cbn [tl].
      replace ((S d1 <=? 1)%nat) with false by (symmetry; apply Nat.leb_gt; lia).
      cbn [orb Nat.eqb]. replace (2 * S (t - e))%nat with (2 * (t - e) + 2)%nat by lia. reflexivity.
    + intros _ _. replace (2 * S (t - e))%nat with (2 * (t - e) + 2)%nat by lia.
      destruct Hcmp as [Hcmp|Hcmp]; [lia|].
      destruct (Nat.le_gt_cases (El d1 (2 * (t - e) + 2)) e) as [|Hgt]; [assumption|exfalso].
      assert (leafF xs e <= leafF xs (El d1 (2 * (t - e) + 2) - 1)) by (apply Hs; lia).
      fold lo in Jd, Je1. lia.
Qed.

(* the package weight handed upwards never decreases *)
Lemma pkg_step_mono d1 t : (2 <= t)%nat -> Inv (S d1) t -> ipkg (L (S d1) t) <= ipkg (L (S d1) (S t)).
Proof.
  intros Ht I.
  pose proof (istep_cases xs (L d1) d1 t (L (S d1) t)) as C. cbn zeta in C.
  rewrite <- (ilev_S xs d1 t Ht) in C. rewrite <- El_unfold in C.
  destruct I as [Ilen Ilo Ihi It Ic Id Ie1 Ie2 If Ig Ih Ii].
  replace (S d1 - 1)%nat with d1 in * by lia.
  destruct C as [[E [D0 Hge]] | [[E [Hlt Hcmp]] | [E [D0 Hcmp]]]]; rewrite E.
  - lia.
  - unfold il_leaf; cbn [ipkg]. rewrite <- El_unfold. pose proof (Ic Hlt). lia.
  - unfold il_pkg; cbn [ipkg]. assert (Hd2 : (2 <= S d1)%nat) by lia. pose proof (If Hd2) as If'.
    rewrite Pk_unfold in If'. lia.
Qed.

Lemma inv_all d1 : forall t, (2 <= t)%nat -> Inv (S d1) t.
Proof.
  induction d1 as [|d0 IH].
  - intros t Ht. induction t as [|t IHt]; [lia|].
    destruct (Nat.eq_dec t 1) as [->|Hne]; [apply inv_init|].
    apply inv_step; [lia|apply IHt; lia|congruence|congruence].
  - intros t Ht. induction t as [|t IHt]; [lia|].
    destruct (Nat.eq_dec t 1) as [->|Hne]; [apply inv_init|].
    apply inv_step; [lia|apply IHt; lia| |].
    + intros _. exact IH.
    + intros _ t' Ht'.
      apply N.le_trans with (ipkg (L (S d0) (S t'))); apply pkg_step_mono; try lia; apply IH; lia.
Qed.

Lemma pkg_mono d1 t t' : (2 <= t)%nat -> (t <= t')%nat -> ipkg (L (S d1) t) <= ipkg (L (S d1) t').
Proof.
  intros Ht Hle. induction Hle as [|t' Hle IH]; [lia|].
  apply N.le_trans with (ipkg (L (S d1) t')); [exact IH|]. apply pkg_step_mono; [lia|]. apply inv_all. lia.
Qed.

(* the number of leaves taken never decreases and grows by at most one per take *)
Lemma El_step d1 t : (2 <= t)%nat -> (El (S d1) t <= El (S d1) (S t) <= S (El (S d1) t))%nat.
Proof.
  intro Ht.
  pose proof (istep_cases xs (L d1) d1 t (L (S d1) t)) as C. cbn zeta in C.
  rewrite <- (ilev_S xs d1 t Ht) in C. rewrite <- El_unfold in C.
  destruct C as [[E _] | [[E _] | [E _]]]; rewrite (El_unfold _ (S t)), E.
  - rewrite <- El_unfold. lia.
  - unfold il_leaf; cbn [ia hd]. rewrite El_unfold. lia.
  - unfold il_pkg; cbn [ia hd]. rewrite El_unfold. lia.
Qed.

Lemma El_mono d1 t t' : (2 <= t)%nat -> (t <= t')%nat -> (El (S d1) t <= El (S d1) t')%nat.
Proof.
  intros Ht Hle. induction Hle as [|t' Hle IH]; [lia|].
  pose proof (El_step d1 t' ltac:(lia)). lia.
Qed.

(* level 1 simply takes the leaves in order *)
Lemma El_level1 t : (2 <= t)%nat -> El 1 t = Nat.min t n.
Proof.
  intro Ht. induction t as [|t IH]; [lia|].
  destruct (Nat.eq_dec t 1) as [->|Hne]; [rewrite El_init; lia|].
  assert (Ht' : (2 <= t)%nat) by lia. specialize (IH Ht').
  pose proof (istep_cases xs (L 0) 0 t (L 1 t)) as C. cbn zeta in C.
  rewrite <- (ilev_S xs 0 t Ht') in C. rewrite <- El_unfold in C.
  destruct C as [[E [_ Hge]] | [[E [Hlt _]] | [E [D0 _]]]]; [| |congruence]; rewrite (El_unfold _ (S t)), E.
  - rewrite <- El_unfold. lia.
  - unfold il_leaf; cbn [ia hd]. rewrite El_unfold in *. lia.
Qed.

(* K: within the first 2n-2 takes a level takes at most n-2 packages (level 1: idle takes) *)
Lemma K_bound d1 : forall t, (2 <= t)%nat -> (t <= 2 * n - 2)%nat -> (Pk (S d1) t <= n - 2)%nat.
Proof.
  induction d1 as [|d0 IH]; intros t Ht Hle.
  - rewrite Pk_unfold, El_level1 by exact Ht. lia.
  - induction t as [|t IHt]; [lia|].
    destruct (Nat.eq_dec t 1) as [->|Hne]; [rewrite Pk_unfold, El_init; lia|].
    assert (Ht' : (2 <= t)%nat) by lia. specialize (IHt Ht' ltac:(lia)).
    pose proof (El_step (S d0) t Ht') as Hst.
    rewrite Pk_unfold in *.
    destruct (Nat.eq_dec (t - El (S (S d0)) t) (n - 2)) as [Heq|Hneq]; [|lia].
    (* n-2 packages already: the next package is not lighter than the next leaf *)
    pose proof (istep_cases xs (L (S d0)) (S d0) t (L (S (S d0)) t)) as C. cbn zeta in C.
    rewrite <- (ilev_S xs (S d0) t Ht') in C. rewrite <- El_unfold in C.
    pose proof (inv_all (S d0) t Ht') as I.
    destruct C as [[E [D0 _]] | [[E _] | [E [_ Hcmp]]]]; [congruence| |].
    + rewrite (El_unfold _ (S t)), E. unfold il_leaf; cbn [ia hd]. rewrite El_unfold in *. lia.
    + exfalso. destruct Hcmp as [Hcmp|Hcmp]; [pose proof (inv_t _ _ I); lia|].
      rewrite Heq in Hcmp.
      replace (2 * (n - 2) + 2)%nat with (2 * n - 2)%nat in Hcmp by lia.
      assert (T : (2 <= 2 * n - 2)%nat) by lia.
      pose proof (IH (2 * n - 2)%nat T (Nat.le_refl _)) as K1. rewrite Pk_unfold in K1.
      pose proof (inv_all d0 _ T) as J.
      pose proof (inv_hi _ _ J) as Jhi. pose proof (inv_d _ _ J) as Jd. pose proof (inv_e1 _ _ J) as Je.
      assert (Efull : El (S d0) (2 * n - 2) = n) by lia.
      rewrite Efull in Jd.
      assert (leafF xs (El (S (S d0)) t) <= leafF xs (n - 1)) by (apply Hs; pose proof (inv_hi _ _ I); lia).
      lia.
Qed.

(* after 2n-2 takes every level has taken all n leaves and exactly n-2 packages *)
Lemma final_counts d1 : El (S d1) (2 * n - 2) = n /\ Pk (S d1) (2 * n - 2) = (n - 2)%nat.
Proof.
  assert (T : (2 <= 2 * n - 2)%nat) by lia.
  pose proof (K_bound d1 _ T (Nat.le_refl _)) as K. pose proof (inv_hi _ _ (inv_all d1 _ T)) as Hhi.
  rewrite Pk_unfold in *. lia.
Qed.
End Ideal.
