(* Totality of the exact model of make_code_lengths() (Enc/GenModel.v), part 1: build_tree().
   On a descending array of labelled leaf weights (frequency >= 1 in bits 32..63, depth byte 0) whose frequencies sum
   to T < fib 33 = 3524578, bt_loop never returns an error value (every weight[]/V[] index in range, no underflow of
   r / s), ends with r = 2, s = 0 and leaves BtPost (Enc/GenMclDefs.v): parent pointers V[i] < i for the internal
   nodes 2..as-1, monotone (the internal nodes leave their FIFO queue in creation order), at most two internal
   children per node, the depth byte of weight[i] is the height of node i, strictly increasing towards the root,
   and the root is at most 30 high.
   Invariant [Inv]: two-queue discipline (leaves [0,s), internal queue (t,r), s + r = 2t + 2), both queues sorted
   by FREQUENCY (the full-word comparisons of the C code are used only through w <= w' -> fq w <= fq w'; the
   tie-breaking fields - depth byte, leaf counter, stale label - play no role), the two nodes merged are
   frequency-minimal, frequencies of the available nodes sum to T, and the Fibonacci certificates:
   a node of height h has frequency >= fib (h + 2), and fib (h + 1) <= M where M (the larger child of the last
   internal node created) is a lower bound of every available frequency.  Hence height <= 30 for every node,
   the depth byte never carries into the frequency field, and (w1 + w2) never leaves 64 bits. *)
From Coq Require Import List NArith Arith Bool Lia.
From LBZ Require Import Gen.Consts Enc.PmModel Enc.PmBasics Enc.PmReal Enc.GenModel Enc.GenInit Enc.GenMclDefs.
Import ListNotations.
Local Open Scope N_scope.

(* ---- packed weights -------------------------------------------------------------------------------------------- *)
Lemma lo_lt w : lo w < U32.
Proof. unfold lo. apply N.mod_lt. discriminate. Qed.

Lemma enc_fq_lo w : w = enc (fq w) (lo w).
Proof. unfold enc, fq, lo. pose proof (N.div_mod w U32 ltac:(discriminate)). lia. Qed.

Lemma fq_enc F L : L < U32 -> fq (enc F L) = F.
Proof. apply enc_div. Qed.

Lemma lo_enc F L : L < U32 -> lo (enc F L) = L.
Proof. apply enc_mod. Qed.

Lemma fq_mono a b : a <= b -> fq a <= fq b.
Proof. intro H. unfold fq. apply N.div_le_mono; [discriminate|exact H]. Qed.

Lemma land_shl_ones z k n : N.land z (N.shiftl (N.ones n) k) = ((z / 2 ^ k) mod 2 ^ n) * 2 ^ k.
Proof.
  apply N.bits_inj. intro i.
  rewrite N.land_spec, <- N.shiftl_mul_pow2, <- N.shiftr_div_pow2, <- N.land_ones.
  destruct (N.ltb_spec i k) as [Hk|Hk].
  - rewrite !N.shiftl_spec_low by exact Hk. apply andb_false_r.
  - rewrite !N.shiftl_spec_high' by exact Hk.
    rewrite N.land_spec, N.shiftr_spec'. replace (i - k + k) with i by lia. reflexivity.
Qed.

Lemma land_65535 w : N.land w 65535 = w mod 2 ^ 16.
Proof. change 65535 with (N.ones 16). apply N.land_ones. Qed.

Lemma depth_field_hg w : depth_field w = hg w * 2 ^ 24.
Proof. rewrite (enc_fq_lo w) at 1. rewrite depth_field_enc by apply lo_lt. reflexivity. Qed.

Lemma hg_lo_bound w h : hg w <= h -> lo w < (h + 1) * 2 ^ 24.
Proof.
  unfold hg. intro H. pose proof (N.div_mod (lo w) (2 ^ 24) ltac:(lia)) as D.
  pose proof (N.mod_lt (lo w) (2 ^ 24) ltac:(lia)). nia.
Qed.

(* the new internal node *)
Lemma bt_weight_spec wt w1 w2 :
  fq w1 + fq w2 < U32 -> lo w1 < 2 ^ 31 -> lo w2 < 2 ^ 31 ->
  exists c, c < 2 ^ 8 /\
    bt_weight wt w1 w2 = enc (fq w1 + fq w2) ((N.max (hg w1) (hg w2) + 1) * 2 ^ 24 + c * 2 ^ 16 + wt mod 2 ^ 16).
Proof.
  intros HF H1 H2. unfold bt_weight, u64.
  set (z := w1 + w2).
  assert (Ez : z = enc (fq w1 + fq w2) (lo w1 + lo w2)).
  { unfold z. rewrite (enc_fq_lo w1) at 1. rewrite (enc_fq_lo w2) at 1. unfold enc. lia. }
  assert (HL : lo w1 + lo w2 < U32) by (unfold U32; lia).
  assert (Hz : z < U64) by (rewrite Ez; apply enc_lt; assumption).
  rewrite (land_MAXW z), (N.mod_small z U64) by exact Hz.
  change 18446744069431296000 with (N.lor (N.shiftl (N.ones 32) 32) (N.shiftl (N.ones 8) 16)).
  rewrite N.land_lor_distr_r, !land_shl_ones.
  assert (E1 : (z / 2 ^ 32) mod 2 ^ 32 = fq w1 + fq w2).
  { rewrite Ez. change (2 ^ 32) with U32. rewrite enc_div by exact HL. apply N.mod_small. exact HF. }
  rewrite E1. set (c := (z / 2 ^ 16) mod 2 ^ 8).
  assert (Hc : c < 2 ^ 8) by (apply N.mod_lt; lia).
  rewrite lor_disjoint_add by lia.
  rewrite land_65535, !depth_field_hg.
  assert (G1 : hg w1 < 2 ^ 7) by (unfold hg; apply N.div_lt_upper_bound; lia).
  assert (G2 : hg w2 < 2 ^ 7) by (unfold hg; apply N.div_lt_upper_bound; lia).
  assert (EM : N.max (hg w1 * 2 ^ 24) (hg w2 * 2 ^ 24) = N.max (hg w1) (hg w2) * 2 ^ 24) by lia.
  rewrite EM. exists c. split; [exact Hc|].
  pose proof (N.mod_lt wt (2 ^ 16) ltac:(lia)) as Hr.
  set (r := wt mod 2 ^ 16) in *. set (mx := N.max (hg w1) (hg w2)) in *.
  assert (Hmx : mx < 2 ^ 7) by (unfold mx; lia).
  replace (r + ((fq w1 + fq w2) * 2 ^ 32 + c * 2 ^ 16) + mx * 2 ^ 24 + 16777216)
    with (enc (fq w1 + fq w2) ((mx + 1) * 2 ^ 24 + c * 2 ^ 16 + r)) by (unfold enc, U32; lia).
  rewrite land_MAXW. apply N.mod_small. apply enc_lt; [exact HF|]. unfold U32. lia.
Qed.

Lemma bt_weight_fields wt w1 w2 :
  fq w1 + fq w2 < U32 -> lo w1 < 2 ^ 31 -> lo w2 < 2 ^ 31 ->
  fq (bt_weight wt w1 w2) = fq w1 + fq w2 /\
  hg (bt_weight wt w1 w2) = N.max (hg w1) (hg w2) + 1 /\
  N.land (bt_weight wt w1 w2) 65535 = N.land wt 65535.
Proof.
  intros HF H1 H2. destruct (bt_weight_spec wt w1 w2 HF H1 H2) as [c [Hc E]]. rewrite E.
  assert (G1 : hg w1 < 2 ^ 7) by (unfold hg; apply N.div_lt_upper_bound; lia).
  assert (G2 : hg w2 < 2 ^ 7) by (unfold hg; apply N.div_lt_upper_bound; lia).
  pose proof (N.mod_lt wt (2 ^ 16) ltac:(lia)) as Hr.
  set (r := wt mod 2 ^ 16) in *. set (mx := N.max (hg w1) (hg w2)) in *.
  assert (Hmx : mx < 2 ^ 7) by (unfold mx; lia).
  assert (HL : (mx + 1) * 2 ^ 24 + c * 2 ^ 16 + r < U32) by (unfold U32; lia).
  split; [apply fq_enc; exact HL|]. split.
  - unfold hg. rewrite lo_enc by exact HL.
    replace ((mx + 1) * 2 ^ 24 + c * 2 ^ 16 + r) with ((c * 2 ^ 16 + r) + (mx + 1) * 2 ^ 24) by lia.
    rewrite N.div_add by lia. rewrite N.div_small by lia. lia.
  - rewrite !land_65535. fold r. unfold enc.
    replace ((fq w1 + fq w2) * U32 + ((mx + 1) * 2 ^ 24 + c * 2 ^ 16 + r))
      with (r + ((fq w1 + fq w2) * 2 ^ 16 + (mx + 1) * 2 ^ 8 + c) * 2 ^ 16) by (unfold U32; lia).
    rewrite N.mod_add by lia. apply N.mod_small. exact Hr.
Qed.

(* ---- sums over index ranges ------------------------------------------------------------------------------------- *)
Fixpoint sumr (g : nat -> N) (a n : nat) : N :=
  match n with O => 0 | S n' => g a + sumr g (S a) n' end.

Lemma sumr_ext g g' n : forall a, (forall i, (a <= i < a + n)%nat -> g i = g' i) -> sumr g a n = sumr g' a n.
Proof.
  induction n as [|n IH]; intros a H; cbn [sumr]; [reflexivity|].
  rewrite (H a) by lia. rewrite (IH (S a)); [reflexivity|]. intros i Hi. apply H. lia.
Qed.

Lemma sumr_snoc g n : forall a, sumr g a (S n) = sumr g a n + g (a + n)%nat.
Proof.
  induction n as [|n IH]; intro a.
  - cbn [sumr]. rewrite Nat.add_0_r. lia.
  - change (sumr g a (S (S n))) with (g a + sumr g (S a) (S n)). rewrite IH. cbn [sumr].
    replace (S a + n)%nat with (a + S n)%nat by lia. lia.
Qed.

(* ---- the Fibonacci step ------------------------------------------------------------------------------------------ *)
Lemma merge_arith M fa fb ha hb :
  1 <= M -> M <= fa -> M <= fb -> fib (ha + 2) <= fa -> fib (hb + 2) <= fb ->
  (1 <= ha -> fib (ha + 1) <= M) -> (1 <= hb -> fib (hb + 1) <= M) ->
  fib (N.max ha hb + 1 + 2) <= fa + fb /\ fib (N.max ha hb + 1 + 1) <= N.max fa fb.
Proof.
  intros H1 Ha Hb Fa Fb Ca Cb.
  assert (Ka : fib (ha + 1) <= M).
  { destruct (N.eq_dec ha 0) as [->|Z]; [change (fib (0 + 1)) with 1; exact H1|apply Ca; lia]. }
  assert (Kb : fib (hb + 1) <= M).
  { destruct (N.eq_dec hb 0) as [->|Z]; [change (fib (0 + 1)) with 1; exact H1|apply Cb; lia]. }
  destruct (N.max_spec ha hb) as [[Hlt E]|[Hge E]]; rewrite E.
  - replace (hb + 1 + 2) with (hb + 1 + 2) by lia. pose proof (fib_SS (hb + 1)) as S1.
    replace (hb + 1 + 1) with (hb + 2) in * by lia. split; lia.
  - pose proof (fib_SS (ha + 1)) as S1.
    replace (ha + 1 + 1) with (ha + 2) in * by lia. split; lia.
Qed.

(* ---- build_tree ---------------------------------------------------------------------------------------------------- *)
Definition gq (W : list N) (i : nat) : N := fq (wn W i).

Section Bt.
Variable as_ : nat.
Variable W0 : list N.
Variable T : N.
Hypothesis Has : (2 <= as_)%nat.
Hypothesis HW0len : length W0 = as_.
Hypothesis Hleaf : forall i, (i < as_)%nat -> hg (wn W0 i) = 0 /\ 1 <= fq (wn W0 i).
Hypothesis Hsorted : forall i j, (i <= j)%nat -> (j < as_)%nat -> fq (wn W0 j) <= fq (wn W0 i).
Hypothesis HT : T < fib 33.
Hypothesis HsumT : sumr (gq W0) 0 as_ = T.

(* loop invariant at the head of the iteration with loop variable t (t = 0: after the loop).
   leaves still available: indices [0, s); internal nodes in the queue: (t, r); M: a lower bound of all available
   frequencies that is at least the larger child of every internal node created so far *)
Record Inv (t : nat) (W V : list N) (r s : nat) (M : N) : Prop := {
  iLW : length W = as_;
  iLV : length V = as_;
  iR2 : (t + 1 <= r <= as_)%nat;
  iR3 : (s + r = 2 * t + 2)%nat;
  iR4 : (r = t + 1 -> r = as_)%nat;
  iLow : forall i, (i < as_)%nat -> N.land (wn W i) 65535 = N.land (wn W0 i) 65535;
  iLeaf : forall i, (i < s)%nat -> wn W i = wn W0 i;
  iM1 : 1 <= M;
  iQM : forall i, (i < s \/ t < i < r)%nat -> M <= gq W i;
  iQint : forall i, (t < i < r)%nat ->
            gq W i <= 2 * M /\ fib (hg (wn W i) + 1) <= M /\ fib (hg (wn W i) + 2) <= gq W i;
  iQh : forall i, (t < i < as_)%nat -> 1 <= hg (wn W i);
  iQsort : forall i j, (t < i)%nat -> (i <= j)%nat -> (j < r)%nat -> gq W j <= gq W i;
  iSum : sumr (gq W) 0 s + sumr (gq W) (t + 1) (r - (t + 1)) = T;
  iVp : forall i, (r <= i < as_)%nat -> (t < vn V i < i)%nat /\ hg (wn W i) + 1 <= hg (wn W (vn V i));
  iVmono : forall i j, (r <= i)%nat -> (i <= j)%nat -> (j < as_)%nat -> (vn V i <= vn V j)%nat;
  iV2 : forall i, (r <= i)%nat -> (i + 2 < as_)%nat -> (vn V i < vn V (i + 2))%nat
}.

(* every available item carries a Fibonacci certificate *)
Lemma item_cert t W V r s M i : Inv t W V r s M -> (i < s \/ t < i < r)%nat ->
  M <= gq W i /\ fib (hg (wn W i) + 2) <= gq W i /\ (1 <= hg (wn W i) -> fib (hg (wn W i) + 1) <= M).
Proof.
  intros I Hi. split; [apply (iQM _ _ _ _ _ _ I); exact Hi|].
  destruct (Nat.lt_ge_cases t i) as [Hti|Hti].
  - destruct Hi as [Hi|Hi].
    + pose proof (iR2 _ _ _ _ _ _ I). pose proof (iR3 _ _ _ _ _ _ I). lia.
    + destruct (iQint _ _ _ _ _ _ I i Hi) as [_ [Q2 Q3]]. split; [exact Q3|intros _; exact Q2].
  - assert (His : (i < s)%nat) by lia.
    pose proof (iR2 _ _ _ _ _ _ I). pose proof (iR3 _ _ _ _ _ _ I).
    unfold gq. rewrite (iLeaf _ _ _ _ _ _ I i His).
    destruct (Hleaf i ltac:(lia)) as [L1 L2]. rewrite L1. change (fib (0 + 2)) with 1. split; [exact L2|lia].
Qed.

Lemma merge_inv t W V r s M r' s' a b V' :
  Inv (S t) W V r s M ->
  (s' <= s)%nat -> (r' <= r)%nat -> (r <= r' + 2)%nat -> (s' + r' = 2 * t + 2)%nat -> (t + 2 <= r')%nat ->
  (a < s \/ S t < a < r)%nat -> (b < s \/ S t < b < r)%nat ->
  (forall i, (i < s' \/ S t < i < r')%nat -> gq W a <= gq W i /\ gq W b <= gq W i) ->
  (forall i, (r' <= i < r)%nat -> i = a \/ i = b) ->
  length V' = as_ ->
  (forall i, (r <= i < as_)%nat -> vn V' i = vn V i) ->
  (forall i, (r' <= i < r)%nat -> vn V' i = S t) ->
  sumr (gq W) 0 s' + sumr (gq W) (t + 2) (r' - (t + 2)) + gq W a + gq W b
    = sumr (gq W) 0 s + sumr (gq W) (t + 2) (r - (t + 2)) ->
  Inv t (upd W (S t) (bt_weight (wn W (S t)) (wn W a) (wn W b))) V' r' s' (N.max (gq W a) (gq W b)).
Proof.
  intros I Hs' Hr' Hr2 Hsr Htr Ha Hb Hmin Hcons HLV' Vsame Vnew Hsum.
  destruct (item_cert _ _ _ _ _ _ a I Ha) as [Ma [Fa Ca]].
  destruct (item_cert _ _ _ _ _ _ b I Hb) as [Mb [Fb Cb]].
  pose proof (iLW _ _ _ _ _ _ I) as LW. pose proof (iLV _ _ _ _ _ _ I) as LV.
  pose proof (iR2 _ _ _ _ _ _ I) as R2. pose proof (iR3 _ _ _ _ _ _ I) as R3.
  pose proof (iM1 _ _ _ _ _ _ I) as M1.
  pose proof (iSum _ _ _ _ _ _ I) as SumI. replace (S t + 1)%nat with (t + 2)%nat in SumI by lia.
  assert (Hab : gq W a + gq W b <= T) by lia.
  assert (T33 : fib 33 = 3524578) by reflexivity.
  set (fa := gq W a) in *. set (fb := gq W b) in *.
  set (ha := hg (wn W a)) in *. set (hb := hg (wn W b)) in *.
  assert (Ha30 : ha <= 30) by (apply (fib_height_bound ha fa); lia).
  assert (Hb30 : hb <= 30) by (apply (fib_height_bound hb fb); lia).
  pose proof (hg_lo_bound (wn W a) 30 Ha30) as La. pose proof (hg_lo_bound (wn W b) 30 Hb30) as Lb.
  destruct (bt_weight_fields (wn W (S t)) (wn W a) (wn W b)) as [Nf [Nh Nl]];
    [fold (gq W a) (gq W b); fold fa fb; unfold U32; lia|lia|lia|].
  fold (gq W a) (gq W b) in Nf. fold fa fb in Nf. fold ha hb in Nh.
  set (new := bt_weight (wn W (S t)) (wn W a) (wn W b)) in *.
  destruct (merge_arith M fa fb ha hb M1 Ma Mb Fa Fb Ca Cb) as [A1 A2].
  assert (HSt : (S t < length W)%nat) by lia.
  assert (Ew : forall i, wn (upd W (S t) new) i = if (i =? S t)%nat then new else wn W i)
    by (intro i; apply wn_upd; exact HSt).
  assert (Eg : forall i, gq (upd W (S t) new) i = if (i =? S t)%nat then fa + fb else gq W i).
  { intro i. unfold gq at 1. rewrite Ew. destruct (i =? S t)%nat; [exact Nf|reflexivity]. }
  constructor.
  - rewrite upd_length. exact LW.
  - exact HLV'.
  - lia.
  - lia.
  - lia.
  - intros i Hi. rewrite Ew. destruct (Nat.eqb_spec i (S t)) as [->|Ne].
    + rewrite Nl. apply (iLow _ _ _ _ _ _ I). exact Hi.
    + apply (iLow _ _ _ _ _ _ I). exact Hi.
  - intros i Hi. rewrite Ew. destruct (Nat.eqb_spec i (S t)) as [->|Ne]; [lia|].
    apply (iLeaf _ _ _ _ _ _ I). lia.
  - lia.
  - intros i Hi. rewrite Eg. destruct (Nat.eqb_spec i (S t)) as [->|Ne]; [lia|].
    destruct (Hmin i ltac:(lia)). lia.
  - intros i Hi. rewrite Eg, Ew. destruct (Nat.eqb_spec i (S t)) as [->|Ne].
    + rewrite Nh. repeat split; [lia|exact A2|exact A1].
    + destruct (iQint _ _ _ _ _ _ I i ltac:(lia)) as [Q1 [Q2 Q3]]. repeat split; [lia|lia|exact Q3].
  - intros i Hi. rewrite Ew. destruct (Nat.eqb_spec i (S t)) as [->|Ne]; [rewrite Nh; lia|].
    apply (iQh _ _ _ _ _ _ I). lia.
  - intros i j Hi Hij Hj. rewrite !Eg.
    destruct (Nat.eqb_spec i (S t)) as [->|Ne]; destruct (Nat.eqb_spec j (S t)) as [->|Ne']; try lia.
    + destruct (iQint _ _ _ _ _ _ I j ltac:(lia)) as [Q1 _]. lia.
    + apply (iQsort _ _ _ _ _ _ I); lia.
  - replace (r' - (t + 1))%nat with (S (r' - (t + 2))) by lia. cbn [sumr].
    replace (S (t + 1)) with (t + 2)%nat by lia.
    rewrite (sumr_ext (gq (upd W (S t) new)) (gq W) s' 0).
    2:{ intros i Hi. rewrite Eg. destruct (Nat.eqb_spec i (S t)); [lia|reflexivity]. }
    rewrite (sumr_ext (gq (upd W (S t) new)) (gq W) _ (t + 2)).
    2:{ intros i Hi. rewrite Eg. destruct (Nat.eqb_spec i (S t)); [lia|reflexivity]. }
    rewrite Eg. replace (t + 1 =? S t)%nat with true by (symmetry; apply Nat.eqb_eq; lia). lia.
  - intros i Hi. destruct (Nat.lt_ge_cases i r) as [Hlt|Hge].
    + rewrite (Vnew i ltac:(lia)). split; [lia|]. rewrite !Ew, Nat.eqb_refl.
      destruct (Nat.eqb_spec i (S t)); [lia|]. rewrite Nh.
      destruct (Hcons i ltac:(lia)) as [-> | ->]; [fold ha|fold hb]; lia.
    + rewrite (Vsame i ltac:(lia)). destruct (iVp _ _ _ _ _ _ I i ltac:(lia)) as [P1 P2].
      split; [lia|]. rewrite !Ew.
      destruct (Nat.eqb_spec i (S t)); [lia|]. destruct (Nat.eqb_spec (vn V i) (S t)); [lia|]. exact P2.
  - intros i j Hi Hij Hj.
    destruct (Nat.lt_ge_cases i r) as [Hlt|Hge]; destruct (Nat.lt_ge_cases j r) as [Hlt'|Hge']; try lia.
    + rewrite (Vnew i), (Vnew j) by lia. lia.
    + rewrite (Vnew i), (Vsame j) by lia. destruct (iVp _ _ _ _ _ _ I j ltac:(lia)). lia.
    + rewrite (Vsame i), (Vsame j) by lia. apply (iVmono _ _ _ _ _ _ I); lia.
  - intros i Hi Hi2. rewrite (Vsame (i + 2)%nat) by lia.
    destruct (Nat.lt_ge_cases i r) as [Hlt|Hge].
    + rewrite (Vnew i) by lia. destruct (iVp _ _ _ _ _ _ I (i + 2)%nat ltac:(lia)). lia.
    + rewrite (Vsame i) by lia. apply (iV2 _ _ _ _ _ _ I); lia.
Qed.

Lemma leaf_sorted t W V r s M i j : Inv t W V r s M -> (i <= j)%nat -> (j < s)%nat -> gq W j <= gq W i.
Proof.
  intros I Hij Hj. pose proof (iR2 _ _ _ _ _ _ I). pose proof (iR3 _ _ _ _ _ _ I).
  unfold gq. rewrite !(iLeaf _ _ _ _ _ _ I) by lia. apply Hsorted; lia.
Qed.

(* two internal nodes *)
Lemma inv_II t W V r s M :
  Inv (S t) W V r s M ->
  (s = 0)%nat \/ ((S t + 2 < r)%nat /\ wn W (r - 2) < wn W (s - 1)) ->
  Inv t (upd W (S t) (bt_weight (wn W (S t)) (wn W (r - 1)) (wn W (r - 2))))
        (upd (upd V (r - 1) (N.of_nat (S t))) (r - 2) (N.of_nat (S t))) (r - 2) s
        (N.max (gq W (r - 1)) (gq W (r - 2))).
Proof.
  intros I C. pose proof (iR2 _ _ _ _ _ _ I) as R2. pose proof (iR3 _ _ _ _ _ _ I) as R3.
  pose proof (iLV _ _ _ _ _ _ I) as LV.
  assert (Hr : (t + 4 <= r)%nat) by (destruct C as [C|[C _]]; lia).
  apply (merge_inv t W V r s M (r - 2) s (r - 1) (r - 2));
    [exact I|lia|lia|lia|lia|lia|right; lia|right; lia| | | | | | ].
  - intros i Hi.
    assert (S1 : gq W (r - 1) <= gq W (r - 2)) by (apply (iQsort _ _ _ _ _ _ I); lia).
    destruct (Nat.lt_ge_cases (S t) i) as [Hint|Hlf].
    + assert (gq W (r - 2) <= gq W i) by (apply (iQsort _ _ _ _ _ _ I); lia). lia.
    + destruct C as [C|[C1 C2]]; [lia|].
      apply N.lt_le_incl, fq_mono in C2. fold (gq W (r - 2)) (gq W (s - 1)) in C2.
      pose proof (leaf_sorted _ _ _ _ _ _ i (s - 1)%nat I ltac:(lia) ltac:(lia)). lia.
  - intros i Hi. lia.
  - rewrite !upd_length. exact LV.
  - intros i Hi. rewrite !vn_upd by (rewrite ?upd_length; lia).
    destruct (Nat.eqb_spec i (r - 2)); [lia|]. destruct (Nat.eqb_spec i (r - 1)); [lia|]. reflexivity.
  - intros i Hi. rewrite !vn_upd by (rewrite ?upd_length; lia). rewrite Nat2N.id.
    destruct (Nat.eqb_spec i (r - 2)); [reflexivity|]. destruct (Nat.eqb_spec i (r - 1)); [reflexivity|lia].
  - replace (r - (t + 2))%nat with (S (S (r - 2 - (t + 2)))) by lia. rewrite !sumr_snoc.
    replace (t + 2 + (r - 2 - (t + 2)))%nat with (r - 2)%nat by lia.
    replace (t + 2 + S (r - 2 - (t + 2)))%nat with (r - 1)%nat by lia. lia.
Qed.

(* two leaves *)
Lemma inv_LL t W V r s M :
  Inv (S t) W V r s M -> (1 <= s)%nat ->
  (r < S t + 2)%nat \/ ((1 < s)%nat /\ wn W (s - 2) <= wn W (r - 1)) ->
  Inv t (upd W (S t) (bt_weight (wn W (S t)) (wn W (s - 1)) (wn W (s - 2)))) V r (s - 2)
        (N.max (gq W (s - 1)) (gq W (s - 2))).
Proof.
  intros I Hs1 C. pose proof (iR2 _ _ _ _ _ _ I) as R2. pose proof (iR3 _ _ _ _ _ _ I) as R3.
  pose proof (iR4 _ _ _ _ _ _ I) as R4. pose proof (iLV _ _ _ _ _ _ I) as LV.
  assert (Hs : (2 <= s)%nat) by (destruct C as [C|[C _]]; lia).
  apply (merge_inv t W V r s M r (s - 2) (s - 1) (s - 2));
    [exact I|lia|lia|lia|lia|lia|left; lia|left; lia| | | | | | ].
  - intros i Hi.
    assert (S1 : gq W (s - 1) <= gq W (s - 2)) by (apply (leaf_sorted _ _ _ _ _ _ _ _ I); lia).
    destruct (Nat.lt_ge_cases (S t) i) as [Hint|Hlf].
    + destruct C as [C|[C1 C2]]; [lia|].
      apply fq_mono in C2. fold (gq W (s - 2)) (gq W (r - 1)) in C2.
      assert (gq W (r - 1) <= gq W i) by (apply (iQsort _ _ _ _ _ _ I); lia). lia.
    + assert (gq W (s - 2) <= gq W i) by (apply (leaf_sorted _ _ _ _ _ _ _ _ I); lia). lia.
  - intros i Hi. lia.
  - exact LV.
  - intros i Hi. reflexivity.
  - intros i Hi. lia.
  - pose proof (sumr_snoc (gq W) (s - 2) 0) as E1. pose proof (sumr_snoc (gq W) (S (s - 2)) 0) as E2.
    replace (S (S (s - 2))) with s in E2 by lia. cbn [Nat.add] in E1, E2.
    replace (S (s - 2)) with (s - 1)%nat in E1, E2 by lia. lia.
Qed.

(* one internal node and one leaf *)
Lemma inv_IL t W V r s M :
  Inv (S t) W V r s M -> (1 <= s)%nat -> (S t + 2 <= r)%nat ->
  (r <= S t + 2)%nat \/ wn W (s - 1) <= wn W (r - 2) ->
  (s <= 1)%nat \/ wn W (r - 1) < wn W (s - 2) ->
  Inv t (upd W (S t) (bt_weight (wn W (S t)) (wn W (r - 1)) (wn W (s - 1))))
        (upd V (r - 1) (N.of_nat (S t))) (r - 1) (s - 1)
        (N.max (gq W (r - 1)) (gq W (s - 1))).
Proof.
  intros I Hs1 Hr C1 C2. pose proof (iR2 _ _ _ _ _ _ I) as R2. pose proof (iR3 _ _ _ _ _ _ I) as R3.
  pose proof (iLV _ _ _ _ _ _ I) as LV.
  apply (merge_inv t W V r s M (r - 1) (s - 1) (r - 1) (s - 1));
    [exact I|lia|lia|lia|lia|lia|right; lia|left; lia| | | | | | ].
  - intros i Hi. destruct (Nat.lt_ge_cases (S t) i) as [Hint|Hlf].
    + destruct C1 as [C1|C1]; [lia|].
      apply fq_mono in C1. fold (gq W (s - 1)) (gq W (r - 2)) in C1.
      assert (gq W (r - 2) <= gq W i) by (apply (iQsort _ _ _ _ _ _ I); lia).
      assert (gq W (r - 1) <= gq W i) by (apply (iQsort _ _ _ _ _ _ I); lia). lia.
    + destruct C2 as [C2|C2]; [lia|].
      apply N.lt_le_incl, fq_mono in C2. fold (gq W (r - 1)) (gq W (s - 2)) in C2.
      assert (gq W (s - 2) <= gq W i) by (apply (leaf_sorted _ _ _ _ _ _ _ _ I); lia).
      assert (gq W (s - 1) <= gq W i) by (apply (leaf_sorted _ _ _ _ _ _ _ _ I); lia). lia.
  - intros i Hi. lia.
  - rewrite upd_length. exact LV.
  - intros i Hi. rewrite vn_upd by lia. destruct (Nat.eqb_spec i (r - 1)); [lia|]. reflexivity.
  - intros i Hi. rewrite vn_upd by lia. rewrite Nat2N.id. destruct (Nat.eqb_spec i (r - 1)); [reflexivity|lia].
  - pose proof (sumr_snoc (gq W) (s - 1) 0) as E1. replace (S (s - 1)) with s in E1 by lia. cbn [Nat.add] in E1.
    pose proof (sumr_snoc (gq W) (r - 1 - (t + 2)) (t + 2)) as E2.
    replace (S (r - 1 - (t + 2))) with (r - (t + 2))%nat in E2 by lia.
    replace (t + 2 + (r - 1 - (t + 2)))%nat with (r - 1)%nat in E2 by lia. lia.
Qed.

Lemma bt_step t W V r s M : Inv (S t) W V r s M ->
  exists W' V' r' s' M', bt_loop (S t) W V r s = bt_loop t W' V' r' s' /\ Inv t W' V' r' s' M'.
Proof.
  intro I. pose proof (iR2 _ _ _ _ _ _ I) as R2. pose proof (iR3 _ _ _ _ _ _ I) as R3.
  pose proof (iLV _ _ _ _ _ _ I) as LV. pose proof (iLW _ _ _ _ _ _ I) as LW.
  cbn [bt_loop]. rewrite !mrd_ok by lia.
  assert (DoII : (s = 0)%nat \/ ((S t + 2 < r)%nat /\ wn W (r - 2) < wn W (s - 1)) ->
    exists W' V' r' s' M',
    (gdo sel <- (if (r <? 2)%nat then GErr (GMcl (MUnderflow 1))
       else gdo V1 <- mwr 4 V (r - 1) (N.of_nat (S t)); gdo V2 <- mwr 4 V1 (r - 2) (N.of_nat (S t));
            gdo w1 <- GOk (nth (r - 1) W 0); gdo w2 <- GOk (nth (r - 2) W 0); GOk (V2, w1, w2, (r - 2)%nat, s));
     (let '(V', w1, w2, r', s') := sel in
      gdo wt <- GOk (nth (S t) W 0); gdo W' <- mwr 2 W (S t) (bt_weight wt w1 w2); bt_loop t W' V' r' s'))
    = bt_loop t W' V' r' s' /\ Inv t W' V' r' s' M').
  { intro C. assert (Hr : (t + 4 <= r)%nat) by (destruct C as [C|[C _]]; lia).
    destruct (Nat.ltb_spec r 2); [lia|].
    rewrite mwr_ok by lia. cbn [gbind]. rewrite mwr_ok by (rewrite upd_length; lia). cbn [gbind].
    rewrite mwr_ok by lia. cbn [gbind].
    do 5 eexists. split; [reflexivity|]. eapply inv_II; [exact I|exact C]. }
  assert (DoLL : (1 <= s)%nat -> (r < S t + 2)%nat \/ ((1 < s)%nat /\ wn W (s - 2) <= wn W (r - 1)) ->
    exists W' V' r' s' M',
    (gdo sel <- (if (s <? 2)%nat then GErr (GMcl (MUnderflow 4))
       else gdo w1 <- GOk (nth (s - 1) W 0); gdo w2 <- GOk (nth (s - 2) W 0); GOk (V, w1, w2, r, (s - 2)%nat));
     (let '(V', w1, w2, r', s') := sel in
      gdo wt <- GOk (nth (S t) W 0); gdo W' <- mwr 2 W (S t) (bt_weight wt w1 w2); bt_loop t W' V' r' s'))
    = bt_loop t W' V' r' s' /\ Inv t W' V' r' s' M').
  { intros Hs1 C. pose proof (iR4 _ _ _ _ _ _ I) as R4.
    assert (Hs : (2 <= s)%nat) by (destruct C as [C|[C _]]; lia).
    destruct (Nat.ltb_spec s 2); [lia|]. cbn [gbind]. rewrite mwr_ok by lia. cbn [gbind].
    do 5 eexists. split; [reflexivity|]. eapply inv_LL; [exact I|exact Hs1|exact C]. }
  assert (DoIL : (1 <= s)%nat -> (S t + 2 <= r)%nat ->
    (r <= S t + 2)%nat \/ wn W (s - 1) <= wn W (r - 2) -> (s <= 1)%nat \/ wn W (r - 1) < wn W (s - 2) ->
    exists W' V' r' s' M',
    (gdo sel <- (if ((r <? 1) || (s <? 1))%nat then GErr (GMcl (MUnderflow 2))
       else gdo V1 <- mwr 4 V (r - 1) (N.of_nat (S t));
            gdo w1 <- GOk (nth (r - 1) W 0); gdo w2 <- GOk (nth (s - 1) W 0); GOk (V1, w1, w2, (r - 1)%nat, (s - 1)%nat));
     (let '(V', w1, w2, r', s') := sel in
      gdo wt <- GOk (nth (S t) W 0); gdo W' <- mwr 2 W (S t) (bt_weight wt w1 w2); bt_loop t W' V' r' s'))
    = bt_loop t W' V' r' s' /\ Inv t W' V' r' s' M').
  { intros Hs1 Hr C1 C2.
    destruct (Nat.ltb_spec r 1); [lia|]. destruct (Nat.ltb_spec s 1); [lia|]. cbn [orb].
    rewrite mwr_ok by lia. cbn [gbind]. rewrite mwr_ok by lia. cbn [gbind].
    do 5 eexists. split; [reflexivity|]. eapply inv_IL; [exact I|exact Hs1|exact Hr|exact C1|exact C2]. }
  destruct (Nat.ltb_spec s 1) as [Hs0|Hs1].
  - (* no leaf left *)
    cbn [gbind]. apply DoII. left; lia.
  - destruct (Nat.ltb_spec (S t + 2) r) as [Hr3|Hr3].
    + cbn [gbind].
      destruct (N.ltb_spec (nth (r - 2) W 0) (nth (s - 1) W 0)) as [Hlt|Hge].
      * apply DoII. right; split; assumption.
      * destruct (Nat.ltb_spec r (S t + 2)) as [Hr2|Hr2]; [lia|].
        destruct (Nat.ltb_spec 1 s) as [Hs2|Hs2]; cbn [gbind].
        -- destruct (N.leb_spec (nth (s - 2) W 0) (nth (r - 1) W 0)) as [Hle|Hgt].
           ++ apply DoLL; [lia|right; split; assumption].
           ++ apply DoIL; [lia|lia|right; exact Hge|right; exact Hgt].
        -- apply DoIL; [lia|lia|right; exact Hge|left; lia].
    + cbn [gbind].
      destruct (Nat.ltb_spec r (S t + 2)) as [Hr2|Hr2]; cbn [gbind].
      * apply DoLL; [lia|left; lia].
      * destruct (Nat.ltb_spec 1 s) as [Hs2|Hs2]; cbn [gbind].
        -- destruct (N.leb_spec (nth (s - 2) W 0) (nth (r - 1) W 0)) as [Hle|Hgt].
           ++ apply DoLL; [lia|right; split; assumption].
           ++ apply DoIL; [lia|lia|left; lia|right; exact Hgt].
        -- apply DoIL; [lia|lia|left; lia|left; lia].
Qed.

Lemma bt_loop_ok t : forall W V r s M, Inv t W V r s M ->
  exists W' V' M', bt_loop t W V r s = GOk (W', V', 2%nat, 0%nat) /\ Inv 0 W' V' 2 0 M'.
Proof.
  induction t as [|t IH]; intros W V r s M I.
  - pose proof (iR2 _ _ _ _ _ _ I) as R2. pose proof (iR3 _ _ _ _ _ _ I) as R3. pose proof (iR4 _ _ _ _ _ _ I) as R4.
    assert (r = 2 /\ s = 0)%nat as [-> ->] by lia.
    exists W, V, M. split; [reflexivity|exact I].
  - destruct (bt_step t W V r s M I) as [W1 [V1 [r1 [s1 [M1 [E I1]]]]]]. rewrite E. apply (IH _ _ _ _ _ I1).
Qed.

Lemma inv_init : Inv (as_ - 1) W0 (repeat 0 as_) as_ as_ 1.
Proof.
  constructor.
  - exact HW0len.
  - apply repeat_length.
  - lia.
  - lia.
  - lia.
  - intros i Hi. reflexivity.
  - intros i Hi. reflexivity.
  - lia.
  - intros i Hi. apply Hleaf. lia.
  - intros i Hi. lia.
  - intros i Hi. lia.
  - intros i j H1 H2 H3. lia.
  - replace (as_ - (as_ - 1 + 1))%nat with 0%nat by lia. cbn [sumr]. rewrite N.add_0_r. exact HsumT.
  - intros i Hi. lia.
  - intros i j H1 H2 H3. lia.
  - intros i H1 H2. lia.
Qed.

Theorem build_tree_ok :
  exists W V, bt_loop (as_ - 1) W0 (repeat 0 as_) as_ as_ = GOk (W, V, 2%nat, 0%nat) /\ BtPost as_ W0 W V.
Proof.
  destruct (bt_loop_ok _ _ _ _ _ _ inv_init) as [W [V [M [E I]]]]. exists W, V. split; [exact E|].
  unfold BtPost. split; [exact (iLW _ _ _ _ _ _ I)|]. split; [exact (iLV _ _ _ _ _ _ I)|].
  split; [exact (iLow _ _ _ _ _ _ I)|].
  split; [intros i Hi; destruct (iVp _ _ _ _ _ _ I i ltac:(lia)) as [P1 P2]; split; [lia|exact P2]|].
  split; [intros i Hi; apply (iQh _ _ _ _ _ _ I); lia|].
  split; [intros i j H1 H2 H3; apply (iVmono _ _ _ _ _ _ I); lia|].
  split; [intros i H1 H2; apply (iV2 _ _ _ _ _ _ I); lia|].
  destruct (iQint _ _ _ _ _ _ I 1%nat ltac:(lia)) as [_ [_ Q3]].
  pose proof (iSum _ _ _ _ _ _ I) as S. cbn [sumr Nat.add Nat.sub] in S.
  apply (fib_height_bound _ (gq W 1)); [exact Q3|lia].
Qed.
End Bt.
