(* Round trip of the code-length tables: what transmit() writes (write_deltas,
   write_table) is read back by the strict bit-by-bit delta reader. *)
From Coq Require Import List NArith Arith Bool Lia.
From LBZ Require Import Common.Bits Dec.Prog Dec.Sim Dec.Format Dec.Delta Dec.Policies Dec.CrcProofs Enc.EncModel Gen.Consts.
Import ListNotations.
Local Open Scope N_scope.

(* the regenerated constants, re-checked by computation *)
Lemma min_code_length_eq : MIN_CODE_LENGTH = 1.
Proof. vm_compute. reflexivity. Qed.
Lemma max_code_length_eq : MAX_CODE_LENGTH = 20.
Proof. vm_compute. reflexivity. Qed.

Lemma in_len_range_true c : 1 <= c <= 20 -> in_len_range c = true.
Proof.
  intros [H1 H2]. unfold in_len_range. rewrite min_code_length_eq, max_code_length_eq.
  apply andb_true_iff. split; apply N.leb_le; assumption.
Qed.

(* ---- single steps of the strict machine ------------------------------------------------ *)
Lemma strict_run_tag0 fuel cur b bits : in_len_range cur = true ->
  run (mprog strict_machine (S fuel) (0, cur)) (b :: bits)
  = run (mprog strict_machine fuel (if b then (1, cur) else (2, cur))) bits.
Proof.
  intros H. cbn [mprog mstat strict_machine strict_stat]. change (0 =? 0) with true. cbv iota.
  rewrite H. cbn [run]. change (mstep strict_machine (0, cur) b) with (strict_step (0, cur) b).
  unfold strict_step. change (0 =? 0) with true. cbv iota. rewrite H. reflexivity.
Qed.

Lemma strict_run_tag1 fuel cur b bits :
  run (mprog strict_machine (S fuel) (1, cur)) (b :: bits)
  = run (mprog strict_machine fuel (0, if b then N.pred cur else cur + 1)) bits.
Proof.
  cbn [mprog mstat strict_machine strict_stat]. change (1 =? 0) with false. change (1 =? 1) with true. cbv iota.
  cbn [run]. change (mstep strict_machine (1, cur) b) with (strict_step (1, cur) b).
  unfold strict_step. change (1 =? 0) with false. change (1 =? 1) with true. cbv iota. reflexivity.
Qed.

Lemma strict_run_tag2 fuel cur bits :
  run (mprog strict_machine fuel (2, cur)) bits = Ok (cur, bits).
Proof.
  destruct fuel; cbn [mprog mstat strict_machine strict_stat];
    change (2 =? 0) with false; change (2 =? 1) with false; change (2 =? 2) with true; cbv iota; reflexivity.
Qed.

(* ---- runs of "+1" / "-1" steps ------------------------------------------------------------ *)
Lemma flat_map_const_seq {A} (l : list A) k : forall s, flat_map (fun _ => l) (seq s k) = flat_map (fun _ => l) (seq 0 k).
Proof.
  induction k as [|k IH]; intros s; cbn [seq flat_map]; [reflexivity|].
  rewrite (IH (S s)), (IH 1%nat). reflexivity.
Qed.

Lemma strict_run_up k : forall fuel cur rest,
  1 <= cur -> cur + N.of_nat k <= 20 ->
  run (mprog strict_machine (2 * k + fuel) (0, cur)) (flat_map (fun _ => [true; false]) (seq 0 k) ++ rest)
  = run (mprog strict_machine fuel (0, cur + N.of_nat k)) rest.
Proof.
  induction k as [|k IH]; intros fuel cur rest H1 H2.
  - cbn [seq flat_map app Nat.mul Nat.add N.of_nat]. rewrite N.add_0_r. reflexivity.
  - cbn [seq flat_map]. rewrite flat_map_const_seq.
    replace (2 * S k + fuel)%nat with (S (S (2 * k + fuel))) by lia.
    cbn [app]. rewrite strict_run_tag0 by (apply in_len_range_true; lia).
    rewrite strict_run_tag1. rewrite IH by lia.
    replace (cur + 1 + N.of_nat k) with (cur + N.of_nat (S k)) by lia. reflexivity.
Qed.

Lemma strict_run_down k : forall fuel cur rest,
  cur <= 20 -> 1 + N.of_nat k <= cur ->
  run (mprog strict_machine (2 * k + fuel) (0, cur)) (flat_map (fun _ => [true; true]) (seq 0 k) ++ rest)
  = run (mprog strict_machine fuel (0, cur - N.of_nat k)) rest.
Proof.
  induction k as [|k IH]; intros fuel cur rest H1 H2.
  - cbn [seq flat_map app Nat.mul Nat.add N.of_nat]. rewrite N.sub_0_r. reflexivity.
  - cbn [seq flat_map]. rewrite flat_map_const_seq.
    replace (2 * S k + fuel)%nat with (S (S (2 * k + fuel))) by lia.
    cbn [app]. rewrite strict_run_tag0 by (apply in_len_range_true; lia).
    rewrite strict_run_tag1. rewrite IH by lia.
    replace (N.pred cur - N.of_nat k) with (cur - N.of_nat (S k)) by lia. reflexivity.
Qed.

(* one symbol: from current length cur to target c, both in 1..20, then the terminator *)
Lemma strict_delta_symbol : forall fuel cur c rest,
  (1 <= cur <= 20)%N -> (1 <= c <= 20)%N ->
  (2 * N.to_nat (if (cur <? c)%N then c - cur else cur - c)%N + 1 < fuel)%nat ->
  run (strict_delta fuel cur)
      ((if (cur <? c)%N then flat_map (fun _ => [true; false]) (seq 0 (N.to_nat (c - cur)))
        else flat_map (fun _ => [true; true]) (seq 0 (N.to_nat (cur - c)))) ++ [false] ++ rest)
  = Ok (c, rest).
Proof.
  intros fuel cur c rest Hcur Hc Hf. unfold strict_delta.
  destruct (N.ltb_spec cur c) as [Hlt|Hge].
  - remember (N.to_nat (c - cur)) as k eqn:Ek.
    replace fuel with (2 * k + S (fuel - 2 * k - 1))%nat by lia.
    rewrite strict_run_up by lia.
    replace (cur + N.of_nat k) with c by lia.
    cbn [app]. rewrite strict_run_tag0 by (apply in_len_range_true; lia).
    apply strict_run_tag2.
  - remember (N.to_nat (cur - c)) as k eqn:Ek.
    replace fuel with (2 * k + S (fuel - 2 * k - 1))%nat by lia.
    rewrite strict_run_down by lia.
    replace (cur - N.of_nat k) with c by lia.
    cbn [app]. rewrite strict_run_tag0 by (apply in_len_range_true; lia).
    apply strict_run_tag2.
Qed.

Lemma read_lens_roundtrip : forall fuel lens cur rest,
  (1 <= cur <= 20)%N -> Forall (fun l => (1 <= l <= 20)%N) lens -> (64 <= fuel)%nat ->
  run (read_lens ref_noexc_policy fuel (length lens) cur) (write_deltas cur lens ++ rest) = Ok (lens, rest).
Proof.
  intros fuel lens. induction lens as [|c r IH]; intros cur rest Hcur Hall Hf.
  - reflexivity.
  - inversion Hall as [|c' r' Hc Hr]; subst.
    cbn [length read_lens write_deltas]. rewrite run_bind.
    change (delta_reader ref_noexc_policy) with strict_delta.
    rewrite <- !app_assoc.
    rewrite strict_delta_symbol; [|assumption|assumption|destruct (cur <? c); lia].
    rewrite run_bind. rewrite IH by assumption. reflexivity.
Qed.

(* the 5-bit start value *)
Lemma put5_value a : a < 32 -> N_of_bits (put 5 a) = a.
Proof.
  intros H.
  assert (E : forallb (fun k => N_of_bits (put 5 (N.of_nat k)) =? N.of_nat k) (seq 0 32) = true)
    by (vm_compute; reflexivity).
  rewrite forallb_forall in E. specialize (E (N.to_nat a)).
  rewrite N2Nat.id in E. apply N.eqb_eq. apply E. apply in_seq. lia.
Qed.

Lemma table_roundtrip : forall fuel pad lens rest,
  lens <> [] -> Forall (fun l => (1 <= l <= 20)%N) lens -> (pad <= 3)%N -> (64 <= fuel)%nat ->
  run (read_table ref_noexc_policy fuel (length lens)) (write_table pad lens ++ rest) = Ok (lens, rest).
Proof.
  intros fuel pad lens rest Hne Hall Hpad Hf.
  destruct lens as [|l0 r]; [congruence|].
  assert (H0 : 1 <= l0 <= 20) by (inversion Hall; assumption).
  unfold read_table, write_table. cbn [hd].
  set (a := if l0 <? 4 then l0 + pad else l0 - pad).
  assert (Ha : 1 <= a <= 20) by (subst a; destruct (N.ltb_spec l0 4); lia).
  rewrite run_bind, <- app_assoc.
  rewrite run_take_app0 by (unfold put; apply bits_msb_length).
  rewrite put5_value by lia.
  apply read_lens_roundtrip; assumption.
Qed.

Print Assumptions strict_delta_symbol.
Print Assumptions read_lens_roundtrip.
Print Assumptions table_roundtrip.
