(* Proofs about Enc/EncodeModel.v (the model of encode() of src/encode.c):
   - the packed 32-bit selector MTF computes move-to-front positions (checked on all 720 x 6 states);
   - the model never returns an error value on a valid block (every assert() of encode() holds, no uint32_t wrap,
     no selectorMTF[] overflow), tree_pad <= 3, at most one surplus selector, the witness it builds is the one
     Properties_C02gen is about (GenCompose.gen_witness with the computed tree_pad / surplus selector);
   - BYTE ALIGNMENT: the bit length of EncModel.write_block on that witness is exactly the cost encode() computed
     (header 123 + generate_prefix_code() + selector MTF + padding + character map), a multiple of 8, and
     out_expect_len is its eighth;
   - the values of `a` transmit() sends / walks through for a table stay within 1..20 (first table: with tree_pad);
   - C01/C02 for streams in which tables, selectors, tree_pad and the surplus selector are all computed. *)
From Coq Require Import List NArith Arith Bool Lia.
From LBZ Require Rle.RleModel.
From LBZ Require Import Common.Bits Gen.Consts Dec.Prog Dec.Format Dec.Policies Dec.CrcProofs
  Enc.EncModel Enc.EncFacts Enc.MtfProofs Enc.RleInvProofs Enc.LayoutA Enc.BlockProofs Enc.StreamProofs Enc.EncCompose Enc.PmModel Enc.PmReal Enc.PmCost Enc.GenModel Enc.GenEm
  Enc.GenReorder Enc.GenProofs Enc.GenMcl Enc.GenCompose Enc.GenMclBlocks Enc.EncodePmCost Enc.EncodeGenCost Enc.EncodeModel Enc.EncodeSelMtf Enc.EncodeLayout.
Import ListNotations.
Local Open Scope N_scope.


(* the selector loop of encode() from its initial state 0x543210 *)
Theorem sel_mtf_loop_init nt sels cost : nt <= 6 -> Forall (fun c => c < nt) sels ->
  sel_mtf_loop nt sels SEL_MTF_INIT cost =
    EOk (mtf_encode_sels [0; 1; 2; 3; 4; 5] sels, selcost (mtf_encode_sels [0; 1; 2; 3; 4; 5] sels) cost) /\
  Forall (fun j => j <= 5) (mtf_encode_sels [0; 1; 2; 3; 4; 5] sels).
Proof.
  intros Hnt Hs. destruct init_in_perms6 as [P0 P1]. rewrite <- P1. split; [apply sel_mtf_loop_spec; assumption|].
  apply mtf_sels_bound; [exact P0|]. eapply Forall_impl; [|exact Hs]. cbn beta. intros; lia.
Qed.

(* ---- the bit length of a block in closed form ------------------------------------------------------------------------------ *)
Definition sel_order0 : list N := [0; 1; 2; 3; 4; 5].

Lemma write_block_length_eq w :
  w_tables w <> [] -> Forall (fun lens => lens <> []) (w_tables w) ->
  (4 <= hd 0 (hd [] (w_tables w)) -> w_pad w <= hd 0 (hd [] (w_tables w))) ->
  N.of_nat (length (write_block w)) =
    HEADER_COST + (16 + 16 * used_ranges (used_bytes (bwt_last (w_blk w)))) +
    (lsum (mtf_encode_sels sel_order0 (w_sels w)) + N.of_nat (length (w_sels w))) + (if w_extra_sel w then 1 else 0) +
    2 * w_pad w + lsum (map tree_cost (w_tables w)) + gbits (tab_of (w_tables w)) (w_sels w) (block_syms w).
Proof.
  intros Hne Hrows Hpad. unfold write_block, write_body. cbv zeta.
  rewrite !app_length, !put_length, !Nat2N.inj_add.
  rewrite write_bitmap_length, selectors_length, mtf_encode_sels_length.
  rewrite (codes_length (w_tables w) (w_sels w) (S (length (block_syms w))) (block_syms w)) by lia.
  pose proof (tables_length (w_pad w) (w_tables w) 0 Hrows (fun _ => Hpad)) as T. cbn [Nat.eqb] in T.
  destruct (w_tables w) as [|t0 tr] eqn:Et; [contradiction|]. rewrite <- Et in *. rewrite T.
  replace (N.of_nat (length (if w_extra_sel w then [false] else []))) with (if w_extra_sel w then 1 else 0)
    by (destruct (w_extra_sel w); reflexivity).
  change HEADER_COST with 123. change (N.of_nat 48) with 48. change (N.of_nat 32) with 32. change (N.of_nat 1) with 1.
  change (N.of_nat 24) with 24. change (N.of_nat 3) with 3. change (N.of_nat 15) with 15. unfold sel_order0. lia.
Qed.

(* ---- the padding arithmetic --------------------------------------------------------------------------------------------------- *)
Lemma land7 x : N.land x 7 = x mod 8.
Proof. change 7 with (N.ones 3). apply N.land_ones. Qed.

Lemma u8_small x : x < 256 -> u8 x = x.
Proof. intro H. unfold u8. change 255 with (N.ones 8). rewrite N.land_ones. apply N.mod_small. exact H. Qed.

Lemma pad_arith c : let j := N.land (8 - N.land c 7) 7 in
  j < 8 /\ N.land (c + j) 7 = 0 /\ 2 * N.shiftr j 1 + N.land j 1 = j /\ N.shiftr j 1 <= 3 /\ N.land j 1 <= 1.
Proof.
  cbv zeta. rewrite !land7. set (m := c mod 8).
  assert (Hm : m < 8) by (apply N.mod_lt; discriminate).
  pose proof (N.div_mod c 8 ltac:(discriminate)) as D. fold m in D.
  set (j := (8 - m) mod 8). assert (Hj : j < 8) by (apply N.mod_lt; discriminate).
  assert (Ej : (m = 0 /\ j = 0) \/ (0 < m /\ j = 8 - m)).
  { destruct (N.eq_dec m 0) as [Z|NZ]; [left|right]; split; try lia;
      unfold j; first [rewrite Z; reflexivity | apply N.mod_small; lia]. }
  split; [exact Hj|]. split.
  - destruct Ej as [[Z ->]|[P ->]].
    + rewrite N.add_0_r. exact Z.
    + replace (c + (8 - m)) with ((c / 8 + 1) * 8) by lia. apply N.mod_mul. discriminate.
  - rewrite N.shiftr_div_pow2, MtfProofs.land1_mod. change (2 ^ 1) with 2.
    pose proof (N.div_mod j 2 ltac:(discriminate)) as D2. pose proof (N.mod_lt j 2 ltac:(discriminate)) as M2.
    split; [lia|]. split; [|lia].
    assert (j / 2 < 4) by (apply N.div_lt_upper_bound; lia). lia.
Qed.

Lemma land7_add16 c k : N.land c 7 = 0 -> N.land (c + 16 * k) 7 = 0.
Proof.
  rewrite !land7. intro H. replace (c + 16 * k) with (c + (2 * k) * 8) by lia. rewrite N.mod_add by discriminate. exact H.
Qed.

Lemma shiftr3_exact c : N.land c 7 = 0 -> c = 8 * N.shiftr c 3.
Proof.
  rewrite land7. intro H. rewrite N.shiftr_div_pow2. change (2 ^ 3) with 8.
  pose proof (N.div_mod c 8 ltac:(discriminate)). lia.
Qed.

(* ---- valid blocks ---------------------------------------------------------------------------------------------------------------- *)
Definition block_ok (blk : list N) : Prop :=
  blk <> [] /\ N.of_nat (length blk) <= MAX_BLOCK_SIZE /\ Forall (fun c => c < 256) blk.

Lemma enc_syms_blk_syms blk : enc_syms blk = blk_syms blk.
Proof. reflexivity. Qed.

Lemma used_nonempty blk : blk <> [] -> (1 <= length (used_bytes (bwt_last blk)))%nat.
Proof.
  intro H. pose proof (bwt_last_length blk) as L.
  destruct (bwt_last blk) as [|c col] eqn:E; [destruct blk; [contradiction|discriminate]|].
  assert (Hin : In c (used_bytes (c :: col))) by (apply MtfProofs.used_bytes_In; left; reflexivity).
  destruct (used_bytes (c :: col)); [contradiction|cbn [length]; lia].
Qed.

(* ---- encode() on a valid block ---------------------------------------------------------------------------------------------------- *)
Record encode_facts (cf : N) (blk : list N) (idx crc : N) (r : enc_result) : Prop := {
  ef_gen : gen_prefix_code cf (enc_syms blk) = GOk (e_gen r) /\ gen_result_ok (enc_syms blk) (e_gen r);
  ef_wit : e_wit r = {| w_blk := blk; w_idx := idx; w_tables := g_tables (e_gen r); w_sels := g_sels (e_gen r);
                        w_extra_sel := w_extra_sel (e_wit r); w_pad := w_pad (e_wit r); w_crc := crc |};
  ef_pad : w_pad (e_wit r) <= 3;
  ef_selmtf : e_selmtf r = mtf_encode_sels sel_order0 (g_sels (e_gen r)) ++ (if w_extra_sel (e_wit r) then [0] else []);
  ef_nsel : e_nsel r = N.of_nat (length (g_sels (e_gen r))) + (if w_extra_sel (e_wit r) then 1 else 0);
  ef_nsel_cap : e_nsel r <= enc_selector_size /\ N.of_nat (length (e_selmtf r)) <= enc_selectorMTF_size;
  ef_cost : e_cost_bits r =
            HEADER_COST + g_cost (e_gen r) +
            (lsum (mtf_encode_sels sel_order0 (g_sels (e_gen r))) + N.of_nat (length (g_sels (e_gen r)))) +
            (2 * w_pad (e_wit r) + (if w_extra_sel (e_wit r) then 1 else 0)) +
            (16 + 16 * used_ranges (used_bytes (bwt_last blk)));
  ef_bits : N.of_nat (length (write_block (e_wit r))) = e_cost_bits r;
  ef_aligned : e_cost_bits r = 8 * e_expect_len r;
  ef_small : e_cost_bits r < 2 ^ 28
}.

Theorem encode_block_full_ok cf blk idx crc : 1 <= cf -> block_ok blk ->
  exists r, encode_block_full cf blk idx crc = EOk r /\ encode_facts cf blk idx crc r.
Proof.
  intros Hcf [Hne [Hlen Hb]].
  destruct (blk_syms_input_ok blk Hne Hlen Hb) as [Hin Has]. rewrite <- enc_syms_blk_syms in *.
  destruct (gen_block_total cf blk Hcf Hne Hlen Hb) as [g [Eg Gok]]. rewrite <- enc_syms_blk_syms in *.
  pose proof (used_nonempty blk Hne) as Hu1.
  assert (Hcol : Forall (fun c => c < 256) (bwt_last blk)).
  { apply Forall_forall. intros c Hc. apply bwt_last_In in Hc. rewrite Forall_forall in Hb. apply Hb. exact Hc. }
  pose proof (used_bytes_le_256 _ Hcol) as Hu2.
  destruct (gen_cost cf (enc_syms blk) g Hcf Hin ltac:(lia) Eg) as [Ecost [Bcost [Hhd [Hold1 Hold2]]]].
  destruct Gok as [G1 G2 G3 G4 G5 G6 G7 G8].
  set (mtfv := enc_syms blk) in *. set (used := used_bytes (bwt_last blk)) in *.
  set (J := mtf_encode_sels sel_order0 (g_sels g)).
  assert (HJ : Forall (fun j => j <= 5) J).
  { apply mtf_sels_bound; [apply init_in_perms6|]. eapply Forall_impl; [|exact G5]. cbn beta. intros; lia. }
  assert (LJ : length J = length (g_sels g)) by apply mtf_encode_sels_length.
  assert (SJ : lsum J <= 5 * N.of_nat (length J)).
  { clear - HJ. induction HJ as [|j r Hj _ IH]; cbn [lsum length]; lia. }
  assert (Hng : N.of_nat (length (g_sels g)) <= 18001).
  { rewrite G4. change enc_selector_size with 18002 in G6. lia. }
  set (cost1 := HEADER_COST + g_cost g + lsum J + N.of_nat (length J)).
  destruct (pad_arith cost1) as [Pj [Pal [Psplit [Ppad Pext]]]].
  set (j := N.land (8 - N.land cost1 7) 7) in *.
  set (cost2 := cost1 + j).
  set (cost3 := cost2 + 16 * used_ranges used + 16).
  pose proof (used_ranges_le used) as Hur.
  change (2 ^ 27) with 134217728 in Bcost. change HEADER_COST with 123 in *.
  assert (B3 : cost3 < 2 ^ 28) by (change (2 ^ 28) with 268435456; unfold cost3, cost2, cost1; lia).
  change (2 ^ 28) with 268435456 in B3.
  exists (mkenc {| w_blk := blk; w_idx := idx; w_tables := g_tables g; w_sels := g_sels g;
                   w_extra_sel := negb (N.land j 1 =? 0); w_pad := N.shiftr j 1; w_crc := crc |}
                g (J ++ (if N.land j 1 =? 0 then [] else [0])) (N.of_nat (length (g_sels g)) + N.land j 1)
                cost3 (N.shiftr cost3 3)).
  assert (Hextra : (if negb (N.land j 1 =? 0) then 1 else 0) = N.land j 1).
  { destruct (N.eqb_spec (N.land j 1) 0) as [Z|NZ]; cbn [negb]; lia. }
  assert (Hal3 : N.land cost3 7 = 0).
  { unfold cost3. replace (cost2 + 16 * used_ranges used + 16) with (cost2 + 16 * (used_ranges used + 1)) by lia.
    apply land7_add16. exact Pal. }
  split.
  - unfold encode_block_full. cbv zeta. fold used mtfv. change HEADER_COST with 123.
    replace (length blk =? 0)%nat with false by (destruct blk; [contradiction|reflexivity]).
    replace ((2 <=? N.of_nat (length used) + 1) && (N.of_nat (length used) + 1 <? 258)) with true
      by (symmetry; apply andb_true_intro; split; [apply N.leb_le|apply N.ltb_lt]; lia).
    cbn [negb]. rewrite Eg.
    replace (hd MAX_TREES (g_sels_old g) <? MAX_TREES) with true
      by (symmetry; apply N.ltb_lt; destruct (g_sels_old g); [contradiction|inversion Hold2; assumption]).
    cbn [negb]. rewrite Hhd. cbn [N.eqb negb].
    replace (num_groups (N.of_nat (length mtfv)) <? N.of_nat (length (g_sels g))) with false
      by (symmetry; apply N.ltb_ge; rewrite G4; lia).
    rewrite (u32_small (123 + g_cost g)) by (change (2 ^ 32) with 4294967296; lia).
    destruct init_in_perms6 as [P0 P1]. rewrite <- P1.
    rewrite (sel_mtf_loop_spec (g_num_trees g) ltac:(lia) (g_sels g) _ _ P0 G5). fold sel_order0 J.
    rewrite selcost_exact by (change (2 ^ 32) with 4294967296; lia). fold cost1.
    assert (Hm : N.land cost1 7 < 8) by (rewrite land7; apply N.mod_lt; discriminate).
    rewrite (u8_small (N.land cost1 7)) by lia. fold j. rewrite (u8_small j) by lia.
    rewrite (u8_small (N.land j 1)) by lia.
    rewrite (u32_small (cost1 + j)) by (change (2 ^ 32) with 4294967296; unfold cost1; lia). fold cost2.
    rewrite <- G4. rewrite (u32_small (N.of_nat (length (g_sels g)) + N.land j 1)) by (change (2 ^ 32) with 4294967296; lia).
    replace (enc_selectorMTF_size <? N.of_nat (length (J ++ (if N.land j 1 =? 0 then [] else [0])))) with false.
    2:{ symmetry. apply N.ltb_ge. rewrite app_length, LJ. change enc_selectorMTF_size with 18008.
        destruct (N.land j 1 =? 0); cbn [length]; lia. }
    replace (N.land cost2 7) with 0 by (symmetry; exact Pal). cbn [N.eqb negb].
    rewrite cmap_cost_exact by (change (2 ^ 32) with 4294967296; unfold cost2, cost1; lia).
    rewrite (u32_small (cost2 + 16 * used_ranges used + 16)) by (change (2 ^ 32) with 4294967296; fold cost3; lia).
    fold cost3. rewrite Hal3. cbn [N.eqb negb]. reflexivity.
  - constructor; cbn [e_wit e_gen e_selmtf e_nsel e_cost_bits e_expect_len w_pad w_extra_sel].
    + split; [exact Eg|constructor; assumption].
    + reflexivity.
    + exact Ppad.
    + fold J. destruct (N.land j 1 =? 0); reflexivity.
    + rewrite Hextra. reflexivity.
    + rewrite app_length, LJ. change enc_selector_size with 18002. change enc_selectorMTF_size with 18008.
      destruct (N.land j 1 =? 0); cbn [length]; lia.
    + fold J used. rewrite Hextra, Psplit. unfold cost3, cost2, cost1. rewrite LJ. change HEADER_COST with 123. lia.
    + rewrite write_block_length_eq; cbn [w_blk w_tables w_sels w_extra_sel w_pad].
      * fold used J. rewrite Hextra. change (block_syms _) with mtfv.
        unfold cost3, cost2, cost1. rewrite Ecost, LJ. change HEADER_COST with 123. lia.
      * intro Z. rewrite Z in G2. cbn [length N.of_nat] in G2. lia.
      * rewrite forallb_forall in G3. apply Forall_forall. intros lens Hl Z. specialize (G3 lens Hl).
        apply table_ok_spec in G3. destruct G3 as [L _]. rewrite Z in L. cbn [length] in L. lia.
      * intros; lia.
    + apply shiftr3_exact. exact Hal3.
    + change (2 ^ 28) with 268435456. exact B3.
Qed.

(* ---- (a) the witness alone -------------------------------------------------------------------------------------------------------- *)
Theorem encode_block_ok cf blk idx crc : 1 <= cf -> block_ok blk ->
  exists w, encode_block cf blk idx crc = EOk w /\
    w_pad w <= 3 /\ w_blk w = blk /\ w_idx w = idx /\ w_crc w = crc /\
    gen_witness make_code_lengths cf blk idx (w_extra_sel w) (w_pad w) crc = GOk w.
Proof.
  intros Hcf Hb. destruct (encode_block_full_ok cf blk idx crc Hcf Hb) as [r [E F]].
  exists (e_wit r). unfold encode_block. rewrite E. split; [reflexivity|].
  destruct F as [[Eg _] Ew Hp _ _ _ _ _ _ _]. split; [exact Hp|].
  split; [rewrite Ew; reflexivity|]. split; [rewrite Ew; reflexivity|]. split; [rewrite Ew; reflexivity|].
  unfold gen_witness. rewrite <- enc_syms_blk_syms. fold (gen_prefix_code cf (enc_syms blk)). rewrite Eg.
  cbn [gbind]. f_equal. symmetry. exact Ew.
Qed.

Theorem encode_block_witness_ok cf M blk idx crc : 1 <= cf -> M <= MAX_BLOCK_SIZE ->
  blk <> [] -> N.of_nat (length blk) <= M -> Forall (fun c => c < 256) blk ->
  valid_idxb blk idx = true -> crc < 2 ^ 32 ->
  exists w, encode_block cf blk idx crc = EOk w /\ witness_ok M w = true /\ w_blk w = blk /\ w_crc w = crc.
Proof.
  intros Hcf HM Hne Hlen Hb Hidx Hcrc.
  destruct (encode_block_ok cf blk idx crc Hcf) as [w [E [Hp [_ [_ [_ G]]]]]]; [repeat split; auto; lia|].
  exists w. split; [exact E|].
  apply (gen_witness_is_ok is_mcl_err make_code_lengths cf M blk idx _ _ crc w make_code_lengths_wf Hcf HM Hne Hlen Hb
           Hidx Hp Hcrc G).
Qed.

(* ---- (b) byte alignment -------------------------------------------------------------------------------------------------------------- *)
Theorem encode_block_aligned cf blk idx crc : 1 <= cf -> block_ok blk ->
  exists r, encode_block_full cf blk idx crc = EOk r /\
    N.of_nat (length (write_block (e_wit r))) = 8 * e_expect_len r /\
    N.of_nat (length (write_block (e_wit r))) = e_cost_bits r /\
    (length (write_block (e_wit r)) mod 8 = 0)%nat.
Proof.
  intros Hcf Hb. destruct (encode_block_full_ok cf blk idx crc Hcf Hb) as [r [E F]].
  exists r. split; [exact E|]. pose proof (ef_bits _ _ _ _ _ F) as B. pose proof (ef_aligned _ _ _ _ _ F) as A.
  split; [lia|]. split; [exact B|].
  assert (N.of_nat (length (write_block (e_wit r))) mod 8 = 0) by (rewrite B, A, N.mul_comm; apply N.mod_mul; discriminate).
  change 8 with (N.of_nat 8) in H. rewrite <- Nat2N.inj_mod in H. lia.
Qed.

(* ---- (c) the values of `a` while a table is sent ----------------------------------------------------------------------------------- *)
Lemma write_table_walk pad lens :
  write_table pad lens = put 5 (table_start pad lens) ++ write_deltas (table_start pad lens) lens /\
  length (write_deltas (table_start pad lens) lens) = (2 * length (delta_walk (table_start pad lens) lens) + length lens)%nat.
Proof. split; [reflexivity|apply delta_walk_length]. Qed.

Lemma delta_walk_range : forall lens cur, 1 <= cur <= 20 -> Forall (fun l => 1 <= l <= 20) lens ->
  Forall (fun a => 1 <= a <= 20) (delta_walk cur lens).
Proof.
  induction lens as [|c r IH]; intros cur Hc H; [constructor|].
  inversion H as [|? ? H1 H2]; subst. cbn [delta_walk]. apply Forall_app. split; [|apply IH; assumption].
  destruct (N.ltb_spec cur c); apply Forall_forall; intros a Ha; apply in_map_iff in Ha; destruct Ha as [i [<- Hi]];
    apply in_seq in Hi; lia.
Qed.

Theorem table_walk_range pad lens : pad <= 3 -> lens <> [] -> Forall (fun l => 1 <= l <= 20) lens ->
  Forall (fun a => 1 <= a <= 20) (table_walk pad lens).
Proof.
  intros Hp Hne H. destruct lens as [|l0 r]; [contradiction|]. inversion H as [|? ? H0 _]; subst.
  assert (Hs : 1 <= table_start pad (l0 :: r) <= 20).
  { unfold table_start. cbn [hd]. destruct (N.ltb_spec l0 4); lia. }
  unfold table_walk. constructor; [exact Hs|]. apply delta_walk_range; assumption.
Qed.

Theorem encode_block_walks cf blk idx crc : 1 <= cf -> block_ok blk ->
  exists w, encode_block cf blk idx crc = EOk w /\
    forall i lens, nth_error (w_tables w) i = Some lens ->
      Forall (fun a => 1 <= a <= 20) (table_walk (if (i =? 0)%nat then w_pad w else 0) lens).
Proof.
  intros Hcf Hb. destruct (encode_block_full_ok cf blk idx crc Hcf Hb) as [r [E F]].
  exists (e_wit r). unfold encode_block. rewrite E. split; [reflexivity|]. intros i lens Hi.
  destruct F as [[_ Gok] Ew Hp _ _ _ _ _ _ _]. rewrite Ew in Hi. cbn [w_tables] in Hi.
  pose proof (go_tabs _ _ Gok) as T. rewrite forallb_forall in T. specialize (T lens (nth_error_In _ _ Hi)).
  apply table_ok_spec in T. destruct T as [L [R _]].
  destruct (blk_syms_input_ok blk ltac:(apply Hb) ltac:(apply Hb) ltac:(apply Hb)) as [_ Has].
  rewrite <- enc_syms_blk_syms in Has. rewrite Has, Nat2N.id in L.
  apply table_walk_range; [destruct (i =? 0)%nat; [exact Hp|lia]| |exact R].
  intro Z. rewrite Z in L. cbn [length] in L. lia.
Qed.

(* ---- (d) whole streams ------------------------------------------------------------------------------------------------------------------ *)
Definition block_crc (x : list N) : N := N.lxor (crc_bytes mask32 x) mask32.

(* one block of input and its BWT primary index: everything else is computed *)
Definition enc_input_ok (level : N) (x : list N) (idx : N) : Prop :=
  Forall (fun b => b < 256) x /\ x <> [] /\ N.of_nat (length (RleModel.rle1 x)) <= 100000 * level /\
  valid_idxb (RleModel.rle1 x) idx = true.

Definition encoded (cf : N) (xi : list N * N) (w : witness) : Prop :=
  encode_block cf (RleModel.rle1 (fst xi)) (snd xi) (block_crc (fst xi)) = EOk w.

Lemma encoded_exists cf level x idx : 1 <= cf -> 1 <= level <= 9 -> enc_input_ok level x idx ->
  exists w, encoded cf (x, idx) w /\
    (witness_ok (100000 * level) w = true /\ Forall (fun c => c < 256) x /\ x <> [] /\
     w_blk w = RleModel.rle1 x /\ w_crc w = block_crc x) /\
    (length (write_block w) mod 8 = 0)%nat.
Proof.
  intros Hcf Hl [Hx [Hne [Hlen Hidx]]].
  assert (HM : 100000 * level <= MAX_BLOCK_SIZE) by (change MAX_BLOCK_SIZE with 900000; lia).
  destruct (encode_block_witness_ok cf (100000 * level) (RleModel.rle1 x) idx (block_crc x) Hcf HM
              (RleInvProofs.rle1_nonempty x Hne) Hlen (RleInvProofs.rle1_bytes x Hx) Hidx (block_crc_lt32 x))
    as [w [E [Wok [Wb Wc]]]].
  exists w. split; [exact E|]. split; [auto|].
  destruct (encode_block_aligned cf (RleModel.rle1 x) idx (block_crc x) Hcf) as [r [Er [_ [_ A]]]].
  { split; [apply RleInvProofs.rle1_nonempty; exact Hne|]. split; [lia|apply RleInvProofs.rle1_bytes; exact Hx]. }
  unfold encoded, encode_block in E. cbn [fst snd] in E. rewrite Er in E. inversion E; subst. exact A.
Qed.

Lemma write_stream_aligned level ws : Forall (fun w => (length (write_block w) mod 8 = 0)%nat) ws ->
  (length (write_stream level ws) mod 8 = 0)%nat.
Proof.
  intro H. unfold write_stream. rewrite !app_length, !put_length.
  assert (B : (length (flat_map write_block ws) mod 8 = 0)%nat).
  { induction H as [|w r Hw _ IH]; [reflexivity|]. cbn [flat_map]. rewrite app_length.
    rewrite Nat.add_mod by discriminate. rewrite Hw, IH. reflexivity. }
  apply Nat.mod_divides in B; [|discriminate]. destruct B as [k ->].
  replace (24 + (8 + (8 * k + (48 + 32))))%nat with ((k + 14) * 8)%nat by lia. apply Nat.mod_mul. discriminate.
Qed.

Theorem enc_stream_total : forall cf level (xs : list (list N)) (idxs : list N),
  1 <= cf -> 1 <= level <= 9 -> Forall2 (enc_input_ok level) xs idxs ->
  exists ws,
    Forall2 (encoded cf) (combine xs idxs) ws /\
    Forall (fun w => w_pad w <= 3 /\ (length (write_block w) mod 8 = 0)%nat) ws /\
    pad_to_byte (write_stream level ws) = write_stream level ws /\
    lbz_decode (bytes_of_bits (write_stream level ws)) = Prog.Ok (concat xs) /\
    ref_noexc_decode (bytes_of_bits (write_stream level ws)) = Prog.Ok (concat xs) /\
    ref_decode (bytes_of_bits (write_stream level ws)) = Prog.Ok (concat xs).
Proof.
  intros cf level xs idxs Hcf Hl HF.
  assert (E : exists ws, Forall2 (encoded cf) (combine xs idxs) ws /\
              Forall2 (fun w x => witness_ok (100000 * level) w = true /\ Forall (fun c => c < 256) x /\ x <> [] /\
                                  w_blk w = RleModel.rle1 x /\ w_crc w = block_crc x) ws xs /\
              Forall (fun w => (length (write_block w) mod 8 = 0)%nat) ws).
  { induction HF as [|x idx xs' idxs' H1 _ IH].
    - exists []. repeat split; constructor.
    - destruct IH as [ws [A [B C]]]. destruct (encoded_exists cf level x idx Hcf Hl H1) as [w [Ew [Rw Aw]]].
      exists (w :: ws). cbn [combine]. repeat split; constructor; assumption. }
  destruct E as [ws [A [B C]]]. exists ws. split; [exact A|].
  assert (Hpad : pad_to_byte (write_stream level ws) = write_stream level ws).
  { unfold pad_to_byte. rewrite (write_stream_aligned level ws C). cbn [Nat.sub Nat.modulo repeat].
    replace ((8 - 0) mod 8)%nat with 0%nat by reflexivity. cbn [repeat]. apply app_nil_r. }
  split.
  - apply Forall_forall. intros w Hw. split.
    + apply (witness_ok_spec (100000 * level)).
      clear - B Hw. induction B as [|w' x' ws' xs' Hwx _ IH]; [destruct Hw|].
      destruct Hw as [<-|Hw]; [apply Hwx|apply IH; exact Hw].
    + rewrite Forall_forall in C. apply C. exact Hw.
  - split; [exact Hpad|]. rewrite <- Hpad.
    split; [apply stream_roundtrip_lbz; assumption|]. apply stream_strict_both; assumption.
Qed.

Print Assumptions encode_block_full_ok.
Print Assumptions encode_block_walks.
Print Assumptions enc_stream_total.
