(* The compressing direction: specification-level transforms (BWT as sorted
   rotations, MTF + zero-run coding) and the exact bit layout that transmit()
   (src/encode.c) writes for a block, given the choices the heuristics of
   generate_prefix_code() made (tables, selectors, padding) as a WITNESS. *)
From Coq Require Import List NArith Arith Bool Lia Sorting.Mergesort Orders.
From LBZ Require Import Common.Bits Dec.Prog Dec.Format Gen.Consts.
Import ListNotations.
Local Open Scope N_scope.

(* ---- Burrows-Wheeler transform: last column of the sorted rotation matrix -------------- *)
Fixpoint lex_leb (a b : list N) : bool :=
  match a, b with
  | [], _ => true
  | _ :: _, [] => false
  | x :: a', y :: b' => if x <? y then true else if y <? x then false else lex_leb a' b'
  end.

Module LexOrder <: TotalLeBool.
  Definition t := list N.
  Definition leb := lex_leb.
  Theorem leb_total : forall a b, leb a b = true \/ leb b a = true.
  Proof.
    unfold leb. induction a as [|x a IH]; intros [|y b]; cbn [lex_leb]; auto.
    destruct (N.ltb_spec x y); auto. destruct (N.ltb_spec y x); auto.
  Qed.
End LexOrder.
Module LexSort := Sort LexOrder.

Definition rot {A} (n : nat) (l : list A) : list A := skipn n l ++ firstn n l.
Definition rotations {A} (l : list A) : list (list A) := map (fun i => rot i l) (seq 0 (length l)).
Definition sorted_rots (l : list N) : list (list N) := LexSort.sort (rotations l).
Definition bwt_last (l : list N) : list N := map (fun r => last r 0) (sorted_rots l).
(* the primary index is any row of the sorted matrix equal to the block itself
   (there are several for periodic blocks; divbwt picks one) *)
Definition valid_idx (l : list N) (i : N) : Prop := nth_error (sorted_rots l) (N.to_nat i) = Some l.
Definition valid_idxb (l : list N) (i : N) : bool :=
  match nth_error (sorted_rots l) (N.to_nat i) with
  | Some r => if list_eq_dec N.eq_dec r l then true else false
  | None => false
  end.

(* ---- MTF + zero-run coding (do_mtf) ------------------------------------------------------ *)
Fixpoint index_of (c : N) (l : list N) : nat :=
  match l with
  | [] => 0
  | x :: r => if x =? c then 0%nat else S (index_of c r)
  end.

(* bijective base-2 digits of a run length: RUNA = 0 (weight 1), RUNB = 1 (weight 2) *)
Fixpoint zrun (fuel : nat) (k : N) : list N :=
  match fuel with
  | 0%nat => []
  | S f => if k =? 0 then [] else N.land (k - 1) 1 :: zrun f (N.shiftr (k - 1) 1)
  end.
Definition zrun_digits (k : N) : list N := zrun (S (N.to_nat (N.log2 (k + 1)))) k.

Fixpoint mtf_go (order : list N) (run : N) (l : list N) : list N :=
  match l with
  | [] => zrun_digits run
  | c :: r =>
      match index_of c order with
      | 0%nat => mtf_go order (run + 1) r
      | S i => zrun_digits run ++ [N.of_nat (S i) + 1] ++
               mtf_go (c :: firstn (S i) order ++ skipn (S (S i)) order) 0 r
      end
  end.

Fixpoint insert_sorted (c : N) (l : list N) : list N :=
  match l with
  | [] => [c]
  | x :: r => if c <? x then c :: l else if c =? x then l else x :: insert_sorted c r
  end.
Definition used_bytes (l : list N) : list N := fold_left (fun acc c => insert_sorted c acc) l [].

(* MTF values without the final EOB symbol *)
Definition mtf_zrle (col : list N) : list N := mtf_go (used_bytes col) 0 col.

(* ---- canonical prefix codes ---------------------------------------------------------------- *)
(* code of symbol s under the canonical assignment for [lens]: numeric value, msb first over lens[s] bits *)
Definition code_of (lens : list N) (s : nat) : N :=
  let l := nth s lens 0 in
  (* first code of length l, plus the rank of s among symbols of that length *)
  let first := fold_left (fun acc k => 2 * (acc + count_len lens k)) (map N.of_nat (seq 1 (N.to_nat l - 1))) 0 in
  first + N.of_nat (length (filter (N.eqb l) (firstn s lens))).

Definition sym_bits (lens : list N) (s : N) : list bool :=
  bits_msb (N.to_nat (nth (N.to_nat s) lens 0)) (code_of lens (N.to_nat s)).

(* ---- the bit layout of one block (transmit()) ---------------------------------------------- *)
Record witness := {
  w_blk : list N;          (* the block after the initial run-length encoding, 1..M bytes *)
  w_idx : N;               (* BWT primary index as returned by divbwt *)
  w_tables : list (list N);(* code lengths of the 2..6 tables, in transmission order *)
  w_sels : list N;         (* table number (transmission numbering) of each 50-symbol group *)
  w_extra_sel : bool;      (* one surplus selector (1 bit of padding) *)
  w_pad : N;               (* dummy delta steps at the start of table 0 (0..3 pairs of bits) *)
  w_crc : N;               (* block CRC as stored *)
}.

Definition put (n : nat) (v : N) : list bool := bits_msb n v.

Definition write_bitmap (used : list N) : list bool :=
  let inuse c := existsb (N.eqb c) used in
  let small i := map (fun j => inuse (16 * N.of_nat i + N.of_nat j)) (seq 0 16) in
  let big := map (fun i => existsb (fun b => b) (small i)) (seq 0 16) in
  big ++ flat_map (fun i => if existsb (fun b => b) (small i) then small i else []) (seq 0 16).

Fixpoint mtf_encode_sels (order : list N) (sels : list N) : list N :=
  match sels with
  | [] => []
  | s :: r => let i := index_of s order in
              N.of_nat i :: mtf_encode_sels (s :: firstn i order ++ skipn (S i) order) r
  end.

Definition unary (k : N) : list bool := repeat true (N.to_nat k) ++ [false].

Fixpoint write_deltas (cur : N) (lens : list N) : list bool :=
  match lens with
  | [] => []
  | c :: r => (if cur <? c then flat_map (fun _ => [true; false]) (seq 0 (N.to_nat (c - cur)))
               else flat_map (fun _ => [true; true]) (seq 0 (N.to_nat (cur - c)))) ++ [false] ++ write_deltas c r
  end.

Definition write_table (pad : N) (lens : list N) : list bool :=
  let l0 := hd 0 lens in
  let a := if l0 <? 4 then l0 + pad else l0 - pad in
  put 5 a ++ write_deltas a lens.

Fixpoint chunks50 {A} (fuel : nat) (l : list A) : list (list A) :=
  match fuel with
  | 0%nat => []
  | S f => match l with [] => [] | _ => firstn 50 l :: chunks50 f (skipn 50 l) end
  end.

Definition block_syms (w : witness) : list N :=
  let col := bwt_last (w_blk w) in
  mtf_zrle col ++ [N.of_nat (length (used_bytes col)) + 1].      (* ... EOB *)

(* everything after the 48-bit block magic and the 32-bit stored CRC *)
Definition write_body (w : witness) : list bool :=
  let col := bwt_last (w_blk w) in
  let used := used_bytes col in
  let syms := block_syms w in
  let groups := chunks50 (S (length syms)) syms in
  put 1 0 ++ put 24 (w_idx w) ++
  write_bitmap used ++
  put 3 (N.of_nat (length (w_tables w))) ++
  put 15 (N.of_nat (length (w_sels w)) + (if w_extra_sel w then 1 else 0)) ++
  flat_map unary (mtf_encode_sels [0; 1; 2; 3; 4; 5] (w_sels w)) ++ (if w_extra_sel w then [false] else []) ++
  flat_map (fun p => write_table (if fst p =? 0 then w_pad w else 0) (snd p))
           (combine (map N.of_nat (seq 0 (length (w_tables w)))) (w_tables w)) ++
  flat_map (fun p => flat_map (sym_bits (nth (N.to_nat (fst p)) (w_tables w) [])) (snd p))
           (combine (w_sels w) groups).

Definition write_block (w : witness) : list bool :=
  put 48 block_magic ++ put 32 (w_crc w) ++ write_body w.

(* what the block reader must reconstruct from write_body *)
Definition raw_of (w : witness) : raw_block :=
  let col := bwt_last (w_blk w) in
  {| rb_rand := false; rb_idx := w_idx w; rb_used := used_bytes col; rb_mtfv := mtf_zrle col;
     rb_ntrees := N.of_nat (length (w_tables w));
     rb_nsel := N.of_nat (length (w_sels w)) + (if w_extra_sel w then 1 else 0);
     rb_tables := w_tables w |}.

(* what makes a witness acceptable: this is what the strict format demands of
   the encoder's free choices (checked on the real encoder state by the harness) *)
Definition table_ok (alpha : nat) (lens : list N) : bool :=
  (length lens =? alpha)%nat && forallb (fun l => (1 <=? l) && (l <=? 20)) lens && (kraft lens =? kraft_full).

Definition witness_ok (M : N) (w : witness) : bool :=
  let col := bwt_last (w_blk w) in
  let alpha := (length (used_bytes col) + 2)%nat in
  let syms := block_syms w in
  let ngroups := ((length syms + 49) / 50)%nat in
  negb (N.of_nat (length (w_blk w)) =? 0) && (N.of_nat (length (w_blk w)) <=? M) &&
  forallb (fun c => c <? 256) (w_blk w) &&
  valid_idxb (w_blk w) (w_idx w) &&
  (2 <=? length (w_tables w))%nat && (length (w_tables w) <=? 6)%nat &&
  forallb (table_ok alpha) (w_tables w) &&
  (length (w_sels w) =? ngroups)%nat &&
  forallb (fun s => s <? N.of_nat (length (w_tables w))) (w_sels w) &&
  (N.of_nat ngroups + (if w_extra_sel w then 1 else 0) <=? enc_selector_size) &&
  (w_pad w <=? 3) && (w_crc w <? 2 ^ 32).

(* ---- a whole stream ---------------------------------------------------------------------------- *)
Definition write_stream (level : N) (ws : list witness) : list bool :=
  put 24 0x425A68 ++ put 8 (0x30 + level) ++
  flat_map write_block ws ++
  put 48 eos_magic ++ put 32 (fold_left (fun cc w => combine_stream_crc cc (w_crc w)) ws 0).

Definition pad_to_byte (bits : list bool) : list bool :=
  bits ++ repeat false ((8 - length bits mod 8) mod 8).
