(* C20 - the "real" part of the level sequences: level d has rr d genuine items
   (rr 1 = n, rr (d+1) = n + rr d / 2); within them the rows satisfy the counting identity that gives
   Kraft equality, are non-increasing, and their cost is the total weight taken.  Bounds on all weights. *)
From Coq Require Import List NArith ZArith Arith Bool Lia ZifyBool.
From LBZ Require Import Gen.Consts Enc.PmModel Enc.PmIdeal.
Import ListNotations.
Local Open Scope N_scope.

Ltac Zify.zify_post_hook ::= Z.div_mod_to_equations.

(* number of genuine items of level d *)
Fixpoint rr (n : nat) (d : nat) : nat :=
  match d with
  | O => O
  | S d1 => match d1 with O => n | S _ => (n + rr n d1 / 2)%nat end
  end.

Lemma rr_1 n : rr n 1 = n. Proof. reflexivity. Qed.
Lemma rr_SS n d0 : rr n (S (S d0)) = (n + rr n (S d0) / 2)%nat. Proof. reflexivity. Qed.

Lemma rr_bounds n d1 : (1 <= n)%nat ->
  (n <= rr n (S d1) <= 2 * n - 1)%nat /\ ((2 * n - 1 - rr n (S d1)) * 2 ^ d1 <= n - 1)%nat.
Proof.
  intro Hn. induction d1 as [|d0 [IH1 IH2]].
  - rewrite rr_1. cbn [Nat.pow]. split; lia.
  - rewrite rr_SS. set (r := rr n (S d0)) in *. split; [lia|].
    cbn [Nat.pow]. set (P := (2 ^ d0)%nat) in *.
    assert (E : (2 * (2 * n - 1 - (n + r / 2)) <= 2 * n - 1 - r)%nat) by lia.
    nia.
Qed.

Lemma rr_full n d1 : (1 <= n)%nat -> (n <= 2 ^ S d1)%nat -> (2 * n - 2 <= rr n (S d1))%nat.
Proof.
  intros Hn Hp. destruct (rr_bounds n d1 Hn) as [[H1 H2] H3].
  cbn [Nat.pow] in Hp. set (P := (2 ^ d1)%nat) in *.
  destruct (Nat.le_gt_cases (2 * n - 2) (rr n (S d1))) as [|Hgt]; [assumption|exfalso].
  assert (2 <= 2 * n - 1 - rr n (S d1))%nat by lia. nia.
Qed.

Lemma nth_firstn_N j k (l : list N) : nth j (firstn k l) 0 = if (j <? k)%nat then nth j l 0 else 0.
Proof.
  revert j l; induction k as [|k IH]; intros j l.
  - cbn [firstn]. destruct j; reflexivity.
  - destruct l as [|x l]; cbn [firstn].
    + destruct j; destruct (_ <? _)%nat; reflexivity.
    + destruct j as [|j]; [reflexivity|]. cbn [nth]. rewrite IH.
      replace (S j <? S k)%nat with (j <? k)%nat by (destruct (Nat.ltb_spec j k), (Nat.ltb_spec (S j) (S k)); lia || reflexivity).
      reflexivity.
Qed.

Lemma nth_repeat_0 j k : nth j (repeat 0 k) 0 = 0.
Proof. revert j; induction k as [|k IH]; intros [|j]; cbn [repeat nth]; auto. Qed.

Section Real.
Variable xs : list N.
Notation n := (length xs).
Hypothesis Hn : (2 <= n)%nat.
Hypothesis Hs : forall i j, (i <= j)%nat -> (j < n)%nat -> leafF xs i <= leafF xs j.
Notation L := (ilev xs).
Notation El := (ell xs).
Notation Pk := (pk xs).
Notation R := (rr n).

Let IA := inv_all xs Hn Hs.

Lemma Pk_step d1 t : (2 <= t)%nat -> (Pk (S d1) (S t) <= S (Pk (S d1) t))%nat.
Proof. intro Ht. pose proof (El_step xs d1 t Ht). rewrite !Pk_unfold. lia. Qed.

(* within the genuine items a level only takes genuine packages *)
Lemma R1_step d0 :
  (forall t, (2 <= t)%nat -> (R (S d0) <= t)%nat -> El (S d0) t = n) ->
  forall t, (2 <= t)%nat -> (t <= R (S (S d0)))%nat -> (Pk (S (S d0)) t <= R (S d0) / 2)%nat.
Proof.
  intros HW t Ht. induction t as [|t IHt]; [lia|]. intro Hle.
  destruct (Nat.eq_dec t 1) as [->|Hne]; [rewrite Pk_unfold, El_init; lia|].
  assert (Ht' : (2 <= t)%nat) by lia. specialize (IHt Ht' ltac:(lia)).
  pose proof (Pk_step (S d0) t Ht') as Hst.
  destruct (Nat.eq_dec (Pk (S (S d0)) t) (R (S d0) / 2)) as [Heq|Hneq]; [|lia].
  pose proof (istep_cases xs (L (S d0)) (S d0) t (L (S (S d0)) t)) as C. cbn zeta in C.
  rewrite <- (ilev_S xs (S d0) t Ht') in C. rewrite <- El_unfold in C.
  pose proof (IA (S d0) t Ht') as I.
  rewrite rr_SS in Hle. rewrite Pk_unfold in Heq.
  destruct C as [[E [D0 _]] | [[E _] | [E [_ Hcmp]]]]; [congruence| |].
  - rewrite Pk_unfold, (El_unfold _ _ (S t)), E. unfold il_leaf; cbn [ia hd]. rewrite El_unfold in *. lia.
  - exfalso. pose proof (inv_t _ _ _ I) as It. pose proof (inv_hi _ _ _ I) as Ihi.
    destruct Hcmp as [Hcmp|Hcmp]; [lia|].
    set (t2 := (2 * (t - El (S (S d0)) t) + 2)%nat) in *.
    assert (T2 : (2 <= t2)%nat) by (unfold t2; lia).
    assert (F : El (S d0) t2 = n) by (apply HW; unfold t2; lia).
    pose proof (IA d0 t2 T2) as J.
    pose proof (inv_d _ _ _ J) as Jd. pose proof (inv_e1 _ _ _ J) as Je. rewrite F in Jd.
    assert (leafF xs (El (S (S d0)) t) <= leafF xs (n - 1)) by (apply Hs; lia).
    lia.
Qed.

Lemma all_leaves_after_R d1 : forall t, (2 <= t)%nat -> (R (S d1) <= t)%nat -> El (S d1) t = n.
Proof.
  induction d1 as [|d0 IH]; intros t Ht Hle.
  - rewrite rr_1 in Hle. rewrite El_level1 by assumption. lia.
  - pose proof (rr_bounds n (S d0) ltac:(lia)) as [[B1 B2] _].
    assert (T : (2 <= R (S (S d0)))%nat) by lia.
    pose proof (R1_step d0 IH _ T (Nat.le_refl _)) as P. rewrite Pk_unfold in P.
    pose proof (inv_hi _ _ _ (IA (S d0) _ T)) as Hhi.
    pose proof (inv_hi _ _ _ (IA (S d0) _ Ht)) as Hhi'.
    pose proof (El_mono xs (S d0) _ _ T Hle). rewrite rr_SS in *. lia.
Qed.

Lemma R1 d0 t : (2 <= t)%nat -> (t <= R (S (S d0)))%nat -> (2 * Pk (S (S d0)) t <= R (S d0))%nat.
Proof.
  intros Ht Hle. pose proof (R1_step d0 (all_leaves_after_R d0) t Ht Hle). lia.
Qed.

Lemma level1_real t : (2 <= t)%nat -> (t <= R 1)%nat -> El 1 t = t.
Proof. intros Ht Hle. rewrite rr_1 in Hle. rewrite El_level1 by assumption. lia. Qed.

(* ---- the rows ---------------------------------------------------------------------------------------- *)
Lemma ia_split d t : (2 <= t)%nat -> (1 <= d)%nat -> ia (L d t) = N.of_nat (El d t) :: tl (ia (L d t)).
Proof.
  intros Ht Hd. destruct d as [|d1]; [lia|].
  pose proof (inv_len _ _ _ (IA d1 t Ht)) as Hl. rewrite El_unfold.
  destruct (ia (L (S d1) t)) as [|x r]; [discriminate|]. cbn [hd tl]. f_equal. lia.
Qed.

(* entries at index >= level are zero *)
Lemma row_zeros d1 : forall t j, (2 <= t)%nat -> (S d1 <= j)%nat -> nth j (ia (L (S d1) t)) 0 = 0.
Proof.
  induction d1 as [|d0 IH]; intros t j Ht Hj.
  - rewrite ia_split by lia. destruct j as [|j]; [lia|]. cbn [nth].
    rewrite (inv_h _ _ _ (IA 0 t Ht)). cbn [Nat.leb orb]. apply nth_repeat_0.
  - rewrite ia_split by lia. destruct j as [|j]; [lia|]. cbn [nth].
    rewrite (inv_h _ _ _ (IA (S d0) t Ht)). cbn [Nat.leb orb].
    destruct (Nat.eqb_spec (Pk (S (S d0)) t) 0) as [Hp|Hp]; [apply nth_repeat_0|].
    rewrite nth_firstn_N. destruct (j <? MCL)%nat; [|reflexivity].
    replace (S (S d0) - 1)%nat with (S d0) by lia. apply IH; lia.
Qed.

(* rows are non-increasing *)
Lemma row_mono d1 : forall t j, (2 <= t)%nat -> nth (S j) (ia (L (S d1) t)) 0 <= nth j (ia (L (S d1) t)) 0.
Proof.
  induction d1 as [|d0 IH]; intros t j Ht.
  - rewrite (row_zeros 0 t (S j)) by lia. lia.
  - rewrite ia_split by lia. cbn [nth].
    pose proof (IA (S d0) t Ht) as I.
    rewrite (inv_h _ _ _ I). cbn [Nat.leb orb].
    destruct (Nat.eqb_spec (Pk (S (S d0)) t) 0) as [Hp|Hp].
    + rewrite nth_repeat_0. lia.
    + replace (S (S d0) - 1)%nat with (S d0) by lia.
      assert (T2 : (2 <= 2 * Pk (S (S d0)) t)%nat) by lia.
      destruct j as [|j].
      * rewrite nth_firstn_N. destruct (0 <? MCL)%nat; [|lia].
        rewrite (ia_split (S d0)) by lia. cbn [nth].
        pose proof (inv_i _ _ _ I ltac:(lia) ltac:(lia)) as Ii.
        replace (S (S d0) - 1)%nat with (S d0) in Ii by lia. lia.
      * cbn [nth]. rewrite !nth_firstn_N.
        destruct (Nat.ltb_spec (S j) MCL) as [H1|H1]; destruct (Nat.ltb_spec j MCL) as [H2|H2]; try lia.
        apply IH. lia.
Qed.

(* ---- the counting identity ---------------------------------------------------------------------------- *)
Fixpoint val (d : nat) (row : list N) : N :=
  match d with
  | O => 0
  | S d1 => hd 0 row * 2 ^ N.of_nat d1 + val d1 (tl row)
  end.

Lemma val_firstn d : forall k row, (d <= k)%nat -> val d (firstn k row) = val d row.
Proof.
  induction d as [|d1 IH]; intros k row Hk; [reflexivity|].
  destruct k as [|k]; [lia|]. destruct row as [|x r]; [reflexivity|].
  cbn [firstn val hd tl]. rewrite IH by lia. reflexivity.
Qed.

Lemma val_zeros d : forall k, val d (repeat 0 k) = 0.
Proof.
  induction d as [|d1 IH]; intro k; [reflexivity|].
  destruct k as [|k]; cbn [repeat val hd tl].
  - change (@nil N) with (repeat 0 0). rewrite IH. lia.
  - rewrite IH. lia.
Qed.

Lemma val_identity d1 : (S d1 <= S MCL)%nat -> forall t, (2 <= t)%nat -> (t <= R (S d1))%nat ->
  val (S d1) (ia (L (S d1) t)) = N.of_nat t * 2 ^ N.of_nat d1.
Proof.
  induction d1 as [|d0 IH]; intros Hd t Ht Hle.
  - rewrite ia_split by lia. cbn [val hd tl]. rewrite level1_real by assumption. lia.
  - rewrite ia_split by lia. cbn [val hd tl].
    pose proof (IA (S d0) t Ht) as I. rewrite (inv_h _ _ _ I). cbn [Nat.leb orb].
    pose proof (inv_t _ _ _ I) as It.
    destruct (Nat.eqb_spec (Pk (S (S d0)) t) 0) as [Hp|Hp].
    + rewrite val_zeros. rewrite Pk_unfold in Hp. replace (El (S (S d0)) t) with t by lia. lia.
    + replace (S (S d0) - 1)%nat with (S d0) by lia.
      rewrite val_firstn by lia.
      rewrite IH; [|lia|lia|apply R1; assumption].
      rewrite Pk_unfold in *. rewrite Nnat.Nat2N.inj_succ, N.pow_succ_r'.
      set (P := 2 ^ N.of_nat d0). nia.
Qed.
End Real.
