(* C20 - the "real" part of the level sequences: level d has rr d genuine items
   (rr 1 = n, rr (d+1) = n + rr d / 2); within them the rows satisfy the counting identity that gives
   Kraft equality, are non-increasing, and their cost is the total weight taken.  Bounds on all weights. *)
From Coq Require Import List NArith ZArith Arith Bool Lia ZifyBool ZifyNat.
From LBZ Require Import Gen.Consts Enc.PmModel Enc.PmIdeal.
Import ListNotations.
Local Open Scope N_scope.

Ltac Zify.zify_post_hook ::= Z.div_mod_to_equations.

(* number of genuine items of level d *)
Fixpoint rr (n : nat) (d : nat) : nat :=
  match d with
  | O => O
  | S d1 => match d1 with O => n | S _ => (n + rr n d1 / 2)%nat end
  end.

Lemma rr_1 n : rr n 1 = n. Proof. reflexivity. Qed.
Lemma rr_SS n d0 : rr n (S (S d0)) = (n + rr n (S d0) / 2)%nat. Proof. reflexivity. Qed.

Lemma rr_bounds n d1 : (1 <= n)%nat ->
  (n <= rr n (S d1) <= 2 * n - 1)%nat /\ ((2 * n - 1 - rr n (S d1)) * 2 ^ d1 <= n - 1)%nat.
Proof.
  intro Hn. induction d1 as [|d0 [IH1 IH2]].
  - rewrite rr_1. cbn [Nat.pow]. split; lia.
  - rewrite rr_SS. set (r := rr n (S d0)) in *. split; [lia|].
    cbn [Nat.pow]. set (P := (2 ^ d0)%nat) in *.
    assert (E : (2 * (2 * n - 1 - (n + r / 2)) <= 2 * n - 1 - r)%nat) by lia.
    nia.
Qed.

Lemma rr_full n d1 : (1 <= n)%nat -> (n <= 2 ^ S d1)%nat -> (2 * n - 2 <= rr n (S d1))%nat.
Proof.
  intros Hn Hp. destruct (rr_bounds n d1 Hn) as [[H1 H2] H3].
  cbn [Nat.pow] in Hp. set (P := (2 ^ d1)%nat) in *.
  destruct (Nat.le_gt_cases (2 * n - 2) (rr n (S d1))) as [|Hgt]; [assumption|exfalso].
  assert (2 <= 2 * n - 1 - rr n (S d1))%nat by lia. nia.
Qed.

Lemma nth_firstn_N j k (l : list N) : nth j (firstn k l) 0 = if (j <? k)%nat then nth j l 0 else 0.
Proof.
  revert j l; induction k as [|k IH]; intros j l.
  - cbn [firstn]. destruct j; reflexivity.
  - destruct l as [|x l]; cbn [firstn].
    + destruct j; destruct (_ <? _)%nat; reflexivity.
    + destruct j as [|j]; [reflexivity|]. cbn [nth]. rewrite IH.
      replace (S j <? S k)%nat with (j <? k)%nat by (destruct (Nat.ltb_spec j k), (Nat.ltb_spec (S j) (S k)); lia || reflexivity).
      reflexivity.
Qed.

Lemma nth_repeat_0 j k : nth j (repeat 0 k) 0 = 0.
Proof. revert j; induction k as [|k IH]; intros [|j]; cbn [repeat nth]; auto. Qed.

(* sum of the k lightest leaf frequencies; cost of a row = sum over its levels *)
Fixpoint lsum (l : list N) : N := match l with [] => 0 | x :: r => x + lsum r end.
Definition Ssum (xs : list N) (k : nat) : N := lsum (firstn k xs).
Fixpoint Crow (xs : list N) (d : nat) (row : list N) : N :=
  match d with
  | O => 0
  | S d1 => Ssum xs (N.to_nat (hd 0 row)) + Crow xs d1 (tl row)
  end.

Lemma Ssum_S xs k : (k < length xs)%nat -> Ssum xs (S k) = Ssum xs k + leafF xs k.
Proof.
  unfold Ssum, leafF. revert k; induction xs as [|x r IH]; intros k Hk; cbn [length] in Hk; [lia|].
  destruct k as [|k].
  - cbn [firstn lsum nth]. destruct r; cbn [firstn lsum]; lia.
  - change (firstn (S (S k)) (x :: r)) with (x :: firstn (S k) r).
    change (firstn (S k) (x :: r)) with (x :: firstn k r). cbn [lsum nth]. rewrite IH by lia. lia.
Qed.

Lemma Ssum_0 xs : Ssum xs 0 = 0. Proof. reflexivity. Qed.

Lemma Ssum_le_total xs k : Ssum xs k <= lsum xs.
Proof.
  unfold Ssum. revert k; induction xs as [|x r IH]; intro k.
  - destruct k; cbn; lia.
  - destruct k as [|k]; cbn [firstn lsum]; [lia|].
    specialize (IH k). lia.
Qed.

Lemma In_le_lsum x (l : list N) : In x l -> x <= lsum l.
Proof.
  induction l as [|y r IH]; intro H; [destruct H|]. cbn [lsum].
  destruct H as [->|H]; [lia|]. specialize (IH H). lia.
Qed.

Lemma Crow_S xs d1 row : Crow xs (S d1) row = Ssum xs (N.to_nat (hd 0 row)) + Crow xs d1 (tl row).
Proof. reflexivity. Qed.

Lemma Crow_firstn xs d : forall k row, (d <= k)%nat -> Crow xs d (firstn k row) = Crow xs d row.
Proof.
  induction d as [|d1 IH]; intros k row Hk; [reflexivity|].
  destruct k as [|k]; [lia|]. destruct row as [|x r]; [reflexivity|].
  cbn [firstn]. rewrite !Crow_S. cbn [hd tl]. rewrite IH by lia. reflexivity.
Qed.

Lemma Crow_zeros xs d : forall k, Crow xs d (repeat 0 k) = 0.
Proof.
  induction d as [|d1 IH]; intro k; [reflexivity|].
  rewrite Crow_S. destruct k as [|k]; cbn [repeat hd tl].
  - change (@nil N) with (repeat 0 0). rewrite IH. reflexivity.
  - rewrite IH. reflexivity.
Qed.

Lemma Crow_bound xs d : forall row, Crow xs d row <= N.of_nat d * lsum xs.
Proof.
  induction d as [|d1 IH]; intro row; [cbn; lia|].
  rewrite Crow_S. pose proof (Ssum_le_total xs (N.to_nat (hd 0 row))). specialize (IH (tl row)). lia.
Qed.

Section Real.
Variable xs : list N.
Notation n := (length xs).
Hypothesis Hn : (2 <= n)%nat.
Hypothesis Hs : forall i j, (i <= j)%nat -> (j < n)%nat -> leafF xs i <= leafF xs j.
Notation L := (ilev xs).
Notation El := (ell xs).
Notation Pk := (pk xs).
Notation R := (rr n).

Let IA := inv_all xs Hn Hs.

Lemma Pk_step d1 t : (2 <= t)%nat -> (Pk (S d1) (S t) <= S (Pk (S d1) t))%nat.
Proof. intro Ht. pose proof (El_step xs Hn d1 t Ht). rewrite !Pk_unfold. lia. Qed.

(* within the genuine items a level only takes genuine packages *)
Lemma R1_step d0 :
  (forall t, (2 <= t)%nat -> (R (S d0) <= t)%nat -> El (S d0) t = n) ->
  forall t, (2 <= t)%nat -> (t <= R (S (S d0)))%nat -> (Pk (S (S d0)) t <= R (S d0) / 2)%nat.
Proof.
  intros HW t Ht. induction t as [|t IHt]; [lia|]. intro Hle.
  destruct (Nat.eq_dec t 1) as [->|Hne]; [rewrite Pk_unfold, El_init; lia|].
  assert (Ht' : (2 <= t)%nat) by lia. specialize (IHt Ht' ltac:(lia)).
  pose proof (Pk_step (S d0) t Ht') as Hst.
  destruct (Nat.eq_dec (Pk (S (S d0)) t) (R (S d0) / 2)) as [Heq|Hneq]; [|lia].
  pose proof (istep_cases xs (L (S d0)) (S d0) t (L (S (S d0)) t)) as C. cbn zeta in C.
  rewrite <- (ilev_S xs (S d0) t Ht') in C. rewrite <- El_unfold in C.
  pose proof (IA (S d0) t Ht') as I.
  rewrite rr_SS in Hle. rewrite Pk_unfold in Heq.
  destruct C as [[E [D0 _]] | [[E _] | [E [_ Hcmp]]]]; [congruence| |].
  - rewrite Pk_unfold, (El_unfold _ _ (S t)), E. unfold il_leaf; cbn [ia hd]. rewrite El_unfold in *. lia.
  - exfalso. pose proof (inv_t _ _ _ I) as It. pose proof (inv_hi _ _ _ I) as Ihi.
    destruct Hcmp as [Hcmp|Hcmp]; [lia|].
    set (t2 := (2 * (t - El (S (S d0)) t) + 2)%nat) in *.
    assert (T2 : (2 <= t2)%nat) by (unfold t2; lia).
    assert (F : El (S d0) t2 = n) by (apply HW; unfold t2; lia).
    pose proof (IA d0 t2 T2) as J.
    pose proof (inv_d _ _ _ J) as Jd. pose proof (inv_e1 _ _ _ J) as Je. rewrite F in Jd.
    assert (leafF xs (El (S (S d0)) t) <= leafF xs (n - 1)) by (apply Hs; lia).
    lia.
Qed.

Lemma all_leaves_after_R d1 : forall t, (2 <= t)%nat -> (R (S d1) <= t)%nat -> El (S d1) t = n.
Proof.
  induction d1 as [|d0 IH]; intros t Ht Hle.
  - rewrite rr_1 in Hle. rewrite (El_level1 xs Hn) by assumption. lia.
  - pose proof (rr_bounds n (S d0) ltac:(lia)) as [[B1 B2] _].
    assert (T : (2 <= R (S (S d0)))%nat) by lia.
    pose proof (R1_step d0 IH _ T (Nat.le_refl _)) as P. rewrite Pk_unfold in P.
    pose proof (inv_hi _ _ _ (IA (S d0) _ T)) as Hhi.
    pose proof (inv_hi _ _ _ (IA (S d0) _ Ht)) as Hhi'.
    pose proof (El_mono xs Hn (S d0) _ _ T Hle). rewrite rr_SS in *. lia.
Qed.

Lemma R1 d0 t : (2 <= t)%nat -> (t <= R (S (S d0)))%nat -> (2 * Pk (S (S d0)) t <= R (S d0))%nat.
Proof.
  intros Ht Hle. pose proof (R1_step d0 (all_leaves_after_R d0) t Ht Hle). lia.
Qed.

Lemma level1_real t : (2 <= t)%nat -> (t <= R 1)%nat -> El 1 t = t.
Proof. intros Ht Hle. rewrite rr_1 in Hle. rewrite (El_level1 xs Hn) by assumption. lia. Qed.

(* ---- the rows ---------------------------------------------------------------------------------------- *)
Lemma ia_split d t : (2 <= t)%nat -> (1 <= d)%nat -> ia (L d t) = N.of_nat (El d t) :: tl (ia (L d t)).
Proof.
  intros Ht Hd. destruct d as [|d1]; [lia|].
  pose proof (inv_len _ _ _ (IA d1 t Ht)) as Hl. rewrite El_unfold.
  destruct (ia (L (S d1) t)) as [|x r]; [discriminate|]. cbn [hd tl]. f_equal. lia.
Qed.

(* entries at index >= level are zero *)
Lemma row_zeros d1 : forall t j, (2 <= t)%nat -> (S d1 <= j)%nat -> nth j (ia (L (S d1) t)) 0 = 0.
Proof.
  induction d1 as [|d0 IH]; intros t j Ht Hj.
  - rewrite ia_split by lia. destruct j as [|j]; [lia|]. cbn [nth].
    rewrite (inv_h _ _ _ (IA 0 t Ht)). cbn [Nat.leb orb]. apply nth_repeat_0.
  - rewrite ia_split by lia. destruct j as [|j]; [lia|]. cbn [nth].
    rewrite (inv_h _ _ _ (IA (S d0) t Ht)). cbn [Nat.leb orb].
    destruct (Nat.eqb_spec (Pk (S (S d0)) t) 0) as [Hp|Hp]; [apply nth_repeat_0|].
    rewrite nth_firstn_N. destruct (j <? MCL)%nat; [|reflexivity].
    replace (S (S d0) - 1)%nat with (S d0) by lia. apply IH; lia.
Qed.

(* rows are non-increasing *)
Lemma row_mono d1 : forall t j, (2 <= t)%nat -> nth (S j) (ia (L (S d1) t)) 0 <= nth j (ia (L (S d1) t)) 0.
Proof.
  induction d1 as [|d0 IH]; intros t j Ht.
  - rewrite (row_zeros 0 t (S j)) by lia. lia.
  - rewrite ia_split by lia. cbn [nth].
    pose proof (IA (S d0) t Ht) as I.
    rewrite (inv_h _ _ _ I). cbn [Nat.leb orb].
    destruct (Nat.eqb_spec (Pk (S (S d0)) t) 0) as [Hp|Hp].
    + rewrite nth_repeat_0. lia.
    + replace (S (S d0) - 1)%nat with (S d0) by lia.
      assert (T2 : (2 <= 2 * Pk (S (S d0)) t)%nat) by lia.
      destruct j as [|j].
      * rewrite nth_firstn_N. destruct (0 <? MCL)%nat; [|lia].
        rewrite (ia_split (S d0)) by lia. cbn [nth].
        pose proof (inv_i _ _ _ I ltac:(lia) ltac:(lia)) as Ii.
        replace (S (S d0) - 1)%nat with (S d0) in Ii by lia. lia.
      * cbn [nth]. rewrite !nth_firstn_N.
        destruct (Nat.ltb_spec (S j) MCL) as [H1|H1]; destruct (Nat.ltb_spec j MCL) as [H2|H2]; try lia.
        apply IH. lia.
Qed.

(* ---- the counting identity ---------------------------------------------------------------------------- *)
Fixpoint val (d : nat) (row : list N) : N :=
  match d with
  | O => 0
  | S d1 => hd 0 row * 2 ^ N.of_nat d1 + val d1 (tl row)
  end.

Lemma val_S d1 row : val (S d1) row = hd 0 row * 2 ^ N.of_nat d1 + val d1 (tl row).
Proof. reflexivity. Qed.

Lemma val_firstn d : forall k row, (d <= k)%nat -> val d (firstn k row) = val d row.
Proof.
  induction d as [|d1 IH]; intros k row Hk; [reflexivity|].
  destruct k as [|k]; [lia|]. destruct row as [|x r]; [reflexivity|].
  cbn [firstn val hd tl]. rewrite IH by lia. reflexivity.
Qed.

Lemma val_zeros d : forall k, val d (repeat 0 k) = 0.
Proof.
  induction d as [|d1 IH]; intro k; [reflexivity|].
  destruct k as [|k]; cbn [repeat val hd tl].
  - change (@nil N) with (repeat 0 0). rewrite IH. lia.
  - rewrite IH. lia.
Qed.

Lemma val_identity d1 : (S d1 <= S MCL)%nat -> forall t, (2 <= t)%nat -> (t <= R (S d1))%nat ->
  val (S d1) (ia (L (S d1) t)) = N.of_nat t * 2 ^ N.of_nat d1.
Proof.
  induction d1 as [|d0 IH]; intros Hd t Ht Hle.
  - rewrite ia_split by lia. cbn [val hd tl]. rewrite level1_real by assumption. lia.
  - rewrite ia_split by lia. rewrite val_S. cbn [hd tl].
    pose proof (IA (S d0) t Ht) as I. rewrite (inv_h _ _ _ I). cbn [Nat.leb orb].
    pose proof (inv_t _ _ _ I) as It.
    destruct (Nat.eqb_spec (Pk (S (S d0)) t) 0) as [Hp|Hp].
    + rewrite val_zeros. rewrite Pk_unfold in Hp. replace (El (S (S d0)) t) with t by lia. lia.
    + replace (S (S d0) - 1)%nat with (S d0) by lia.
      rewrite val_firstn by lia.
      rewrite IH; [|lia|lia|apply R1; assumption].
      rewrite Pk_unfold in *. rewrite Nnat.Nat2N.inj_succ, N.pow_succ_r'.
      set (P := 2 ^ N.of_nat d0). nia.
Qed.

(* ---- total weight taken = cost of the row ------------------------------------------------------------- *)
Definition W (d t : nat) : N := Crow xs d (ia (L d t)).

Lemma W_init d1 : W (S d1) 2 = leafF xs 0 + leafF xs 1.
Proof.
  unfold W. rewrite ilev_2. unfold il_init; cbn [ia]. rewrite Crow_S. cbn [hd tl].
  rewrite Crow_zeros. change (N.to_nat 2) with 2%nat.
  rewrite !Ssum_S by lia. rewrite Ssum_0. lia.
Qed.

Lemma W_step d1 : (S d1 <= S MCL)%nat -> forall t, (2 <= t)%nat -> (S t <= R (S d1))%nat ->
  ipkg (L (S d1) (S t)) = iprev (L (S d1) t) + iprev (L (S d1) (S t)) /\
  W (S d1) (S t) = W (S d1) t + iprev (L (S d1) (S t)).
Proof.
  induction d1 as [|d0 IH]; intros Hd t Ht Hle.
  - pose proof (istep_cases xs (L 0) 0 t (L 1 t)) as C. cbn zeta in C.
    rewrite <- (ilev_S xs 0 t Ht) in C. rewrite <- El_unfold in C.
    pose proof (level1_real t Ht ltac:(lia)) as E1. rewrite rr_1 in Hle.
    destruct C as [[E [_ Hge]] | [[E [Hlt _]] | [E [D0 _]]]]; [lia| |congruence].
    unfold W. rewrite E. unfold il_leaf; cbn [ia ipkg iprev]. rewrite <- El_unfold.
    split; [reflexivity|].
    rewrite (ia_split 1 t) by lia. rewrite !Crow_S. cbn [hd tl Crow].
    replace (N.to_nat (N.of_nat (El 1 t) + 1)) with (S (El 1 t)) by lia.
    rewrite Nnat.Nat2N.id. rewrite Ssum_S by lia. lia.
  - pose proof (istep_cases xs (L (S d0)) (S d0) t (L (S (S d0)) t)) as C. cbn zeta in C.
    rewrite <- (ilev_S xs (S d0) t Ht) in C. rewrite <- El_unfold in C.
    pose proof (IA (S d0) t Ht) as I.
    destruct C as [[E [D0 _]] | [[E [Hlt _]] | [E [_ Hcmp]]]]; [congruence| |].
    + unfold W. rewrite E. unfold il_leaf; cbn [ia ipkg iprev]. rewrite <- El_unfold.
      split; [reflexivity|].
      rewrite (ia_split (S (S d0)) t) by lia. rewrite !Crow_S. cbn [hd tl].
      replace (N.to_nat (N.of_nat (El (S (S d0)) t) + 1)) with (S (El (S (S d0)) t)) by lia.
      rewrite Nnat.Nat2N.id. rewrite Ssum_S by lia. lia.
    + set (p := (t - El (S (S d0)) t)%nat) in *.
      set (lo := L (S d0) (2 * p + 2)) in *.
      unfold W. rewrite E. unfold il_pkg; cbn [ia ipkg iprev]. split; [reflexivity|].
      rewrite (ia_split (S (S d0)) t) by lia. rewrite !(Crow_S xs (S d0)). cbn [hd tl].
      rewrite Crow_firstn by lia.
      rewrite (inv_h _ _ _ I). cbn [Nat.leb orb]. rewrite Pk_unfold. fold p.
      replace (S (S d0) - 1)%nat with (S d0) by lia.
      (* the package was genuine *)
      assert (Hp1 : (2 * p + 2 <= R (S d0))%nat).
      { pose proof (R1 d0 (S t) ltac:(lia) Hle) as HR. rewrite Pk_unfold in HR.
        assert (El (S (S d0)) (S t) = El (S (S d0)) t).
        { rewrite (El_unfold _ _ (S t)), E. unfold il_pkg; cbn [ia hd]. rewrite <- El_unfold. reflexivity. }
        pose proof (inv_t _ _ _ I). unfold p. lia. }
      destruct (Nat.eqb_spec p 0) as [Hp|Hp].
      * rewrite Crow_zeros. unfold lo. rewrite Hp. cbn [Nat.mul Nat.add].
        fold (W (S d0) 2). rewrite W_init. rewrite ilev_2. unfold il_init; cbn [ipkg]. lia.
      * rewrite Crow_firstn by lia. unfold lo.
        fold (W (S d0) (2 * p)). fold (W (S d0) (2 * p + 2)).
        replace (2 * p + 2)%nat with (S (S (2 * p))) in * by lia.
        destruct (IH ltac:(lia) (2 * p)%nat ltac:(lia) ltac:(lia)) as [A1 A2].
        destruct (IH ltac:(lia) (S (2 * p))%nat ltac:(lia) ltac:(lia)) as [B1 B2].
        rewrite B2, A2, B1. lia.
Qed.

Lemma pkg_le_W d1 : (S d1 <= S MCL)%nat -> forall t, (2 <= t)%nat -> (t <= R (S d1))%nat ->
  ipkg (L (S d1) t) <= W (S d1) t.
Proof.
  intros Hd t Ht. induction t as [|t IHt]; [lia|]. intro Hle.
  destruct (Nat.eq_dec t 1) as [->|Hne].
  - rewrite W_init, ilev_2. unfold il_init; cbn [ipkg]. lia.
  - assert (Ht' : (2 <= t)%nat) by lia. specialize (IHt Ht' ltac:(lia)).
    destruct (W_step d1 Hd t Ht' Hle) as [A1 A2]. rewrite A1, A2.
    pose proof (inv_e1 _ _ _ (IA d1 t Ht')). lia.
Qed.

(* ---- bounds on every weight ---------------------------------------------------------------------------- *)
Lemma leaf_le_w1 e : (e < n)%nat -> leafF xs e <= leafF xs (n - 1).
Proof. intro H. apply Hs; lia. Qed.

Lemma tier1 d1 : forall t, (2 <= t)%nat ->
  iprev (L (S d1) t) <= 2 ^ N.of_nat d1 * leafF xs (n - 1) /\
  ipkg (L (S d1) t) <= 2 ^ N.of_nat (S d1) * leafF xs (n - 1).
Proof.
  induction d1 as [|d0 IH]; intros t Ht.
  - induction t as [|t IHt]; [lia|].
    destruct (Nat.eq_dec t 1) as [->|Hne].
    + rewrite ilev_2. unfold il_init; cbn [ipkg iprev].
      pose proof (leaf_le_w1 0 ltac:(lia)). pose proof (leaf_le_w1 1 ltac:(lia)). set (w1 := leafF xs (n - 1)) in *.
      change (2 ^ N.of_nat 0) with 1. change (2 ^ N.of_nat 1) with 2. lia.
    + assert (Ht' : (2 <= t)%nat) by lia. destruct (IHt Ht') as [A B].
      pose proof (istep_cases xs (L 0) 0 t (L 1 t)) as C. cbn zeta in C.
      rewrite <- (ilev_S xs 0 t Ht') in C. rewrite <- El_unfold in C.
      destruct C as [[E _] | [[E [Hlt _]] | [E [D0 _]]]]; [| |congruence]; rewrite E.
      * auto.
      * unfold il_leaf; cbn [ipkg iprev]. rewrite <- El_unfold.
        pose proof (leaf_le_w1 _ Hlt). set (w1 := leafF xs (n - 1)) in *.
        change (2 ^ N.of_nat 0) with 1 in *. change (2 ^ N.of_nat 1) with 2 in *. lia.
  - induction t as [|t IHt]; [lia|].
    assert (P2 : 2 ^ N.of_nat (S (S d0)) = 2 * 2 ^ N.of_nat (S d0)) by (rewrite (Nnat.Nat2N.inj_succ (S d0)), N.pow_succ_r'; reflexivity).
    assert (P1 : 2 ^ N.of_nat (S d0) = 2 * 2 ^ N.of_nat d0) by (rewrite (Nnat.Nat2N.inj_succ d0), N.pow_succ_r'; reflexivity).
    assert (P0 : 1 <= 2 ^ N.of_nat d0) by (apply N.lt_succ_r; rewrite <- N.add_1_l; pose proof (N.pow_nonzero 2 (N.of_nat d0)); lia).
    destruct (Nat.eq_dec t 1) as [->|Hne].
    + rewrite ilev_2. unfold il_init; cbn [ipkg iprev].
      pose proof (leaf_le_w1 0 ltac:(lia)). pose proof (leaf_le_w1 1 ltac:(lia)). set (w1 := leafF xs (n - 1)) in *.
      rewrite P2, P1. set (P := 2 ^ N.of_nat d0) in *. nia.
    + assert (Ht' : (2 <= t)%nat) by lia. destruct (IHt Ht') as [A B].
      pose proof (istep_cases xs (L (S d0)) (S d0) t (L (S (S d0)) t)) as C. cbn zeta in C.
      rewrite <- (ilev_S xs (S d0) t Ht') in C. rewrite <- El_unfold in C.
      destruct C as [[E [D0 _]] | [[E [Hlt _]] | [E _]]]; [congruence| |]; rewrite E.
      * unfold il_leaf; cbn [ipkg iprev]. rewrite <- El_unfold.
        pose proof (leaf_le_w1 _ Hlt). set (w1 := leafF xs (n - 1)) in *. rewrite P2, P1 in *.
        set (P := 2 ^ N.of_nat d0) in *. nia.
      * unfold il_pkg; cbn [ipkg iprev].
        set (t2 := (2 * (t - El (S (S d0)) t) + 2)%nat).
        destruct (IH t2 ltac:(unfold t2; lia)) as [_ B']. set (w1 := leafF xs (n - 1)) in *. rewrite P2 in *. lia.
Qed.

Lemma w1_le_total : leafF xs (n - 1) <= lsum xs.
Proof. apply In_le_lsum. unfold leafF. apply nth_In. lia. Qed.

(* every package weight that the first 2n-2 takes of a level <= MCL can produce *)
Lemma pkg_bound d1 t : (S d1 <= MCL)%nat -> (2 <= t)%nat -> (t <= 2 * n - 2)%nat ->
  ipkg (L (S d1) t) <= N.of_nat (Nat.max n MCL) * lsum xs.
Proof.
  intros Hd Ht Hle.
  destruct (Nat.le_gt_cases n (2 ^ S d1)) as [Hfull|Hsmall].
  - pose proof (rr_full n d1 ltac:(lia) Hfull) as HR.
    pose proof (pkg_le_W d1 ltac:(lia) t Ht ltac:(lia)) as H1.
    unfold W in H1. pose proof (Crow_bound xs (S d1) (ia (L (S d1) t))) as H2.
    assert (N.of_nat (S d1) <= N.of_nat (Nat.max n MCL)) by lia.
    nia.
  - destruct (tier1 d1 t Ht) as [_ B]. pose proof w1_le_total as Hw.
    assert (E : 2 ^ N.of_nat (S d1) = N.of_nat (2 ^ S d1)) by (rewrite Nnat.Nat2N.inj_pow; reflexivity).
    rewrite E in B.
    assert (N.of_nat (2 ^ S d1) <= N.of_nat (Nat.max n MCL)) by lia.
    nia.
Qed.
End Real.
