(* Totality of the exact model of make_code_lengths() (Enc/GenModel.v), part 2:
   from the post-condition of build_tree() (BtPost, Enc/GenMclDefs.v) compute_depths() passes its asserts
   (avail > used, avail == 0) and the length assignment loop of make_code_lengths() passes its own
   (i < as, no underflow of MAX_ALPHA_SIZE - (w & 0xFFFF), in-bounds stores) and ends with
   i == as and c == 1 << (MAX_HUFF_CODE_LENGTH + 1). *)
From Coq Require Import List NArith Arith Bool Lia.
From LBZ Require Import Gen.Consts Enc.PmModel Enc.PmBasics Enc.PmReal Enc.GenModel Enc.GenInit Enc.GenMclDefs.
Import ListNotations.
Local Open Scope N_scope.

(* ---- the Kraft sum of count[]: index j of a list of 32 entries weighs 2^(31 - j) ------------------------------- *)
Fixpoint kraft (l : list N) : N :=
  match l with
  | [] => 0
  | x :: r => x * 2 ^ N.of_nat (length r) + kraft r
  end.

Lemma lsum_upd0 : forall (l : list N) j x, (j < length l)%nat -> nth j l 0 = 0 -> lsum (upd l j x) = lsum l + x.
Proof.
  induction l as [|a l IH]; intros [|j] x Hj H0; cbn [upd lsum length nth] in *; try lia.
  rewrite IH by (try lia; exact H0). lia.
Qed.

Lemma kraft_upd0 : forall (l : list N) j x, (j < length l)%nat -> nth j l 0 = 0 ->
  kraft (upd l j x) = kraft l + x * 2 ^ N.of_nat (length l - 1 - j).
Proof.
  induction l as [|a l IH]; intros [|j] x Hj H0; cbn [upd kraft length nth] in *; try lia.
  - subst a. replace (S (length l) - 1 - 0)%nat with (length l) by lia. lia.
  - rewrite upd_length, IH by (try lia; exact H0).
    replace (S (length l) - 1 - S j)%nat with (length l - 1 - j)%nat by lia. lia.
Qed.

Lemma pow2_S n : 2 ^ N.of_nat (S n) = 2 * 2 ^ N.of_nat n.
Proof. rewrite Nat2N.inj_succ, N.pow_succ_r'. reflexivity. Qed.

Lemma pow2_pos n : 1 <= 2 ^ N.of_nat n.
Proof. pose proof (N.pow_nonzero 2 (N.of_nat n)). lia. Qed.

(* ---- compute_depths -------------------------------------------------------------------------------------------- *)
Section CD.
Variables (as_ : nat) (W V : list N).
Hypothesis Has : (3 <= as_ <= 258)%nat.
Hypothesis HlenV : length V = as_.
Hypothesis Hpar : forall i, (2 <= i < as_)%nat -> (1 <= vn V i < i)%nat /\ hg (wn W i) + 1 <= hg (wn W (vn V i)).
Hypothesis Hhg1 : forall i, (1 <= i < as_)%nat -> 1 <= hg (wn W i).
Hypothesis Hmono : forall i j, (2 <= i)%nat -> (i <= j)%nat -> (j < as_)%nat -> (vn V i <= vn V j)%nat.
Hypothesis Hstep2 : forall i, (2 <= i)%nat -> (i + 2 < as_)%nat -> (vn V i < vn V (i + 2))%nat.
Hypothesis Hroot : hg (wn W 1) <= 30.

Lemma P_half : forall k i, (2 <= i)%nat -> (i + 2 * k < as_)%nat -> (vn V i + k <= vn V (i + 2 * k))%nat.
Proof.
  induction k as [|k IH]; intros i Hi Hk.
  - replace (i + 2 * 0)%nat with i by lia. lia.
  - specialize (IH i Hi ltac:(lia)). pose proof (Hstep2 (i + 2 * k)%nat ltac:(lia) ltac:(lia)) as H2.
    replace (i + 2 * S k)%nat with (i + 2 * k + 2)%nat by lia. lia.
Qed.

Lemma P_gap i u : (2 <= i)%nat -> (i + u < as_)%nat -> (u + 2 * vn V i <= 2 * vn V (i + u) + 1)%nat.
Proof.
  intros Hi Hu. destruct (Nat.Even_or_Odd u) as [[k ->]|[k ->]].
  - pose proof (P_half k i Hi Hu). lia.
  - pose proof (P_half k i Hi ltac:(lia)).
    pose proof (Hmono (i + 2 * k)%nat (i + (2 * k + 1))%nat ltac:(lia) ltac:(lia) Hu). lia.
Qed.

(* state of V[] inside level d: nodes [n0, node) have just received depth d, nodes [lo_, n0) are the previous level,
   nodes from [node] on still hold their parent index *)
Definition InI (lo_ n0 : nat) (d : N) (V' : list N) (node : nat) : Prop :=
  length V' = as_ /\
  (n0 <= node <= as_)%nat /\
  (forall i, (node <= i < as_)%nat -> nth i V' 0 = nth i V 0) /\
  (forall i, (n0 <= i < node)%nat -> nth i V' 0 = d) /\
  (forall i, (lo_ <= i < n0)%nat -> nth i V' 0 + 1 = d) /\
  (forall i, (1 <= i < lo_)%nat -> nth i V' 0 + 1 < d) /\
  (forall i, (1 <= i < node)%nat -> nth i V' 0 + hg (wn W i) <= hg (wn W 1)).

Lemma cd_inner_ok : forall fuel lo_ n0 d avail V' node,
  (1 <= lo_ <= n0)%nat -> (2 <= n0)%nat -> 1 <= d <= 31 ->
  avail = 2 * N.of_nat (n0 - lo_) ->
  (n0 < as_ -> lo_ <= vn V n0)%nat ->
  InI lo_ n0 d V' node -> fuel = (as_ - node)%nat ->
  N.of_nat (node - n0) <= avail ->
  exists V'' node'',
    cd_inner fuel V' node d avail (N.of_nat (node - n0)) = GOk (V'', node'', N.of_nat (node'' - n0)) /\
    InI lo_ n0 d V'' node'' /\ (node'' < as_ -> n0 <= vn V node'')%nat /\ N.of_nat (node'' - n0) <= avail.
Proof.
  induction fuel as [|f IH]; intros lo_ n0 d avail V' node Hlo Hn0 Hd Hav Hp0 HI Hf Hu.
  - exists V', node. cbn [cd_inner]. pose proof HI as (HL & Hnd & _).
    split; [reflexivity|]. split; [exact HI|]. split; [lia|exact Hu].
  - pose proof HI as HI0. destruct HI as (HL & Hnd & Hrest & Hcur & Hprev & Holder & Hdh).
    assert (Hlt : (node < as_)%nat) by lia.
    destruct (Hpar node ltac:(lia)) as [Hpn Hhn].
    cbn [cd_inner]. rewrite mrd_ok by lia. cbn [gbind].
    rewrite (Hrest node ltac:(lia)). change (N.to_nat (nth node V 0)) with (vn V node).
    rewrite mrd_ok by lia. cbn [gbind].
    assert (Hpm : (n0 < as_ -> vn V n0 <= vn V node)%nat).
    { intro. apply Hmono; lia. }
    destruct (Nat.lt_ge_cases (vn V node) n0) as [Hin|Hout].
    + (* the parent is on the previous level *)
      rewrite (Hprev (vn V node) ltac:(lia)).
      rewrite u32_small by (rewrite U32_val; lia). rewrite N.eqb_refl.
      pose proof (P_gap n0 (node - n0) Hn0 ltac:(lia)) as Hg.
      replace (n0 + (node - n0))%nat with node in Hg by lia.
      destruct (N.leb_spec avail (N.of_nat (node - n0))) as [Hbad|Hgood]; [lia|].
      rewrite mwr_ok by lia. cbn [gbind].
      rewrite u32_small by (rewrite U32_val; lia).
      replace (N.of_nat (node - n0) + 1) with (N.of_nat (S node - n0)) by lia.
      apply (IH lo_ n0 d avail (upd V' node d) (S node)); try assumption; try lia.
      unfold InI. rewrite upd_length. split; [exact HL|]. split; [lia|].
      split; [|split; [|split; [|split]]]; intros i Hi; rewrite nth_upd by lia.
      * destruct (Nat.eqb_spec i node); [lia|]. apply Hrest. lia.
      * destruct (Nat.eqb_spec i node); [reflexivity|]. apply Hcur. lia.
      * destruct (Nat.eqb_spec i node); [lia|]. apply Hprev. lia.
      * destruct (Nat.eqb_spec i node); [lia|]. apply Holder. lia.
      * destruct (Nat.eqb_spec i node) as [->|Hne]; [|apply Hdh; lia].
        pose proof (Hdh (vn V node) ltac:(lia)) as Hq.
        pose proof (Hprev (vn V node) ltac:(lia)) as Hq2. lia.
    + (* the parent is on the current level: the loop exits *)
      rewrite (Hcur (vn V node) ltac:(lia)).
      rewrite u32_small by (rewrite U32_val; lia).
      destruct (N.eqb_spec (d + 1) d) as [Hbad|_]; [lia|].
      exists V', node. split; [reflexivity|]. split; [exact HI0|]. split; [intros; lia|exact Hu].
Qed.

Definition CntInv (n : nat) (d : N) (count : list N) (node lo_ : nat) (avail : N) : Prop :=
  length count = 32%nat /\
  (forall j, (N.to_nat d <= j)%nat -> nth j count 0 = 0) /\
  lsum count + N.of_nat node = 2 * N.of_nat lo_ /\
  kraft count + avail * 2 ^ N.of_nat n = 2147483648.

Lemma cd_outer_ok : forall n d lo_ node V' count avail,
  N.of_nat n + d = 31 -> 1 <= d ->
  (1 <= lo_ <= node)%nat -> (2 <= node)%nat ->
  avail = 2 * N.of_nat (node - lo_) ->
  (node < as_ -> lo_ <= vn V node)%nat ->
  InI lo_ node d V' node ->
  CntInv n d count node lo_ avail ->
  exists count', cd_outer n as_ V' count node d avail = GOk (count', 0) /\
    length count' = 32%nat /\ nth 31 count' 0 = 0 /\ lsum count' = N.of_nat as_ /\ kraft count' = 2147483648.
Proof.
  induction n as [|n IH]; intros d lo_ node V' count avail Hnd Hd1 Hlo Hn2 Hav Hp0 HI HC.
  - assert (Hd : d = 31) by lia. subst d.
    destruct HI as (HL & Hnd' & Hrest & Hcur & Hprev & Holder & Hdh).
    destruct HC as (HCl & HCz & HS1 & HS2).
    assert (Heq : node = lo_).
    { destruct (Nat.eq_dec node lo_) as [E|NE]; [exact E|exfalso].
      pose proof (Hprev lo_ ltac:(lia)) as H1. pose proof (Hdh lo_ ltac:(lia)) as H2.
      pose proof (Hhg1 lo_ ltac:(lia)) as H3. lia. }
    assert (Hend : node = as_).
    { destruct (Nat.eq_dec node as_) as [E|NE]; [exact E|exfalso].
      destruct (Hpar node ltac:(lia)) as [H1 _]. specialize (Hp0 ltac:(lia)). lia. }
    cbn [cd_outer]. exists count. replace avail with 0 by lia.
    split; [reflexivity|]. split; [exact HCl|]. split; [apply HCz; cbn; lia|].
    split; [lia|]. replace avail with 0 in HS2 by lia. lia.
  - assert (Hd : d <= 30) by lia.
    pose proof (cd_inner_ok (as_ - node) lo_ node d avail V' node Hlo Hn2 ltac:(lia) Hav Hp0 HI eq_refl) as Hin.
    rewrite Nat.sub_diag in Hin. cbn [N.of_nat] in Hin.
    destruct (Hin ltac:(lia)) as (V'' & node'' & Hrun & HI' & Hp' & Hu'). clear Hin.
    cbn [cd_outer]. rewrite Hrun. cbn [gbind].
    destruct HC as (HCl & HCz & HS1 & HS2).
    pose proof HI' as HI0. destruct HI0 as (HL & Hnd' & Hrest & Hcur & Hprev & Holder & Hdh).
    rewrite mwr_ok by lia. cbn [gbind].
    rewrite sub32_exact by (rewrite ?U32_val; lia).
    rewrite N.shiftl_mul_pow2. change (2 ^ 1) with 2.
    rewrite u32_small by (rewrite U32_val; lia).
    apply (IH (d + 1) node node'' V'' _ _); try lia; try assumption.
    + unfold InI. split; [exact HL|]. split; [lia|]. split; [exact Hrest|]. split; [intros; lia|].
      split; [|split]; [| |exact Hdh].
      * intros i Hi. rewrite (Hcur i Hi). reflexivity.
      * intros i Hi. destruct (Nat.lt_ge_cases i lo_) as [Ha|Hb].
        -- pose proof (Holder i ltac:(lia)). lia.
        -- pose proof (Hprev i ltac:(lia)). lia.
    + unfold CntInv. rewrite upd_length. split; [exact HCl|].
      assert (Hz : nth (N.to_nat d) count 0 = 0) by (apply HCz; lia).
      split; [|split].
      * intros j Hj. rewrite nth_upd by lia. destruct (Nat.eqb_spec j (N.to_nat d)); [lia|]. apply HCz. lia.
      * rewrite lsum_upd0 by (try lia; exact Hz). lia.
      * rewrite kraft_upd0 by (try lia; exact Hz). rewrite HCl.
        replace (32 - 1 - N.to_nat d)%nat with (S n) by lia.
        rewrite pow2_S in HS2 |- *.
        set (X := 2 ^ N.of_nat n) in *. set (t := avail - N.of_nat (node'' - node)).
        assert (Ha : avail = N.of_nat (node'' - node) + t) by (unfold t; lia).
        rewrite Ha in HS2. lia.
Qed.

Lemma compute_depths_ok :
  exists count, compute_depths V as_ = GOk count /\
    length count = 32%nat /\ nth 31 count 0 = 0 /\ lsum count = N.of_nat as_ /\ kraft count = 2147483648.
Proof.
  unfold compute_depths. rewrite mwr_ok by lia. cbn [gbind].
  change (mwr 5 (repeat 0 COUNT_LEN) 0 0) with (GOk (A := list N) (repeat 0 32)). cbn [gbind].
  change (N.to_nat MAX_HUFF_CODE_LENGTH) with 30%nat.
  destruct (cd_outer_ok 30 1 1 2 (upd V 1 0) (repeat 0 32) 2) as (count & Hrun & Hres); try lia.
  - intros _. destruct (Hpar 2%nat ltac:(lia)) as [H _]. lia.
  - unfold InI. rewrite upd_length. split; [exact HlenV|]. split; [lia|].
    split; [|split; [|split; [|split]]]; intros i Hi; try lia; rewrite nth_upd by lia.
    + destruct (Nat.eqb_spec i 1); [lia|]. reflexivity.
    + destruct (Nat.eqb_spec i 1); [reflexivity|lia].
    + destruct (Nat.eqb_spec i 1) as [->|]; [lia|lia].
  - unfold CntInv. split; [reflexivity|]. split; [|split].
    + intros j _. apply nth_repeat.
    + rewrite lsum_repeat0. reflexivity.
    + reflexivity.
  - rewrite Hrun. cbn [gbind N.eqb negb]. exists count. split; [reflexivity|exact Hres].
Qed.

End CD.

(* ---- the length assignment loop of make_code_lengths ------------------------------------------------------------ *)
Section GL.
Variables (as_ : nat) (W old : list N).
Hypothesis HlenW : length W = as_.
Hypothesis Hlow : forall i, (i < as_)%nat ->
  N.land (wn W i) 65535 <= 258 /\ (N.to_nat (258 - N.land (wn W i) 65535) < length old)%nat.

Lemma gl_inner_ok d : forall k fuel len i,
  fuel = (as_ - i)%nat -> (i + k <= as_)%nat -> length len = length old ->
  exists len', gl_inner fuel W len i (N.of_nat k) d = GOk (len', (i + k)%nat) /\ length len' = length old.
Proof.
  induction k as [|k IH]; intros fuel len i Hf Hk HL.
  - exists len. rewrite Nat.add_0_r. destruct fuel; cbn [gl_inner N.of_nat N.eqb]; auto.
  - destruct fuel as [|f]; [lia|]. cbn [gl_inner].
    destruct (N.eqb_spec (N.of_nat (S k)) 0) as [Hbad|_]; [lia|].
    rewrite mrd_ok by lia. cbn [gbind]. fold (wn W i).
    destruct (Hlow i ltac:(lia)) as [Hl1 Hl2]. change MAX_ALPHA_SIZE with 258.
    destruct (N.ltb_spec 258 (N.land (wn W i) 65535)) as [Hbad|_]; [lia|].
    rewrite mwr_ok by lia. cbn [gbind].
    replace (N.of_nat (S k) - 1) with (N.of_nat k) by lia.
    destruct (IH f (upd len (N.to_nat (258 - N.land (wn W i) 65535)) d) (S i)) as (len' & Hrun & HL');
      try lia.
    + rewrite upd_length. exact HL.
    + exists len'. rewrite Hrun. replace (S i + k)%nat with (i + S k)%nat by lia. auto.
Qed.

Lemma gl_outer_ok : forall n pre rest len i c,
  length rest = S n -> nth n rest 0 = 0 ->
  N.of_nat i + lsum rest = N.of_nat as_ ->
  c * (2 * 2 ^ N.of_nat n) + 2 * kraft rest = 4294967296 ->
  length len = length old ->
  exists len', gl_outer n as_ W (pre ++ rest) len i c (N.of_nat (length pre)) = GOk (len', as_, 2147483648).
Proof.
  induction n as [|n IH]; intros pre rest len i c Hlen Hlast Hsum Hkr HL.
  - destruct rest as [|x [|y r]]; cbn [length] in Hlen; try lia.
    cbn [nth] in Hlast. subst x. cbn [lsum kraft length N.of_nat] in *. change (2 ^ 0) with 1 in Hkr.
    cbn [gl_outer]. exists len. f_equal. f_equal; [f_equal; lia|lia].
  - destruct rest as [|k rest]; cbn [length] in Hlen; [lia|].
    cbn [nth] in Hlast. cbn [lsum] in Hsum. cbn [kraft] in Hkr.
    replace (length rest) with (S n) in Hkr by lia. rewrite !pow2_S in Hkr.
    pose proof (pow2_pos n) as HX. set (X := 2 ^ N.of_nat n) in *.
    cbn [gl_outer]. rewrite Nat2N.id.
    rewrite mrd_ok by (rewrite app_length; cbn [length]; lia). cbn [gbind].
    rewrite nth_middle.
    destruct (gl_inner_ok (N.of_nat (length pre)) (N.to_nat k) (as_ - i) len i eq_refl ltac:(lia) HL)
      as (len' & Hrun & HL').
    rewrite N2Nat.id in Hrun. rewrite Hrun. cbn [gbind].
    assert (Hck : c + k <= 1073741824) by nia.
    rewrite (u32_small (c + k)) by (rewrite U32_val; lia).
    rewrite N.shiftl_mul_pow2. change (2 ^ 1) with 2.
    rewrite u32_small by (rewrite U32_val; lia).
    destruct (IH (pre ++ [k]) rest len' (i + N.to_nat k)%nat ((c + k) * 2)) as (len'' & Hrun2);
      try assumption; try lia.
    rewrite <- app_assoc in Hrun2. cbn [app] in Hrun2.
    replace (N.of_nat (length (pre ++ [k]))) with (N.of_nat (length pre) + 1) in Hrun2
      by (rewrite app_length; cbn [length]; lia).
    exists len''. exact Hrun2.
Qed.

End GL.

Theorem cd_gl_total : forall as_ W0 W V old,
  (3 <= as_ <= 258)%nat -> BtPost as_ W0 W V ->
  (forall i, (i < as_)%nat -> N.land (wn W0 i) 65535 <= MAX_ALPHA_SIZE /\
                              (N.to_nat (MAX_ALPHA_SIZE - N.land (wn W0 i) 65535) < length old)%nat) ->
  exists count len, compute_depths V as_ = GOk count /\
    gl_outer (S (N.to_nat MAX_HUFF_CODE_LENGTH)) as_ W count old 0 0 0
      = GOk (len, as_, N.shiftl 1 (MAX_HUFF_CODE_LENGTH + 1)).
Proof.
  intros as_ W0 W V old Has (HlenW & HlenV & Hlow & Hpar & Hhg1 & Hmono & Hstep2 & Hroot) Hold.
  destruct (compute_depths_ok as_ W V Has HlenV Hpar Hhg1 Hmono Hstep2 Hroot)
    as (count & Hcd & Hcl & Hc31 & Hcs & Hck).
  assert (Hlow' : forall i, (i < as_)%nat ->
            N.land (wn W i) 65535 <= 258 /\ (N.to_nat (258 - N.land (wn W i) 65535) < length old)%nat).
  { intros i Hi. rewrite (Hlow i Hi). exact (Hold i Hi). }
  change (S (N.to_nat MAX_HUFF_CODE_LENGTH)) with 31%nat.
  change (N.shiftl 1 (MAX_HUFF_CODE_LENGTH + 1)) with 2147483648.
  destruct (gl_outer_ok as_ W old HlenW Hlow' 31 [] count old 0%nat 0) as (len & Hrun); try assumption; try lia.
  exists count, len. split; [exact Hcd|exact Hrun].
Qed.

Print Assumptions cd_gl_total.
